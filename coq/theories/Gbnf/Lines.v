(* Compositionality of the recogniser over lines: finished rules are never inspected again (frame lemma), so
   a text whose lines are each recognised on their own parses to the concatenation of the per-line rules. *)
From OV Require Import Base.Strs Gbnf.Syntax Gbnf.Safe.
Open Scope N_scope.

Definition shift (R : grammar) (st : pst) : pst :=
  mkP (p_mode st) (p_name st) (p_top st) (p_stack st) (p_acc st) (p_neg st) (p_cls st) (R ++ p_rules st).

Ltac crush :=
  repeat (match goal with
          | |- context [if ?b then _ else _] => destruct b
          | |- context [match ?x with _ => _ end] => destruct x
          end; cbn);
  try rewrite <- ?app_assoc; try reflexivity.

Lemma step_shift R st c : gbnf_step false (shift R st) c = shift R (gbnf_step false st c).
Proof.
  destruct st as [m nm tp stk acc ng cl rl]. unfold shift. cbn [p_mode p_name p_top p_stack p_acc p_neg p_cls p_rules].
  destruct m; unfold gbnf_step; cbn [p_mode p_name p_top p_stack p_acc p_neg p_cls p_rules];
    unfold space_step, dispatch, cls_head, got_char, after_item, add_item, apply_rep, finish_rule, err, set_mode, set_acc, set_top, set_cls, nested;
    cbn [p_mode p_name p_top p_stack p_acc p_neg p_cls p_rules f_done f_cur];
    crush.
Qed.
