(* C12, part 1: facts about the recogniser automaton itself (us_ok = false, llama.cpp's dialect).
   - the FRAME lemma: the automaton only ever appends to p_rules and never reads it (`step_pre`, `run_pre`),
     hence a line recognised on its own (Safe.line_rule) is recognised in any between-rules state (`line_frame`);
   - payload lemmas: runs over symbolic identifier characters, plain / escaped literal bodies, comment bodies. *)
From OV Require Import Base.Strs Gen.GbnfGen Gbnf.Syntax Gbnf.Compiler Gbnf.Safe Gbnf.Facts.
Open Scope N_scope.

Notation step := (gbnf_step false).
Notation runf := (run false).

(* ---- the frame lemma ------------------------------------------------------------------------------- *)
Definition pre (R : grammar) (st : pst) : pst :=
  mkP (p_mode st) (p_name st) (p_top st) (p_stack st) (p_acc st) (p_neg st) (p_cls st) (R ++ p_rules st).

Ltac prj := cbn [p_mode p_name p_top p_stack p_acc p_neg p_cls p_rules f_done f_cur].

(* head-level case split: the same scrutinee on both sides *)
Ltac hd :=
  repeat match goal with
         | |- (if ?b then _ else _) = pre _ (if ?b then _ else _) => destruct b
         end.

Lemma apply_rep_pre R lo hi st : apply_rep lo hi (pre R st) = pre R (apply_rep lo hi st).
Proof.
  unfold apply_rep. change (p_top (pre R st)) with (p_top st).
  destruct (rev (f_cur (p_top st))) as [|last before]; [reflexivity|].
  destruct (item_nonempty last); reflexivity.
Qed.

Lemma rep_then_pre R lo hi st :
  (let st' := apply_rep lo hi (pre R st) in match p_mode st' with MErr => st' | _ => after_item st' end)
  = pre R (let st' := apply_rep lo hi st in match p_mode st' with MErr => st' | _ => after_item st' end).
Proof.
  cbv zeta. rewrite apply_rep_pre. set (y := apply_rep lo hi st).
  change (p_mode (pre R y)) with (p_mode y). destruct (p_mode y); reflexivity.
Qed.

Lemma finish_rule_pre R st : finish_rule (pre R st) = pre R (finish_rule st).
Proof. unfold finish_rule, pre. prj. rewrite app_assoc. reflexivity. Qed.

Lemma got_char_pre R e ch st : got_char e ch (pre R st) = pre R (got_char e ch st).
Proof. destruct e; reflexivity. Qed.

Lemma cls_head_pre R st c : cls_head (pre R st) c = pre R (cls_head st c).
Proof. unfold cls_head. hd; reflexivity. Qed.

Lemma dispatch_pre R k st c : dispatch false k (pre R st) c = pre R (dispatch false k st c).
Proof.
  destruct k; unfold dispatch.
  - hd; reflexivity.
  - hd; reflexivity.
  - hd; try reflexivity; try apply rep_then_pre.
    change (p_stack (pre R st)) with (p_stack st). destruct (p_stack st) as [|outer stack'].
    + hd; [apply finish_rule_pre|reflexivity].
    + hd; reflexivity.
  - hd; reflexivity.
  - hd; try reflexivity; apply rep_then_pre.
  - hd; try reflexivity; apply rep_then_pre.
  - hd; try reflexivity; apply rep_then_pre.
Qed.

Lemma space_step_pre R nl k st c : space_step false nl k (pre R st) c = pre R (space_step false nl k st c).
Proof. unfold space_step. hd; try reflexivity. apply dispatch_pre. Qed.

Lemma step_pre R st c : step (pre R st) c = pre R (step st c).
Proof.
  unfold gbnf_step. change (p_mode (pre R st)) with (p_mode st).
  destruct (p_mode st) eqn:Em.
  - apply space_step_pre.
  - hd; [apply space_step_pre|reflexivity].
  - change (p_acc (pre R st)) with (p_acc st). hd; [reflexivity|].
    change (mkP (MSpace false KDef) (p_acc st) frame0 [] [] false [] (p_rules (pre R st)))
      with (pre R (mkP (MSpace false KDef) (p_acc st) frame0 [] [] false [] (p_rules st))).
    apply space_step_pre.
  - hd; reflexivity.
  - hd; reflexivity.
  - hd; try reflexivity; apply got_char_pre.
  - destruct (hex_val c); [|reflexivity]. destruct hleft as [|[|l]]; try reflexivity. apply got_char_pre.
  - change (p_acc (pre R st)) with (p_acc st). hd; [reflexivity|].
    cbv zeta.
    change (add_item (IRef (p_acc st)) (set_acc [] (pre R st)))
      with (pre R (add_item (IRef (p_acc st)) (set_acc [] st))).
    apply space_step_pre.
  - hd; [reflexivity|apply cls_head_pre].
  - apply cls_head_pre.
  - hd; [reflexivity|].
    change (set_cls (p_neg (pre R st)) (p_cls (pre R st) ++ [(lo, None)]) (pre R st))
      with (pre R (set_cls (p_neg st) (p_cls st ++ [(lo, None)]) st)).
    apply cls_head_pre.
  - hd; try reflexivity.
    change (set_cls (p_neg (pre R st)) (p_cls (pre R st) ++ [(lo, None); (c_dash, None)]) (pre R st))
      with (pre R (set_cls (p_neg st) (p_cls st ++ [(lo, None); (c_dash, None)]) st)).
    apply cls_head_pre.
  - hd; [reflexivity|]. destruct lo; apply space_step_pre.
  - reflexivity.
Qed.

Lemma run_pre R s : forall st, runf (pre R st) s = pre R (runf st s).
Proof.
  induction s as [|c s IH]; intro st; [reflexivity|].
  unfold run in *. cbn [fold_left]. rewrite step_pre. apply IH.
Qed.

Lemma top_pre R : top R = pre R init.
Proof. unfold top, pre, init. prj. rewrite app_nil_r. reflexivity. Qed.

Lemma is_top_fresh_eq st : is_top_fresh st = true -> st = top (p_rules st).
Proof.
  destruct st as [m nm [d c] stk acc neg cls rules]. unfold is_top_fresh, top, frame0. prj.
  destruct m as [nl k| | | | | | | | | | | | |]; try discriminate.
  destruct nl; [|discriminate]. destruct k; try discriminate.
  destruct nm; [|discriminate]. destruct d; [|discriminate]. destruct c; [|discriminate].
  destruct stk; [|discriminate]. destruct acc; [|discriminate]. destruct neg; [discriminate|].
  destruct cls; [|discriminate]. reflexivity.
Qed.

Lemma line_rule_run l r : line_rule l = Some r -> runf init (l ++ [c_nl]) = top [r].
Proof.
  unfold line_rule. destruct (is_top_fresh _) eqn:E; [|discriminate].
  apply is_top_fresh_eq in E. destruct (p_rules _) as [|r' [|? ?]] eqn:Er; try discriminate.
  intro H. injection H as <-. exact E.
Qed.

(* finished rules are never re-read: a line recognised on its own is recognised after any finished rules *)
Theorem line_frame l r R : line_rule l = Some r -> runf (top R) (l ++ [c_nl]) = top (R ++ [r]).
Proof.
  intro H. rewrite top_pre, run_pre, (line_rule_run _ _ H). reflexivity.
Qed.

Lemma blank_frame R : runf (top R) [c_nl] = top R.
Proof. reflexivity. Qed.

(* ---- payload lemmas ---------------------------------------------------------------------------------- *)
Lemma run_cons st c s : runf st (c :: s) = runf (step st c) s.
Proof. reflexivity. Qed.

Lemma run_nil st : runf st [] = st.
Proof. reflexivity. Qed.

Definition wordc (c : N) : bool := is_word_char false c.
Definition plainc (c : N) : bool := negb (N.eqb c c_dq) && negb (N.eqb c c_bs).
Definition nonl (c : N) : bool := negb (N.eqb c c_cr) && negb (N.eqb c c_nl).
Definition nz (c : N) : bool := negb (N.eqb c 0).

(* rule-name characters *)
Lemma run_rulename s : forall nm tp stk a neg cls R, forallb wordc s = true ->
  runf (mkP MRuleName nm tp stk a neg cls R) s = mkP MRuleName nm tp stk (a ++ s) neg cls R.
Proof.
  induction s as [|c s IH]; intros nm tp stk a neg cls R H.
  - rewrite app_nil_r. reflexivity.
  - cbn [forallb] in H. apply andb_true_iff in H as [Hc Hs]. rewrite run_cons.
    unfold gbnf_step. prj. unfold wordc in Hc. rewrite Hc. unfold set_acc. prj.
    rewrite IH by exact Hs. rewrite <- app_assoc. reflexivity.
Qed.

Lemma run_ref s : forall nm tp stk a neg cls R, forallb wordc s = true ->
  runf (mkP MRef nm tp stk a neg cls R) s = mkP MRef nm tp stk (a ++ s) neg cls R.
Proof.
  induction s as [|c s IH]; intros nm tp stk a neg cls R H.
  - rewrite app_nil_r. reflexivity.
  - cbn [forallb] in H. apply andb_true_iff in H as [Hc Hs]. rewrite run_cons.
    unfold gbnf_step. prj. unfold wordc in Hc. rewrite Hc. unfold set_acc. prj.
    rewrite IH by exact Hs. rewrite <- app_assoc. reflexivity.
Qed.

(* literal body without quote / backslash *)
Lemma run_lit_plain s : forall nm tp stk a neg cls R, forallb plainc s = true ->
  runf (mkP MLit nm tp stk a neg cls R) s = mkP MLit nm tp stk (a ++ s) neg cls R.
Proof.
  induction s as [|c s IH]; intros nm tp stk a neg cls R H.
  - rewrite app_nil_r. reflexivity.
  - cbn [forallb] in H. apply andb_true_iff in H as [Hc Hs]. rewrite run_cons.
    unfold plainc in Hc. apply andb_true_iff in Hc as [H1 H2]. apply negb_true_iff in H1, H2.
    unfold gbnf_step. prj. rewrite H1, H2. unfold set_acc. prj.
    rewrite IH by exact Hs. rewrite <- app_assoc. reflexivity.
Qed.

(* literal body produced by _escape_literal: any string *)
Lemma run_lit_esc s : forall nm tp stk a neg cls R,
  runf (mkP MLit nm tp stk a neg cls R) (flat_map gesc s) = mkP MLit nm tp stk (a ++ s) neg cls R.
Proof.
  induction s as [|c s IH]; intros nm tp stk a neg cls R.
  - rewrite app_nil_r. reflexivity.
  - cbn [flat_map]. rewrite run_app. unfold gesc at 1.
    destruct (N.eqb_spec c c_bs) as [->|H1]; [|destruct (N.eqb_spec c c_dq) as [->|H2]].
    + change (runf (mkP MLit nm tp stk a neg cls R) [c_bs; c_bs]) with (mkP MLit nm tp stk (a ++ [c_bs]) neg cls R).
      rewrite IH, <- app_assoc. reflexivity.
    + change (runf (mkP MLit nm tp stk a neg cls R) [c_bs; c_dq]) with (mkP MLit nm tp stk (a ++ [c_dq]) neg cls R).
      rewrite IH, <- app_assoc. reflexivity.
    + rewrite run_cons, run_nil. unfold gbnf_step. prj.
      rewrite (proj2 (N.eqb_neq c c_dq)), (proj2 (N.eqb_neq c c_bs)) by assumption. unfold set_acc. prj.
      rewrite IH, <- app_assoc. reflexivity.
Qed.

(* comment body *)
Lemma run_comment s : forall nl k nm tp stk a neg cls R, forallb nonl s = true ->
  runf (mkP (MComment nl k) nm tp stk a neg cls R) s = mkP (MComment nl k) nm tp stk a neg cls R.
Proof.
  induction s as [|c s IH]; intros nl k nm tp stk a neg cls R H; [reflexivity|].
  cbn [forallb] in H. apply andb_true_iff in H as [Hc Hs]. rewrite run_cons.
  unfold nonl in Hc. apply andb_true_iff in Hc as [H1 H2]. apply negb_true_iff in H1, H2.
  unfold gbnf_step. prj. rewrite H1, H2. cbn [orb]. apply IH. exact Hs.
Qed.

(* ---- alphanumeric characters are none of the special characters ---------------------------------------- *)
Lemma alnum_neq c k : is_alnum c = true -> is_alnum k = false -> N.eqb c k = false.
Proof. intros H K. destruct (N.eqb_spec c k) as [->|]; [congruence|reflexivity]. Qed.

Lemma alnum_wordc c : is_alnum c = true -> wordc c = true.
Proof. intro H. unfold wordc, is_word_char. rewrite H. reflexivity. Qed.

Lemma alnum_all_wordc s : forallb is_alnum s = true -> forallb wordc s = true.
Proof.
  induction s as [|c s IH]; [reflexivity|]. cbn [forallb]. intro H. apply andb_true_iff in H as [H1 H2].
  rewrite (alnum_wordc _ H1), IH by exact H2. reflexivity.
Qed.

(* first character of a rule name, between rules *)
Lemma step_top_alnum R c : is_alnum c = true -> step (top R) c = mkP MRuleName [] frame0 [] [c] false [] R.
Proof.
  intro H. unfold gbnf_step, top. prj. unfold space_step.
  rewrite (alnum_neq c c_sp), (alnum_neq c c_tab), (alnum_neq c c_hash), (alnum_neq c c_cr), (alnum_neq c c_nl)
    by (exact H || reflexivity).
  cbn [orb andb]. unfold dispatch. rewrite (alnum_wordc _ H : is_word_char false c = true). reflexivity.
Qed.

(* first character of a reference, at an item boundary *)
Lemma step_seq_alnum nl nm tp stk a neg cls R c : is_alnum c = true ->
  step (mkP (MSpace nl KSeq) nm tp stk a neg cls R) c = mkP MRef nm tp stk [c] neg cls R.
Proof.
  intro H. unfold gbnf_step. prj. unfold space_step.
  rewrite (alnum_neq c c_sp), (alnum_neq c c_tab), (alnum_neq c c_hash), (alnum_neq c c_cr), (alnum_neq c c_nl)
    by (exact H || reflexivity).
  cbn [orb]. rewrite andb_false_r. unfold dispatch.
  rewrite (alnum_neq c c_dq), (alnum_neq c c_lbr) by (exact H || reflexivity).
  rewrite (alnum_wordc _ H : is_word_char false c = true). reflexivity.
Qed.
