(* C12, part 1: facts about the recogniser automaton itself (us_ok = false, llama.cpp's dialect).
   - the FRAME lemma: the automaton only ever appends to p_rules and never reads it (`step_pre`, `run_pre`),
     hence a line recognised on its own (Safe.line_rule) is recognised in any between-rules state (`line_frame`);
   - payload lemmas: runs over symbolic identifier characters, plain / escaped literal bodies, comment bodies. *)
From OV Require Import Base.Strs Gen.GbnfGen Gbnf.Syntax Gbnf.Compiler Gbnf.Safe Gbnf.Facts.
Open Scope N_scope.

Notation step := (gbnf_step false).
Notation runf := (run false).

(* ---- the frame lemma ------------------------------------------------------------------------------- *)
Definition pre (R : grammar) (st : pst) : pst :=
  mkP (p_mode st) (p_name st) (p_top st) (p_stack st) (p_acc st) (p_neg st) (p_cls st) (R ++ p_rules st).

Ltac prj := cbn [p_mode p_name p_top p_stack p_acc p_neg p_cls p_rules f_done f_cur].

Ltac unf :=
  cbv [space_step dispatch cls_head got_char after_item add_item apply_rep set_mode set_acc set_top set_cls
       err nested finish_rule frame_alts pre]; prj.

Ltac brk :=
  repeat (match goal with
          | |- context [if ?b then _ else _] => destruct b
          | |- context [match ?x with _ => _ end] => destruct x
          end; prj).

Ltac fin := try reflexivity; try (rewrite <- app_assoc; reflexivity); try (rewrite app_assoc; reflexivity).

Lemma step_pre R st c : step (pre R st) c = pre R (step st c).
Proof.
  destruct st as [m nm tp stk acc neg cls rules].
  destruct m; unfold gbnf_step; unf.
  - (* MSpace *) destruct k; brk; fin.
  - (* MComment *) destruct k; brk; fin.
  - brk; fin.
  - brk; fin.
  - brk; fin.
  - brk; fin.
  - brk; fin.
  - brk; fin.
  - brk; fin.
  - brk; fin.
  - brk; fin.
  - brk; fin.
  - brk; fin.
  - reflexivity.
Qed.

Lemma run_pre R s : forall st, runf (pre R st) s = pre R (runf st s).
Proof.
  induction s as [|c s IH]; intro st; [reflexivity|].
  unfold run in *. cbn [fold_left]. rewrite step_pre. apply IH.
Qed.

Lemma top_pre R : top R = pre R init.
Proof. unfold top, pre, init. prj. rewrite app_nil_r. reflexivity. Qed.

Lemma is_top_fresh_eq st : is_top_fresh st = true -> st = top (p_rules st).
Proof.
  destruct st as [m nm [d c] stk acc neg cls rules]. unfold is_top_fresh, top, frame0. prj.
  destruct m as [nl k| | | | | | | | | | | | |]; try discriminate.
  destruct nl; [|discriminate]. destruct k; try discriminate.
  destruct nm; [|discriminate]. destruct d; [|discriminate]. destruct c; [|discriminate].
  destruct stk; [|discriminate]. destruct acc; [|discriminate]. destruct neg; [discriminate|].
  destruct cls; [|discriminate]. reflexivity.
Qed.

Lemma line_rule_run l r : line_rule l = Some r -> runf init (l ++ [c_nl]) = top [r].
Proof.
  unfold line_rule. destruct (is_top_fresh _) eqn:E; [|discriminate].
  apply is_top_fresh_eq in E. destruct (p_rules _) as [|r' [|? ?]] eqn:Er; try discriminate.
  intro H. injection H as <-. exact E.
Qed.

(* finished rules are never re-read: a line recognised on its own is recognised after any finished rules *)
Theorem line_frame l r R : line_rule l = Some r -> runf (top R) (l ++ [c_nl]) = top (R ++ [r]).
Proof.
  intro H. rewrite top_pre, run_pre, (line_rule_run _ _ H). reflexivity.
Qed.

Lemma blank_frame R : runf (top R) [c_nl] = top R.
Proof. reflexivity. Qed.
