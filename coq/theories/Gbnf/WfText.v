(* C12, part 3: the STRUCTURED view of compile_schema and the parse of the whole text.
   - `schema_lines_eq`: the interpreter of the generated (guard, template) list, evaluated once and for all with
     the hole functions abstract: the list of lines of every compiled grammar;
   - `run_lines`: rule lines / blank lines are consumed one by one (uses the frame lemma);
   - the header comment, the `field ::= (a | b | ...)` line, the envelope-start line;
   - `compile_nz`: the text contains no NUL (so the C-string cut is the identity);
   - `parse_compile`: gbnf_parse (compile_schema s env) = Some (grammar_of s env). *)
From OV Require Import Base.Strs Gen.GbnfGen Gbnf.Syntax Gbnf.Compiler Gbnf.Safe Gbnf.Facts Gbnf.WfAuto Gbnf.WfLines.
Require Coq.Strings.String.
Import Coq.Strings.String.StringSyntax.
Open Scope N_scope.

(* ---- the lines of a compiled grammar --------------------------------------------------------------------- *)
Definition guard_g (g : str) (fs : list field) (env : bool) : bool :=
  if str_eqb g g_always then true
  else if str_eqb g g_has_fields then negb (is_nil fs)
  else if str_eqb g g_no_fields then is_nil fs
  else if str_eqb g g_envelope then env
  else if str_eqb g g_no_envelope then negb env
  else false.

Definition lines_g (hs : str -> str) (hf : field -> str -> str) (fs : list field) (env : bool) : list str :=
  flat_map (fun e : str * list gpart =>
              if str_eqb (fst e) g_per_field then map (fun f => inst (hf f) (snd e)) fs
              else if guard_g (fst e) fs env then [inst hs (snd e)] else [])
           gbnf_schema_prog.

Lemma schema_lines_g s env : schema_lines s env = lines_g (hole_schema s) (hole_field s) (sc_fields s) env.
Proof. reflexivity. Qed.

Definition L_hdr := lit "# GBNF Grammar for OCTAVE schema: ".
Definition L_ws := lit "ws ::= [ \t\n]*".
Definition L_field_open := lit "field ::= (".
Definition L_content_f := lit "content ::= (field ws)*".
Definition L_content_nf := lit "content ::= [^\n]*".
Definition L_env_start := lit "envelope-start ::= ""===".
Definition L_env_start_close := lit "===""".
Definition L_env_end := lit "envelope-end ::= ""===END===""".
Definition L_meta_block := lit "meta-block ::= ""META:"" ws meta-content".
Definition L_meta_content := lit "meta-content ::= (meta-field ws)*".
Definition L_meta_field := lit "meta-field ::= [A-Z_]+ ""::"" ws [^\n]+".
Definition L_doc_env := lit "document ::= envelope-start ws meta-block ws content ws envelope-end".
Definition L_doc_noenv := lit "document ::= content".
Definition L_root := lit "root ::= document".

Definition lines_expected (hs : str -> str) (hf : field -> str -> str) (fs : list field) (env : bool) : list str :=
  [L_hdr ++ hs h_schema_name_1line ++ []; []; L_ws; []]
  ++ map (fun f => hf f h_rule_name ++ fl_a ++ hf f h_field_name_esc ++ fl_b ++ hf f h_pattern ++ []) fs
  ++ [[]]
  ++ (if is_nil fs then [L_content_nf] else [L_field_open ++ hs h_field_refs ++ [41]; L_content_f])
  ++ [[]]
  ++ (if env then [L_env_start ++ hs h_schema_upper_esc ++ L_env_start_close; L_env_end; []; L_meta_block; L_meta_content;
                   L_meta_field; []; L_doc_env] else [L_doc_noenv])
  ++ [[]; L_root].

(* the generated template list, run with abstract hole functions *)
Lemma lines_g_eq hs hf fs env : lines_g hs hf fs env = lines_expected hs hf fs env.
Proof. destruct fs, env; vm_compute; reflexivity. Qed.

Definition refs_line (s : schema) : str := L_field_open ++ join gbnf_schema_refs_sep (rule_names s) ++ [41].
Definition env_start_line (s : schema) : str :=
  L_env_start ++ escape_literal (py_upper (sc_name s) (sc_upper s)) ++ L_env_start_close.

Definition mid_lines (s : schema) (env : bool) : list str :=
  [[]; L_ws; []]
  ++ map field_line (sc_fields s)
  ++ [[]]
  ++ (if is_nil (sc_fields s) then [L_content_nf] else [refs_line s; L_content_f])
  ++ [[]]
  ++ (if env then [env_start_line s; L_env_end; []; L_meta_block; L_meta_content; L_meta_field; []; L_doc_env]
      else [L_doc_noenv])
  ++ [[]].

Theorem schema_lines_eq s env :
  schema_lines s env = ((L_hdr ++ one_line (sc_name s)) :: mid_lines s env) ++ [L_root].
Proof.
  rewrite schema_lines_g, lines_g_eq. unfold lines_expected, mid_lines.
  assert (Em : map (fun f => hole_field s f h_rule_name ++ fl_a ++ hole_field s f h_field_name_esc ++ fl_b
                             ++ hole_field s f h_pattern ++ []) (sc_fields s) = map field_line (sc_fields s)).
  { apply map_ext. intro f. rewrite app_nil_r, field_line_eq. reflexivity. }
  rewrite Em. rewrite (app_nil_r (hole_schema s h_schema_name_1line)).
  change (hole_schema s h_schema_name_1line) with (one_line (sc_name s)).
  change (L_field_open ++ hole_schema s h_field_refs ++ [41]) with (refs_line s).
  change (L_env_start ++ hole_schema s h_schema_upper_esc ++ L_env_start_close) with (env_start_line s).
  cbn [app]. rewrite <- !app_assoc. cbn [app].
  repeat (rewrite <- app_comm_cons || rewrite <- app_assoc). reflexivity.
Qed.

(* ---- join with newline -------------------------------------------------------------------------------------- *)
Definition unlines (ls : list str) : str := flat_map (fun l => l ++ [c_nl]) ls.

Lemma join_cons sep x t : t <> [] -> join sep (x :: t) = x ++ sep ++ join sep t.
Proof. destruct t; [congruence|reflexivity]. Qed.

Lemma join_nl_snoc ls last : join [c_nl] (ls ++ [last]) = unlines ls ++ last.
Proof.
  induction ls as [|l ls IH]; [reflexivity|].
  change ((l :: ls) ++ [last]) with (l :: (ls ++ [last])).
  rewrite join_cons by (destruct ls; discriminate). rewrite IH.
  unfold unlines. cbn [flat_map]. rewrite <- !app_assoc. reflexivity.
Qed.

Lemma unlines_app a b : unlines (a ++ b) = unlines a ++ unlines b.
Proof. apply flat_map_app. Qed.

(* ---- rule lines and blank lines are consumed one by one -------------------------------------------------- *)
Definition line_out (l : str) : option grammar :=
  match line_rule l with
  | Some r => Some [r]
  | None => if is_nil l then Some [] else None
  end.

Fixpoint lines_rules (ls : list str) : option grammar :=
  match ls with
  | [] => Some []
  | l :: ls' => match line_out l, lines_rules ls' with
                | Some a, Some b => Some (a ++ b)
                | _, _ => None
                end
  end.

Lemma run_lines ls : forall R G, lines_rules ls = Some G -> runf (top R) (unlines ls) = top (R ++ G).
Proof.
  induction ls as [|l ls IH]; intros R G H.
  - injection H as <-. rewrite app_nil_r. reflexivity.
  - cbn [lines_rules] in H. destruct (line_out l) as [a|] eqn:Ea; [|discriminate].
    destruct (lines_rules ls) as [b|] eqn:Eb; [|discriminate]. injection H as <-.
    unfold unlines. cbn [flat_map]. fold (unlines ls). rewrite run_app.
    unfold line_out in Ea. destruct (line_rule l) as [r|] eqn:Er.
    + injection Ea as <-. rewrite (line_frame _ _ R Er), (IH _ _ eq_refl), <- app_assoc. reflexivity.
    + destruct l; [|discriminate]. injection Ea as <-. cbn [app]. rewrite blank_frame, (IH _ _ eq_refl). reflexivity.
Qed.

Lemma lines_rules_app a b A B : lines_rules a = Some A -> lines_rules b = Some B -> lines_rules (a ++ b) = Some (A ++ B).
Proof.
  revert A. induction a as [|l a IH]; intros A Ha Hb.
  - injection Ha as <-. exact Hb.
  - cbn [lines_rules app] in *. destruct (line_out l) as [x|]; [|discriminate].
    destruct (lines_rules a) as [y|]; [|discriminate]. injection Ha as <-.
    rewrite (IH _ eq_refl Hb), app_assoc. reflexivity.
Qed.

Definition dummy_rule : rule := mkRule [] [].
Definition rule_of_line (l : str) : rule := match line_rule l with Some r => r | None => dummy_rule end.
Definition field_rule (f : field) : rule := rule_of_line (field_line f).

Lemma lines_rules_fields allowed fs : forallb (regex_field_ok allowed) fs = true ->
  lines_rules (map field_line fs) = Some (map field_rule fs).
Proof.
  induction fs as [|f fs IH]; [reflexivity|]. cbn [forallb map lines_rules]. intro H.
  apply andb_true_iff in H as [H1 H2]. rewrite (IH H2).
  unfold regex_field_ok in H1. unfold line_out, field_rule, rule_of_line.
  destruct (line_rule (field_line f)); [reflexivity|discriminate].
Qed.

(* ---- the header comment ----------------------------------------------------------------------------------- *)
Lemma header_run nm : forallb nonl nm = true -> runf init ((L_hdr ++ nm) ++ [c_nl]) = top [].
Proof.
  intro H. rewrite <- app_assoc, run_app.
  replace (runf init L_hdr) with (mkP (MComment true KTop) [] frame0 [] [] false [] []) by (vm_compute; reflexivity).
  rewrite run_app, run_comment by exact H. reflexivity.
Qed.

Lemma comment_safe_nonl s : comment_safe s = true -> forallb nonl s = true.
Proof.
  unfold comment_safe. intro H. apply andb_true_iff in H as [H H3]. apply andb_true_iff in H as [H1 H2].
  apply negb_true_iff in H1, H2. apply (forallb_and (notc c_cr) (notc c_nl)); apply memb_false_notc; assumption.
Qed.

(* ---- field ::= (a | b | ...) ------------------------------------------------------------------------------- *)
Lemma ref_item nm done outer n : name_ok n = true ->
  runf (Gs nm done outer) (n ++ gbnf_schema_refs_sep) = Gs nm (done ++ [[IRef n]]) outer.
Proof.
  intro Hn. destruct n as [|c n]; [discriminate|].
  unfold name_ok in Hn. cbn [is_nil negb andb forallb] in Hn. apply andb_true_iff in Hn as [Hc Hn].
  rewrite <- app_comm_cons, run_cons. unfold Gs at 1. rewrite step_seq_alnum by exact Hc.
  rewrite run_app, run_ref by (apply alnum_all_wordc; exact Hn).
  vm_compute. reflexivity.
Qed.

Lemma ref_last nm done outer n : name_ok n = true ->
  runf (Gs nm done outer) (n ++ [41; c_nl])
  = top [mkRule nm (f_done outer ++ [f_cur outer ++ [IGroup (done ++ [[IRef n]])]])].
Proof.
  intro Hn. destruct n as [|c n]; [discriminate|].
  unfold name_ok in Hn. cbn [is_nil negb andb forallb] in Hn. apply andb_true_iff in Hn as [Hc Hn].
  rewrite <- app_comm_cons, run_cons. unfold Gs at 1. rewrite step_seq_alnum by exact Hc.
  rewrite run_app, run_ref by (apply alnum_all_wordc; exact Hn).
  vm_compute. reflexivity.
Qed.

Lemma refs_run nm outer ns : forall n done, forallb name_ok (n :: ns) = true ->
  runf (Gs nm done outer) (join gbnf_schema_refs_sep (n :: ns) ++ [41; c_nl])
  = top [mkRule nm (f_done outer ++ [f_cur outer ++ [IGroup (done ++ map (fun n => [IRef n]) (n :: ns))]])].
Proof.
  induction ns as [|m ns IH]; intros n done H; cbn [forallb] in H; apply andb_true_iff in H as [H1 H2].
  - cbn [map join]. apply ref_last. exact H1.
  - rewrite join_cons by discriminate.
    rewrite <- !app_assoc. rewrite (app_assoc n), run_app, ref_item, IH by assumption.
    cbn [map]. rewrite <- app_assoc. reflexivity.
Qed.

Definition refs_rule (names : list str) : rule := mkRule n_field [[IGroup (map (fun n => [IRef n]) names)]].

Lemma refs_line_rule s : sc_fields s <> [] -> forallb name_ok (rule_names s) = true ->
  line_rule (refs_line s) = Some (refs_rule (rule_names s)).
Proof.
  intros Hne H. unfold line_rule, refs_line.
  destruct (rule_names s) as [|n ns] eqn:E.
  { exfalso. unfold rule_names in E. destruct (sc_fields s); [congruence|discriminate]. }
  rewrite <- !app_assoc, run_app.
  replace (runf init L_field_open) with (Gs n_field [] frame0) by (vm_compute; reflexivity).
  cbn [app]. rewrite refs_run by exact H. reflexivity.
Qed.

(* ---- envelope-start ::= (quoted) ===NAME=== --------------------------------------------------------------------------- *)
(* the upper-cased schema name goes through _escape_literal (repo 481c8b3): for EVERY name the line is one rule whose
   only item is the literal ===NAME=== with the name read back as itself *)
Lemma env_start_line_rule s :
  line_rule (env_start_line s)
  = Some (mkRule n_env_start [[ILit ([61;61;61] ++ py_upper (sc_name s) (sc_upper s) ++ [61;61;61])]]).
Proof.
  unfold line_rule, env_start_line. rewrite escape_literal_spec. generalize (py_upper (sc_name s) (sc_upper s)). intro up.
  rewrite <- !app_assoc, run_app.
  replace (runf init L_env_start) with (mkP MLit n_env_start frame0 [] [61;61;61] false [] []) by (vm_compute; reflexivity).
  rewrite run_app, run_lit_esc.
  change (L_env_start_close ++ [c_nl]) with [61;61;61;c_dq;c_nl].
  change [61;61;61;c_dq;c_nl] with ([61;61;61] ++ [c_dq;c_nl]).
  rewrite run_app, run_lit_plain by reflexivity. rewrite <- app_assoc. reflexivity.
Qed.

(* ---- the last line has no newline ------------------------------------------------------------------------------ *)
Definition root_rule : rule := mkRule s_root [[IRef n_document]].

Lemma root_finish R : gbnf_finish (runf (top R) L_root) = Some (R ++ [root_rule]).
Proof. vm_compute. reflexivity. Qed.

(* ---- no NUL in the text -------------------------------------------------------------------------------------- *)
Lemma cut_nul_id s : forallb nz s = true -> cut_nul s = s.
Proof.
  unfold cut_nul. induction s as [|c s IH]; [reflexivity|]. cbn [forallb takeb]. intro H.
  apply andb_true_iff in H as [H1 H2]. unfold nz in H1. rewrite H1, IH by exact H2. reflexivity.
Qed.

Lemma forallb_join (P : N -> bool) sep ls : forallb P sep = true -> forallb (forallb P) ls = true ->
  forallb P (join sep ls) = true.
Proof.
  intro Hs. induction ls as [|l ls IH]; [reflexivity|]. cbn [forallb]. intro H. apply andb_true_iff in H as [H1 H2].
  destruct ls as [|m ls]; [exact H1|]. rewrite join_cons by discriminate.
  rewrite !forallb_app, H1, Hs, IH by exact H2. reflexivity.
Qed.

Lemma gesc_nz s : forallb nz s = true -> forallb nz (flat_map gesc s) = true.
Proof.
  induction s as [|c s IH]; [reflexivity|]. cbn [forallb flat_map]. intro H. apply andb_true_iff in H as [H1 H2].
  rewrite forallb_app, IH by exact H2. rewrite andb_true_r. unfold gesc.
  destruct (N.eqb c c_bs); [reflexivity|]. destruct (N.eqb c c_dq); [reflexivity|]. cbn. rewrite H1. reflexivity.
Qed.

Lemma quote_lit_nz v : no_nul v = true -> forallb nz (quote_lit v) = true.
Proof.
  intro H. unfold quote_lit. rewrite escape_literal_spec, !forallb_app, gesc_nz by (apply no_nul_nz; exact H). reflexivity.
Qed.

Lemma type_table_nz : forallb (fun p => forallb nz (snd p)) gbnf_type_patterns = true.
Proof. vm_compute. reflexivity. Qed.

Lemma compile_type_nz t : forallb nz (compile_type t) = true.
Proof.
  unfold compile_type. destruct (find _ _) as [p|] eqn:E; [|reflexivity].
  apply find_some in E. destruct E as [E _]. exact (proj1 (forallb_forall _ _) type_table_nz _ E).
Qed.

Lemma constraint_nz c : not_regex c = true -> cst_scope_ok c = true -> forallb nz (compile_constraint c) = true.
Proof.
  intros Hr Hs. destruct c; cbn [compile_constraint]; try discriminate; try reflexivity.
  - cbn [cst_scope_ok] in Hs. apply andb_true_iff in Hs as [_ Hs].
    unfold compile_enum. rewrite !forallb_app. rewrite forallb_join; [reflexivity|reflexivity|].
    induction vals as [|v vals IH]; [reflexivity|]. cbn [forallb map] in *. apply andb_true_iff in Hs as [H1 H2].
    rewrite quote_lit_nz, IH by assumption. reflexivity.
  - apply quote_lit_nz. exact Hs.
  - apply compile_type_nz.
  - destruct (gbnf_min_length_threshold <=? n); reflexivity.
Qed.

(* ---- the header shows the schema name on ONE line (repo b75eb16): no CR / LF in it, for EVERY name ----------------- *)
Lemma splitlines_go_pres (P Q : N -> bool) :
  (forall c, Q c = true -> is_linebreak c = false -> P c = true) ->
  forall s cur, forallb Q s = true -> forallb P cur = true -> forallb (forallb P) (splitlines_go cur s) = true.
Proof.
  intro HPQ.
  assert (G : forall n s cur, (length s <= n)%nat -> forallb Q s = true -> forallb P cur = true ->
                              forallb (forallb P) (splitlines_go cur s) = true).
  { induction n as [|n IH]; intros s cur Hn Hs Hc; destruct s as [|c s']; cbn [splitlines_go].
    - destruct cur as [|x cur']; [reflexivity|]. cbn [forallb]. rewrite forallb_rev, Hc. reflexivity.
    - cbn [length] in Hn. lia.
    - destruct cur as [|x cur']; [reflexivity|]. cbn [forallb]. rewrite forallb_rev, Hc. reflexivity.
    - cbn [length] in Hn. cbn [forallb] in Hs. apply andb_true_iff in Hs as [Hq Hs'].
      assert (Hr : forallb P (rev cur) = true) by (rewrite forallb_rev; exact Hc).
      assert (Hn' : (length s' <= n)%nat) by lia.
      destruct (N.eqb c 13).
      + destruct s' as [|d s''].
        * cbn [forallb]. rewrite Hr. apply IH; [exact Hn'|reflexivity|reflexivity].
        * destruct (N.eqb d 10); cbn [forallb]; rewrite Hr; cbn [andb].
          -- cbn [forallb] in Hs'. apply andb_true_iff in Hs' as [_ Hs'']. cbn [length] in Hn'.
             apply IH; [lia|exact Hs''|reflexivity].
          -- apply IH; [exact Hn'|exact Hs'|reflexivity].
      + destruct (is_linebreak c) eqn:El.
        * cbn [forallb]. rewrite Hr. apply IH; [exact Hn'|exact Hs'|reflexivity].
        * apply IH; [exact Hn'|exact Hs'|]. cbn [forallb]. rewrite (HPQ c Hq El), Hc. reflexivity. }
  intros s cur. apply (G (length s)). apply Nat.le_refl.
Qed.

Lemma one_line_nonl s : forallb nonl (one_line s) = true.
Proof.
  unfold one_line. apply forallb_join; [reflexivity|]. unfold py_splitlines.
  apply (splitlines_go_pres nonl (fun _ => true)); [|apply forallb_forall; reflexivity|reflexivity].
  intros c _ H. unfold is_linebreak in H. unfold nonl. change c_cr with 13. change c_nl with 10.
  destruct (N.eqb c 10); [cbn in H; discriminate|]. destruct (N.eqb c 13); [cbn in H; discriminate|]. reflexivity.
Qed.

Lemma one_line_nz s : forallb nz s = true -> forallb nz (one_line s) = true.
Proof.
  intro H. unfold one_line. apply forallb_join; [reflexivity|]. unfold py_splitlines.
  apply (splitlines_go_pres nz nz); [intros c Hc _; exact Hc|exact H|reflexivity].
Qed.

(* the one clause safe_schema does not contain: the compiled pattern of a REGEX member has no NUL
   (Safe.line_rule recognises the line WITHOUT the C-string cut) *)
Definition regex_nul_free (s : schema) : bool :=
  forallb (fun f => negb (is_regex_field f) || no_nul (pattern_of f)) (sc_fields s).

Lemma pattern_nz f :
  (is_regex_field f = true -> no_nul (pattern_of f) = true) ->
  match picked f with Some c => cst_scope_ok c | None => true end = true ->
  forallb nz (pattern_of f) = true.
Proof.
  intros Hre Hs. destruct (is_regex_field f) eqn:Er; [apply no_nul_nz, Hre; reflexivity|].
  rewrite pattern_of_picked. unfold is_regex_field in Er.
  destruct (picked f) as [c|]; [|reflexivity].
  apply constraint_nz; [|exact Hs]. destruct c; try reflexivity. discriminate.
Qed.

Lemma alnum_all_nz s : forallb is_alnum s = true -> forallb nz s = true.
Proof. apply forallb_impl. exact alnum_nz. Qed.

Lemma name_ok_nz n : name_ok n = true -> forallb nz n = true.
Proof. unfold name_ok. intro H. apply andb_true_iff in H as [_ H]. apply alnum_all_nz. exact H. Qed.

Lemma comment_safe_nz s : comment_safe s = true -> forallb nz s = true.
Proof.
  unfold comment_safe. intro H. apply andb_true_iff in H as [_ H]. apply negb_true_iff in H.
  apply (memb_false_notc 0). exact H.
Qed.

Lemma names_ok s env : safe_schema s env = true -> forallb name_ok (rule_names s) = true.
Proof.
  intro H. destruct (safe_schema_parts _ _ H) as [Hus _ _ _ _ _ _].
  apply forallb_forall. intros n Hn. unfold rule_names in Hn. apply in_map_iff in Hn as (f & <- & Hf).
  apply rule_name_ok. apply (existsb_false_forall _ _ Hus). unfold rule_names. apply in_map. exact Hf.
Qed.

Theorem compile_nz s env : safe_schema s env = true -> regex_nul_free s = true ->
  forallb nz (compile_schema s env) = true.
Proof.
  intros H Hz. pose proof (names_ok _ _ H) as Hnames.
  destruct (safe_schema_parts _ _ H) as [_ _ _ Hfn Hsn _ Hsc].
  apply andb_true_iff in Hsn as [Hsn Hup].
  change (compile_schema s env) with (join gbnf_schema_line_sep (schema_lines s env)). apply forallb_join; [reflexivity|]. rewrite schema_lines_eq.
  rewrite forallb_app. apply andb_true_iff. split; [|reflexivity].
  cbn [forallb]. apply andb_true_iff. split.
  { rewrite forallb_app, (one_line_nz (sc_name s)) by (apply no_nul_nz; exact Hsn). reflexivity. }
  assert (Hf : forallb (forallb nz) (map field_line (sc_fields s)) = true).
  { apply forallb_forall. intros l Hl. apply in_map_iff in Hl as (f & <- & Hf).
    rewrite field_line_eq, escape_literal_spec, !forallb_app.
    rewrite (name_ok_nz (rule_name_of f)) by (apply (proj1 (forallb_forall _ _) Hnames); unfold rule_names; apply in_map; exact Hf).
    rewrite (gesc_nz (fd_name f)) by (apply no_nul_nz; exact (proj1 (forallb_forall _ _) Hfn f Hf)).
    rewrite (pattern_nz f); [reflexivity| |exact (proj1 (forallb_forall _ _) Hsc f Hf)].
    intro Er. pose proof (proj1 (forallb_forall _ _) Hz f Hf) as Q. cbn beta in Q. rewrite Er in Q. exact Q. }
  assert (Hr : forallb (forallb nz) (if is_nil (sc_fields s) then [L_content_nf] else [refs_line s; L_content_f]) = true).
  { destruct (is_nil (sc_fields s)); [reflexivity|]. cbn [forallb]. apply andb_true_iff. split; [|reflexivity].
    unfold refs_line. rewrite !forallb_app. rewrite forallb_join; [reflexivity|reflexivity|].
    apply forallb_forall. intros n Hn. apply name_ok_nz. exact (proj1 (forallb_forall _ _) Hnames n Hn). }
  assert (Hy : forallb (forallb nz) (if env then [env_start_line s; L_env_end; []; L_meta_block; L_meta_content;
                                                  L_meta_field; []; L_doc_env] else [L_doc_noenv]) = true).
  { destruct env; [|reflexivity]. cbn [forallb]. apply andb_true_iff. split; [|reflexivity].
    unfold env_start_line. rewrite escape_literal_spec, !forallb_app.
    cbn [negb orb] in Hup. rewrite (gesc_nz (py_upper (sc_name s) (sc_upper s))) by (apply no_nul_nz; exact Hup). reflexivity. }
  unfold mid_lines. rewrite !forallb_app.
  repeat (apply andb_true_iff; split); try reflexivity; assumption.
Qed.

(* ---- the grammar the recogniser returns -------------------------------------------------------------------------- *)
Definition env_start_rule (s : schema) : rule := rule_of_line (env_start_line s).

Definition grammar_of (s : schema) (env : bool) : grammar :=
  [rule_of_line L_ws]
  ++ map field_rule (sc_fields s)
  ++ (if is_nil (sc_fields s) then [rule_of_line L_content_nf]
      else [refs_rule (rule_names s); rule_of_line L_content_f])
  ++ (if env then [env_start_rule s; rule_of_line L_env_end; rule_of_line L_meta_block; rule_of_line L_meta_content;
                   rule_of_line L_meta_field; rule_of_line L_doc_env]
      else [rule_of_line L_doc_noenv])
  ++ [root_rule].

Lemma mid_lines_rules s env : safe_schema s env = true ->
  lines_rules (mid_lines s env) = Some (removelast (grammar_of s env)).
Proof.
  intro H. pose proof (all_fields_ok _ _ H) as Hall. pose proof (names_ok _ _ H) as Hnames.
  unfold mid_lines, grammar_of.
  assert (E1 : lines_rules [[]; L_ws; []] = Some [rule_of_line L_ws]) by (vm_compute; reflexivity).
  pose proof (lines_rules_fields _ _ Hall) as E2.
  assert (E3 : lines_rules ([[]] ++ (if is_nil (sc_fields s) then [L_content_nf] else [refs_line s; L_content_f]) ++ [[]])
               = Some (if is_nil (sc_fields s) then [rule_of_line L_content_nf]
                       else [refs_rule (rule_names s); rule_of_line L_content_f])).
  { destruct (sc_fields s) as [|f0 fs0] eqn:Ef; cbn [is_nil]; [vm_compute; reflexivity|].
    assert (Er : line_rule (refs_line s) = Some (refs_rule (rule_names s))).
    { apply refs_line_rule; [rewrite Ef; discriminate|exact Hnames]. }
    cbn [app lines_rules]. unfold line_out at 2. rewrite Er.
    replace (line_out []) with (Some (@nil rule)) by (vm_compute; reflexivity).
    replace (line_out L_content_f) with (Some [rule_of_line L_content_f]) by (vm_compute; reflexivity).
    reflexivity. }
  assert (E4 : lines_rules ((if env then [env_start_line s; L_env_end; []; L_meta_block; L_meta_content; L_meta_field; []; L_doc_env]
                             else [L_doc_noenv]) ++ [[]])
               = Some (if env then [env_start_rule s; rule_of_line L_env_end; rule_of_line L_meta_block;
                                    rule_of_line L_meta_content; rule_of_line L_meta_field; rule_of_line L_doc_env]
                       else [rule_of_line L_doc_noenv])).
  { destruct env; [|vm_compute; reflexivity].
    pose proof (env_start_line_rule s) as Ex.
    change ([env_start_line s; L_env_end; []; L_meta_block; L_meta_content; L_meta_field; []; L_doc_env] ++ [[]])
      with ([env_start_line s] ++ [L_env_end; []; L_meta_block; L_meta_content; L_meta_field; []; L_doc_env; []]).
    change [env_start_rule s; rule_of_line L_env_end; rule_of_line L_meta_block; rule_of_line L_meta_content;
            rule_of_line L_meta_field; rule_of_line L_doc_env]
      with ([env_start_rule s] ++ [rule_of_line L_env_end; rule_of_line L_meta_block; rule_of_line L_meta_content;
            rule_of_line L_meta_field; rule_of_line L_doc_env]).
    apply lines_rules_app; [|vm_compute; reflexivity].
    cbn [lines_rules]. unfold line_out, env_start_rule, rule_of_line. rewrite Ex. reflexivity. }
  (* glue *)
  set (X := if is_nil (sc_fields s) then [L_content_nf] else [refs_line s; L_content_f]) in *.
  set (Y := if env then [env_start_line s; L_env_end; []; L_meta_block; L_meta_content; L_meta_field; []; L_doc_env]
            else [L_doc_noenv]) in *.
  set (GX := if is_nil (sc_fields s) then [rule_of_line L_content_nf]
             else [refs_rule (rule_names s); rule_of_line L_content_f]) in *.
  set (GY := if env then [env_start_rule s; rule_of_line L_env_end; rule_of_line L_meta_block;
                          rule_of_line L_meta_content; rule_of_line L_meta_field; rule_of_line L_doc_env]
             else [rule_of_line L_doc_noenv]) in *.
  replace ([[]; L_ws; []] ++ map field_line (sc_fields s) ++ [[]] ++ X ++ [[]] ++ Y ++ [[]])
    with ([[]; L_ws; []] ++ map field_line (sc_fields s) ++ ([[]] ++ X ++ [[]]) ++ (Y ++ [[]]))
    by (rewrite <- !app_assoc; reflexivity).
  replace (removelast ([rule_of_line L_ws] ++ map field_rule (sc_fields s) ++ GX ++ GY ++ [root_rule]))
    with ([rule_of_line L_ws] ++ map field_rule (sc_fields s) ++ GX ++ GY).
  2:{ rewrite !app_assoc. rewrite removelast_last. reflexivity. }
  repeat (apply lines_rules_app; [assumption|]). exact E4.
Qed.

(* the whole text is recognised, and this is the grammar *)
Theorem parse_compile s env : safe_schema s env = true -> regex_nul_free s = true ->
  gbnf_parse (compile_schema s env) = Some (grammar_of s env).
Proof.
  intros H Hz. unfold gbnf_parse, gbnf_parse_g. rewrite cut_nul_id by (apply compile_nz; assumption).
  change (compile_schema s env) with (join gbnf_schema_line_sep (schema_lines s env)). rewrite schema_lines_eq.
  change gbnf_schema_line_sep with [c_nl]. rewrite join_nl_snoc.
  unfold unlines. cbn [flat_map]. fold (unlines (mid_lines s env)).
  do 2 rewrite run_app. rewrite header_run by apply one_line_nonl.
  rewrite (run_lines _ _ _ (mid_lines_rules _ _ H)). rewrite root_finish. cbn [app].
  f_equal. unfold grammar_of. rewrite !app_assoc. rewrite removelast_last. reflexivity.
Qed.
