(* C12, part 2: every line the schema compiler emits is recognised as one rule.
   - character set of sanitised rule names WITHOUT the no-capital hypothesis ([A-Za-z0-9_]);
   - the field-line prefix  name ::= (quoted ESCAPED field name) (quoted ::) ws  from the initial state: the literal is
     read back as the field name itself for every name (repo 481c8b3; no quote/backslash restriction any more);
   - `pat_good p`: the right-hand side p completes the rule, adds no reference and no empty alternative;
     proved for every fragment the _compile_* functions return except REGEX (fixed fragments by computation
     with the rule name / field name kept symbolic, CONST and ENUM by induction over the escaped text);
   - `all_fields_ok`: under safe_schema every field line satisfies Safe.regex_field_ok (REGEX members by
     clause 5, all others by the lemmas above). *)
From OV Require Import Base.Strs Gen.GbnfGen Gbnf.Syntax Gbnf.Compiler Gbnf.Safe Gbnf.Facts Gbnf.WfAuto.
Open Scope N_scope.

(* ---- small boolean / list facts ---------------------------------------------------------------------- *)
Lemma forallb_impl {A} (p q : A -> bool) l : (forall x, p x = true -> q x = true) -> forallb p l = true -> forallb q l = true.
Proof.
  intro H. induction l as [|x l IH]; [reflexivity|]. cbn [forallb]. intro E. apply andb_true_iff in E as [E1 E2].
  rewrite (H _ E1), IH by exact E2. reflexivity.
Qed.

Definition notc (k c : N) : bool := negb (N.eqb c k).

Lemma memb_false_notc k s : memb k s = false -> forallb (notc k) s = true.
Proof.
  unfold memb. induction s as [|c s IH]; [reflexivity|]. cbn [existsb forallb]. intro H.
  apply orb_false_iff in H as [H1 H2]. unfold notc at 1. rewrite N.eqb_sym, H1. cbn. apply IH. exact H2.
Qed.

Lemma forallb_and {A} (p q : A -> bool) l : forallb p l = true -> forallb q l = true -> forallb (fun x => p x && q x) l = true.
Proof.
  induction l as [|x l IH]; [reflexivity|]. cbn [forallb]. intros H1 H2.
  apply andb_true_iff in H1 as [A1 A2]. apply andb_true_iff in H2 as [B1 B2]. rewrite A1, B1, IH by assumption. reflexivity.
Qed.

Lemma lit_plain_plainc s : lit_plain s = true -> forallb plainc s = true.
Proof.
  unfold lit_plain. intro H. apply andb_true_iff in H as [H H3]. apply andb_true_iff in H as [H1 H2].
  apply negb_true_iff in H1, H2. apply (forallb_and (notc c_dq) (notc c_bs)); apply memb_false_notc; assumption.
Qed.

Lemma lit_plain_nz s : lit_plain s = true -> forallb nz s = true.
Proof.
  unfold lit_plain. intro H. apply andb_true_iff in H as [_ H3]. apply negb_true_iff in H3.
  apply (memb_false_notc 0). exact H3.
Qed.

Lemma no_nul_nz s : no_nul s = true -> forallb nz s = true.
Proof. unfold no_nul. intro H. apply negb_true_iff in H. apply (memb_false_notc 0). exact H. Qed.

(* ---- sanitised names: [A-Za-z0-9_] for every input ------------------------------------------------------ *)
Definition okc (c : N) : bool := is_alnum c || N.eqb c c_us.

Lemma san_ok_okc c : san_ok c = true -> okc c = true.
Proof.
  unfold san_ok, okc, is_alnum, is_alpha. destruct (is_upper c), (is_lower c), (is_digit c), (N.eqb c c_us); cbn; congruence.
Qed.

Lemma san_char_okc c : forallb okc (san_char c) = true.
Proof.
  unfold san_char. destruct (is_ascii c).
  - destruct (is_alnum c || N.eqb c c_us) eqn:E; [|reflexivity]. cbn. unfold okc. rewrite E. reflexivity.
  - rewrite !forallb_app. rewrite (forallb_impl san_ok okc (to_hex c) san_ok_okc).
    + reflexivity.
    + unfold to_hex. apply hex_go_ok. reflexivity.
Qed.

Lemma flat_map_san_okc s : forallb okc (flat_map san_char s) = true.
Proof.
  induction s as [|c s IH]; [reflexivity|]. cbn [flat_map]. rewrite forallb_app, san_char_okc, IH. reflexivity.
Qed.

Theorem sanitize_okc l : forallb okc (sanitize_lowered l) = true.
Proof.
  unfold sanitize_lowered.
  set (r0 := flat_map san_char (replace_chain gbnf_sanitize_chain l)).
  assert (H0 : forallb okc r0 = true) by apply flat_map_san_okc.
  set (r1 := match r0 with c :: _ => if is_digit c then gbnf_sanitize_digit_prefix ++ r0 else r0 | [] => r0 end).
  assert (H1 : forallb okc r1 = true).
  { unfold r1. destruct r0 as [|c r0']; [reflexivity|]. destruct (is_digit c); [|exact H0].
    rewrite forallb_app, H0. reflexivity. }
  assert (H2 : forallb okc (strip_us (collapse_loop (length r1) r1)) = true).
  { apply strip_us_pres, collapse_pres; [reflexivity|exact H1]. }
  destruct (strip_us (collapse_loop (length r1) r1)); [vm_compute; reflexivity|exact H2].
Qed.

Definition name_ok (n : str) : bool := negb (is_nil n) && forallb is_alnum n.

Lemma okc_no_us s : forallb okc s = true -> memb c_us s = false -> forallb is_alnum s = true.
Proof.
  unfold memb. induction s as [|c s IH]; [reflexivity|]. cbn [forallb existsb]. intros H M.
  apply andb_true_iff in H as [H1 H2]. apply orb_false_iff in M as [M1 M2].
  unfold okc in H1. rewrite N.eqb_sym, M1, orb_false_r in H1. rewrite H1, IH by assumption. reflexivity.
Qed.

Lemma rule_name_ok f : memb c_us (rule_name_of f) = false -> name_ok (rule_name_of f) = true.
Proof.
  intro M. unfold name_ok. apply andb_true_iff. split.
  - unfold rule_name_of, sanitize_rule_name in *. destruct (sanitize_lowered _) eqn:E; [|reflexivity].
    exfalso. exact (sanitize_nonempty _ E).
  - apply okc_no_us; [|exact M]. apply sanitize_okc.
Qed.

Lemma alnum_nz c : is_alnum c = true -> nz c = true.
Proof. intro H. unfold nz. rewrite (alnum_neq c 0) by (exact H || reflexivity). reflexivity. Qed.

(* ---- the prefix of a field line ------------------------------------------------------------------------- *)
Definition s_cc : str := [58;58].
Definition S_pat (nm fn : str) : pst :=
  mkP (MSpace false KSeq) nm (mkFrame [] [ILit fn; ILit s_cc; IRef n_ws]) [] [] false [] [].

Definition fl_a : str := [32;58;58;61;32;34].
Definition fl_b : str := [34;32;34;58;58;34;32;119;115;32].

(* the field name goes through _escape_literal (repo 481c8b3): read back as itself, for EVERY name *)
Lemma field_prefix n fn : name_ok n = true ->
  runf init (n ++ fl_a ++ flat_map gesc fn ++ fl_b) = S_pat n fn.
Proof.
  intros Hn. destruct n as [|c n]; [discriminate|].
  unfold name_ok in Hn. cbn [is_nil negb andb forallb] in Hn. apply andb_true_iff in Hn as [Hc Hn].
  rewrite <- app_comm_cons, run_cons. change init with (top []). rewrite step_top_alnum by exact Hc.
  rewrite run_app, run_rulename by (apply alnum_all_wordc; exact Hn).
  rewrite run_app.
  replace (runf (mkP MRuleName [] frame0 [] ([c] ++ n) false [] []) fl_a)
    with (mkP MLit (c :: n) frame0 [] [] false [] []) by (vm_compute; reflexivity).
  rewrite run_app, run_lit_esc.
  vm_compute. reflexivity.
Qed.

(* ---- right-hand sides ------------------------------------------------------------------------------------- *)
Definition pat_good (p : str) : Prop := forall nm fn, exists its,
  runf (S_pat nm fn) (p ++ [c_nl]) = top [mkRule nm [[ILit fn; ILit s_cc; IRef n_ws] ++ its]]
  /\ flat_map item_refs its = [] /\ forallb item_no_empty_alt its = true.

Ltac fixed_pat :=
  let x := fresh "x" in
  intros nm fn; set (x := runf _ _); vm_compute in x; subst x;
  eexists; split; [reflexivity|split; vm_compute; reflexivity].

Lemma good_plus : pat_good gbnf_frag_required.          Proof. fixed_pat. Qed.
Lemma good_star : pat_good gbnf_frag_optional.          Proof. fixed_pat. Qed.
Lemma good_dir : pat_good gbnf_frag_dir.                Proof. fixed_pat. Qed.
Lemma good_list : pat_good gbnf_frag_list.              Proof. fixed_pat. Qed.
Lemma good_range : pat_good gbnf_frag_range.            Proof. fixed_pat. Qed.
Lemma good_maxlen : pat_good gbnf_frag_max_length.      Proof. fixed_pat. Qed.
Lemma good_minlen_ge : pat_good gbnf_frag_min_length_ge. Proof. fixed_pat. Qed.
Lemma good_minlen_lt : pat_good gbnf_frag_min_length_lt. Proof. fixed_pat. Qed.
Lemma good_date : pat_good gbnf_frag_date.              Proof. fixed_pat. Qed.
Lemma good_iso : pat_good gbnf_frag_iso8601.            Proof. fixed_pat. Qed.
Lemma good_unknown : pat_good gbnf_frag_unknown.        Proof. fixed_pat. Qed.
Lemma good_no_chain : pat_good gbnf_schema_no_chain.    Proof. fixed_pat. Qed.
Lemma good_chain_empty : pat_good gbnf_chain_empty.     Proof. fixed_pat. Qed.
Lemma good_type_default : pat_good gbnf_type_default.   Proof. fixed_pat. Qed.

(* every entry of the type_patterns table *)
Lemma good_type_table : Forall (fun p => pat_good (snd p)) gbnf_type_patterns.
Proof. unfold gbnf_type_patterns. repeat (constructor; [cbn [snd]; fixed_pat|]). constructor. Qed.

Lemma good_type t : pat_good (compile_type t).
Proof.
  unfold compile_type. destruct (find _ _) as [p|] eqn:E; [|exact good_type_default].
  apply find_some in E. destruct E as [E _]. exact (proj1 (Forall_forall _ _) good_type_table _ E).
Qed.

(* CONST: one escaped literal *)
Lemma good_const t : pat_good (compile_const t).
Proof.
  intros nm fn. exists [ILit t]. split; [|split; reflexivity].
  unfold compile_const, quote_lit. rewrite escape_literal_spec. change gbnf_quote with [c_dq].
  rewrite <- !app_assoc. cbn [app]. rewrite run_cons.
  change (step (S_pat nm fn) c_dq) with (mkP MLit nm (mkFrame [] [ILit fn; ILit s_cc; IRef n_ws]) [] [] false [] []).
  rewrite run_app, run_lit_esc. vm_compute. reflexivity.
Qed.

(* ENUM: a group of escaped literals *)
Definition Gs (nm : str) (done : galts) (outer : frame) : pst :=
  mkP (MSpace true KSeq) nm (mkFrame done []) [outer] [] false [] [].

Lemma enum_item nm done outer v :
  runf (Gs nm done outer) (quote_lit v ++ gbnf_enum_sep) = Gs nm (done ++ [[ILit v]]) outer.
Proof.
  unfold quote_lit. rewrite escape_literal_spec. change gbnf_quote with [c_dq].
  rewrite <- !app_assoc. cbn [app]. rewrite run_cons.
  change (step (Gs nm done outer) c_dq) with (mkP MLit nm (mkFrame done []) [outer] [] false [] []).
  rewrite run_app, run_lit_esc. vm_compute. reflexivity.
Qed.

Lemma enum_last nm done outer v :
  runf (Gs nm done outer) (quote_lit v ++ [41; c_nl])
  = top [mkRule nm (f_done outer ++ [f_cur outer ++ [IGroup (done ++ [[ILit v]])]])].
Proof.
  unfold quote_lit. rewrite escape_literal_spec. change gbnf_quote with [c_dq].
  rewrite <- !app_assoc. cbn [app]. rewrite run_cons.
  change (step (Gs nm done outer) c_dq) with (mkP MLit nm (mkFrame done []) [outer] [] false [] []).
  rewrite run_app, run_lit_esc. vm_compute. reflexivity.
Qed.

Lemma enum_run nm outer vs : forall v done,
  runf (Gs nm done outer) (join gbnf_enum_sep (map quote_lit (v :: vs)) ++ [41; c_nl])
  = top [mkRule nm (f_done outer ++ [f_cur outer ++ [IGroup (done ++ map (fun v => [ILit v]) (v :: vs))]])].
Proof.
  induction vs as [|w vs IH]; intros v done.
  - cbn [map join]. apply enum_last.
  - change (join gbnf_enum_sep (map quote_lit (v :: w :: vs)))
      with (quote_lit v ++ gbnf_enum_sep ++ join gbnf_enum_sep (map quote_lit (w :: vs))).
    rewrite <- !app_assoc. rewrite (app_assoc (quote_lit v)), run_app, enum_item, IH.
    cbn [map]. rewrite <- app_assoc. reflexivity.
Qed.

Lemma lit_alts_refs vs : flat_map (flat_map item_refs) (map (fun v => [ILit v]) vs) = [].
Proof. induction vs as [|v vs IH]; [reflexivity|]. cbn. exact IH. Qed.

Lemma lit_alts_noempty vs :
  forallb (fun s => negb (is_nil s) && forallb item_no_empty_alt s) (map (fun v => [ILit v]) vs) = true.
Proof. induction vs as [|v vs IH]; [reflexivity|]. cbn. exact IH. Qed.

Lemma good_enum vals : vals <> [] -> pat_good (compile_enum vals).
Proof.
  intros Hne nm fn. destruct vals as [|v vs]; [congruence|].
  exists [IGroup (map (fun v => [ILit v]) (v :: vs))]. split; [|split].
  - unfold compile_enum. change gbnf_enum_open with [40]. change gbnf_enum_close with [41].
    rewrite <- !app_assoc. cbn [app]. rewrite run_cons.
    change (step (S_pat nm fn) 40) with (Gs nm [] (mkFrame [] [ILit fn; ILit s_cc; IRef n_ws])).
    rewrite enum_run. reflexivity.
  - cbn [flat_map item_refs]. rewrite lit_alts_refs. reflexivity.
  - cbn [forallb item_no_empty_alt]. rewrite lit_alts_noempty. reflexivity.
Qed.

Definition not_regex (c : cst) : bool := match c with CRegex _ => false | _ => true end.

Lemma good_constraint c : not_regex c = true -> cst_scope_ok c = true -> pat_good (compile_constraint c).
Proof.
  intros Hr Hs. destruct c; cbn [compile_constraint]; try discriminate.
  - exact good_plus.
  - exact good_star.
  - apply good_enum. cbn [cst_scope_ok] in Hs. destruct vals; [discriminate|discriminate].
  - apply good_const.
  - apply good_type.
  - exact good_dir.
  - exact good_list.
  - exact good_range.
  - exact good_maxlen.
  - destruct (gbnf_min_length_threshold <=? n); [exact good_minlen_ge|exact good_minlen_lt].
  - exact good_date.
  - exact good_iso.
  - exact good_unknown.
Qed.

Lemma pattern_of_picked f :
  pattern_of f = match picked f with Some c => compile_constraint c | None => gbnf_chain_empty end.
Proof.
  unfold pattern_of, picked, compile_chain. destruct (fd_chain f) as [ch|]; [|reflexivity].
  destruct (chain_pick ch); reflexivity.
Qed.

Lemma good_pattern f :
  is_regex_field f = false -> match picked f with Some c => cst_scope_ok c | None => true end = true ->
  pat_good (pattern_of f).
Proof.
  intros Hr Hs. rewrite pattern_of_picked. unfold is_regex_field in Hr.
  destruct (picked f) as [c|]; [|exact good_chain_empty].
  apply good_constraint; [|exact Hs]. destruct c; try reflexivity. discriminate.
Qed.

(* ---- a whole field line ----------------------------------------------------------------------------------- *)
Lemma field_line_split f :
  field_line f ++ [c_nl] = (rule_name_of f ++ fl_a ++ flat_map gesc (fd_name f) ++ fl_b) ++ (pattern_of f ++ [c_nl]).
Proof. rewrite field_line_eq, escape_literal_spec. fold fl_a fl_b. rewrite <- !app_assoc. reflexivity. Qed.

Lemma field_ok_nonregex allowed f :
  name_ok (rule_name_of f) = true -> str_in n_ws allowed = true ->
  pat_good (pattern_of f) -> regex_field_ok allowed f = true.
Proof.
  intros Hn Hw Hp. destruct (Hp (rule_name_of f) (fd_name f)) as (its & E & Hrf & Hne).
  unfold regex_field_ok, line_rule. rewrite field_line_split, run_app, field_prefix, E by assumption.
  cbn [is_top_fresh top p_mode p_name p_top p_stack p_acc p_neg p_cls p_rules frame0 f_done f_cur is_nil negb andb].
  cbn [r_name r_alts]. rewrite str_eqb_refl. cbn [andb].
  unfold alts_refs, alts_no_empty. cbn [app flat_map item_refs forallb is_nil negb item_no_empty_alt andb].
  rewrite Hrf, Hne. cbn [app forallb]. rewrite Hw. reflexivity.
Qed.

(* ---- decomposition of safe_schema ------------------------------------------------------------------------ *)
Lemma bit_zero b k : bit b k = 0 -> b = false.
Proof.
  destruct b; [|reflexivity]. unfold bit. intro H. exfalso.
  apply N.shiftl_eq_0_iff in H. discriminate.
Qed.

Record safe_parts (s : schema) (env : bool) : Prop := mkSafe {
  sp_us : existsb (memb c_us) (rule_names s) = false;
  sp_nodup : nodupb (rule_names s) = true;
  sp_struct : existsb (fun n => str_in n (struct_names env)) (rule_names s) = false;
  sp_fname : forallb (fun f => no_nul (fd_name f)) (sc_fields s) = true;
  sp_sname : no_nul (sc_name s) && (negb env || no_nul (py_upper (sc_name s) (sc_upper s))) = true;
  sp_regex : forallb (fun f => negb (is_regex_field f) || regex_field_ok (rule_names s ++ struct_names env) f) (sc_fields s) = true;
  sp_scope : forallb (fun f => match picked f with Some c => cst_scope_ok c | None => true end) (sc_fields s) = true }.

Lemma safe_schema_parts s env : safe_schema s env = true -> safe_parts s env.
Proof.
  unfold safe_schema, schema_clauses. rewrite pin_field_name_escaped, pin_schema_name_escaped, pin_header_one_line.
  cbn [name_lit_ok header_ok].
  intro H. apply N.eqb_eq in H.
  repeat (apply N.eq_add_0 in H; let H' := fresh "B" in destruct H as [H H']).
  apply bit_zero in H, B, B0, B1, B2, B3, B4.
  apply negb_false_iff in B, B0, B1, B2, B4.
  constructor; assumption.
Qed.

Lemma existsb_false_forall {A} (p : A -> bool) l : existsb p l = false -> forall x, In x l -> p x = false.
Proof.
  induction l as [|y l IH]; intros H x Hx; [destruct Hx|]. cbn in H. apply orb_false_iff in H as [H1 H2].
  destruct Hx as [<-|Hx]; [exact H1|exact (IH H2 x Hx)].
Qed.

Lemma ws_in_struct env l : str_in n_ws (l ++ struct_names env) = true.
Proof.
  induction l as [|x l IH]; [destruct env; reflexivity|]. cbn [app str_in]. rewrite IH. apply orb_true_r.
Qed.

(* under safe_schema EVERY field line is recognised as one rule with the expected name, allowed references and
   no empty alternative *)
Theorem all_fields_ok s env : safe_schema s env = true ->
  forallb (regex_field_ok (rule_names s ++ struct_names env)) (sc_fields s) = true.
Proof.
  intro H. destruct (safe_schema_parts _ _ H) as [Hus _ _ _ _ Hre Hsc].
  apply forallb_forall. intros f Hf.
  pose proof (proj1 (forallb_forall _ _) Hre f Hf) as R1.
  pose proof (proj1 (forallb_forall _ _) Hsc f Hf) as R2. cbn beta in R1, R2.
  destruct (is_regex_field f) eqn:Er; [exact R1|].
  apply field_ok_nonregex.
  - apply rule_name_ok. apply (existsb_false_forall _ _ Hus). unfold rule_names. apply in_map. exact Hf.
  - apply ws_in_struct.
  - apply good_pattern; assumption.
Qed.
