(* The decidable domain predicate `safe_schema` of C12: a conjunction of clauses, each the negation of one
   defect class of the pinned tree (or a model-scope clause).  `schema_clauses` returns the falsified clauses
   as a bit mask; the harness attributes a failing grammar to a finding iff the corresponding bit is set. *)
From OV Require Import Base.Strs Gen.GbnfGen Gbnf.Syntax Gbnf.Compiler.
Open Scope N_scope.

Definition n_ws : str := [119;115].
Definition n_field : str := [102;105;101;108;100].
Definition n_content : str := [99;111;110;116;101;110;116].
Definition n_document : str := [100;111;99;117;109;101;110;116].
Definition n_root : str := s_root.
Definition n_env_start : str := [101;110;118;101;108;111;112;101;45;115;116;97;114;116].
Definition n_env_end : str := [101;110;118;101;108;111;112;101;45;101;110;100].
Definition n_meta_block : str := [109;101;116;97;45;98;108;111;99;107].
Definition n_meta_content : str := [109;101;116;97;45;99;111;110;116;101;110;116].
Definition n_meta_field : str := [109;101;116;97;45;102;105;101;108;100].

(* rule names defined by the fixed lines of compile_schema (for a schema with at least one field) *)
Definition struct_names (env : bool) : list str :=
  [n_ws; n_field; n_content] ++ (if env then [n_env_start; n_env_end; n_meta_block; n_meta_content; n_meta_field] else [])
  ++ [n_document; n_root].

Definition rule_names (s : schema) : list str := map rule_name_of (sc_fields s).

Definition top (R : grammar) : pst := mkP (MSpace true KTop) [] frame0 [] [] false [] R.

Definition is_top_fresh (st : pst) : bool :=
  match p_mode st with MSpace true KTop => true | _ => false end
  && is_nil (p_name st) && is_nil (f_done (p_top st)) && is_nil (f_cur (p_top st)) && is_nil (p_stack st)
  && is_nil (p_acc st) && negb (p_neg st) && is_nil (p_cls st).

(* one complete rule line, recognised on its own *)
Definition line_rule (line : str) : option rule :=
  let st := run false init (line ++ [c_nl]) in
  if is_top_fresh st then match p_rules st with [r] => Some r | _ => None end else None.

(* `field_line f` (Gbnf/Compiler.v) is the per_field template of the generated list instantiated at f *)

Definition picked (f : field) : option cst :=
  match fd_chain f with Some ch => chain_pick ch | None => None end.

Definition is_regex_field (f : field) : bool := match picked f with Some (CRegex _) => true | _ => false end.

(* REGEX member: its own line must be recognised, define the expected name, reference only defined names
   and contain no empty alternative (decidable: computed by the recogniser) *)
Definition regex_field_ok (allowed : list str) (f : field) : bool :=
  match line_rule (field_line f) with
  | Some r => str_eqb (r_name r) (rule_name_of f)
              && forallb (fun x => str_in x allowed) (alts_refs (r_alts r))
              && alts_no_empty (r_alts r)
  | None => false
  end.

Definition lit_plain (s : str) : bool := negb (memb c_dq s) && negb (memb c_bs s) && negb (memb 0 s).
Definition no_nul (s : str) : bool := negb (memb 0 s).
(* a name written between double quotes: when the templates escape it (flag from the translator; repo 481c8b3) the
   only requirement left is that it has no NUL (the text is a C string); when they paste it raw it must also be free
   of quote and backslash.  A line break inside a literal is accepted by the recogniser in both cases. *)
Definition name_lit_ok (escaped : bool) (s : str) : bool := if escaped then no_nul s else lit_plain s.
Definition comment_safe (s : str) : bool := negb (memb c_nl s) && negb (memb c_cr s) && negb (memb 0 s).
(* the schema name in the header comment: written on one line (flag from the translator; repo b75eb16) only a NUL is
   excluded; pasted raw it must also be free of CR / LF *)
Definition header_ok (one_line : bool) (s : str) : bool := if one_line then no_nul s else comment_safe s.

Definition cst_scope_ok (c : cst) : bool :=
  match c with
  | CEnum vals => negb (is_nil vals) && forallb no_nul vals
  | CConst t => no_nul t
  | _ => true
  end.

Definition bit (b : bool) (k : N) : N := if b then N.shiftl 1 k else 0.

(* falsified clauses:
   bit0 a sanitised rule name contains `_`            bit1 two fields share a sanitised rule name
   bit2 a sanitised rule name is a structural name    bit3 a field name is not re-read from its literal
                                                          (escaped templates: only a NUL in the name)
   bit4 the schema name breaks the header comment (one-line header: only NUL; raw header: also CR / LF) or the
        envelope literal (escaped: only NUL)
   bit5 a REGEX member does not compile to a well-formed right-hand side
   bit6 model scope: empty ENUM or NUL inside a constant *)
Definition schema_clauses (s : schema) (env : bool) : N :=
  let names := rule_names s in
  let allowed := names ++ struct_names env in
  bit (existsb (memb c_us) names) 0
  + bit (negb (nodupb names)) 1
  + bit (existsb (fun n => str_in n (struct_names env)) names) 2
  + bit (negb (forallb (fun f => name_lit_ok gbnf_field_name_escaped (fd_name f)) (sc_fields s))) 3
  + bit (negb (header_ok gbnf_header_name_one_line (sc_name s)
               && (negb env || name_lit_ok gbnf_schema_name_escaped (py_upper (sc_name s) (sc_upper s))))) 4
  + bit (negb (forallb (fun f => negb (is_regex_field f) || regex_field_ok allowed f) (sc_fields s))) 5
  + bit (negb (forallb (fun f => match picked f with Some c => cst_scope_ok c | None => true end) (sc_fields s))) 6.

Definition safe_schema (s : schema) (env : bool) : bool := N.eqb (schema_clauses s env) 0.

(* the domain as it stood BEFORE repo commit 481c8b3 (names pasted raw): kept to state that the class grew *)
Definition schema_clauses_raw_names (s : schema) (env : bool) : N :=
  let names := rule_names s in
  let allowed := names ++ struct_names env in
  bit (existsb (memb c_us) names) 0
  + bit (negb (nodupb names)) 1
  + bit (existsb (fun n => str_in n (struct_names env)) names) 2
  + bit (negb (forallb (fun f => lit_plain (fd_name f)) (sc_fields s))) 3
  + bit (negb (comment_safe (sc_name s) && (negb env || lit_plain (py_upper (sc_name s) (sc_upper s))))) 4
  + bit (negb (forallb (fun f => negb (is_regex_field f) || regex_field_ok allowed f) (sc_fields s))) 5
  + bit (negb (forallb (fun f => match picked f with Some c => cst_scope_ok c | None => true end) (sc_fields s))) 6.
Definition safe_schema_raw_names (s : schema) (env : bool) : bool := N.eqb (schema_clauses_raw_names s env) 0.
