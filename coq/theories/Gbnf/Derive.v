(* Derivations of a (reference-free) GBNF right-hand side, and an executable bounded enumerator.
   The value fragments of the kinds C13 speaks about (CONST, ENUM, BOOLEAN, NUMBER, DATE, ISO8601) contain no
   rule reference, no negated class and no `.`; `derives` has no constructor for IRef. *)
From OV Require Import Base.Strs Gbnf.Syntax.
Open Scope N_scope.

Definition cls_mem (body : list (N * option N)) (c : N) : bool :=
  existsb (fun e => match snd e with None => N.eqb c (fst e) | Some hi => (fst e <=? c) && (c <=? hi) end) body.

Inductive d_item : item -> str -> Prop :=
| DLit s : d_item (ILit s) s
| DClass neg body c : xorb neg (cls_mem body c) = true -> d_item (IClass neg body) [c]
| DAny c : d_item IAny [c]
| DGroup alts w : d_alts alts w -> d_item (IGroup alts) w
| DRepI it lo hi n w : d_rep it n w -> lo <= N.of_nat n ->
                       match hi with Some h => N.of_nat n <= h | None => True end -> d_item (IRep it lo hi) w
with d_seq : gseq -> str -> Prop :=
| DNil : d_seq [] []
| DCons it s w1 w2 : d_item it w1 -> d_seq s w2 -> d_seq (it :: s) (w1 ++ w2)
with d_alts : galts -> str -> Prop :=
| DHere s a w : d_seq s w -> d_alts (s :: a) w
| DThere s a w : d_alts a w -> d_alts (s :: a) w
with d_rep : item -> nat -> str -> Prop :=
| DRep0 it : d_rep it 0 []
| DRepS it n w1 w2 : d_item it w1 -> d_rep it n w2 -> d_rep it (S n) (w1 ++ w2).

Definition derives (a : galts) (w : str) : Prop := d_alts a w.

(* ---- enumerator --------------------------------------------------------------------------------------
   csample: at most that many characters per class element range (the first csample-1 and the last);
   csample >= 10 is exhaustive for [0-9].  bound: maximal word length. *)
Fixpoint range_chars (n : nat) (lo : N) : str :=
  match n with O => [] | S k => lo :: range_chars k (lo + 1) end.

Definition elem_chars (csample : nat) (e : N * option N) : str :=
  match snd e with
  | None => [fst e]
  | Some hi =>
      if hi <? fst e then []
      else let all := range_chars (S (N.to_nat (hi - fst e))) (fst e) in
           if (length all <=? csample)%nat then all else firstn (csample - 1) all ++ [hi]
  end.

Definition enumerable_cls (neg : bool) : bool := negb neg.

Fixpoint enumerable (it : item) : bool :=
  match it with
  | ILit _ => true
  | IClass neg _ => negb neg
  | IRef _ => false
  | IGroup alts => forallb (forallb enumerable) alts
  | IAny => false
  | IRep i _ _ => enumerable i
  end.

Section Enum.
Variable csample : nat.

Fixpoint enum_item (fuel bound : nat) (it : item) {struct fuel} : list str :=
  match fuel with
  | O => []
  | S f =>
      match it with
      | ILit s => if (length s <=? bound)%nat then [s] else []
      | IClass false body =>
          if (1 <=? bound)%nat then map (fun c => [c]) (flat_map (elem_chars csample) body) else []
      | IClass true _ => []
      | IRef _ => []
      | IAny => []
      | IGroup alts => flat_map (enum_seq f bound) alts
      | IRep i lo hi => enum_rep f bound i (N.to_nat lo) (option_map N.to_nat hi)
      end
  end
with enum_seq (fuel bound : nat) (s : gseq) {struct fuel} : list str :=
  match fuel with
  | O => []
  | S f =>
      match s with
      | [] => [[]]
      | it :: s' =>
          flat_map (fun w1 => map (app w1) (enum_seq f (bound - length w1) s')) (enum_item f bound it)
      end
  end
with enum_rep (fuel bound : nat) (it : item) (lo : nat) (hi : option nat) {struct fuel} : list str :=
  match fuel with
  | O => []
  | S f =>
      (match lo with O => [[]] | _ => [] end) ++
      (match hi with
       | Some O => []
       | _ =>
           flat_map (fun w1 => match w1 with
                               | [] => []
                               | _ => map (app w1) (enum_rep f (bound - length w1) it (pred lo) (option_map pred hi))
                               end) (enum_item f bound it)
       end)
  end.

Definition enum_alts_raw (fuel bound : nat) (a : galts) : list str := flat_map (enum_seq fuel bound) a.
End Enum.

(* (words, complete?) : complete = the fragment is enumerable; the harness chooses bound / csample *)
Definition enum_alts (bound : nat) (csample : N) (a : galts) : list str * bool :=
  (enum_alts_raw (N.to_nat csample) (200 + 4 * bound) bound a, forallb (forallb enumerable) a).

(* the value fragment of a compiled field rule  NAME ::= "FIELD" "::" ws <fragment>  taken from grammar TEXT *)
Definition s_assign : str := [58;58].
Definition field_value_alts (text : str) : option galts :=
  match gbnf_parse_g true text with
  | Some (r :: _) =>
      match r_alts r with
      | [ILit _ :: ILit a :: IRef w :: rest] =>
          if str_eqb a s_assign && str_eqb w [119;115] then Some [rest] else None
      | _ => None
      end
  | _ => None
  end.
