(* C13: what a value fragment derives, the reader model reads and the chain model accepts.
   The fragments are the STRUCTURED value fragments the recogniser extracts from the compiled rule text
   (tie lemmas frag_*_of_text, by computation on the translator's literals). *)
From OV Require Import Base.Strs Lex.Lexer Gen.GbnfGen Gbnf.Syntax Gbnf.Compiler Gbnf.Safe Gbnf.Derive Gbnf.Read.
Open Scope N_scope.

(* ---- inversion lemmas ----------------------------------------------------------------------------------- *)
Lemma d_lit_inv s w : d_item (ILit s) w -> w = s.
Proof. intro H. inversion H. reflexivity. Qed.

Lemma d_seq1_inv it w : d_seq [it] w -> d_item it w.
Proof.
  intro H. inversion H as [|it' s' w1 w2 H1 H2]; subst. inversion H2; subst. rewrite app_nil_r. exact H1.
Qed.

Lemma d_alts_cons_inv s a w : d_alts (s :: a) w -> d_seq s w \/ d_alts a w.
Proof. intro H. inversion H; subst; [left|right]; assumption. Qed.

Lemma d_alts_nil_inv w : ~ d_alts [] w.
Proof. intro H. inversion H. Qed.

Lemma d_group_inv alts w : d_item (IGroup alts) w -> d_alts alts w.
Proof. intro H. inversion H. assumption. Qed.

(* a group of single-literal alternatives derives exactly its members *)
Lemma d_lit_alts vals : forall w, d_alts (map (fun v => [ILit v]) vals) w -> In w vals.
Proof.
  induction vals as [|v vals IH]; intros w H; cbn in H.
  - exfalso. exact (d_alts_nil_inv _ H).
  - apply d_alts_cons_inv in H as [H|H].
    + left. symmetry. apply d_lit_inv, d_seq1_inv. exact H.
    + right. apply IH. exact H.
Qed.

(* ---- the fragments, and their tie to the compiled text ----------------------------------------------- *)
Definition frag_const (txt : str) : galts := [[ILit txt]].
Definition frag_enum (vals : list str) : galts := [[IGroup (map (fun v => [ILit v]) vals)]].
Definition frag_bool : galts := [[IGroup [[ILit s_true']; [ILit s_false']]]].
Definition digit_cls : item := IClass false [(48, Some 57)].
Definition frag_number : galts :=
  [[IRep (ILit [c_dash]) 0 (Some 1); IRep digit_cls 1 None;
    IRep (IGroup [[ILit [c_dot]; IRep digit_cls 1 None]]) 0 (Some 1)]].
Definition frag_date : galts :=
  [[digit_cls; digit_cls; digit_cls; digit_cls; ILit [c_dash]; digit_cls; digit_cls; ILit [c_dash]; digit_cls; digit_cls]].

Definition s_BOOLEAN : str := [66;79;79;76;69;65;78].
Definition s_NUMBER : str := [78;85;77;66;69;82].
Definition kfield (c : cst) : field := mkField [75] [107] (Some [c]).

(* what the recogniser extracts from the rule line the compiler model emits (= the implementation's text) *)
Lemma frag_bool_of_text : field_value_alts (field_line (kfield (CType s_BOOLEAN))) = Some frag_bool.
Proof. vm_compute. reflexivity. Qed.
Lemma frag_number_of_text : field_value_alts (field_line (kfield (CType s_NUMBER))) = Some frag_number.
Proof. vm_compute. reflexivity. Qed.
Lemma frag_date_of_text : field_value_alts (field_line (kfield CDate)) = Some frag_date.
Proof. vm_compute. reflexivity. Qed.
Example frag_const_of_text_example :
  field_value_alts (field_line (kfield (CConst [97;34;98;92;99]))) = Some (frag_const [97;34;98;92;99]).
Proof. vm_compute. reflexivity. Qed.
Example frag_enum_of_text_example :
  field_value_alts (field_line (kfield (CEnum [[65]; [66;34]; [67]]))) = Some (frag_enum [[65]; [66;34]; [67]]).
Proof. vm_compute. reflexivity. Qed.

Section A.
Variable cls : N -> N.

Definition accepted (ch : list ck) (w : str) : bool :=
  match accepts ch (read_value cls w) with Some true => true | _ => false end.

(* ---- CONST: the only derivation is the constant's text ------------------------------------------------- *)
Theorem agree_const ch txt : accepted ch txt = true -> forall w, derives (frag_const txt) w -> accepted ch w = true.
Proof.
  intros Hc w H. unfold derives, frag_const in H.
  apply d_alts_cons_inv in H as [H|H]; [|exfalso; exact (d_alts_nil_inv _ H)].
  apply d_seq1_inv, d_lit_inv in H. subst. exact Hc.
Qed.

(* ---- ENUM: the derivations are exactly the members ----------------------------------------------------- *)
Theorem agree_enum ch vals : forallb (accepted ch) vals = true ->
  forall w, derives (frag_enum vals) w -> accepted ch w = true.
Proof.
  intros Hc w H. unfold derives, frag_enum in H.
  apply d_alts_cons_inv in H as [H|H]; [|exfalso; exact (d_alts_nil_inv _ H)].
  apply d_seq1_inv, d_group_inv, d_lit_alts in H.
  rewrite forallb_forall in Hc. apply Hc. exact H.
Qed.

(* ---- TYPE[BOOLEAN]: true / false, read as booleans, accepted (with or without REQ / OPT) ------------ *)
Definition bool_chains : list (list ck) := [[KTypeBool]; [KReq; KTypeBool]; [KOpt; KTypeBool]; [KTypeBool; KReq]].

Theorem agree_boolean w : derives frag_bool w ->
  (exists b, read_value cls w = RBool b) /\ forallb (fun ch => accepted ch w) bool_chains = true.
Proof.
  intro H. unfold derives, frag_bool in H.
  apply d_alts_cons_inv in H as [H|H]; [|exfalso; exact (d_alts_nil_inv _ H)].
  apply d_seq1_inv, d_group_inv in H.
  apply (d_lit_alts [s_true'; s_false']) in H. cbn [In] in H.
  destruct H as [<-|[<-|[]]]; (split; [eexists|]; vm_compute; reflexivity).
Qed.

(* ---- the refuted full statements: concrete witnesses ------------------------------------------------------ *)
Definition w_date : str := [50;48;50;52;45;48;49;45;49;53].                       (* 2024-01-15 *)
Definition w_iso : str := w_date ++ [84;49;48;58;48;48;58;48;48;90].            (* 2024-01-15T10:00:00Z *)

Lemma date_witness_derivable : derives frag_date w_date.
Proof.
  unfold derives, frag_date, w_date. apply DHere.
  repeat (match goal with
          | |- d_seq (digit_cls :: _) (?c :: ?r) => apply (DCons digit_cls _ [c] r); [apply DClass; vm_compute; reflexivity|]
          | |- d_seq (ILit ?l :: _) (_ :: ?r) => apply (DCons (ILit l) _ l r); [apply DLit|]
          end).
  apply DNil.
Qed.

Lemma date_witness_rejected :
  read_value cls w_date = RStr [50;48;50;52;32;45;48;49;32;45;49;53] /\ accepts [KDate] (read_value cls w_date) = Some false.
Proof. vm_compute. split; reflexivity. Qed.

Lemma iso_witness_rejected :
  read_value cls w_iso = RStr [50;48;50;52;32;45;48;49;32;45;49;53;32;84;49;48] /\ accepts [KIso] (read_value cls w_iso) = Some false.
Proof. vm_compute. split; reflexivity. Qed.

(* CONST[true] compiles to the literal True, read as a string, rejected by the same CONST *)
Lemma const_true_rejected : accepts [KConst (CVBool true)] (read_value cls s_True) = Some false.
Proof. vm_compute. reflexivity. Qed.

(* ENUM["true","false"]: the member true is read as a boolean; str(True) is no member and no prefix *)
Lemma enum_true_rejected : accepts [KEnum [s_true'; s_false']] (read_value cls s_true') = Some false.
Proof. vm_compute. reflexivity. Qed.

(* non-vacuity of agree_const / agree_enum *)
Example agree_const_example : accepted [KReq; KConst (CVStr [68;79;78;69])] [68;79;78;69] = true.
Proof. vm_compute. reflexivity. Qed.
Example agree_const_int_example : accepted [KConst (CVInt [52;50])] [52;50] = true.
Proof. vm_compute. reflexivity. Qed.
Example agree_enum_example : forallb (accepted [KReq; KEnum [[65;67;84]; [65;67;84;73;86;69]; [97;32;98]]]) [[65;67;84]; [65;67;84;73;86;69]; [97;32;98]] = true.
Proof. vm_compute. reflexivity. Qed.
End A.
