(* Faithful model of octave_mcp.core.gbnf_compiler.GBNFCompiler (text in, TEXT out, byte-comparable).
   Every literal comes from the translator (Gen/GbnfGen.v); the control structure the model was written
   against is pinned at the end of this file.
   Oracles (inputs, never axioms): str.lower() / str.upper() of strings containing non-ASCII characters,
   and str(const_value) of a CONST constraint (Python float/int formatting). *)
From OV Require Import Base.Strs Gen.GbnfGen Gbnf.Syntax.
Open Scope N_scope.

(* ---- Python str.replace(old,new), old non-empty: leftmost, non-overlapping ------------------------- *)
Fixpoint replace_go (old new : str) (skip : nat) (s : str) : str :=
  match s with
  | [] => []
  | c :: s' =>
      match skip with
      | S k => replace_go old new k s'
      | O => if prefixb old s then new ++ replace_go old new (length old - 1) s'
             else c :: replace_go old new 0 s'
      end
  end.
Definition py_replace (old new s : str) : str :=
  match old with [] => s | _ => replace_go old new 0 s end.
Fixpoint replace_chain (ch : list (str * str)) (s : str) : str :=
  match ch with [] => s | (a, b) :: ch' => replace_chain ch' (py_replace a b s) end.

Fixpoint contains (sub s : str) : bool :=
  match s with
  | [] => is_nil sub
  | _ :: s' => prefixb sub s || contains sub s'
  end.

(* ---- _escape_literal ------------------------------------------------------------------------------- *)
Definition escape_literal (s : str) : str := replace_chain gbnf_escape_chain s.

(* ---- _sanitize_rule_name --------------------------------------------------------------------------- *)
Definition ascii_lower (c : N) : N := if is_upper c then c + 32 else c.
Definition ascii_upper (c : N) : N := if is_lower c then c - 32 else c.
(* str.lower(): computed for ASCII strings, oracle otherwise *)
Definition py_lower (s oracle : str) : str := if forallb is_ascii s then map ascii_lower s else oracle.
Definition py_upper (s oracle : str) : str := if forallb is_ascii s then map ascii_upper s else oracle.

Definition hex_digit (d : N) : N := if d <? 10 then 48 + d else 87 + d.
Fixpoint hex_go (fuel : nat) (n : N) (acc : str) : str :=
  match fuel with
  | O => acc
  | S f => let d := hex_digit (n mod 16) in
           if n <? 16 then d :: acc else hex_go f (n / 16) (d :: acc)
  end.
Definition to_hex (n : N) : str := hex_go (S (N.to_nat (N.size n))) n [].

Definition san_char (c : N) : str :=
  if is_ascii c then (if is_alnum c || N.eqb c c_us then [c] else [])
  else gbnf_sanitize_uni_open ++ to_hex c ++ gbnf_sanitize_uni_close.

Definition s_us2 : str := [c_us; c_us].
Fixpoint collapse_loop (fuel : nat) (s : str) : str :=
  match fuel with
  | O => s
  | S f => if contains s_us2 s then collapse_loop f (py_replace s_us2 [c_us] s) else s
  end.
Definition strip_us (s : str) : str := rev (dropb (N.eqb c_us) (rev (dropb (N.eqb c_us) s))).

(* argument: the LOWERED field name *)
Definition sanitize_lowered (l : str) : str :=
  let r := flat_map san_char (replace_chain gbnf_sanitize_chain l) in
  let r := match r with c :: _ => if is_digit c then gbnf_sanitize_digit_prefix ++ r else r | [] => r end in
  let r := strip_us (collapse_loop (length r) r) in
  match r with [] => gbnf_sanitize_default | _ => r end.

Definition sanitize_rule_name (name lower_oracle : str) : str := sanitize_lowered (py_lower name lower_oracle).

(* ---- constraints as the compiler sees them --------------------------------------------------------- *)
Inductive cst :=
| CReq | COpt
| CEnum (vals : list str)            (* allowed_values, already str() *)
| CConst (txt : str)                 (* str(const_value): oracle for non-str constants *)
| CType (t : str)
| CRegex (p : str)
| CDir | CAppend | CRange | CMaxLen
| CMinLen (n : N)
| CDate | CIso
| COther.                            (* LiteralConstraint, LangConstraint: the else branch *)

Definition s_of (l : list N) : str := l.
Definition cls_Required : str := [82;101;113;117;105;114;101;100;67;111;110;115;116;114;97;105;110;116].
Definition cls_Optional : str := [79;112;116;105;111;110;97;108;67;111;110;115;116;114;97;105;110;116].
Definition cls_Enum : str := [69;110;117;109;67;111;110;115;116;114;97;105;110;116].
Definition cls_Const : str := [67;111;110;115;116;67;111;110;115;116;114;97;105;110;116].
Definition cls_Type : str := [84;121;112;101;67;111;110;115;116;114;97;105;110;116].
Definition cls_Regex : str := [82;101;103;101;120;67;111;110;115;116;114;97;105;110;116].
Definition cls_Dir : str := [68;105;114;67;111;110;115;116;114;97;105;110;116].
Definition cls_Append : str := [65;112;112;101;110;100;79;110;108;121;67;111;110;115;116;114;97;105;110;116].
Definition cls_Range : str := [82;97;110;103;101;67;111;110;115;116;114;97;105;110;116].
Definition cls_MaxLen : str := [77;97;120;76;101;110;103;116;104;67;111;110;115;116;114;97;105;110;116].
Definition cls_MinLen : str := [77;105;110;76;101;110;103;116;104;67;111;110;115;116;114;97;105;110;116].
Definition cls_Date : str := [68;97;116;101;67;111;110;115;116;114;97;105;110;116].
Definition cls_Iso : str := [73;115;111;56;54;48;49;67;111;110;115;116;114;97;105;110;116].
Definition cls_Other : str := [79;116;104;101;114].

Definition cst_class (c : cst) : str :=
  match c with
  | CReq => cls_Required | COpt => cls_Optional | CEnum _ => cls_Enum | CConst _ => cls_Const
  | CType _ => cls_Type | CRegex _ => cls_Regex | CDir => cls_Dir | CAppend => cls_Append
  | CRange => cls_Range | CMaxLen => cls_MaxLen | CMinLen _ => cls_MinLen | CDate => cls_Date
  | CIso => cls_Iso | COther => cls_Other
  end.

Definition quote_lit (s : str) : str := gbnf_quote ++ escape_literal s ++ gbnf_quote.

Definition compile_enum (vals : list str) : str :=
  gbnf_enum_open ++ join gbnf_enum_sep (map quote_lit vals) ++ gbnf_enum_close.
Definition compile_const (txt : str) : str := quote_lit txt.

Definition compile_type (t : str) : str :=
  match find (fun p => str_eqb (fst p) t) gbnf_type_patterns with
  | Some p => snd p
  | None => gbnf_type_default
  end.

(* ---- _compile_regex -------------------------------------------------------------------------------- *)
Definition lstrip_set (set s : str) : str := dropb (fun c => memb c set) s.
Definition rstrip_set (set s : str) : str := rev (dropb (fun c => memb c set) (rev s)).

(* re.match(r"^\[([^\]]+)\]([+*?]?)$", p): (class body, quantifier) *)
Definition simple_class (p : str) : option (str * str) :=
  match p with
  | c :: r =>
      if N.eqb c c_lbr then
        let body := takeb (fun x => negb (N.eqb x c_rbr)) r in
        match body, dropb (fun x => negb (N.eqb x c_rbr)) r with
        | _ :: _, _ :: r2 =>                        (* the dropped head is the closing bracket *)
            let is_q x := N.eqb x c_plus || N.eqb x 42 || N.eqb x 63 in
            match r2 with
            | [] => Some (body, [])
            | [x] => if is_q x then Some (body, [x]) else if N.eqb x c_nl then Some (body, []) else None
            | [x; y] => if is_q x && N.eqb y c_nl then Some (body, [x]) else None
            | _ => None
            end
        | _, _ => None
        end
      else None
  | [] => None
  end.

Definition compile_regex (p0 : str) : str :=
  let p := rstrip_set gbnf_regex_rstrip (lstrip_set gbnf_regex_lstrip p0) in
  if existsb (fun u => contains u p) gbnf_regex_unsupported then gbnf_regex_degrade
  else match simple_class p with
       | Some (body, q) => [c_lbr] ++ body ++ [c_rbr] ++ (match q with [] => gbnf_regex_default_quant | _ => q end)
       | None =>
           let r := py_replace (fst gbnf_regex_dot_replace) (snd gbnf_regex_dot_replace) p in
           if is_nil r || str_in r gbnf_regex_trivial then gbnf_regex_degrade else r
       end.

Definition compile_constraint (c : cst) : str :=
  match c with
  | CReq => gbnf_frag_required
  | COpt => gbnf_frag_optional
  | CEnum vals => compile_enum vals
  | CConst t => compile_const t
  | CType t => compile_type t
  | CRegex p => compile_regex p
  | CDir => gbnf_frag_dir
  | CAppend => gbnf_frag_list
  | CRange => gbnf_frag_range
  | CMaxLen => gbnf_frag_max_length
  | CMinLen n => if gbnf_min_length_threshold <=? n then gbnf_frag_min_length_ge else gbnf_frag_min_length_lt
  | CDate => gbnf_frag_date
  | CIso => gbnf_frag_iso8601
  | COther => gbnf_frag_unknown
  end.

(* ---- compile_chain: first member of the first priority group that has one ------------------------- *)
Fixpoint first_prio (prio : list (list str)) (ch : list cst) : option cst :=
  match prio with
  | [] => None
  | g :: prio' =>
      match find (fun c => str_in (cst_class c) g) ch with
      | Some c => Some c
      | None => first_prio prio' ch
      end
  end.

Definition chain_pick (ch : list cst) : option cst :=
  match ch with
  | [] => None
  | c0 :: _ => match first_prio gbnf_chain_priority ch with Some c => Some c | None => Some c0 end
  end.

Definition compile_chain (ch : list cst) : str :=
  match chain_pick ch with None => gbnf_chain_empty | Some c => compile_constraint c end.

(* ---- compile_schema --------------------------------------------------------------------------------- *)
Record field := mkField { fd_name : str; fd_lower : str; fd_chain : option (list cst) }.
Record schema := mkSchema { sc_name : str; sc_upper : str; sc_fields : list field }.

Definition rule_name_of (f : field) : str := sanitize_rule_name (fd_name f) (fd_lower f).
Definition pattern_of (f : field) : str :=
  match fd_chain f with None => gbnf_schema_no_chain | Some ch => compile_chain ch end.

Definition h_schema_name : str := [115;99;104;101;109;97;46;110;97;109;101].      (* schema.name *)
Definition h_schema_upper : str := [115;99;104;101;109;97;95;110;97;109;101].     (* schema_name *)
Definition h_rule_name : str := [114;117;108;101;95;110;97;109;101].
Definition h_field_name : str := [102;105;101;108;100;95;110;97;109;101].
Definition h_pattern : str := [112;97;116;116;101;114;110].
Definition h_field_refs : str := [102;105;101;108;100;95;114;101;102;115].
(* the two wrapped holes of repo commit 481c8b3:  self._escape_literal(field_name)  self._escape_literal(schema_name) *)
Definition h_field_name_esc : str := [115;101;108;102;46;95;101;115;99;97;112;101;95;108;105;116;101;114;97;108;40;102;105;101;108;100;95;110;97;109;101;41].
Definition h_schema_upper_esc : str := [115;101;108;102;46;95;101;115;99;97;112;101;95;108;105;116;101;114;97;108;40;115;99;104;101;109;97;95;110;97;109;101;41].

(* the wrapped hole of repo commit b75eb16:  ' '.join(schema.name.splitlines())  *)
Definition h_schema_name_1line : str := [39;32;39;46;106;111;105;110;40;115;99;104;101;109;97;46;110;97;109;101;46;115;112;108;105;116;108;105;110;101;115;40;41;41].

(* Python str.splitlines(): line boundaries are LF, CR, CR LF (ONE boundary), VT, FF, FS, GS, RS, NEL (U+0085), LS (U+2028),
   PS (U+2029); no empty piece after a trailing boundary; the empty string has no piece *)
Definition is_linebreak (c : N) : bool :=
  N.eqb c 10 || N.eqb c 13 || N.eqb c 11 || N.eqb c 12 || N.eqb c 28 || N.eqb c 29 || N.eqb c 30
  || N.eqb c 133 || N.eqb c 8232 || N.eqb c 8233.
Fixpoint splitlines_go (cur : str) (s : str) : list str :=      (* cur: current piece, reversed *)
  match s with
  | [] => match cur with [] => [] | _ => [rev cur] end
  | c :: s' =>
      if N.eqb c 13 then
        match s' with
        | d :: s'' => if N.eqb d 10 then rev cur :: splitlines_go [] s'' else rev cur :: splitlines_go [] s'
        | [] => rev cur :: splitlines_go [] s'
        end
      else if is_linebreak c then rev cur :: splitlines_go [] s'
      else splitlines_go (c :: cur) s'
  end.
Definition py_splitlines (s : str) : list str := splitlines_go [] s.
Definition one_line (s : str) : str := join [32] (py_splitlines s).

(* a plain hole pastes the value; a wrapped hole pastes its _escape_literal image.  The model follows whatever the
   generated templates say (a tree that pastes the raw name is modelled as pasting the raw name). *)
Definition hole_schema (s : schema) (h : str) : str :=
  if str_eqb h h_schema_name then sc_name s
  else if str_eqb h h_schema_name_1line then one_line (sc_name s)
  else if str_eqb h h_schema_upper then py_upper (sc_name s) (sc_upper s)
  else if str_eqb h h_schema_upper_esc then escape_literal (py_upper (sc_name s) (sc_upper s))
  else if str_eqb h h_field_refs then join gbnf_schema_refs_sep (map rule_name_of (sc_fields s))
  else [].
Definition hole_field (s : schema) (f : field) (h : str) : str :=
  if str_eqb h h_rule_name then rule_name_of f
  else if str_eqb h h_field_name then fd_name f
  else if str_eqb h h_field_name_esc then escape_literal (fd_name f)
  else if str_eqb h h_pattern then pattern_of f
  else hole_schema s h.

Definition inst (hv : str -> str) (tpl : list gpart) : str :=
  flat_map (fun p => match p with PLit x => x | PHole h => hv h end) tpl.

Definition g_always : str := [97;108;119;97;121;115].
Definition g_per_field : str := [112;101;114;95;102;105;101;108;100].
Definition g_has_fields : str := [104;97;115;95;102;105;101;108;100;115].
Definition g_no_fields : str := [110;111;95;102;105;101;108;100;115].
Definition g_envelope : str := [101;110;118;101;108;111;112;101].
Definition g_no_envelope : str := [110;111;95;101;110;118;101;108;111;112;101].

Definition guard_on (g : str) (s : schema) (env : bool) : bool :=
  if str_eqb g g_always then true
  else if str_eqb g g_has_fields then negb (is_nil (sc_fields s))
  else if str_eqb g g_no_fields then is_nil (sc_fields s)
  else if str_eqb g g_envelope then env
  else if str_eqb g g_no_envelope then negb env
  else false.

(* the interpreter of a (guard, template) list; the compiler runs it on the GENERATED list *)
Definition schema_lines_of (prog : list (str * list gpart)) (s : schema) (env : bool) : list str :=
  flat_map (fun e : str * list gpart =>
              if str_eqb (fst e) g_per_field then map (fun f => inst (hole_field s f) (snd e)) (sc_fields s)
              else if guard_on (fst e) s env then [inst (hole_schema s) (snd e)] else [])
           prog.
Definition schema_lines (s : schema) (env : bool) : list str := schema_lines_of gbnf_schema_prog s env.

Definition compile_schema_of (prog : list (str * list gpart)) (s : schema) (env : bool) : str :=
  join gbnf_schema_line_sep (schema_lines_of prog s env).
Definition compile_schema (s : schema) (env : bool) : str := compile_schema_of gbnf_schema_prog s env.

(* the rule line of ONE field: the per_field template of the generated list (schema-level holes do not occur in it) *)
Definition field_line_of (hf : str -> str) : str :=
  match find (fun e : str * list gpart => str_eqb (fst e) g_per_field) gbnf_schema_prog with
  | Some e => inst hf (snd e)
  | None => []
  end.
Definition field_line (f : field) : str := field_line_of (hole_field (mkSchema [] [] []) f).

(* does a template paste hole h? *)
Definition tpl_has_hole (prog : list (str * list gpart)) (h : str) : bool :=
  existsb (fun e : str * list gpart =>
             existsb (fun p => match p with PLit _ => false | PHole x => str_eqb x h end) (snd e)) prog.

(* ---- which name each route gives the schema (expressions read by the translator: gbnf_name_sources) ------------
   Document.name: the envelope token value, or the parser's placeholder when the text has no envelope line;
   extract_schema_from_document: doc.name if doc.name else the default;  compile_gbnf_from_meta: meta.get TYPE with
   default;  emit_grammar_for_schema: its argument. *)
Definition envelope_doc_name (env : option str) : str :=
  match env with Some n => n | None => gbnf_parser_inferred_name end.
Definition doc_schema_name (doc_name : str) : str :=
  match doc_name with [] => gbnf_docroute_default_name | _ => doc_name end.
(* META TYPE as compile_gbnf_from_meta sees it: key absent | a str | any other value (number, boolean, null, list,
   block, holographic value).  A non-str value is replaced by a literal when the source has the isinstance guard (flag
   from the translator; repo 61337a1); without the guard it goes into SchemaDefinition.name as it is and compile_schema
   raises on it: no grammar, no name (None). *)
Inductive meta_type := MtAbsent | MtStr (t : str) | MtOther.
Definition meta_schema_name_g (guard : bool) (ty : meta_type) : option str :=
  match ty with
  | MtAbsent => Some gbnf_contract_default_type
  | MtStr t => Some t
  | MtOther => if guard then Some gbnf_meta_type_nonstring_name else None
  end.
Definition meta_schema_name (ty : meta_type) : option str := meta_schema_name_g gbnf_meta_type_nonstring_is_unknown ty.

(* ---- CONTRACT route: FIELD[name]::chain  (regex _CONTRACT_FIELD_PATTERN + the strips) ----------------
   ASCII whitespace only (specs containing non-ASCII whitespace are out of model). The chain text is parsed
   by the implementation (ConstraintChain.parse is not modelled here): the harness supplies the parsed chain. *)
Definition py_space (c : N) : bool := ((9 <=? c) && (c <=? 13)) || ((28 <=? c) && (c <=? 32)).
Definition py_strip (s : str) : str := rev (dropb py_space (rev (dropb py_space s))).
Definition s_FIELD_lbr : str := [70;73;69;76;68;91].

Inductive contract_res := CtOk (name : str) (chain_text : option str) | CtInvalid.

Definition parse_contract_spec (spec0 : str) : contract_res :=
  let spec := py_strip spec0 in
  if prefixb s_FIELD_lbr spec then
    let r := skipn 6 spec in
    let nm := takeb (fun x => negb (N.eqb x c_rbr)) r in
    match nm, dropb (fun x => negb (N.eqb x c_rbr)) r with
    | _ :: _, _ :: r2 =>
        if prefixb [c_colon; c_colon] r2 then
          let body := skipn 2 r2 in
          (* (.+)$ : at least one char, no newline except one final newline *)
          let core := match rev body with c :: b => if N.eqb c c_nl then rev b else body | [] => body end in
          if negb (is_nil core) && negb (memb c_nl core) then
            match py_strip nm with
            | [] => CtInvalid
            | name => match py_strip core with [] => CtOk name None | t => CtOk name (Some t) end
            end
          else CtInvalid
        else CtInvalid
    | _, _ => CtInvalid
    end
  else CtInvalid.

(* ---- pins: the control structure this model was written against ------------------------------------ *)
Lemma pin_escape_chain : gbnf_escape_chain = [([c_bs], [c_bs; c_bs]); ([c_dq], [c_bs; c_dq])].
Proof. reflexivity. Qed.

Lemma pin_dispatch_classes :
  map fst gbnf_dispatch = [cls_Required; cls_Optional; cls_Enum; cls_Const; cls_Type; cls_Regex; cls_Dir; cls_Append;
                           cls_Range; cls_MaxLen; cls_MinLen; cls_Date; cls_Iso].
Proof. reflexivity. Qed.

Lemma pin_priority :
  gbnf_chain_priority = [[cls_Const]; [cls_Enum]; [cls_Regex]; [cls_Type]; [cls_Date; cls_Iso]].
Proof. reflexivity. Qed.

Definition known_hole (h : str) : bool :=
  str_in h [h_schema_name; h_schema_upper; h_rule_name; h_field_name; h_pattern; h_field_refs;
            h_field_name_esc; h_schema_upper_esc; h_schema_name_1line].
Definition known_guard (g : str) : bool :=
  str_in g [g_always; g_per_field; g_has_fields; g_no_fields; g_envelope; g_no_envelope].

Lemma pin_schema_prog_closed :
  forallb (fun e : str * list gpart =>
             known_guard (fst e) &&
             forallb (fun p => match p with PLit _ => true | PHole h => known_hole h end) (snd e)) gbnf_schema_prog = true.
Proof. vm_compute. reflexivity. Qed.

(* the translator's flags say exactly: no template pastes the raw name (true of the pre-481c8b3 tree as well, where
   both flags are false and both raw holes occur -- this pin must hold on every tree the model can follow) *)
Lemma pin_escape_flags :
  gbnf_field_name_escaped = negb (tpl_has_hole gbnf_schema_prog h_field_name) /\
  gbnf_schema_name_escaped = negb (tpl_has_hole gbnf_schema_prog h_schema_upper).
Proof. vm_compute. split; reflexivity. Qed.

Lemma pin_header_flag : gbnf_header_name_one_line = negb (tpl_has_hole gbnf_schema_prog h_schema_name).
Proof. vm_compute. reflexivity. Qed.
