(* Facts about the compiler model that hold for ALL inputs: the literal escape is closed under the
   recogniser's literal scanner; the character set of sanitised rule names; and the concrete refutations
   (defect classes of the pinned tree). *)
From OV Require Import Base.Strs Gen.GbnfGen Gbnf.Syntax Gbnf.Compiler Gbnf.Safe.
Require Coq.Strings.String.
Import Coq.Strings.String.StringSyntax.
Open Scope N_scope.

(* ---- str.replace with a one-character pattern is a flat_map --------------------------------------- *)
Definition sub1 (a : N) (new : str) (x : N) : str := if N.eqb a x then new else [x].

Lemma replace_go_single a new s : replace_go [a] new 0 s = flat_map (sub1 a new) s.
Proof.
  induction s as [|c s IH]; [reflexivity|].
  cbn [replace_go prefixb length Nat.sub flat_map]. unfold sub1 at 1.
  destruct (N.eqb a c); cbn [andb]; rewrite IH; reflexivity.
Qed.

Lemma flat_map_comp {A B C} (f : A -> list B) (g : B -> list C) l :
  flat_map g (flat_map f l) = flat_map (fun x => flat_map g (f x)) l.
Proof. induction l as [|x l IH]; [reflexivity|]. cbn [flat_map]. rewrite flat_map_app, IH. reflexivity. Qed.

(* closed form of _escape_literal *)
Definition gesc (c : N) : str :=
  if N.eqb c c_bs then [c_bs; c_bs] else if N.eqb c c_dq then [c_bs; c_dq] else [c].

Lemma escape_literal_spec s : escape_literal s = flat_map gesc s.
Proof.
  unfold escape_literal. rewrite pin_escape_chain. cbn [replace_chain py_replace].
  rewrite !replace_go_single, flat_map_comp. apply flat_map_ext. intro c. unfold gesc, sub1 at 2.
  destruct (N.eqb_spec c_bs c) as [<-|H1].
  - reflexivity.
  - rewrite (proj2 (N.eqb_neq c c_bs)) by congruence.
    cbn [flat_map app]. unfold sub1. rewrite (N.eqb_sym c_dq c). destruct (N.eqb c c_dq); reflexivity.
Qed.

(* ---- escape_literal_closed -------------------------------------------------------------------------- *)
Definition lst (a : str) : pst := mkP MLit [] frame0 [] a false [] [].

Lemma lit_scan_escaped s : forall a rest,
  lit_scan (lst a) (flat_map gesc s ++ c_dq :: rest) = Some (a ++ s, rest).
Proof.
  induction s as [|c s IH]; intros a rest.
  - cbn. rewrite app_nil_r. reflexivity.
  - cbn [flat_map]. unfold gesc at 1.
    destruct (N.eqb_spec c c_bs) as [->|H1]; [|destruct (N.eqb_spec c c_dq) as [->|H2]].
    + cbn [app]. cbn [lit_scan]. change (gbnf_step false (lst a) c_bs) with (set_mode (MEsc ELit) (lst a)).
      cbn [p_mode set_mode]. cbn [lit_scan].
      change (gbnf_step false (set_mode (MEsc ELit) (lst a)) c_bs) with (lst (a ++ [c_bs])).
      cbn [p_mode lst]. rewrite IH, <- app_assoc. reflexivity.
    + cbn [app]. cbn [lit_scan]. change (gbnf_step false (lst a) c_bs) with (set_mode (MEsc ELit) (lst a)).
      cbn [p_mode set_mode]. cbn [lit_scan].
      change (gbnf_step false (set_mode (MEsc ELit) (lst a)) c_dq) with (lst (a ++ [c_dq])).
      cbn [p_mode lst]. rewrite IH, <- app_assoc. reflexivity.
    + cbn [app]. cbn [lit_scan].
      assert (E : gbnf_step false (lst a) c = lst (a ++ [c])).
      { unfold gbnf_step. cbn [p_mode lst].
        rewrite (proj2 (N.eqb_neq c c_dq)), (proj2 (N.eqb_neq c c_bs)) by assumption. reflexivity. }
      rewrite E. cbn [p_mode lst]. rewrite IH, <- app_assoc. reflexivity.
Qed.

(* a literal produced by _escape_literal is re-read by the recogniser's literal scanner as exactly the
   original string, whatever follows -- for EVERY string *)
Theorem escape_literal_closed s rest :
  gbnf_literal (c_dq :: escape_literal s ++ c_dq :: rest) = Some (s, rest).
Proof.
  unfold gbnf_literal. cbn [N.eqb c_dq Pos.eqb]. rewrite escape_literal_spec.
  change lit_start with (lst []). rewrite lit_scan_escaped. reflexivity.
Qed.

(* ---- sanitize_charset --------------------------------------------------------------------------------- *)
Definition san_ok (c : N) : bool := is_lower c || is_digit c || N.eqb c c_us.
Definition no_upper (s : str) : bool := forallb (fun c => negb (is_upper c)) s.

Lemma forallb_app' {A} (p : A -> bool) a b : forallb p (a ++ b) = forallb p a && forallb p b.
Proof. apply forallb_app. Qed.

Lemma replace_go_pres (P : N -> bool) old new : forallb P new = true ->
  forall s k, forallb P s = true -> forallb P (replace_go old new k s) = true.
Proof.
  intros Hn. induction s as [|c s IH]; intros k Hs; [reflexivity|].
  cbn in Hs. apply andb_true_iff in Hs as [Hc Hs]. cbn [replace_go].
  destruct k; [|apply IH; exact Hs].
  destruct (prefixb old (c :: s)).
  - rewrite forallb_app, Hn. cbn. apply IH; exact Hs.
  - cbn. rewrite Hc. cbn. apply IH; exact Hs.
Qed.

Lemma py_replace_pres P old new s : forallb P new = true -> forallb P s = true -> forallb P (py_replace old new s) = true.
Proof. intros. unfold py_replace. destruct old; [assumption|]. apply replace_go_pres; assumption. Qed.

Lemma collapse_pres P : P c_us = true -> forall fuel s, forallb P s = true -> forallb P (collapse_loop fuel s) = true.
Proof.
  intros Hu. induction fuel as [|f IH]; intros s Hs; cbn [collapse_loop]; [exact Hs|].
  destruct (contains s_us2 s); [|exact Hs]. apply IH. apply py_replace_pres; [cbn; rewrite Hu; reflexivity|exact Hs].
Qed.

Lemma dropb_pres (P q : N -> bool) s : forallb P s = true -> forallb P (dropb q s) = true.
Proof.
  induction s as [|c s IH]; intro H; [reflexivity|]. cbn [dropb]. destruct (q c); [|exact H].
  cbn in H. apply andb_true_iff in H as [_ H]. apply IH; exact H.
Qed.

Lemma forallb_rev (P : N -> bool) s : forallb P (rev s) = forallb P s.
Proof.
  induction s as [|c s IH]; [reflexivity|]. cbn [rev forallb]. rewrite forallb_app, IH. cbn. rewrite andb_true_r.
  apply andb_comm.
Qed.

Lemma strip_us_pres P s : forallb P s = true -> forallb P (strip_us s) = true.
Proof.
  intro H. unfold strip_us. rewrite forallb_rev. apply dropb_pres. rewrite forallb_rev. apply dropb_pres. exact H.
Qed.

Lemma hex_digit_ok d : d < 16 -> san_ok (hex_digit d) = true.
Proof.
  intro H. unfold hex_digit, san_ok, is_lower, is_digit.
  destruct (N.ltb_spec d 10).
  - replace ((48 <=? 48 + d) && (48 + d <=? 57)) with true; [rewrite orb_true_r; reflexivity|].
    symmetry. apply andb_true_iff; split; apply N.leb_le; lia.
  - replace ((97 <=? 87 + d) && (87 + d <=? 122)) with true; [reflexivity|].
    symmetry. apply andb_true_iff; split; apply N.leb_le; lia.
Qed.

Lemma hex_go_ok fuel : forall n acc, forallb san_ok acc = true -> forallb san_ok (hex_go fuel n acc) = true.
Proof.
  induction fuel as [|f IH]; intros n acc H; cbn [hex_go]; [exact H|].
  assert (Hd : san_ok (hex_digit (n mod 16)) = true) by (apply hex_digit_ok; apply N.mod_lt; discriminate).
  destruct (n <? 16); [cbn; rewrite Hd; exact H|]. apply IH. cbn. rewrite Hd. exact H.
Qed.

Lemma san_char_ok c : is_upper c = false -> forallb san_ok (san_char c) = true.
Proof.
  intro Hu. unfold san_char. destruct (is_ascii c).
  - destruct (is_alnum c || N.eqb c c_us) eqn:E; [|reflexivity]. cbn. rewrite andb_true_r.
    unfold san_ok. unfold is_alnum, is_alpha in E. rewrite Hu in E. cbn [orb] in E. exact E.
  - rewrite !forallb_app. unfold to_hex. rewrite hex_go_ok by reflexivity. reflexivity.
Qed.

Lemma flat_map_san_ok s : no_upper s = true -> forallb san_ok (flat_map san_char s) = true.
Proof.
  induction s as [|c s IH]; intro H; [reflexivity|]. cbn in H. apply andb_true_iff in H as [Hc Hs].
  cbn [flat_map]. rewrite forallb_app, san_char_ok, IH; try assumption; [reflexivity|].
  apply negb_true_iff; exact Hc.
Qed.

Lemma replace_chain_no_upper ch : forallb (fun p => no_upper (snd p)) ch = true ->
  forall s, no_upper s = true -> no_upper (replace_chain ch s) = true.
Proof.
  induction ch as [|[a b] ch IH]; intros Hc s Hs; [exact Hs|]. cbn in Hc. apply andb_true_iff in Hc as [Hb Hc].
  cbn [replace_chain]. apply IH; [exact Hc|]. apply py_replace_pres; assumption.
Qed.

(* every character of a sanitised rule name is in [a-z0-9_], provided the lowered name has no ASCII capital
   (true of every str.lower() result; computed for ASCII names, see py_lower_no_upper) *)
Theorem sanitize_charset l : no_upper l = true -> forallb san_ok (sanitize_lowered l) = true.
Proof.
  intro H. unfold sanitize_lowered.
  set (r0 := flat_map san_char (replace_chain gbnf_sanitize_chain l)).
  assert (H0 : forallb san_ok r0 = true).
  { apply flat_map_san_ok. apply replace_chain_no_upper; [vm_compute; reflexivity|exact H]. }
  set (r1 := match r0 with c :: _ => if is_digit c then gbnf_sanitize_digit_prefix ++ r0 else r0 | [] => r0 end).
  assert (H1 : forallb san_ok r1 = true).
  { unfold r1. destruct r0 as [|c r0']; [reflexivity|]. destruct (is_digit c); [|exact H0].
    rewrite forallb_app, H0. reflexivity. }
  assert (H2 : forallb san_ok (strip_us (collapse_loop (length r1) r1)) = true).
  { apply strip_us_pres, collapse_pres; [reflexivity|exact H1]. }
  destruct (strip_us (collapse_loop (length r1) r1)); [vm_compute; reflexivity|exact H2].
Qed.

Lemma py_lower_no_upper s o : no_upper o = true -> no_upper (py_lower s o) = true.
Proof.
  intro Ho. unfold py_lower. destruct (forallb is_ascii s); [|exact Ho].
  induction s as [|c s IH]; [reflexivity|]. cbn [map no_upper forallb]. fold (no_upper (map ascii_lower s)). rewrite IH, andb_true_r.
  unfold ascii_lower. destruct (is_upper c) eqn:E; [|rewrite E; reflexivity].
  unfold is_upper in *. apply andb_true_iff in E as [E1 E2]. apply N.leb_le in E1, E2.
  apply negb_true_iff, andb_false_iff. right. apply N.leb_gt. lia.
Qed.

(* never empty *)
Lemma sanitize_nonempty l : sanitize_lowered l <> [].
Proof.
  unfold sanitize_lowered.
  destruct (strip_us _); [vm_compute; discriminate|discriminate].
Qed.

(* ---- concrete refutations on the pinned tree (closed by computation) ---------------------------------- *)
Definition fld (n : str) (ch : list cst) : field := mkField n (map ascii_lower n) (Some ch).
Definition sch (fs : list field) : schema := mkSchema [83] [83] fs.     (* schema S *)

Definition w_CONTENT : str := [67;79;78;84;69;78;84].
Definition w_WS : str := [87;83].
Definition w_FIELD : str := [70;73;69;76;68].
Definition w_DOCUMENT : str := [68;79;67;85;77;69;78;84].
Definition w_ROOT : str := [82;79;79;84].
Definition w_NAME : str := [78;65;77;69].
Definition w_A_dash_B : str := [65;45;66].
Definition w_A_us_B : str := [65;95;66].
Definition w_STATUS : str := [83;84;65;84;85;83].
Definition w_Status : str := [83;116;97;116;117;115].
Definition w_anchor_abc : str := [94;97;98;99;36].

(* field named CONTENT: rule `content` defined twice *)
Lemma refuted_content : wf_text_code (compile_schema (sch [fld w_CONTENT [CReq]]) true) = 4.
Proof. vm_compute. reflexivity. Qed.

Lemma refuted_structural_names :
  forallb (fun n => N.eqb (wf_text_code (compile_schema (sch [fld n [CReq]]) true)) 4) [w_WS; w_FIELD; w_DOCUMENT; w_ROOT; w_CONTENT] = true.
Proof. vm_compute. reflexivity. Qed.

(* REGEX["^abc$"]: reference to the undefined rule abc *)
Lemma refuted_anchor : wf_text_code (compile_schema (sch [fld w_NAME [CReq; CRegex w_anchor_abc]]) true) = 3.
Proof. vm_compute. reflexivity. Qed.

(* case collision without any underscore: rule `status` defined twice *)
Lemma refuted_collision_case : wf_text_code (compile_schema (sch [fld w_STATUS [CReq]; fld w_Status [COpt]]) true) = 4.
Proof. vm_compute. reflexivity. Qed.

(* A-B with A_B: one rule name a_b; not even parsable (underscore); a duplicate in the `_`-tolerant dialect *)
Lemma refuted_collision_dash_us :
  rule_name_of (fld w_A_dash_B [CReq]) = rule_name_of (fld w_A_us_B [CReq]) /\
  wf_text_code (compile_schema (sch [fld w_A_dash_B [CReq]; fld w_A_us_B [CReq]]) true) = 1 /\
  wf_text_code_g true (compile_schema (sch [fld w_A_dash_B [CReq]; fld w_A_us_B [CReq]]) true) = 4.
Proof. vm_compute. repeat split; reflexivity. Qed.

(* any underscore in a rule name: not a llama.cpp rule name *)
Lemma refuted_underscore :
  wf_text_code (compile_schema (sch [fld w_A_us_B [CReq]]) true) = 1 /\
  wf_text_code_g true (compile_schema (sch [fld w_A_us_B [CReq]]) true) = 0.
Proof. vm_compute. split; reflexivity. Qed.

(* ---- repo commit 481c8b3: names are written through _escape_literal ------------------------------------- *)
(* ties to the CURRENT templates (not needed by the extracted model, which follows the generated list) *)
Lemma pin_field_name_escaped : gbnf_field_name_escaped = true.
Proof. reflexivity. Qed.
Lemma pin_schema_name_escaped : gbnf_schema_name_escaped = true.
Proof. reflexivity. Qed.

Lemma pin_header_one_line : gbnf_header_name_one_line = true.
Proof. reflexivity. Qed.

(* which expression feeds SchemaDefinition.name, per route; the defaults; the parser's placeholder *)
Lemma pin_name_sources :
  map fst gbnf_name_sources = [lit "compile_gbnf_from_meta"; lit "extract_schema_from_document"; lit "emit_grammar_for_schema"]
  /\ gbnf_docroute_default_name = lit "UNKNOWN" /\ gbnf_contract_default_type = lit "UNKNOWN"
  /\ gbnf_parser_inferred_name = lit "INFERRED".
Proof. vm_compute. repeat split; reflexivity. Qed.

(* repo 61337a1: a META TYPE that is not a str names no schema -- same name as a missing TYPE *)
Lemma pin_meta_type_nonstring : gbnf_meta_type_nonstring_is_unknown = true /\ gbnf_meta_type_nonstring_name = lit "UNKNOWN".
Proof. vm_compute. split; reflexivity. Qed.

Lemma meta_schema_name_total ty : exists n, meta_schema_name ty = Some n.
Proof. destruct ty; eexists; reflexivity. Qed.

Lemma meta_schema_name_cases t :
  meta_schema_name MtAbsent = Some (lit "UNKNOWN") /\ meta_schema_name (MtStr t) = Some t
  /\ meta_schema_name MtOther = Some (lit "UNKNOWN") /\ meta_schema_name MtOther = meta_schema_name MtAbsent.
Proof. vm_compute. repeat split; reflexivity. Qed.

(* before the guard a non-str TYPE gave no name (SchemaDefinition.name was the raw value: compile_schema raised) *)
Lemma meta_schema_name_pre_guard t :
  meta_schema_name_g false MtOther = None /\ meta_schema_name_g false (MtStr t) = Some t
  /\ meta_schema_name_g false MtAbsent = Some (lit "UNKNOWN").
Proof. vm_compute. repeat split; reflexivity. Qed.

Lemma pin_names_escaped : gbnf_field_name_escaped = true /\ gbnf_schema_name_escaped = true.
Proof. split; reflexivity. Qed.

(* the per_field template, run with an abstract hole function *)
Lemma field_line_of_eq hf :
  field_line_of hf = hf h_rule_name ++ [32;58;58;61;32;34] ++ hf h_field_name_esc ++ [34;32;34;58;58;34;32;119;115;32]
                     ++ hf h_pattern ++ [].
Proof. vm_compute. reflexivity. Qed.

Lemma field_line_eq f :
  field_line f = rule_name_of f ++ [32;58;58;61;32;34] ++ escape_literal (fd_name f) ++ [34;32;34;58;58;34;32;119;115;32]
                 ++ pattern_of f.
Proof. unfold field_line. rewrite field_line_of_eq, app_nil_r. reflexivity. Qed.

(* witnesses of the two findings fixed by 481c8b3: a META.CONTRACT field FIELD[(dq)q r(dq)] keeps its quotes in the
   field name (dq q space r dq); a quoted META TYPE gives the schema name  a dq b backslash c  *)
Definition w_qr : str := [34;113;32;114;34].
Definition w_aqbc : str := [97;34;98;92;99].
Definition sch_named (n : str) (fs : list field) : schema := mkSchema n (map ascii_upper n) fs.
Definition regress_schema : schema := sch_named w_aqbc [fld w_qr [CReq]; fld w_NAME [COpt; CEnum [[65]; [66]]]].

(* the grammar compiled for a non-str TYPE: the schema named UNKNOWN -- well-formed with and without a field *)
Example regress_nonstring_type_wf :
  match meta_schema_name MtOther with
  | Some n => wf_text (compile_schema (sch_named n [fld w_NAME [CReq]]) true) && wf_text (compile_schema (sch_named n []) true)
  | None => false
  end = true.
Proof. vm_compute. reflexivity. Qed.

(* both names at once, with and without envelope: in the safe class, and well-formed *)
Example regress_escaped_names_wf :
  safe_schema regress_schema true = true /\ safe_schema regress_schema false = true /\
  wf_text (compile_schema regress_schema true) = true /\ wf_text (compile_schema regress_schema false) = true.
Proof. vm_compute. repeat split; reflexivity. Qed.

Example regress_quoted_field_name_wf :
  wf_text (compile_schema (sch [fld w_qr [CReq]]) true) = true /\ wf_text (compile_schema (sch [fld w_qr [CReq]]) false) = true.
Proof. vm_compute. split; reflexivity. Qed.

Example regress_schema_name_wf :
  wf_text (compile_schema (sch_named w_aqbc [fld w_NAME [CReq]]) true) = true /\
  wf_text (compile_schema (sch_named w_aqbc []) true) = true.
Proof. vm_compute. split; reflexivity. Qed.

(* the literal the recogniser reads back is the name itself *)
Example regress_field_literal_read_back :
  option_map (fun r => r_alts r) (line_rule (field_line (fld w_qr [CReq])))
  = Some [[ILit w_qr; ILit [58;58]; IRef n_ws; IRep (IClass true [(c_nl, None)]) 1 None]].
Proof. vm_compute. reflexivity. Qed.

(* THE OLD TEMPLATES (pre-481c8b3): the same generated list with the two wrapped holes replaced by the raw ones *)
Definition unescape_part (p : gpart) : gpart :=
  match p with
  | PHole h => if str_eqb h h_field_name_esc then PHole h_field_name
               else if str_eqb h h_schema_upper_esc then PHole h_schema_upper else p
  | PLit _ => p
  end.
Definition raw_names_prog : list (str * list gpart) :=
  map (fun e : str * list gpart => (fst e, map unescape_part (snd e))) gbnf_schema_prog.
Definition compile_schema_raw_names (s : schema) (env : bool) : str := compile_schema_of raw_names_prog s env.

(* ... these ARE the two lines of the pre-fix source:  {rule_name} ::= (dq){field_name}(dq) (dq)::(dq) ws {pattern}
   and  envelope-start ::= (dq)==={schema_name}===(dq) *)
Lemma raw_names_prog_is_pre_fix_template :
  filter (fun e : str * list gpart => tpl_has_hole [e] h_field_name || tpl_has_hole [e] h_schema_upper) raw_names_prog
  = [(g_per_field, [PHole h_rule_name; PLit [32;58;58;61;32;34]; PHole h_field_name; PLit [34;32;34;58;58;34;32;119;115;32];
                    PHole h_pattern]);
     (g_envelope, [PLit [101;110;118;101;108;111;112;101;45;115;116;97;114;116;32;58;58;61;32;34;61;61;61];
                   PHole h_schema_upper; PLit [61;61;61;34]])]
  /\ tpl_has_hole raw_names_prog h_field_name_esc = false /\ tpl_has_hole raw_names_prog h_schema_upper_esc = false.
Proof. vm_compute. repeat split; reflexivity. Qed.

(* the old templates were ill-formed on the witnesses: the quoted field name leaves references to the undefined
   rules q and r (code 3); the schema name ends the envelope literal early and the text does not parse (code 1).
   The current templates give code 0 on the same schemas. *)
Theorem unescaped_name_was_ill_formed :
  wf_text_code (compile_schema_raw_names (sch [fld w_qr [CReq]]) true) = 3 /\
  wf_text_code (compile_schema_raw_names (sch [fld w_qr [CReq]]) false) = 3 /\
  wf_text_code (compile_schema_raw_names (sch_named w_aqbc [fld w_NAME [CReq]]) true) = 1 /\
  wf_text_code (compile_schema (sch [fld w_qr [CReq]]) true) = 0 /\
  wf_text_code (compile_schema (sch [fld w_qr [CReq]]) false) = 0 /\
  wf_text_code (compile_schema (sch_named w_aqbc [fld w_NAME [CReq]]) true) = 0.
Proof. vm_compute. repeat split; reflexivity. Qed.

(* without envelope the schema name only occurs in the header comment: it never mattered there *)
Example raw_schema_name_without_envelope_was_fine :
  wf_text_code (compile_schema_raw_names (sch_named w_aqbc [fld w_NAME [CReq]]) false) = 0.
Proof. vm_compute. reflexivity. Qed.

(* ---- repo commit b75eb16: the header comment shows the schema name on one line -------------------------------- *)
Definition w_lb : str := [97;10;98].                                      (* a LF b *)
(* a LF b CR LF c CR d VT e FF f FS g GS h RS i NEL j LS k PS l LF LF m LF *)
Definition w_all_breaks : str :=
  [97;10;98;13;10;99;13;100;11;101;12;102;28;103;29;104;30;105;133;106;8232;107;8233;108;10;10;109;10].

(* join-of-splitlines, computed: CR LF is ONE boundary, LF CR two; consecutive boundaries give double blanks; a trailing
   boundary gives no trailing blank; a leading one gives a leading blank *)
Example one_line_examples :
  one_line w_lb = [97;32;98] /\ one_line [97;13;10;98] = [97;32;98] /\ one_line [97;10;13;98] = [97;32;32;98]
  /\ one_line [97;10] = [97] /\ one_line [10;97] = [32;97] /\ one_line [] = [] /\ one_line [10] = [] /\ one_line [10;10] = [32]
  /\ one_line [97;13] = [97] /\ one_line [13;10] = [] /\ one_line [97;32;98] = [97;32;98]
  /\ one_line w_all_breaks = [97;32;98;32;99;32;100;32;101;32;102;32;103;32;104;32;105;32;106;32;107;32;108;32;32;109].
Proof. vm_compute. repeat split; reflexivity. Qed.

Example regress_line_break_name_wf :
  forallb (fun n => forallb (fun env => wf_text (compile_schema (sch_named n [fld w_NAME [CReq]]) env)
                                        && safe_schema (sch_named n [fld w_NAME [CReq]]) env
                                        && wf_text (compile_schema (sch_named n []) env)) [true; false])
          [w_lb; w_all_breaks; [10]; [13;10;97]; [97;8232]] = true.
Proof. vm_compute. reflexivity. Qed.

(* THE OLD HEADER TEMPLATE (pre-b75eb16): the generated list with the one-line hole replaced by the raw schema.name *)
Definition unjoin_part (p : gpart) : gpart :=
  match p with
  | PHole h => if str_eqb h h_schema_name_1line then PHole h_schema_name else p
  | PLit _ => p
  end.
Definition raw_header_prog : list (str * list gpart) :=
  map (fun e : str * list gpart => (fst e, map unjoin_part (snd e))) gbnf_schema_prog.

Lemma raw_header_prog_is_pre_fix_template :
  filter (fun e : str * list gpart => tpl_has_hole [e] h_schema_name) raw_header_prog
  = [(g_always, [PLit [35;32;71;66;78;70;32;71;114;97;109;109;97;114;32;102;111;114;32;79;67;84;65;86;69;32;115;99;104;101;109;97;58;32];
                 PHole h_schema_name])]
  /\ tpl_has_hole raw_header_prog h_schema_name_1line = false.
Proof. vm_compute. split; reflexivity. Qed.

(* the old header was ill-formed on a name with a line break (the rest of the name is read as the start of a rule:
   code 1), with and without envelope; the current templates give code 0 *)
Theorem raw_header_was_ill_formed :
  wf_text_code (compile_schema_of raw_header_prog (sch_named w_lb [fld w_NAME [CReq]]) true) = 1 /\
  wf_text_code (compile_schema_of raw_header_prog (sch_named w_lb [fld w_NAME [CReq]]) false) = 1 /\
  wf_text_code (compile_schema_of raw_header_prog (sch_named w_all_breaks []) true) = 1 /\
  wf_text_code (compile_schema (sch_named w_lb [fld w_NAME [CReq]]) true) = 0 /\
  wf_text_code (compile_schema (sch_named w_lb [fld w_NAME [CReq]]) false) = 0 /\
  wf_text_code (compile_schema (sch_named w_all_breaks []) true) = 0.
Proof. vm_compute. repeat split; reflexivity. Qed.

(* the safe class GREW: every schema of the old class (names free of quote and backslash) is in the new one ... *)
Lemma lit_plain_no_nul s : lit_plain s = true -> no_nul s = true.
Proof. unfold lit_plain, no_nul. intro H. apply andb_true_iff in H as [_ H]. exact H. Qed.

(* the hypothesis of compile_wf is satisfiable on a non-trivial schema (ENUM with quotes/backslash, CONST, TYPE,
   DATE, a well-formed REGEX, no chain) and the conclusion holds there *)
Definition ex_schema : schema :=
  sch [fld w_STATUS [CReq; CEnum [[65;34;66]; [67;92;68]; [69]]];
       fld w_NAME [COpt; CRegex [94;91;97;45;122;93;123;50;44;51;125;36]];
       fld [75] [CConst [52;50]]; fld [81] [CType [78;85;77;66;69;82]]; fld [73;68] [CDate];
       mkField [70;49] [102;49] None].
Example safe_schema_example : safe_schema ex_schema true = true /\ wf_text (compile_schema ex_schema true) = true.
Proof. vm_compute. split; reflexivity. Qed.
