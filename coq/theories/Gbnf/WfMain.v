(* C12, part 4: the recognised grammar is well-formed, and the main theorems.
     compile_wf_nul_free : safe_schema s env -> regex_nul_free s -> wf_text (compile_schema s env)
     compile_wf_no_regex : safe_schema s env -> no REGEX member is picked -> wf_text (compile_schema s env)
     compile_wf_full_refuted : the statement WITHOUT regex_nul_free is false (a REGEX class containing NUL). *)
From OV Require Import Base.Strs Gen.GbnfGen Gbnf.Syntax Gbnf.Compiler Gbnf.Safe Gbnf.Facts Gbnf.WfAuto Gbnf.WfLines Gbnf.WfText.
Open Scope N_scope.

(* ---- str_in / nodupb ----------------------------------------------------------------------------------------- *)
Lemma str_in_app x a b : str_in x (a ++ b) = str_in x a || str_in x b.
Proof. induction a as [|y a IH]; [reflexivity|]. cbn [app str_in]. rewrite IH, orb_assoc. reflexivity. Qed.

Lemma str_in_In x l : str_in x l = true <-> In x l.
Proof.
  induction l as [|y l IH]; cbn [str_in In]; [split; [discriminate|tauto]|].
  rewrite orb_true_iff, IH, str_eqb_eq. split; intros [H|H]; auto.
Qed.

Lemma str_in_sub a b x : forallb (fun y => str_in y b) a = true -> str_in x a = true -> str_in x b = true.
Proof.
  intros H Hx. apply str_in_In in Hx. exact (proj1 (forallb_forall _ _) H x Hx).
Qed.

Lemma nodupb_app a b :
  nodupb (a ++ b) = nodupb a && nodupb b && forallb (fun x => negb (str_in x b)) a.
Proof.
  induction a as [|x a IH]; [cbn; rewrite andb_true_r; reflexivity|].
  cbn [app nodupb forallb]. rewrite IH, str_in_app, negb_orb.
  destruct (str_in x a), (str_in x b), (nodupb a), (nodupb b), (forallb _ a); reflexivity.
Qed.

(* ---- facts about a single field rule ------------------------------------------------------------------------ *)
Lemma field_rule_facts allowed f : regex_field_ok allowed f = true ->
  r_name (field_rule f) = rule_name_of f
  /\ forallb (fun x => str_in x allowed) (alts_refs (r_alts (field_rule f))) = true
  /\ alts_no_empty (r_alts (field_rule f)) = true.
Proof.
  unfold regex_field_ok, field_rule, rule_of_line. destruct (line_rule (field_line f)) as [r|]; [|discriminate].
  intro H. apply andb_true_iff in H as [H H3]. apply andb_true_iff in H as [H1 H2].
  apply str_eqb_eq in H1. auto.
Qed.

Lemma defs_fields allowed fs : forallb (regex_field_ok allowed) fs = true ->
  defs (map field_rule fs) = map rule_name_of fs.
Proof.
  intro H. unfold defs. rewrite map_map. apply map_ext_in. intros f Hf.
  exact (proj1 (field_rule_facts allowed f (proj1 (forallb_forall _ _) H f Hf))).
Qed.

Lemma refs_fields allowed fs : forallb (regex_field_ok allowed) fs = true ->
  forallb (fun x => str_in x allowed) (grammar_refs (map field_rule fs)) = true.
Proof.
  induction fs as [|f fs IH]; [reflexivity|]. cbn [forallb map grammar_refs flat_map]. intro H.
  apply andb_true_iff in H as [H1 H2]. fold (grammar_refs (map field_rule fs)).
  rewrite forallb_app, (IH H2). rewrite (proj1 (proj2 (field_rule_facts allowed f H1))). reflexivity.
Qed.

Lemma noempty_fields allowed fs : forallb (regex_field_ok allowed) fs = true ->
  wf_noempty (map field_rule fs) = true.
Proof.
  unfold wf_noempty. induction fs as [|f fs IH]; [reflexivity|]. cbn [forallb map]. intro H.
  apply andb_true_iff in H as [H1 H2]. rewrite (IH H2), (proj2 (proj2 (field_rule_facts allowed f H1))). reflexivity.
Qed.

(* ---- the reference group ------------------------------------------------------------------------------------- *)
Lemma ref_alts_refs ns : flat_map (flat_map item_refs) (map (fun n => [IRef n]) ns) = ns.
Proof. induction ns as [|n ns IH]; [reflexivity|]. cbn. rewrite IH. reflexivity. Qed.

Lemma ref_alts_noempty ns :
  forallb (fun s => negb (is_nil s) && forallb item_no_empty_alt s) (map (fun n => [IRef n]) ns) = true.
Proof. induction ns as [|n ns IH]; [reflexivity|]. cbn. exact IH. Qed.

Lemma refs_rule_refs ns : alts_refs (r_alts (refs_rule ns)) = ns.
Proof.
  unfold refs_rule, alts_refs. cbn [r_alts flat_map item_refs]. rewrite !app_nil_r. apply ref_alts_refs.
Qed.

Lemma refs_rule_noempty ns : alts_no_empty (r_alts (refs_rule ns)) = true.
Proof.
  unfold refs_rule, alts_no_empty. cbn [r_alts forallb is_nil negb item_no_empty_alt andb].
  rewrite ref_alts_noempty. reflexivity.
Qed.

(* ---- the tail of the grammar (everything after the field rules), has-fields case ------------------------- *)
Definition env_rules (x : str) (env : bool) : grammar :=
  if env then [mkRule n_env_start [[ILit x]]; rule_of_line L_env_end; rule_of_line L_meta_block; rule_of_line L_meta_content;
               rule_of_line L_meta_field; rule_of_line L_doc_env]
  else [rule_of_line L_doc_noenv].

(* concrete part of the tail: everything except the `field` rule *)
Definition tail_c (x : str) (env : bool) : grammar := [rule_of_line L_content_f] ++ env_rules x env ++ [root_rule].

Definition DT (env : bool) : list str := n_field :: defs (tail_c [] env).

Lemma defs_tail_c x env : defs (tail_c x env) = defs (tail_c [] env).
Proof. destruct env; vm_compute; reflexivity. Qed.

Lemma DT_struct env : forallb (fun d => str_in d (struct_names env)) (n_ws :: DT env) = true.
Proof. destruct env; vm_compute; reflexivity. Qed.

Lemma struct_DT env : forallb (fun d => str_in d (n_ws :: DT env)) (struct_names env) = true.
Proof. destruct env; vm_compute; reflexivity. Qed.

Lemma DT_nodup env : nodupb (n_ws :: DT env) = true.
Proof. destruct env; vm_compute; reflexivity. Qed.

Lemma tail_c_refs x env : forallb (fun r => str_in r (n_ws :: DT env)) (grammar_refs (tail_c x env)) = true.
Proof. destruct env; vm_compute; reflexivity. Qed.

Lemma tail_c_noempty x env : wf_noempty (tail_c x env) = true.
Proof. destruct env; vm_compute; reflexivity. Qed.

Lemma ws_rule_facts : defs [rule_of_line L_ws] = [n_ws] /\ grammar_refs [rule_of_line L_ws] = []
                      /\ wf_noempty [rule_of_line L_ws] = true.
Proof. vm_compute. repeat split; reflexivity. Qed.

Lemma env_start_rule_shape s env : safe_schema s env = true -> env = true ->
  exists x, env_start_rule s = mkRule n_env_start [[ILit x]].
Proof.
  intros _ _. eexists. unfold env_start_rule, rule_of_line. rewrite env_start_line_rule. reflexivity.
Qed.

Lemma grammar_of_env_rules s env : safe_schema s env = true -> exists x,
  grammar_of s env =
  [rule_of_line L_ws] ++ map field_rule (sc_fields s)
  ++ (if is_nil (sc_fields s) then [rule_of_line L_content_nf] else [refs_rule (rule_names s); rule_of_line L_content_f])
  ++ env_rules x env ++ [root_rule].
Proof.
  intro H. unfold grammar_of, env_rules. destruct env; [|exists []; reflexivity].
  destruct (env_start_rule_shape s true H eq_refl) as [x Ex]. exists x. rewrite Ex. reflexivity.
Qed.

(* ---- wf of the recognised grammar ----------------------------------------------------------------------------- *)
Lemma wf_split g : wf_root g = true -> wf_refs g = true -> wf_nodup g = true -> wf_noempty g = true -> wf g = true.
Proof. intros H1 H2 H3 H4. unfold wf. rewrite H1, H2, H3, H4. reflexivity. Qed.

Lemma wf_noempty_app a b : wf_noempty (a ++ b) = wf_noempty a && wf_noempty b.
Proof. apply forallb_app. Qed.

Lemma grammar_refs_app a b : grammar_refs (a ++ b) = grammar_refs a ++ grammar_refs b.
Proof. apply flat_map_app. Qed.

Lemma defs_app a b : defs (a ++ b) = defs a ++ defs b.
Proof. apply map_app. Qed.

(* has-fields case, with the field rules abstract *)
Section HasFields.
Variables (names : list str) (FR : grammar) (x : str) (env : bool).
Hypothesis Hdefs : defs FR = names.
Hypothesis Hrefs : forallb (fun r => str_in r (names ++ struct_names env)) (grammar_refs FR) = true.
Hypothesis Hnoe : wf_noempty FR = true.
Hypothesis Hnd : nodupb names = true.
Hypothesis Hst : existsb (fun n => str_in n (struct_names env)) names = false.

Let G : grammar := [rule_of_line L_ws] ++ FR ++ [refs_rule names] ++ tail_c x env.
Let D : list str := n_ws :: names ++ DT env.

Lemma hf_defs : defs G = D.
Proof.
  unfold G, D. destruct ws_rule_facts as (Wd & _ & _).
  rewrite (defs_app [rule_of_line L_ws]), (defs_app FR), (defs_app [refs_rule names]), Wd, Hdefs, defs_tail_c. reflexivity.
Qed.

Lemma hf_subT r : str_in r (n_ws :: DT env) = true -> str_in r D = true.
Proof.
  intro Hr. unfold D. cbn [str_in] in Hr |- *. rewrite str_in_app.
  destruct (str_eqb r n_ws); [reflexivity|]. cbn [orb] in Hr |- *. rewrite Hr. apply orb_true_r.
Qed.

Lemma hf_subN r : str_in r names = true -> str_in r D = true.
Proof. intro Hr. unfold D. cbn [str_in]. rewrite str_in_app, Hr. cbn [orb]. apply orb_true_r. Qed.

Lemma hf_subA r : str_in r (names ++ struct_names env) = true -> str_in r D = true.
Proof.
  intro Hr. rewrite str_in_app in Hr. apply orb_true_iff in Hr as [Hr|Hr].
  - apply hf_subN. exact Hr.
  - apply hf_subT. exact (str_in_sub _ _ _ (struct_DT env) Hr).
Qed.

Lemma root_in_DT : str_in s_root (n_ws :: DT env) = true.
Proof. destruct env; vm_compute; reflexivity. Qed.

Lemma hf_root : wf_root G = true.
Proof. unfold wf_root. rewrite hf_defs. apply hf_subT. exact root_in_DT. Qed.

Lemma hf_refs : wf_refs G = true.
Proof.
  unfold wf_refs. rewrite hf_defs. unfold G. destruct ws_rule_facts as (_ & Wr & _).
  rewrite (grammar_refs_app [rule_of_line L_ws]), (grammar_refs_app FR), (grammar_refs_app [refs_rule names]), Wr.
  rewrite app_nil_l, (forallb_app _ (grammar_refs FR)), (forallb_app _ (grammar_refs [refs_rule names])).
  apply andb_true_iff; split; [|apply andb_true_iff; split].
  - exact (forallb_impl _ _ _ hf_subA Hrefs).
  - cbn [grammar_refs flat_map]. rewrite app_nil_r, refs_rule_refs.
    apply forallb_forall. intros r Hr. apply hf_subN. apply str_in_In. exact Hr.
  - exact (forallb_impl _ _ _ hf_subT (tail_c_refs x env)).
Qed.

Lemma hf_disjoint n l : forallb (fun d => str_in d (struct_names env)) l = true ->
  str_in n names = true -> str_in n l = false.
Proof.
  intros Hl Hn. destruct (str_in n l) eqn:E; [|reflexivity]. exfalso.
  pose proof (str_in_sub _ _ _ Hl E) as Q. apply str_in_In in Hn.
  rewrite (existsb_false_forall _ _ Hst n Hn) in Q. discriminate Q.
Qed.

Lemma hf_nodup : wf_nodup G = true.
Proof.
  unfold wf_nodup. rewrite hf_defs. unfold D.
  pose proof (DT_nodup env) as Nd. cbn [nodupb] in Nd |- *. apply andb_true_iff in Nd as [Nd1 Nd2].
  apply negb_true_iff in Nd1.
  pose proof (DT_struct env) as Hds. cbn [forallb] in Hds. apply andb_true_iff in Hds as [Hws Hds].
  rewrite str_in_app, Nd1, orb_false_r, nodupb_app, Hnd, Nd2. cbn [andb].
  apply andb_true_iff. split.
  - apply negb_true_iff. destruct (str_in n_ws names) eqn:E; [|reflexivity]. exfalso.
    apply str_in_In in E. rewrite (existsb_false_forall _ _ Hst _ E) in Hws. discriminate Hws.
  - apply forallb_forall. intros n Hn. apply negb_true_iff. apply hf_disjoint; [exact Hds|]. apply str_in_In. exact Hn.
Qed.

Lemma hf_noempty : wf_noempty G = true.
Proof.
  unfold G. destruct ws_rule_facts as (_ & _ & Wn).
  rewrite (wf_noempty_app [rule_of_line L_ws]), (wf_noempty_app FR), (wf_noempty_app [refs_rule names]), Wn, Hnoe, tail_c_noempty.
  unfold wf_noempty at 1. cbn [forallb]. rewrite refs_rule_noempty. reflexivity.
Qed.

Lemma hf_wf : wf G = true.
Proof. apply wf_split; [exact hf_root|exact hf_refs|exact hf_nodup|exact hf_noempty]. Qed.
End HasFields.

Lemma nofields_wf x env :
  wf ([rule_of_line L_ws] ++ [] ++ [rule_of_line L_content_nf] ++ env_rules x env ++ [root_rule]) = true.
Proof. destruct env; vm_compute; reflexivity. Qed.

Theorem grammar_of_wf s env : safe_schema s env = true -> wf (grammar_of s env) = true.
Proof.
  intro H. destruct (grammar_of_env_rules s env H) as [x ->].
  destruct (sc_fields s) as [|f0 fs0] eqn:Ef.
  { exact (nofields_wf x env). }
  cbn [is_nil]. rewrite <- Ef.
  pose proof (all_fields_ok _ _ H) as Hall.
  destruct (safe_schema_parts _ _ H) as [_ Hnd Hst _ _ _ _].
  exact (hf_wf (rule_names s) (map field_rule (sc_fields s)) x env
               (defs_fields _ _ Hall) (refs_fields _ _ Hall) (noempty_fields _ _ Hall) Hnd Hst).
Qed.

(* ---- main theorems ---------------------------------------------------------------------------------------------- *)
Lemma wf_text_of_parse t g : gbnf_parse t = Some g -> wf g = true -> wf_text t = true.
Proof.
  intros Hp Hw. unfold wf_text, wf_text_code, wf_text_code_g. change (gbnf_parse_g false t) with (gbnf_parse t).
  rewrite Hp. unfold wf in Hw. apply andb_true_iff in Hw as [Hw H4]. apply andb_true_iff in Hw as [Hw H3].
  apply andb_true_iff in Hw as [H1 H2]. rewrite H1, H2, H3, H4. reflexivity.
Qed.

(* every grammar text compiled from a safe schema whose REGEX members compile to NUL-free patterns is
   well-formed GBNF *)
Theorem compile_wf_nul_free s env :
  safe_schema s env = true -> regex_nul_free s = true -> wf_text (compile_schema s env) = true.
Proof.
  intros H Hz. exact (wf_text_of_parse _ _ (parse_compile s env H Hz) (grammar_of_wf s env H)).
Qed.

(* ... and the parse result is known explicitly *)
Theorem compile_parse_wf s env :
  safe_schema s env = true -> regex_nul_free s = true ->
  gbnf_parse (compile_schema s env) = Some (grammar_of s env) /\ wf (grammar_of s env) = true.
Proof. intros H Hz. split; [exact (parse_compile s env H Hz)|exact (grammar_of_wf s env H)]. Qed.

(* stage (b): no picked REGEX member at all *)
Definition no_regex (s : schema) : bool := forallb (fun f => negb (is_regex_field f)) (sc_fields s).

Lemma no_regex_nul_free s : no_regex s = true -> regex_nul_free s = true.
Proof.
  unfold no_regex, regex_nul_free. apply forallb_impl. intros f Hf. rewrite Hf. reflexivity.
Qed.

Theorem compile_wf_no_regex s env :
  safe_schema s env = true -> no_regex s = true -> wf_text (compile_schema s env) = true.
Proof. intros H Hn. apply compile_wf_nul_free; [exact H|apply no_regex_nul_free; exact Hn]. Qed.

(* stage (a): no field *)
Theorem compile_wf_no_fields s env :
  safe_schema s env = true -> sc_fields s = [] -> wf_text (compile_schema s env) = true.
Proof.
  intros H Hn. apply compile_wf_no_regex; [exact H|]. unfold no_regex. rewrite Hn. reflexivity.
Qed.

(* the statement as it stood in the design (hypothesis safe_schema only) *)
Definition compile_wf_full : Prop :=
  forall s env, safe_schema s env = true -> wf_text (compile_schema s env) = true.

(* ... is false: a REGEX whose class body is one NUL character passes clause 5 (Safe.line_rule runs the recogniser without the C-string cut)
   but the text handed to llama.cpp ends at the NUL, inside the character class *)
Definition nul_regex_schema : schema := sch [fld w_NAME [CRegex [c_lbr; 0; c_rbr]]].

Lemma compile_wf_full_refuted_witness :
  safe_schema nul_regex_schema true = true /\ regex_nul_free nul_regex_schema = false
  /\ wf_text_code (compile_schema nul_regex_schema true) = 1.
Proof. vm_compute. repeat split; reflexivity. Qed.

Theorem compile_wf_full_refuted : ~ compile_wf_full.
Proof.
  intro A. pose proof (A nul_regex_schema true (proj1 compile_wf_full_refuted_witness)) as Q.
  vm_compute in Q. discriminate.
Qed.

(* if the scope clause of safe_schema is extended by regex_nul_free the original statement follows *)
Corollary compile_wf_full_modulo_nul :
  forall s env, safe_schema s env && regex_nul_free s = true -> wf_text (compile_schema s env) = true.
Proof. intros s env H. apply andb_true_iff in H as [H1 H2]. exact (compile_wf_nul_free s env H1 H2). Qed.

(* ---- the extra clause stated on the SOURCE pattern: _compile_regex never introduces a NUL ------------------ *)
Lemma takeb_pres (P q : N -> bool) s : forallb P s = true -> forallb P (takeb q s) = true.
Proof.
  induction s as [|c s IH]; intro H; [reflexivity|]. cbn [takeb]. destruct (q c); [|reflexivity].
  cbn [forallb] in *. apply andb_true_iff in H as [H1 H2]. rewrite H1, IH by exact H2. reflexivity.
Qed.

Lemma nz_no_nul s : forallb nz s = true -> no_nul s = true.
Proof.
  unfold no_nul, memb. induction s as [|c s IH]; [reflexivity|]. cbn [forallb existsb]. intro H.
  apply andb_true_iff in H as [H1 H2]. unfold nz in H1. apply negb_true_iff in H1.
  rewrite N.eqb_sym, H1. cbn [orb]. apply IH. exact H2.
Qed.

Lemma simple_class_nz p body q : forallb nz p = true -> simple_class p = Some (body, q) ->
  forallb nz body = true /\ forallb nz q = true.
Proof.
  intros Hp. unfold simple_class. destruct p as [|c r]; [discriminate|].
  cbn [forallb] in Hp. apply andb_true_iff in Hp as [_ Hr].
  destruct (N.eqb c c_lbr); [|discriminate].
  pose proof (takeb_pres nz (fun x => negb (N.eqb x c_rbr)) r Hr) as Hb.
  pose proof (dropb_pres nz (fun x => negb (N.eqb x c_rbr)) r Hr) as Hd.
  destruct (takeb _ r) as [|b0 bs] eqn:Eb; [discriminate|].
  destruct (dropb _ r) as [|y r2] eqn:Ed; [discriminate|].
  cbn [forallb] in Hd. apply andb_true_iff in Hd as [_ Hd].
  destruct r2 as [|x1 [|x2 [|x3 r3]]].
  - intro E. injection E as <- <-. split; [exact Hb|reflexivity].
  - cbn [forallb] in Hd. apply andb_true_iff in Hd as [Hx _].
    destruct (_ || _ || _).
    + intro E. injection E as <- <-. split; [exact Hb|]. cbn. rewrite Hx. reflexivity.
    + destruct (N.eqb x1 c_nl); [|discriminate]. intro E. injection E as <- <-. split; [exact Hb|reflexivity].
  - cbn [forallb] in Hd. apply andb_true_iff in Hd as [Hx _].
    destruct (_ && _); [|discriminate]. intro E. injection E as <- <-. split; [exact Hb|]. cbn. rewrite Hx. reflexivity.
  - discriminate.
Qed.

Lemma compile_regex_nz p : forallb nz p = true -> forallb nz (compile_regex p) = true.
Proof.
  intro Hp. unfold compile_regex.
  set (q := rstrip_set gbnf_regex_rstrip (lstrip_set gbnf_regex_lstrip p)).
  assert (Hq : forallb nz q = true).
  { unfold q, rstrip_set, lstrip_set. rewrite forallb_rev. apply dropb_pres. rewrite forallb_rev. apply dropb_pres. exact Hp. }
  destruct (existsb _ _); [reflexivity|].
  destruct (simple_class q) as [[body qu]|] eqn:E.
  - destruct (simple_class_nz _ _ _ Hq E) as [Hb Hqu]. rewrite !forallb_app, Hb. cbn [forallb andb nz].
    destruct qu; [reflexivity|exact Hqu].
  - destruct (_ || _); [reflexivity|]. apply py_replace_pres; [reflexivity|exact Hq].
Qed.

Definition regex_src_nul_free (s : schema) : bool :=
  forallb (fun f => match picked f with Some (CRegex p) => no_nul p | _ => true end) (sc_fields s).

Lemma regex_src_nul_free_sound s : regex_src_nul_free s = true -> regex_nul_free s = true.
Proof.
  unfold regex_src_nul_free, regex_nul_free. apply forallb_impl. intros f Hf.
  rewrite pattern_of_picked. unfold is_regex_field. destruct (picked f) as [c|]; [|reflexivity].
  destruct c; try reflexivity. cbn [negb orb compile_constraint].
  apply nz_no_nul, compile_regex_nz, no_nul_nz. exact Hf.
Qed.

Theorem compile_wf_src s env :
  safe_schema s env = true -> regex_src_nul_free s = true -> wf_text (compile_schema s env) = true.
Proof. intros H Hz. apply compile_wf_nul_free; [exact H|apply regex_src_nul_free_sound; exact Hz]. Qed.

(* ---- repo commit 481c8b3: the safe class grew ------------------------------------------------------------------ *)
(* every schema of the pre-fix class (field names / upper-cased schema name free of quote and backslash) is in the
   class of this development ... *)
Theorem safe_class_grew s env : safe_schema_raw_names s env = true -> safe_schema s env = true.
Proof.
  unfold safe_schema_raw_names, safe_schema, schema_clauses_raw_names, schema_clauses.
  rewrite pin_field_name_escaped, pin_schema_name_escaped, pin_header_one_line. cbn [name_lit_ok header_ok].
  intro H. apply N.eqb_eq in H.
  repeat (apply N.eq_add_0 in H; let H' := fresh "B" in destruct H as [H H']).
  apply bit_zero, negb_false_iff in B2. apply bit_zero, negb_false_iff in B1.
  rewrite H, B4, B3, B0, B.
  rewrite (forallb_impl _ (fun f => no_nul (fd_name f)) _ (fun f => lit_plain_no_nul (fd_name f)) B2).
  apply andb_true_iff in B1 as [C1 C2]. rewrite (nz_no_nul _ (comment_safe_nz _ C1)).
  destruct env; cbn [negb orb andb] in *; [rewrite (lit_plain_no_nul _ C2)|]; reflexivity.
Qed.

(* ... strictly: the regression schema (name a dq b backslash c, field dq q r dq) is in the new class only *)
Example safe_class_grew_strictly :
  safe_schema regress_schema true = true /\ safe_schema_raw_names regress_schema true = false
  /\ schema_clauses_raw_names regress_schema true = 24.
Proof. vm_compute. repeat split; reflexivity. Qed.

(* the theorem applies to the regression schema (hypotheses by computation, conclusion by the theorem) *)
Example regress_by_theorem :
  wf_text (compile_schema regress_schema true) = true /\ wf_text (compile_schema regress_schema false) = true.
Proof.
  split; apply compile_wf_no_regex; vm_compute; reflexivity.
Qed.

(* ---- non-vacuity --------------------------------------------------------------------------------------------- *)
(* six fields of different kinds (ENUM with a quote and a backslash, REGEX, CONST, TYPE NUMBER, DATE, no chain),
   names status / name / k / q / id / f1 *)
Example wf_example_hyps : safe_schema ex_schema true = true /\ regex_nul_free ex_schema = true
                          /\ safe_schema ex_schema false = true.
Proof. vm_compute. repeat split; reflexivity. Qed.

Example wf_example_by_computation : wf_text (compile_schema ex_schema true) = true.
Proof. vm_compute. reflexivity. Qed.

Example wf_example_by_theorem : wf_text (compile_schema ex_schema true) = true.
Proof.
  apply compile_wf_nul_free; [exact (proj1 wf_example_hyps)|exact (proj1 (proj2 wf_example_hyps))].
Qed.

Example wf_example_grammar : gbnf_parse (compile_schema ex_schema true) = Some (grammar_of ex_schema true).
Proof. vm_compute. reflexivity. Qed.
