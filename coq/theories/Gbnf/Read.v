(* How the OCTAVE reader types a value text w written as  F::w , and the verdicts of the few constraints
   C13 needs.  The tokens come from the SHARED lexer model (OV.Lex.Lexer.tokenize, read-only); the step from
   tokens to a value is a small model of the branches of octave_mcp.core.parser.Parser.parse_value reached by
   one value line (standalone literal; multi-word coalescing led by NUMBER / BOOLEAN / NULL / STRING /
   VERSION / IDENTIFIER).  Everything else is ROut (no prediction).  Tied to octave_mcp.parse by the
   correspondence run of harness/props/c13.py on every derived text. *)
From OV Require Import Base.Strs Lex.Lexer Gbnf.Syntax.
From Coq Require Import ZArith.
Open Scope N_scope.

Inductive rval :=
| RInt (raw : str)        (* NUMBER lexeme without . e E : Python int(raw) *)
| RFloat (raw : str)      (* NUMBER lexeme with . e E   : Python float(raw) *)
| RBool (b : bool)
| RNull
| RStr (s : str)
| RErr                    (* reading raises *)
| ROut.                   (* outside this model: no prediction *)

Definition s_F_assign : str := [70;58;58].
Definition s_true' : str := [116;114;117;101].
Definition s_false' : str := [102;97;108;115;101].
Definition s_null' : str := [110;117;108;108].
Definition s_None' : str := [78;111;110;101].

Definition is_value_tok (t : token) : bool :=
  match tk t with IDENTIFIER | NUMBER | VERSION | BOOLEAN | NULL | STRING | VARIABLE => true | _ => false end.
Definition is_expr_op (t : token) : bool :=
  match tk t with FLOW | SYNTHESIS | AT | CONCAT | TENSION | CONSTRAINT | ALTERNATIVE => true | _ => false end.

(* _token_to_str *)
Definition tok_str (t : token) : str :=
  match tk t, tv t with
  | NUMBER, TVNum raw => raw
  | BOOLEAN, TVBool b => if b then s_true' else s_false'
  | NULL, _ => s_null'
  | STRING, TVText s => c_dq :: s ++ [c_dq]
  | _, TVText s => s
  | _, _ => []
  end.

Fixpoint span_values (l : list token) : list token * list token :=
  match l with
  | t :: l' => if is_value_tok t then let '(a, b) := span_values l' in (t :: a, b) else ([], l)
  | [] => ([], [])
  end.

(* Python 3.12: int(str) refuses more than 4300 digits (sys.get_int_max_str_digits) *)
Definition int_max_digits : nat := 4300.
Definition count_digits (raw : str) : nat := length (filter is_digit raw).

Definition num_value (raw : str) : rval :=
  if existsb (fun c => N.eqb c c_dot || N.eqb c 101 || N.eqb c 69) raw then RFloat raw
  else if (count_digits raw <=? int_max_digits)%nat then RInt raw else RErr.

Definition has_annotation (s : str) : bool := memb c_lt s.

(* what may follow the value on its line without changing it: end of line, or a `:` (the rest is then read as
   something else; observed on the ISO8601 texts) *)
Definition tail_ok (after : list token) : bool :=
  match after with
  | [] => true
  | t :: _ => match tk t with EOF | NEWLINE | BLOCK => true | _ => false end
  end.

Definition read_tokens (toks : list token) : rval :=
  match toks with
  | [] => ROut
  | t :: rest =>
      let '(vals, after) := span_values rest in
      let joined := join [c_sp] (map tok_str (t :: vals)) in
      if negb (tail_ok after) then ROut else
      match tk t, tv t with
      | NUMBER, TVNum raw =>
          match vals with
          | [] => (* the lexer converts every NUMBER token, whatever the parser then does with it *)
                  num_value raw
          | _ => RStr joined
          end
      | BOOLEAN, TVBool b => match vals with [] => RBool b | _ => RStr joined end
      | NULL, _ => match vals with [] => RNull | _ => RStr joined end
      | STRING, TVText s => match vals with [] => RStr s | _ => RStr joined end
      | VERSION, TVText s => match vals with [] => RStr s | _ => RStr joined end
      | IDENTIFIER, TVText s =>
          if existsb (fun v => has_annotation (tok_str v)) (t :: vals) then ROut
          else match after with
               | b :: _ => match tk b with BLOCK => ROut | _ => RStr joined end
               | [] => RStr joined
               end
      | EOF, _ => RStr s_None'        (* nothing after `::` : the fallback str(token.value) of the EOF token *)
      | _, _ => ROut
      end
  end.

(* every NUMBER token of the line is converted by the lexer: an over-long integer anywhere raises *)
Definition any_int_overflow (toks : list token) : bool :=
  existsb (fun t => match tk t, tv t with
                    | NUMBER, TVNum raw => match num_value raw with RErr => true | _ => false end
                    | _, _ => false end) toks.

Section R.
Variable cls : N -> N.

Definition read_value (w : str) : rval :=
  if memb c_nl w || memb c_cr w then ROut else
  match tokenize cls false [(s_F_assign ++ w, s_F_assign ++ w)] with
  | LexOk toks _ =>
      if any_int_overflow toks then RErr else
      match toks with
      | t1 :: t2 :: rest =>
          match tk t1, tk t2 with
          | IDENTIFIER, ASSIGN => read_tokens rest
          | _, _ => ROut
          end
      | _ => ROut
      end
  | LexErr _ _ _ => RErr
  | LexFuel => ROut
  end.
End R.

(* ---- the constraint verdicts C13 needs (small model of octave_mcp.core.constraints) ---------------- *)
Inductive cval := CVStr (s : str) | CVInt (txt : str) | CVFloat (repr : str) | CVBool (b : bool) | CVNone.
Inductive ck := KReq | KOpt | KTypeBool | KTypeNum | KConst (c : cval) | KEnum (vals : list str) | KDate | KIso.

(* decimal integer lexeme -> Z  (sign, leading zeros) *)
Definition z_of_raw (raw : str) : Z :=
  let '(neg, ds) := match raw with c :: r => if N.eqb c c_dash then (true, r) else (false, raw) | [] => (false, raw) end in
  let v := fold_left (fun acc c => (acc * 10 + Z.of_N (c - 48))%Z) ds 0%Z in
  if neg then (- v)%Z else v.

Definition s_True : str := [84;114;117;101].
Definition s_False : str := [70;97;108;115;101].
Definition s_None : str := [78;111;110;101].

Definition z_to_str (z : Z) : str :=
  match z with
  | Z0 => [48]
  | Zpos p => N_to_dec (Npos p)
  | Zneg p => c_dash :: N_to_dec (Npos p)
  end.

(* str(value); None = needs Python float formatting (no prediction) *)
Definition py_str (v : rval) : option str :=
  match v with
  | RStr s => Some s
  | RInt raw => Some (z_to_str (z_of_raw raw))
  | RBool b => Some (if b then s_True else s_False)
  | RNull => Some s_None
  | _ => None
  end.

Definition date_shape (s : str) : bool :=
  match s with
  | [a;b;c;d;h1;e;f;h2;g;h] =>
      forallb is_digit [a;b;c;d;e;f;g;h] && N.eqb h1 c_dash && N.eqb h2 c_dash
  | _ => false
  end.

(* necessary for datetime.fromisoformat: the character at index 4 continues a date *)
Definition iso_possible (s : str) : bool :=
  match s with
  | _ :: _ :: _ :: _ :: c :: _ => is_digit c || N.eqb c c_dash || N.eqb c 87
  | _ => false
  end.

(* verdict of one constraint: Some true accept | Some false reject | None no prediction *)
Definition accept1 (k : ck) (v : rval) : option bool :=
  match v with
  | RErr => Some false
  | ROut => None
  | _ =>
    match k with
    | KReq => Some (match v with RNull => false | RStr [] => false | _ => true end)
    | KOpt => Some true
    | KTypeBool => Some (match v with RBool _ => true | _ => false end)
    | KTypeNum => Some (match v with RInt _ | RFloat _ => true | _ => false end)
    | KConst c =>
        match c, v with
        | CVStr s, RStr s' => Some (str_eqb s s')
        | CVStr _, _ => Some false
        | CVInt txt, RInt raw => Some (Z.eqb (z_of_raw txt) (z_of_raw raw))
        | CVInt _, RStr _ => Some false
        | CVInt _, RNull => Some false
        | CVInt _, _ => None
        | CVFloat r, RFloat raw => if str_eqb r raw then Some true else None
        | CVFloat _, RStr _ => Some false
        | CVFloat _, RNull => Some false
        | CVFloat _, _ => None
        | CVBool b, RBool b' => Some (Bool.eqb b b')
        | CVBool _, RStr _ => Some false
        | CVBool _, RNull => Some false
        | CVBool _, _ => None
        | CVNone, RNull => Some true
        | CVNone, _ => Some false
        end
    | KEnum vals =>
        match py_str v with
        | Some s =>
            if str_in s vals then Some true
            else Some (Nat.eqb (length (filter (prefixb s) vals)) 1)
        | None => None
        end
    | KDate => match py_str v with
               | Some s => if date_shape s then None else Some false
               | None => match v with RFloat _ => Some false | _ => None end
               end
    | KIso => match py_str v with
              | Some s => if iso_possible s then None else Some false
              | None => None
              end
    end
  end.

Definition has_k (p : ck -> bool) (ch : list ck) : bool := existsb p ch.
Definition conflict (ch : list ck) : bool :=
  has_k (fun k => match k with KReq => true | _ => false end) ch &&
  has_k (fun k => match k with KOpt => true | _ => false end) ch.

Fixpoint accept_all (ch : list ck) (v : rval) : option bool :=
  match ch with
  | [] => Some true
  | k :: ch' =>
      match accept1 k v with
      | Some true => accept_all ch' v
      | r => r
      end
  end.

(* ConstraintChain.evaluate: conflicts first, then left to right, fail fast *)
Definition accepts (ch : list ck) (v : rval) : option bool :=
  match v with
  | RErr => Some false
  | _ => if conflict ch then Some false else accept_all ch v
  end.
