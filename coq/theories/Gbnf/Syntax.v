(* GBNF as data, and an executable recogniser for llama.cpp's grammar syntax.

   TRUSTED BASE.  There is no network in the sandbox: `gbnf_step` is a transcription, from knowledge of
   llama.cpp `src/llama-grammar.cpp` (class llama_grammar_parser: parse_space, parse_name, parse_char,
   parse_hex, parse_sequence, parse_alternates, parse_rule, parse), of the language that parser accepts:
     rule names [a-zA-Z0-9-]+ ; `::=` ; double-quoted literals with escapes \x \u \U \t \r \n \\ \dquote \[ \] ;
     [classes] with ^ negation, ranges, the same escapes ; ( ) groups ; | ; * + ? {m} {m,} {m,n} ; `.` ;
     # comments ; a newline ends a rule unless inside ( ) or directly after `::=` or `|`.
   The C++ parser is a scannerless recursive descent over a NUL-terminated string; here the same language is
   recognised by a deterministic pushdown automaton folded over the code points (one transition per
   character), which makes `run st (a ++ b) = run (run st a) b` available to the proofs.  An independent
   recursive-descent transcription in Python (harness/props/c12.py, `RefParser`) is compared with the
   extracted automaton on every grammar of every run, and on mutated grammars.
   Differences that are deliberate: code points instead of UTF-8 bytes (ill-formed UTF-8 is out of scope);
   input is cut at the first NUL (C string); repetition counts are unbounded N (std::stoul overflow ignored);
   a duplicate definition is RECORDED (llama.cpp silently overwrites it) so that `wf` can reject it. *)
From OV Require Import Base.Strs.
Open Scope N_scope.

Inductive item :=
| ILit (s : str)
| IClass (neg : bool) (body : list (N * option N))     (* (c, None) single char; (lo, Some hi) range *)
| IRef (name : str)
| IGroup (alts : list (list item))
| IAny
| IRep (it : item) (lo : N) (hi : option N).             (* hi = None : unbounded *)

Definition gseq := list item.
Definition galts := list gseq.
Record rule := mkRule { r_name : str; r_alts : galts }.
Definition grammar := list rule.

(* ---- automaton ------------------------------------------------------------------------------------ *)
Inductive kont :=
| KTop                       (* between rules *)
| KDef                       (* after a rule name: expecting ::= *)
| KSeq                       (* item boundary inside a sequence *)
| KBraceMin                  (* after `{` *)
| KBraceAfterMin (lo : N)
| KBraceMax (lo : N)
| KBraceClose (lo hi : N).

Inductive ectx := ELit | EClsLo | EClsHi (lo : N).

Inductive mode :=
| MSpace (nl_ok : bool) (k : kont)
| MComment (nl_ok : bool) (k : kont)
| MRuleName
| MDef (n : N)                                   (* 1: seen ':'  2: seen '::' *)
| MLit
| MEsc (e : ectx)
| MHex (e : ectx) (hleft : nat) (v : N)
| MRef
| MClsStart                                      (* directly after '[' *)
| MCls                                           (* loop head of the class body *)
| MClsAfter (lo : N)                             (* a class character was read; a '-' may follow *)
| MClsDash (lo : N)                              (* lo '-' read; next char decides range / literal dash *)
| MInt (lo : option N) (v : N)                   (* reading {min (lo=None) or max (lo=Some min) *)
| MErr.

Record frame := mkFrame { f_done : galts; f_cur : gseq }.
Definition frame0 : frame := mkFrame [] [].
Definition frame_alts (f : frame) : galts := f_done f ++ [f_cur f].

Record pst := mkP {
  p_mode : mode;
  p_name : str;                  (* name of the rule being defined *)
  p_top : frame;                 (* innermost group *)
  p_stack : list frame;          (* enclosing groups, innermost first *)
  p_acc : str;                   (* characters of the name / literal being read *)
  p_neg : bool;                  (* class being read *)
  p_cls : list (N * option N);
  p_rules : grammar }.

Definition init : pst := mkP (MSpace true KTop) [] frame0 [] [] false [] [].

Definition set_mode (m : mode) (st : pst) : pst :=
  mkP m (p_name st) (p_top st) (p_stack st) (p_acc st) (p_neg st) (p_cls st) (p_rules st).
Definition set_acc (a : str) (st : pst) : pst :=
  mkP (p_mode st) (p_name st) (p_top st) (p_stack st) a (p_neg st) (p_cls st) (p_rules st).
Definition set_top (f : frame) (st : pst) : pst :=
  mkP (p_mode st) (p_name st) f (p_stack st) (p_acc st) (p_neg st) (p_cls st) (p_rules st).
Definition set_cls (neg : bool) (c : list (N * option N)) (st : pst) : pst :=
  mkP (p_mode st) (p_name st) (p_top st) (p_stack st) (p_acc st) neg c (p_rules st).
Definition err (st : pst) : pst := set_mode MErr st.

Definition nested (st : pst) : bool := match p_stack st with [] => false | _ => true end.

(* us_ok = false is llama.cpp.  us_ok = true is a HYPOTHETICAL dialect in which `_` may occur in rule names;
   it is used only to classify failures (what else is wrong with a grammar apart from underscores). *)
Section Auto.
Variable us_ok : bool.

Definition is_word_char (c : N) : bool := is_alnum c || N.eqb c c_dash || (us_ok && N.eqb c c_us).

Definition add_item (it : item) (st : pst) : pst :=
  set_top (mkFrame (f_done (p_top st)) (f_cur (p_top st) ++ [it])) st.

(* size 0 in llama.cpp's element vector: a repetition operator after it is an error *)
Definition item_nonempty (it : item) : bool :=
  match it with
  | ILit [] => false
  | IClass _ [] => false
  | IRep _ 0 (Some 0) => false
  | _ => true
  end.

Definition apply_rep (lo : N) (hi : option N) (st : pst) : pst :=
  let f := p_top st in
  match rev (f_cur f) with
  | last :: before =>
      if item_nonempty last
      then set_top (mkFrame (f_done f) (rev before ++ [IRep last lo hi])) st
      else err st
  | [] => err st
  end.

(* after an item: parse_space(pos, is_nested) then the sequence loop *)
Definition after_item (st : pst) : pst := set_mode (MSpace (nested st) KSeq) st.

Definition finish_rule (st : pst) : pst :=
  mkP (MSpace true KTop) [] frame0 [] [] false []
      (p_rules st ++ [mkRule (p_name st) (frame_alts (p_top st))]).

Definition hex_val (c : N) : option N :=
  if (97 <=? c) && (c <=? 102) then Some (c - 97 + 10)
  else if (65 <=? c) && (c <=? 70) then Some (c - 65 + 10)
  else if is_digit c then Some (c - 48)
  else None.

(* a character (plain or escaped) has been read in context e *)
Definition got_char (e : ectx) (ch : N) (st : pst) : pst :=
  match e with
  | ELit => set_mode MLit (set_acc (p_acc st ++ [ch]) st)
  | EClsLo => set_mode (MClsAfter ch) st
  | EClsHi lo => set_mode MCls (set_cls (p_neg st) (p_cls st ++ [(lo, Some ch)]) st)
  end.

(* loop head of the class body on character c *)
Definition cls_head (st : pst) (c : N) : pst :=
  if N.eqb c c_rbr then after_item (add_item (IClass (p_neg st) (p_cls st)) (set_cls false [] st))
  else if N.eqb c c_bs then set_mode (MEsc EClsLo) st
  else set_mode (MClsAfter c) st.

(* dispatch of a non-space character at continuation k *)
Definition dispatch (k : kont) (st : pst) (c : N) : pst :=
  match k with
  | KTop => if is_word_char c then set_mode MRuleName (set_acc [c] st) else err st
  | KDef => if N.eqb c c_colon then set_mode (MDef 1) st else err st
  | KSeq =>
      if N.eqb c c_dq then set_mode MLit (set_acc [] st)
      else if N.eqb c c_lbr then set_mode MClsStart (set_cls false [] st)
      else if is_word_char c then set_mode MRef (set_acc [c] st)
      else if N.eqb c 40 then                                   (* ( *)
        mkP (MSpace true KSeq) (p_name st) frame0 (p_top st :: p_stack st) (p_acc st) (p_neg st) (p_cls st) (p_rules st)
      else if N.eqb c c_dot then after_item (add_item IAny st)
      else if N.eqb c 42 then let st' := apply_rep 0 None st in
                              match p_mode st' with MErr => st' | _ => after_item st' end
      else if N.eqb c c_plus then let st' := apply_rep 1 None st in
                              match p_mode st' with MErr => st' | _ => after_item st' end
      else if N.eqb c 63 then let st' := apply_rep 0 (Some 1) st in
                              match p_mode st' with MErr => st' | _ => after_item st' end
      else if N.eqb c 123 then set_mode (MSpace (nested st) KBraceMin) st
      else if N.eqb c 124 then                                  (* | : next alternative *)
        set_mode (MSpace true KSeq) (set_top (mkFrame (frame_alts (p_top st)) []) st)
      else
        match p_stack st with
        | outer :: stack' =>
            if N.eqb c 41 then                                  (* ) : close the group *)
              let g := IGroup (frame_alts (p_top st)) in
              let st' := mkP (p_mode st) (p_name st) (mkFrame (f_done outer) (f_cur outer ++ [g])) stack'
                             (p_acc st) (p_neg st) (p_cls st) (p_rules st) in
              after_item st'
            else err st
        | [] =>
            if N.eqb c c_cr || N.eqb c c_nl then finish_rule st else err st
        end
  | KBraceMin => if is_digit c then set_mode (MInt None (c - 48)) st else err st
  | KBraceAfterMin lo =>
      if N.eqb c 125 then let st' := apply_rep lo (Some lo) st in
                          match p_mode st' with MErr => st' | _ => after_item st' end
      else if N.eqb c c_comma then set_mode (MSpace (nested st) (KBraceMax lo)) st
      else err st
  | KBraceMax lo =>
      if is_digit c then set_mode (MInt (Some lo) (c - 48)) st
      else if N.eqb c 125 then let st' := apply_rep lo None st in
                               match p_mode st' with MErr => st' | _ => after_item st' end
      else err st
  | KBraceClose lo hi =>
      if N.eqb c 125 then let st' := apply_rep lo (Some hi) st in
                          match p_mode st' with MErr => st' | _ => after_item st' end
      else err st
  end.

(* parse_space(pos, nl_ok) followed by continuation k, on character c *)
Definition space_step (nl_ok : bool) (k : kont) (st : pst) (c : N) : pst :=
  if N.eqb c c_sp || N.eqb c c_tab then set_mode (MSpace nl_ok k) st
  else if N.eqb c c_hash then set_mode (MComment nl_ok k) st
  else if nl_ok && (N.eqb c c_cr || N.eqb c c_nl) then set_mode (MSpace nl_ok k) st
  else dispatch k st c.

Definition gbnf_step (st : pst) (c : N) : pst :=
  match p_mode st with
  | MErr => st
  | MSpace nl_ok k => space_step nl_ok k st c
  | MComment nl_ok k =>
      if N.eqb c c_cr || N.eqb c c_nl then space_step nl_ok k st c else st
  | MRuleName =>
      if is_word_char c then set_acc (p_acc st ++ [c]) st
      else space_step false KDef
             (mkP (MSpace false KDef) (p_acc st) frame0 [] [] false [] (p_rules st)) c
  | MDef n =>
      if N.eqb n 1 then (if N.eqb c c_colon then set_mode (MDef 2) st else err st)
      else if N.eqb c c_eq then set_mode (MSpace true KSeq) st else err st
  | MLit =>
      if N.eqb c c_dq then after_item (add_item (ILit (p_acc st)) (set_acc [] st))
      else if N.eqb c c_bs then set_mode (MEsc ELit) st
      else set_acc (p_acc st ++ [c]) st
  | MEsc e =>
      if N.eqb c 120 then set_mode (MHex e 2 0) st
      else if N.eqb c 117 then set_mode (MHex e 4 0) st
      else if N.eqb c 85 then set_mode (MHex e 8 0) st
      else if N.eqb c c_t then got_char e c_tab st
      else if N.eqb c 114 then got_char e c_cr st
      else if N.eqb c c_n then got_char e c_nl st
      else if N.eqb c c_bs || N.eqb c c_dq || N.eqb c c_lbr || N.eqb c c_rbr then got_char e c st
      else err st
  | MHex e hleft v =>
      match hex_val c with
      | Some d =>
          match hleft with
          | S O => got_char e (v * 16 + d) st
          | S l => set_mode (MHex e l (v * 16 + d)) st
          | O => err st
          end
      | None => err st
      end
  | MRef =>
      if is_word_char c then set_acc (p_acc st ++ [c]) st
      else let st' := add_item (IRef (p_acc st)) (set_acc [] st) in
           space_step (nested st') KSeq st' c
  | MClsStart =>
      if N.eqb c 94 then set_mode MCls (set_cls true [] st) else cls_head st c
  | MCls => cls_head st c
  | MClsAfter lo =>
      if N.eqb c c_dash then set_mode (MClsDash lo) st
      else cls_head (set_cls (p_neg st) (p_cls st ++ [(lo, None)]) st) c
  | MClsDash lo =>
      if N.eqb c c_rbr then
        cls_head (set_cls (p_neg st) (p_cls st ++ [(lo, None); (c_dash, None)]) st) c
      else if N.eqb c c_bs then set_mode (MEsc (EClsHi lo)) st
      else set_mode MCls (set_cls (p_neg st) (p_cls st ++ [(lo, Some c)]) st)
  | MInt lo v =>
      if is_digit c then set_mode (MInt lo (v * 10 + (c - 48))) st
      else match lo with
           | None => space_step (nested st) (KBraceAfterMin v) st c
           | Some l => space_step (nested st) (KBraceClose l v) st c
           end
  end.

Definition run (st : pst) (s : str) : pst := fold_left gbnf_step s st.

Lemma run_app st a b : run st (a ++ b) = run (run st a) b.
Proof. apply fold_left_app. Qed.

(* end of input *)
Definition gbnf_finish (st : pst) : option grammar :=
  match p_mode st with
  | MSpace _ KTop | MComment _ KTop => Some (p_rules st)
  | MSpace _ KSeq | MComment _ KSeq =>
      match p_stack st with [] => Some (p_rules (finish_rule st)) | _ => None end
  | MRef =>
      match p_stack st with
      | [] => Some (p_rules (finish_rule (add_item (IRef (p_acc st)) st)))
      | _ => None
      end
  | _ => None
  end.

(* C string: the input ends at the first NUL *)
Definition cut_nul (s : str) : str := takeb (fun c => negb (N.eqb c 0)) s.

Definition gbnf_parse_g (s : str) : option grammar := gbnf_finish (run init (cut_nul s)).
End Auto.

Definition gbnf_parse : str -> option grammar := gbnf_parse_g false.

(* ---- well-formedness of a parsed grammar ------------------------------------------------------------ *)
Fixpoint item_refs (it : item) : list str :=
  match it with
  | IRef n => [n]
  | IGroup alts => flat_map (flat_map item_refs) alts
  | IRep i _ _ => item_refs i
  | _ => []
  end.
Definition alts_refs (a : galts) : list str := flat_map (flat_map item_refs) a.
Definition grammar_refs (g : grammar) : list str := flat_map (fun r => alts_refs (r_alts r)) g.
Definition defs (g : grammar) : list str := map r_name g.

Definition is_nil {A} (l : list A) : bool := match l with [] => true | _ => false end.

Fixpoint item_no_empty_alt (it : item) : bool :=
  match it with
  | IGroup alts => forallb (fun s => negb (is_nil s) && forallb item_no_empty_alt s) alts
  | IRep i _ _ => item_no_empty_alt i
  | _ => true
  end.
Definition alts_no_empty (a : galts) : bool :=
  forallb (fun s => negb (is_nil s) && forallb item_no_empty_alt s) a.

Fixpoint nodupb (l : list str) : bool :=
  match l with [] => true | x :: l' => negb (str_in x l') && nodupb l' end.

Definition s_root : str := [114;111;111;116].

Definition wf_root (g : grammar) : bool := str_in s_root (defs g).
Definition wf_refs (g : grammar) : bool := forallb (fun r => str_in r (defs g)) (grammar_refs g).
Definition wf_nodup (g : grammar) : bool := nodupb (defs g).
Definition wf_noempty (g : grammar) : bool := forallb (fun r => alts_no_empty (r_alts r)) g.

Definition wf (g : grammar) : bool := wf_root g && wf_refs g && wf_nodup g && wf_noempty g.

(* verdict on a grammar TEXT: 0 ok | 1 does not parse | 2 root missing | 3 undefined reference |
   4 duplicate definition | 5 empty alternative  (first failing clause in this order) *)
Definition wf_text_code_g (us_ok : bool) (s : str) : N :=
  match gbnf_parse_g us_ok s with
  | None => 1
  | Some g => if negb (wf_root g) then 2 else if negb (wf_refs g) then 3
              else if negb (wf_nodup g) then 4 else if negb (wf_noempty g) then 5 else 0
  end.

Definition wf_text_code : str -> N := wf_text_code_g false.
Definition wf_text (s : str) : bool := N.eqb (wf_text_code s) 0.

(* the literal scanner alone: text after the opening quote -> (content, rest after the closing quote) *)
Fixpoint lit_scan (st : pst) (s : str) : option (str * str) :=
  match s with
  | [] => None
  | c :: s' =>
      let st' := gbnf_step false st c in
      match p_mode st' with
      | MLit | MEsc ELit | MHex ELit _ _ => lit_scan st' s'
      | MSpace _ KSeq => match rev (f_cur (p_top st')) with ILit x :: _ => Some (x, s') | _ => None end
      | _ => None
      end
  end.

Definition lit_start : pst := set_mode MLit init.

(* gbnf_literal (the text of a literal INCLUDING both quotes, followed by rest) *)
Definition gbnf_literal (s : str) : option (str * str) :=
  match s with
  | c :: s' => if N.eqb c c_dq then lit_scan lit_start s' else None
  | [] => None
  end.
