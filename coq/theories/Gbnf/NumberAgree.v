(* C13, TYPE[NUMBER]: every derivation of the compiled NUMBER fragment  "-"? [0-9]+ ("." [0-9]+)?  is read by the
   reader model as the number with that lexeme, and accepted by TYPE[NUMBER] (with or without REQ / OPT) --
   for digit strings of EVERY length (induction on the derivation and on the digit lists), except the integers
   with more than 4300 digits, which the reader refuses (finding C13-number-int-limit; refutation below).

     1. derives frag_number w  <->  gnum_ok w = true         (decidable shape; inversion / construction)
     2. the shared lexer model on  F::w  (the text read_value builds; w ends the input, no newline) :
        IDENTIFIER F, ASSIGN, NUMBER w, EOF  -- the NUMBER scanner consumes exactly w and no earlier branch of
        step_plain fires (VERSION needs a third component or a -pre / +build tail)
     3. read_value cls w = num_value w ; num_value is RFloat w with a dot, RInt w up to 4300 digits, else RErr
     4. TYPE[NUMBER] accepts RInt / RFloat.
   The lexer facts reuse the chunk lemmas of Rt/LexLinkBase.v and Rt/LexLinkSteps.v (sp_number, snum_rest,
   digits1_app, alias lemmas); what is new here is the END-OF-INPUT form of the scanner equations. *)
From OV Require Import Base.Strs Gen.LexerGen Gbnf.Syntax Gbnf.Derive Gbnf.Read Gbnf.Agree
                       Lex.Lexer Rt.LexLinkBase Rt.LexLinkSteps.
From Coq Require Import Lia.
Open Scope N_scope.

(* ================= 1. the derivations of the NUMBER fragment ================================================== *)
Lemma d_seq_cons_inv it s w : d_seq (it :: s) w -> exists w1 w2, w = w1 ++ w2 /\ d_item it w1 /\ d_seq s w2.
Proof.
  intro H. inversion H as [|it' s' w1 w2 H1 H2]; subst. exists w1, w2. split; [reflexivity|split; assumption].
Qed.

Lemma d_irep_inv it lo hi w : d_item (IRep it lo hi) w ->
  exists n, d_rep it n w /\ lo <= N.of_nat n /\ match hi with Some h => N.of_nat n <= h | None => True end.
Proof. intro H. inversion H as [| | | |it' lo' hi' n w' Hr Hlo Hhi]; subst. exists n. split; [exact Hr|split; assumption]. Qed.

Lemma d_rep_0_inv it w : d_rep it 0 w -> w = [].
Proof. intro H. inversion H. reflexivity. Qed.

Lemma d_rep_S_inv it n w : d_rep it (S n) w -> exists w1 w2, w = w1 ++ w2 /\ d_item it w1 /\ d_rep it n w2.
Proof.
  intro H. inversion H as [|it' n' w1 w2 H1 H2]; subst. exists w1, w2. split; [reflexivity|split; assumption].
Qed.

Lemma d_class_inv neg body w : d_item (IClass neg body) w -> exists c, w = [c] /\ xorb neg (cls_mem body c) = true.
Proof. intro H. inversion H as [|neg' body' c Hc| | |]; subst. exists c. split; [reflexivity|exact Hc]. Qed.

Lemma digit_cls_mem c : cls_mem [(48, Some 57)] c = is_digit c.
Proof. unfold cls_mem, is_digit. cbn [existsb snd fst]. apply orb_false_r. Qed.

Lemma d_digit_inv w : d_item digit_cls w -> exists c, w = [c] /\ is_digit c = true.
Proof.
  intro H. unfold digit_cls in H. apply d_class_inv in H as (c & -> & H). exists c. split; [reflexivity|].
  rewrite digit_cls_mem in H. destruct (is_digit c); [reflexivity|discriminate H].
Qed.

Lemma d_digit_intro c : is_digit c = true -> d_item digit_cls [c].
Proof. intro H. unfold digit_cls. apply DClass. rewrite digit_cls_mem, H. reflexivity. Qed.

(* [0-9]{n} : exactly the digit strings of length n -- induction on n / on the string *)
Lemma d_rep_digits n : forall w, d_rep digit_cls n w -> forallb is_digit w = true /\ length w = n.
Proof.
  induction n as [|n IH]; intros w H.
  - apply d_rep_0_inv in H. subst w. split; reflexivity.
  - apply d_rep_S_inv in H as (w1 & w2 & -> & H1 & H2). apply d_digit_inv in H1 as (c & -> & Hc).
    destruct (IH _ H2) as [Ha Hl]. cbn [app forallb length]. rewrite Hc, Ha, Hl. split; reflexivity.
Qed.

Lemma digits_d_rep w : forallb is_digit w = true -> d_rep digit_cls (length w) w.
Proof.
  induction w as [|c w IH]; cbn [forallb length]; intro H.
  - apply DRep0.
  - apply andb_true_iff in H as [Hc Hw]. apply (DRepS digit_cls (length w) [c] w); [apply d_digit_intro, Hc|exact (IH Hw)].
Qed.

(* [0-9]+ *)
Lemma d_digits1_inv w : d_item (IRep digit_cls 1 None) w -> digs w = true.
Proof.
  intro H. apply d_irep_inv in H as (n & H & Hlo & _). apply d_rep_digits in H as [Ha Hl].
  destruct w as [|c w]; [cbn [length] in Hl; subst n; cbn in Hlo; lia|]. exact Ha.
Qed.

Lemma d_digits1_intro w : digs w = true -> d_item (IRep digit_cls 1 None) w.
Proof.
  intro H. apply digs_spec in H as [Hne Ha]. apply (DRepI digit_cls 1 None (length w) w).
  - apply digits_d_rep, Ha.
  - destruct w as [|c w]; [congruence|]. cbn [length]. lia.
  - exact I.
Qed.

(* X? *)
Lemma d_opt_inv it w : d_item (IRep it 0 (Some 1)) w -> w = [] \/ d_item it w.
Proof.
  intro H. apply d_irep_inv in H as (n & H & _ & Hhi). destruct n as [|[|n]].
  - left. exact (d_rep_0_inv _ _ H).
  - right. apply d_rep_S_inv in H as (w1 & w2 & -> & H1 & H2). apply d_rep_0_inv in H2. subst w2.
    rewrite app_nil_r. exact H1.
  - exfalso. lia.
Qed.

Lemma d_opt_none it : d_item (IRep it 0 (Some 1)) [].
Proof. apply (DRepI it 0 (Some 1) 0 []); [apply DRep0|cbn; lia|cbn; lia]. Qed.

Lemma d_opt_some it w : d_item it w -> d_item (IRep it 0 (Some 1)) w.
Proof.
  intro H. replace w with (w ++ []) by apply app_nil_r.
  apply (DRepI it 0 (Some 1) 1 (w ++ [])); [apply DRepS; [exact H|apply DRep0]|cbn; lia|cbn; lia].
Qed.

(* ("." [0-9]+) *)
Definition frac_group : item := IGroup [[ILit [c_dot]; IRep digit_cls 1 None]].

Lemma d_frac_inv w : d_item frac_group w -> exists f, w = c_dot :: f /\ digs f = true.
Proof.
  intro H. unfold frac_group in H. apply d_group_inv in H.
  apply d_alts_cons_inv in H as [H|H]; [|exfalso; exact (d_alts_nil_inv _ H)].
  apply d_seq_cons_inv in H as (w1 & w2 & -> & H1 & H2). apply d_lit_inv in H1. subst w1.
  apply d_seq1_inv in H2. exists w2. split; [reflexivity|exact (d_digits1_inv _ H2)].
Qed.

Lemma d_frac_intro f : digs f = true -> d_item frac_group (c_dot :: f).
Proof.
  intro H. unfold frac_group. apply DGroup, DHere.
  replace (c_dot :: f) with ([c_dot] ++ f ++ []) by (rewrite app_nil_r; reflexivity).
  apply DCons; [apply DLit|]. apply DCons; [exact (d_digits1_intro _ H)|apply DNil].
Qed.

(* the shape: sign ++ digits ++ fraction *)
Definition num_shape (w : str) : Prop :=
  exists sg d fr, w = sg ++ d ++ fr /\ (sg = [] \/ sg = [c_dash]) /\ digs d = true /\ frac_ok fr = true.

Lemma frag_number_unfold :
  frag_number = [[IRep (ILit [c_dash]) 0 (Some 1); IRep digit_cls 1 None; IRep frac_group 0 (Some 1)]].
Proof. reflexivity. Qed.

Lemma derives_number_shape w : derives frag_number w -> num_shape w.
Proof.
  intro H. unfold derives in H. rewrite frag_number_unfold in H.
  apply d_alts_cons_inv in H as [H|H]; [|exfalso; exact (d_alts_nil_inv _ H)].
  apply d_seq_cons_inv in H as (sg & w2 & -> & Hs & H).
  apply d_seq_cons_inv in H as (d & fr & -> & Hd & H).
  apply d_seq1_inv in H.
  exists sg, d, fr. split; [reflexivity|]. split.
  - apply d_opt_inv in Hs as [->|Hs]; [left; reflexivity|right; exact (d_lit_inv _ _ Hs)].
  - split; [exact (d_digits1_inv _ Hd)|].
    apply d_opt_inv in H as [->|H]; [reflexivity|].
    apply d_frac_inv in H as (f & -> & Hf). cbn [frac_ok]. rewrite N.eqb_refl. exact Hf.
Qed.

Lemma shape_derives_number w : num_shape w -> derives frag_number w.
Proof.
  intros (sg & d & fr & -> & Hsg & Hd & Hfr). unfold derives. rewrite frag_number_unfold. apply DHere.
  apply DCons; [destruct Hsg as [->| ->]; [apply d_opt_none|apply d_opt_some, DLit]|].
  apply DCons; [exact (d_digits1_intro _ Hd)|].
  replace fr with (fr ++ []) by apply app_nil_r. apply DCons; [|apply DNil].
  destruct fr as [|x f]; [apply d_opt_none|].
  cbn [frac_ok] in Hfr. apply andb_true_iff in Hfr as [Hx Hf]. apply N.eqb_eq in Hx. subst x.
  apply d_opt_some, d_frac_intro, Hf.
Qed.

(* decidable form of the shape *)
Definition gnum_body (s : str) : bool := digs (takeb is_digit s) && frac_ok (dropb is_digit s).
Definition gnum_ok (w : str) : bool :=
  match w with c :: r => if N.eqb c c_dash then gnum_body r else gnum_body w | [] => false end.

Lemma gnum_body_shape s : gnum_body s = true <-> exists d fr, s = d ++ fr /\ digs d = true /\ frac_ok fr = true.
Proof.
  unfold gnum_body. split.
  - intro H. apply andb_true_iff in H as [H1 H2]. exists (takeb is_digit s), (dropb is_digit s).
    split; [symmetry; apply takeb_dropb|split; assumption].
  - intros (d & fr & -> & Hd & Hfr). pose proof (digs_spec _ Hd) as [_ Ha]. destruct fr as [|x f].
    + rewrite app_nil_r, (takeb_all _ _ Ha), (dropb_all _ _ Ha), Hd. reflexivity.
    + assert (Hx : is_digit x = false).
      { cbn [frac_ok] in Hfr. apply andb_true_iff in Hfr as [Hx _]. apply N.eqb_eq in Hx. subst x. reflexivity. }
      rewrite (takeb_app_stop _ _ _ _ Ha Hx), (dropb_app_stop _ _ _ _ Ha Hx), Hd, Hfr. reflexivity.
Qed.

Lemma gnum_ok_shape w : gnum_ok w = true <-> num_shape w.
Proof.
  unfold gnum_ok, num_shape. split.
  - destruct w as [|c r]; [discriminate|]. destruct (N.eqb_spec c c_dash) as [->|Hc]; intro H.
    + apply gnum_body_shape in H as (d & fr & -> & Hd & Hfr). exists [c_dash], d, fr.
      split; [reflexivity|]. split; [right; reflexivity|split; assumption].
    + apply gnum_body_shape in H as (d & fr & E & Hd & Hfr). exists [], d, fr.
      split; [exact E|]. split; [left; reflexivity|split; assumption].
  - intros (sg & d & fr & -> & [->| ->] & Hd & Hfr).
    + destruct (digs_hd _ Hd) as (d0 & d' & Ed & Hd0). cbn [app]. rewrite Ed. cbn [app].
      rewrite (neqb d0 c_dash) by chr. change (d0 :: d' ++ fr) with ((d0 :: d') ++ fr). rewrite <- Ed.
      apply gnum_body_shape. exists d, fr. split; [reflexivity|split; assumption].
    + cbn [app]. rewrite N.eqb_refl. apply gnum_body_shape. exists d, fr. split; [reflexivity|split; assumption].
Qed.

Theorem derives_number_iff w : derives frag_number w <-> gnum_ok w = true.
Proof.
  split; intro H.
  - apply gnum_ok_shape, derives_number_shape, H.
  - apply shape_derives_number, gnum_ok_shape, H.
Qed.

(* the characters of a number text *)
Definition num_char (c : N) : bool := is_digit c || N.eqb c c_dot || N.eqb c c_dash.

Lemma num_char_range c : num_char c = true <-> (48 <= c <= 57 \/ c = 46 \/ c = 45).
Proof. unfold num_char. rewrite !orb_true_iff, is_digit_range, !N.eqb_eq. unfold c_dot, c_dash. tauto. Qed.

Lemma digits_num_chars d : forallb is_digit d = true -> forallb num_char d = true.
Proof. apply forallb_impl. intros x Hx. unfold num_char. rewrite Hx. reflexivity. Qed.

Lemma shape_num_chars w : num_shape w -> forallb num_char w = true.
Proof.
  intros (sg & d & fr & -> & Hsg & Hd & Hfr). rewrite !forallb_app.
  apply digs_spec in Hd as [_ Hd].
  assert (H1 : forallb num_char sg = true) by (destruct Hsg as [->| ->]; reflexivity).
  assert (H3 : forallb num_char fr = true).
  { destruct fr as [|x f]; [reflexivity|]. cbn [frac_ok] in Hfr. apply andb_true_iff in Hfr as [Hx Hf].
    apply N.eqb_eq in Hx. subst x. apply digs_spec in Hf as [_ Hf]. cbn [forallb].
    rewrite (digits_num_chars _ Hf). reflexivity. }
  rewrite H1, (digits_num_chars _ Hd), H3. reflexivity.
Qed.

Lemma num_chars_memb x w : forallb num_char w = true -> num_char x = false -> memb x w = false.
Proof.
  intros Hw Hx. destruct (memb x w) eqn:E; [|reflexivity]. unfold memb in E.
  apply existsb_exists in E as (y & Hin & Hy). apply N.eqb_eq in Hy. subst y.
  rewrite forallb_forall in Hw. rewrite (Hw _ Hin) in Hx. discriminate Hx.
Qed.

(* ================= 2. the lexer on  F::w  ===================================================================== *)
Section L.
Variable cls : N -> N.

(* ---- the scanners when the number ENDS the input ---- *)
Lemma digits1_end d : digs d = true -> digits1 cls d = Some (d, []).
Proof.
  intro H. apply digs_spec in H as [Hne Ha]. unfold digits1.
  assert (Hu : forallb (u_digit cls) d = true) by (apply (forallb_impl is_digit); [apply u_digit_true|exact Ha]).
  rewrite (takeb_all _ _ Hu), (dropb_all _ _ Hu). destruct d; [congruence|reflexivity].
Qed.

Lemma frac_split fr : frac_ok fr = true -> fr = [] \/ exists f, fr = c_dot :: f /\ digs f = true.
Proof.
  destruct fr as [|x f]; [left; reflexivity|]. cbn [frac_ok]. intro H. apply andb_true_iff in H as [Hx Hf].
  apply N.eqb_eq in Hx. subst x. right. exists f. split; [reflexivity|exact Hf].
Qed.

Lemma snum_rest_end sg d fr : digs d = true -> frac_ok fr = true ->
  snum_rest cls sg (d ++ fr) = Some (sg ++ d ++ fr, []).
Proof.
  intros Hd Hfr. unfold snum_rest. destruct (frac_split _ Hfr) as [->|(f & -> & Hf)].
  - rewrite app_nil_r, (digits1_end d Hd). cbv iota beta zeta. cbn [takeb dropb sexp app].
    rewrite app_nil_r. reflexivity.
  - rewrite (digits1_app cls d c_dot f Hd (ud_dot cls)). cbv iota beta zeta. rewrite N.eqb_refl. cbv iota beta zeta.
    pose proof (digs_spec _ Hf) as [_ Ha].
    assert (Hu : forallb (u_digit cls) f = true) by (apply (forallb_impl is_digit); [apply u_digit_true|exact Ha]).
    rewrite (takeb_all _ _ Hu), (dropb_all _ _ Hu). cbn [sexp app]. rewrite app_nil_r. reflexivity.
Qed.

(* VERSION does not take  d  or  d.f  at the end of the input: it needs a third component or a -pre / +build tail *)
Lemma scan_version_end d fr : digs d = true -> frac_ok fr = true -> scan_version cls (d ++ fr) = None.
Proof.
  intros Hd Hfr. unfold scan_version, scan_version3, scan_version2pre, scan_version2build, scan_d_dot_d.
  destruct (frac_split _ Hfr) as [->|(f & -> & Hf)].
  - rewrite app_nil_r, (digits1_end d Hd). reflexivity.
  - rewrite (digits1_app cls d c_dot f Hd (ud_dot cls)). rewrite N.eqb_refl, (digits1_end f Hf). reflexivity.
Qed.

(* everything step_plain asks about a number text that ends the input *)
Lemma number_scan w : num_shape w ->
  exists c0 s', w = c0 :: s' /\ (48 <= c0 <= 57 \/ c0 = 45) /\
    scan_version cls (c0 :: s') = None /\ prefixb s_dash3 (c0 :: s') = false /\
    try_simple simple_ops (c0 :: s') = None /\ scan_number cls (c0 :: s') = Some (w, []) /\ alias_of w = None.
Proof.
  intros (sg & d & fr & -> & Hsg & Hd & Hfr). destruct (digs_hd _ Hd) as (d0 & d' & Ed & Hd0).
  destruct Hsg as [->| ->].
  - (* no sign *)
    exists d0, (d' ++ fr). split; [rewrite Ed; reflexivity|]. split; [left; exact Hd0|].
    change (d0 :: d' ++ fr) with ((d0 :: d') ++ fr). rewrite <- Ed. cbn [app].
    split; [exact (scan_version_end d fr Hd Hfr)|].
    split; [rewrite Ed; cbn [app]; apply hd_dash3; lia|].
    split; [rewrite Ed; cbn [app]; apply hd_ops; lia|].
    split; [|rewrite Ed; cbn [app]; apply alias_of_none_hd; lia].
    rewrite Ed at 1. cbn [app]. rewrite scan_number_pos by chr.
    change (d0 :: d' ++ fr) with ((d0 :: d') ++ fr). rewrite <- Ed.
    exact (snum_rest_end [] d fr Hd Hfr).
  - (* "-" *)
    exists c_dash, (d ++ fr). split; [reflexivity|]. split; [right; reflexivity|].
    split; [apply hd_version; apply u_digit_false; chr|].
    split; [rewrite Ed; cbn [app]; unfold s_dash3; cbn [prefixb]; rewrite (neqb 45 d0) by lia; rewrite andb_false_r; reflexivity|].
    split; [rewrite Ed; cbn [app]; unfold simple_ops; cbn [try_simple prefixb]; rewrite (neqb 62 d0) by lia; reflexivity|].
    split; [|rewrite Ed; cbn [app]; apply alias_of_none_dash; lia].
    rewrite scan_number_neg. exact (snum_rest_end [c_dash] d fr Hd Hfr).
Qed.

(* ---- the three lexer iterations on  F::w ---- *)
Definition tokF : token := mkTok IDENTIFIER (TVText [70]) 1 1 None.
Definition tokA : token := mkTok ASSIGN (TVText [58;58]) 1 2 None.
Definition tokN (w : str) : token := mkTok NUMBER (TVNum w) 1 4 None.
Definition st0 (w : str) : lstate := mkLS (70 :: 58 :: 58 :: w) None 0 1 1 [] [] [] [].
Definition st1 (w : str) : lstate := mkLS (58 :: 58 :: w) (Some 70) 1 1 2 [tokF] [] [] [].
Definition st2 (w : str) : lstate := mkLS w (Some 58) 3 1 4 [tokA; tokF] [] [] [].

Lemma step_F w : step cls false (st0 w) = Continue (st1 w).
Proof. vm_compute. reflexivity. Qed.

Lemma step_assign w : step cls false (st1 w) = Continue (st2 w).
Proof. vm_compute. reflexivity. Qed.

Lemma step_number w : num_shape w -> exists l c,
  step cls false (st2 w) = Continue (mkLS [] (last_chr w) (3 + len w) l c [tokN w; tokA; tokF] [] [] []).
Proof.
  intro H. destruct (number_scan w H) as (c0 & s' & E & Hc0 & Hv & Hd3 & Hops & Hnum & Hal).
  destruct (emit_pat_plain (st2 w) NUMBER (TVNum w) w [] Hal eq_refl eq_refl) as (l & c & He & _).
  exists l, c. unfold step. cbn [ls_in ls_spans st2]. rewrite E at 1.
  rewrite (sp_number cls (st2 w) c0 s' w [] Hc0 Hv Hd3 Hops Hnum). exact He.
Qed.

Lemma run_step f st st' : step cls false st = Continue st' -> ls_in st <> [] ->
  run cls false (S f) st = run cls false f st'.
Proof. intros Hs Hne. cbn [run]. destruct (ls_in st); [congruence|]. rewrite Hs. reflexivity. Qed.

Lemma fence_one l : fence_free l = true -> fence_scan cls [(l, l)] 1 0 None [] [] = inr ([l], []).
Proof.
  intro H. assert (Hf : forallb fence_free [l] = true) by (cbn [forallb]; rewrite H; reflexivity).
  exact (fence_scan_plain cls [l] Hf 1 0 []).
Qed.

Theorem tokenize_number w : num_shape w -> exists l c,
  tokenize cls false [(s_F_assign ++ w, s_F_assign ++ w)] = LexOk [tokF; tokA; tokN w; mkTok EOF TVNone l c None] [].
Proof.
  intro H. pose proof (shape_num_chars _ H) as Hch.
  destruct (step_number w H) as (l & c & Hs3). exists l, c.
  unfold tokenize, s_F_assign. cbn [app]. rewrite fence_one by reflexivity. cbn [join].
  rewrite tab_check_none.
  2:{ cbn [memb existsb]. change (N.eqb c_tab 70) with false. change (N.eqb c_tab 58) with false. cbn [orb].
      apply num_chars_memb; [exact Hch|reflexivity]. }
  cbn [length]. change (mkLS (70 :: 58 :: 58 :: w) None 0 1 1 [] [] [] []) with (st0 w).
  rewrite (run_step _ _ _ (step_F w)) by discriminate.
  rewrite (run_step _ _ _ (step_assign w)) by discriminate.
  rewrite (run_step _ _ _ Hs3).
  2:{ destruct H as (sg & d & fr & -> & _ & Hd & _). destruct (digs_hd _ Hd) as (d0 & d' & -> & _).
      cbn [st2 ls_in]. destruct sg; discriminate. }
  reflexivity.
Qed.

(* ================= 3. the reader ================================================================================ *)
Theorem read_number w : num_shape w -> read_value cls w = num_value w.
Proof.
  intro H. pose proof (shape_num_chars _ H) as Hch. unfold read_value.
  rewrite (num_chars_memb c_nl w Hch eq_refl), (num_chars_memb c_cr w Hch eq_refl). cbn [orb].
  destruct (tokenize_number w H) as (l & c & ->).
  cbv -[num_value]. destruct (num_value w); reflexivity.
Qed.

(* ================= 4. int / float by lexeme, the 4300-digit limit, the chain ================================= *)
Definition int_lex (w : str) : bool := negb (existsb (fun c => N.eqb c c_dot) w).
Definition in_limit (w : str) : bool := negb (int_lex w) || (count_digits w <=? int_max_digits)%nat.
Definition is_number (v : rval) : bool := match v with RInt _ | RFloat _ => true | _ => false end.
Definition num_chains : list (list ck) := [[KTypeNum]; [KReq; KTypeNum]; [KOpt; KTypeNum]; [KTypeNum; KReq]].

Lemma num_value_float w : int_lex w = false -> num_value w = RFloat w.
Proof.
  unfold int_lex, num_value. intro H. apply negb_false_iff in H.
  assert (E : existsb (fun c => N.eqb c c_dot || N.eqb c 101 || N.eqb c 69) w = true).
  { apply existsb_exists in H as (x & Hin & Hx). apply existsb_exists. exists x. split; [exact Hin|]. rewrite Hx. reflexivity. }
  rewrite E. reflexivity.
Qed.

Lemma num_value_int w : forallb num_char w = true -> int_lex w = true ->
  num_value w = if (count_digits w <=? int_max_digits)%nat then RInt w else RErr.
Proof.
  unfold int_lex, num_value. intros Hch H. apply negb_true_iff in H.
  assert (E : existsb (fun c => N.eqb c c_dot || N.eqb c 101 || N.eqb c 69) w = false).
  { destruct (existsb (fun c => N.eqb c c_dot || N.eqb c 101 || N.eqb c 69) w) eqn:E; [exfalso|reflexivity].
    apply existsb_exists in E as (x & Hin & Hx). rewrite forallb_forall in Hch.
    pose proof (proj1 (num_char_range x) (Hch _ Hin)) as R.
    assert (Hd : N.eqb x c_dot = true).
    { rewrite !orb_true_iff, !N.eqb_eq in Hx. apply N.eqb_eq. unfold c_dot in *. lia. }
    assert (Ex : existsb (fun c => N.eqb c c_dot) w = true) by (apply existsb_exists; exists x; split; assumption).
    rewrite Ex in H. discriminate H. }
  rewrite E. reflexivity.
Qed.

Lemma accepted_number ch w : In ch num_chains -> is_number (read_value cls w) = true -> accepted cls ch w = true.
Proof.
  unfold accepted. intros Hin Hn. destruct (read_value cls w); try discriminate Hn;
    cbn [In num_chains] in Hin; repeat (destruct Hin as [<-|Hin]; [reflexivity|]); destruct Hin.
Qed.

(* every derivation is read as the NUMBER token's value *)
Theorem agree_number_read w : derives frag_number w -> read_value cls w = num_value w.
Proof. intro H. apply read_number, derives_number_shape, H. Qed.

(* the statement left open in Properties/C13.v *)
Theorem agree_number_typed w : derives frag_number w ->
  (int_lex w = true -> (count_digits w <= int_max_digits)%nat -> read_value cls w = RInt w) /\
  (int_lex w = false -> read_value cls w = RFloat w).
Proof.
  intro H. pose proof (derives_number_shape _ H) as Hs. rewrite (read_number w Hs). split.
  - intros Hi Hl. rewrite (num_value_int w (shape_num_chars _ Hs) Hi).
    apply Nat.leb_le in Hl. rewrite Hl. reflexivity.
  - apply num_value_float.
Qed.

(* agreement: within the integer limit, read as int / float with the derived lexeme, and accepted by
   TYPE[NUMBER], REQ+TYPE, OPT+TYPE, TYPE+REQ *)
Theorem agree_number w : derives frag_number w -> in_limit w = true ->
  (exists v, read_value cls w = v /\ (v = RInt w \/ v = RFloat w) /\ is_number v = true) /\
  forallb (fun ch => accepted cls ch w) num_chains = true.
Proof.
  intros H Hl. destruct (agree_number_typed w H) as [Hi Hf].
  assert (Hv : read_value cls w = RInt w \/ read_value cls w = RFloat w).
  { unfold in_limit in Hl. destruct (int_lex w) eqn:E.
    - left. apply Hi; [reflexivity|]. cbn [negb orb] in Hl. apply Nat.leb_le. exact Hl.
    - right. apply Hf. reflexivity. }
  assert (Hn : is_number (read_value cls w) = true) by (destruct Hv as [-> | ->]; reflexivity).
  split.
  - exists (read_value cls w). split; [reflexivity|split; [exact Hv|exact Hn]].
  - apply forallb_forall. intros ch Hin. exact (accepted_number ch w Hin Hn).
Qed.

(* beyond the limit: the reader raises, every chain rejects *)
Theorem agree_number_overlimit w : derives frag_number w -> in_limit w = false ->
  read_value cls w = RErr /\ forall ch, accepted cls ch w = false.
Proof.
  intros H Hl. pose proof (derives_number_shape _ H) as Hs.
  unfold in_limit in Hl. apply orb_false_iff in Hl as [Hi Hl]. apply negb_false_iff in Hi.
  assert (E : read_value cls w = RErr).
  { rewrite (read_number w Hs), (num_value_int w (shape_num_chars _ Hs) Hi), Hl. reflexivity. }
  split; [exact E|]. intro ch. unfold accepted. rewrite E. reflexivity.
Qed.
End L.

(* ================= the full statement (no limit) is false of the faithful model ================================= *)
Definition agree_number_full : Prop :=
  forall cls w, derives frag_number w -> forallb (fun ch => accepted cls ch w) num_chains = true.

Definition w_overlimit : str := repeat 57 4301.          (* 9 x 4301 : finding C13-number-int-limit *)

Theorem agree_number_refuted :
  derives frag_number w_overlimit /\
  forall cls, read_value cls w_overlimit = RErr /\ accepted cls [KTypeNum] w_overlimit = false.
Proof.
  assert (Hd : derives frag_number w_overlimit) by (apply derives_number_iff; vm_compute; reflexivity).
  split; [exact Hd|]. intro cls.
  destruct (agree_number_overlimit cls w_overlimit Hd) as [E Ha]; [vm_compute; reflexivity|].
  split; [exact E|apply Ha].
Qed.

Theorem agree_number_full_false : ~ agree_number_full.
Proof.
  intro F. destruct agree_number_refuted as [Hd Hr]. specialize (F (fun _ => 0) w_overlimit Hd).
  destruct (Hr (fun _ => 0)) as [_ Ha]. cbn [num_chains forallb] in F. rewrite Ha in F. discriminate F.
Qed.

(* ================= non-vacuity =================================================================================== *)
Definition number_examples : list str :=
  [[48]; [45;49;50]; [51;46;49;52]; [48;48;55]; [45;48;46;53;48]].      (* 0  -12  3.14  007  -0.50 *)

Example agree_number_nonvacuous : forall cls,
  Forall (fun w => derives frag_number w /\ in_limit w = true /\ is_number (read_value cls w) = true /\
                   forallb (fun ch => accepted cls ch w) num_chains = true) number_examples.
Proof.
  intro cls. unfold number_examples.
  repeat (apply Forall_cons; [split; [apply derives_number_iff; vm_compute; reflexivity|vm_compute; repeat split; reflexivity]|]).
  apply Forall_nil.
Qed.

Example agree_number_values : forall cls,
  map (read_value cls) number_examples =
  [RInt [48]; RInt [45;49;50]; RFloat [51;46;49;52]; RInt [48;48;55]; RFloat [45;48;46;53;48]].
Proof. intro cls. vm_compute. reflexivity. Qed.

(* the boundary: 4300 digits are read, 4301 are refused *)
Example agree_number_boundary : forall cls,
  in_limit (repeat 57 4300) = true /\ derives frag_number (repeat 57 4300) /\
  read_value cls (repeat 57 4300) = RInt (repeat 57 4300).
Proof.
  intro cls. assert (Hd : derives frag_number (repeat 57 4300)) by (apply derives_number_iff; vm_compute; reflexivity).
  split; [vm_compute; reflexivity|]. split; [exact Hd|].
  destruct (agree_number_typed cls _ Hd) as [Hi _]. apply Hi; [vm_compute; reflexivity|].
  apply Nat.leb_le. vm_compute. reflexivity.
Qed.
