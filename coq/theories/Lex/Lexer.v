(* Faithful executable model of octave_mcp.core.lexer.tokenize.
   Oracles (inputs, never axioms):
     cls  : N -> N      per code point flag word for NON-ASCII characters, computed by the harness
                        from unicodedata: bit0 category in {L*,So,Sm,No,Sk,Po}; bit1 category N* or M*;
                        bit2 str.isalnum; bit3 category Nd (regex \d); bit4 str.isalpha; bit5 str.isspace
     lines: list (raw line, NFC(raw line))  -- content.split("\n") with the NFC of each line
   Tables consumed from the translator: ASCII_ALIASES, OPERATOR_CHARS, WRONG_CASE_PATTERNS, unescape chain. *)
From OV Require Import Base.Strs Gen.LexerGen Syn.Escape.
Open Scope N_scope.

Inductive tkind :=
| GRAMMAR_SENTINEL | VERSION | VARIABLE | ASSIGN | BLOCK | LIST_START | LIST_END | CONCAT | AT | SYNTHESIS
| TENSION | CONSTRAINT | ALTERNATIVE | FLOW | SECTION | COMMENT | ENVELOPE_START | ENVELOPE_END
| STRING | NUMBER | BOOLEAN | NULL | IDENTIFIER | COMMA | NEWLINE | INDENT | SEPARATOR | EOF
| FENCE_OPEN | FENCE_CLOSE | LITERAL_CONTENT.

Definition tkind_code (k : tkind) : N :=
  match k with
  | GRAMMAR_SENTINEL => 1 | VERSION => 2 | VARIABLE => 3 | ASSIGN => 4 | BLOCK => 5 | LIST_START => 6
  | LIST_END => 7 | CONCAT => 8 | AT => 9 | SYNTHESIS => 10 | TENSION => 11 | CONSTRAINT => 12
  | ALTERNATIVE => 13 | FLOW => 14 | SECTION => 15 | COMMENT => 16 | ENVELOPE_START => 17
  | ENVELOPE_END => 18 | STRING => 19 | NUMBER => 20 | BOOLEAN => 21 | NULL => 22 | IDENTIFIER => 23
  | COMMA => 24 | NEWLINE => 25 | INDENT => 26 | SEPARATOR => 27 | EOF => 28 | FENCE_OPEN => 29
  | FENCE_CLOSE => 30 | LITERAL_CONTENT => 31
  end.
Definition tkind_eqb (a b : tkind) : bool := N.eqb (tkind_code a) (tkind_code b).

Inductive tvalue :=
| TVText (s : str)            (* str-valued tokens *)
| TVNum (raw : str)           (* NUMBER: raw lexeme (int vs float decided by the lexeme) *)
| TVBool (b : bool)
| TVNone                      (* NULL / EOF *)
| TVCount (n : N)             (* INDENT *)
| TVFence (marker : str) (tag : option str).

Record token := mkTok { tk : tkind; tv : tvalue; tline : N; tcol : N; tnorm : option str }.

(* repairs: kind 0 normalization | 1 spec_violation/wrong_case | 2 spec_violation/boundary_missing
            | 3 repair_candidate/curly_brace_annotation *)
Record repair := mkRep { rkind : N; rorig : str; rnew : str; rline : N; rcol : N }.

Inductive lexres :=
| LexOk (toks : list token) (reps : list repair)
| LexErr (code : str) (line col : N)
| LexFuel.

Section WithOracle.
Variable cls : N -> N.

Definition flag (c : N) (i : N) : bool := N.testbit (cls c) i.
Definition is_opchar (c : N) : bool := memb c lexer_operator_chars.

Definition id_start (c : N) : bool :=
  if is_ascii c then is_alpha c || memb c [c_us; c_dot; c_slash]
  else if is_opchar c then false else flag c 0.
Definition id_char (c : N) : bool :=
  if is_ascii c then is_alnum c || memb c [c_us; c_dot; c_slash; c_dash]
  else id_start c || flag c 1.
Definition u_alnum (c : N) : bool := if is_ascii c then is_alnum c else flag c 2.
Definition u_digit (c : N) : bool := if is_ascii c then is_digit c else flag c 3.
Definition u_alpha (c : N) : bool := if is_ascii c then is_alpha c else flag c 4.
Definition u_space (c : N) : bool :=
  if is_ascii c then ((9 <=? c) && (c <=? 13)) || ((28 <=? c) && (c <=? 32)) else flag c 5.
Definition u_word (c : N) : bool := u_alnum c || N.eqb c c_us.

Definition lstrip (s : str) : str := dropb u_space s.
Definition strip (s : str) : str := rev (dropb u_space (rev (dropb u_space s))).

Definition len (s : str) : N := N.of_nat (length s).

(* ---- fence detection (_normalize_with_fence_detection) ------------------------------- *)
Record span := mkSpan { sp_start : N; sp_end : N; sp_marker : str; sp_tag : option str }.

(* FENCE_PATTERN (spaces, then 3+ backticks, then a backtick-free tail) on one line: (backticks, trailing) *)
Definition fence_match (line : str) : option (str * str) :=
  let r := dropb (N.eqb c_sp) line in
  let bt := takeb (N.eqb c_bt) r in
  let tr := dropb (N.eqb c_bt) r in
  if (3 <=? length bt)%nat && negb (memb c_bt tr) then Some (bt, tr) else None.

Definition e006 : str := [69;48;48;54].
Definition e007 : str := [69;48;48;55].
Definition e005 : str := [69;48;48;53].

(* state: in-fence info = Some (marker, tag, open_line, span_start) *)
Fixpoint fence_scan (ls : list (str * str)) (line_num : N) (off : N)
         (infence : option (str * option str * N * N)) (out : list str) (spans : list span)
  : lexres + (list str * list span) :=
  match ls with
  | [] =>
      match infence with
      | Some (_, _, open_line, _) => inl (LexErr e006 open_line 1)
      | None => inr (rev out, rev spans)
      end
  | (raw, nfc) :: ls' =>
      match fence_match raw, infence with
      | Some (bt, tr), None =>
          let tag := strip tr in
          fence_scan ls' (line_num + 1) (off + len nfc + 1)
                     (Some (bt, (match tag with [] => None | _ => Some tag end), line_num, off)) (nfc :: out) spans
      | Some (bt, tr), Some (marker, tag, open_line, start) =>
          if (length bt =? length marker)%nat && (match strip tr with [] => true | _ => false end) then
            let off' := off + len nfc + 1 in
            fence_scan ls' (line_num + 1) off' None (nfc :: out) (mkSpan start (off' - 1) marker tag :: spans)
          else if (length marker <=? length bt)%nat then inl (LexErr e007 line_num 1)
          else fence_scan ls' (line_num + 1) (off + len raw + 1) infence (raw :: out) spans
      | None, Some _ => fence_scan ls' (line_num + 1) (off + len raw + 1) infence (raw :: out) spans
      | None, None => fence_scan ls' (line_num + 1) (off + len nfc + 1) None (nfc :: out) spans
      end
  end.

(* ---- tab check outside spans ------------------------------------------------------------ *)
Fixpoint in_spans (i : N) (spans : list span) : bool :=
  match spans with
  | [] => false
  | sp :: r => ((sp_start sp <=? i) && (i <? sp_end sp)) || in_spans i r
  end.

Fixpoint tab_check (s : str) (i line col : N) (spans : list span) : option (N * N) :=
  match s with
  | [] => None
  | c :: s' =>
      if N.eqb c c_tab && negb (in_spans i spans) then Some (line, col)
      else if N.eqb c c_nl then tab_check s' (i + 1) (line + 1) 1 spans
      else tab_check s' (i + 1) line (col + 1) spans
  end.

(* ---- regex scanners: each returns the matched prefix ------------------------------------ *)
Definition cls_alnum_dot_dash (c : N) : bool := is_alnum c || N.eqb c c_dot || N.eqb c c_dash.
Definition cls_alnum_dot (c : N) : bool := is_alnum c || N.eqb c c_dot.

(* \d+ : (digits, rest) *)
Definition digits1 (s : str) : option (str * str) :=
  match takeb u_digit s with [] => None | d => Some (d, dropb u_digit s) end.

(* (?:\.\d+)* *)
Fixpoint dot_digits_star (fuel : nat) (s : str) : str * str :=
  match fuel with
  | O => ([], s)
  | S f =>
      match s with
      | c :: s' =>
          if N.eqb c c_dot then
            match digits1 s' with
            | Some (d, r) => let '(m, r') := dot_digits_star f r in (c :: d ++ m, r')
            | None => ([], s)
            end
          else ([], s)
      | [] => ([], s)
      end
  end.

(* (?:X[class]+)? for a leading char X *)
Definition opt_tail (x : N) (p : N -> bool) (s : str) : str * str :=
  match s with
  | c :: s' => if N.eqb c x then match takeb p s' with [] => ([], s) | m => (c :: m, dropb p s') end else ([], s)
  | [] => ([], s)
  end.

(* version core after "OCTAVE::" : \d+(?:\.\d+)*(?:-[A-Za-z0-9.-]+)? *)
Definition scan_sentinel_version (s : str) : option (str * str) :=
  match digits1 s with
  | None => None
  | Some (d, r) =>
      let '(m, r1) := dot_digits_star (length r) r in
      let '(p, r2) := opt_tail c_dash cls_alnum_dot_dash r1 in
      Some (d ++ m ++ p, r2)
  end.

Definition s_octave_assign : str := [79;67;84;65;86;69;58;58].

Definition scan_sentinel (s : str) : option (str * str * str) :=   (* (matched, version, rest) *)
  if prefixb s_octave_assign s then
    match scan_sentinel_version (skipn 8 s) with
    | Some (v, r) => Some (s_octave_assign ++ v, v, r)
    | None => None
    end
  else None.

(* \d+\.\d+ *)
Definition scan_d_dot_d (s : str) : option (str * str) :=
  match digits1 s with
  | Some (d1, c :: r) =>
      if N.eqb c c_dot then
        match digits1 r with Some (d2, r2) => Some (d1 ++ c :: d2, r2) | None => None end
      else None
  | _ => None
  end.

(* VERSION, three alternatives in source order *)
Definition scan_version3 (s : str) : option (str * str) :=
  match scan_d_dot_d s with
  | Some (m, c :: r) =>
      if N.eqb c c_dot then
        match digits1 r with
        | Some (d3, r3) =>
            let '(m4, r4) := dot_digits_star (length r3) r3 in
            let '(p, r5) := opt_tail c_dash cls_alnum_dot_dash r4 in
            let '(b, r6) := opt_tail c_plus cls_alnum_dot r5 in
            Some (m ++ c :: d3 ++ m4 ++ p ++ b, r6)
        | None => None
        end
      else None
  | _ => None
  end.
Definition scan_version2pre (s : str) : option (str * str) :=
  match scan_d_dot_d s with
  | Some (m, r) =>
      match opt_tail c_dash cls_alnum_dot_dash r with
      | ([], _) => None
      | (p, r2) => let '(b, r3) := opt_tail c_plus cls_alnum_dot r2 in Some (m ++ p ++ b, r3)
      end
  | None => None
  end.
Definition scan_version2build (s : str) : option (str * str) :=
  match scan_d_dot_d s with
  | Some (m, r) =>
      match opt_tail c_plus cls_alnum_dot r with ([], _) => None | (b, r2) => Some (m ++ b, r2) end
  | None => None
  end.
Definition scan_version (s : str) : option (str * str) :=
  match scan_version3 s with
  | Some x => Some x
  | None => match scan_version2pre s with Some x => Some x | None => scan_version2build s end
  end.

Definition s_eq3 : str := [61;61;61].
Definition s_end_env : str := [61;61;61;69;78;68;61;61;61].
Definition env_id_start (c : N) : bool := is_alpha c || N.eqb c c_us.
Definition env_id_char (c : N) : bool := is_alnum c || N.eqb c c_us.

(* envelope start ===NAME=== : (name, rest) *)
Definition scan_envelope_start (s : str) : option (str * str) :=
  if prefixb s_eq3 s then
    match skipn 3 s with
    | c :: r => if env_id_start c then
                  let nm := c :: takeb env_id_char r in
                  let r2 := dropb env_id_char r in
                  if prefixb s_eq3 r2 then Some (nm, skipn 3 r2) else None
                else None
    | [] => None
    end
  else None.

(* single-quoted string body after the opening quote: (raw body, rest after closing quote) *)
Fixpoint scan_dq_body (fuel : nat) (s : str) : option (str * str) :=
  match fuel with
  | O => None
  | S f =>
      match s with
      | [] => None
      | c :: s' =>
          if N.eqb c c_dq then Some ([], s')
          else if N.eqb c c_bs then
            match s' with
            | d :: s'' => if N.eqb d c_nl then None
                          else match scan_dq_body f s'' with Some (b, r) => Some (c :: d :: b, r) | None => None end
            | [] => None
            end
          else match scan_dq_body f s' with Some (b, r) => Some (c :: b, r) | None => None end
      end
  end.

(* triple-quoted string body after the opening triple quote *)
Fixpoint scan_tq_body (fuel : nat) (s : str) : option (str * str) :=
  match fuel with
  | O => None
  | S f =>
      match s with
      | [] => None
      | c :: s' =>
          if N.eqb c c_dq then
            if prefixb [c_dq; c_dq] s' then Some ([], skipn 2 s')
            else match scan_tq_body f s' with Some (b, r) => Some (c :: b, r) | None => None end
          else if N.eqb c c_bs then
            match s' with
            | d :: s'' => if N.eqb d c_nl then None
                          else match scan_tq_body f s'' with Some (b, r) => Some (c :: d :: b, r) | None => None end
            | [] => None
            end
          else match scan_tq_body f s' with Some (b, r) => Some (c :: b, r) | None => None end
      end
  end.

Definition unescape_tok (s : str) : str :=
  match unescape_opt s with Some r => r | None => s end.

(* NUMBER -?\d+\.?\d*(?:[eE][+-]?\d+)? *)
Definition scan_number (s : str) : option (str * str) :=
  let '(sign, r0) := match s with c :: r => if N.eqb c c_dash then ([c], r) else ([], s) | [] => ([], s) end in
  match digits1 r0 with
  | None => None
  | Some (d, r1) =>
      let '(dot, r2) := match r1 with c :: r => if N.eqb c c_dot then ([c], r) else ([], r1) | [] => ([], r1) end in
      let frac := takeb u_digit r2 in
      let r3 := dropb u_digit r2 in
      let '(ex, r4) :=
        match r3 with
        | e :: r =>
            if N.eqb e 101 || N.eqb e 69 then
              let '(sg, r') := match r with c :: r'' => if N.eqb c c_plus || N.eqb c c_dash then ([c], r'') else ([], r) | [] => ([], r) end in
              match digits1 r' with
              | Some (ed, r5) => (e :: sg ++ ed, r5)
              | None => ([], r3)
              end
            else ([], r3)
        | [] => ([], r3)
        end in
      Some (sign ++ d ++ dot ++ frac ++ ex, r4)
  end.

(* \bWORD\b at the current position: prev is the previous character (None at offset 0) *)
Definition word_boundary_before (prev : option N) : bool :=
  match prev with None => true | Some p => negb (u_word p) end.
Definition word_boundary_after (r : str) : bool :=
  match r with [] => true | c :: _ => negb (u_word c) end.
Definition scan_word (w : str) (prev : option N) (s : str) : option str :=
  if prefixb w s && word_boundary_before prev && word_boundary_after (skipn (length w) s)
  then Some (skipn (length w) s) else None.

Definition var_char (c : N) : bool := is_alnum c || N.eqb c c_us || N.eqb c c_colon.

(* ---- _match_unicode_identifier ---------------------------------------------------------- *)
Fixpoint strip_trailing_dash (r : str) : str :=   (* r is the REVERSED tail after the first char *)
  match r with c :: r' => if N.eqb c c_dash then strip_trailing_dash r' else r | [] => [] end.

(* consume an identifier body: first char c (already known to be a start), then id chars, then strip
   trailing hyphens (never the first character).  Returns (identifier, rest) *)
Definition scan_ident_core (c : N) (s' : str) : str * str :=
  let body := takeb id_char s' in
  let kept := rev (strip_trailing_dash (rev body)) in
  (c :: kept, skipn (length kept) s').

(* qualifier after an opening bracket char: start char, id chars, strip trailing hyphens, then `close` *)
Definition scan_qualifier (close : N) (s : str) : option (str * str) :=   (* (qualifier, rest after close) *)
  match s with
  | q :: s' =>
      if id_start q then
        let '(qual, r) := scan_ident_core q s' in
        match r with
        | c :: r' => if N.eqb c close then Some (qual, r') else None
        | [] => None
        end
      else None
  | [] => None
  end.

(* result: (token text, consumed length, rest, optional curly repair (original, repaired)) *)
Definition scan_identifier (lenient : bool) (s : str) : option (str * str * option (str * str)) :=
  match s with
  | c :: s' =>
      if id_start c then
        let '(base, r) := scan_ident_core c s' in
        let '(name, r1) :=
          match r with
          | lt :: r' => if N.eqb lt c_lt then
                          match scan_qualifier c_gt r' with
                          | Some (q, r2) => (base ++ c_lt :: q ++ [c_gt], r2)
                          | None => (base, r)
                          end
                        else (base, r)
          | [] => (base, r)
          end in
        match r1 with
        | lb :: r' =>
            if N.eqb lb 123 then
              match scan_qualifier 125 r' with
              | Some (q, r2) =>
                  if lenient then
                    Some (name ++ c_lt :: q ++ [c_gt], r2, Some (name ++ 123 :: q ++ [125], name ++ c_lt :: q ++ [c_gt]))
                  else Some (name, r1, None)
              | None => Some (name, r1, None)
              end
            else Some (name, r1, None)
        | [] => Some (name, r1, None)
        end
      else None
  | [] => None
  end.

(* ---- the main loop ------------------------------------------------------------------------ *)
Record lstate := mkLS {
  ls_in : str; ls_prev : option N; ls_pos : N; ls_line : N; ls_col : N;
  ls_toks : list token; ls_reps : list repair; ls_brk : list (N * N); ls_spans : list span }.

Definition alias_of (m : str) : option str :=
  match find (fun p => str_eqb (fst p) m) lexer_ascii_aliases with Some p => Some (snd p) | None => None end.

Fixpoint count_nl (s : str) : N :=
  match s with [] => 0 | c :: s' => (if N.eqb c c_nl then 1 else 0) + count_nl s' end.
(* characters after the last newline *)
Fixpoint after_last_nl (s acc : str) : str :=
  match s with [] => rev acc | c :: s' => if N.eqb c c_nl then after_last_nl s' [] else after_last_nl s' (c :: acc) end.

Definition last_chr (s : str) : option N := match rev s with c :: _ => Some c | [] => None end.

Inductive step_res := Continue (st : lstate) | Stop (r : lexres).

(* push a token matched by a TOKEN_PATTERNS entry and advance *)
Definition emit_pat (st : lstate) (k : tkind) (v : tvalue) (matched rest : str) (norm : option str) : step_res :=
  let line := ls_line st in let col := ls_col st in
  let '(v, norm) :=
    match alias_of matched with
    | Some u => (TVText u, Some matched)
    | None => (v, norm)
    end in
  let tok := mkTok k v line col norm in
  let brk_res :=
    if tkind_eqb k LIST_START then inr ((line, col) :: ls_brk st)
    else if tkind_eqb k LIST_END then
      match ls_brk st with [] => inl tt | _ :: b => inr b end
    else inr (ls_brk st) in
  match brk_res with
  | inl _ => Stop (LexErr [69;95;85;78;66;65;76;65;78;67;69;68;95;66;82;65;67;75;69;84] line col)
  | inr brk =>
      let reps := match norm with
                  | Some o => mkRep 0 o (match v with TVText u => u | _ => [] end) line col :: ls_reps st
                  | None => ls_reps st
                  end in
      let nls := count_nl matched in
      let '(line', col') := if 0 <? nls then (line + nls, len (after_last_nl matched []) + 1) else (line, col + len matched) in
      Continue (mkLS rest (last_chr matched) (ls_pos st + len matched) line' col' (tok :: ls_toks st) reps brk (ls_spans st))
  end.

Definition adv (st : lstate) (matched rest : str) (toks : list token) (reps : list repair) : lstate :=
  mkLS rest (last_chr matched) (ls_pos st + len matched) (ls_line st) (ls_col st + len matched) toks reps (ls_brk st) (ls_spans st).

Definition wrong_case_of (m : str) : option str :=
  match find (fun p => str_eqb (fst p) m) lexer_wrong_case with Some p => Some (snd p) | None => None end.

Definition lower_chr (c : N) : N := if is_upper c then c + 32 else c.
(* index of first "vs" in the ASCII-lowercased text (non-ASCII lowercase cannot produce v or s... see
   vs_warning_scope) *)
Fixpoint find_vs (s : str) (i : N) : option N :=
  match s with
  | a :: ((b :: _) as s') => if N.eqb (lower_chr a) 118 && N.eqb (lower_chr b) 115 then Some i else find_vs s' (i + 1)
  | _ => None
  end.
Definition vs_embedded (id : str) : bool :=
  match find_vs id 0 with
  | Some p => negb (N.eqb p 0) && negb (len id <=? p + 2)
  | None => false
  end.

Definition ident_repairs (id : str) (line col : N) : list repair :=
  (if vs_embedded id then [mkRep 2 id [] line col] else []) ++
  (match wrong_case_of id with Some c => [mkRep 1 id c line col] | None => [] end).

Definition split_lines_join (ls : list str) : str := join [c_nl] ls.

Definition s_true : str := [116;114;117;101].
Definition s_false : str := [102;97;108;115;101].
Definition s_null : str := [110;117;108;108].
Definition s_vs : str := [118;115].
Definition s_dash3 : str := [45;45;45].

Definition simple_ops : list (str * tkind) :=
  [ ([58;58], ASSIGN); ([58], BLOCK); ([8594], FLOW); ([60;45;62], TENSION); ([45;62], FLOW);
    ([8853], SYNTHESIS); ([10746], CONCAT); ([126], CONCAT); ([64], AT); ([8652], TENSION) ].
Definition simple_ops2 : list (str * tkind) :=
  [ ([8744], ALTERNATIVE); ([124], ALTERNATIVE); ([8743], CONSTRAINT); ([38], CONSTRAINT); ([167], SECTION);
    ([91], LIST_START); ([93], LIST_END); ([44], COMMA) ].

Fixpoint try_simple (tbl : list (str * tkind)) (s : str) : option (str * tkind) :=
  match tbl with
  | [] => None
  | (m, k) :: t => if prefixb m s then Some (m, k) else try_simple t s
  end.

(* _check_invalid_envelope at a position starting with "===" : true = raise E_INVALID_ENVELOPE_ID *)
Definition invalid_envelope (s : str) : bool :=
  let body := skipn 3 s in
  let ident := takeb (fun c => negb (N.eqb c c_eq || N.eqb c c_nl)) body in
  let r := skipn (length ident) body in
  if prefixb s_eq3 r then
    match ident with
    | [] => true
    | c :: t =>
        if env_id_start c && forallb env_id_char t then false
        else negb ((u_alpha c || N.eqb c c_us) && forallb (fun x => u_alnum x || N.eqb x c_us) t)
    end
  else false.

Definition step_fence (st : lstate) (sp : span) (spans' : list span) : step_res :=
  let s := ls_in st in
  let line := ls_line st in let col := ls_col st in
  let n := N.to_nat (sp_end sp - sp_start sp) in
  let text := firstn n s in
  let rest := skipn n s in
  let lns := split_on c_nl text in
  let middle := removelast (tl lns) in
  let closing := last lns [] in
  let k := N.of_nat (length middle) in
  let close_line := line + 1 + k in
  let t1 := mkTok FENCE_OPEN (TVFence (sp_marker sp) (sp_tag sp)) line col None in
  let t2 := mkTok LITERAL_CONTENT (TVText (join [c_nl] middle)) (line + 1) 1 None in
  let t3 := mkTok FENCE_CLOSE (TVText (sp_marker sp)) close_line 1 None in
  match rest with
  | nl :: rest' =>
      (* span_end is the end of the closing line: the next char, if any, is a newline *)
      let t4 := mkTok NEWLINE (TVText [c_nl]) close_line (len closing + 1) None in
      Continue (mkLS rest' (Some nl) (sp_end sp + 1) (close_line + 1) 1 (t4 :: t3 :: t2 :: t1 :: ls_toks st)
                     (ls_reps st) (ls_brk st) spans')
  | [] =>
      Continue (mkLS [] (last_chr text) (sp_end sp) (close_line + 1) 1 (t3 :: t2 :: t1 :: ls_toks st)
                     (ls_reps st) (ls_brk st) spans')
  end.

Definition step_fallback (lenient : bool) (st : lstate) (c : N) (s' : str) : step_res :=
  let s := c :: s' in
  let line := ls_line st in let col := ls_col st in
  if prefixb s_eq3 s && invalid_envelope s then
    Stop (LexErr [69;95;73;78;86;65;76;73;68;95;69;78;86;69;76;79;80;69;95;73;68] line col)
  else if N.eqb c c_plus then
    let tok := mkTok SYNTHESIS (TVText [8853]) line col (Some [c_plus]) in
    Continue (adv st [c] s' (tok :: ls_toks st) (mkRep 0 [c_plus] [8853] line col :: ls_reps st))
  else
    match scan_identifier lenient s with
    | Some (name, rest, curly) =>
        let tok := mkTok IDENTIFIER (TVText name) line col None in
        let new_reps := (match curly with Some (o, r) => [mkRep 3 o r line col] | None => [] end)
                        ++ (match wrong_case_of name with Some w => [mkRep 1 name w line col] | None => [] end)
                        ++ (if vs_embedded name then [mkRep 2 name [] line col] else []) in
        Continue (adv st name rest (tok :: ls_toks st) (rev new_reps ++ ls_reps st))
    | None =>
        let e := Stop (LexErr e005 line col) in
        if N.eqb c 37 then
          match ls_toks st with
          | prev :: toks' =>
              let pv := match tk prev, tv prev with
                        | NUMBER, TVNum raw => Some raw
                        | IDENTIFIER, TVText t => Some t
                        | _, _ => None
                        end in
              match pv with
              | Some prev_val =>
                  if negb (prefixb [c_colon; c_colon] (lstrip s')) &&
                     (match last_chr prev_val with Some l => u_alnum l | None => false end) then
                    let body := takeb (fun x => id_char x && negb (is_opchar x)) s' in
                    let kept := rev (strip_trailing_dash (rev body)) in
                    let suffix := c :: kept in
                    let merged := mkTok IDENTIFIER (TVText (prev_val ++ suffix)) (tline prev) (tcol prev) (tnorm prev) in
                    Continue (adv st suffix (skipn (length kept) s') (merged :: toks') (ls_reps st))
                  else e
              | None => e
              end
          | [] => e
          end
        else e
    end.

Definition step_plain (lenient : bool) (st : lstate) (c : N) (s' : str) : step_res :=
  let s := c :: s' in
  let line := ls_line st in let col := ls_col st in
  if N.eqb c c_sp then
    if N.eqb col 1 then
      let sps := takeb (N.eqb c_sp) s in
      let rest := dropb (N.eqb c_sp) s in
      let n := len sps in
      let emit_indent := match rest with [] => false | d :: _ => negb (N.eqb d c_nl) end in
      Continue (mkLS rest (Some c_sp) (ls_pos st + n) line (if emit_indent then col + n else col)
                     (if emit_indent then mkTok INDENT (TVCount n) line col None :: ls_toks st else ls_toks st)
                     (ls_reps st) (ls_brk st) (ls_spans st))
    else Continue (adv st [c] s' (ls_toks st) (ls_reps st))
  else
  match (if N.eqb (ls_pos st) 0 then scan_sentinel s else None) with
  | Some (m, v, r) => emit_pat st GRAMMAR_SENTINEL (TVText v) m r None
  | None =>
  match scan_version s with
  | Some (m, r) => emit_pat st VERSION (TVText m) m r None
  | None =>
  if prefixb s_end_env s then emit_pat st ENVELOPE_END (TVText [69;78;68]) s_end_env (skipn 9 s) None else
  match scan_envelope_start s with
  | Some (nm, r) => emit_pat st ENVELOPE_START (TVText nm) (s_eq3 ++ nm ++ s_eq3) r None
  | None =>
  if prefixb s_dash3 s then emit_pat st SEPARATOR (TVText s_dash3) s_dash3 (skipn 3 s) None else
  if prefixb [c_slash; c_slash] s then
    let m := takeb (fun x => negb (N.eqb x c_nl)) s in
    emit_pat st COMMENT (TVText (strip (skipn 2 m))) m (skipn (length m) s) None
  else
  match try_simple simple_ops s with
  | Some (m, k) => emit_pat st k (TVText m) m (skipn (length m) s) None
  | None =>
  match scan_word s_vs (ls_prev st) s with
  | Some r => emit_pat st TENSION (TVText s_vs) s_vs r None
  | None =>
  match try_simple simple_ops2 s with
  | Some (m, k) => emit_pat st k (TVText m) m (skipn (length m) s) None
  | None =>
  match (if prefixb [c_dq; c_dq; c_dq] s then scan_tq_body (length s) (skipn 3 s) else None) with
  | Some (b, r) => emit_pat st STRING (TVText (unescape_tok b)) ([c_dq; c_dq; c_dq] ++ b ++ [c_dq; c_dq; c_dq]) r (Some [c_dq; c_dq; c_dq])
  | None =>
  match (if N.eqb c c_dq then scan_dq_body (length s) s' else None) with
  | Some (b, r) => emit_pat st STRING (TVText (unescape_tok b)) (c_dq :: b ++ [c_dq]) r None
  | None =>
  match scan_number s with
  | Some (m, r) => emit_pat st NUMBER (TVNum m) m r None
  | None =>
  match scan_word s_true (ls_prev st) s with
  | Some r => emit_pat st BOOLEAN (TVBool true) s_true r None
  | None =>
  match scan_word s_false (ls_prev st) s with
  | Some r => emit_pat st BOOLEAN (TVBool false) s_false r None
  | None =>
  match scan_word s_null (ls_prev st) s with
  | Some r => emit_pat st NULL TVNone s_null r None
  | None =>
  if N.eqb c c_hash then emit_pat st SECTION (TVText [c_hash]) [c_hash] s' None else
  match (if N.eqb c c_dollar then match takeb var_char s' with [] => None | m => Some m end else None) with
  | Some m => emit_pat st VARIABLE (TVText (c :: m)) (c :: m) (skipn (length m) s') None
  | None =>
  if N.eqb c c_nl then emit_pat st NEWLINE (TVText [c_nl]) [c_nl] s' None
  else step_fallback lenient st c s'
  end end end end end end end end end end end end end.

Definition step (lenient : bool) (st : lstate) : step_res :=
  match ls_in st with
  | [] => Stop LexFuel
  | c :: s' =>
      match ls_spans st with
      | sp :: spans' => if N.eqb (ls_pos st) (sp_start sp) then step_fence st sp spans' else step_plain lenient st c s'
      | [] => step_plain lenient st c s'
      end
  end.

Definition finish (st : lstate) : lexres :=
  match rev (ls_brk st) with
  | (l, c) :: _ => LexErr [69;95;85;78;66;65;76;65;78;67;69;68;95;66;82;65;67;75;69;84] l c
  | [] => LexOk (rev (mkTok EOF TVNone (ls_line st) (ls_col st) None :: ls_toks st)) (rev (ls_reps st))
  end.

Fixpoint run (lenient : bool) (fuel : nat) (st : lstate) : lexres :=
  match ls_in st with
  | [] => finish st
  | _ =>
      match fuel with
      | O => LexFuel
      | S f => match step lenient st with Continue st' => run lenient f st' | Stop r => r end
      end
  end.

(* ---- leading blank lines ------------------------------------------------------------------------------------------
   Python:  sentinel_pos = _LEADING_BLANK_LINES.match(content).end()      with the pattern (?: *\n)*
            ... if token_type == GRAMMAR_SENTINEL and pos != sentinel_pos: continue
   The grammar sentinel is tried at the start of the first line that is not blank.  The model runs the main loop from
   THAT position with ls_pos = 0 (ls_pos is only ever compared with 0 and with span starts, which are shifted by the
   same amount), after pushing what the main loop pushes for each blank line: one NEWLINE token at column 1 (spaces at
   column 1 that are followed by a newline push nothing and do not move the column).
   lead_blank s line k nsp toks line_start = (rest, line', k', toks'): rest starts at the first non-blank line,
   k' = number of characters skipped. *)
Fixpoint lead_blank (s : str) (line k nsp : N) (toks : list token) (line_start : str) : str * N * N * list token :=
  match s with
  | [] => (line_start, line, k, toks)
  | c :: r =>
      if N.eqb c c_sp then lead_blank r line k (nsp + 1) toks line_start
      else if N.eqb c c_nl then lead_blank r (line + 1) (k + nsp + 1) 0 (mkTok NEWLINE (TVText [c_nl]) line 1 None :: toks) r
      else (line_start, line, k, toks)
  end.

Definition shift_span (k : N) (sp : span) : span := mkSpan (sp_start sp - k) (sp_end sp - k) (sp_marker sp) (sp_tag sp).

Definition init_state (content : str) (spans : list span) : lstate :=
  match lead_blank content 1 0 0 [] content with
  | (rest, line, k, toks) =>
      match toks with
      | [] => mkLS content None 0 1 1 [] [] [] spans
      | _ :: _ => mkLS rest (Some c_nl) 0 line 1 toks [] [] (map (shift_span k) spans)
      end
  end.

Definition tokenize (lenient : bool) (lines : list (str * str)) : lexres :=
  match fence_scan lines 1 0 None [] [] with
  | inl e => e
  | inr (outs, spans) =>
      let content := join [c_nl] outs in
      match tab_check content 0 1 1 spans with
      | Some (l, c) => LexErr e005 l c
      | None => run lenient (S (length content)) (init_state content spans)
      end
  end.

End WithOracle.
