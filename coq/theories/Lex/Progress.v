(* C20 -- progress of the lexer model's main loop.

   Totality of `tokenize` is NOT taken from Gallina's totality (the model's `run` is fuel-indexed and
   answers `LexFuel` when the fuel runs out, which is how a hang of the Python `while pos < len(content)`
   loop would show up).  What is proved here, branch by branch over `step` of Lex/Lexer.v:

     step_progress           every iteration that continues leaves a STRICTLY shorter remaining input
                             (each scanner returns a non-empty match / a strictly shorter rest)
     run_never_out_of_fuel   hence fuel  S (length content)  always suffices: tokenize <> LexFuel
     run_iterations_bounded  the loop body runs at most  length content  times (iteration-count linearity)
     lexer_error_kinds       every LexErr code is one of the LexerError codes raised in lexer.py
                             (lexer_error_codes, extracted by the translator into Gen/LexerGen.v)          *)
From OV Require Import Base.Strs Gen.LexerGen Syn.Escape Lex.Lexer.
Open Scope N_scope.

(* ---- list-length facts about the primitive scanners ---------------------------------------------- *)
Lemma dropb_le p s : (length (dropb p s) <= length s)%nat.
Proof. induction s as [|x s IH]; cbn; [lia|]. destruct (p x); cbn; lia. Qed.

Lemma takeb_dropb_len p s : (length (takeb p s) + length (dropb p s) = length s)%nat.
Proof. rewrite <- app_length, takeb_dropb. reflexivity. Qed.

Lemma takeb_le p s : (length (takeb p s) <= length s)%nat.
Proof. pose proof (takeb_dropb_len p s). lia. Qed.

Lemma takeb_nonempty_dropb_lt p s : takeb p s <> [] -> (length (dropb p s) < length s)%nat.
Proof.
  intro H. pose proof (takeb_dropb_len p s). destruct (takeb p s); [congruence|]. cbn in *. lia.
Qed.

Lemma dropb_head_lt p c s : p c = true -> (length (dropb p (c :: s)) < length (c :: s))%nat.
Proof. intro H. cbn. rewrite H. pose proof (dropb_le p s). lia. Qed.

Lemma skipn_le {A} n (l : list A) : (length (skipn n l) <= length l)%nat.
Proof. rewrite skipn_length. lia. Qed.

Lemma skipn_lt {A} n (l : list A) : (0 < n)%nat -> l <> [] -> (length (skipn n l) < length l)%nat.
Proof. intros Hn Hl. rewrite skipn_length. destruct l; [congruence|]. simpl length. lia. Qed.

Lemma prefixb_len p s : prefixb p s = true -> (length p <= length s)%nat.
Proof.
  revert s; induction p as [|x p IH]; intros [|y s] H; cbn in *; try lia; try discriminate.
  apply andb_true_iff in H as [_ H]. apply IH in H. lia.
Qed.

Section Scanners.
Variable cls : N -> N.

Lemma digits1_lt s d r : digits1 cls s = Some (d, r) -> (length r < length s)%nat.
Proof.
  unfold digits1. destruct (takeb (u_digit cls) s) eqn:E; [discriminate|].
  intro H; inversion H; subst. apply takeb_nonempty_dropb_lt. rewrite E. discriminate.
Qed.

Lemma dot_digits_star_le f s : (length (snd (dot_digits_star cls f s)) <= length s)%nat.
Proof.
  revert s; induction f as [|f IH]; intro s; cbn; [lia|].
  destruct s as [|c s']; cbn; [lia|].
  destruct (N.eqb c c_dot); cbn; [|lia].
  destruct (digits1 cls s') as [[d r]|] eqn:E; cbn; [|lia].
  apply digits1_lt in E. specialize (IH r). destruct (dot_digits_star cls f r) as [m r'] eqn:E2. cbn in *. lia.
Qed.

Lemma opt_tail_le x p s : (length (snd (opt_tail x p s)) <= length s)%nat.
Proof.
  unfold opt_tail. destruct s as [|c s']; cbn; [lia|].
  destruct (N.eqb c x); cbn; [|lia].
  destruct (takeb p s') eqn:E; cbn; [lia|]. pose proof (dropb_le p s'). lia.
Qed.

Lemma scan_sentinel_version_lt s v r : scan_sentinel_version cls s = Some (v, r) -> (length r < length s)%nat.
Proof.
  unfold scan_sentinel_version. destruct (digits1 cls s) as [[d r0]|] eqn:E; [|discriminate].
  apply digits1_lt in E.
  pose proof (dot_digits_star_le (length r0) r0) as H1.
  destruct (dot_digits_star cls (length r0) r0) as [m r1]. cbn in H1.
  pose proof (opt_tail_le c_dash cls_alnum_dot_dash r1) as H2.
  destruct (opt_tail c_dash cls_alnum_dot_dash r1) as [p r2]. cbn in H2.
  intro H; inversion H; subst. lia.
Qed.

Lemma scan_sentinel_lt s m v r : scan_sentinel cls s = Some (m, v, r) -> (length r < length s)%nat.
Proof.
  unfold scan_sentinel. destruct (prefixb s_octave_assign s); [|discriminate].
  destruct (scan_sentinel_version cls (skipn 8 s)) as [[v' r']|] eqn:E; [|discriminate].
  apply scan_sentinel_version_lt in E. intro H; inversion H; subst.
  pose proof (@skipn_le N 8 s). lia.
Qed.

Lemma scan_d_dot_d_lt s m r : scan_d_dot_d cls s = Some (m, r) -> (length r < length s)%nat.
Proof.
  unfold scan_d_dot_d. destruct (digits1 cls s) as [[d1 [|c r0]]|] eqn:E; try discriminate.
  apply digits1_lt in E. destruct (N.eqb c c_dot); [|discriminate].
  destruct (digits1 cls r0) as [[d2 r2]|] eqn:E2; [|discriminate].
  apply digits1_lt in E2. intro H; inversion H; subst. cbn in *. lia.
Qed.

Lemma scan_version3_lt s m r : scan_version3 cls s = Some (m, r) -> (length r < length s)%nat.
Proof.
  unfold scan_version3. destruct (scan_d_dot_d cls s) as [[m0 [|c r0]]|] eqn:E; try discriminate.
  apply scan_d_dot_d_lt in E. destruct (N.eqb c c_dot); [|discriminate].
  destruct (digits1 cls r0) as [[d3 r3]|] eqn:E3; [|discriminate]. apply digits1_lt in E3.
  pose proof (dot_digits_star_le (length r3) r3) as H1.
  destruct (dot_digits_star cls (length r3) r3) as [m4 r4]. cbn in H1.
  pose proof (opt_tail_le c_dash cls_alnum_dot_dash r4) as H2.
  destruct (opt_tail c_dash cls_alnum_dot_dash r4) as [p r5]. cbn in H2.
  pose proof (opt_tail_le c_plus cls_alnum_dot r5) as H3.
  destruct (opt_tail c_plus cls_alnum_dot r5) as [b r6]. cbn in H3.
  intro H; inversion H; subst. cbn in *. lia.
Qed.

Lemma scan_version2pre_lt s m r : scan_version2pre cls s = Some (m, r) -> (length r < length s)%nat.
Proof.
  unfold scan_version2pre. destruct (scan_d_dot_d cls s) as [[m0 r0]|] eqn:E; [|discriminate].
  apply scan_d_dot_d_lt in E.
  pose proof (opt_tail_le c_dash cls_alnum_dot_dash r0) as H2.
  destruct (opt_tail c_dash cls_alnum_dot_dash r0) as [[|p0 p] r2]; [discriminate|]. cbn in H2.
  pose proof (opt_tail_le c_plus cls_alnum_dot r2) as H3.
  destruct (opt_tail c_plus cls_alnum_dot r2) as [b r3]. cbn in H3.
  intro H; inversion H; subst. lia.
Qed.

Lemma scan_version2build_lt s m r : scan_version2build cls s = Some (m, r) -> (length r < length s)%nat.
Proof.
  unfold scan_version2build. destruct (scan_d_dot_d cls s) as [[m0 r0]|] eqn:E; [|discriminate].
  apply scan_d_dot_d_lt in E.
  pose proof (opt_tail_le c_plus cls_alnum_dot r0) as H3.
  destruct (opt_tail c_plus cls_alnum_dot r0) as [[|b0 b] r2]; [discriminate|]. cbn in H3.
  intro H; inversion H; subst. lia.
Qed.

Lemma scan_version_lt s m r : scan_version cls s = Some (m, r) -> (length r < length s)%nat.
Proof.
  unfold scan_version.
  destruct (scan_version3 cls s) as [[m3 r3]|] eqn:E3.
  { intro H; inversion H; subst. eapply scan_version3_lt; eauto. }
  destruct (scan_version2pre cls s) as [[m2 r2]|] eqn:E2.
  { intro H; inversion H; subst. eapply scan_version2pre_lt; eauto. }
  apply scan_version2build_lt.
Qed.

Lemma scan_envelope_start_lt s nm r : scan_envelope_start s = Some (nm, r) -> (length r < length s)%nat.
Proof.
  unfold scan_envelope_start. destruct (prefixb s_eq3 s) eqn:P; [|discriminate].
  apply prefixb_len in P. cbn in P.
  destruct (skipn 3 s) as [|c r0] eqn:E; [discriminate|].
  destruct (env_id_start c); [|discriminate].
  destruct (prefixb s_eq3 (dropb env_id_char r0)); [|discriminate].
  pose proof (@skipn_le N 3 (dropb env_id_char r0)) as Ha. pose proof (dropb_le env_id_char r0) as Hb.
  assert (Hc : length (skipn 3 s) = S (length r0)) by (rewrite E; reflexivity).
  rewrite skipn_length in Hc.
  set (r2 := skipn 3 (dropb env_id_char r0)) in *. clearbody r2.
  intro H; inversion H; subst. lia.
Qed.

(* the string scanners return the rest AFTER the closing quote(s): strictly shorter than the body input *)
Lemma scan_dq_body_lt f s b r : scan_dq_body f s = Some (b, r) -> (length r < length s)%nat.
Proof.
  revert s b r; induction f as [|f IH]; intros s b r; cbn; [discriminate|].
  destruct s as [|c s']; [discriminate|].
  destruct (N.eqb c c_dq). { intro H; inversion H; subst. cbn. lia. }
  destruct (N.eqb c c_bs).
  - destruct s' as [|d s'']; [discriminate|]. destruct (N.eqb d c_nl); [discriminate|].
    destruct (scan_dq_body f s'') as [[b0 r0]|] eqn:E; [|discriminate].
    apply IH in E. intro H; inversion H; subst. cbn. lia.
  - destruct (scan_dq_body f s') as [[b0 r0]|] eqn:E; [|discriminate].
    apply IH in E. intro H; inversion H; subst. cbn. lia.
Qed.

Lemma scan_tq_body_lt f s b r : scan_tq_body f s = Some (b, r) -> (length r < length s)%nat.
Proof.
  revert s b r; induction f as [|f IH]; intros s b r; [cbn; discriminate|]. cbn [scan_tq_body].
  destruct s as [|c s']; [discriminate|].
  destruct (N.eqb c c_dq).
  - destruct (prefixb [c_dq; c_dq] s').
    + pose proof (@skipn_le N 2 s') as Hs. set (r2 := skipn 2 s') in *. clearbody r2.
      intro H; inversion H; subst. cbn [length]. lia.
    + destruct (scan_tq_body f s') as [[b0 r0]|] eqn:E; [|discriminate].
      apply IH in E. intro H; inversion H; subst. cbn. lia.
  - destruct (N.eqb c c_bs).
    + destruct s' as [|d s'']; [discriminate|]. destruct (N.eqb d c_nl); [discriminate|].
      destruct (scan_tq_body f s'') as [[b0 r0]|] eqn:E; [|discriminate].
      apply IH in E. intro H; inversion H; subst. cbn. lia.
    + destruct (scan_tq_body f s') as [[b0 r0]|] eqn:E; [|discriminate].
      apply IH in E. intro H; inversion H; subst. cbn. lia.
Qed.

Lemma scan_number_lt s m r : scan_number cls s = Some (m, r) -> (length r < length s)%nat.
Proof.
  unfold scan_number.
  set (p0 := match s with c :: r => if N.eqb c c_dash then ([c], r) else ([], s) | [] => ([], s) end).
  assert (H0 : (length (snd p0) <= length s)%nat).
  { subst p0. destruct s as [|c s']; cbn; [lia|]. destruct (N.eqb c c_dash); cbn; lia. }
  destruct p0 as [sign r0]. cbn in H0.
  destruct (digits1 cls r0) as [[d r1]|] eqn:E; [|discriminate]. apply digits1_lt in E.
  set (p2 := match r1 with c :: r => if N.eqb c c_dot then ([c], r) else ([], r1) | [] => ([], r1) end).
  assert (H2 : (length (snd p2) <= length r1)%nat).
  { subst p2. destruct r1 as [|c r1']; cbn; [lia|]. destruct (N.eqb c c_dot); cbn; lia. }
  destruct p2 as [dot r2]. cbn in H2.
  pose proof (dropb_le (u_digit cls) r2) as H3.
  set (r3 := dropb (u_digit cls) r2) in *.
  match goal with |- (let '(ex, r4) := ?pp in _) = _ -> _ => set (p4 := pp) end.
  assert (H4 : (length (snd p4) <= length r3)%nat).
  { subst p4. destruct r3 as [|e rr]; cbn; [lia|].
    destruct (N.eqb e 101 || N.eqb e 69); cbn; [|lia].
    set (p5 := match rr with c :: r'' => if N.eqb c c_plus || N.eqb c c_dash then ([c], r'') else ([], rr) | [] => ([], rr) end).
    assert (H5 : (length (snd p5) <= length rr)%nat).
    { subst p5. destruct rr as [|c r'']; cbn; [lia|]. destruct (N.eqb c c_plus || N.eqb c c_dash); cbn; lia. }
    destruct p5 as [sg r']. cbn in H5.
    destruct (digits1 cls r') as [[ed r5]|] eqn:E5; cbn; [|lia]. apply digits1_lt in E5. lia. }
  destruct p4 as [ex r4]. cbn in H4.
  intro H; inversion H; subst. lia.
Qed.

Lemma scan_word_lt w prev s r : w <> [] -> s <> [] -> scan_word cls w prev s = Some r -> (length r < length s)%nat.
Proof.
  intros Hw Hs. unfold scan_word.
  destruct (prefixb w s && word_boundary_before cls prev && word_boundary_after cls (skipn (length w) s)); [|discriminate].
  intro H; inversion H; subst. apply skipn_lt; [|exact Hs]. destruct w; [congruence|cbn; lia].
Qed.

Lemma strip_trailing_dash_le r : (length (strip_trailing_dash r) <= length r)%nat.
Proof. induction r as [|c r IH]; cbn; [lia|]. destruct (N.eqb c c_dash); cbn; lia. Qed.

Lemma scan_ident_core_le c s' : (length (snd (scan_ident_core cls c s')) <= length s')%nat.
Proof. unfold scan_ident_core. cbn. apply skipn_le. Qed.

Lemma scan_qualifier_lt close s q r : scan_qualifier cls close s = Some (q, r) -> (length r < length s)%nat.
Proof.
  unfold scan_qualifier. destruct s as [|x s']; [discriminate|].
  destruct (id_start cls x); [|discriminate].
  pose proof (scan_ident_core_le x s') as H0.
  destruct (scan_ident_core cls x s') as [qual r0]. cbn in H0.
  destruct r0 as [|c r']; [discriminate|]. destruct (N.eqb c close); [|discriminate].
  intro H; inversion H; subst. cbn in *. lia.
Qed.

Lemma scan_identifier_lt lenient s name r curly :
  scan_identifier cls lenient s = Some (name, r, curly) -> (length r < length s)%nat.
Proof.
  unfold scan_identifier. destruct s as [|c s']; [discriminate|].
  destruct (id_start cls c); [|discriminate].
  pose proof (scan_ident_core_le c s') as H0.
  destruct (scan_ident_core cls c s') as [base r0]. cbn in H0.
  match goal with |- (let '(name, r1) := ?p in _) = _ -> _ => set (p1 := p) end.
  assert (H1 : (length (snd p1) <= length r0)%nat).
  { subst p1. destruct r0 as [|lt r']; cbn; [lia|].
    destruct (N.eqb lt c_lt); cbn; [|lia].
    destruct (scan_qualifier cls c_gt r') as [[q r2]|] eqn:E; cbn; [|lia].
    apply scan_qualifier_lt in E. lia. }
  destruct p1 as [nm r1]. cbn in H1.
  destruct r1 as [|lb r'].
  { intro H; inversion H; subst. cbn in *. lia. }
  destruct (N.eqb lb 123).
  - destruct (scan_qualifier cls 125 r') as [[q r2]|] eqn:E.
    + apply scan_qualifier_lt in E. destruct lenient; intro H; inversion H; subst; cbn in *; lia.
    + intro H; inversion H; subst. cbn in *. lia.
  - intro H; inversion H; subst. cbn in *. lia.
Qed.

End Scanners.

(* ---- the loop body ------------------------------------------------------------------------------- *)
Section Loop.
Variable cls : N -> N.

Lemma emit_pat_in st k v m rest norm st' : emit_pat st k v m rest norm = Continue st' -> ls_in st' = rest.
Proof.
  unfold emit_pat. destruct (alias_of m) as [u|].
  - destruct (if tkind_eqb k LIST_START then _ else _) as [u0|brk]; [discriminate|].
    destruct (0 <? count_nl m); intro H; inversion H; reflexivity.
  - destruct (if tkind_eqb k LIST_START then _ else _) as [u0|brk]; [discriminate|].
    destruct (0 <? count_nl m); intro H; inversion H; reflexivity.
Qed.

Lemma adv_in st m rest toks reps : ls_in (adv st m rest toks reps) = rest.
Proof. reflexivity. Qed.

Lemma try_simple_lt tbl s m k :
  forallb (fun p => match fst p with [] => false | _ => true end) tbl = true ->
  s <> [] -> try_simple tbl s = Some (m, k) -> (length (skipn (length m) s) < length s)%nat.
Proof.
  intros Hall Hs. induction tbl as [|[m0 k0] t IH]; cbn; [discriminate|].
  cbn in Hall. apply andb_true_iff in Hall as [Hm Ht].
  destruct (prefixb m0 s).
  - intro H; inversion H; subst. apply skipn_lt; [|exact Hs]. destruct m; [discriminate|cbn; lia].
  - apply IH; exact Ht.
Qed.

Lemma simple_ops_nonempty : forallb (fun p : str * tkind => match fst p with [] => false | _ => true end) simple_ops = true.
Proof. reflexivity. Qed.
Lemma simple_ops2_nonempty : forallb (fun p : str * tkind => match fst p with [] => false | _ => true end) simple_ops2 = true.
Proof. reflexivity. Qed.

(* fence span: the whole span (and the newline after it, if any) is consumed *)
Lemma step_fence_progress st sp spans' st' :
  ls_in st <> [] -> step_fence st sp spans' = Continue st' -> (length (ls_in st') < length (ls_in st))%nat.
Proof.
  intros Hne. unfold step_fence.
  set (n := N.to_nat (sp_end sp - sp_start sp)).
  pose proof (@skipn_le N n (ls_in st)) as Hle.
  destruct (skipn n (ls_in st)) as [|nl rest'] eqn:E.
  - intro H; inversion H; subst. cbn. destruct (ls_in st); [congruence|cbn; lia].
  - intro H; inversion H; subst. cbn in *. lia.
Qed.

Lemma step_fallback_progress lenient st c s' st' :
  ls_in st = c :: s' -> step_fallback cls lenient st c s' = Continue st' ->
  (length (ls_in st') < length (ls_in st))%nat.
Proof.
  intros Hin. rewrite Hin. unfold step_fallback.
  destruct (prefixb s_eq3 (c :: s') && invalid_envelope cls (c :: s')); [discriminate|].
  destruct (N.eqb c c_plus).
  { intro H; inversion H; subst. rewrite adv_in. cbn. lia. }
  destruct (scan_identifier cls lenient (c :: s')) as [[[name rest] curly]|] eqn:E.
  { apply scan_identifier_lt in E. intro H; inversion H; subst. rewrite adv_in. exact E. }
  destruct (N.eqb c 37); [|discriminate].
  destruct (ls_toks st) as [|prev toks']; [discriminate|].
  destruct (match tk prev, tv prev with NUMBER, TVNum raw => Some raw | IDENTIFIER, TVText t => Some t | _, _ => None end)
    as [prev_val|]; [|discriminate].
  destruct (negb (prefixb [c_colon; c_colon] (lstrip cls s')) &&
            match last_chr prev_val with Some l => u_alnum cls l | None => false end); [|discriminate].
  intro H; inversion H; subst. rewrite adv_in.
  match goal with |- (length (skipn ?k s') < _)%nat => pose proof (@skipn_le N k s') end. cbn [length]. lia.
Qed.

Ltac fin_emit H :=
  apply emit_pat_in in H; rewrite H; clear H.

Lemma step_plain_progress lenient st c s' st' :
  ls_in st = c :: s' -> step_plain cls lenient st c s' = Continue st' ->
  (length (ls_in st') < length (ls_in st))%nat.
Proof.
  intros Hin. pose proof (step_fallback_progress lenient st c s' st' Hin) as Hfb. rewrite Hin in *.
  assert (Hne : c :: s' <> []) by discriminate.
  unfold step_plain. cbv zeta.
  destruct (N.eqb c c_sp) eqn:Esp.
  { clear Hfb. destruct (N.eqb (ls_col st) 1).
    - intro H; injection H as <-. apply N.eqb_eq in Esp. subst c.
      pose proof (dropb_le (N.eqb c_sp) s') as Hd. cbn. cbn in Hd. lia.
    - intro H; injection H as <-. rewrite adv_in. cbn [length]. lia. }
  destruct (if N.eqb (ls_pos st) 0 then scan_sentinel cls (c :: s') else None) as [[[m v] r]|] eqn:E1.
  { destruct (N.eqb (ls_pos st) 0); [|discriminate]. apply scan_sentinel_lt in E1.
    intro H; fin_emit H. exact E1. }
  destruct (scan_version cls (c :: s')) as [[m r]|] eqn:E2.
  { apply scan_version_lt in E2. intro H; fin_emit H. exact E2. }
  destruct (prefixb s_end_env (c :: s')) eqn:E3.
  { intro H; fin_emit H. apply skipn_lt; [lia|exact Hne]. }
  destruct (scan_envelope_start (c :: s')) as [[nm r]|] eqn:E4.
  { apply scan_envelope_start_lt in E4. intro H; fin_emit H. exact E4. }
  destruct (prefixb s_dash3 (c :: s')) eqn:E5.
  { intro H; fin_emit H. apply skipn_lt; [lia|exact Hne]. }
  destruct (prefixb [c_slash; c_slash] (c :: s')) eqn:E6.
  { intro H; fin_emit H. apply skipn_lt; [|exact Hne].
    change (prefixb [c_slash; c_slash] (c :: s')) with (N.eqb c_slash c && prefixb [c_slash] s') in E6.
    apply andb_true_iff in E6 as [E6 _]. apply N.eqb_eq in E6. subst c. cbn. lia. }
  destruct (try_simple simple_ops (c :: s')) as [[m k]|] eqn:E7.
  { intro H; fin_emit H. eapply try_simple_lt; [exact simple_ops_nonempty|exact Hne|exact E7]. }
  destruct (scan_word cls s_vs (ls_prev st) (c :: s')) as [r|] eqn:E8.
  { apply scan_word_lt in E8; [|discriminate|exact Hne]. intro H; fin_emit H. exact E8. }
  destruct (try_simple simple_ops2 (c :: s')) as [[m k]|] eqn:E9.
  { intro H; fin_emit H. eapply try_simple_lt; [exact simple_ops2_nonempty|exact Hne|exact E9]. }
  destruct (if prefixb [c_dq; c_dq; c_dq] (c :: s') then scan_tq_body (length (c :: s')) (skipn 3 (c :: s')) else None)
    as [[b r]|] eqn:E10.
  { destruct (prefixb [c_dq; c_dq; c_dq] (c :: s')); [|discriminate]. apply scan_tq_body_lt in E10.
    intro H; fin_emit H. pose proof (@skipn_le N 3 (c :: s')). lia. }
  destruct (if N.eqb c c_dq then scan_dq_body (length (c :: s')) s' else None) as [[b r]|] eqn:E11.
  { destruct (N.eqb c c_dq); [|discriminate]. apply scan_dq_body_lt in E11.
    intro H; fin_emit H. cbn [length]. lia. }
  destruct (scan_number cls (c :: s')) as [[m r]|] eqn:E12.
  { apply scan_number_lt in E12. intro H; fin_emit H. exact E12. }
  destruct (scan_word cls s_true (ls_prev st) (c :: s')) as [r|] eqn:E13.
  { apply scan_word_lt in E13; [|discriminate|exact Hne]. intro H; fin_emit H. exact E13. }
  destruct (scan_word cls s_false (ls_prev st) (c :: s')) as [r|] eqn:E14.
  { apply scan_word_lt in E14; [|discriminate|exact Hne]. intro H; fin_emit H. exact E14. }
  destruct (scan_word cls s_null (ls_prev st) (c :: s')) as [r|] eqn:E15.
  { apply scan_word_lt in E15; [|discriminate|exact Hne]. intro H; fin_emit H. exact E15. }
  destruct (N.eqb c c_hash).
  { intro H; fin_emit H. cbn [length]. lia. }
  destruct (if N.eqb c c_dollar then match takeb var_char s' with [] => None | m => Some m end else None) as [m|] eqn:E16.
  { intro H; fin_emit H. pose proof (@skipn_le N (length m) s'). cbn [length]. lia. }
  destruct (N.eqb c c_nl).
  { intro H; fin_emit H. cbn [length]. lia. }
  exact Hfb.
Qed.

(* THE progress lemma: an iteration that continues has consumed at least one character *)
Theorem step_progress lenient st st' :
  step cls lenient st = Continue st' -> (length (ls_in st') < length (ls_in st))%nat.
Proof.
  unfold step. destruct (ls_in st) as [|c s'] eqn:Hin; [discriminate|].
  destruct (ls_spans st) as [|sp spans'].
  - intro H. rewrite <- Hin. eapply step_plain_progress; eauto.
  - destruct (N.eqb (ls_pos st) (sp_start sp)).
    + intro H. rewrite <- Hin. eapply step_fence_progress; eauto. rewrite Hin; discriminate.
    + intro H. rewrite <- Hin. eapply step_plain_progress; eauto.
Qed.

(* a step on a non-empty input never reports fuel exhaustion by itself *)
Lemma emit_pat_not_fuel st k v m rest norm : emit_pat st k v m rest norm <> Stop LexFuel.
Proof.
  unfold emit_pat. destruct (alias_of m);
  (destruct (if tkind_eqb k LIST_START then _ else _); [discriminate|]; destruct (0 <? count_nl m); discriminate).
Qed.

Inductive is_err_or_ok : lexres -> Prop :=
| IsOk toks reps : is_err_or_ok (LexOk toks reps)
| IsErr code l c : In code lexer_error_codes -> is_err_or_ok (LexErr code l c).

Definition code_ok (code : str) : bool := str_in code lexer_error_codes.

Lemma str_in_In s l : str_in s l = true -> In s l.
Proof.
  induction l as [|x l IH]; cbn; [discriminate|]. intro H. apply orb_true_iff in H as [H|H].
  - left. symmetry. apply str_eqb_eq. exact H.
  - right. exact (IH H).
Qed.

Lemma emit_pat_stop st k v m rest norm r : emit_pat st k v m rest norm = Stop r -> is_err_or_ok r.
Proof.
  unfold emit_pat. destruct (alias_of m);
  (destruct (if tkind_eqb k LIST_START then _ else _);
   [intro H; inversion H; subst; apply IsErr; apply str_in_In; vm_compute; reflexivity
   | destruct (0 <? count_nl m); discriminate]).
Qed.

Lemma step_fallback_stop lenient st c s' r : step_fallback cls lenient st c s' = Stop r -> is_err_or_ok r.
Proof.
  unfold step_fallback.
  destruct (prefixb s_eq3 (c :: s') && invalid_envelope cls (c :: s')).
  { intro H; inversion H; subst. apply IsErr. apply str_in_In. vm_compute. reflexivity. }
  destruct (N.eqb c c_plus); [discriminate|].
  destruct (scan_identifier cls lenient (c :: s')) as [[[name rest] curly]|]; [discriminate|].
  assert (He : forall r0, Stop (LexErr e005 (ls_line st) (ls_col st)) = Stop r0 -> is_err_or_ok r0).
  { intros r0 H; inversion H; subst. apply IsErr. apply str_in_In. vm_compute. reflexivity. }
  destruct (N.eqb c 37); [|apply He].
  destruct (ls_toks st) as [|prev toks']; [apply He|].
  destruct (match tk prev, tv prev with NUMBER, TVNum raw => Some raw | IDENTIFIER, TVText t => Some t | _, _ => None end)
    as [prev_val|]; [|apply He].
  destruct (negb (prefixb [c_colon; c_colon] (lstrip cls s')) &&
            match last_chr prev_val with Some l => u_alnum cls l | None => false end); [discriminate|apply He].
Qed.

Lemma step_plain_stop lenient st c s' r : step_plain cls lenient st c s' = Stop r -> is_err_or_ok r.
Proof.
  unfold step_plain. cbv zeta.
  destruct (N.eqb c c_sp). { destruct (N.eqb (ls_col st) 1); discriminate. }
  repeat match goal with
  | |- emit_pat _ _ _ _ _ _ = Stop _ -> _ => apply emit_pat_stop
  | |- step_fallback _ _ _ _ _ = Stop _ -> _ => apply step_fallback_stop
  | |- match ?x with _ => _ end = Stop _ -> _ => destruct x
  | |- (if ?x then _ else _) = Stop _ -> _ => destruct x
  end.
Qed.

Lemma step_stop lenient st r : ls_in st <> [] -> step cls lenient st = Stop r -> is_err_or_ok r.
Proof.
  unfold step. destruct (ls_in st) as [|c s'] eqn:Hin; [congruence|]. intros _.
  destruct (ls_spans st) as [|sp spans'].
  - apply step_plain_stop.
  - destruct (N.eqb (ls_pos st) (sp_start sp)).
    + unfold step_fence. destruct (skipn _ (ls_in st)); discriminate.
    + apply step_plain_stop.
Qed.

Lemma finish_ok st : is_err_or_ok (finish st).
Proof.
  unfold finish. destruct (rev (ls_brk st)) as [|[l c] t]; [apply IsOk|].
  apply IsErr. apply str_in_In. vm_compute. reflexivity.
Qed.

(* with fuel > length of the remaining input the loop ends by itself: result is Ok or a listed error *)
Theorem run_enough_fuel lenient fuel st :
  (length (ls_in st) < fuel)%nat -> is_err_or_ok (run cls lenient fuel st).
Proof.
  revert st; induction fuel as [|f IH]; intros st Hf; [lia|].
  cbn [run]. destruct (ls_in st) as [|c s'] eqn:Hin; [apply finish_ok|].
  destruct (step cls lenient st) as [st'|r] eqn:Hs.
  - apply IH. apply step_progress in Hs. rewrite Hin in Hs. cbn in *. lia.
  - eapply step_stop; [|exact Hs]. rewrite Hin; discriminate.
Qed.

Lemma fence_scan_err ls ln off inf out spans e :
  fence_scan cls ls ln off inf out spans = inl e -> is_err_or_ok e.
Proof.
  revert ln off inf out spans; induction ls as [|[raw nfc] ls IH]; intros ln off inf out spans; cbn [fence_scan].
  - destruct inf as [[[[mk tg] ol] stt]|]; [|discriminate].
    intro H; inversion H; subst. apply IsErr. apply str_in_In. vm_compute. reflexivity.
  - destruct (fence_match raw) as [[bt tr]|]; destruct inf as [[[[mk tg] ol] stt]|]; try apply IH.
    destruct ((length bt =? length mk)%nat && match strip cls tr with [] => true | _ => false end); [apply IH|].
    destruct (length mk <=? length bt)%nat; [|apply IH].
    intro H; inversion H; subst. apply IsErr. apply str_in_In. vm_compute. reflexivity.
Qed.

(* the pre-pass over leading blank lines only drops a prefix of the input *)
Lemma lead_blank_len s : forall line k nsp toks ls,
  (length ls <= length s + N.to_nat nsp)%nat ->
  (length (fst (fst (fst (lead_blank s line k nsp toks ls)))) <= length s + N.to_nat nsp)%nat.
Proof.
  induction s as [|c r IH]; intros line k nsp toks ls Hl; cbn [lead_blank].
  - exact Hl.
  - destruct (N.eqb c c_sp).
    + specialize (IH line k (nsp + 1)%N toks ls). cbn [length] in *. rewrite N2Nat.inj_add in IH. change (N.to_nat 1) with 1%nat in IH. lia.
    + destruct (N.eqb c c_nl).
      * specialize (IH (line + 1)%N (k + nsp + 1)%N 0%N
                       (mkTok NEWLINE (TVText [c_nl]) line 1 None :: toks) r). cbn [length] in *. change (N.to_nat 0) with 0%nat in IH. lia.
      * cbn [fst]. exact Hl.
Qed.

Lemma init_state_len content spans : (length (ls_in (init_state content spans)) <= length content)%nat.
Proof.
  unfold init_state. pose proof (lead_blank_len content 1 0 0 [] content) as H.
  destruct (lead_blank content 1 0 0 [] content) as [[[rest line] k] toks]. cbn [fst] in H.
  destruct toks; cbn [ls_in]; [lia|]. cbn in H. lia.
Qed.

Theorem tokenize_total lenient lines : is_err_or_ok (tokenize cls lenient lines).
Proof.
  unfold tokenize. destruct (fence_scan cls lines 1 0 None [] []) as [e|[outs spans]] eqn:E.
  - eapply fence_scan_err; eauto.
  - destruct (tab_check (join [c_nl] outs) 0 1 1 spans) as [[l c]|].
    + apply IsErr. apply str_in_In. vm_compute. reflexivity.
    + apply run_enough_fuel. pose proof (init_state_len (join [c_nl] outs) spans). lia.
Qed.

Theorem run_never_out_of_fuel lenient lines : tokenize cls lenient lines <> LexFuel.
Proof. intro H. pose proof (tokenize_total lenient lines) as T. rewrite H in T. inversion T. Qed.

Theorem lexer_error_kinds lenient lines code l c :
  tokenize cls lenient lines = LexErr code l c -> In code lexer_error_codes.
Proof. intro H. pose proof (tokenize_total lenient lines) as T. rewrite H in T. inversion T; assumption. Qed.

(* iteration count: the number of loop iterations actually executed is at most the input length *)
Fixpoint iterations (lenient : bool) (fuel : nat) (st : lstate) : nat :=
  match ls_in st with
  | [] => O
  | _ => match fuel with
         | O => O
         | S f => match step cls lenient st with Continue st' => S (iterations lenient f st') | Stop _ => 1%nat end
         end
  end.

Theorem run_iterations_bounded lenient fuel st : (iterations lenient fuel st <= length (ls_in st))%nat.
Proof.
  revert st; induction fuel as [|f IH]; intro st; cbn [iterations]; destruct (ls_in st) as [|c s'] eqn:Hin; try (cbn; lia).
  destruct (step cls lenient st) as [st'|r] eqn:Hs; [|cbn; lia].
  apply step_progress in Hs. specialize (IH st'). rewrite Hin in Hs. cbn in *. lia.
Qed.

End Loop.
