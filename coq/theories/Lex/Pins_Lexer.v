(* PINS: the text/tables of /repo the hand-written model was written against. Generated once by harness/mkpins.py
   from LexerGen.v; committed. A source change that alters one of these breaks the pin (a proof obligation). *)
From OV Require Import Gen.LexerGen.
From Coq Require Import List NArith.
Import ListNotations.
Open Scope N_scope.

Definition pinned_lexer_ascii_aliases : list (list N * list N) :=
  [([45; 62]%N, [8594]%N);
   ([60; 45; 62]%N, [8652]%N);
   ([43]%N, [8853]%N);
   ([126]%N, [10746]%N);
   ([118; 115]%N, [8652]%N);
   ([124]%N, [8744]%N);
   ([38]%N, [8743]%N);
   ([35]%N, [167]%N)].
Lemma pin_lexer_ascii_aliases : lexer_ascii_aliases = pinned_lexer_ascii_aliases.
Proof. reflexivity. Qed.

Definition pinned_lexer_wrong_case : list (list N * list N) :=
  [([84; 114; 117; 101]%N, [116; 114; 117; 101]%N);
   ([84; 82; 85; 69]%N, [116; 114; 117; 101]%N);
   ([70; 97; 108; 115; 101]%N, [102; 97; 108; 115; 101]%N);
   ([70; 65; 76; 83; 69]%N, [102; 97; 108; 115; 101]%N);
   ([78; 117; 108; 108]%N, [110; 117; 108; 108]%N);
   ([78; 85; 76; 76]%N, [110; 117; 108; 108]%N)].
Lemma pin_lexer_wrong_case : lexer_wrong_case = pinned_lexer_wrong_case.
Proof. reflexivity. Qed.

Definition pinned_lexer_operator_chars : list N :=
  [167; 8594; 8652; 8743; 8744; 8853; 10746]%N.
Lemma pin_lexer_operator_chars : lexer_operator_chars = pinned_lexer_operator_chars.
Proof. reflexivity. Qed.

Definition pinned_lexer_fence_pattern : list N :=
  [94; 40; 32; 42; 41; 40; 40; 96; 123; 51; 44; 125; 41; 40; 91; 94; 92; 110; 96; 93; 42; 41; 63; 41; 36]%N.
Lemma pin_lexer_fence_pattern : lexer_fence_pattern = pinned_lexer_fence_pattern.
Proof. reflexivity. Qed.

Definition pinned_lexer_invalid_envelope_pattern : list N :=
  [61; 61; 61; 40; 91; 94; 61; 92; 110; 93; 42; 41; 61; 61; 61]%N.
Lemma pin_lexer_invalid_envelope_pattern : lexer_invalid_envelope_pattern = pinned_lexer_invalid_envelope_pattern.
Proof. reflexivity. Qed.

Definition pinned_lexer_token_patterns : list (list N * list N) :=
  [([79; 67; 84; 65; 86; 69; 58; 58; 40; 92; 100; 43; 40; 63; 58; 92; 46; 92; 100; 43; 41; 42; 40; 63; 58; 45; 91; 65; 45; 90; 97; 45; 122; 48; 45; 57; 46; 45; 93; 43; 41; 63; 41]%N, [71; 82; 65; 77; 77; 65; 82; 95; 83; 69; 78; 84; 73; 78; 69; 76]%N);
   ([40; 92; 100; 43; 92; 46; 92; 100; 43; 92; 46; 92; 100; 43; 40; 63; 58; 92; 46; 92; 100; 43; 41; 42; 40; 63; 58; 45; 91; 65; 45; 90; 97; 45; 122; 48; 45; 57; 46; 45; 93; 43; 41; 63; 40; 63; 58; 92; 43; 91; 65; 45; 90; 97; 45; 122; 48; 45; 57; 46; 93; 43; 41; 63; 41]%N, [86; 69; 82; 83; 73; 79; 78]%N);
   ([40; 92; 100; 43; 92; 46; 92; 100; 43; 40; 63; 58; 45; 91; 65; 45; 90; 97; 45; 122; 48; 45; 57; 46; 45; 93; 43; 41; 40; 63; 58; 92; 43; 91; 65; 45; 90; 97; 45; 122; 48; 45; 57; 46; 93; 43; 41; 63; 41]%N, [86; 69; 82; 83; 73; 79; 78]%N);
   ([40; 92; 100; 43; 92; 46; 92; 100; 43; 40; 63; 58; 92; 43; 91; 65; 45; 90; 97; 45; 122; 48; 45; 57; 46; 93; 43; 41; 41]%N, [86; 69; 82; 83; 73; 79; 78]%N);
   ([61; 61; 61; 69; 78; 68; 61; 61; 61]%N, [69; 78; 86; 69; 76; 79; 80; 69; 95; 69; 78; 68]%N);
   ([61; 61; 61; 40; 91; 65; 45; 90; 97; 45; 122; 95; 93; 91; 65; 45; 90; 97; 45; 122; 48; 45; 57; 95; 93; 42; 41; 61; 61; 61]%N, [69; 78; 86; 69; 76; 79; 80; 69; 95; 83; 84; 65; 82; 84]%N);
   ([45; 45; 45]%N, [83; 69; 80; 65; 82; 65; 84; 79; 82]%N);
   ([47; 47; 91; 94; 92; 110; 93; 42]%N, [67; 79; 77; 77; 69; 78; 84]%N);
   ([58; 58]%N, [65; 83; 83; 73; 71; 78]%N);
   ([58]%N, [66; 76; 79; 67; 75]%N);
   ([8594]%N, [70; 76; 79; 87]%N);
   ([60; 45; 62]%N, [84; 69; 78; 83; 73; 79; 78]%N);
   ([45; 62]%N, [70; 76; 79; 87]%N);
   ([8853]%N, [83; 89; 78; 84; 72; 69; 83; 73; 83]%N);
   ([10746]%N, [67; 79; 78; 67; 65; 84]%N);
   ([126]%N, [67; 79; 78; 67; 65; 84]%N);
   ([64]%N, [65; 84]%N);
   ([8652]%N, [84; 69; 78; 83; 73; 79; 78]%N);
   ([92; 98; 118; 115; 92; 98]%N, [84; 69; 78; 83; 73; 79; 78]%N);
   ([8744]%N, [65; 76; 84; 69; 82; 78; 65; 84; 73; 86; 69]%N);
   ([92; 124]%N, [65; 76; 84; 69; 82; 78; 65; 84; 73; 86; 69]%N);
   ([8743]%N, [67; 79; 78; 83; 84; 82; 65; 73; 78; 84]%N);
   ([38]%N, [67; 79; 78; 83; 84; 82; 65; 73; 78; 84]%N);
   ([167]%N, [83; 69; 67; 84; 73; 79; 78]%N);
   ([92; 91]%N, [76; 73; 83; 84; 95; 83; 84; 65; 82; 84]%N);
   ([92; 93]%N, [76; 73; 83; 84; 95; 69; 78; 68]%N);
   ([44]%N, [67; 79; 77; 77; 65]%N);
   ([34; 34; 34; 40; 63; 58; 91; 94; 34; 92; 92; 93; 124; 92; 92; 46; 124; 34; 40; 63; 33; 34; 34; 41; 41; 42; 34; 34; 34]%N, [83; 84; 82; 73; 78; 71]%N);
   ([34; 40; 63; 58; 91; 94; 34; 92; 92; 93; 124; 92; 92; 46; 41; 42; 34]%N, [83; 84; 82; 73; 78; 71]%N);
   ([45; 63; 92; 100; 43; 92; 46; 63; 92; 100; 42; 40; 63; 58; 91; 101; 69; 93; 91; 43; 45; 93; 63; 92; 100; 43; 41; 63]%N, [78; 85; 77; 66; 69; 82]%N);
   ([92; 98; 116; 114; 117; 101; 92; 98]%N, [66; 79; 79; 76; 69; 65; 78]%N);
   ([92; 98; 102; 97; 108; 115; 101; 92; 98]%N, [66; 79; 79; 76; 69; 65; 78]%N);
   ([92; 98; 110; 117; 108; 108; 92; 98]%N, [78; 85; 76; 76]%N);
   ([35]%N, [83; 69; 67; 84; 73; 79; 78]%N);
   ([92; 36; 91; 65; 45; 90; 97; 45; 122; 48; 45; 57; 95; 58; 93; 43]%N, [86; 65; 82; 73; 65; 66; 76; 69]%N);
   ([92; 110]%N, [78; 69; 87; 76; 73; 78; 69]%N)].
Lemma pin_lexer_token_patterns : lexer_token_patterns = pinned_lexer_token_patterns.
Proof. reflexivity. Qed.

Definition pinned_lexer_token_types : list (list N) :=
  [[71; 82; 65; 77; 77; 65; 82; 95; 83; 69; 78; 84; 73; 78; 69; 76]%N;
   [86; 69; 82; 83; 73; 79; 78]%N;
   [86; 65; 82; 73; 65; 66; 76; 69]%N;
   [65; 83; 83; 73; 71; 78]%N;
   [66; 76; 79; 67; 75]%N;
   [76; 73; 83; 84; 95; 83; 84; 65; 82; 84]%N;
   [76; 73; 83; 84; 95; 69; 78; 68]%N;
   [67; 79; 78; 67; 65; 84]%N;
   [65; 84]%N;
   [83; 89; 78; 84; 72; 69; 83; 73; 83]%N;
   [84; 69; 78; 83; 73; 79; 78]%N;
   [67; 79; 78; 83; 84; 82; 65; 73; 78; 84]%N;
   [65; 76; 84; 69; 82; 78; 65; 84; 73; 86; 69]%N;
   [70; 76; 79; 87]%N;
   [83; 69; 67; 84; 73; 79; 78]%N;
   [67; 79; 77; 77; 69; 78; 84]%N;
   [69; 78; 86; 69; 76; 79; 80; 69; 95; 83; 84; 65; 82; 84]%N;
   [69; 78; 86; 69; 76; 79; 80; 69; 95; 69; 78; 68]%N;
   [83; 84; 82; 73; 78; 71]%N;
   [78; 85; 77; 66; 69; 82]%N;
   [66; 79; 79; 76; 69; 65; 78]%N;
   [78; 85; 76; 76]%N;
   [73; 68; 69; 78; 84; 73; 70; 73; 69; 82]%N;
   [67; 79; 77; 77; 65]%N;
   [78; 69; 87; 76; 73; 78; 69]%N;
   [73; 78; 68; 69; 78; 84]%N;
   [83; 69; 80; 65; 82; 65; 84; 79; 82]%N;
   [69; 79; 70]%N;
   [70; 69; 78; 67; 69; 95; 79; 80; 69; 78]%N;
   [70; 69; 78; 67; 69; 95; 67; 76; 79; 83; 69]%N;
   [76; 73; 84; 69; 82; 65; 76; 95; 67; 79; 78; 84; 69; 78; 84]%N].
Lemma pin_lexer_token_types : lexer_token_types = pinned_lexer_token_types.
Proof. reflexivity. Qed.

Definition pinned_lexer_unescape_map : list (N * N) :=
  [(34, 34);
   (92, 92);
   (110, 10);
   (116, 9)].
Lemma pin_lexer_unescape_map : lexer_unescape_map = pinned_lexer_unescape_map.
Proof. reflexivity. Qed.

Definition pinned_lexer_unescape_pattern : list N :=
  [92; 92; 40; 91; 34; 92; 92; 110; 116; 93; 41]%N.
Lemma pin_lexer_unescape_pattern : lexer_unescape_pattern = pinned_lexer_unescape_pattern.
Proof. reflexivity. Qed.

Definition pinned_lexer_sentinel_guard : list N :=
  [112; 111; 115; 32; 33; 61; 32; 115; 101; 110; 116; 105; 110; 101; 108; 95; 112; 111; 115]%N.
Lemma pin_lexer_sentinel_guard : lexer_sentinel_guard = pinned_lexer_sentinel_guard.
Proof. reflexivity. Qed.

Definition pinned_lexer_sentinel_pos : list N :=
  [95; 76; 69; 65; 68; 73; 78; 71; 95; 66; 76; 65; 78; 75; 95; 76; 73; 78; 69; 83; 46; 109; 97; 116; 99; 104; 40; 99; 111; 110; 116; 101; 110; 116; 41; 46; 101; 110; 100; 40; 41]%N.
Lemma pin_lexer_sentinel_pos : lexer_sentinel_pos = pinned_lexer_sentinel_pos.
Proof. reflexivity. Qed.

Definition pinned_lexer_leading_blank_pattern : list N :=
  [40; 63; 58; 32; 42; 92; 110; 41; 42]%N.
Lemma pin_lexer_leading_blank_pattern : lexer_leading_blank_pattern = pinned_lexer_leading_blank_pattern.
Proof. reflexivity. Qed.
