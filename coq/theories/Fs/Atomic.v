(* C16: all-or-nothing writes.  Every theorem is for ALL fault assignments (any number of failures, any
   errno, a crash at any op instance), ALL oracles (prefix sizes, pipeline, hash), ALL initial file
   systems satisfying wf_env.  Proof: soundness of the abstract interpretation (AbsSound.exec_sound:
   invariant preserved by every op + induction over the protocol syntax) and one computed check of the
   GENERATED protocols over the 32 abstract scenarios (check_protos_ok). *)
From OV Require Import Base.Strs Fs.Fs Fs.ProtoSyntax Fs.WriteProto Fs.Abs Fs.AbsSound.
Open Scope N_scope.

Record wf_env (E : env) (s0 : fs) : Prop := {
  we_tmp_target : e_tmp E <> e_target E;
  we_target_chain : ~ In (e_target E) (e_chain E);
  we_tmp_chain : ~ In (e_tmp E) (e_chain E);
  we_tmp_fresh : lookup (e_tmp E) s0 = None;          (* mkstemp picks an unused name *)
  we_target_nodir : lookup (e_target E) s0 <> Some Dir;
}.

Definition is_file (n : option node) : bool := match n with Some (File _ _) => true | _ => false end.
Definition par_ready (E : env) (s0 : fs) : bool :=
  fs_is_dir (e_parent E) s0 && forallb (fun p => fs_exists p s0) (e_chain E).
Definition aenv_of (H : str -> str) (E : env) (s0 : fs) (allowed : list afault) : aenv :=
  Build_aenv (is_file (lookup (e_target E) s0)) (par_ready E s0)
             (match e_base E with Some _ => true | None => false end)
             (negb (hash_ne H E (Some (olddata E s0)))) (e_dry E) allowed.

Lemma wfX_of H E s0 allowed : wf_env E s0 -> (forall k, In (absf (e_faults E k)) allowed) ->
  wfX H E s0 (aenv_of H E s0 allowed).
Proof.
  intros W Hall. destruct W. constructor; cbn; try assumption; try reflexivity.
  - unfold old. destruct (lookup (e_target E) s0) as [[d m|]|]; cbn; try discriminate. intros _. exists d, m. reflexivity.
  - unfold old. destruct (lookup (e_target E) s0) as [[d m|]|]; cbn; try discriminate; try reflexivity. contradiction.
  - unfold par_ready. intro Hp. apply andb_true_iff in Hp as [H1 H2]. split.
    + unfold fs_is_dir in H1. destruct (lookup (e_parent E) s0) as [[|]|]; try discriminate. reflexivity.
    + intros p Hi. rewrite forallb_forall in H2. specialize (H2 p Hi). unfold fs_exists in H2.
      destruct (lookup p s0); [discriminate|discriminate].
Qed.

Lemma absf_all f : In (absf f) all_faults.
Proof. destruct f as [|e|]; cbn; [tauto| destruct (is_perm e); tauto | tauto]. Qed.

Lemma Rc_init H E s0 X : wfX H E s0 X -> Rc E s0 (init_pst s0) (a_init X).
Proof.
  intro W. split.
  - cbn. unfold RF. split; [reflexivity|]. split; [exact (W4 _ _ _ _ W)|]. split; [exact (W6 _ _ _ _ W)|]. split; intros; reflexivity.
  - unfold RV. cbn. repeat split; try reflexivity; intros; try discriminate.
Qed.

Lemma check_protos_ok : check_protos = true.
Proof. vm_compute. reflexivity. Qed.

Lemma in_all_aenv e p b m d al : In (Build_aenv e p b m d al) (all_aenv al).
Proof. destruct e, p, b, m, d; cbn; tauto. Qed.
Lemma in_all_protos p : In p all_protos.
Proof. destruct p as [[| |]|]; cbn; tauto. Qed.

(* the bridge: the concrete run, under ANY faults, is described by a checked abstract outcome *)
Definition run_res (H : str -> str) (E : env) (p : proto_id) (s0 : fs) : pst * res :=
  exec H E (proto_of p) EOTHER (init_pst s0).

Lemma run_checked H E p s0 : wf_env E s0 ->
  let X := aenv_of H E s0 all_faults in
  exists a ar, chk_all p X (a, ar) = true /\ Rc E s0 (fst (run_res H E p s0)) a /\ ar = abs_res (snd (run_res H E p s0)).
Proof.
  intros W X.
  assert (WX : wfX H E s0 X) by (apply wfX_of; [exact W|intro k; apply absf_all]).
  destruct (exec_sound H E s0 X WX (proto_of p) EOTHER (init_pst s0) (a_init X) (Rc_init _ _ _ _ WX)) as (a & ar & Hi & Hr).
  pose proof check_protos_ok as Hc. unfold check_protos in Hc. rewrite forallb_forall in Hc.
  specialize (Hc p (in_all_protos p)). rewrite forallb_forall in Hc.
  specialize (Hc X (in_all_aenv _ _ _ _ _ _)). rewrite forallb_forall in Hc.
  specialize (Hc (a, ar) Hi).
  exists a, ar. split; [exact Hc|].
  destruct Hr as [Htop|[R Hr]]; [|split; assumption].
  exfalso. unfold chk_all, chk_atomic in Hc. cbn in Hc. rewrite Htop in Hc. discriminate.
Qed.

Definition target_is_old (E : env) (s0 : fs) (s : pst) : Prop := lookup (e_target E) (fsys s) = lookup (e_target E) s0.
(* the complete new text with the final mode (= the old file's permission bits if it existed, else mkstemp's 0600) *)
Definition target_is_new (E : env) (s0 : fs) (s : pst) : Prop :=
  exists c, cont s = Some c /\ lookup (e_target E) (fsys s) = Some (File c (fmode E s0)).

Lemma chk_all_inv p X a ar : chk_all p X (a, ar) = true ->
  a_top a = false /\
  (is_err ar = true -> tgt_old a = true /\ (a_ulfail a = false -> tmp_none a = true) /\ (x_par0 X = true -> a_dirs a = false)) /\
  (is_ok ar = true -> dry_of p X = false -> tgt_old a = false /\ tmp_none a = true) /\
  (dry_of p X = true -> tgt_old a = true /\ tmp_none a = true /\ a_dirs a = false).
Proof.
  unfold chk_all, chk_atomic, chk_error, chk_success, chk_dry. cbn [fst snd].
  destruct (a_top a), (is_err ar), (is_ok ar), (tgt_old a), (a_ulfail a), (tmp_none a), (x_par0 X), (a_dirs a), (dry_of p X), (a_cont a);
    cbn; intuition discriminate.
Qed.

(* atomic_faults / atomic_crash: whatever fails and wherever the process dies, target is old or complete new *)
Theorem atomic_faults H E p s0 : wf_env E s0 ->
  let s := fst (run H E p s0) in target_is_old E s0 s \/ target_is_new E s0 s.
Proof.
  intros W. destruct (run_checked H E p s0 W) as (a & ar & Hc & [RFs RVs] & Hr).
  unfold run. fold (run_res H E p s0). destruct (run_res H E p s0) as [s r]. cbn [fst snd] in *.
  destruct RFs as (R1 & _). destruct (a_tgt a); [left; exact R1|right; exact R1].
Qed.

Theorem atomic_crash H E p s0 : wf_env E s0 -> snd (run H E p s0) = Crashed ->
  let s := fst (run H E p s0) in target_is_old E s0 s \/ target_is_new E s0 s.
Proof. intros W _. apply atomic_faults. exact W. Qed.

(* nothing but target, temp and the parent chain is ever touched *)
Theorem frame H E p s0 : wf_env E s0 ->
  forall q, q <> e_target E -> q <> e_tmp E -> ~ In q (e_chain E) -> lookup q (fsys (fst (run H E p s0))) = lookup q s0.
Proof.
  intros W. destruct (run_checked H E p s0 W) as (a & ar & Hc & [RFs RVs] & Hr).
  unfold run. fold (run_res H E p s0). destruct (run_res H E p s0) as [s r]. cbn [fst snd] in *.
  destruct RFs as (_ & _ & _ & R4 & _). exact R4.
Qed.

Definition is_error (o : outcome) : bool := match o with Error _ | Raised _ => true | _ => false end.

Lemma outcome_err H E p s0 : is_error (snd (run H E p s0)) = true -> is_err (abs_res (snd (run_res H E p s0))) = true.
Proof.
  unfold run. fold (run_res H E p s0). destruct (run_res H E p s0) as [s r]. cbn [fst snd].
  destruct r as [|e|[|c]|]; cbn; congruence.
Qed.

(* error_clean: an error (returned or raised) leaves the target as it was; no temp file unless the cleanup
   (os.path.exists(temp) / os.unlink(temp)) ITSELF failed; no new directory if the parent already existed *)
Theorem error_clean H E p s0 : wf_env E s0 -> is_error (snd (run H E p s0)) = true ->
  let s := fst (run H E p s0) in
  target_is_old E s0 s /\
  (ulfail s = false -> lookup (e_tmp E) (fsys s) = None) /\
  (par_ready E s0 = true -> forall q, In q (e_chain E) -> lookup q (fsys s) = lookup q s0).
Proof.
  intros W He. pose proof (outcome_err _ _ _ _ He) as He'.
  destruct (run_checked H E p s0 W) as (a & ar & Hc & [RFs RVs] & Hr).
  unfold run. fold (run_res H E p s0). destruct (run_res H E p s0) as [s r]. cbn [fst snd] in *.
  subst ar. destruct (chk_all_inv _ _ _ _ Hc) as (_ & Ke & _). destruct (Ke He') as (K1 & K2 & K3).
  destruct RFs as (R1 & R2 & _ & _ & R5). unfold tgt_old in K1. destruct (a_tgt a); [|discriminate].
  split; [exact R1|]. split.
  - intro Hu. assert (Hu' : a_ulfail a = false) by (unfold RV in RVs; destruct RVs as (_ & _ & _ & Q & _); congruence).
    specialize (K2 Hu'). unfold tmp_none in K2. destruct (a_tmp a); [exact R2|discriminate].
  - intros Hp q Hq. exact (R5 (K3 Hp) q Hq).
Qed.

Lemma outcome_ok H E p s0 h : snd (run H E p s0) = Success h ->
  abs_res (snd (run_res H E p s0)) = ARRet RetOk /\ h = H (match cont (fst (run_res H E p s0)) with Some c => c | None => [] end).
Proof.
  unfold run. fold (run_res H E p s0). destruct (run_res H E p s0) as [s r]. cbn [fst snd].
  destruct r as [|e|[|c]|]; cbn; try congruence. intro Hs. inversion Hs. split; reflexivity.
Qed.

(* success_hash + mode_kept: a real success installed exactly the text whose hash is returned, with the old
   file's permission bits (fmode), and no temp is left *)
Theorem success_installed H E p s0 h : wf_env E s0 -> snd (run H E p s0) = Success h -> dry_of p (aenv_of H E s0 all_faults) = false ->
  let s := fst (run H E p s0) in
  exists c, cont s = Some c /\ h = H c /\ lookup (e_target E) (fsys s) = Some (File c (fmode E s0)) /\
            lookup (e_tmp E) (fsys s) = None.
Proof.
  intros W Hs Hd. destruct (outcome_ok _ _ _ _ _ Hs) as [Ho Hh].
  destruct (run_checked H E p s0 W) as (a & ar & Hc & [RFs RVs] & Hr).
  unfold run. fold (run_res H E p s0). destruct (run_res H E p s0) as [s r]. cbn [fst snd] in *.
  subst ar. destruct (chk_all_inv _ _ _ _ Hc) as (_ & _ & Ks & _). rewrite Ho in Ks. destruct (Ks eq_refl Hd) as (J0 & J).
  destruct RFs as (R1 & R2 & _). unfold tgt_old in J0. destruct (a_tgt a); [discriminate|].
  destruct R1 as (c & Hcont & Hl). exists c. rewrite Hcont in Hh. repeat split; try assumption.
  unfold tmp_none in J. destruct (a_tmp a); [exact R2|discriminate].
Qed.

Theorem mode_kept H E p s0 h d m : wf_env E s0 -> snd (run H E p s0) = Success h -> dry_of p (aenv_of H E s0 all_faults) = false ->
  lookup (e_target E) s0 = Some (File d m) ->
  exists c, lookup (e_target E) (fsys (fst (run H E p s0))) = Some (File c m).
Proof.
  intros W Hs Hd Ho. destruct (success_installed H E p s0 h W Hs Hd) as (c & _ & _ & Hl & _).
  exists c. rewrite Hl. unfold fmode, old. rewrite Ho. reflexivity.
Qed.

(* dryrun_pure: corrections_only leaves every path as it was -- on success, on error, under faults, on crash *)
Theorem dryrun_pure H E m s0 : wf_env E s0 -> e_dry E = true ->
  forall q, lookup q (fsys (fst (run H E (PExecute m) s0))) = lookup q s0.
Proof.
  intros W Hd. destruct (run_checked H E (PExecute m) s0 W) as (a & ar & Hc & [RFs RVs] & Hr).
  unfold run. fold (run_res H E (PExecute m) s0). destruct (run_res H E (PExecute m) s0) as [s r]. cbn [fst snd] in *.
  destruct (chk_all_inv _ _ _ _ Hc) as (_ & _ & _ & Kd). cbn [dry_of x_dry aenv_of] in Kd. destruct (Kd Hd) as (J1 & J0 & J).
  destruct RFs as (R1 & R2 & _ & R4 & R5).
  unfold tgt_old in J1. destruct (a_tgt a); [|discriminate]. unfold tmp_none in J0. destruct (a_tmp a); [|discriminate].
  intro q. destruct (str_eqb q (e_target E)) eqn:E1; [apply str_eqb_eq in E1; subst; exact R1|].
  destruct (str_eqb q (e_tmp E)) eqn:E2; [apply str_eqb_eq in E2; subst; rewrite R2; symmetry; apply (we_tmp_fresh _ _ W)|].
  destruct (in_dec (list_eq_dec N.eq_dec) q (e_chain E)) as [Hi|Hn]; [exact (R5 J q Hi)|].
  apply R4; [intro; subst; rewrite str_eqb_refl in E1; discriminate|intro; subst; rewrite str_eqb_refl in E2; discriminate|exact Hn].
Qed.

(* ---- the full statements that are FALSE of the faithful model, with witnesses --------------------------- *)
From Coq Require Import Strings.String.
Definition t_target := lit "/d/f.oct.md".
Definition t_tmp := lit "/d/tmpX.tmp".
Definition t_parent := lit "/d".
Definition Hid (s : str) : str := s.
Definition mkenv (faults : nat -> fault) : env :=
  Build_env t_target t_parent [t_parent] t_tmp None (fun _ => Some (lit "NEW")) false 0 faults (fun _ => 1%nat).
Definition fs_existing : fs := [(t_parent, Dir); (t_target, File (lit "OLD") 420)].
Definition fs_noparent : fs := [].

(* (a) the write fails AND the cleanup unlink fails: status=error but the temp file stays *)
Definition error_no_temp_full : Prop := forall H E p s0, wf_env E s0 -> is_error (snd (run H E p s0)) = true ->
  lookup (e_tmp E) (fsys (fst (run H E p s0))) = None.
Definition faults_a (k : nat) : fault :=
  match k with 12%nat => FFail ENOSPC | 15%nat => FFail EIO | _ => FOk end.
Lemma error_no_temp_refuted : exists H E p s0, wf_env E s0 /\ is_error (snd (run H E p s0)) = true /\
  lookup (e_tmp E) (fsys (fst (run H E p s0))) <> None.
Proof.
  exists Hid, (mkenv faults_a), (PExecute MContent), fs_existing. split; [|split].
  - constructor; vm_compute; try discriminate; try reflexivity; intuition discriminate.
  - vm_compute. reflexivity.
  - vm_compute. discriminate.
Qed.
(* (a') same through the swallowed failure of os.path.exists(temp_path) *)
Definition faults_a' (k : nat) : fault :=
  match k with 12%nat => FFail ENOSPC | 14%nat => FFail EIO | _ => FOk end.
Lemma error_no_temp_refuted_exists : exists H E p s0, wf_env E s0 /\ is_error (snd (run H E p s0)) = true /\
  lookup (e_tmp E) (fsys (fst (run H E p s0))) <> None.
Proof.
  exists Hid, (mkenv faults_a'), (PExecute MContent), fs_existing. split; [|split].
  - constructor; vm_compute; try discriminate; try reflexivity; intuition discriminate.
  - vm_compute. reflexivity.
  - vm_compute. discriminate.
Qed.

(* (b) an error after mkdir(parents=True) leaves the new directories *)
Definition error_no_residue_full : Prop := forall H E p s0, wf_env E s0 -> is_error (snd (run H E p s0)) = true ->
  forall q, In q (e_chain E) -> lookup q (fsys (fst (run H E p s0))) = lookup q s0.
Definition faults_b (k : nat) : fault := match k with 4%nat => FFail ENOSPC | _ => FOk end.
Lemma error_no_residue_refuted : exists H E p s0, wf_env E s0 /\ is_error (snd (run H E p s0)) = true /\
  exists q, In q (e_chain E) /\ lookup q (fsys (fst (run H E p s0))) <> lookup q s0.
Proof.
  exists Hid, (mkenv faults_b), (PExecute MContent), fs_noparent. split; [|split].
  - constructor; vm_compute; try discriminate; try reflexivity; intuition discriminate.
  - vm_compute. reflexivity.
  - exists t_parent. split; [left; reflexivity|vm_compute; discriminate].
Qed.

(* the hypotheses are satisfiable on a non-trivial value: a fault-free overwrite succeeds and installs NEW *)
Example success_nonvacuous :
  snd (run Hid (mkenv (fun _ => FOk)) (PExecute MContent) fs_existing) = Success (lit "NEW") /\
  lookup t_target (fsys (fst (run Hid (mkenv (fun _ => FOk)) (PExecute MContent) fs_existing))) = Some (File (lit "NEW") 420).
Proof. vm_compute. split; reflexivity. Qed.
