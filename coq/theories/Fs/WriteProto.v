(* Executable semantics of write protocols over Fs.v, with a fault assignment:
     run : env (paths, inputs, faults : op instance -> ok | fail errno | crash, oracles) -> fs -> outcome
   The protocols themselves are GENERATED (Gen/WriteGen.v): wt_write_block, fo_atomic_write.  The part of
   WriteTool.execute before the WRITE FILE block (validation, first read, CAS guard, pipeline) is written
   here by hand per mode and PINNED against the translator's ordered call-site/guard list (pin_pre_sites). *)
From OV Require Import Base.Strs Fs.Fs Fs.ProtoSyntax Gen.WriteGen.
Open Scope N_scope.

Inductive fault := FOk | FFail (e : errno) | FCrash.
Inductive wmode := MContent | MChanges | MNormalize.

Record env := {
  e_target : str; e_parent : str; e_chain : list str; e_tmp : str;
  e_base : option str;                  (* base_hash; None also stands for a falsy (empty) one *)
  e_pipe : option str -> option str;    (* ORACLE: canonical text the parse/emit pipeline yields for the baseline read *)
  e_dry : bool;
  e_nval : nat;                         (* ORACLE: number of lstat/readlink calls of path validation *)
  e_faults : nat -> fault;
  e_orc : nat -> nat;                   (* ORACLE: size of the partial effect left by op instance k *)
}.

Record pst := {
  fsys : fs; kctr : nat; tr : list N;
  tmpb : bool; omode : option N; buf : bool; ver : option str; existed : bool;
  bl : option str; cont : option str; ulfail : bool;
}.
Definition st_fs (f : fs -> fs) (s : pst) : pst :=
  Build_pst (f (fsys s)) (kctr s) (tr s) (tmpb s) (omode s) (buf s) (ver s) (existed s) (bl s) (cont s) (ulfail s).
Definition st_tick (tag : N) (s : pst) : pst :=
  Build_pst (fsys s) (S (kctr s)) (tag :: tr s) (tmpb s) (omode s) (buf s) (ver s) (existed s) (bl s) (cont s) (ulfail s).
Definition st_tmpb (b : bool) (s : pst) : pst :=
  Build_pst (fsys s) (kctr s) (tr s) b (omode s) (buf s) (ver s) (existed s) (bl s) (cont s) (ulfail s).
Definition st_omode (m : option N) (s : pst) : pst :=
  Build_pst (fsys s) (kctr s) (tr s) (tmpb s) m (buf s) (ver s) (existed s) (bl s) (cont s) (ulfail s).
Definition st_buf (b : bool) (s : pst) : pst :=
  Build_pst (fsys s) (kctr s) (tr s) (tmpb s) (omode s) b (ver s) (existed s) (bl s) (cont s) (ulfail s).
Definition st_ver (v : option str) (s : pst) : pst :=
  Build_pst (fsys s) (kctr s) (tr s) (tmpb s) (omode s) (buf s) v (existed s) (bl s) (cont s) (ulfail s).
Definition st_existed (b : bool) (s : pst) : pst :=
  Build_pst (fsys s) (kctr s) (tr s) (tmpb s) (omode s) (buf s) (ver s) b (bl s) (cont s) (ulfail s).
Definition st_bl (v : option str) (s : pst) : pst :=
  Build_pst (fsys s) (kctr s) (tr s) (tmpb s) (omode s) (buf s) (ver s) (existed s) v (cont s) (ulfail s).
Definition st_cont (v : option str) (s : pst) : pst :=
  Build_pst (fsys s) (kctr s) (tr s) (tmpb s) (omode s) (buf s) (ver s) (existed s) (bl s) v (ulfail s).
Definition st_ulfail (s : pst) : pst :=
  Build_pst (fsys s) (kctr s) (tr s) (tmpb s) (omode s) (buf s) (ver s) (existed s) (bl s) (cont s) true.

Definition init_pst (s : fs) : pst := Build_pst s 0 [] false None false None false None None false.

Inductive res := RNorm | RExn (e : errno) | RRet (r : ret) | RCrash.

Section Exec.
Variable H : str -> str.      (* ORACLE: SHA-256 hex digest *)
Variable E : env.

Definition hash_ne (v : option str) : bool :=
  match e_base E with
  | None => true
  | Some b => negb (str_eqb (H (match v with Some d => d | None => [] end)) b)
  end.
Definition wpath (w : which) : str := match w with WTarget => e_target E | WTemp => e_tmp E end.
Definition the_text (s : pst) : str := match cont s with Some c => c | None => [] end.

(* effect of a call that completes *)
Definition op_ok (o : op) (k : nat) (s : pst) : pst * res :=
  match o with
  | OExistsCapture => (st_existed (fs_exists (e_target E) (fsys s)) s, RNorm)
  | OMkdirParents =>
      let s' := st_fs (fs_mkdirs (e_chain E)) s in
      if fs_is_dir (e_parent E) (fsys s') then (s', RNorm) else (s', RExn ENOTDIR)
  | OStatMode => match fs_stat_mode (e_target E) (fsys s) with
                 | Some m => (st_omode (Some m) s, RNorm) | None => (s, RExn ENOENT) end
  | OMkstemp => if fs_is_dir (e_parent E) (fsys s)
                then (st_tmpb true (st_fs (fs_mkstemp (e_tmp E)) s), RNorm) else (s, RExn ENOENT)
  | OFchmod => match omode s with
               | Some m => (st_fs (fs_chmod (e_tmp E) m) s, RNorm) | None => (s, RExn EOTHER) end
  | OFdopen => (s, RNorm)
  | OWrite => match cont s with
              | Some c => (st_buf true (st_fs (fs_setdata (e_tmp E) (firstn (e_orc E k) c)) s), RNorm)
              | None => (s, RExn EOTHER) end
  | OFlush => (if buf s then st_fs (fs_setdata (e_tmp E) (the_text s)) s else s, RNorm)
  | OFsync => (s, RNorm)
  | OClose => (if buf s then st_fs (fs_setdata (e_tmp E) (the_text s)) s else s, RNorm)
  | OOpenRead => match fs_read (e_target E) (fsys s) with Some _ => (s, RNorm) | None => (s, RExn ENOENT) end
  | OReadBaseline => match fs_read (e_target E) (fsys s) with
                     | Some d => (st_bl (Some d) s, RNorm) | None => (s, RExn ENOENT) end
  | OReadVerify => match fs_read (e_target E) (fsys s) with
                   | Some d => (st_ver (Some d) s, RNorm) | None => (s, RExn ENOENT) end
  | OCloseRead => (s, RNorm)
  | OUnlinkTemp => match fs_unlink (e_tmp E) (fsys s) with
                   | Some f' => (st_fs (fun _ => f') s, RNorm) | None => (s, RExn ENOENT) end
  | OReplace => match fs_replace (e_tmp E) (e_target E) (fsys s) with
                | Some f' => (st_fs (fun _ => f') s, RNorm) | None => (s, RExn ENOENT) end
  end.

(* what a call that fails, or during which the process is killed, may leave behind: ANY PREFIX of the
   data for write/flush/close, any prefix of the directory chain for mkdir(parents); nothing for the others *)
Definition op_part (o : op) (k : nat) (s : pst) : pst :=
  match o with
  | OMkdirParents => st_fs (fs_mkdirs (firstn (e_orc E k) (e_chain E))) s
  | OWrite => st_buf false (st_fs (fs_setdata (e_tmp E) (firstn (e_orc E k) (the_text s))) s)
  | OFlush | OClose => if buf s then st_fs (fs_setdata (e_tmp E) (firstn (e_orc E k) (the_text s))) s else s
  | OUnlinkTemp => st_ulfail s
  | _ => s
  end.

Definition exec_op (o : op) (s : pst) : pst * res :=
  let k := kctr s in
  let s1 := st_tick (op_tag o) s in
  match e_faults E k with
  | FOk => op_ok o k s1
  | FFail e => (op_part o k s1, RExn e)
  | FCrash => (op_part o k s1, RCrash)
  end.

(* conditions: value, or the exception / crash raised while evaluating *)
Fixpoint eval_cond (c : cond) (s : pst) : pst * res * bool :=
  match c with
  | CPathExists w =>
      let s1 := st_tick (tag_path_exists w) s in
      match e_faults E (kctr s) with
      | FOk => (s1, RNorm, fs_exists (wpath w) (fsys s))
      | FFail e => (s1, RExn e, false)
      | FCrash => (s1, RCrash, false)
      end
  | COsPathExists w =>
      let s1 := st_tick (tag_ospath_exists w) s in
      match e_faults E (kctr s) with
      | FOk => (s1, RNorm, fs_exists (wpath w) (fsys s))
      | FFail e => (match w with WTemp => st_ulfail s1 | WTarget => s1 end, RNorm, false)   (* swallowed *)
      | FCrash => (s1, RCrash, false)
      end
  | CIsSymlink w =>
      let s1 := st_tick (tag_is_symlink w) s in
      match e_faults E (kctr s) with
      | FOk => (s1, RNorm, false)
      | FFail e => (s1, RExn e, false)
      | FCrash => (s1, RCrash, false)
      end
  | CBase => (s, RNorm, match e_base E with Some _ => true | None => false end)
  | CFileExisted => (s, RNorm, existed s)
  | CModeKnown => (s, RNorm, match omode s with Some _ => true | None => false end)
  | CBaselineNe => (s, RNorm, hash_ne (bl s))
  | CVerifyNe => (s, RNorm, hash_ne (ver s))
  | CPipeFail => (s, RNorm, match cont s with Some _ => false | None => true end)
  | CDry => (s, RNorm, e_dry E)
  | CNot a => let '(s1, r, b) := eval_cond a s in (s1, r, negb b)
  | CAnd a b =>
      let '(s1, r, v) := eval_cond a s in
      match r with
      | RNorm => if v then eval_cond b s1 else (s1, RNorm, false)
      | _ => (s1, r, false)
      end
  end.

Fixpoint exec_validate (n : nat) (s : pst) : pst * res :=
  match n with
  | O => (s, RNorm)
  | S n' =>
      let s1 := st_tick tag_validate s in
      match e_faults E (kctr s) with
      | FOk => exec_validate n' s1
      | FFail _ => exec_validate n' s1     (* swallowed: realpath(strict=False) ignores a failing lstat, Path.resolve ignores a
                                              failing stat unless ELOOP (not injected) -- observed on CPython 3.12 *)
      | FCrash => (s1, RCrash)
      end
  end.

Definition with_ops (k : wkind) : op * op :=
  match k with WFdopen => (OFdopen, OClose) | WOpenRead => (OOpenRead, OCloseRead) end.

(* cur = the exception being handled (for a bare `raise`) *)
Fixpoint exec (p : stmt) (cur : errno) (s : pst) : pst * res :=
  match p with
  | SSkip => (s, RNorm)
  | SOp o => exec_op o s
  | SPure PBaselineEmpty => (st_bl (Some []) s, RNorm)
  | SPure PPipe => (st_cont (e_pipe E (bl s)) s, RNorm)
  | SValidate => exec_validate (e_nval E) s
  | SSeq a b => let '(s1, r) := exec a cur s in
                match r with RNorm => exec b cur s1 | _ => (s1, r) end
  | SIf c a b => let '(s1, r, v) := eval_cond c s in
                 match r with RNorm => if v then exec a cur s1 else exec b cur s1 | _ => (s1, r) end
  | STry body hp he =>
      let '(s1, r) := exec body cur s in
      match r with
      | RExn e =>
          match hp with
          | Some h => if is_perm e then exec h e s1
                      else match he with Some h' => exec h' e s1 | None => (s1, r) end
          | None => match he with Some h' => exec h' e s1 | None => (s1, r) end
          end
      | _ => (s1, r)
      end
  | SWith k body =>
      let '(s1, r1) := exec_op (fst (with_ops k)) s in
      match r1 with
      | RNorm =>
          let '(s2, r2) := exec body cur s1 in
          match r2 with
          | RCrash => (s2, RCrash)
          | _ => let '(s3, r3) := exec_op (snd (with_ops k)) s2 in
                 match r3 with RNorm => (s3, r2) | _ => (s3, r3) end
          end
      | _ => (s1, r1)
      end
  | SRaise => (s, RExn cur)
  | SReturn r => (s, RRet r)
  end.

End Exec.

(* ---- WriteTool.execute before the WRITE FILE block, per mode (hand transcription, pinned below) ------- *)
Definition read_baseline : stmt := SWith WOpenRead (SOp OReadBaseline).
Definition cas_guard_existing : stmt := SIf CBase (SIf CBaselineNe (SReturn (RetErr E_HASH)) SSkip) SSkip.
(* the CONTENT MODE branch up to its CAS guard: baseline for the diff (a failing read is swallowed -> "") *)
Definition content_baseline : stmt :=
  SSeq (SIf CFileExisted (STry read_baseline None (Some (SPure PBaselineEmpty))) SSkip)
       (SIf (CAnd CBase CFileExisted) (SIf CBaselineNe (SReturn (RetErr E_HASH)) SSkip) SSkip).
Definition pre_execute (m : wmode) : stmt :=
  SSeq SValidate
 (SSeq (SOp OExistsCapture)
 (SSeq (match m with
        | MContent => SSeq content_baseline (SPure PPipe)
        | MChanges =>
            SSeq (SIf (CNot CFileExisted) (SReturn (RetErr E_FILE)) SSkip)
           (SSeq (STry read_baseline None (Some (SReturn (RetErr E_READ))))
           (SSeq cas_guard_existing (SPure PPipe)))
        | MNormalize =>
            (* `if normalize_mode:` reads the file, guards, sets content := what was read (the text the pipeline
               will canonicalise: PPipe here), and then control FALLS INTO the content-mode branch (`if changes is
               not None: .. else: ..`), which reads the file a second time and guards again *)
            SSeq (SIf (CNot CFileExisted) (SReturn (RetErr E_FILE)) SSkip)
           (SSeq (STry read_baseline None (Some (SReturn (RetErr E_READ))))
           (SSeq cas_guard_existing
           (SSeq (SPure PPipe) content_baseline)))
        end)
       (SIf CPipeFail (SReturn (RetErr E_PIPE)) SSkip))).

Definition proto_execute (m : wmode) : stmt :=
  SSeq (pre_execute m)
 (SSeq (SIf CDry (SReturn RetOk) SSkip)
 (SSeq wt_write_block (SReturn RetOk))).

(* atomic_write_octave / CLI: the text is an argument, there is no dry run *)
Definition proto_atomic : stmt := SSeq (SPure PPipe) fo_atomic_write.

Inductive proto_id := PExecute (m : wmode) | PAtomic.
Definition proto_of (p : proto_id) : stmt := match p with PExecute m => proto_execute m | PAtomic => proto_atomic end.

Inductive outcome := Success (h : str) | Error (c : ecode) | Raised (e : errno) | Crashed.

Definition run (H : str -> str) (E : env) (p : proto_id) (s0 : fs) : pst * outcome :=
  let '(s, r) := exec H E (proto_of p) EOTHER (init_pst s0) in
  (s, match r with
      | RNorm => Error E_WRITE            (* unreachable: every protocol ends in a return *)
      | RExn e => Raised e
      | RRet RetOk => Success (H (match cont s with Some c => c | None => [] end))
      | RRet (RetErr c) => Error c
      | RCrash => Crashed
      end).

(* ---- pins: the hand transcription of the pre-phase matches the source's call sites and guards --------- *)
From Coq Require Import Strings.String.
Lemma pin_pre_sites : wt_pre_sites =
  [ lit "call|self._validate_path(target_path)|none";
    lit "if|content is not None and changes is not None";
    lit "endif|content is not None and changes is not None";
    lit "call|path_obj.exists()|none";
    (* normalize: its own read + guard, no return on the success path ... *)
    lit "if|normalize_mode";
    lit "if|not file_exists";
    lit "endif|not file_exists";
    lit "call|open(target_path, encoding='utf-8')|Exception:return";
    lit "call|f.read()|Exception:return";
    lit "if|base_hash";
    lit "if|current_hash != base_hash";
    lit "endif|current_hash != base_hash";
    lit "endif|base_hash";
    lit "endif|normalize_mode";
    (* changes *)
    lit "if|changes is not None";
    lit "if|not file_exists";
    lit "endif|not file_exists";
    lit "call|open(target_path, encoding='utf-8')|Exception:return";
    lit "call|f.read()|Exception:return";
    lit "if|base_hash";
    lit "if|current_hash != base_hash";
    lit "endif|current_hash != base_hash";
    lit "endif|base_hash";
    (* ... content, which is the ELSE of `changes is not None`: normalize mode runs it too (second read) *)
    lit "else|changes is not None";
    lit "if|file_exists";
    lit "call|open(target_path, encoding='utf-8')|Exception:swallow";
    lit "call|f.read()|Exception:swallow";
    lit "endif|file_exists";
    lit "if|base_hash and file_exists";
    lit "if|current_hash != base_hash";
    lit "endif|current_hash != base_hash";
    lit "endif|base_hash and file_exists";
    lit "if|not normalize_mode and doc.raw_frontmatter is None and file_exists and baseline_content_for_diff";
    lit "endif|not normalize_mode and doc.raw_frontmatter is None and file_exists and baseline_content_for_diff";
    lit "endif|changes is not None";
    lit "if|normalize_mode";
    lit "endif|normalize_mode" ].
Proof. vm_compute. reflexivity. Qed.

Lemma pin_dry_guard : wt_dry_guard_before_block = true.
Proof. reflexivity. Qed.
(* execute() has no await: two calls on one event loop cannot interleave (used by serial_at_most_one) *)
Lemma pin_no_await : wt_execute_has_await = false.
Proof. reflexivity. Qed.
(* the CLI `write` command touches the file system only through these calls; the only mutating one is
   atomic_write_octave *)
Lemma pin_cli_sites : cli_write_sites =
  [ lit "call|validate_octave_path(file)|none";
    lit "call|target_path.exists()|SystemExit:raise,json_module.JSONDecodeError:raise,Exception:raise";
    lit "call|target_path.read_text(encoding='utf-8')|SystemExit:raise,json_module.JSONDecodeError:raise,Exception:raise";
    lit "call|atomic_write_octave(file, canonical_content, base_hash)|SystemExit:raise,json_module.JSONDecodeError:raise,Exception:raise" ].
Proof. vm_compute. reflexivity. Qed.
