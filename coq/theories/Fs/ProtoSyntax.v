(* Syntax of write protocols: what the translator (harness/translate/write_t.py) emits for the WRITE FILE
   block of WriteTool.execute and for atomic_write_octave: the ordered file-system calls with the
   enclosing if / try-except / with / return / raise structure. *)
From OV Require Import Base.Strs.
Open Scope N_scope.

Inductive which := WTarget | WTemp.

(* file-system calls that are statements *)
Inductive op :=
  | OExistsCapture    (* file_exists = path_obj.exists()        (not inside a try) *)
  | OMkdirParents     (* path_obj.parent.mkdir(parents=True, exist_ok=True) *)
  | OStatMode         (* original_mode = os.stat(target).st_mode & 0o777 *)
  | OMkstemp          (* fd, temp_path = tempfile.mkstemp(dir=parent, suffix=".tmp", text=True) *)
  | OFchmod           (* os.fchmod(fd, original_mode) *)
  | OFdopen           (* os.fdopen(fd, "w")   (enter of the with) *)
  | OWrite            (* f.write(content) *)
  | OFlush            (* f.flush() *)
  | OFsync            (* os.fsync(f.fileno()) *)
  | OClose            (* exit of `with os.fdopen` *)
  | OOpenRead         (* open(target) for reading (enter of the with) *)
  | OReadBaseline     (* baseline = f.read()      -- first read *)
  | OReadVerify       (* verify_content = f.read() -- re-read before replace *)
  | OCloseRead        (* exit of `with open(target)` *)
  | OUnlinkTemp       (* os.unlink(temp_path) *)
  | OReplace.         (* os.replace(temp_path, target_path) *)

Inductive cond :=
  | CPathExists (w : which)     (* Path.exists(): one stat; raises on errors other than ENOENT-class *)
  | COsPathExists (w : which)   (* os.path.exists(): one stat; any OSError is swallowed -> False *)
  | CIsSymlink (w : which)      (* Path.is_symlink(): one lstat; the model has no symlinks -> False *)
  | CBase                       (* base_hash is truthy *)
  | CFileExisted                (* the captured variable file_exists *)
  | CModeKnown                  (* original_mode is not None *)
  | CBaselineNe                 (* hash(first read) != base_hash *)
  | CVerifyNe                   (* hash(re-read)   != base_hash *)
  | CPipeFail                   (* the parse/emit pipeline produced no canonical text *)
  | CDry                        (* corrections_only *)
  | CNot (c : cond)
  | CAnd (a b : cond).

Inductive ecode := E_PATH | E_FILE | E_READ | E_HASH | E_PIPE | E_WRITE.
Inductive ret := RetOk | RetErr (c : ecode).

Inductive wkind := WFdopen | WOpenRead.   (* `with os.fdopen(fd,"w") as f` / `with open(target) as f` *)
Inductive pure := PBaselineEmpty | PPipe.  (* baseline = ""  /  canonical = pipeline(baseline) *)

Inductive stmt :=
  | SSkip
  | SOp (o : op)
  | SPure (p : pure)
  | SValidate                          (* _validate_path: e_nval lstat/readlink calls; any failure -> E_PATH *)
  | SSeq (a b : stmt)
  | SIf (c : cond) (a b : stmt)
  | STry (body : stmt) (hperm hexc : option stmt)   (* except PermissionError: .. / except Exception: .. *)
  | SWith (k : wkind) (body : stmt)
  | SRaise                             (* bare `raise` inside a handler *)
  | SReturn (r : ret).

Definition op_tag (o : op) : N :=
  match o with
  | OExistsCapture => 1 | OMkdirParents => 2 | OStatMode => 3 | OMkstemp => 4 | OFchmod => 5 | OFdopen => 6
  | OWrite => 7 | OFlush => 8 | OFsync => 9 | OClose => 10 | OOpenRead => 11 | OReadBaseline => 12
  | OReadVerify => 13 | OCloseRead => 14 | OUnlinkTemp => 15 | OReplace => 16
  end.
Definition which_tag (w : which) : N := match w with WTarget => 0 | WTemp => 1 end.
Definition tag_path_exists (w : which) : N := 20 + which_tag w.
Definition tag_ospath_exists (w : which) : N := 22 + which_tag w.
Definition tag_is_symlink (w : which) : N := 24 + which_tag w.
Definition tag_validate : N := 30.

(* mutating calls (the trace correspondence and dryrun_pure are about these) *)
Definition op_mutates (o : op) : bool :=
  match o with
  | OMkdirParents | OMkstemp | OFchmod | OWrite | OFlush | OClose | OUnlinkTemp | OReplace => true
  | _ => false
  end.
