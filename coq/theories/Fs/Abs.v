(* Abstract interpretation of write protocols.  The abstract state keeps, relative to the initial file
   system and the text being written, only: is the target still OLD or already the complete NEW file;
   is there a temp file, is it complete, has it the final mode; may directories have been created; the
   protocol's variables.  Every op is executed for EVERY allowed fault kind (ok / PermissionError /
   other OSError / crash), so `aexec p a` lists an abstract outcome for every fault assignment of any
   size.  Anything the abstraction cannot track precisely (e.g. a replace from an incomplete temp) goes
   to TOP, and every check rejects TOP.  Soundness (aexec_sound): the concrete `exec` under any fault
   assignment lands in one of the listed outcomes -- by induction over the protocol syntax, with one
   simulation lemma per op (the invariant `Rc` is preserved by every op).  The generated protocol is
   then checked by computation over the finitely many abstract scenarios. *)
From OV Require Import Base.Strs Fs.Fs Fs.ProtoSyntax Fs.WriteProto.
Open Scope N_scope.

Inductive atgt := TOld | TNew.
Inductive atmp := MNone | MFile (full mok : bool).
Inductive aom := OmNone | OmOld.
Inductive aval := VNone | VOld | VEmpty | VNew.
Inductive afault := AFOk | AFPerm | AFOther | AFCrash.
Inductive ares := ARNorm | ARExn (perm : bool) | ARRet (r : ret) | ARCrash.

Record aenv := { x_ex0 : bool; x_par0 : bool; x_base : bool; x_m0 : bool; x_dry : bool; x_allowed : list afault }.

Record ast := {
  a_top : bool;
  a_tgt : atgt; a_tmp : atmp; a_par : bool; a_dirs : bool;
  a_tmpb : bool; a_om : aom; a_buf : bool; a_ver : aval; a_existed : bool; a_bl : aval;
  a_cont : bool; a_piped : option aval; a_ulfail : bool;
}.
Definition a_init (X : aenv) : ast :=
  Build_ast false TOld MNone (x_par0 X) false false OmNone false VNone false VNone false None false.

Definition up_top (a : ast) : ast :=
  Build_ast true (a_tgt a) (a_tmp a) (a_par a) (a_dirs a) (a_tmpb a) (a_om a) (a_buf a) (a_ver a) (a_existed a) (a_bl a) (a_cont a) (a_piped a) (a_ulfail a).
Definition up_tgt v (a : ast) : ast :=
  Build_ast (a_top a) v (a_tmp a) (a_par a) (a_dirs a) (a_tmpb a) (a_om a) (a_buf a) (a_ver a) (a_existed a) (a_bl a) (a_cont a) (a_piped a) (a_ulfail a).
Definition up_tmp v (a : ast) : ast :=
  Build_ast (a_top a) (a_tgt a) v (a_par a) (a_dirs a) (a_tmpb a) (a_om a) (a_buf a) (a_ver a) (a_existed a) (a_bl a) (a_cont a) (a_piped a) (a_ulfail a).
Definition up_par v (a : ast) : ast :=
  Build_ast (a_top a) (a_tgt a) (a_tmp a) v (a_dirs a) (a_tmpb a) (a_om a) (a_buf a) (a_ver a) (a_existed a) (a_bl a) (a_cont a) (a_piped a) (a_ulfail a).
Definition up_dirs v (a : ast) : ast :=
  Build_ast (a_top a) (a_tgt a) (a_tmp a) (a_par a) v (a_tmpb a) (a_om a) (a_buf a) (a_ver a) (a_existed a) (a_bl a) (a_cont a) (a_piped a) (a_ulfail a).
Definition up_tmpb v (a : ast) : ast :=
  Build_ast (a_top a) (a_tgt a) (a_tmp a) (a_par a) (a_dirs a) v (a_om a) (a_buf a) (a_ver a) (a_existed a) (a_bl a) (a_cont a) (a_piped a) (a_ulfail a).
Definition up_om v (a : ast) : ast :=
  Build_ast (a_top a) (a_tgt a) (a_tmp a) (a_par a) (a_dirs a) (a_tmpb a) v (a_buf a) (a_ver a) (a_existed a) (a_bl a) (a_cont a) (a_piped a) (a_ulfail a).
Definition up_buf v (a : ast) : ast :=
  Build_ast (a_top a) (a_tgt a) (a_tmp a) (a_par a) (a_dirs a) (a_tmpb a) (a_om a) v (a_ver a) (a_existed a) (a_bl a) (a_cont a) (a_piped a) (a_ulfail a).
Definition up_ver v (a : ast) : ast :=
  Build_ast (a_top a) (a_tgt a) (a_tmp a) (a_par a) (a_dirs a) (a_tmpb a) (a_om a) (a_buf a) v (a_existed a) (a_bl a) (a_cont a) (a_piped a) (a_ulfail a).
Definition up_existed v (a : ast) : ast :=
  Build_ast (a_top a) (a_tgt a) (a_tmp a) (a_par a) (a_dirs a) (a_tmpb a) (a_om a) (a_buf a) (a_ver a) v (a_bl a) (a_cont a) (a_piped a) (a_ulfail a).
Definition up_bl v (a : ast) : ast :=
  Build_ast (a_top a) (a_tgt a) (a_tmp a) (a_par a) (a_dirs a) (a_tmpb a) (a_om a) (a_buf a) (a_ver a) (a_existed a) v (a_cont a) (a_piped a) (a_ulfail a).
Definition up_cont c p (a : ast) : ast :=
  Build_ast (a_top a) (a_tgt a) (a_tmp a) (a_par a) (a_dirs a) (a_tmpb a) (a_om a) (a_buf a) (a_ver a) (a_existed a) (a_bl a) c p (a_ulfail a).
Definition up_ulfail (a : ast) : ast :=
  Build_ast (a_top a) (a_tgt a) (a_tmp a) (a_par a) (a_dirs a) (a_tmpb a) (a_om a) (a_buf a) (a_ver a) (a_existed a) (a_bl a) (a_cont a) (a_piped a) true.

Section AExec.
Variable X : aenv.

Definition tgt_exists (a : ast) : bool := match a_tgt a with TOld => x_ex0 X | TNew => true end.
Definition tmp_exists (a : ast) : bool := match a_tmp a with MNone => false | MFile _ _ => true end.
Definition tmp_part (a : ast) : ast := match a_tmp a with MNone => a | MFile _ mok => up_tmp (MFile false mok) a end.
Definition tmp_full (a : ast) : ast :=
  match a_tmp a with MNone => a | MFile _ mok => if a_cont a then up_tmp (MFile true mok) a else up_top a end.
Definition read_val (a : ast) : option aval :=
  match a_tgt a with TOld => if x_ex0 X then Some VOld else None | TNew => Some VNew end.

Definition nx := ARExn false.   (* a "natural" failure: ENOENT / ENOTDIR / TypeError -- never PermissionError *)

(* the call completes *)
Definition aop_ok (o : op) (a : ast) : list (ast * ares) :=
  match o with
  | OExistsCapture => [(up_existed (tgt_exists a) a, ARNorm)]
  | OMkdirParents => if a_par a then [(a, ARNorm)]
                     else [(up_par true (up_dirs true a), ARNorm); (up_dirs true a, nx)]
  | OStatMode => match a_tgt a with
                 | TOld => if x_ex0 X then [(up_om OmOld a, ARNorm)] else [(a, nx)]
                 | TNew => [(up_top a, ARNorm)]
                 end
  | OMkstemp => let ok := (up_tmpb true (up_tmp (MFile false (negb (x_ex0 X))) a), ARNorm) in
                if a_par a then [ok] else [ok; (a, nx)]
  | OFchmod => match a_om a with
               | OmOld => [(match a_tmp a with MNone => a | MFile f _ => up_tmp (MFile f true) a end, ARNorm)]
               | OmNone => [(a, nx)]
               end
  | OFdopen | OFsync | OCloseRead => [(a, ARNorm)]
  | OWrite => if a_cont a then [(up_buf true (tmp_part a), ARNorm)] else [(a, nx)]
  | OFlush | OClose => [(if a_buf a then tmp_full a else a, ARNorm)]
  | OOpenRead => if tgt_exists a then [(a, ARNorm)] else [(a, nx)]
  | OReadBaseline => match read_val a with
                     | Some VNew => [(up_top a, ARNorm)]
                     | Some v => [(up_bl v a, ARNorm)]
                     | None => [(a, nx)] end
  | OReadVerify => match read_val a with Some v => [(up_ver v a, ARNorm)] | None => [(a, nx)] end
  | OUnlinkTemp => match a_tmp a with MNone => [(a, nx)] | MFile _ _ => [(up_tmp MNone a, ARNorm)] end
  | OReplace => match a_tmp a with
                | MNone => [(a, nx)]
                | MFile true true => [(up_tgt TNew (up_tmp MNone a), ARNorm)]
                | MFile _ _ => [(up_top a, ARNorm)]      (* incomplete or wrong-mode temp installed *)
                end
  end.
Definition aop_part (o : op) (a : ast) : ast :=
  match o with
  | OMkdirParents => if a_par a then a else up_dirs true a
  | OWrite => up_buf false (tmp_part a)
  | OFlush | OClose => if a_buf a then tmp_part a else a
  | OUnlinkTemp => up_ulfail a
  | _ => a
  end.
Definition aop_f (o : op) (f : afault) (a : ast) : list (ast * ares) :=
  match f with
  | AFOk => aop_ok o a
  | AFPerm => [(aop_part o a, ARExn true)]
  | AFOther => [(aop_part o a, ARExn false)]
  | AFCrash => [(aop_part o a, ARCrash)]
  end.
Definition aexec_op (o : op) (a : ast) : list (ast * ares) :=
  if a_top a then [(a, ARNorm)] else flat_map (fun f => aop_f o f a) (x_allowed X).

Definition hash_vals (v : aval) : list bool :=
  if x_base X then match v with VOld => [negb (x_m0 X)] | _ => [true; false] end else [true].

Definition stat_like (val : bool) (swallow : bool) (onswallow : ast -> ast) (a : ast) (f : afault) : list (ast * ares * bool) :=
  match f with
  | AFOk => [(a, ARNorm, val)]
  | AFPerm => if swallow then [(onswallow a, ARNorm, false)] else [(a, ARExn true, false)]
  | AFOther => if swallow then [(onswallow a, ARNorm, false)] else [(a, ARExn false, false)]
  | AFCrash => [(a, ARCrash, false)]
  end.

Fixpoint aeval (c : cond) (a : ast) : list (ast * ares * bool) :=
  if a_top a then [(a, ARNorm, false)] else
  match c with
  | CPathExists w =>
      flat_map (stat_like (match w with WTarget => tgt_exists a | WTemp => tmp_exists a end) false (fun x => x) a) (x_allowed X)
  | COsPathExists w =>
      flat_map (stat_like (match w with WTarget => tgt_exists a | WTemp => tmp_exists a end) true
                  (match w with WTemp => up_ulfail | WTarget => fun x => x end) a) (x_allowed X)
  | CIsSymlink w => flat_map (stat_like false false (fun x => x) a) (x_allowed X)
  | CBase => [(a, ARNorm, x_base X)]
  | CFileExisted => [(a, ARNorm, a_existed a)]
  | CModeKnown => [(a, ARNorm, match a_om a with OmOld => true | OmNone => false end)]
  | CBaselineNe => map (fun b => (a, ARNorm, b)) (hash_vals (a_bl a))
  | CVerifyNe => map (fun b => (a, ARNorm, b)) (hash_vals (a_ver a))
  | CPipeFail => [(a, ARNorm, negb (a_cont a))]
  | CDry => [(a, ARNorm, x_dry X)]
  | CNot c1 => map (fun t : ast * ares * bool => match t with (a1, r, b) => (a1, r, negb b) end) (aeval c1 a)
  | CAnd c1 c2 =>
      flat_map (fun t : ast * ares * bool => match t with
                         | (a1, ARNorm, true) => aeval c2 a1
                         | (a1, ARNorm, false) => [(a1, ARNorm, false)]
                         | (a1, r, _) => [(a1, r, false)]
                         end) (aeval c1 a)
  end.

Definition awith_ops := with_ops.

Fixpoint aexec (p : stmt) (cur : bool) (a : ast) : list (ast * ares) :=
  if a_top a then [(a, ARNorm)] else
  match p with
  | SSkip => [(a, ARNorm)]
  | SOp o => aexec_op o a
  | SPure PBaselineEmpty => [(up_bl VEmpty a, ARNorm)]
  | SPure PPipe =>
      (* the text is computed once, before anything was written *)
      match a_piped a, a_tgt a, a_tmp a, a_bl a, a_ver a with
      | None, TOld, MNone, VNew, _ => [(up_top a, ARNorm)]
      | None, TOld, MNone, _, VNew => [(up_top a, ARNorm)]
      | None, TOld, MNone, v, _ => [(up_cont true (Some v) a, ARNorm); (up_cont false (Some v) a, ARNorm)]
      | _, _, _, _, _ => [(up_top a, ARNorm)]
      end
  | SValidate =>
      (a, ARNorm) ::
      (if existsb (fun f => match f with AFPerm | AFOther => true | _ => false end) (x_allowed X) then [(a, ARRet (RetErr E_PATH))] else []) ++
      (if existsb (fun f => match f with AFCrash => true | _ => false end) (x_allowed X) then [(a, ARCrash)] else [])
  | SSeq p1 p2 =>
      flat_map (fun t : ast * ares => match t with (a1, ARNorm) => aexec p2 cur a1 | _ => [t] end) (aexec p1 cur a)
  | SIf c p1 p2 =>
      flat_map (fun t : ast * ares * bool => match t with
                         | (a1, ARNorm, v) => if v then aexec p1 cur a1 else aexec p2 cur a1
                         | (a1, r, _) => [(a1, r)]
                         end) (aeval c a)
  | STry body hp he =>
      flat_map (fun t : ast * ares => match t with
                         | (a1, ARExn perm) =>
                             match hp with
                             | Some h => if perm then aexec h perm a1
                                         else match he with Some h' => aexec h' perm a1 | None => [t] end
                             | None => match he with Some h' => aexec h' perm a1 | None => [t] end
                             end
                         | _ => [t]
                         end) (aexec body cur a)
  | SWith k body =>
      flat_map (fun t1 : ast * ares => match t1 with
        | (a1, ARNorm) =>
            flat_map (fun t2 : ast * ares => match t2 with
              | (a2, ARCrash) => [t2]
              | (a2, r2) => map (fun t3 : ast * ares => match t3 with (a3, ARNorm) => (a3, r2) | _ => t3 end)
                                (aexec_op (snd (with_ops k)) a2)
              end) (aexec body cur a1)
        | _ => [t1]
        end) (aexec_op (fst (with_ops k)) a)
  | SRaise => [(a, ARExn cur)]
  | SReturn r => [(a, ARRet r)]
  end.
End AExec.

(* ---- checks on abstract outcomes ----------------------------------------------------------------------- *)
(* ARNorm (falling off the end) never happens for a complete protocol; it is treated as an error so that the checks cover it *)
Definition is_err (r : ares) : bool := match r with ARRet (RetErr _) | ARExn _ | ARNorm => true | _ => false end.
Definition is_ok (r : ares) : bool := match r with ARRet RetOk => true | _ => false end.
Definition tgt_old (a : ast) : bool := match a_tgt a with TOld => true | TNew => false end.
Definition tmp_none (a : ast) : bool := match a_tmp a with MNone => true | _ => false end.

(* target is old or complete new, whatever happened (crash included) *)
Definition chk_atomic (t : ast * ares) : bool := negb (a_top (fst t)).
(* error (returned or raised): target old; and no temp unless the cleanup itself failed; and no new
   directories if the parent already existed *)
Definition chk_error (X : aenv) (t : ast * ares) : bool :=
  let (a, r) := t in
  negb (a_top a) &&
  (if is_err r then tgt_old a && (a_ulfail a || tmp_none a) && (negb (x_par0 X) || negb (a_dirs a)) else true).
(* success: a real (non-dry) success installed the complete new file and left no temp; a dry success
   (corrections_only; WriteTool.execute only) touched nothing *)
Definition chk_success (dry : bool) (t : ast * ares) : bool :=
  let (a, r) := t in
  negb (a_top a) &&
  (if is_ok r then a_cont a && (if dry then tgt_old a && tmp_none a && negb (a_dirs a)
                                else negb (tgt_old a) && tmp_none a) else true).
Definition dry_of (p : proto_id) (X : aenv) : bool := match p with PExecute _ => x_dry X | PAtomic => false end.
(* a dry call (corrections_only) leaves everything untouched whatever happens, faults and crashes included *)
Definition chk_dry (dry : bool) (t : ast * ares) : bool :=
  if dry then negb (a_top (fst t)) && tgt_old (fst t) && tmp_none (fst t) && negb (a_dirs (fst t)) else true.
Definition chk_all (p : proto_id) (X : aenv) (t : ast * ares) : bool :=
  chk_atomic t && chk_error X t && chk_success (dry_of p X) t && chk_dry (dry_of p X) t.

Definition all_faults : list afault := [AFOk; AFPerm; AFOther; AFCrash].
Definition bools := [true; false].
Definition all_aenv (allowed : list afault) : list aenv :=
  flat_map (fun e => flat_map (fun p => flat_map (fun b => flat_map (fun m => map (fun d =>
     Build_aenv e p b m d allowed) bools) bools) bools) bools) bools.
Definition all_protos : list proto_id := [PExecute MContent; PExecute MChanges; PExecute MNormalize; PAtomic].

Definition outcomes (X : aenv) (p : proto_id) : list (ast * ares) := aexec X (proto_of p) false (a_init X).

Definition check_protos : bool :=
  forallb (fun p => forallb (fun X => forallb (chk_all p X) (outcomes X p)) (all_aenv all_faults)) all_protos.
