(* Soundness of the abstract interpretation (Abs.v) for the concrete semantics (WriteProto.v):
   for EVERY fault assignment, oracle and initial file system, the concrete run ends in a state/result
   described by one of the abstract outcomes.  Invariant Rc = RF (file-system part) /\ RV (variables),
   preserved by every op (one lemma per op), then induction over the protocol syntax. *)
From OV Require Import Base.Strs Fs.Fs Fs.ProtoSyntax Fs.WriteProto Fs.Abs.
Open Scope N_scope.

Definition absf (f : fault) : afault :=
  match f with FOk => AFOk | FFail e => if is_perm e then AFPerm else AFOther | FCrash => AFCrash end.
Definition abs_res (r : res) : ares :=
  match r with RNorm => ARNorm | RExn e => ARExn (is_perm e) | RRet x => ARRet x | RCrash => ARCrash end.

Section Sound.
Variable H : str -> str.
Variable E : env.
Variable fs0 : fs.
Variable X : aenv.

Local Notation target := (e_target E).
Local Notation tmp := (e_tmp E).
Local Notation parent := (e_parent E).
Local Notation chain := (e_chain E).
Definition old := lookup (e_target E) fs0.
Definition olddata : str := match old with Some (File d _) => d | _ => [] end.
Definition fmode : N := match old with Some (File _ m) => m | _ => mode_0600 end.

Record wfX : Prop := {
  W1 : tmp <> target;
  W2 : ~ In target chain;
  W3 : ~ In tmp chain;
  W4 : lookup tmp fs0 = None;
  W5a : x_ex0 X = true -> exists d m, old = Some (File d m);
  W5b : x_ex0 X = false -> old = None;
  W6 : x_par0 X = true -> lookup parent fs0 = Some Dir /\ forall p, In p chain -> lookup p fs0 <> None;
  W7 : x_base X = match e_base E with Some _ => true | None => false end;
  W8 : x_base X = true -> x_m0 X = negb (hash_ne H E (Some olddata));
  W9 : x_dry X = e_dry E;
  W10 : forall k, In (absf (e_faults E k)) (x_allowed X);
}.
Hypothesis WF : wfX.

(* ---- the invariant ---------------------------------------------------------------------------------- *)
Definition RF (f : fs) (c : option str) (tg : atgt) (tm : atmp) (pa dr : bool) : Prop :=
  match tg with
  | TOld => lookup target f = old
  | TNew => exists d, c = Some d /\ lookup target f = Some (File d fmode)
  end /\
  match tm with
  | MNone => lookup tmp f = None
  | MFile full mok => exists d m, lookup tmp f = Some (File d m) /\ (full = true -> c = Some d) /\ (mok = true -> m = fmode)
  end /\
  (pa = true -> lookup parent f = Some Dir /\ forall p, In p chain -> lookup p f <> None) /\
  (forall p, p <> target -> p <> tmp -> ~ In p chain -> lookup p f = lookup p fs0) /\
  (dr = false -> forall p, In p chain -> lookup p f = lookup p fs0).

Definition den (v : aval) (c : option str) : option str :=
  match v with VNone => None | VOld => Some olddata | VEmpty => Some [] | VNew => c end.

Definition RV (tb : bool) (om : option N) (bf : bool) (vr : option str) (ex : bool) (b c : option str) (uf : bool)
              (a : ast) : Prop :=
  tb = a_tmpb a /\ bf = a_buf a /\ ex = a_existed a /\ uf = a_ulfail a /\
  match a_om a with OmNone => om = None | OmOld => exists d m, old = Some (File d m) /\ om = Some m end /\
  b = den (a_bl a) c /\ vr = den (a_ver a) c /\
  (a_cont a = true -> exists d, c = Some d) /\ (a_cont a = false -> c = None) /\
  match a_piped a with Some v => v <> VNew /\ c = e_pipe E (den v c) | None => c = None end.

Definition Rc (s : pst) (a : ast) : Prop :=
  RF (fsys s) (cont s) (a_tgt a) (a_tmp a) (a_par a) (a_dirs a) /\
  RV (tmpb s) (omode s) (buf s) (ver s) (existed s) (bl s) (cont s) (ulfail s) a.

Definition Sound (s' : pst) (r : res) (outs : list (ast * ares)) : Prop :=
  exists a' ar, In (a', ar) outs /\ (a_top a' = true \/ (Rc s' a' /\ ar = abs_res r)).

Lemma Rc_tick t s a : Rc s a -> Rc (st_tick t s) a.
Proof. intro R. exact R. Qed.

(* ---- file-system lemmas about RF --------------------------------------------------------------------- *)
Lemma tmp_ne_target : tmp <> target. Proof. exact (W1 WF). Qed.
Lemma target_ne_tmp : target <> tmp. Proof. intro e. apply (W1 WF). symmetry. exact e. Qed.

Lemma fmode_old d m : old = Some (File d m) -> fmode = m.
Proof. unfold fmode. intros ->. reflexivity. Qed.
Lemma fmode_new : old = None -> fmode = mode_0600.
Proof. unfold fmode. intros ->. reflexivity. Qed.

Lemma lookup_setdata_other t d f p : p <> t -> lookup p (fs_setdata t d f) = lookup p f.
Proof. intro Hn. unfold fs_setdata. destruct (lookup t f) as [[dd m|]|]; try reflexivity. apply lookup_set_other; exact Hn. Qed.
Lemma lookup_chmod_other t m f p : p <> t -> lookup p (fs_chmod t m f) = lookup p f.
Proof. intro Hn. unfold fs_chmod. destruct (lookup t f) as [[dd m'|]|]; try reflexivity. apply lookup_set_other; exact Hn. Qed.

Lemma in_chain_ne_tmp p : In p chain -> p <> tmp.
Proof. intros Hi e. subst. exact (W3 WF Hi). Qed.
Lemma in_chain_ne_target p : In p chain -> p <> target.
Proof. intros Hi e. subst. exact (W2 WF Hi). Qed.

(* a change of the temp entry only *)
Lemma RF_tmp_only f f' c tg tm tm' pa dr :
  (forall p, p <> tmp -> lookup p f' = lookup p f) ->
  match tm' with
  | MNone => lookup tmp f' = None
  | MFile full mok => exists d m, lookup tmp f' = Some (File d m) /\ (full = true -> c = Some d) /\ (mok = true -> m = fmode)
  end ->
  RF f c tg tm pa dr -> RF f' c tg tm' pa dr.
Proof.
  intros Hoth Htm (R1 & R2 & R3 & R4 & R5). unfold RF. split; [|split; [|split; [|split]]].
  - destruct tg; rewrite (Hoth _ target_ne_tmp); exact R1.
  - exact Htm.
  - intro Hpa. destruct (R3 Hpa) as [Hp Ha].
    assert (Hne : parent <> tmp).
    { intro e. rewrite e in Hp. destruct tm as [|fl mk]; [congruence|destruct R2 as (d & m & Hl & _); congruence]. }
    split; [rewrite Hoth by exact Hne; exact Hp|].
    intros p Hi. rewrite Hoth by (apply in_chain_ne_tmp; exact Hi). apply Ha; exact Hi.
  - intros p n1 n2 n3. rewrite Hoth by exact n2. apply R4; assumption.
  - intros Hd p Hi. rewrite Hoth by (apply in_chain_ne_tmp; exact Hi). apply R5; assumption.
Qed.

Definition part (tm : atmp) : atmp := match tm with MNone => MNone | MFile _ mk => MFile false mk end.
Definition fullt (tm : atmp) : atmp := match tm with MNone => MNone | MFile _ mk => MFile true mk end.

Lemma RF_setdata_part f c tg tm pa dr d : RF f c tg tm pa dr -> RF (fs_setdata tmp d f) c tg (part tm) pa dr.
Proof.
  intro R. eapply RF_tmp_only; [| |exact R].
  - intros p Hn. apply lookup_setdata_other; exact Hn.
  - destruct R as (_ & R2 & _). destruct tm as [|fl mk]; cbn.
    + unfold fs_setdata. rewrite R2. exact R2.
    + destruct R2 as (d0 & m & Hl & _ & Hm). exists d, m. unfold fs_setdata. rewrite Hl, lookup_set_same.
      split; [reflexivity|]. split; [discriminate|exact Hm].
Qed.
Lemma RF_setdata_full f c tg tm pa dr d : c = Some d -> RF f c tg tm pa dr -> RF (fs_setdata tmp d f) c tg (fullt tm) pa dr.
Proof.
  intros Hc R. eapply RF_tmp_only; [| |exact R].
  - intros p Hn. apply lookup_setdata_other; exact Hn.
  - destruct R as (_ & R2 & _). destruct tm as [|fl mk]; cbn.
    + unfold fs_setdata. rewrite R2. exact R2.
    + destruct R2 as (d0 & m & Hl & _ & Hm). exists d, m. unfold fs_setdata. rewrite Hl, lookup_set_same.
      split; [reflexivity|]. split; [intros _; exact Hc|exact Hm].
Qed.
Lemma RF_chmod f c tg tm pa dr : RF f c tg tm pa dr ->
  RF (fs_chmod tmp fmode f) c tg (match tm with MNone => MNone | MFile fl _ => MFile fl true end) pa dr.
Proof.
  intro R. eapply RF_tmp_only; [| |exact R].
  - intros p Hn. apply lookup_chmod_other; exact Hn.
  - destruct R as (_ & R2 & _). destruct tm as [|fl mk]; cbn.
    + unfold fs_chmod. rewrite R2. exact R2.
    + destruct R2 as (d0 & m & Hl & Hf & _). exists d0, fmode. unfold fs_chmod. rewrite Hl, lookup_set_same.
      split; [reflexivity|]. split; [exact Hf|reflexivity].
Qed.
Lemma RF_mkstemp f c tg tm pa dr : lookup parent f = Some Dir ->
  RF f c tg tm pa dr -> RF (fs_mkstemp tmp f) c tg (MFile false (negb (x_ex0 X))) pa dr.
Proof.
  intros Hpar R. eapply RF_tmp_only; [| |exact R].
  - intros p Hn. unfold fs_mkstemp. apply lookup_set_other; exact Hn.
  - exists [], mode_0600. unfold fs_mkstemp. rewrite lookup_set_same. split; [reflexivity|]. split; [discriminate|].
    intro Hx. apply negb_true_iff in Hx. symmetry. apply fmode_new. apply (W5b WF); exact Hx.
Qed.
Lemma RF_unlink f c tg fl mk pa dr : RF f c tg (MFile fl mk) pa dr ->
  exists f', fs_unlink tmp f = Some f' /\ RF f' c tg MNone pa dr.
Proof.
  intro R. pose proof R as (_ & (d & m & Hl & _) & _). exists (remove tmp f). split.
  - unfold fs_unlink. rewrite Hl. reflexivity.
  - eapply RF_tmp_only; [| |exact R].
    + intros p Hn. apply lookup_remove_other; exact Hn.
    + apply lookup_remove_same.
Qed.
Lemma RF_unlink_none f c tg pa dr : RF f c tg MNone pa dr -> fs_unlink tmp f = None.
Proof. intros (_ & R2 & _). unfold fs_unlink. rewrite R2. reflexivity. Qed.

Lemma old_not_dir : old <> Some Dir.
Proof.
  destruct (x_ex0 X) eqn:Ex.
  - destruct (W5a WF Ex) as (d & m & Ho). rewrite Ho. discriminate.
  - rewrite (W5b WF Ex). discriminate.
Qed.

Lemma RF_replace f c tg pa dr : RF f c tg (MFile true true) pa dr ->
  exists f', fs_replace tmp target f = Some f' /\ RF f' c TNew MNone pa dr.
Proof.
  intros (R1 & (d & m & Hl & Hf & Hm) & R3 & R4 & R5).
  exists (set target (File d m) (remove tmp f)). split; [unfold fs_replace; rewrite Hl; reflexivity|].
  unfold RF. split; [|split; [|split; [|split]]].
  - exists d. split; [apply Hf; reflexivity|]. rewrite lookup_set_same, (Hm eq_refl). reflexivity.
  - rewrite lookup_set_other by exact tmp_ne_target. apply lookup_remove_same.
  - intro Hpa. destruct (R3 Hpa) as [Hp Ha].
    assert (N1 : parent <> target).
    { intro e. rewrite e in Hp. destruct tg.
      - rewrite R1 in Hp. exact (old_not_dir Hp).
      - destruct R1 as (? & _ & R1). congruence. }
    assert (N2 : parent <> tmp) by (intro e; rewrite e in Hp; congruence).
    split.
    + rewrite lookup_set_other by exact N1. rewrite lookup_remove_other by exact N2. exact Hp.
    + intros p Hi. rewrite lookup_set_other by (apply in_chain_ne_target; exact Hi).
      rewrite lookup_remove_other by (apply in_chain_ne_tmp; exact Hi). apply Ha; exact Hi.
  - intros p n1 n2 n3. rewrite lookup_set_other by exact n1. rewrite lookup_remove_other by exact n2. apply R4; assumption.
  - intros Hd p Hi. rewrite lookup_set_other by (apply in_chain_ne_target; exact Hi).
    rewrite lookup_remove_other by (apply in_chain_ne_tmp; exact Hi). apply R5; assumption.
Qed.
Lemma RF_replace_none f c tg pa dr : RF f c tg MNone pa dr -> fs_replace tmp target f = None.
Proof. intros (_ & R2 & _). unfold fs_replace. rewrite R2. reflexivity. Qed.

Lemma incl_firstn {A} k (l : list A) : incl (firstn k l) l.
Proof. intros x Hx. rewrite <- (firstn_skipn k l). apply in_or_app. left; exact Hx. Qed.

Lemma RF_mkdirs_present f c tg tm dr ch : incl ch chain -> RF f c tg tm true dr -> fs_mkdirs ch f = f.
Proof. intros Hi (_ & _ & R3 & _). apply mkdirs_all_present. intros a Ha. destruct (R3 eq_refl) as [_ Hall]. apply Hall, Hi, Ha. Qed.

Lemma mkdirs_keeps ch : forall f p, lookup p f <> None -> lookup p (fs_mkdirs ch f) <> None.
Proof.
  induction ch as [|b r IH]; intros f p Hp; cbn; [exact Hp|]. apply IH.
  destruct (lookup b f) eqn:Eb; [exact Hp|].
  destruct (str_eqb p b) eqn:Epb.
  - apply str_eqb_eq in Epb. subst. rewrite lookup_set_same. discriminate.
  - rewrite lookup_set_other; [exact Hp|]. intro e; subst; rewrite str_eqb_refl in Epb; discriminate.
Qed.
Lemma mkdirs_present ch : forall f p, In p ch -> lookup p (fs_mkdirs ch f) <> None.
Proof.
  induction ch as [|a r IH]; intros f p Hi; [destruct Hi|]. cbn. destruct Hi as [->|Hi]; [|apply IH; exact Hi].
  apply mkdirs_keeps. destruct (lookup p f) eqn:Ep; [congruence|]. rewrite lookup_set_same. discriminate.
Qed.

Lemma RF_mkdirs f c tg tm dr ch : incl ch chain -> RF f c tg tm false dr -> RF (fs_mkdirs ch f) c tg tm false true.
Proof.
  intros Hi (R1 & R2 & R3 & R4 & R5). unfold RF.
  assert (Ht : lookup target (fs_mkdirs ch f) = lookup target f)
    by (apply lookup_mkdirs_other; intro Hx; exact (W2 WF (Hi _ Hx))).
  assert (Hm : lookup tmp (fs_mkdirs ch f) = lookup tmp f)
    by (apply lookup_mkdirs_other; intro Hx; exact (W3 WF (Hi _ Hx))).
  split; [|split; [|split; [|split]]].
  - destruct tg; rewrite Ht; exact R1.
  - destruct tm; rewrite Hm; exact R2.
  - discriminate.
  - intros p n1 n2 n3. rewrite lookup_mkdirs_other by (intro Hx; exact (n3 (Hi _ Hx))). apply R4; assumption.
  - discriminate.
Qed.
Lemma RF_set_par f c tg tm dr :
  lookup parent f = Some Dir -> (forall p, In p chain -> lookup p f <> None) ->
  RF f c tg tm false dr -> RF f c tg tm true dr.
Proof.
  intros Hp Ha (R1 & R2 & R3 & R4 & R5). unfold RF.
  split; [exact R1|]. split; [exact R2|]. split; [intros _; split; assumption|]. split; assumption.
Qed.

Lemma RF_cont f c c' pa dr : RF f c TOld MNone pa dr -> RF f c' TOld MNone pa dr.
Proof. intro R. exact R. Qed.

(* ---- observations ------------------------------------------------------------------------------------- *)
Lemma obs_tgt_exists s a : Rc s a -> fs_exists target (fsys s) = tgt_exists X a.
Proof.
  intros [(R1 & _) _]. unfold fs_exists, tgt_exists. destruct (a_tgt a).
  - rewrite R1. destruct (x_ex0 X) eqn:Ex.
    + destruct (W5a WF Ex) as (d & m & Ho). unfold old in *. rewrite Ho. reflexivity.
    + pose proof (W5b WF Ex) as Ho. unfold old in *. rewrite Ho. reflexivity.
  - destruct R1 as (d & _ & Hl). rewrite Hl. reflexivity.
Qed.
Lemma obs_tmp_exists s a : Rc s a -> fs_exists tmp (fsys s) = tmp_exists a.
Proof.
  intros [(_ & R2 & _) _]. unfold fs_exists, tmp_exists. destruct (a_tmp a).
  - rewrite R2. reflexivity.
  - destruct R2 as (d & m & Hl & _). rewrite Hl. reflexivity.
Qed.
Lemma obs_read s a : Rc s a ->
  match read_val X a with
  | Some v => fs_read target (fsys s) = den v (cont s) /\ den v (cont s) <> None
  | None => fs_read target (fsys s) = None
  end.
Proof.
  intros [(R1 & _) _]. unfold read_val, fs_read. destruct (a_tgt a).
  - rewrite R1. destruct (x_ex0 X) eqn:Ex.
    + destruct (W5a WF Ex) as (d & m & Ho). unfold den, olddata. unfold old in *. rewrite Ho. split; [reflexivity|discriminate].
    + pose proof (W5b WF Ex) as Ho. unfold old in *. rewrite Ho. reflexivity.
  - destruct R1 as (d & Hc & Hl). rewrite Hl. cbn. rewrite Hc. split; [reflexivity|discriminate].
Qed.

Lemma absf_in k : In (absf (e_faults E k)) (x_allowed X). Proof. apply (W10 WF). Qed.

(* ---- one lemma per op: the completed call ----------------------------------------------------------- *)
Ltac norm := unfold st_fs, st_tmpb, st_omode, st_buf, st_ver, st_existed, st_bl, st_cont, st_ulfail, st_tick in *;
  cbn [fsys kctr tr tmpb omode buf ver existed bl cont ulfail fst snd] in *.
Ltac rw_abs := repeat match goal with
  | Hq : a_tgt ?x = _ |- context[a_tgt ?x] => rewrite Hq
  | Hq : a_tmp ?x = _ |- context[a_tmp ?x] => rewrite Hq
  | Hq : a_par ?x = _ |- context[a_par ?x] => rewrite Hq
  | Hq : a_om ?x = _ |- context[a_om ?x] => rewrite Hq
  | Hq : a_cont ?x = _ |- context[a_cont ?x] => rewrite Hq
  | Hq : a_buf ?x = _ |- context[a_buf ?x] => rewrite Hq
  end.
Ltac absn := cbn [a_top a_tgt a_tmp a_par a_dirs a_tmpb a_om a_buf a_ver a_existed a_bl a_cont a_piped a_ulfail
                  up_top up_tgt up_tmp up_par up_dirs up_tmpb up_om up_buf up_ver up_existed up_bl up_cont up_ulfail].
Ltac triv := match goal with R : Rc _ _, RFs : RF _ _ _ _ _ _, RVs : RV _ _ _ _ _ _ _ _ _ |- _ => first [exact R | split; [exact RFs|exact RVs]] end.
Ltac here := eexists; eexists; split; [left; reflexivity|right; split; [norm; unfold Rc; norm; absn; rw_abs|reflexivity]].
Ltac there := eexists; eexists; split; [right; left; reflexivity|right; split; [norm; unfold Rc; norm; absn; rw_abs|reflexivity]].
Ltac rv R := let V := fresh "V" in destruct R as [? V]; unfold RV in *; cbn; intuition.

Lemma op_ok_sound o k s a : Rc s a -> a_top a = false ->
  Sound (fst (op_ok E o k s)) (snd (op_ok E o k s)) (aop_ok X o a).
Proof.
  intros R Ht. pose proof R as [RFs RVs].
  destruct o; cbn [op_ok aop_ok]; norm.
  - (* OExistsCapture *) here. split; [exact RFs|]. unfold RV in *. cbn. rewrite (obs_tgt_exists s a R). intuition; try discriminate; try congruence.
  - (* OMkdirParents *)
    destruct (a_par a) eqn:Ep.
    + cbn. try rewrite Ep in RFs. rewrite (RF_mkdirs_present _ _ _ _ _ _ (incl_refl _) RFs).
      pose proof RFs as (_ & _ & R3 & _). destruct (R3 eq_refl) as [Hp _]. unfold fs_is_dir. idtac. rewrite Hp.
      here. split; [try rewrite Ep; exact RFs|exact RVs].
    + try rewrite Ep in RFs. pose proof (RF_mkdirs _ _ _ _ _ _ (incl_refl _) RFs) as R'.
      cbn. destruct (fs_is_dir (e_parent E) (fs_mkdirs (e_chain E) (fsys s))) eqn:Ed.
      * here. split; [|exact RVs]. cbn. apply RF_set_par; [| |exact R'].
        -- unfold fs_is_dir in Ed. idtac. destruct (lookup parent (fs_mkdirs chain (fsys s))) as [[|]|]; try discriminate. reflexivity.
        -- intros p Hi. apply mkdirs_present; exact Hi.
      * there. split; [|exact RVs]. cbn. try rewrite Ep. exact R'.
  - (* OStatMode *)
    destruct (a_tgt a) eqn:Et.
    + pose proof RFs as (R1 & _). try rewrite Et in R1. unfold fs_stat_mode. idtac. rewrite R1.
      destruct (x_ex0 X) eqn:Ex.
      * destruct (W5a WF Ex) as (d & m & Ho). rewrite Ho. here. split; [exact RFs|]. unfold RV in *. cbn. intuition; try discriminate; try congruence. exists d, m. split; [exact Ho|reflexivity].
      * rewrite (W5b WF Ex). here. split; [exact RFs|exact RVs].
    + eexists; eexists; split; [left; reflexivity|left; reflexivity].
  - (* OMkstemp *)
    destruct (fs_is_dir (e_parent E) (fsys s)) eqn:Ed.
    + assert (Hp : lookup parent (fsys s) = Some Dir).
      { unfold fs_is_dir in Ed. idtac. destruct (lookup parent (fsys s)) as [[|]|]; try discriminate. reflexivity. }
      assert (G : Rc (st_tmpb true (st_fs (fs_mkstemp (e_tmp E)) s)) (up_tmpb true (up_tmp (MFile false (negb (x_ex0 X))) a))).
      { split; norm; absn; [eapply RF_mkstemp; [exact Hp|exact RFs]|]. unfold RV in *. absn. intuition; try discriminate; try congruence. }
      destruct (a_par a); eexists; eexists; (split; [left; reflexivity|right; split; [exact G|reflexivity]]).
    + destruct (a_par a) eqn:Ep.
      * exfalso. pose proof RFs as (_ & _ & R3 & _). try rewrite Ep in R3. destruct (R3 eq_refl) as [Hp _].
        unfold fs_is_dir in Ed. idtac. rewrite Hp in Ed. discriminate.
      * cbn. there. triv.
  - (* OFchmod *)
    destruct (a_om a) eqn:Eo.
    + assert (Hm : omode s = None) by (unfold RV in RVs; try rewrite Eo in RVs; intuition). rewrite Hm. here. triv.
    + assert (Hm : exists d m, old = Some (File d m) /\ omode s = Some m) by (unfold RV in RVs; try rewrite Eo in RVs; intuition).
      destruct Hm as (d & m & Ho & Hm). rewrite Hm. here. rewrite <- (fmode_old _ _ Ho). split; cbn.
      * pose proof (RF_chmod _ _ _ _ _ _ RFs) as G. destruct (a_tmp a) eqn:Em'; absn; rw_abs; exact G.
      * unfold RV in *. destruct (a_tmp a) eqn:Em'; absn; rw_abs; intuition; exists d, m; (split; [exact Ho|rewrite (fmode_old _ _ Ho); reflexivity]).
  - (* OFdopen *) here. triv.
  - (* OWrite *)
    destruct (a_cont a) eqn:Ec.
    + assert (Hc : exists d, cont s = Some d) by (unfold RV in RVs; intuition). destruct Hc as (d & Hc). rewrite Hc in *.
      here. split; cbn.
      * pose proof (RF_setdata_part _ _ _ _ _ _ (firstn (e_orc E k) d) RFs) as G. try rewrite Hc in G. unfold tmp_part. destruct (a_tmp a) eqn:Em'; absn; rw_abs; exact G.
      * unfold RV in *. unfold tmp_part. destruct (a_tmp a) eqn:Em'; absn; rw_abs; intuition; try discriminate; try congruence.
    + assert (Hc : cont s = None) by (unfold RV in RVs; intuition). rewrite Hc. here. triv.
  - (* OFlush *)
    assert (Hb : a_buf a = buf s) by (unfold RV in RVs; intuition). rewrite Hb. destruct (buf s) eqn:Eb; [|here; triv].
    unfold tmp_full. destruct (a_tmp a) eqn:Em.
    + here. split; cbn; [|exact RVs]. pose proof (RF_setdata_part _ _ _ _ _ _ (the_text s) RFs) as G. try rewrite Em in *. exact G.
    + destruct (a_cont a) eqn:Ec; [|eexists; eexists; split; [left; reflexivity|left; reflexivity]].
      assert (Hc : exists d, cont s = Some d) by (unfold RV in RVs; intuition). destruct Hc as (d & Hc).
      here. split; cbn.
      * unfold the_text. rewrite Hc. try rewrite Em in RFs. pose proof (RF_setdata_full _ _ _ _ _ _ d Hc RFs) as G. try rewrite Hc in G. exact G.
      * unfold RV in *. cbn. rewrite ?Ec. intuition; try discriminate; try congruence.
  - (* OFsync *) here. triv.
  - (* OClose *)
    assert (Hb : a_buf a = buf s) by (unfold RV in RVs; intuition). rewrite Hb. destruct (buf s) eqn:Eb; [|here; triv].
    unfold tmp_full. destruct (a_tmp a) eqn:Em.
    + here. split; cbn; [|exact RVs]. pose proof (RF_setdata_part _ _ _ _ _ _ (the_text s) RFs) as G. try rewrite Em in *. exact G.
    + destruct (a_cont a) eqn:Ec; [|eexists; eexists; split; [left; reflexivity|left; reflexivity]].
      assert (Hc : exists d, cont s = Some d) by (unfold RV in RVs; intuition). destruct Hc as (d & Hc).
      here. split; cbn.
      * unfold the_text. rewrite Hc. try rewrite Em in RFs. pose proof (RF_setdata_full _ _ _ _ _ _ d Hc RFs) as G. try rewrite Hc in G. exact G.
      * unfold RV in *. cbn. rewrite ?Ec. intuition; try discriminate; try congruence.
  - (* OOpenRead *)
    pose proof (obs_read s a R) as Ho. pose proof (obs_tgt_exists s a R) as Hx.
    unfold tgt_exists, read_val in *. idtac.
    destruct (a_tgt a); [destruct (x_ex0 X)|].
    + destruct Ho as [Ho Hn]. rewrite Ho. cbn. here. triv.
    + rewrite Ho. here. triv.
    + destruct Ho as [Ho Hn]. rewrite Ho. destruct (den VNew (cont s)); [|congruence]. here. triv.
  - (* OReadBaseline *)
    pose proof (obs_read s a R) as Ho. idtac. destruct (read_val X a) as [v|] eqn:Erv.
    + destruct Ho as [Ho Hn]. rewrite Ho. destruct (den v (cont s)) as [d|] eqn:Ed; [|congruence].
      destruct v; try (cbn [den] in Ed; discriminate);
        [ here; split; [exact RFs|]; unfold RV in *; absn; rewrite ?Ed; intuition; try discriminate; try congruence
        | here; split; [exact RFs|]; unfold RV in *; absn; rewrite ?Ed; intuition; try discriminate; try congruence
        | eexists; eexists; split; [left; reflexivity|left; reflexivity] ].
    + rewrite Ho. here. triv.
  - (* OReadVerify *)
    pose proof (obs_read s a R) as Ho. idtac. destruct (read_val X a) as [v|] eqn:Erv.
    + destruct Ho as [Ho Hn]. rewrite Ho. destruct (den v (cont s)) as [d|] eqn:Ed; [|congruence].
      here; split; [exact RFs|]; unfold RV in *; absn; rewrite ?Ed; intuition; try discriminate; try congruence.
    + rewrite Ho. here. triv.
  - (* OCloseRead *) here. triv.
  - (* OUnlinkTemp *)
    idtac. destruct (a_tmp a) eqn:Em.
    + try rewrite Em in RFs. rewrite (RF_unlink_none _ _ _ _ _ RFs). here. split; [try rewrite Em; exact RFs|exact RVs].
    + try rewrite Em in RFs. destruct (RF_unlink _ _ _ _ _ _ _ RFs) as (f' & Hu & G). rewrite Hu. here. split; [exact G|exact RVs].
  - (* OReplace *)
    idtac. destruct (a_tmp a) as [|fl mk] eqn:Em.
    + try rewrite Em in RFs. rewrite (RF_replace_none _ _ _ _ _ RFs). here. split; [try rewrite Em; exact RFs|exact RVs].
    + destruct fl, mk; try (eexists; eexists; split; [left; reflexivity|left; reflexivity]).
      try rewrite Em in RFs. destruct (RF_replace _ _ _ _ _ RFs) as (f' & Hu & G). rewrite Hu. here. split; [exact G|exact RVs].
Qed.

(* ... and the call that fails or is interrupted *)
Lemma op_part_sound o k s a : Rc s a -> Rc (op_part E o k s) (aop_part o a).
Proof.
  intros R. pose proof R as [RFs RVs]. destruct o; cbn [op_part aop_part]; norm; try exact R.
  - (* mkdir *) destruct (a_par a) eqn:Ep.
    + split; [|exact RVs]. norm; absn; rw_abs.
      rewrite (RF_mkdirs_present (fsys s) (cont s) (a_tgt a) (a_tmp a) (a_dirs a) _ (incl_firstn _ _) RFs). exact RFs.
    + split; [|exact RVs]. norm; absn; rw_abs. eapply RF_mkdirs; [apply incl_firstn|exact RFs].
  - (* write *) split; norm; absn.
    + pose proof (RF_setdata_part _ _ _ _ _ _ (firstn (e_orc E k) (the_text s)) RFs) as G. unfold tmp_part. destruct (a_tmp a) eqn:Em'; absn; rw_abs; exact G.
    + unfold RV in *. unfold tmp_part. destruct (a_tmp a) eqn:Em'; absn; rw_abs; intuition; try discriminate; try congruence.
  - (* flush *) assert (Hb : a_buf a = buf s) by (unfold RV in RVs; intuition). rewrite Hb. destruct (buf s) eqn:Eb; [|split; [exact RFs|norm; rewrite Eb; exact RVs]].
    split; norm; absn.
    + pose proof (RF_setdata_part _ _ _ _ _ _ (firstn (e_orc E k) (the_text s)) RFs) as G. unfold tmp_part. destruct (a_tmp a) eqn:Em'; absn; rw_abs; exact G.
    + unfold RV in *. unfold tmp_part. destruct (a_tmp a) eqn:Em'; absn; rw_abs; intuition; try discriminate; try congruence.
  - (* close *) assert (Hb : a_buf a = buf s) by (unfold RV in RVs; intuition). rewrite Hb. destruct (buf s) eqn:Eb; [|split; [exact RFs|norm; rewrite Eb; exact RVs]].
    split; norm; absn.
    + pose proof (RF_setdata_part _ _ _ _ _ _ (firstn (e_orc E k) (the_text s)) RFs) as G. unfold tmp_part. destruct (a_tmp a) eqn:Em'; absn; rw_abs; exact G.
    + unfold RV in *. unfold tmp_part. destruct (a_tmp a) eqn:Em'; absn; rw_abs; intuition; try discriminate; try congruence.
  - (* unlink *) split; [exact RFs|]. unfold RV in *. absn. intuition; try discriminate; try congruence.
Qed.

Lemma Sound_top s r a outs : In (a, ARNorm) outs -> a_top a = true -> Sound s r outs.
Proof. intros Hi Ht. exists a, ARNorm. split; [exact Hi|left; exact Ht]. Qed.

Lemma exec_op_sound o s a : Rc s a -> a_top a = false ->
  Sound (fst (exec_op E o s)) (snd (exec_op E o s)) (aexec_op X o a).
Proof.
  intros R Ht. unfold exec_op, aexec_op. rewrite Ht.
  pose proof (absf_in (kctr s)) as Hin.
  destruct (e_faults E (kctr s)) as [|e|] eqn:Ef; cbn [absf] in Hin.
  - destruct (op_ok_sound o (kctr s) (st_tick (op_tag o) s) a (Rc_tick _ _ _ R) Ht) as (a' & ar & Hi & Hr).
    exists a', ar. split; [|exact Hr]. apply in_flat_map. exists AFOk. split; [exact Hin|exact Hi].
  - pose proof (op_part_sound o (kctr s) (st_tick (op_tag o) s) a (Rc_tick _ _ _ R)) as G.
    exists (aop_part o a), (ARExn (is_perm e)). split; [|right; split; [exact G|reflexivity]].
    apply in_flat_map. exists (if is_perm e then AFPerm else AFOther). split; [exact Hin|].
    destruct (is_perm e); left; reflexivity.
  - pose proof (op_part_sound o (kctr s) (st_tick (op_tag o) s) a (Rc_tick _ _ _ R)) as G.
    exists (aop_part o a), ARCrash. split; [|right; split; [exact G|reflexivity]].
    apply in_flat_map. exists AFCrash. split; [exact Hin|left; reflexivity].
Qed.

(* ---- conditions ------------------------------------------------------------------------------------------ *)
Definition CSound (t : pst * res * bool) (outs : list (ast * ares * bool)) : Prop :=
  exists a' ar b', In (a', ar, b') outs /\
    (a_top a' = true \/ (Rc (fst (fst t)) a' /\ ar = abs_res (snd (fst t)) /\ (snd (fst t) = RNorm -> b' = snd t))).

Lemma aeval_top c a : a_top a = true -> aeval X c a = [(a, ARNorm, false)].
Proof. intro Ht. destruct c; cbn; rewrite Ht; reflexivity. Qed.
Lemma aexec_top p cur a : a_top a = true -> aexec X p cur a = [(a, ARNorm)].
Proof. intro Ht. destruct p; cbn; rewrite Ht; reflexivity. Qed.

Lemma stat_like_sound (tag : N) s a (v : bool) (sw : bool) (f1 : pst -> pst) (f2 : ast -> ast) :
  Rc s a -> (Rc (st_tick tag s) a -> Rc (f1 (st_tick tag s)) (f2 a)) ->
  CSound (match e_faults E (kctr s) with
          | FOk => (st_tick tag s, RNorm, v)
          | FFail e => if sw then (f1 (st_tick tag s), RNorm, false) else (st_tick tag s, RExn e, false)
          | FCrash => (st_tick tag s, RCrash, false)
          end)
         (flat_map (stat_like v sw f2 a) (x_allowed X)).
Proof.
  intros R Hf. pose proof (absf_in (kctr s)) as Hin.
  destruct (e_faults E (kctr s)) as [|e|]; cbn [absf] in Hin.
  - exists a, ARNorm, v. split; [apply in_flat_map; exists AFOk; split; [exact Hin|left; reflexivity]|].
    right; cbn [fst snd]; split; [exact R|split; [reflexivity|intros _; reflexivity]].
  - destruct sw.
    + exists (f2 a), ARNorm, false. split.
      * apply in_flat_map. exists (if is_perm e then AFPerm else AFOther). split; [exact Hin|]. destruct (is_perm e); left; reflexivity.
      * right; cbn [fst snd]; split; [apply Hf; exact R|split; [reflexivity|intros _; reflexivity]].
    + exists a, (ARExn (is_perm e)), false. split.
      * apply in_flat_map. exists (if is_perm e then AFPerm else AFOther). split; [exact Hin|]. destruct (is_perm e); left; reflexivity.
      * right; cbn [fst snd]; split; [exact R|split; [reflexivity|discriminate]].
  - exists a, ARCrash, false. split; [apply in_flat_map; exists AFCrash; split; [exact Hin|left; reflexivity]|].
    right; cbn [fst snd]; split; [exact R|split; [reflexivity|discriminate]].
Qed.

Lemma Rc_ulfail s a : Rc s a -> Rc (st_ulfail s) (up_ulfail a).
Proof. intros [RFs RVs]. split; [exact RFs|]. unfold RV in *. cbn. intuition. Qed.

Lemma hash_vals_sound v (b : option str) c : b = den v c ->
  In (hash_ne H E b) (hash_vals X v).
Proof.
  intro Hb. unfold hash_vals. destruct (x_base X) eqn:Eb.
  - destruct v; try (destruct (hash_ne H E b); cbn; tauto).
    cbn [den] in Hb. subst b. rewrite (W8 WF Eb). rewrite negb_involutive. left; reflexivity.
  - pose proof (W7 WF) as Hw. rewrite Eb in Hw. unfold hash_ne. destruct (e_base E); [discriminate|]. left; reflexivity.
Qed.

Lemma eval_cond_sound c : forall s a, Rc s a -> a_top a = false -> CSound (eval_cond H E c s) (aeval X c a).
Proof.
  induction c; intros s a R Ht; cbn [eval_cond aeval]; rewrite Ht.
  - (* CPathExists *)
    replace (fs_exists (wpath E w) (fsys s)) with (match w with WTarget => tgt_exists X a | WTemp => tmp_exists a end)
      by (destruct w; cbn [wpath]; [symmetry; apply obs_tgt_exists; exact R|symmetry; apply obs_tmp_exists; exact R]).
    pose proof (stat_like_sound (tag_path_exists w) s a (match w with WTarget => tgt_exists X a | WTemp => tmp_exists a end) false (fun x => x) (fun x => x) R (fun r => r)) as G.
    destruct (e_faults E (kctr s)); exact G.
  - (* COsPathExists *)
    replace (fs_exists (wpath E w) (fsys s)) with (match w with WTarget => tgt_exists X a | WTemp => tmp_exists a end)
      by (destruct w; cbn [wpath]; [symmetry; apply obs_tgt_exists; exact R|symmetry; apply obs_tmp_exists; exact R]).
    destruct w.
    + pose proof (stat_like_sound (tag_ospath_exists WTarget) s a (tgt_exists X a) true (fun x => x) (fun x => x) R (fun r => r)) as G.
      destruct (e_faults E (kctr s)); exact G.
    + pose proof (stat_like_sound (tag_ospath_exists WTemp) s a (tmp_exists a) true st_ulfail up_ulfail R (Rc_ulfail _ _)) as G.
      destruct (e_faults E (kctr s)); exact G.
  - (* CIsSymlink *)
    pose proof (stat_like_sound (tag_is_symlink w) s a false false (fun x => x) (fun x => x) R (fun r => r)) as G.
    destruct (e_faults E (kctr s)); exact G.
  - exists a, ARNorm, (x_base X). split; [left; reflexivity|]. right; cbn [fst snd]; split; [exact R|split; [reflexivity|]]. intros _. apply (W7 WF).
  - exists a, ARNorm, (a_existed a). split; [left; reflexivity|]. right; cbn [fst snd]; split; [exact R|split; [reflexivity|]]. intros _.
    destruct R as [_ RVs]. unfold RV in RVs. intuition.
  - exists a, ARNorm, (match a_om a with OmOld => true | OmNone => false end). split; [left; reflexivity|]. right; cbn [fst snd]; split; [exact R|split; [reflexivity|]].
    intros _. destruct R as [_ RVs]. unfold RV in RVs. destruct (a_om a).
    + assert (Hm : omode s = None) by intuition. rewrite Hm. reflexivity.
    + assert (Hm : exists d m, old = Some (File d m) /\ omode s = Some m) by intuition. destruct Hm as (d & m & _ & Hm). rewrite Hm. reflexivity.
  - (* CBaselineNe *)
    exists a, ARNorm, (hash_ne H E (bl s)). split.
    + apply in_map_iff. exists (hash_ne H E (bl s)). split; [reflexivity|]. apply (hash_vals_sound _ _ (cont s)).
      destruct R as [_ RVs]. unfold RV in RVs. intuition.
    + right; cbn [fst snd]; split; [exact R|split; [reflexivity|intros _; reflexivity]].
  - (* CVerifyNe *)
    exists a, ARNorm, (hash_ne H E (ver s)). split.
    + apply in_map_iff. exists (hash_ne H E (ver s)). split; [reflexivity|]. apply (hash_vals_sound _ _ (cont s)).
      destruct R as [_ RVs]. unfold RV in RVs. intuition.
    + right; cbn [fst snd]; split; [exact R|split; [reflexivity|intros _; reflexivity]].
  - (* CPipeFail *)
    exists a, ARNorm, (negb (a_cont a)). split; [left; reflexivity|]. right; cbn [fst snd]; split; [exact R|split; [reflexivity|]]. intros _.
    destruct R as [_ RVs]. unfold RV in RVs. destruct (a_cont a).
    + assert (Hc : exists d, cont s = Some d) by intuition. destruct Hc as (d & Hc). rewrite Hc. reflexivity.
    + assert (Hc : cont s = None) by intuition. rewrite Hc. reflexivity.
  - exists a, ARNorm, (x_dry X). split; [left; reflexivity|]. right; cbn [fst snd]; split; [exact R|split; [reflexivity|]]. intros _. apply (W9 WF).
  - (* CNot *)
    destruct (IHc s a R Ht) as (a' & ar & b' & Hi & Hr).
    destruct (eval_cond H E c s) as [[s1 r1] v1]. cbn [fst snd] in *.
    exists a', ar, (negb b'). split.
    + apply in_map_iff. exists (a', ar, b'). split; [reflexivity|exact Hi].
    + destruct Hr as [Hr|(R1 & Hr & Hb)]; [left; exact Hr|right]. cbn [fst snd]. split; [exact R1|split; [exact Hr|]]. intro Hn. rewrite (Hb Hn). reflexivity.
  - (* CAnd *)
    destruct (IHc1 s a R Ht) as (a1 & ar1 & b1 & Hi & Hr).
    destruct (eval_cond H E c1 s) as [[s1 r1] v1]. cbn [fst snd] in *.
    destruct Hr as [Htop|(R1 & Hr & Hb)].
    + (* top *)
      exists a1, (match ar1 with ARNorm => ARNorm | r => r end), false. split; [|left; exact Htop].
      apply in_flat_map. exists (a1, ar1, b1). split; [exact Hi|].
      destruct ar1; try (left; reflexivity). destruct b1; [rewrite (aeval_top _ _ Htop)|]; left; reflexivity.
    + destruct r1; cbn [abs_res] in Hr; subst ar1.
      * specialize (Hb eq_refl). subst b1. destruct v1.
        -- destruct (a_top a1) eqn:Ht1.
           ++ exists a1, ARNorm, false. split; [|left; exact Ht1]. apply in_flat_map. exists (a1, ARNorm, true). split; [exact Hi|].
              rewrite (aeval_top _ _ Ht1). left; reflexivity.
           ++ destruct (IHc2 s1 a1 R1 Ht1) as (a2 & ar2 & b2 & Hi2 & Hr2).
              exists a2, ar2, b2. split; [|exact Hr2]. apply in_flat_map. exists (a1, ARNorm, true). split; [exact Hi|exact Hi2].
        -- exists a1, ARNorm, false. split; [apply in_flat_map; exists (a1, ARNorm, false); split; [exact Hi|left; reflexivity]|].
           right; cbn [fst snd]; split; [exact R1|split; [reflexivity|intros _; reflexivity]].
      * exists a1, (ARExn (is_perm e)), false. split; [apply in_flat_map; exists (a1, ARExn (is_perm e), b1); split; [exact Hi|left; reflexivity]|].
        right; cbn [fst snd]; split; [exact R1|split; [reflexivity|discriminate]].
      * exists a1, (ARRet r), false. split; [apply in_flat_map; exists (a1, ARRet r, b1); split; [exact Hi|left; reflexivity]|].
        right; cbn [fst snd]; split; [exact R1|split; [reflexivity|discriminate]].
      * exists a1, ARCrash, false. split; [apply in_flat_map; exists (a1, ARCrash, b1); split; [exact Hi|left; reflexivity]|].
        right; cbn [fst snd]; split; [exact R1|split; [reflexivity|discriminate]].
Qed.

(* ---- validation loop ------------------------------------------------------------------------------------- *)
Definition failish (f : afault) : bool := match f with AFPerm | AFOther => true | _ => false end.
Definition crashish (f : afault) : bool := match f with AFCrash => true | _ => false end.
Lemma validate_sound n : forall s a, Rc s a ->
  Rc (fst (exec_validate E n s)) a /\
  (snd (exec_validate E n s) = RNorm \/
   (snd (exec_validate E n s) = RRet (RetErr E_PATH) /\ existsb failish (x_allowed X) = true) \/
   (snd (exec_validate E n s) = RCrash /\ existsb crashish (x_allowed X) = true)).
Proof.
  induction n as [|n IH]; intros s a R; cbn [exec_validate]; [split; [exact R|left; reflexivity]|].
  pose proof (absf_in (kctr s)) as Hin.
  destruct (e_faults E (kctr s)) as [|e|]; cbn [absf] in Hin.
  - apply IH. exact R.
  - apply IH. exact R.
  - split; [exact R|]. right; right. split; [reflexivity|]. apply existsb_exists. exists AFCrash. split; [exact Hin|reflexivity].
Qed.

(* ---- the protocol: induction over its syntax -------------------------------------------------------------- *)
Lemma Sound_of_top s r a ar outs : In (a, ar) outs -> a_top a = true -> Sound s r outs.
Proof. intros Hi Ht. exists a, ar. split; [exact Hi|left; exact Ht]. Qed.

Lemma exec_op_sound' o s a : Rc s a -> Sound (fst (exec_op E o s)) (snd (exec_op E o s)) (aexec_op X o a).
Proof.
  intro R. destruct (a_top a) eqn:Ht; [|apply exec_op_sound; assumption].
  unfold aexec_op. rewrite Ht. eapply Sound_of_top; [left; reflexivity|exact Ht].
Qed.

Lemma abs_res_norm r : abs_res r = ARNorm -> r = RNorm.
Proof. destruct r; cbn; congruence. Qed.

Lemma exec_sound : forall p cur s a, Rc s a ->
  Sound (fst (exec H E p cur s)) (snd (exec H E p cur s)) (aexec X p (is_perm cur) a).
Proof.
  fix IH 1. intros p cur s a R.
  destruct (a_top a) eqn:Ht;
    [rewrite (aexec_top _ _ _ Ht); eapply Sound_of_top; [left; reflexivity|exact Ht]|].
  destruct p; cbn [exec aexec]; rewrite Ht.
  - (* SSkip *) exists a, ARNorm. split; [left; reflexivity|right; split; [exact R|reflexivity]].
  - (* SOp *) apply exec_op_sound'. exact R.
  - (* SPure *)
    destruct p.
    + exists (up_bl VEmpty a), ARNorm. split; [left; reflexivity|right; split; [|reflexivity]].
      destruct R as [RFs RVs]. split; [exact RFs|]. unfold RV in *. cbn. intuition.
    + destruct R as [RFs RVs].
      destruct (a_piped a) eqn:Epp; [eexists; eexists; split; [left; reflexivity|left; reflexivity]|].
      destruct (a_tgt a) eqn:Etg; [|eexists; eexists; split; [left; reflexivity|left; reflexivity]].
      destruct (a_tmp a) eqn:Etm; [|eexists; eexists; split; [left; reflexivity|left; reflexivity]].
      assert (Hc0 : cont s = None) by (unfold RV in RVs; rewrite Epp in RVs; intuition).
      assert (Hbl : bl s = den (a_bl a) (cont s)) by (unfold RV in RVs; intuition).
      assert (Hvr : ver s = den (a_ver a) (cont s)) by (unfold RV in RVs; intuition).
      assert (Hrest : tmpb s = a_tmpb a /\ buf s = a_buf a /\ existed s = a_existed a /\ ulfail s = a_ulfail a /\
                      match a_om a with OmNone => omode s = None | OmOld => exists d m, old = Some (File d m) /\ omode s = Some m end)
        by (unfold RV in RVs; intuition).
      destruct (a_bl a) eqn:Ebl; try (eexists; eexists; split; [left; reflexivity|left; reflexivity]);
      (destruct (a_ver a) eqn:Evr; try (eexists; eexists; split; [left; reflexivity|left; reflexivity]);
       cbn [den] in Hbl, Hvr;
       (destruct (e_pipe E (bl s)) as [d|] eqn:Ep;
        [ eexists; eexists; split; [left; reflexivity|right; split; [|reflexivity]]
        | eexists; eexists; split; [right; left; reflexivity|right; split; [|reflexivity]] ];
        (split; [norm; absn; rw_abs; exact RFs|]); unfold RV; norm; absn; rewrite ?Ebl, ?Evr; cbn [den];
        destruct Hrest as (Q1 & Q2 & Q3 & Q4 & Q5);
        (split; [exact Q1|split; [exact Q2|split; [exact Q3|split; [exact Q4|split; [exact Q5|]]]]]);
        (split; [exact Hbl|split; [exact Hvr|]]);
        (split; [try discriminate; intros _; eexists; reflexivity|]);
        (split; [try discriminate; intros _; reflexivity|]);
        (split; [discriminate|rewrite Hbl in Ep; symmetry; exact Ep]))).
  - (* SValidate *)
    destruct (validate_sound (e_nval E) s a R) as [R' Hc].
    destruct Hc as [Hc|[[Hc Hx]|[Hc Hx]]]; rewrite Hc.
    + exists a, ARNorm. split; [left; reflexivity|right; split; [exact R'|reflexivity]].
    + exists a, (ARRet (RetErr E_PATH)). split; [|right; split; [exact R'|reflexivity]].
      right. apply in_or_app. left. unfold failish in Hx. rewrite Hx. left; reflexivity.
    + exists a, ARCrash. split; [|right; split; [exact R'|reflexivity]].
      right. apply in_or_app. right. unfold crashish in Hx. rewrite Hx. left; reflexivity.
  - (* SSeq *)
    destruct (IH p1 cur s a R) as (a1 & ar1 & Hi & Hr).
    destruct (exec H E p1 cur s) as [s1 r1]. cbn [fst snd] in *.
    destruct Hr as [Htop|[R1 Hr]].
    + destruct ar1; try (eapply Sound_of_top; [apply in_flat_map; eexists; split; [exact Hi|left; reflexivity]|exact Htop]).
      eapply Sound_of_top; [apply in_flat_map; eexists; split; [exact Hi|]|exact Htop]. cbn. rewrite (aexec_top _ _ _ Htop). left; reflexivity.
    + destruct r1; cbn [abs_res] in Hr; subst ar1.
      * destruct (IH p2 cur s1 a1 R1) as (a2 & ar2 & Hi2 & Hr2).
        exists a2, ar2. split; [|exact Hr2]. apply in_flat_map. eexists; split; [exact Hi|exact Hi2].
      * eexists; eexists; split; [apply in_flat_map; eexists; split; [exact Hi|left; reflexivity]|right; split; [exact R1|reflexivity]].
      * eexists; eexists; split; [apply in_flat_map; eexists; split; [exact Hi|left; reflexivity]|right; split; [exact R1|reflexivity]].
      * eexists; eexists; split; [apply in_flat_map; eexists; split; [exact Hi|left; reflexivity]|right; split; [exact R1|reflexivity]].
  - (* SIf *)
    destruct (eval_cond_sound c s a R Ht) as (a1 & ar1 & b1 & Hi & Hr).
    destruct (eval_cond H E c s) as [[s1 r1] v1]. cbn [fst snd] in *.
    destruct Hr as [Htop|(R1 & Hr & Hb)].
    + destruct ar1; try (eapply Sound_of_top; [apply in_flat_map; eexists; split; [exact Hi|left; reflexivity]|exact Htop]).
      destruct b1; (eapply Sound_of_top; [apply in_flat_map; eexists; split; [exact Hi|]|exact Htop]); cbn;
        rewrite (aexec_top _ _ _ Htop); left; reflexivity.
    + destruct r1; cbn [abs_res] in Hr; subst ar1.
      * specialize (Hb eq_refl). subst b1. destruct v1.
        -- destruct (IH p1 cur s1 a1 R1) as (a2 & ar2 & Hi2 & Hr2).
           exists a2, ar2. split; [|exact Hr2]. apply in_flat_map. eexists; split; [exact Hi|exact Hi2].
        -- destruct (IH p2 cur s1 a1 R1) as (a2 & ar2 & Hi2 & Hr2).
           exists a2, ar2. split; [|exact Hr2]. apply in_flat_map. eexists; split; [exact Hi|exact Hi2].
      * eexists; eexists; split; [apply in_flat_map; eexists; split; [exact Hi|left; reflexivity]|right; split; [exact R1|reflexivity]].
      * eexists; eexists; split; [apply in_flat_map; eexists; split; [exact Hi|left; reflexivity]|right; split; [exact R1|reflexivity]].
      * eexists; eexists; split; [apply in_flat_map; eexists; split; [exact Hi|left; reflexivity]|right; split; [exact R1|reflexivity]].
  - (* STry *)
    destruct (IH p cur s a R) as (a1 & ar1 & Hi & Hr).
    destruct (exec H E p cur s) as [s1 r1]. cbn [fst snd] in *.
    destruct Hr as [Htop|[R1 Hr]].
    + destruct ar1; try (eapply Sound_of_top; [apply in_flat_map; eexists; split; [exact Hi|left; reflexivity]|exact Htop]).
      destruct hperm as [h|], perm, hexc as [h'|];
        (eapply Sound_of_top; [apply in_flat_map; eexists; split; [exact Hi|]|exact Htop]); cbn;
        rewrite ?(aexec_top _ _ _ Htop); left; reflexivity.
    + destruct r1; cbn [abs_res] in Hr; subst ar1;
        try (eexists; eexists; split; [apply in_flat_map; eexists; split; [exact Hi|left; reflexivity]|right; split; [exact R1|reflexivity]]).
      destruct hperm as [h|]; [destruct (is_perm e) eqn:Ep|]; [| destruct hexc as [h'|] | destruct hexc as [h'|]].
      * destruct (IH h e s1 a1 R1) as (a2 & ar2 & Hi2 & Hr2). rewrite Ep in Hi2.
        exists a2, ar2. split; [|exact Hr2]. apply in_flat_map. eexists; split; [exact Hi|]. cbn. exact Hi2.
      * destruct (IH h' e s1 a1 R1) as (a2 & ar2 & Hi2 & Hr2). rewrite Ep in Hi2.
        exists a2, ar2. split; [|exact Hr2]. apply in_flat_map. eexists; split; [exact Hi|]. cbn. exact Hi2.
      * eexists; eexists; split; [apply in_flat_map; eexists; split; [exact Hi|left; reflexivity]|right; split; [exact R1|cbn; rewrite Ep; reflexivity]].
      * destruct (IH h' e s1 a1 R1) as (a2 & ar2 & Hi2 & Hr2).
        exists a2, ar2. split; [|exact Hr2]. apply in_flat_map. eexists; split; [exact Hi|]. cbn. exact Hi2.
      * eexists; eexists; split; [apply in_flat_map; eexists; split; [exact Hi|left; reflexivity]|right; split; [exact R1|reflexivity]].
  - (* SWith *)
    destruct (exec_op_sound' (fst (with_ops k)) s a R) as (a1 & ar1 & Hi1 & Hr1).
    destruct (exec_op E (fst (with_ops k)) s) as [s1 r1]. cbn [fst snd] in *.
    destruct Hr1 as [Htop|[R1 Hr1]].
    + destruct ar1; try (eapply Sound_of_top; [apply in_flat_map; eexists; split; [exact Hi1|left; reflexivity]|exact Htop]).
      eapply Sound_of_top; [apply in_flat_map; eexists; split; [exact Hi1|]|exact Htop]. cbn.
      rewrite (aexec_top _ _ _ Htop). cbn. unfold aexec_op. rewrite Htop. cbn. left; reflexivity.
    + destruct r1; cbn [abs_res] in Hr1; subst ar1;
        try (eexists; eexists; split; [apply in_flat_map; eexists; split; [exact Hi1|left; reflexivity]|right; split; [exact R1|reflexivity]]).
      destruct (IH p cur s1 a1 R1) as (a2 & ar2 & Hi2 & Hr2).
      destruct (exec H E p cur s1) as [s2 r2]. cbn [fst snd] in *.
      destruct Hr2 as [Htop|[R2 Hr2]].
      * (* body went to top *)
        destruct ar2;
          (eapply Sound_of_top; [apply in_flat_map; eexists; split; [exact Hi1|]; cbn; apply in_flat_map; eexists; split; [exact Hi2|]|exact Htop]);
          cbn; unfold aexec_op; rewrite ?Htop; cbn; left; reflexivity.
      * destruct (exec_op_sound' (snd (with_ops k)) s2 a2 R2) as (a3 & ar3 & Hi3 & Hr3).
        destruct r2; cbn [abs_res] in Hr2; subst ar2.
        -- (* body normal *)
           destruct (exec_op E (snd (with_ops k)) s2) as [s3 r3]. cbn [fst snd] in *.
           destruct Hr3 as [Htop|[R3 Hr3]].
           ++ destruct ar3; (eapply Sound_of_top; [apply in_flat_map; eexists; split; [exact Hi1|]; cbn; apply in_flat_map; eexists; split; [exact Hi2|];
                cbn; apply in_map_iff; eexists; split; [|exact Hi3]; reflexivity|exact Htop]).
           ++ destruct r3; cbn [abs_res] in Hr3; subst ar3;
                (eexists; eexists; split; [apply in_flat_map; eexists; split; [exact Hi1|]; cbn; apply in_flat_map; eexists; split; [exact Hi2|];
                  cbn; apply in_map_iff; eexists; split; [|exact Hi3]; reflexivity|right; split; [exact R3|reflexivity]]).
        -- (* body raised *)
           destruct (exec_op E (snd (with_ops k)) s2) as [s3 r3]. cbn [fst snd] in *.
           destruct Hr3 as [Htop|[R3 Hr3]].
           ++ destruct ar3; (eapply Sound_of_top; [apply in_flat_map; eexists; split; [exact Hi1|]; cbn; apply in_flat_map; eexists; split; [exact Hi2|];
                cbn; apply in_map_iff; eexists; split; [|exact Hi3]; reflexivity|exact Htop]).
           ++ destruct r3; cbn [abs_res] in Hr3; subst ar3;
                (eexists; eexists; split; [apply in_flat_map; eexists; split; [exact Hi1|]; cbn; apply in_flat_map; eexists; split; [exact Hi2|];
                  cbn; apply in_map_iff; eexists; split; [|exact Hi3]; reflexivity|right; split; [exact R3|reflexivity]]).
        -- (* body returned *)
           destruct (exec_op E (snd (with_ops k)) s2) as [s3 r3]. cbn [fst snd] in *.
           destruct Hr3 as [Htop|[R3 Hr3]].
           ++ destruct ar3; (eapply Sound_of_top; [apply in_flat_map; eexists; split; [exact Hi1|]; cbn; apply in_flat_map; eexists; split; [exact Hi2|];
                cbn; apply in_map_iff; eexists; split; [|exact Hi3]; reflexivity|exact Htop]).
           ++ destruct r3; cbn [abs_res] in Hr3; subst ar3;
                (eexists; eexists; split; [apply in_flat_map; eexists; split; [exact Hi1|]; cbn; apply in_flat_map; eexists; split; [exact Hi2|];
                  cbn; apply in_map_iff; eexists; split; [|exact Hi3]; reflexivity|right; split; [exact R3|reflexivity]]).
        -- (* body crashed *)
           eexists; eexists; split; [apply in_flat_map; eexists; split; [exact Hi1|]; cbn; apply in_flat_map; eexists; split; [exact Hi2|]; left; reflexivity|
             right; split; [exact R2|reflexivity]].
  - (* SRaise *) exists a, (ARExn (is_perm cur)). split; [left; reflexivity|right; split; [exact R|reflexivity]].
  - (* SReturn *) exists a, (ARRet r). split; [left; reflexivity|right; split; [exact R|reflexivity]].
Qed.

End Sound.
