(* A small file-system model: finite map  path -> file(bytes, mode) | dir,  with the POSIX-level
   semantics the write path of octave-mcp relies on.  ASSUMPTIONS OF THIS FILE (OS guarantees, not proved,
   reported as `partial` in the evidence): rename(2) is atomic (fs_replace is one step), operations of
   one process take effect in program order, a killed process leaves the directory tree as the last
   completed call left it.  Durability after power loss (what fsync buys) is NOT modelled: fsync is a
   no-op on this state. *)
From OV Require Import Base.Strs.
Open Scope N_scope.

Inductive node := File (d : str) (m : N) | Dir.
Definition fs := list (str * node).

Inductive errno := ENOSPC | EACCES | EPERM | EIO | EINTR | EROFS | ENOENT | ENOTDIR | EOTHER.
(* Python maps EACCES and EPERM to PermissionError; everything else here is a plain OSError/Exception *)
Definition is_perm (e : errno) : bool := match e with EACCES | EPERM => true | _ => false end.
Definition errno_code (e : errno) : N :=
  match e with ENOSPC => 28 | EACCES => 13 | EPERM => 1 | EIO => 5 | EINTR => 4 | EROFS => 30 | ENOENT => 2 | ENOTDIR => 20 | EOTHER => 0 end.

Fixpoint lookup (p : str) (s : fs) : option node :=
  match s with
  | [] => None
  | (q, n) :: s' => if str_eqb p q then Some n else lookup p s'
  end.
Fixpoint remove (p : str) (s : fs) : fs :=
  match s with
  | [] => []
  | (q, n) :: s' => if str_eqb p q then remove p s' else (q, n) :: remove p s'
  end.
Definition set (p : str) (n : node) (s : fs) : fs := (p, n) :: remove p s.

Lemma str_eqb_neq a b : a <> b -> str_eqb a b = false.
Proof. intro H. destruct (str_eqb a b) eqn:E; [|reflexivity]. apply str_eqb_eq in E. contradiction. Qed.

Lemma lookup_remove_same p s : lookup p (remove p s) = None.
Proof. induction s as [|[q n] s IH]; cbn; [reflexivity|]. destruct (str_eqb p q) eqn:E; [exact IH|]. cbn. rewrite E. exact IH. Qed.
Lemma lookup_remove_other p q s : q <> p -> lookup q (remove p s) = lookup q s.
Proof.
  intro Hne. induction s as [|[r n] s IH]; cbn; [reflexivity|].
  destruct (str_eqb p r) eqn:E.
  - apply str_eqb_eq in E. subst r. rewrite (str_eqb_neq q p Hne). exact IH.
  - cbn. destruct (str_eqb q r); [reflexivity|exact IH].
Qed.
Lemma lookup_set_same p n s : lookup p (set p n s) = Some n.
Proof. unfold set. cbn. rewrite str_eqb_refl. reflexivity. Qed.
Lemma lookup_set_other p q n s : q <> p -> lookup q (set p n s) = lookup q s.
Proof. intro Hne. unfold set. cbn. rewrite (str_eqb_neq q p Hne). apply lookup_remove_other; exact Hne. Qed.

(* ---- operations (success semantics; failure/partial effects are chosen by the protocol runner) ---- *)
Definition fs_exists (p : str) (s : fs) : bool := match lookup p s with Some _ => true | None => false end.
Definition fs_is_dir (p : str) (s : fs) : bool := match lookup p s with Some Dir => true | _ => false end.
Definition fs_stat_mode (p : str) (s : fs) : option N := match lookup p s with Some (File _ m) => Some m | Some Dir => Some 493 | None => None end.
Definition fs_read (p : str) (s : fs) : option str := match lookup p s with Some (File d _) => Some d | _ => None end.

(* Path.mkdir(parents=True, exist_ok=True): create every missing directory of the chain (root first) *)
Fixpoint fs_mkdirs (chain : list str) (s : fs) : fs :=
  match chain with
  | [] => s
  | a :: r => fs_mkdirs r (match lookup a s with None => set a Dir s | Some _ => s end)
  end.
(* tempfile.mkstemp(dir=parent): an empty 0600 sibling with a fresh name *)
Definition mode_0600 : N := 384.
Definition fs_mkstemp (t : str) (s : fs) : fs := set t (File [] mode_0600) s.
Definition fs_chmod (t : str) (m : N) (s : fs) : fs :=
  match lookup t s with Some (File d _) => set t (File d m) s | _ => s end.
(* what is in the file after (part of) a write reached it: the data is replaced by d (callers pass a prefix
   of, or the complete, text); writing through an fd whose name was unlinked changes nothing visible *)
Definition fs_setdata (t : str) (d : str) (s : fs) : fs :=
  match lookup t s with Some (File _ m) => set t (File d m) s | _ => s end.
Definition fs_unlink (t : str) (s : fs) : option fs :=
  match lookup t s with Some (File _ _) => Some (remove t s) | _ => None end.
(* os.replace(src, dst): atomic; afterwards dst is src's file and src is gone *)
Definition fs_replace (src dst : str) (s : fs) : option fs :=
  match lookup src s with Some (File d m) => Some (set dst (File d m) (remove src s)) | _ => None end.

Lemma lookup_mkdirs_other chain : forall s p, ~ In p chain -> lookup p (fs_mkdirs chain s) = lookup p s.
Proof.
  induction chain as [|a r IH]; intros s p Hn; cbn; [reflexivity|].
  rewrite IH by (intro; apply Hn; right; assumption).
  destruct (lookup a s); [reflexivity|]. apply lookup_set_other. intro; subst; apply Hn; left; reflexivity.
Qed.
Lemma lookup_mkdirs_dir chain : forall s p, lookup p s = Some Dir -> lookup p (fs_mkdirs chain s) = Some Dir.
Proof.
  induction chain as [|a r IH]; intros s p Hp; cbn; [exact Hp|]. apply IH.
  destruct (lookup a s) eqn:E; [exact Hp|].
  destruct (str_eqb p a) eqn:Ea.
  - apply str_eqb_eq in Ea. subst. congruence.
  - rewrite lookup_set_other; [exact Hp|]. intro; subst. rewrite str_eqb_refl in Ea. discriminate.
Qed.
Lemma mkdirs_all_present chain : forall s, (forall a, In a chain -> lookup a s <> None) -> fs_mkdirs chain s = s.
Proof.
  induction chain as [|a r IH]; intros s Hall; cbn; [reflexivity|].
  destruct (lookup a s) eqn:E; [|exfalso; apply (Hall a); [left; reflexivity|exact E]].
  apply IH. intros b Hb. apply Hall. right; exact Hb.
Qed.

(* prefixes: `firstn k d` for the oracle-chosen k is "any prefix of d" *)
Definition is_prefix (p d : str) : Prop := exists r, d = p ++ r.
Lemma firstn_is_prefix k (d : str) : is_prefix (firstn k d) d.
Proof. exists (skipn k d). symmetry. apply firstn_skipn. Qed.
