(* C17 (sequential part): base_hash is a compare-and-swap on a register.
   spec_step : the abstract register (option bytes) ; impl_step : the GENERATED protocol run on the file
   system without faults.  cas_refines: for ALL histories (any length), outputs and final register agree.
   base_hash on an ABSENT file is not a guard (the tool documents "when file exists"); spec_step says so. *)
From OV Require Import Base.Strs Fs.Fs Fs.ProtoSyntax Fs.WriteProto Fs.Abs Fs.AbsSound Fs.Atomic.
Open Scope N_scope.

Inductive hop :=
  | HExec (m : wmode) (pipe : option str -> option str) (b : option str) (dry : bool)   (* WriteTool.execute *)
  | HAtomic (c : str) (b : option str)                                                   (* atomic_write_octave / CLI *)
  | HExternal (c : option (str * N)).        (* another party installs (bytes, mode) or deletes the file *)
Inductive hres := ROk (h : str) | RFail (c : ecode) | RExt.

Section Cas.
Variable H : str -> str.
Variables target parent tmp : str.
Variable chain : list str.
Variable nval : nat.
Variable orc : nat -> nat.

Definition hash_bad (b : option str) (d : str) : bool :=
  match b with Some bh => negb (str_eqb (H d) bh) | None => false end.
Definition is_cm (m : wmode) : bool := match m with MContent => false | _ => true end.

(* ---- the reference register ---------------------------------------------------------------------------- *)
Definition spec_step (cur : option str) (o : hop) : option str * hres :=
  match o with
  | HExternal c => (option_map fst c, RExt)
  | HExec m pipe b dry =>
      if is_cm m && (match cur with None => true | Some _ => false end) then (cur, RFail E_FILE)
      else if (match cur with Some d => hash_bad b d | None => false end) then (cur, RFail E_HASH)
      else match pipe cur with
           | None => (cur, RFail E_PIPE)
           | Some c => (if dry then cur else Some c, ROk (H c))
           end
  | HAtomic c b =>
      if (match cur with Some d => hash_bad b d | None => false end) then (cur, RFail E_HASH)
      else (Some c, ROk (H c))
  end.

(* ---- the implementation model ---------------------------------------------------------------------------- *)
Definition env_exec (pipe : option str -> option str) (b : option str) (dry : bool) : env :=
  Build_env target parent chain tmp b pipe dry nval (fun _ => FOk) orc.
Definition res_of (o : outcome) : hres :=
  match o with Success h => ROk h | Error c => RFail c | Raised _ => RFail E_WRITE | Crashed => RFail E_WRITE end.
Definition impl_step (s : fs) (o : hop) : fs * hres :=
  match o with
  | HExternal None => (remove target s, RExt)
  | HExternal (Some (c, m)) => (set target (File c m) s, RExt)
  | HExec m pipe b dry => let (st, oc) := run H (env_exec pipe b dry) (PExecute m) s in (fsys st, res_of oc)
  | HAtomic c b => let (st, oc) := run H (env_exec (fun _ => Some c) b false) PAtomic s in (fsys st, res_of oc)
  end.

Fixpoint run_spec (cur : option str) (h : list hop) : option str * list hres :=
  match h with
  | [] => (cur, [])
  | o :: r => let (c1, x) := spec_step cur o in let (c2, xs) := run_spec c1 r in (c2, x :: xs)
  end.
Fixpoint run_impl (s : fs) (h : list hop) : fs * list hres :=
  match h with
  | [] => (s, [])
  | o :: r => let (s1, x) := impl_step s o in let (s2, xs) := run_impl s1 r in (s2, x :: xs)
  end.

(* ---- fault-free abstract check of the generated protocols against the register ------------------------- *)
Definition ares_eqb (x y : ares) : bool :=
  match x, y with
  | ARRet RetOk, ARRet RetOk => true
  | ARRet (RetErr E_FILE), ARRet (RetErr E_FILE) => true
  | ARRet (RetErr E_HASH), ARRet (RetErr E_HASH) => true
  | ARRet (RetErr E_PIPE), ARRet (RetErr E_PIPE) => true
  | _, _ => false
  end.
Definition piped_is (a : ast) (v : aval) : bool :=
  match a_piped a, v with Some VNone, VNone => true | Some VOld, VOld => true | _, _ => false end.
Definition p_cm (p : proto_id) : bool := match p with PExecute m => is_cm m | PAtomic => false end.
Definition p_atomic (p : proto_id) : bool := match p with PAtomic => true | _ => false end.

Definition chk_spec (p : proto_id) (X : aenv) (t : ast * ares) : bool :=
  let (a, ar) := t in
  negb (a_top a) && a_par a && tmp_none a &&
  (if p_cm p && negb (x_ex0 X) then ares_eqb ar (ARRet (RetErr E_FILE)) && tgt_old a
   else if x_ex0 X && x_base X && negb (x_m0 X) then ares_eqb ar (ARRet (RetErr E_HASH)) && tgt_old a
   else if negb (a_cont a) then
     (if p_atomic p then piped_is a VNone
      else ares_eqb ar (ARRet (RetErr E_PIPE)) && tgt_old a && piped_is a (if x_ex0 X then VOld else VNone))
   else ares_eqb ar (ARRet RetOk) && Bool.eqb (tgt_old a) (dry_of p X) &&
        piped_is a (if p_atomic p then VNone else if x_ex0 X then VOld else VNone)).

Definition check_spec : bool :=
  forallb (fun p => forallb (fun X => if x_par0 X then forallb (chk_spec p X) (outcomes X p) else true) (all_aenv [AFOk])) all_protos.
Lemma check_spec_ok : check_spec = true.
Proof. vm_compute. reflexivity. Qed.

(* ---- one step ---------------------------------------------------------------------------------------------- *)
Record paths_ok : Prop := { po1 : tmp <> target; po2 : ~ In target chain; po3 : ~ In tmp chain }.
Definition good (s : fs) : Prop :=
  lookup tmp s = None /\ lookup target s <> Some Dir /\ lookup parent s = Some Dir /\ (forall p, In p chain -> lookup p s <> None).
Hypothesis PO : paths_ok.

Lemma good_wf pipe b dry s : good s -> wf_env (env_exec pipe b dry) s.
Proof. intros (G1 & G2 & _). destruct PO. constructor; cbn; assumption. Qed.

Lemma good_par pipe b dry s : good s -> par_ready (env_exec pipe b dry) s = true.
Proof.
  intros (_ & _ & G3 & G4). unfold par_ready, fs_is_dir. cbn. rewrite G3. cbn.
  apply forallb_forall. intros p Hp. unfold fs_exists. specialize (G4 p Hp). destruct (lookup p s); [reflexivity|congruence].
Qed.

Lemma abs_res_ret r x : abs_res r = ARRet x -> r = RRet x.
Proof. destruct r; cbn; congruence. Qed.
Lemma ares_eqb_eq x y : ares_eqb x y = true -> x = y.
Proof. destruct x as [| |[|[]]|], y as [| |[|[]]|]; cbn; congruence. Qed.

Lemma absf_ok k pipe b dry : In (absf (e_faults (env_exec pipe b dry) k)) [AFOk].
Proof. cbn. left; reflexivity. Qed.

(* what a fault-free run of protocol p does, in register terms *)
Lemma run_refines (p : proto_id) pipe b dry s :
  good s -> (p = PAtomic -> dry = false /\ exists c, pipe = fun _ => Some c) ->
  let E := env_exec pipe b dry in
  let cur := fs_read target s in
  let st := fst (run H E p s) in
  let expected :=
    if p_cm p && (match cur with None => true | Some _ => false end) then (cur, RFail E_FILE)
    else if (match cur with Some d => hash_bad b d | None => false end) then (cur, RFail E_HASH)
    else match pipe (if p_atomic p then None else cur) with
         | None => (cur, RFail E_PIPE)
         | Some c => (if dry then cur else Some c, ROk (H c))
         end in
  good (fsys st) /\ res_of (snd (run H E p s)) = snd expected /\ fs_read target (fsys st) = fst expected.
Proof.
  intros G Hat E cur st expected.
  pose proof (good_wf pipe b dry s G) as W. fold E in W.
  set (X := aenv_of H E s [AFOk]).
  assert (WX : wfX H E s X) by (apply wfX_of; [exact W|intro k; apply absf_ok]).
  destruct (exec_sound H E s X WX (proto_of p) EOTHER (init_pst s) (a_init X) (Rc_init _ _ _ _ WX)) as (a & ar & Hi & Hr).
  pose proof check_spec_ok as Hc. unfold check_spec in Hc. rewrite forallb_forall in Hc.
  specialize (Hc p (in_all_protos p)). rewrite forallb_forall in Hc.
  specialize (Hc X (in_all_aenv _ _ _ _ _ _)).
  assert (Hp0 : x_par0 X = true) by (cbn; apply good_par; exact G). rewrite Hp0 in Hc.
  rewrite forallb_forall in Hc. specialize (Hc (a, ar) Hi).
  unfold chk_spec in Hc.
  destruct (a_top a) eqn:Ht; [cbn in Hc; discriminate|].
  destruct Hr as [Hr|[[RFs RVs] Hr]]; [congruence|].
  unfold st, run. fold (run_res H E p s) in *. change (exec H E (proto_of p) EOTHER (init_pst s)) with (run_res H E p s) in *.
  destruct (run_res H E p s) as [s' r]. cbn [fst snd] in *.
  cbn [negb andb] in Hc.
  destruct (a_par a) eqn:Epar; [|cbn in Hc; discriminate].
  destruct (tmp_none a) eqn:Etn; [|cbn in Hc; discriminate]. cbn [andb] in Hc.
  destruct RFs as (R1 & R2 & R3 & R4 & R5).
  unfold tmp_none in Etn. destruct (a_tmp a); [|discriminate].
  destruct (R3 eq_refl) as [R3a R3b].
  (* facts about the initial register *)
  assert (Hex : x_ex0 X = match cur with Some _ => true | None => false end).
  { unfold cur, fs_read. cbn. destruct (lookup target s) as [[d m|]|]; reflexivity. }
  assert (Hcur : forall d, cur = Some d -> olddata E s = d).
  { unfold cur, fs_read, olddata, old. cbn. destruct (lookup target s) as [[d m|]|]; congruence. }
  assert (Hbad : forall d, cur = Some d -> x_base X && negb (x_m0 X) = hash_bad b d).
  { intros d Hd. cbn. rewrite (Hcur d Hd). unfold hash_ne, hash_bad. cbn. destruct b; cbn; [rewrite negb_involutive; reflexivity|reflexivity]. }
  assert (Gold : lookup target (fsys s') = lookup target s -> good (fsys s') /\ fs_read target (fsys s') = cur).
  { intro Ho. split; [|unfold cur, fs_read; rewrite Ho; reflexivity].
    destruct G as (_ & G2 & _). repeat split; try assumption. rewrite Ho. exact G2. }
  assert (Gnew : forall c, lookup target (fsys s') = Some (File c (fmode E s)) -> good (fsys s') /\ fs_read target (fsys s') = Some c).
  { intros c Hn. split; [|unfold fs_read; rewrite Hn; reflexivity]. repeat split; try assumption. rewrite Hn. discriminate. }
  assert (Hpipe : forall v, piped_is a v = true -> cont s' = pipe (den E s v (cont s'))).
  { intros v Hv. unfold RV in RVs. destruct RVs as (_ & _ & _ & _ & _ & _ & _ & _ & _ & Q). unfold piped_is in Hv.
    destruct (a_piped a) as [[| | |]|]; try discriminate; destruct v; try discriminate; destruct Q as [_ Q]; exact Q. }
  unfold expected. rewrite Hex in Hc.
  destruct cur as [d|] eqn:Ecur.
  - (* the file exists *)
    rewrite andb_false_r. cbn [negb] in Hc. rewrite andb_false_r in Hc. cbn [andb] in Hc.
    rewrite (Hbad d eq_refl) in Hc. destruct (hash_bad b d).
    + apply andb_true_iff in Hc as [Hc1 Hc2]. apply ares_eqb_eq in Hc1. rewrite Hr in Hc1. apply abs_res_ret in Hc1. subst r.
      unfold tgt_old in Hc2. destruct (a_tgt a); [|discriminate]. destruct (Gold R1) as [Gg Gr]. split; [exact Gg|split; [reflexivity|exact Gr]].
    + destruct (a_cont a) eqn:Ec; cbn [negb] in Hc.
      * apply andb_true_iff in Hc as [Hc Hc3]. apply andb_true_iff in Hc as [Hc1 Hc2]. apply ares_eqb_eq in Hc1. rewrite Hr in Hc1. apply abs_res_ret in Hc1. subst r.
        assert (Hcs : exists c, cont s' = Some c) by (unfold RV in RVs; intuition). destruct Hcs as (c & Hcs).
        pose proof (Hpipe _ Hc3) as Hp. rewrite Hcs in Hp.
        assert (Hpc : pipe (if p_atomic p then None else Some d) = Some c).
        { destruct (p_atomic p); cbn [den] in Hp; [symmetry; exact Hp|]. rewrite (Hcur d eq_refl) in Hp. symmetry; exact Hp. }
        rewrite Hpc. cbn [res_of fst snd]. rewrite Hcs.
        apply Bool.eqb_prop in Hc2. unfold tgt_old in Hc2. destruct (a_tgt a).
        -- assert (Hd : dry = true).
           { destruct p; cbn [dry_of] in Hc2; [cbn in Hc2; congruence|discriminate]. }
           subst dry. destruct (Gold R1) as [Gg Gr]. split; [exact Gg|split; [reflexivity|exact Gr]].
        -- assert (Hd : dry = false).
           { destruct p; cbn [dry_of] in Hc2; [cbn in Hc2; congruence|]. destruct (Hat eq_refl) as [Hd _]; exact Hd. }
           subst dry. destruct R1 as (c' & Hc' & Hl). rewrite Hcs in Hc'. inversion Hc'; subst c'.
           destruct (Gnew c Hl) as [Gg Gr]. split; [exact Gg|split; [reflexivity|exact Gr]].
      * destruct (p_atomic p) eqn:Epa.
        -- (* atomic: the text is an argument, cont cannot be None *)
           exfalso. destruct p; [discriminate|]. destruct (Hat eq_refl) as [_ [c Hpc]].
           assert (Hc0 : cont s' = None) by (unfold RV in RVs; intuition).
           pose proof (Hpipe _ Hc) as Hp. rewrite Hc0, Hpc in Hp. discriminate.
        -- apply andb_true_iff in Hc as [Hc Hc3]. apply andb_true_iff in Hc as [Hc1 Hc2]. apply ares_eqb_eq in Hc1. rewrite Hr in Hc1. apply abs_res_ret in Hc1. subst r.
           assert (Hc0 : cont s' = None) by (unfold RV in RVs; intuition).
           pose proof (Hpipe _ Hc3) as Hp. rewrite Hc0 in Hp. cbn [den] in Hp. rewrite (Hcur d eq_refl) in Hp. rewrite <- Hp.
           unfold tgt_old in Hc2. destruct (a_tgt a); [|discriminate]. destruct (Gold R1) as [Gg Gr]. split; [exact Gg|split; [reflexivity|exact Gr]].
  - (* the file is absent *)
    rewrite andb_true_r. cbn [negb] in Hc. rewrite andb_true_r in Hc. cbn [andb] in Hc.
    destruct (p_cm p) eqn:Ecm.
    + apply andb_true_iff in Hc as [Hc1 Hc2]. apply ares_eqb_eq in Hc1. rewrite Hr in Hc1. apply abs_res_ret in Hc1. subst r.
      unfold tgt_old in Hc2. destruct (a_tgt a); [|discriminate]. destruct (Gold R1) as [Gg Gr]. split; [exact Gg|split; [reflexivity|exact Gr]].
    + destruct (a_cont a) eqn:Ec; cbn [negb] in Hc.
      * apply andb_true_iff in Hc as [Hc Hc3]. apply andb_true_iff in Hc as [Hc1 Hc2]. apply ares_eqb_eq in Hc1. rewrite Hr in Hc1. apply abs_res_ret in Hc1. subst r.
        assert (Hcs : exists c, cont s' = Some c) by (unfold RV in RVs; intuition). destruct Hcs as (c & Hcs).
        assert (Hv : piped_is a VNone = true) by (destruct (p_atomic p); exact Hc3).
        pose proof (Hpipe _ Hv) as Hp. rewrite Hcs in Hp. cbn [den] in Hp.
        assert (Hpc : pipe (if p_atomic p then None else None) = Some c) by (destruct (p_atomic p); symmetry; exact Hp).
        rewrite Hpc. cbn [res_of fst snd]. rewrite Hcs.
        apply Bool.eqb_prop in Hc2. unfold tgt_old in Hc2. destruct (a_tgt a).
        -- assert (Hd : dry = true).
           { destruct p; cbn [dry_of] in Hc2; [cbn in Hc2; congruence|discriminate]. }
           subst dry. destruct (Gold R1) as [Gg Gr]. split; [exact Gg|split; [reflexivity|exact Gr]].
        -- assert (Hd : dry = false).
           { destruct p; cbn [dry_of] in Hc2; [cbn in Hc2; congruence|]. destruct (Hat eq_refl) as [Hd _]; exact Hd. }
           subst dry. destruct R1 as (c' & Hc' & Hl). rewrite Hcs in Hc'. inversion Hc'; subst c'.
           destruct (Gnew c Hl) as [Gg Gr]. split; [exact Gg|split; [reflexivity|exact Gr]].
      * destruct (p_atomic p) eqn:Epa.
        -- exfalso. destruct p; [discriminate|]. destruct (Hat eq_refl) as [_ [c Hpc]].
           assert (Hc0 : cont s' = None) by (unfold RV in RVs; intuition).
           pose proof (Hpipe _ Hc) as Hp. rewrite Hc0, Hpc in Hp. discriminate.
        -- apply andb_true_iff in Hc as [Hc Hc3]. apply andb_true_iff in Hc as [Hc1 Hc2]. apply ares_eqb_eq in Hc1. rewrite Hr in Hc1. apply abs_res_ret in Hc1. subst r.
           assert (Hc0 : cont s' = None) by (unfold RV in RVs; intuition).
           pose proof (Hpipe _ Hc3) as Hp. rewrite Hc0 in Hp. cbn [den] in Hp. rewrite <- Hp.
           unfold tgt_old in Hc2. destruct (a_tgt a); [|discriminate]. destruct (Gold R1) as [Gg Gr]. split; [exact Gg|split; [reflexivity|exact Gr]].
Qed.
Lemma parent_ne_target s : good s -> parent <> target.
Proof. intros (_ & G2 & G3 & _) e. rewrite e in G3. congruence. Qed.

Lemma good_set s c m : good s -> good (set target (File c m) s).
Proof.
  intros G. pose proof (parent_ne_target s G) as Hn. destruct G as (G1 & G2 & G3 & G4). destruct PO. repeat split.
  - rewrite lookup_set_other by assumption. exact G1.
  - rewrite lookup_set_same. discriminate.
  - rewrite lookup_set_other by assumption. exact G3.
  - intros p Hp. rewrite lookup_set_other by (intro; subst; contradiction). apply G4; exact Hp.
Qed.
Lemma good_remove s : good s -> good (remove target s).
Proof.
  intros G. pose proof (parent_ne_target s G) as Hn. destruct G as (G1 & G2 & G3 & G4). destruct PO. repeat split.
  - rewrite lookup_remove_other by assumption. exact G1.
  - rewrite lookup_remove_same. discriminate.
  - rewrite lookup_remove_other by assumption. exact G3.
  - intros p Hp. rewrite lookup_remove_other by (intro; subst; contradiction). apply G4; exact Hp.
Qed.

Lemma step_refines s o : good s ->
  good (fst (impl_step s o)) /\ snd (impl_step s o) = snd (spec_step (fs_read target s) o) /\
  fs_read target (fst (impl_step s o)) = fst (spec_step (fs_read target s) o).
Proof.
  intro G. destruct o as [m pipe b dry|c b|[[c m]|]].
  - pose proof (run_refines (PExecute m) pipe b dry s G) as R. cbn [p_cm p_atomic] in R.
    specialize (R (fun e => match e with eq_refl => I end)).
    unfold impl_step. destruct (run H (env_exec pipe b dry) (PExecute m) s) as [st oc]. cbn [fst snd] in *.
    unfold spec_step. exact R.
  - pose proof (run_refines PAtomic (fun _ => Some c) b false s G) as R. cbn [p_cm p_atomic andb] in R.
    specialize (R (fun _ => conj eq_refl (ex_intro _ c eq_refl))).
    unfold impl_step. destruct (run H (env_exec (fun _ => Some c) b false) PAtomic s) as [st oc]. cbn [fst snd] in *.
    unfold spec_step. destruct (match fs_read target s with Some d => hash_bad b d | None => false end); exact R.
  - cbn. split; [apply good_set; exact G|]. split; [reflexivity|]. unfold fs_read. rewrite lookup_set_same. reflexivity.
  - cbn. split; [apply good_remove; exact G|]. split; [reflexivity|]. unfold fs_read. rewrite lookup_remove_same. reflexivity.
Qed.

(* cas_refines: for ALL histories, the outputs and the final register of the protocol model are the spec's *)
Theorem cas_refines h : forall s, good s ->
  snd (run_impl s h) = snd (run_spec (fs_read target s) h) /\
  fs_read target (fst (run_impl s h)) = fst (run_spec (fs_read target s) h) /\ good (fst (run_impl s h)).
Proof.
  induction h as [|o r IH]; intros s G; cbn [run_impl run_spec]; [split; [reflexivity|split; [reflexivity|exact G]]|].
  destruct (step_refines s o G) as (G1 & Hr & Hs).
  destruct (impl_step s o) as [s1 x]. destruct (spec_step (fs_read target s) o) as [c1 y]. cbn [fst snd] in *. subst y c1.
  destruct (IH s1 G1) as (I1 & I2 & I3).
  destruct (run_impl s1 r) as [s2 xs]. destruct (run_spec (fs_read target s1) r) as [c2 ys]. cbn [fst snd] in *.
  split; [rewrite I1; reflexivity|split; [exact I2|exact I3]].
Qed.

(* the register is a CAS: a guarded call changes the register only if the content hashes to base_hash *)
Theorem spec_is_cas cur o d b : cur = Some d -> hash_bad (Some b) d = true ->
  (forall m pipe dry, o = HExec m pipe (Some b) dry -> spec_step cur o = (cur, RFail E_HASH)) /\
  (forall c, o = HAtomic c (Some b) -> spec_step cur o = (cur, RFail E_HASH)).
Proof.
  intros -> Hb. split; intros; subst o; cbn [spec_step].
  - rewrite andb_false_r. rewrite Hb. reflexivity.
  - rewrite Hb. reflexivity.
Qed.

Definition is_write (o : hop) : bool := match o with HExternal _ => false | _ => true end.

(* error_unchanged: a call that returns an error leaves EVERY path of the file system as it was *)
Theorem error_unchanged s o c : good s -> is_write o = true -> snd (impl_step s o) = RFail c ->
  forall q, lookup q (fst (impl_step s o)) = lookup q s.
Proof.
  intros G Hw Hr.
  destruct (step_refines s o G) as (G1 & Hsp & Hreg).
  assert (Hne : c <> E_WRITE).
  { rewrite Hr in Hsp. destruct o as [m pipe b dry|c' b|x]; cbn [spec_step] in Hsp.
    - destruct (is_cm m && _); [cbn in Hsp; congruence|]. destruct (match fs_read target s with Some d => hash_bad b d | None => false end); [cbn in Hsp; congruence|].
      destruct (pipe (fs_read target s)); cbn in Hsp; congruence.
    - destruct (match fs_read target s with Some d => hash_bad b d | None => false end); cbn in Hsp; congruence.
    - discriminate. }
  assert (Gen : forall E p, wf_env E s -> par_ready E s = true -> e_target E = target -> e_tmp E = tmp -> e_chain E = chain ->
            res_of (snd (run H E p s)) = RFail c -> lookup tmp (fsys (fst (run H E p s))) = None ->
            forall q, lookup q (fsys (fst (run H E p s))) = lookup q s).
  { intros E p W Hp Et Em Ec Hres Htmp q.
    assert (He : is_error (snd (run H E p s)) = true).
    { destruct (snd (run H E p s)); cbn in Hres |- *; try reflexivity; congruence. }
    destruct (error_clean H E p s W He) as (K1 & _ & K3). unfold target_is_old in K1.
    destruct (str_eqb q target) eqn:E1; [apply str_eqb_eq in E1; subst q; rewrite <- Et; exact K1|].
    destruct (str_eqb q tmp) eqn:E2; [apply str_eqb_eq in E2; subst q; rewrite Htmp; symmetry; destruct G as (G0 & _); exact G0|].
    destruct (in_dec (list_eq_dec N.eq_dec) q chain) as [Hi|Hn]; [apply (K3 Hp); rewrite Ec; exact Hi|].
    apply frame; [exact W|rewrite Et; intro; subst; rewrite str_eqb_refl in E1; discriminate
                 |rewrite Em; intro; subst; rewrite str_eqb_refl in E2; discriminate|rewrite Ec; exact Hn]. }
  destruct o as [m pipe b dry|c' b|x]; [| |discriminate].
  - unfold impl_step in *. specialize (Gen (env_exec pipe b dry) (PExecute m) (good_wf _ _ _ _ G) (good_par _ _ _ _ G) eq_refl eq_refl eq_refl).
    destruct (run H (env_exec pipe b dry) (PExecute m) s) as [st oc]. cbn [fst snd] in *.
    apply Gen; [exact Hr|destruct G1 as (G0 & _); exact G0].
  - unfold impl_step in *. specialize (Gen (env_exec (fun _ => Some c') b false) PAtomic (good_wf _ _ _ _ G) (good_par _ _ _ _ G) eq_refl eq_refl eq_refl).
    destruct (run H (env_exec (fun _ => Some c') b false) PAtomic s) as [st oc]. cbn [fst snd] in *.
    apply Gen; [exact Hr|destruct G1 as (G0 & _); exact G0].
Qed.

(* dryrun_unchanged: corrections_only leaves every path as it was, whatever it returns *)
Theorem dryrun_unchanged s m pipe b : good s ->
  forall q, lookup q (fst (impl_step s (HExec m pipe b true))) = lookup q s.
Proof.
  intros G q. unfold impl_step.
  pose proof (dryrun_pure H (env_exec pipe b true) m s (good_wf _ _ _ _ G) eq_refl q) as D.
  destruct (run H (env_exec pipe b true) (PExecute m) s) as [st oc]. exact D.
Qed.

(* ---- several writers holding the same base_hash, run one after the other ------------------------------- *)
Definition holds (b : str) (o : hop) : Prop :=
  match o with
  | HExec m pipe (Some b') false => b' = b /\ forall x c, pipe x = Some c -> str_eqb (H c) b = false
  | HAtomic c (Some b') => b' = b /\ str_eqb (H c) b = false
  | _ => False
  end.
Definition is_rok (r : hres) : bool := match r with ROk _ => true | _ => false end.
Definition count_ok (l : list hres) : nat := length (filter is_rok l).

Lemma stale_all_fail b ws : Forall (holds b) ws -> forall d, str_eqb (H d) b = false ->
  count_ok (snd (run_spec (Some d) ws)) = 0%nat /\ fst (run_spec (Some d) ws) = Some d.
Proof.
  induction 1 as [|o r Ho Hr IH]; intros d Hd; cbn [run_spec]; [split; reflexivity|].
  assert (Hs : spec_step (Some d) o = (Some d, RFail E_HASH)).
  { destruct o as [m pipe [b'|] [|]|c [b'|]|x]; cbn in Ho; try contradiction; destruct Ho as [-> Hp]; cbn [spec_step].
    - rewrite andb_false_r. unfold hash_bad. rewrite Hd. reflexivity.
    - unfold hash_bad. rewrite Hd. reflexivity. }
  rewrite Hs. destruct (IH d Hd) as [I1 I2]. destruct (run_spec (Some d) r) as [c2 xs]. cbn [fst snd] in *.
  split; [exact I1|exact I2].
Qed.

Theorem spec_at_most_one b ws : Forall (holds b) ws -> forall cur, (count_ok (snd (run_spec cur ws)) <= 1)%nat.
Proof.
  induction 1 as [|o r Ho Hr IH]; intros cur; cbn [run_spec]; [cbn; lia|].
  destruct (spec_step cur o) as [c1 x] eqn:Es.
  destruct (is_rok x) eqn:Ex.
  - (* this writer succeeded: the register now holds a text whose hash is not b; all later ones fail *)
    assert (Hc1 : exists d, c1 = Some d /\ str_eqb (H d) b = false).
    { destruct o as [m pipe [b'|] [|]|c [b'|]|y]; cbn in Ho; try contradiction; destruct Ho as [-> Hp]; cbn [spec_step] in Es.
      - destruct (is_cm m && _); [inversion Es; subst; discriminate|].
        destruct (match cur with Some d => hash_bad (Some b) d | None => false end); [inversion Es; subst; discriminate|].
        destruct (pipe cur) as [c|] eqn:Ep; inversion Es; subst; [|discriminate]. exists c. split; [reflexivity|exact (Hp _ _ Ep)].
      - destruct (match cur with Some d => hash_bad (Some b) d | None => false end); inversion Es; subst; [discriminate|].
        exists c. split; [reflexivity|exact Hp]. }
    destruct Hc1 as (d & -> & Hd). destruct (stale_all_fail b r Hr d Hd) as [I1 _].
    destruct (run_spec (Some d) r) as [c2 xs]. cbn [fst snd] in *. unfold count_ok in *. cbn [filter]. rewrite Ex. cbn [length]. lia.
  - specialize (IH c1). destruct (run_spec c1 r) as [c2 xs]. cbn [fst snd] in *. unfold count_ok in *. cbn [filter]. rewrite Ex. exact IH.
Qed.

(* serial_at_most_one: writers that all hold the same base_hash and run WITHOUT interleaving (one event
   loop: execute() contains no await, WriteProto.pin_no_await) -- at most one succeeds, in the protocol model *)
Theorem serial_at_most_one b ws s : good s -> Forall (holds b) ws -> (count_ok (snd (run_impl s ws)) <= 1)%nat.
Proof.
  intros G Hw. destruct (cas_refines ws s G) as (Hr & _). rewrite Hr. apply (spec_at_most_one b). exact Hw.
Qed.
End Cas.
