(* Two writers on one existing file, both holding the same base_hash.  Each writer's file-operation
   sequence in WriteTool.execute / atomic_write_octave is: 0 read, 1 compare, 2 write temp, 3 re-read,
   4 compare, 5 replace (program counter 0..5; 6 = done).  A schedule is any merge of the two 6-step
   sequences (false = writer A moves, true = writer B moves).  Granularity: file operations; CPython-level
   preemption inside an operation is not modelled (partial). *)
From OV Require Import Base.Strs.
Open Scope N_scope.

Inductive wstatus := Running | Failed | Succeeded.
Record writer := { w_pc : nat; w_bl : str; w_ver : str; w_st : wstatus }.
Record sys := { s_file : str; s_a : writer; s_b : writer }.

Section TwoWriters.
Variable H : str -> str.
Variable base : str.             (* the base_hash both writers hold *)
Variables newA newB : str.       (* what each wants to install *)

Definition w0 : writer := Build_writer 0 [] [] Running.

(* one file operation of a writer; returns the new file content and writer *)
Definition wstep (new : str) (file : str) (w : writer) : str * writer :=
  match w_st w with
  | Running =>
      match w_pc w with
      | 0%nat => (file, Build_writer 1 file (w_ver w) Running)                                   (* read *)
      | 1%nat => (file, if str_eqb (H (w_bl w)) base then Build_writer 2 (w_bl w) (w_ver w) Running
                        else Build_writer 2 (w_bl w) (w_ver w) Failed)                          (* compare -> E_HASH *)
      | 2%nat => (file, Build_writer 3 (w_bl w) (w_ver w) Running)                               (* write temp *)
      | 3%nat => (file, Build_writer 4 (w_bl w) file Running)                                    (* re-read *)
      | 4%nat => (file, if str_eqb (H (w_ver w)) base then Build_writer 5 (w_bl w) (w_ver w) Running
                        else Build_writer 5 (w_bl w) (w_ver w) Failed)                          (* compare -> E_HASH, temp unlinked *)
      | 5%nat => (new, Build_writer 6 (w_bl w) (w_ver w) Succeeded)                              (* replace *)
      | _ => (file, w)
      end
  | _ => (file, w)          (* a finished writer's remaining slots are no-ops *)
  end.

Definition step (s : sys) (who : bool) : sys :=
  if who then let (f, w) := wstep newB (s_file s) (s_b s) in Build_sys f (s_a s) w
  else let (f, w) := wstep newA (s_file s) (s_a s) in Build_sys f w (s_b s).
Definition run_sched (old : str) (sch : list bool) : sys := fold_left step sch (Build_sys old w0 w0).

Definition succeeded (w : writer) : bool := match w_st w with Succeeded => true | _ => false end.
Definition both_succeed (s : sys) : bool := succeeded (s_a s) && succeeded (s_b s).

(* ---- the variant a repair must establish: re-read + compare + replace is ONE atomic step --------------- *)
Definition wstep_locked (new : str) (file : str) (w : writer) : str * writer :=
  match w_st w with
  | Running =>
      match w_pc w with
      | 0%nat => (file, Build_writer 1 file (w_ver w) Running)
      | 1%nat => (file, if str_eqb (H (w_bl w)) base then Build_writer 2 (w_bl w) (w_ver w) Running
                        else Build_writer 2 (w_bl w) (w_ver w) Failed)
      | 2%nat => (file, Build_writer 3 (w_bl w) (w_ver w) Running)
      | 3%nat => if str_eqb (H file) base then (new, Build_writer 4 (w_bl w) file Succeeded)
                 else (file, Build_writer 4 (w_bl w) file Failed)
      | _ => (file, w)
      end
  | _ => (file, w)
  end.
Definition step_locked (s : sys) (who : bool) : sys :=
  if who then let (f, w) := wstep_locked newB (s_file s) (s_b s) in Build_sys f (s_a s) w
  else let (f, w) := wstep_locked newA (s_file s) (s_a s) in Build_sys f w (s_b s).
Definition run_locked (old : str) (sch : list bool) : sys := fold_left step_locked sch (Build_sys old w0 w0).

Hypothesis HA : str_eqb (H newA) base = false.
Hypothesis HB : str_eqb (H newB) base = false.

Definition LInv (s : sys) : Prop :=
  both_succeed s = false /\
  (succeeded (s_a s) = true \/ succeeded (s_b s) = true -> str_eqb (H (s_file s)) base = false).

Lemma wstep_locked_cases new file w :
  let (f, w') := wstep_locked new file w in
  (f = file /\ succeeded w' = succeeded w) \/
  (str_eqb (H file) base = true /\ f = new /\ succeeded w = false /\ succeeded w' = true).
Proof.
  unfold wstep_locked. destruct w as [pc bl ver st]. cbn [w_st w_pc w_bl w_ver].
  destruct st; try (left; split; reflexivity).
  destruct pc as [|[|[|[|pc]]]]; try (left; split; reflexivity).
  - destruct (str_eqb (H bl) base); left; split; reflexivity.
  - destruct (str_eqb (H file) base) eqn:E; [right; repeat split; reflexivity|left; split; reflexivity].
Qed.

Lemma LInv_step s who : LInv s -> LInv (step_locked s who).
Proof.
  intros [I1 I2]. unfold step_locked. destruct who.
  - pose proof (wstep_locked_cases newB (s_file s) (s_b s)) as C.
    destruct (wstep_locked newB (s_file s) (s_b s)) as [f w']. unfold LInv, both_succeed in *. cbn [s_a s_b s_file].
    destruct C as [[-> Hs]|(Hh & -> & Hs & Hs')].
    + rewrite Hs. split; assumption.
    + rewrite Hs'. destruct (succeeded (s_a s)) eqn:Ea.
      * rewrite (I2 (or_introl eq_refl)) in Hh. discriminate.
      * split; [reflexivity|intros _; exact HB].
  - pose proof (wstep_locked_cases newA (s_file s) (s_a s)) as C.
    destruct (wstep_locked newA (s_file s) (s_a s)) as [f w']. unfold LInv, both_succeed in *. cbn [s_a s_b s_file].
    destruct C as [[-> Hs]|(Hh & -> & Hs & Hs')].
    + rewrite Hs. split; assumption.
    + rewrite Hs'. destruct (succeeded (s_b s)) eqn:Eb.
      * rewrite (I2 (or_intror eq_refl)) in Hh. discriminate.
      * split; [reflexivity|intros _; exact HA].
Qed.

(* for EVERY schedule (any list, any length): at most one writer succeeds *)
Theorem locked_at_most_one old sch : both_succeed (run_locked old sch) = false.
Proof.
  unfold run_locked.
  assert (G : forall s, LInv s -> LInv (fold_left step_locked sch s)).
  { induction sch as [|w r IH]; intros s I; cbn; [exact I|]. apply IH. apply LInv_step. exact I. }
  apply (G (Build_sys old w0 w0)). split; [reflexivity|]. cbn. intros [C|C]; discriminate.
Qed.
End TwoWriters.

(* ---- all merges of the two 6-step sequences ---------------------------------------------------------- *)
Fixpoint merges (n : nat) : nat -> list (list bool) :=
  match n with
  | O => fun m => [repeat true m]
  | S n' => fix inner (m : nat) : list (list bool) :=
      match m with
      | O => [repeat false (S n')]
      | S m' => map (cons false) (merges n' (S m')) ++ map (cons true) (inner m')
      end
  end.

(* position (0-based) in the schedule of the k-th (0-based) step of writer `who` *)
Fixpoint pos_of (who : bool) (k : nat) (sch : list bool) (i : nat) : nat :=
  match sch with
  | [] => i
  | b :: r => if Bool.eqb b who then match k with O => i | S k' => pos_of who k' r (S i) end
              else pos_of who k r (S i)
  end.
(* the window: each writer's re-read (step 3) happens before the other's replace (step 5) *)
Definition in_window (sch : list bool) : bool :=
  Nat.ltb (pos_of false 3 sch 0) (pos_of true 5 sch 0) && Nat.ltb (pos_of true 3 sch 0) (pos_of false 5 sch 0).

(* concrete instance for the finite classification: three distinct contents, hash = identity *)
Definition c_old : str := [111].  Definition c_newA : str := [97].  Definition c_newB : str := [98].
Definition Hid (s : str) : str := s.
Definition run6 (sch : list bool) : sys := run_sched Hid c_old c_newA c_newB c_old sch.

Lemma merges_6_6_count : length (merges 6 6) = 924%nat.
Proof. vm_compute. reflexivity. Qed.

Lemma classified_b : forallb (fun sch => Bool.eqb (both_succeed (run6 sch)) (in_window sch)) (merges 6 6) = true.
Proof. vm_compute. reflexivity. Qed.

(* COMPLETE classification (bound: all 924 merges of two 6-step writers): both succeed EXACTLY in the window *)
Theorem interleavings_classified : forall sch, In sch (merges 6 6) -> both_succeed (run6 sch) = in_window sch.
Proof.
  intros sch Hi. pose proof classified_b as C. rewrite forallb_forall in C. specialize (C sch Hi).
  apply Bool.eqb_prop in C. exact C.
Qed.

Definition witness_sched : list bool :=
  [false; false; false; false; true; true; true; true; false; false; true; true].

Definition two_writers_full : Prop := forall sch, In sch (merges 6 6) -> both_succeed (run6 sch) = false.
Lemma two_writers_refuted : exists sch, In sch (merges 6 6) /\ both_succeed (run6 sch) = true /\
  s_file (run6 sch) = c_newB.     (* A's successful write is lost *)
Proof.
  exists witness_sched. split; [|split; vm_compute; reflexivity].
  assert (Hm : existsb (fun s => if list_eq_dec Bool.bool_dec s witness_sched then true else false) (merges 6 6) = true)
    by (vm_compute; reflexivity).
  apply existsb_exists in Hm. destruct Hm as (x & Hx & He). destruct (list_eq_dec Bool.bool_dec x witness_sched); [subst; exact Hx|discriminate].
Qed.

Definition count_window : nat := length (filter in_window (merges 6 6)).
Lemma count_window_val : count_window = 756%nat /\ length (filter (fun s => both_succeed (run6 s)) (merges 6 6)) = 756%nat.
Proof. vm_compute. split; reflexivity. Qed.

(* serial execution (no interleaving: execute() has no await, WriteProto.pin_no_await): at most one succeeds *)
Lemma serial_two_writers_example :
  both_succeed (run6 (repeat false 6 ++ repeat true 6)) = false /\ both_succeed (run6 (repeat true 6 ++ repeat false 6)) = false.
Proof. vm_compute. split; reflexivity. Qed.
