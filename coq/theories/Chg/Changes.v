(* Faithful model of the changes mode of octave_write (mcp/write.py: _is_delete_sentinel, _normalize_value_for_ast,
   _apply_changes, _apply_mutations), of the simpler loop of `octave write --changes` (cli/main.py), and of the
   removal of Absent values (drop_absent) the emitter performs implicitly.  Documents are Syn.Ast documents.
   The literals ("META.", 5, "META", "$op", "DELETE") are CONSUMED from the translator output Gen/ChangesGen.v. *)
From OV Require Import Base.Strs Gen.ChangesGen Syn.Ast.
Open Scope N_scope.

(* ---- request values: what json.loads / an MCP client can put into `changes` ------------------------------------- *)
Inductive jval :=
| JNull
| JBool (b : bool)
| JNum (isfloat : bool) (canon : str)      (* canon = Python str(value), as in Syn.Ast.VNum *)
| JStr (s : str)
| JList (items : list jval)
| JDict (pairs : list (str * jval)).       (* insertion-ordered dict; keys are unique in Python *)

Definition request := list (str * jval).   (* changes.items() in iteration order *)

Definition s_meta_dot : str := changes_meta_dot_prefix.
Definition s_meta : str := changes_meta_key.
Definition s_op : str := changes_sentinel_key.
Definition s_delete : str := changes_sentinel_value.
Definition meta_cut : nat := N.to_nat changes_meta_slice.

Fixpoint jlookup (k : str) (ps : list (str * jval)) : option jval :=
  match ps with
  | [] => None
  | (k', v) :: r => if str_eqb k' k then Some v else jlookup k r
  end.

Definition is_dict (v : jval) : bool := match v with JDict _ => true | _ => false end.

(* isinstance(value, dict) and value.get("$op") == "DELETE" *)
Definition is_delete_sentinel (v : jval) : bool :=
  match v with
  | JDict ps => match jlookup s_op ps with Some (JStr s) => str_eqb s s_delete | _ => false end
  | _ => false
  end.

(* _normalize_value_for_ast (LiteralZoneValue instances cannot occur in a JSON request) *)
Fixpoint norm_value (v : jval) : value :=
  match v with
  | JNull => VNull
  | JBool b => VBool b
  | JNum f c => VNum f c
  | JStr s => VStr s
  | JList items => VList (map norm_value items)
  | JDict ps => VMap (map (fun kv => (fst kv, norm_value (snd kv))) ps)
  end.

(* ---- document updates ---------------------------------------------------------------------------------------------- *)
Definition with_meta (d : doc) (m : list (str * metaval)) : doc :=
  mkDoc (dname d) (dgrammar d) (dfront d) (dsep d) m (dsections d) (dtrailing d).
Definition with_sections (d : doc) (s : list node) : doc :=
  mkDoc (dname d) (dgrammar d) (dfront d) (dsep d) (dmeta d) s (dtrailing d).

(* isinstance(s, Assignment) and s.key == key *)
Definition is_assign_key (k : str) (n : node) : bool :=
  match n with NAssign k' _ _ _ => str_eqb k' k | _ => false end.

(* section.value = v  (comments of the node are kept) *)
Definition set_value (n : node) (v : value) : node :=
  match n with NAssign k _ l t => NAssign k v l t | _ => n end.

(* the found/break loop followed by `if not found: append(Assignment(key=key, value=v))` *)
Fixpoint set_first_or_append (k : str) (v : value) (ns : list node) : list node :=
  match ns with
  | [] => [NAssign k v [] None]
  | n :: r => if is_assign_key k n then set_value n v :: r else n :: set_first_or_append k v r
  end.

Definition delete_key (k : str) (ns : list node) : list node := filter (fun n => negb (is_assign_key k n)) ns.

(* del d[k] / d.pop(k, None) on an association list (a Python dict has at most one entry per key) *)
Definition dict_del {A} (d : list (str * A)) (k : str) : list (str * A) := filter (fun kv => negb (str_eqb (fst kv) k)) d.

Definition meta_merge1 (m : list (str * metaval)) (kv : str * jval) : list (str * metaval) :=
  if is_delete_sentinel (snd kv) then dict_del m (fst kv) else dict_set m (fst kv) (MV (norm_value (snd kv))).

Definition dict_pairs (v : jval) : list (str * jval) := match v with JDict ps => ps | _ => [] end.

(* one iteration of the loop of _apply_changes: the guard chain in source order *)
Definition apply_change (d : doc) (key : str) (v : jval) : doc :=
  if prefixb s_meta_dot key then
    let field := skipn meta_cut key in
    if is_delete_sentinel v then with_meta d (dict_del (dmeta d) field)
    else with_meta d (dict_set (dmeta d) field (MV (norm_value v)))
  else if str_eqb key s_meta && is_dict v then
    if is_delete_sentinel v then with_meta d []
    else with_meta d (fold_left meta_merge1 (dict_pairs v) (dmeta d))
  else if is_delete_sentinel v then with_sections d (delete_key key (dsections d))
  else with_sections d (set_first_or_append key (norm_value v) (dsections d)).

Definition apply_changes (d : doc) (ch : request) : doc :=
  fold_left (fun d kv => apply_change d (fst kv) (snd kv)) ch d.

(* _apply_mutations: META only; `if not mutations: return` is the empty fold *)
Definition apply_mutation (d : doc) (key : str) (v : jval) : doc :=
  if is_delete_sentinel v then with_meta d (dict_del (dmeta d) key)
  else with_meta d (dict_set (dmeta d) key (MV (norm_value v))).
Definition apply_mutations (d : doc) (ms : request) : doc :=
  fold_left (fun d kv => apply_mutation d (fst kv) (snd kv)) ms d.

(* WriteTool.execute in changes mode: _apply_changes then _apply_mutations *)
Definition execute_changes (d : doc) (ch ms : request) : doc := apply_mutations (apply_changes d ch) ms.

(* a sequence of octave_write(changes=...) calls on the same file (each call re-reads what the previous wrote; the
   re-read is the identity on the C01/C02 domain) *)
Definition apply_seq (d : doc) (reqs : list request) : doc := fold_left apply_changes reqs d.

(* ---- which keys a request names ------------------------------------------------------------------------------------ *)
Definition routes_top (key : str) (v : jval) : bool :=
  negb (prefixb s_meta_dot key) && negb (str_eqb key s_meta && is_dict v).
Definition top_keys (ch : request) : list str :=
  map fst (filter (fun kv => routes_top (fst kv) (snd kv)) ch).
(* a top-level node no request key addresses: every block, section, comment, and every assignment with another key *)
Definition untouched (ch : request) (n : node) : bool :=
  negb (existsb (fun k => is_assign_key k n) (top_keys ch)).

Definition meta_names (key : str) (v : jval) (k : str) : bool :=
  (prefixb s_meta_dot key && str_eqb (skipn meta_cut key) k) ||
  (negb (prefixb s_meta_dot key) && str_eqb key s_meta && is_dict v &&
   (is_delete_sentinel v || existsb (fun p => str_eqb (fst p) k) (dict_pairs v))).
Definition meta_named (ch : request) (k : str) : bool := existsb (fun kv => meta_names (fst kv) (snd kv) k) ch.

(* ---- META as a sequence of primitive dictionary operations -------------------------------------------------------- *)
Inductive mop := MSet (k : str) (v : jval) | MDel (k : str) | MClear.
Definition run_mop (m : list (str * metaval)) (o : mop) : list (str * metaval) :=
  match o with
  | MSet k v => dict_set m k (MV (norm_value v))
  | MDel k => dict_del m k
  | MClear => []
  end.
Definition mop_of (k : str) (v : jval) : mop := if is_delete_sentinel v then MDel k else MSet k v.
Definition meta_ops (key : str) (v : jval) : list mop :=
  if prefixb s_meta_dot key then [mop_of (skipn meta_cut key) v]
  else if str_eqb key s_meta && is_dict v then
    if is_delete_sentinel v then [MClear] else map (fun p => mop_of (fst p) (snd p)) (dict_pairs v)
  else [].
Definition request_meta_ops (ch : request) : list mop := flat_map (fun kv => meta_ops (fst kv) (snd kv)) ch.

(* the last primitive operation that concerns key k: None = none, Some None = removed, Some (Some v) = set to v *)
Fixpoint mop_last (ops : list mop) (k : str) : option (option jval) :=
  match ops with
  | [] => None
  | o :: r =>
      match mop_last r k with
      | Some x => Some x
      | None => match o with
                | MSet k' v => if str_eqb k' k then Some (Some v) else None
                | MDel k' => if str_eqb k' k then Some None else None
                | MClear => Some None
                end
      end
  end.

Fixpoint dict_get {A} (d : list (str * A)) (k : str) : option A :=
  match d with
  | [] => None
  | (k', v) :: r => if str_eqb k' k then Some v else dict_get r k
  end.

(* the last request entry that addresses top-level key k *)
Fixpoint top_last (ch : request) (k : str) : option jval :=
  match ch with
  | [] => None
  | (key, v) :: r =>
      match top_last r k with
      | Some x => Some x
      | None => if routes_top key v && str_eqb key k then Some v else None
      end
  end.

(* ---- the CLI loop (cli/main.py write --changes): no sentinel, no normalisation, META replaced ------------------- *)
(* A raw Python list / dict stored as a value is emitted through str(): outside the AST model -> None. *)
Definition raw_scalar (v : jval) : option value :=
  match v with
  | JNull => Some VNull | JBool b => Some (VBool b) | JNum f c => Some (VNum f c) | JStr s => Some (VStr s)
  | _ => None
  end.
Fixpoint raw_pairs (ps : list (str * jval)) : option (list (str * value)) :=
  match ps with
  | [] => Some []
  | (k, v) :: r => match raw_scalar v, raw_pairs r with
                   | Some x, Some r' => Some ((k, x) :: r') | _, _ => None end
  end.
(* a META value: scalar, or a raw dict of scalars (emit_meta prints it as a nested block) *)
Definition raw_metaval (v : jval) : option metaval :=
  match v with
  | JDict ps => match raw_pairs ps with Some r => Some (MD r) | None => None end
  | _ => match raw_scalar v with Some x => Some (MV x) | None => None end
  end.
Fixpoint raw_meta (ps : list (str * jval)) : option (list (str * metaval)) :=
  match ps with
  | [] => Some []
  | (k, v) :: r => match raw_metaval v, raw_meta r with
                   | Some x, Some r' => Some ((k, x) :: r') | _, _ => None end
  end.

Definition cli_apply_change (d : doc) (key : str) (v : jval) : option doc :=
  if prefixb s_meta_dot key then
    match raw_metaval v with
    | Some x => Some (with_meta d (dict_set (dmeta d) (skipn meta_cut key) x))
    | None => None
    end
  else if str_eqb key s_meta && is_dict v then
    match raw_meta (dict_pairs v) with
    | Some m => Some (with_meta d m)             (* doc.meta = value.copy(): replaces the block *)
    | None => None
    end
  else match raw_scalar v with
       | Some x => Some (with_sections d (set_first_or_append key x (dsections d)))
       | None => None
       end.
Fixpoint cli_apply_changes (d : doc) (ch : request) : option doc :=
  match ch with
  | [] => Some d
  | (k, v) :: r => match cli_apply_change d k v with Some d' => cli_apply_changes d' r | None => None end
  end.

(* ---- Absent ------------------------------------------------------------------------------------------------------------ *)
Fixpoint drop_value (v : value) : value :=
  match v with
  | VList items => VList (flat_map (fun it => if is_absent it then [] else [drop_value it]) items)
  | VMap ps => VMap (flat_map (fun p => if is_absent (snd p) then [] else [(fst p, drop_value (snd p))]) ps)
  | _ => v
  end.
Fixpoint drop_node (n : node) : list node :=
  match n with
  | NAssign k v l t => if is_absent v then [] else [NAssign k (drop_value v) l t]
  | NBlock k t ch l => [NBlock k t (flat_map drop_node ch) l]
  | NSection i k a ch l => [NSection i k a (flat_map drop_node ch) l]
  | NComment _ => [n]
  end.
Definition drop_pairs (ps : list (str * value)) : list (str * value) :=
  flat_map (fun p => if is_absent (snd p) then [] else [(fst p, drop_value (snd p))]) ps.
Definition drop_meta (m : list (str * metaval)) : list (str * metaval) :=
  flat_map (fun kv => match snd kv with
                      | MV v => if is_absent v then [] else [(fst kv, MV (drop_value v))]
                      | MD ps => [(fst kv, MD (drop_pairs ps))]
                      end) m.
Definition drop_absent (d : doc) : doc :=
  mkDoc (dname d) (dgrammar d) (dfront d) (dsep d) (drop_meta (dmeta d)) (flat_map drop_node (dsections d)) (dtrailing d).

(* no Absent anywhere *)
Fixpoint value_absent_free (v : value) : bool :=
  match v with
  | VAbsent => false
  | VList items => forallb value_absent_free items
  | VMap ps => forallb (fun p => value_absent_free (snd p)) ps
  | _ => true
  end.
Fixpoint node_absent_free (n : node) : bool :=
  match n with
  | NAssign _ v _ _ => value_absent_free v
  | NBlock _ _ ch _ => forallb node_absent_free ch
  | NSection _ _ _ ch _ => forallb node_absent_free ch
  | NComment _ => true
  end.
Definition meta_absent_free (m : list (str * metaval)) : bool :=
  forallb (fun kv => match snd kv with
                     | MV v => value_absent_free v
                     | MD ps => forallb (fun p => value_absent_free (snd p)) ps
                     end) m.
Definition doc_absent_free (d : doc) : bool := meta_absent_free (dmeta d) && forallb node_absent_free (dsections d).

(* the one emission site where Absent leaves a trace: a non-empty META whose every field is Absent *)
Definition is_mv_absent (mv : metaval) : bool := match mv with MV VAbsent => true | _ => false end.
Definition meta_all_absent (d : doc) : bool :=
  match dmeta d with [] => false | m => forallb (fun kv => is_mv_absent (snd kv)) m end.
