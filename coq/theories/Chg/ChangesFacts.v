(* C18 proofs.
   Part 1: an Absent value is never written.  Proved against the shared emitter model Syn.Emitter for ALL documents:
           emit d = emit (drop_absent d), unconditionally (since /repo 1d4faf6 a META whose fields are all Absent leaves
           no blank line; regression Example all_absent_meta_regression); null, "" and [] are three texts.
   Part 2: what a changes request does to a document -- for ALL documents and ALL requests. *)
From OV Require Import Base.Strs Gen.EmitterGen Gen.ChangesGen Syn.Escape Syn.Quote Syn.Ast Syn.Emitter Lex.Lexer Syn.Parser Chg.Changes.
Require Coq.Strings.String.
Import Coq.Strings.String.StringSyntax.
Open Scope N_scope.

(* ---- nested induction principles for Syn.Ast ------------------------------------------------------------------------ *)
Section value_ind_nested.
  Variable P : value -> Prop.
  Hypothesis Hleaf : forall v, match v with VList _ | VMap _ => False | _ => True end -> P v.
  Hypothesis Hlist : forall items, Forall P items -> P (VList items).
  Hypothesis Hmap : forall ps, Forall (fun p => P (snd p)) ps -> P (VMap ps).
  Fixpoint value_ind' (v : value) : P v :=
    match v with
    | VList items => Hlist items ((fix go (l : list value) : Forall P l :=
                        match l with [] => Forall_nil _ | x :: r => Forall_cons x (value_ind' x) (go r) end) items)
    | VMap ps => Hmap ps ((fix go (l : list (str * value)) : Forall (fun p => P (snd p)) l :=
                        match l with [] => Forall_nil _ | x :: r => Forall_cons x (value_ind' (snd x)) (go r) end) ps)
    | VNull => Hleaf VNull I
    | VBool b => Hleaf (VBool b) I
    | VNum f c => Hleaf (VNum f c) I
    | VStr s => Hleaf (VStr s) I
    | VHolo r => Hleaf (VHolo r) I
    | VZone c t m => Hleaf (VZone c t m) I
    | VAbsent => Hleaf VAbsent I
    end.
End value_ind_nested.

Section node_ind_nested.
  Variable P : node -> Prop.
  Hypothesis Hassign : forall k v l t, P (NAssign k v l t).
  Hypothesis Hcomment : forall t, P (NComment t).
  Hypothesis Hblock : forall k t ch l, Forall P ch -> P (NBlock k t ch l).
  Hypothesis Hsection : forall i k a ch l, Forall P ch -> P (NSection i k a ch l).
  Fixpoint node_ind' (n : node) : P n :=
    match n with
    | NAssign k v l t => Hassign k v l t
    | NComment t => Hcomment t
    | NBlock k t ch l => Hblock k t ch l ((fix go (x : list node) : Forall P x :=
                           match x with [] => Forall_nil _ | y :: r => Forall_cons y (node_ind' y) (go r) end) ch)
    | NSection i k a ch l => Hsection i k a ch l ((fix go (x : list node) : Forall P x :=
                           match x with [] => Forall_nil _ | y :: r => Forall_cons y (node_ind' y) (go r) end) ch)
    end.
End node_ind_nested.

(* ---- emit_value on lists and maps, unfolded once --------------------------------------------------------------------- *)
Definition map_part (ev : value -> nat -> str) (i : nat) (pairs : list (str * value)) : list str :=
  flat_map (fun p : str * value => if is_absent (snd p) then []
                     else [fst p ++ s_assign ++ force_quote (fst p) (snd p) (ev (snd p) i)]) pairs.
Definition ml_item (ev : value -> nat -> str) (indent : nat) (it : value) : list str :=
  match it with
  | VAbsent => []
  | VMap pairs => let ps := map_part ev (S indent) pairs in match ps with [] => [] | _ => [join [c_comma] ps] end
  | _ => [ev it (S indent)]
  end.
Definition sl_item (ev : value -> nat -> str) (indent : nat) (it : value) : list str :=
  match it with
  | VAbsent => []
  | VMap pairs => if map_has_present pairs then [ev it indent] else []
  | _ => [ev it indent]
  end.
Definition ml_text (indent : nat) (parts : list str) : str :=
  match parts with
  | [] => s_empty_list
  | _ =>
      let n := length parts in
      let fix lines (ps : list str) (i : nat) : list str :=
        match ps with
        | [] => []
        | p :: ps' => (ind (S indent) ++ p ++ (if Nat.ltb (S i) n then [c_comma] else [])) :: lines ps' (S i)
        end in
      join [c_nl] (s_lb :: lines parts O ++ [ind indent ++ s_rb])
  end.
Definition list_text (ev : value -> nat -> str) (items : list value) (indent : nat) : str :=
  match items with
  | [] => s_empty_list
  | _ => if needs_multiline items then ml_text indent (flat_map (ml_item ev indent) items)
         else s_lb ++ join [c_comma] (flat_map (sl_item ev indent) items) ++ s_rb
  end.

Lemma emit_value_list items i : emit_value (VList items) i = list_text emit_value items i.
Proof. destruct items; reflexivity. Qed.
Lemma emit_value_map ps i : emit_value (VMap ps) i = s_lb ++ join [c_comma] (map_part emit_value i ps) ++ s_rb.
Proof. reflexivity. Qed.

Definition drop_items (items : list value) : list value :=
  flat_map (fun it => if is_absent it then [] else [drop_value it]) items.
Lemma drop_value_list items : drop_value (VList items) = VList (drop_items items).
Proof. reflexivity. Qed.
Lemma drop_value_map ps : drop_value (VMap ps) = VMap (drop_pairs ps).
Proof. reflexivity. Qed.

Lemma is_absent_drop v : is_absent (drop_value v) = is_absent v.
Proof. destruct v; reflexivity. Qed.
Lemma force_quote_drop k v s : force_quote k (drop_value v) s = force_quote k v s.
Proof. destruct v; reflexivity. Qed.

Lemma map_has_present_drop ps : map_has_present (drop_pairs ps) = map_has_present ps.
Proof.
  unfold map_has_present, drop_pairs. induction ps as [|p r IH]; [reflexivity|].
  cbn [flat_map existsb]. destruct (is_absent (snd p)) eqn:E; cbn [app negb orb].
  - exact IH.
  - cbn [existsb snd]. rewrite is_absent_drop, E. reflexivity.
Qed.

Lemma ml_trigger_drop v : ml_trigger (drop_value v) = ml_trigger v.
Proof. destruct v; try reflexivity. rewrite drop_value_map. cbn [ml_trigger]. apply map_has_present_drop. Qed.
Lemma ml_counts_drop v : ml_counts (drop_value v) = ml_counts v.
Proof. destruct v; reflexivity. Qed.

Lemma needs_multiline_drop items : needs_multiline (drop_items items) = needs_multiline items.
Proof.
  unfold needs_multiline. f_equal.
  - unfold drop_items. induction items as [|a r IH]; [reflexivity|].
    cbn [flat_map existsb]. destruct (is_absent a) eqn:E.
    + destruct a; try discriminate. cbn [app ml_trigger orb]. exact IH.
    + cbn [app existsb]. rewrite ml_trigger_drop, IH. reflexivity.
  - do 2 f_equal. unfold drop_items. induction items as [|a r IH]; [reflexivity|].
    cbn [flat_map filter]. destruct (is_absent a) eqn:E.
    + destruct a; try discriminate. cbn [app ml_counts]. exact IH.
    + cbn [app filter]. rewrite ml_counts_drop. destruct (ml_counts a); cbn [length]; rewrite IH; reflexivity.
Qed.

(* the induction predicate: the value prints the same, and for a map also its pair list does *)
Definition drop_ok (v : value) : Prop :=
  (forall i, emit_value (drop_value v) i = emit_value v i) /\
  match v with
  | VMap ps => forall i, map_part emit_value i (drop_pairs ps) = map_part emit_value i ps
  | _ => True
  end.

Lemma map_part_drop ps : Forall (fun p => drop_ok (snd p)) ps ->
  forall i, map_part emit_value i (drop_pairs ps) = map_part emit_value i ps.
Proof.
  intros H i. unfold map_part, drop_pairs. induction H as [|p r Hp _ IH]; [reflexivity|].
  cbn [flat_map]. destruct (is_absent (snd p)) eqn:E; cbn [app].
  - exact IH.
  - cbn [flat_map fst snd]. rewrite is_absent_drop, E. cbn [app]. rewrite force_quote_drop.
    destruct Hp as [Hp _]. rewrite Hp. f_equal. exact IH.
Qed.

Lemma ml_item_drop i v : drop_ok v -> is_absent v = false -> ml_item emit_value i (drop_value v) = ml_item emit_value i v.
Proof.
  intros [H1 H2] Ha. destruct v; try reflexivity; try discriminate.
  - unfold ml_item. rewrite drop_value_list, <- drop_value_list. rewrite H1. reflexivity.
  - rewrite drop_value_map. unfold ml_item. rewrite H2. reflexivity.
Qed.
Lemma sl_item_drop i v : drop_ok v -> is_absent v = false -> sl_item emit_value i (drop_value v) = sl_item emit_value i v.
Proof.
  intros [H1 H2] Ha. destruct v; try reflexivity; try discriminate.
  - unfold sl_item. rewrite drop_value_list, <- drop_value_list. rewrite H1. reflexivity.
  - rewrite drop_value_map. unfold sl_item. rewrite map_has_present_drop. rewrite <- drop_value_map, H1. reflexivity.
Qed.

Lemma items_part_drop (f : value -> list str) items :
  f VAbsent = [] -> Forall (fun v => is_absent v = false -> f (drop_value v) = f v) items ->
  flat_map f (drop_items items) = flat_map f items.
Proof.
  intros Hf H. unfold drop_items. induction H as [|a r Ha _ IH]; [reflexivity|].
  cbn [flat_map]. destruct (is_absent a) eqn:E.
  - destruct a; try discriminate. rewrite Hf. cbn [app]. exact IH.
  - cbn [app flat_map]. rewrite (Ha eq_refl), IH. reflexivity.
Qed.

Lemma needs_multiline_nil : needs_multiline [] = false.
Proof. reflexivity. Qed.

Lemma drop_ok_all v : drop_ok v.
Proof.
  induction v using value_ind'.
  - split; destruct v; try contradiction; try reflexivity; exact I.
  - split; [|exact I]. intro i. rewrite drop_value_list, !emit_value_list.
    assert (Hml : flat_map (ml_item emit_value i) (drop_items items) = flat_map (ml_item emit_value i) items).
    { apply items_part_drop; [reflexivity|]. eapply Forall_impl; [|exact H]. intros a Ha E. apply ml_item_drop; assumption. }
    assert (Hsl : flat_map (sl_item emit_value i) (drop_items items) = flat_map (sl_item emit_value i) items).
    { apply items_part_drop; [reflexivity|]. eapply Forall_impl; [|exact H]. intros a Ha E. apply sl_item_drop; assumption. }
    pose proof (needs_multiline_drop items) as Hnm.
    unfold list_text. destruct items as [|a r]; [reflexivity|].
    destruct (drop_items (a :: r)) as [|x l] eqn:E.
    + rewrite <- Hnm, needs_multiline_nil, <- Hsl. reflexivity.
    + rewrite Hnm, Hml, Hsl. reflexivity.
  - assert (Hp : forall i, map_part emit_value i (drop_pairs ps) = map_part emit_value i ps) by (apply map_part_drop; exact H).
    split; [|exact Hp]. intro i. rewrite drop_value_map, !emit_value_map, Hp. reflexivity.
Qed.

Theorem emit_value_drop v i : emit_value (drop_value v) i = emit_value v i.
Proof. apply drop_ok_all. Qed.

(* ---- nodes ------------------------------------------------------------------------------------------------------------- *)
Definition child_lines (j : nat) (ch : node) : list str :=
  match ch with
  | NAssign [] (VZone content tag marker) _ _ => zone_lines j content tag marker
  | _ => emit_node_lines ch j
  end.

Lemma emit_block_unfold k t ch l j :
  emit_node_lines (NBlock k t ch l) j =
  emit_leading l j ++
  [ind j ++ k ++ (match truthy t with Some x => [c_lbr; 8594; 167] ++ x ++ [c_rbr] | None => [] end) ++ [c_colon]] ++
  flat_map (child_lines (S j)) ch.
Proof. reflexivity. Qed.
Lemma emit_section_unfold i k a ch l j :
  emit_node_lines (NSection i k a ch l) j =
  emit_leading l j ++
  [ind j ++ [167] ++ i ++ s_assign ++ k ++ (match truthy a with Some x => [c_lbr] ++ x ++ [c_rbr] | None => [] end)] ++
  flat_map (fun c => emit_node_lines c (S j)) ch.
Proof. reflexivity. Qed.

Lemma emit_assignment_lines_drop k v l t j :
  emit_assignment_lines k (drop_value v) l t j = emit_assignment_lines k v l t j.
Proof.
  destruct v; try reflexivity.
  - unfold emit_assignment_lines. rewrite drop_value_list, <- drop_value_list.
    rewrite force_quote_drop, emit_value_drop. reflexivity.
  - unfold emit_assignment_lines. rewrite drop_value_map, <- drop_value_map.
    rewrite force_quote_drop, emit_value_drop. reflexivity.
Qed.

Definition node_ok (n : node) : Prop :=
  forall j, flat_map (fun m => emit_node_lines m j) (drop_node n) = emit_node_lines n j /\
            flat_map (child_lines j) (drop_node n) = child_lines j n.

Lemma flat_map_drop_nodes (f : node -> list str) ns :
  Forall (fun n => flat_map f (drop_node n) = f n) ns -> flat_map f (flat_map drop_node ns) = flat_map f ns.
Proof.
  intro H. induction H as [|n r Hn _ IH]; [reflexivity|].
  cbn [flat_map]. rewrite flat_map_app, Hn, IH. reflexivity.
Qed.

Lemma node_ok_all n : node_ok n.
Proof.
  induction n using node_ind'; intro j.
  - cbn [drop_node]. destruct (is_absent v) eqn:E.
    + destruct v; try discriminate. split; [reflexivity|]. destruct k; reflexivity.
    + cbn [flat_map]. rewrite !app_nil_r. split.
      * cbn [emit_node_lines]. rewrite is_absent_drop, E. apply emit_assignment_lines_drop.
      * assert (Hn : emit_node_lines (NAssign k (drop_value v) l t) j = emit_node_lines (NAssign k v l t) j).
        { cbn [emit_node_lines]. rewrite is_absent_drop, E. apply emit_assignment_lines_drop. }
        unfold child_lines. destruct k as [|c k'].
        -- destruct v; try exact Hn. reflexivity.
        -- exact Hn.
  - split; cbn [drop_node flat_map]; rewrite app_nil_r; reflexivity.
  - cbn [drop_node flat_map]. rewrite !app_nil_r.
    assert (E : emit_node_lines (NBlock k t (flat_map drop_node ch) l) j = emit_node_lines (NBlock k t ch l) j).
    { rewrite !emit_block_unfold. do 2 f_equal. apply flat_map_drop_nodes.
      eapply Forall_impl; [|exact H]. intros a Ha. apply Ha. }
    split; exact E.
  - cbn [drop_node flat_map]. rewrite !app_nil_r.
    assert (E : emit_node_lines (NSection i k a (flat_map drop_node ch) l) j = emit_node_lines (NSection i k a ch l) j).
    { rewrite !emit_section_unfold. do 2 f_equal. apply flat_map_drop_nodes.
      eapply Forall_impl; [|exact H]. intros b Hb. apply Hb. }
    split; exact E.
Qed.

Theorem emit_nodes_drop ns j :
  flat_map (fun n => emit_node_lines n j) (flat_map drop_node ns) = flat_map (fun n => emit_node_lines n j) ns.
Proof. apply flat_map_drop_nodes. apply Forall_forall. intros n _. apply node_ok_all. Qed.

Definition top_lines (n : node) : list str := match n with NComment _ => [] | _ => emit_node_lines n 0 end.

Lemma top_lines_drop ns : flat_map top_lines (flat_map drop_node ns) = flat_map top_lines ns.
Proof.
  apply flat_map_drop_nodes. apply Forall_forall. intros n _.
  destruct (node_ok_all n 0%nat) as [H _]. destruct n.
  - cbn [drop_node] in *. destruct (is_absent v); exact H.
  - exact H.
  - exact H.
  - reflexivity.
Qed.

(* ---- META ---------------------------------------------------------------------------------------------------------------- *)
Definition meta_entry_lines (kv : str * metaval) : list str :=
  match snd kv with
  | MV v => if is_absent v then [] else [ind 1 ++ fst kv ++ s_assign ++ emit_value v 1]
  | MD pairs =>
      (ind 1 ++ fst kv ++ [c_colon]) ::
      flat_map (fun p => if is_absent (snd p) then [] else [ind 2 ++ fst p ++ s_assign ++ emit_value (snd p) 2]) pairs
  end.
Lemma emit_meta_lines_unfold m : emit_meta_lines m = flat_map meta_entry_lines m.
Proof. reflexivity. Qed.

Lemma fm_cons {A B} (f : A -> list B) a l : flat_map f (a :: l) = f a ++ flat_map f l.
Proof. reflexivity. Qed.

Definition drop_meta_entry (kv : str * metaval) : list (str * metaval) :=
  match snd kv with
  | MV v => if is_absent v then [] else [(fst kv, MV (drop_value v))]
  | MD ps => [(fst kv, MD (drop_pairs ps))]
  end.
Lemma drop_meta_unfold m : drop_meta m = flat_map drop_meta_entry m.
Proof. reflexivity. Qed.

Lemma nested_pairs_drop ps :
  flat_map (fun p : str * value => if is_absent (snd p) then [] else [ind 2 ++ fst p ++ s_assign ++ emit_value (snd p) 2]) (drop_pairs ps) =
  flat_map (fun p : str * value => if is_absent (snd p) then [] else [ind 2 ++ fst p ++ s_assign ++ emit_value (snd p) 2]) ps.
Proof.
  unfold drop_pairs. induction ps as [|p q IHp]; [reflexivity|].
  rewrite !fm_cons, flat_map_app, IHp. f_equal.
  destruct (is_absent (snd p)) eqn:E; [reflexivity|].
  rewrite fm_cons. cbn [fst snd flat_map]. rewrite is_absent_drop, E, emit_value_drop. reflexivity.
Qed.

Lemma meta_entry_drop kv : flat_map meta_entry_lines (drop_meta_entry kv) = meta_entry_lines kv.
Proof.
  destruct kv as [k mv]. unfold drop_meta_entry. cbn [snd fst]. destruct mv as [v|ps].
  - destruct (is_absent v) eqn:E.
    + unfold meta_entry_lines. cbn [snd flat_map]. rewrite E. reflexivity.
    + rewrite fm_cons. cbn [flat_map]. rewrite app_nil_r. unfold meta_entry_lines. cbn [snd fst].
      rewrite is_absent_drop, E, emit_value_drop. reflexivity.
  - rewrite fm_cons. cbn [flat_map]. rewrite app_nil_r. unfold meta_entry_lines. cbn [snd fst]. f_equal.
    apply nested_pairs_drop.
Qed.

Lemma emit_meta_lines_drop m : emit_meta_lines (drop_meta m) = emit_meta_lines m.
Proof.
  rewrite !emit_meta_lines_unfold, drop_meta_unfold. induction m as [|kv r IH]; [reflexivity|].
  rewrite !fm_cons, flat_map_app, IH, meta_entry_drop. reflexivity.
Qed.

Definition all_mv_absent (m : list (str * metaval)) : bool := forallb (fun kv => is_mv_absent (snd kv)) m.

Lemma meta_lines_nil_iff m : emit_meta_lines m = [] <-> all_mv_absent m = true.
Proof.
  rewrite emit_meta_lines_unfold. unfold all_mv_absent. induction m as [|[k mv] r IH]; [split; reflexivity|].
  cbn [flat_map forallb snd]. split.
  - intro H. apply app_eq_nil in H as [H1 H2]. apply IH in H2. rewrite H2, andb_true_r.
    destruct mv as [v|ps]; [|discriminate H1]. unfold meta_entry_lines in H1. cbn [snd] in H1.
    destruct v; try discriminate H1. reflexivity.
  - intro H. apply andb_true_iff in H as [H1 H2]. apply IH in H2. rewrite H2, app_nil_r.
    destruct mv as [v|ps]; [|discriminate H1]. destruct v; try discriminate H1. reflexivity.
Qed.

Lemma drop_meta_all_absent m : all_mv_absent m = true -> drop_meta m = [].
Proof.
  unfold all_mv_absent, drop_meta. induction m as [|[k mv] r IH]; [reflexivity|].
  cbn [forallb flat_map snd]. intro H. apply andb_true_iff in H as [H1 H2]. rewrite (IH H2), app_nil_r.
  destruct mv as [v|ps]; [|discriminate H1]. destruct v; try discriminate H1. reflexivity.
Qed.

Definition meta_part (m : list (str * metaval)) : list str :=
  match m with
  | [] => []
  | _ :: _ => match emit_meta_lines m with
              | [] => []                    (* emit_meta returned "": nothing is appended (/repo 1d4faf6) *)
              | ls => s_meta_hdr :: ls
              end
  end.

Lemma meta_part_eq m : meta_part m = match emit_meta_lines m with [] => [] | ls => s_meta_hdr :: ls end.
Proof. destruct m; reflexivity. Qed.

Lemma meta_part_drop m : meta_part (drop_meta m) = meta_part m.
Proof. rewrite !meta_part_eq, emit_meta_lines_drop. reflexivity. Qed.

(* a META whose fields are all Absent prints nothing at all *)
Lemma meta_part_all_absent m : all_mv_absent m = true -> meta_part m = [].
Proof. intro H. rewrite meta_part_eq, (proj2 (meta_lines_nil_iff m) H). reflexivity. Qed.

(* ---- documents ----------------------------------------------------------------------------------------------------------- *)
Definition head_lines (sp : N -> bool) (d : doc) : list str :=
  (match dfront d with
   | Some f => if forallb sp f then [] else [s_sep; f; s_sep; []]
   | None => []
   end) ++
  (match truthy (dgrammar d) with Some g => [s_octave ++ g] | None => [] end) ++
  [s_env ++ dname d ++ s_env].
Definition body_lines (d : doc) : list str := flat_map top_lines (dsections d).
Definition foot_lines (d : doc) : list str := emit_leading (dtrailing d) 0 ++ [s_end].
Definition sep_lines (d : doc) : list str := if dsep d then [s_sep] else [].

(* emit is compositional: head, META block, separator, one chunk of lines per top-level node, foot *)
Theorem emit_compositional sp d :
  emit_lines sp d = head_lines sp d ++ meta_part (dmeta d) ++ sep_lines d ++ body_lines d ++ foot_lines d.
Proof.
  unfold emit_lines, head_lines, body_lines, foot_lines, sep_lines, meta_part, top_lines.
  rewrite <- !app_assoc. destruct (dmeta d); reflexivity.
Qed.

(* unconditional since /repo 1d4faf6 (before it, a non-empty all-Absent META left an empty line) *)
Theorem absent_never_emitted sp d : emit sp (drop_absent d) = emit sp d.
Proof.
  unfold emit. do 2 f_equal. rewrite !emit_compositional.
  unfold head_lines, body_lines, foot_lines, sep_lines, drop_absent. cbn [dfront dgrammar dname dmeta dsep dsections dtrailing].
  rewrite top_lines_drop, meta_part_drop. reflexivity.
Qed.

(* regression of finding C18-meta-all-absent-blank-line: the all-Absent META document prints exactly the text of the
   document without META *)
Definition blank_meta_doc : doc := mkDoc (lit "D") None None false [(lit "X", MV VAbsent); (lit "Y", MV VAbsent)] [NAssign (lit "K") (VNum false (lit "1")) [lit "c"; []] None] [].
Definition no_meta_doc : doc := mkDoc (lit "D") None None false [] [NAssign (lit "K") (VNum false (lit "1")) [lit "c"; []] None] [].
Example all_absent_meta_regression :
  meta_all_absent blank_meta_doc = true /\
  emit (fun _ => false) blank_meta_doc = emit (fun _ => false) no_meta_doc /\
  emit (fun _ => false) blank_meta_doc = lit "===D===" ++ [c_nl] ++ lit "// c" ++ [c_nl] ++ lit "//" ++ [c_nl] ++ lit "K::1" ++ [c_nl] ++ lit "===END===" ++ [c_nl].
Proof. repeat split; vm_compute; reflexivity. Qed.

(* drop_absent really removes every Absent *)
Lemma forallb_flat_map {A B} (f : B -> bool) (g : A -> list B) l :
  forallb f (flat_map g l) = forallb (fun a => forallb f (g a)) l.
Proof. induction l as [|a r IH]; [reflexivity|]. cbn [flat_map forallb]. rewrite forallb_app, IH. reflexivity. Qed.

Lemma drop_value_absent_free v : is_absent v = false -> value_absent_free (drop_value v) = true.
Proof.
  induction v using value_ind'; intro Ha.
  - destruct v; try contradiction; try reflexivity. discriminate.
  - rewrite drop_value_list. cbn [value_absent_free]. unfold drop_items. rewrite forallb_flat_map.
    apply forallb_forall. intros a Hin. rewrite Forall_forall in H. specialize (H a Hin).
    destruct (is_absent a); [reflexivity|]. cbn [forallb]. rewrite H; reflexivity.
  - rewrite drop_value_map. cbn [value_absent_free]. unfold drop_pairs. rewrite forallb_flat_map.
    apply forallb_forall. intros p Hin. rewrite Forall_forall in H. specialize (H p Hin).
    destruct (is_absent (snd p)); [reflexivity|]. cbn [forallb snd]. rewrite H; reflexivity.
Qed.

Lemma drop_node_absent_free n : forallb node_absent_free (drop_node n) = true.
Proof.
  induction n using node_ind'.
  - cbn [drop_node]. destruct (is_absent v) eqn:E; [reflexivity|]. cbn [forallb node_absent_free].
    rewrite drop_value_absent_free; [reflexivity|exact E].
  - reflexivity.
  - cbn [drop_node forallb node_absent_free]. rewrite andb_true_r, forallb_flat_map.
    apply forallb_forall. intros a Hin. rewrite Forall_forall in H. apply H. exact Hin.
  - cbn [drop_node forallb node_absent_free]. rewrite andb_true_r, forallb_flat_map.
    apply forallb_forall. intros b Hin. rewrite Forall_forall in H. apply H. exact Hin.
Qed.

Theorem drop_absent_free d : doc_absent_free (drop_absent d) = true.
Proof.
  unfold doc_absent_free, drop_absent. cbn [dmeta dsections]. apply andb_true_iff. split.
  - unfold meta_absent_free, drop_meta. rewrite forallb_flat_map. apply forallb_forall. intros [k mv] _.
    cbn [snd fst]. destruct mv as [v|ps].
    + destruct (is_absent v) eqn:E; [reflexivity|]. cbn [forallb snd]. rewrite drop_value_absent_free; [reflexivity|exact E].
    + cbn [forallb snd]. rewrite andb_true_r. unfold drop_pairs. rewrite forallb_flat_map.
      apply forallb_forall. intros p _. destruct (is_absent (snd p)) eqn:E; [reflexivity|].
      cbn [forallb snd]. rewrite drop_value_absent_free; [reflexivity|exact E].
  - rewrite forallb_flat_map. apply forallb_forall. intros n _. apply drop_node_absent_free.
Qed.

(* a document without Absent is a fixed point: drop_absent changes nothing there *)
Lemma drop_value_id v : value_absent_free v = true -> drop_value v = v.
Proof.
  induction v using value_ind'; intro Hf.
  - destruct v; try contradiction; reflexivity.
  - rewrite drop_value_list. f_equal. cbn [value_absent_free] in Hf. unfold drop_items.
    induction H as [|a r Ha _ IH]; [reflexivity|]. cbn [forallb] in Hf. apply andb_true_iff in Hf as [H1 H2].
    cbn [flat_map]. assert (E : is_absent a = false) by (destruct a; try reflexivity; discriminate H1).
    rewrite E, (Ha H1), (IH H2). reflexivity.
  - rewrite drop_value_map. f_equal. cbn [value_absent_free] in Hf. unfold drop_pairs.
    induction H as [|[k a] r Ha _ IH]; [reflexivity|]. cbn [forallb snd] in Hf. apply andb_true_iff in Hf as [H1 H2].
    cbn [flat_map snd fst]. assert (E : is_absent a = false) by (destruct a; try reflexivity; discriminate H1).
    cbn [snd] in Ha. rewrite E, (Ha H1), (IH H2). reflexivity.
Qed.

(* ---- null, "" and [] are three different texts at every position ---------------------------------------------------------- *)
Lemma emit_null i : emit_value VNull i = lit "null". Proof. reflexivity. Qed.
Lemma emit_empty_string i : emit_value (VStr []) i = [c_dq; c_dq]. Proof. vm_compute. reflexivity. Qed.
Lemma emit_empty_list i : emit_value (VList []) i = [c_lbr; c_rbr]. Proof. reflexivity. Qed.
Lemma emit_empty_map i : emit_value (VMap []) i = [c_lbr; c_rbr]. Proof. reflexivity. Qed.

Lemma force_quote_empty_string k : force_quote k (VStr []) [c_dq; c_dq] = [c_dq; c_dq].
Proof. unfold force_quote. cbn [prefixb]. rewrite N.eqb_refl. cbn [andb negb]. rewrite andb_false_r. reflexivity. Qed.

Theorem null_empty_distinct_lines k l t j :
  emit_assignment_lines k VNull l t j = emit_leading l j ++ [ind j ++ k ++ s_assign ++ lit "null" ++ emit_trailing t] /\
  emit_assignment_lines k (VStr []) l t j = emit_leading l j ++ [ind j ++ k ++ s_assign ++ [c_dq; c_dq] ++ emit_trailing t] /\
  emit_assignment_lines k (VList []) l t j = emit_leading l j ++ [ind j ++ k ++ s_assign ++ [c_lbr; c_rbr] ++ emit_trailing t] /\
  emit_assignment_lines k VNull l t j <> emit_assignment_lines k (VStr []) l t j /\
  emit_assignment_lines k VNull l t j <> emit_assignment_lines k (VList []) l t j /\
  emit_assignment_lines k (VStr []) l t j <> emit_assignment_lines k (VList []) l t j.
Proof.
  assert (E1 : emit_assignment_lines k VNull l t j = emit_leading l j ++ [ind j ++ k ++ s_assign ++ lit "null" ++ emit_trailing t]) by reflexivity.
  assert (E2 : emit_assignment_lines k (VStr []) l t j = emit_leading l j ++ [ind j ++ k ++ s_assign ++ [c_dq; c_dq] ++ emit_trailing t]).
  { unfold emit_assignment_lines. rewrite emit_empty_string, force_quote_empty_string. reflexivity. }
  assert (E3 : emit_assignment_lines k (VList []) l t j = emit_leading l j ++ [ind j ++ k ++ s_assign ++ [c_lbr; c_rbr] ++ emit_trailing t]) by reflexivity.
  rewrite E1, E2, E3. repeat split; intro H; apply app_inv_head in H; injection H as H;
    repeat apply app_inv_head in H; discriminate H.
Qed.

(* read-back level, on the parser model: one document with null, "" and [] at every kind of position (META, top-level
   assignment, list item, inline-map value, block child) is read back from its canonical text as itself *)
Definition null_empty_doc : doc :=
  mkDoc (lit "D") None None false [(lit "MN", MV VNull); (lit "MS", MV (VStr [])); (lit "ML", MV (VList []))]
    [NAssign (lit "A") VNull [] None; NAssign (lit "B") (VStr []) [] None; NAssign (lit "C") (VList []) [] None;
     NAssign (lit "L") (VList [VNull; VStr []; VList []; VMap [(lit "k", VNull)]; VMap [(lit "s", VStr [])]]) [] None;
     NBlock (lit "BLK") None [NAssign (lit "A") VNull [] None; NAssign (lit "B") (VStr []) [] None; NAssign (lit "C") (VList []) [] None] []]
    [].
Definition lines_of (t : str) : list (str * str) := map (fun l => (l, l)) (split_on c_nl t).
Theorem null_empty_readback :
  parse_model (fun _ => 0) (fun _ => None) (fun _ => false) true (lines_of (emit (fun _ => false) null_empty_doc)) =
  PRDoc null_empty_doc [] [].
Proof. vm_compute. reflexivity. Qed.

(* ======================= Part 2: changes ======================= *)

(* ---- one loop iteration, projected on the document fields -------------------------------------------------------------- *)
Definition sec_step (ns : list node) (key : str) (v : jval) : list node :=
  if routes_top key v then
    if is_delete_sentinel v then delete_key key ns else set_first_or_append key (norm_value v) ns
  else ns.

Lemma apply_change_sections d key v : dsections (apply_change d key v) = sec_step (dsections d) key v.
Proof.
  unfold apply_change, sec_step, routes_top.
  destruct (prefixb s_meta_dot key); cbn [negb andb].
  - destruct (is_delete_sentinel v); reflexivity.
  - destruct (str_eqb key s_meta && is_dict v); cbn [negb]; destruct (is_delete_sentinel v); reflexivity.
Qed.

Lemma run_mop_of m k v : run_mop m (mop_of k v) = meta_merge1 m (k, v).
Proof. unfold mop_of, meta_merge1. cbn [fst snd]. destruct (is_delete_sentinel v); reflexivity. Qed.

Lemma fold_merge_ops ps : forall m,
  fold_left run_mop (map (fun p => mop_of (fst p) (snd p)) ps) m = fold_left meta_merge1 ps m.
Proof.
  induction ps as [|[k v] r IH]; intro m; [reflexivity|].
  cbn [map fold_left fst snd]. rewrite run_mop_of. apply IH.
Qed.

Lemma apply_change_meta d key v : dmeta (apply_change d key v) = fold_left run_mop (meta_ops key v) (dmeta d).
Proof.
  unfold apply_change, meta_ops.
  destruct (prefixb s_meta_dot key).
  - cbn [fold_left]. rewrite run_mop_of. unfold meta_merge1. cbn [fst snd]. destruct (is_delete_sentinel v); reflexivity.
  - destruct (str_eqb key s_meta && is_dict v).
    + destruct (is_delete_sentinel v); [reflexivity|]. rewrite fold_merge_ops. reflexivity.
    + destruct (is_delete_sentinel v); reflexivity.
Qed.

Lemma apply_change_header d key v :
  dname (apply_change d key v) = dname d /\ dgrammar (apply_change d key v) = dgrammar d /\
  dfront (apply_change d key v) = dfront d /\ dsep (apply_change d key v) = dsep d /\
  dtrailing (apply_change d key v) = dtrailing d.
Proof.
  unfold apply_change. destruct (prefixb s_meta_dot key); [destruct (is_delete_sentinel v); repeat split|].
  destruct (str_eqb key s_meta && is_dict v); destruct (is_delete_sentinel v); repeat split.
Qed.

Lemma apply_changes_cons d key v r : apply_changes d ((key, v) :: r) = apply_changes (apply_change d key v) r.
Proof. reflexivity. Qed.
Lemma apply_changes_app d a b : apply_changes d (a ++ b) = apply_changes (apply_changes d a) b.
Proof. unfold apply_changes. apply fold_left_app. Qed.

Theorem changes_header_frame ch : forall d,
  dname (apply_changes d ch) = dname d /\ dgrammar (apply_changes d ch) = dgrammar d /\
  dfront (apply_changes d ch) = dfront d /\ dsep (apply_changes d ch) = dsep d /\
  dtrailing (apply_changes d ch) = dtrailing d.
Proof.
  induction ch as [|[key v] r IH]; intro d; [repeat split|].
  rewrite apply_changes_cons. destruct (IH (apply_change d key v)) as (A & B & C & D & E).
  destruct (apply_change_header d key v) as (A' & B' & C' & D' & E'). repeat split; congruence.
Qed.

(* ---- keys ------------------------------------------------------------------------------------------------------------------ *)
Lemma is_assign_key_set_value k n v : is_assign_key k (set_value n v) = is_assign_key k n.
Proof. destruct n; reflexivity. Qed.

Lemma is_assign_key_other k k' n : is_assign_key k' n = true -> k' <> k -> is_assign_key k n = false.
Proof.
  destruct n; cbn [is_assign_key]; try discriminate. intros H Hne.
  apply str_eqb_eq in H. subst. destruct (str_eqb k' k) eqn:E; [|reflexivity].
  apply str_eqb_eq in E. contradiction.
Qed.

Lemma is_assign_key_self k v l t : is_assign_key k (NAssign k v l t) = true.
Proof. cbn. apply str_eqb_refl. Qed.

(* ---- frame -------------------------------------------------------------------------------------------------------------------- *)
Lemma filter_sfoa (P : node -> bool) k v ns :
  (forall n, is_assign_key k n = true -> P n = false) ->
  filter P (set_first_or_append k v ns) = filter P ns.
Proof.
  intro H. induction ns as [|n r IH].
  - cbn [set_first_or_append filter]. rewrite (H _ (is_assign_key_self k v [] None)). reflexivity.
  - cbn [set_first_or_append]. destruct (is_assign_key k n) eqn:E.
    + cbn [filter]. rewrite (H n E). rewrite H; [reflexivity|]. rewrite is_assign_key_set_value. exact E.
    + cbn [filter]. rewrite IH. reflexivity.
Qed.

Lemma filter_delete_key (P : node -> bool) k ns :
  (forall n, is_assign_key k n = true -> P n = false) ->
  filter P (delete_key k ns) = filter P ns.
Proof.
  intro H. unfold delete_key. induction ns as [|n r IH]; [reflexivity|].
  cbn [filter]. destruct (is_assign_key k n) eqn:E; cbn [negb].
  - rewrite (H n E). exact IH.
  - cbn [filter]. rewrite IH. reflexivity.
Qed.

Lemma top_keys_cons key v r : top_keys ((key, v) :: r) = if routes_top key v then key :: top_keys r else top_keys r.
Proof. unfold top_keys. cbn [filter fst snd]. destruct (routes_top key v); reflexivity. Qed.

Theorem changes_frame_gen (P : node -> bool) ch : forall d,
  (forall k, In k (top_keys ch) -> forall n, is_assign_key k n = true -> P n = false) ->
  filter P (dsections (apply_changes d ch)) = filter P (dsections d).
Proof.
  induction ch as [|[key v] r IH]; intros d H; [reflexivity|].
  rewrite apply_changes_cons. rewrite top_keys_cons in H. rewrite IH.
  - rewrite apply_change_sections. unfold sec_step. destruct (routes_top key v) eqn:R; [|reflexivity].
    assert (Hk : forall n, is_assign_key key n = true -> P n = false) by (apply H; left; reflexivity).
    destruct (is_delete_sentinel v); [apply filter_delete_key|apply filter_sfoa]; exact Hk.
  - intros k Hin. apply H. destruct (routes_top key v); [right|]; exact Hin.
Qed.

Lemma untouched_spec ch k n : In k (top_keys ch) -> is_assign_key k n = true -> untouched ch n = false.
Proof.
  intros Hin Hk. unfold untouched. apply negb_false_iff. apply existsb_exists. exists k. split; assumption.
Qed.

(* the top-level nodes no request key addresses are the same nodes, in the same order, before and after *)
Theorem changes_frame d ch :
  filter (untouched ch) (dsections (apply_changes d ch)) = filter (untouched ch) (dsections d).
Proof. apply changes_frame_gen. intros k Hin n Hk. apply (untouched_spec ch k n Hin Hk). Qed.

(* ... hence their emitted lines are identical *)
Theorem changes_frame_lines d ch :
  flat_map top_lines (filter (untouched ch) (dsections (apply_changes d ch))) =
  flat_map top_lines (filter (untouched ch) (dsections d)).
Proof. rewrite changes_frame. reflexivity. Qed.

(* blocks, sections and comments are never touched, whatever the request names *)
Definition is_structural (n : node) : bool := match n with NAssign _ _ _ _ => false | _ => true end.
Theorem changes_structural_frame d ch :
  filter is_structural (dsections (apply_changes d ch)) = filter is_structural (dsections d).
Proof. apply changes_frame_gen. intros k _ n Hk. destruct n; try discriminate Hk. reflexivity. Qed.

Lemma filter_true {A} (l : list A) : filter (fun _ => true) l = l.
Proof. induction l as [|a r IH]; [reflexivity|]. cbn. rewrite IH. reflexivity. Qed.

Theorem changes_sections_untouched d ch : top_keys ch = [] -> dsections (apply_changes d ch) = dsections d.
Proof.
  intro H. rewrite <- (filter_true (dsections (apply_changes d ch))), <- (filter_true (dsections d)).
  apply changes_frame_gen. rewrite H. intros k [].
Qed.

(* ---- final state of a top-level key ------------------------------------------------------------------------------------------ *)
Definition top_find (k : str) (d : doc) : option node := find (is_assign_key k) (dsections d).

Lemma find_sfoa_same k v ns : exists l t, find (is_assign_key k) (set_first_or_append k v ns) = Some (NAssign k v l t).
Proof.
  induction ns as [|n r IH].
  - exists [], None. cbn [set_first_or_append find]. rewrite is_assign_key_self. reflexivity.
  - cbn [set_first_or_append]. destruct (is_assign_key k n) eqn:E.
    + destruct n as [k' v' l t| | |]; try discriminate E. cbn [is_assign_key] in E. apply str_eqb_eq in E. subst k'.
      exists l, t. cbn [set_value find]. rewrite is_assign_key_self. reflexivity.
    + destruct IH as (l & t & IH). exists l, t. cbn [find]. rewrite E. exact IH.
Qed.

Lemma find_sfoa_other k k' v ns : k' <> k ->
  find (is_assign_key k) (set_first_or_append k' v ns) = find (is_assign_key k) ns.
Proof.
  intro Hne. induction ns as [|n r IH].
  - cbn [set_first_or_append find]. rewrite (is_assign_key_other k k' _ (is_assign_key_self k' v [] None) Hne). reflexivity.
  - cbn [set_first_or_append]. destruct (is_assign_key k' n) eqn:E.
    + cbn [find]. rewrite (is_assign_key_other k k' n E Hne).
      rewrite (is_assign_key_other k k' (set_value n v)); [reflexivity| |exact Hne].
      rewrite is_assign_key_set_value. exact E.
    + cbn [find]. rewrite IH. reflexivity.
Qed.

Lemma find_delete_same k ns : find (is_assign_key k) (delete_key k ns) = None.
Proof.
  unfold delete_key. induction ns as [|n r IH]; [reflexivity|].
  cbn [filter]. destruct (is_assign_key k n) eqn:E; cbn [negb]; [exact IH|]. cbn [find]. rewrite E. exact IH.
Qed.

Lemma find_delete_other k k' ns : k' <> k -> find (is_assign_key k) (delete_key k' ns) = find (is_assign_key k) ns.
Proof.
  intro Hne. unfold delete_key. induction ns as [|n r IH]; [reflexivity|].
  cbn [filter]. destruct (is_assign_key k' n) eqn:E; cbn [negb].
  - cbn [find]. rewrite (is_assign_key_other k k' n E Hne). exact IH.
  - cbn [find]. rewrite IH. reflexivity.
Qed.

Definition top_state (k : str) (after : doc) (o : option jval) (before : option node) : Prop :=
  match o with
  | None => top_find k after = before
  | Some v => if is_delete_sentinel v then top_find k after = None
              else exists l t, top_find k after = Some (NAssign k (norm_value v) l t)
  end.

(* the last request entry naming k decides: DELETE -> no such assignment; otherwise (null included) the first
   assignment with that key carries exactly the normalised value; not named -> as before *)
Theorem changes_final_top ch : forall d k, top_state k (apply_changes d ch) (top_last ch k) (top_find k d).
Proof.
  induction ch as [|[key v] r IH]; intros d k; [reflexivity|].
  rewrite apply_changes_cons. specialize (IH (apply_change d key v) k).
  cbn [top_last]. destruct (top_last r k) as [x|]; [exact IH|].
  unfold top_state in IH. unfold top_find in *. rewrite apply_change_sections in IH. unfold sec_step in IH.
  destruct (routes_top key v) eqn:R; cbn [andb].
  - destruct (str_eqb key k) eqn:E.
    + apply str_eqb_eq in E. subst key. unfold top_state, top_find. rewrite IH.
      destruct (is_delete_sentinel v); [apply find_delete_same|apply find_sfoa_same].
    + assert (Hne : key <> k) by (intro X; subst; rewrite str_eqb_refl in E; discriminate).
      unfold top_state, top_find. rewrite IH.
      destruct (is_delete_sentinel v); [apply find_delete_other|apply find_sfoa_other]; exact Hne.
  - unfold top_state, top_find. exact IH.
Qed.

(* ---- single requests on a top-level key --------------------------------------------------------------------------------------- *)
Theorem changes_delete d k v : routes_top k v = true -> is_delete_sentinel v = true ->
  dsections (apply_change d k v) = delete_key k (dsections d) /\
  forall n, In n (dsections (apply_change d k v)) -> is_assign_key k n = false.
Proof.
  intros R S. rewrite apply_change_sections. unfold sec_step. rewrite R, S. split; [reflexivity|].
  intros n Hin. unfold delete_key in Hin. apply filter_In in Hin as [_ H]. apply negb_true_iff in H. exact H.
Qed.

(* DELETE removes every duplicate of the key and nothing else *)
Theorem changes_delete_exact d k v : routes_top k v = true -> is_delete_sentinel v = true ->
  forall n, In n (dsections (apply_change d k v)) <-> In n (dsections d) /\ is_assign_key k n = false.
Proof.
  intros R S n. rewrite apply_change_sections. unfold sec_step. rewrite R, S. unfold delete_key.
  rewrite filter_In, negb_true_iff. reflexivity.
Qed.

Lemma routes_top_null k : routes_top k JNull = negb (prefixb s_meta_dot k).
Proof. unfold routes_top. cbn [is_dict]. rewrite andb_false_r. cbn [negb]. apply andb_true_r. Qed.

(* None keeps the key, with value null *)
Theorem changes_null d k : prefixb s_meta_dot k = false ->
  exists l t, top_find k (apply_change d k JNull) = Some (NAssign k VNull l t).
Proof.
  intro H. unfold top_find. rewrite apply_change_sections. unfold sec_step. rewrite routes_top_null, H. cbn [negb is_delete_sentinel].
  apply find_sfoa_same.
Qed.

(* first occurrence set (its comments kept), everything else identical; appended without comments if fresh *)
Theorem sfoa_spec k v ns :
  (existsb (is_assign_key k) ns = false /\ set_first_or_append k v ns = ns ++ [NAssign k v [] None]) \/
  (exists l1 old l t l2, ns = l1 ++ NAssign k old l t :: l2 /\ existsb (is_assign_key k) l1 = false /\
                         set_first_or_append k v ns = l1 ++ NAssign k v l t :: l2).
Proof.
  induction ns as [|n r IH].
  - left. split; reflexivity.
  - cbn [set_first_or_append existsb]. destruct (is_assign_key k n) eqn:E.
    + right. destruct n as [k' v' l t| | |]; try discriminate E. cbn [is_assign_key] in E. apply str_eqb_eq in E. subst k'.
      exists [], v', l, t, r. repeat split.
    + destruct IH as [[H1 H2]|(l1 & old & l & t & l2 & H1 & H2 & H3)].
      * left. cbn [orb]. split; [exact H1|]. rewrite H2. reflexivity.
      * right. exists (n :: l1), old, l, t, l2. subst r. repeat split.
        -- cbn [existsb]. rewrite E, H2. reflexivity.
        -- rewrite H3. reflexivity.
Qed.

Theorem changes_set d k v : routes_top k v = true -> is_delete_sentinel v = false ->
  let ns := dsections d in let ns' := dsections (apply_change d k v) in
  (existsb (is_assign_key k) ns = false /\ ns' = ns ++ [NAssign k (norm_value v) [] None]) \/
  (exists l1 old l t l2, ns = l1 ++ NAssign k old l t :: l2 /\ existsb (is_assign_key k) l1 = false /\
                         ns' = l1 ++ NAssign k (norm_value v) l t :: l2).
Proof.
  intros R S. cbn zeta. rewrite apply_change_sections. unfold sec_step. rewrite R, S. apply sfoa_spec.
Qed.

Definition value_of (n : node) : option value := match n with NAssign _ v _ _ => Some v | _ => None end.

Lemma filter_key_sfoa k v ns :
  filter (is_assign_key k) (set_first_or_append k v ns) =
  match filter (is_assign_key k) ns with
  | [] => [NAssign k v [] None]
  | n :: r => set_value n v :: r
  end.
Proof.
  induction ns as [|n r IH].
  - cbn [set_first_or_append filter]. rewrite is_assign_key_self. reflexivity.
  - cbn [set_first_or_append filter]. destruct (is_assign_key k n) eqn:E.
    + cbn [filter]. rewrite is_assign_key_set_value, E. reflexivity.
    + cbn [filter]. rewrite E. exact IH.
Qed.

(* with at most one assignment of that key, every assignment of the key carries exactly the value *)
Theorem changes_set_unique d k v : routes_top k v = true -> is_delete_sentinel v = false ->
  (length (filter (is_assign_key k) (dsections d)) <= 1)%nat ->
  forall n, In n (dsections (apply_change d k v)) -> is_assign_key k n = true -> value_of n = Some (norm_value v).
Proof.
  intros R S Hc n Hin Hk. rewrite apply_change_sections in Hin. unfold sec_step in Hin. rewrite R, S in Hin.
  assert (Hf : In n (filter (is_assign_key k) (set_first_or_append k (norm_value v) (dsections d)))) by (apply filter_In; split; assumption).
  rewrite filter_key_sfoa in Hf. destruct (filter (is_assign_key k) (dsections d)) as [|a [|b r]] eqn:F.
  - destruct Hf as [<-|[]]. reflexivity.
  - destruct Hf as [<-|[]]. assert (Ha : In a (filter (is_assign_key k) (dsections d))) by (rewrite F; left; reflexivity).
    apply filter_In in Ha as [_ Ha]. destruct a; try discriminate Ha. reflexivity.
  - cbn [length] in Hc. lia.
Qed.

Definition changes_set_full : Prop := forall d k v, routes_top k v = true -> is_delete_sentinel v = false ->
  forall n, In n (dsections (apply_change d k v)) -> is_assign_key k n = true -> value_of n = Some (norm_value v).

Definition dup_doc : doc :=
  mkDoc (lit "D") None None false [] [NAssign (lit "A") (VNum false (lit "1")) [] None; NAssign (lit "A") (VNum false (lit "2")) [] None] [].
Theorem changes_set_refuted : exists d k v n, routes_top k v = true /\ is_delete_sentinel v = false /\
  In n (dsections (apply_change d k v)) /\ is_assign_key k n = true /\ value_of n <> Some (norm_value v).
Proof.
  exists dup_doc, (lit "A"), (JNum false (lit "5")), (NAssign (lit "A") (VNum false (lit "2")) [] None).
  repeat split; try (vm_compute; reflexivity).
  - vm_compute. right. left. reflexivity.
  - vm_compute. discriminate.
Qed.

(* ---- META ------------------------------------------------------------------------------------------------------------------------- *)
Lemma request_meta_ops_cons key v r : request_meta_ops ((key, v) :: r) = meta_ops key v ++ request_meta_ops r.
Proof. reflexivity. Qed.

Theorem dmeta_apply_changes ch : forall d, dmeta (apply_changes d ch) = fold_left run_mop (request_meta_ops ch) (dmeta d).
Proof.
  induction ch as [|[key v] r IH]; intro d; [reflexivity|].
  rewrite apply_changes_cons, IH, apply_change_meta, request_meta_ops_cons, fold_left_app. reflexivity.
Qed.

Lemma dict_get_set_same {A} (m : list (str * A)) k x : dict_get (dict_set m k x) k = Some x.
Proof.
  induction m as [|[k0 v0] r IH]; cbn [dict_set dict_get].
  - rewrite str_eqb_refl. reflexivity.
  - destruct (str_eqb k0 k) eqn:E; cbn [dict_get]; rewrite E; [reflexivity|exact IH].
Qed.

Lemma str_eqb_neq a b : a <> b -> str_eqb a b = false.
Proof. intro H. destruct (str_eqb a b) eqn:E; [|reflexivity]. apply str_eqb_eq in E. contradiction. Qed.

Lemma dict_get_set_other {A} (m : list (str * A)) k k' x : k' <> k -> dict_get (dict_set m k' x) k = dict_get m k.
Proof.
  intro Hne. induction m as [|[k0 v0] r IH]; cbn [dict_set dict_get].
  - rewrite (str_eqb_neq _ _ Hne). reflexivity.
  - destruct (str_eqb k0 k') eqn:E; cbn [dict_get].
    + apply str_eqb_eq in E. subst k0. rewrite (str_eqb_neq _ _ Hne). reflexivity.
    + destruct (str_eqb k0 k); [reflexivity|exact IH].
Qed.

Lemma dict_get_del_same {A} (m : list (str * A)) k : dict_get (dict_del m k) k = None.
Proof.
  unfold dict_del. induction m as [|[k0 v0] r IH]; [reflexivity|].
  cbn [filter fst]. destruct (str_eqb k0 k) eqn:E; cbn [negb]; [exact IH|]. cbn [dict_get]. rewrite E. exact IH.
Qed.

Lemma dict_get_del_other {A} (m : list (str * A)) k k' : k' <> k -> dict_get (dict_del m k') k = dict_get m k.
Proof.
  intro Hne. unfold dict_del. induction m as [|[k0 v0] r IH]; [reflexivity|].
  cbn [filter fst]. destruct (str_eqb k0 k') eqn:E; cbn [negb].
  - apply str_eqb_eq in E. subst k0. cbn [dict_get]. rewrite (str_eqb_neq _ _ Hne). exact IH.
  - cbn [dict_get]. destruct (str_eqb k0 k); [reflexivity|exact IH].
Qed.

Definition meta_state (k : str) (after : list (str * metaval)) (o : option (option jval)) (before : option metaval) : Prop :=
  match o with
  | None => dict_get after k = before
  | Some None => dict_get after k = None
  | Some (Some v) => dict_get after k = Some (MV (norm_value v))
  end.

Theorem mops_final ops : forall m k, meta_state k (fold_left run_mop ops m) (mop_last ops k) (dict_get m k).
Proof.
  induction ops as [|o r IH]; intros m k; [reflexivity|].
  cbn [fold_left mop_last]. specialize (IH (run_mop m o) k).
  destruct (mop_last r k) as [x|]; [exact IH|]. unfold meta_state in IH.
  destruct o as [k' v|k'|]; cbn [run_mop] in *.
  - destruct (str_eqb k' k) eqn:E.
    + apply str_eqb_eq in E. subst k'. unfold meta_state. rewrite IH. apply dict_get_set_same.
    + unfold meta_state. rewrite IH. apply dict_get_set_other. intro X. subst. rewrite str_eqb_refl in E. discriminate.
  - destruct (str_eqb k' k) eqn:E.
    + apply str_eqb_eq in E. subst k'. unfold meta_state. rewrite IH. apply dict_get_del_same.
    + unfold meta_state. rewrite IH. apply dict_get_del_other. intro X. subst. rewrite str_eqb_refl in E. discriminate.
  - unfold meta_state. rewrite IH. reflexivity.
Qed.

(* the last META.X / META{...} entry naming a field decides: DELETE (or clearing META) -> gone; otherwise the field
   carries exactly the normalised value (null included); not named -> as before *)
Theorem changes_final_meta ch d k :
  meta_state k (dmeta (apply_changes d ch)) (mop_last (request_meta_ops ch) k) (dict_get (dmeta d) k).
Proof. rewrite dmeta_apply_changes. apply mops_final. Qed.

(* frame on META *)
Definition mop_spares (P : str -> bool) (o : mop) : Prop :=
  match o with
  | MSet k _ => P k = false
  | MDel k => P k = false
  | MClear => forall k, P k = false
  end.

Lemma filter_dict_set {A} (P : str -> bool) (m : list (str * A)) k x : P k = false ->
  filter (fun kv => P (fst kv)) (dict_set m k x) = filter (fun kv => P (fst kv)) m.
Proof.
  intro H. induction m as [|[k0 v0] r IH]; cbn [dict_set filter fst].
  - rewrite H. reflexivity.
  - destruct (str_eqb k0 k) eqn:E.
    + apply str_eqb_eq in E. subst k0. cbn [filter fst]. rewrite H. reflexivity.
    + cbn [filter fst]. rewrite IH. reflexivity.
Qed.

Lemma filter_dict_del {A} (P : str -> bool) (m : list (str * A)) k : P k = false ->
  filter (fun kv => P (fst kv)) (dict_del m k) = filter (fun kv => P (fst kv)) m.
Proof.
  intro H. unfold dict_del. induction m as [|[k0 v0] r IH]; [reflexivity|].
  cbn [filter fst]. destruct (str_eqb k0 k) eqn:E; cbn [negb].
  - apply str_eqb_eq in E. subst k0. rewrite H. exact IH.
  - cbn [filter fst]. rewrite IH. reflexivity.
Qed.

Lemma filter_none {A} (P : str -> bool) (m : list (str * A)) : (forall k, P k = false) -> filter (fun kv => P (fst kv)) m = [].
Proof. intro H. induction m as [|[k0 v0] r IH]; [reflexivity|]. cbn [filter fst]. rewrite H. exact IH. Qed.

Theorem mops_frame (P : str -> bool) ops : forall m, Forall (mop_spares P) ops ->
  filter (fun kv => P (fst kv)) (fold_left run_mop ops m) = filter (fun kv => P (fst kv)) m.
Proof.
  induction ops as [|o r IH]; intros m H; [reflexivity|].
  inversion H as [|? ? Ho Hr]; subst. cbn [fold_left]. rewrite (IH _ Hr).
  destruct o as [k v|k|]; cbn [run_mop mop_spares] in *.
  - apply filter_dict_set. exact Ho.
  - apply filter_dict_del. exact Ho.
  - rewrite (filter_none P m Ho). reflexivity.
Qed.

Lemma meta_named_in ch key v k : In (key, v) ch -> meta_names key v k = true -> meta_named ch k = true.
Proof. intros Hin Hn. unfold meta_named. apply existsb_exists. exists (key, v). split; assumption. Qed.

Lemma meta_ops_named key v o : In o (meta_ops key v) ->
  match o with
  | MSet k _ => meta_names key v k = true
  | MDel k => meta_names key v k = true
  | MClear => forall k, meta_names key v k = true
  end.
Proof.
  unfold meta_ops, meta_names. destruct (prefixb s_meta_dot key) eqn:Pf.
  - intros [<-|[]]. unfold mop_of. cbn [andb negb orb].
    destruct (is_delete_sentinel v); rewrite str_eqb_refl; reflexivity.
  - cbn [andb negb orb]. destruct (str_eqb key s_meta && is_dict v) eqn:M; [|intros []].
    cbn [andb].
    destruct (is_delete_sentinel v) eqn:S.
    + intros [<-|[]]. intro k. reflexivity.
    + intro Hin. apply in_map_iff in Hin as (p & <- & Hp). unfold mop_of. cbn [orb].
      assert (E : existsb (fun q => str_eqb (fst q) (fst p)) (dict_pairs v) = true).
      { apply existsb_exists. exists p. split; [exact Hp|apply str_eqb_refl]. }
      destruct (is_delete_sentinel (snd p)); exact E.
Qed.

(* META.X / META{...} requests leave every field they do not name unchanged, in order *)
Theorem meta_merge_frame d ch :
  filter (fun kv => negb (meta_named ch (fst kv))) (dmeta (apply_changes d ch)) =
  filter (fun kv => negb (meta_named ch (fst kv))) (dmeta d).
Proof.
  rewrite dmeta_apply_changes. apply (mops_frame (fun k => negb (meta_named ch k))).
  apply Forall_forall. intros o Hin. unfold request_meta_ops in Hin. apply in_flat_map in Hin as ([key v] & Hc & Ho).
  cbn [fst snd] in Ho. pose proof (meta_ops_named key v o Ho) as Hn.
  destruct o as [k x|k|]; cbn [mop_spares].
  - rewrite (meta_named_in ch key v k Hc Hn). reflexivity.
  - rewrite (meta_named_in ch key v k Hc Hn). reflexivity.
  - intro k. rewrite (meta_named_in ch key v k Hc (Hn k)). reflexivity.
Qed.

Theorem changes_meta_untouched d ch : request_meta_ops ch = [] -> dmeta (apply_changes d ch) = dmeta d.
Proof. intro H. rewrite dmeta_apply_changes, H. reflexivity. Qed.

(* positions: an existing field keeps its place, a new one goes last *)
Lemma dict_set_fresh {A} (m : list (str * A)) k x : dict_get m k = None -> dict_set m k x = m ++ [(k, x)].
Proof.
  induction m as [|[k0 v0] r IH]; [reflexivity|]. cbn [dict_get dict_set].
  destruct (str_eqb k0 k); [discriminate|]. intro H. rewrite (IH H). reflexivity.
Qed.
Lemma dict_set_keys {A} (m : list (str * A)) k x : dict_get m k <> None -> map fst (dict_set m k x) = map fst m.
Proof.
  induction m as [|[k0 v0] r IH]; [intro H; exfalso; apply H; reflexivity|]. cbn [dict_get dict_set].
  destruct (str_eqb k0 k); [reflexivity|]. intro H. cbn [map fst]. rewrite (IH H). reflexivity.
Qed.

(* single META requests *)
Lemma prefix_meta_dot k : prefixb s_meta_dot (s_meta_dot ++ k) = true.
Proof. unfold s_meta_dot, changes_meta_dot_prefix. cbn [app prefixb]. rewrite !N.eqb_refl. reflexivity. Qed.
Lemma cut_meta_dot k : skipn meta_cut (s_meta_dot ++ k) = k.
Proof. reflexivity. Qed.

Theorem meta_dot_set d k v : is_delete_sentinel v = false ->
  dmeta (apply_change d (s_meta_dot ++ k) v) = dict_set (dmeta d) k (MV (norm_value v)) /\
  dsections (apply_change d (s_meta_dot ++ k) v) = dsections d.
Proof.
  intro S. unfold apply_change. rewrite prefix_meta_dot, cut_meta_dot, S. split; reflexivity.
Qed.

Theorem meta_delete d k v : is_delete_sentinel v = true ->
  dmeta (apply_change d (s_meta_dot ++ k) v) = dict_del (dmeta d) k /\
  dict_get (dmeta (apply_change d (s_meta_dot ++ k) v)) k = None /\
  dsections (apply_change d (s_meta_dot ++ k) v) = dsections d.
Proof.
  intro S. unfold apply_change. rewrite prefix_meta_dot, cut_meta_dot, S. cbn [dmeta with_meta dsections].
  repeat split. apply dict_get_del_same.
Qed.

(* a DELETE inside a META{...} request removes that field and only that field *)
Theorem meta_dict_delete d ps k :
  is_delete_sentinel (JDict ps) = false -> mop_last (map (fun p => mop_of (fst p) (snd p)) ps) k = Some None ->
  dict_get (dmeta (apply_change d s_meta (JDict ps))) k = None.
Proof.
  intros S L. rewrite apply_change_meta. unfold meta_ops.
  assert (Pf : prefixb s_meta_dot s_meta = false) by reflexivity.
  rewrite Pf, str_eqb_refl. cbn [is_dict andb dict_pairs]. rewrite S.
  pose proof (mops_final (map (fun p => mop_of (fst p) (snd p)) ps) (dmeta d) k) as H. rewrite L in H. exact H.
Qed.

(* Python-dict representability is preserved *)
Lemma in_keys_dict_set {A} (m : list (str * A)) k x a : In a (map fst (dict_set m k x)) -> In a (map fst m) \/ a = k.
Proof.
  induction m as [|[k0 v0] r IH]; cbn [dict_set map fst In].
  - intros [<-|[]]. right. reflexivity.
  - destruct (str_eqb k0 k); cbn [map fst In].
    + intros [H|H]; left; [left|right]; assumption.
    + intros [H|H]; [left; left; exact H|]. destruct (IH H) as [H'|H']; [left; right; exact H'|right; exact H'].
Qed.
Lemma nodup_dict_set {A} (m : list (str * A)) k x : NoDup (map fst m) -> NoDup (map fst (dict_set m k x)).
Proof.
  induction m as [|[k0 v0] r IH]; intro H; cbn [dict_set map fst].
  - constructor; [intros []|constructor].
  - destruct (str_eqb k0 k) eqn:E; [exact H|]. cbn [map fst] in *. inversion H as [|? ? Hn Hr]; subst.
    constructor; [|apply IH; exact Hr].
    intro Hin. apply in_keys_dict_set in Hin as [Hin|Hin]; [contradiction|]. subst. rewrite str_eqb_refl in E. discriminate.
Qed.
Lemma nodup_dict_del {A} (m : list (str * A)) k : NoDup (map fst m) -> NoDup (map fst (dict_del m k)).
Proof.
  unfold dict_del. induction m as [|[k0 v0] r IH]; intro H; [constructor|].
  cbn [map fst] in H. inversion H as [|? ? Hn Hr]; subst. cbn [filter fst].
  destruct (negb (str_eqb k0 k)); [|apply IH; exact Hr]. cbn [map fst]. constructor; [|apply IH; exact Hr].
  intro Hin. apply Hn. apply in_map_iff in Hin as (p & Hp & Hf). apply filter_In in Hf as [Hf _].
  apply in_map_iff. exists p. split; assumption.
Qed.
Theorem meta_keys_nodup d ch : NoDup (map fst (dmeta d)) -> NoDup (map fst (dmeta (apply_changes d ch))).
Proof.
  rewrite dmeta_apply_changes. generalize (dmeta d). induction (request_meta_ops ch) as [|o r IH]; intros m H; [exact H|].
  cbn [fold_left]. apply IH. destruct o; cbn [run_mop]; [apply nodup_dict_set|apply nodup_dict_del|constructor]; exact H.
Qed.

(* ---- mutations, sequences ------------------------------------------------------------------------------------------------------------ *)
Lemma apply_mutation_as_change d k v : apply_mutation d k v = apply_change d (s_meta_dot ++ k) v.
Proof. unfold apply_mutation, apply_change. rewrite prefix_meta_dot, cut_meta_dot. reflexivity. Qed.

Theorem mutations_as_changes ms : forall d,
  apply_mutations d ms = apply_changes d (map (fun kv => (s_meta_dot ++ fst kv, snd kv)) ms).
Proof.
  induction ms as [|[k v] r IH]; intro d; [reflexivity|].
  cbn [map fst snd]. rewrite apply_changes_cons, <- apply_mutation_as_change. apply IH.
Qed.

Theorem apply_seq_concat reqs : forall d, apply_seq d reqs = apply_changes d (concat reqs).
Proof.
  induction reqs as [|r rs IH]; intro d; [reflexivity|].
  cbn [concat]. rewrite apply_changes_app. apply IH.
Qed.

Theorem seq_frame d reqs :
  filter (untouched (concat reqs)) (dsections (apply_seq d reqs)) = filter (untouched (concat reqs)) (dsections d).
Proof. rewrite apply_seq_concat. apply changes_frame. Qed.
Theorem seq_meta_frame d reqs :
  filter (fun kv => negb (meta_named (concat reqs) (fst kv))) (dmeta (apply_seq d reqs)) =
  filter (fun kv => negb (meta_named (concat reqs) (fst kv))) (dmeta d).
Proof. rewrite apply_seq_concat. apply meta_merge_frame. Qed.
Theorem seq_final_top d reqs k : top_state k (apply_seq d reqs) (top_last (concat reqs) k) (top_find k d).
Proof. rewrite apply_seq_concat. apply changes_final_top. Qed.
Theorem seq_final_meta d reqs k :
  meta_state k (dmeta (apply_seq d reqs)) (mop_last (request_meta_ops (concat reqs)) k) (dict_get (dmeta d) k).
Proof. rewrite apply_seq_concat. apply changes_final_meta. Qed.
Theorem seq_header_frame d reqs :
  dname (apply_seq d reqs) = dname d /\ dgrammar (apply_seq d reqs) = dgrammar d /\ dfront (apply_seq d reqs) = dfront d /\
  dsep (apply_seq d reqs) = dsep d /\ dtrailing (apply_seq d reqs) = dtrailing d.
Proof. rewrite apply_seq_concat. apply changes_header_frame. Qed.

(* text level: with only top-level keys in the request, the head, META block, separator and foot of the canonical
   text are unchanged and the body is the per-node chunks of the new section list *)
Theorem changes_text_frame sp d ch : request_meta_ops ch = [] ->
  emit_lines sp (apply_changes d ch) =
  head_lines sp d ++ meta_part (dmeta d) ++ sep_lines d ++ flat_map top_lines (dsections (apply_changes d ch)) ++ foot_lines d.
Proof.
  intro H. rewrite emit_compositional. destruct (changes_header_frame ch d) as (A & B & C & D & E).
  unfold head_lines, sep_lines, foot_lines, body_lines. rewrite A, B, C, D, E, (changes_meta_untouched d ch H). reflexivity.
Qed.

(* ---- the CLI loop ----------------------------------------------------------------------------------------------------------------------- *)
Lemma cli_apply_change_sections d key v d' : cli_apply_change d key v = Some d' ->
  exists x, dsections d' = if routes_top key v then set_first_or_append key x (dsections d) else dsections d.
Proof.
  unfold cli_apply_change, routes_top. destruct (prefixb s_meta_dot key); cbn [negb andb].
  - destruct (raw_metaval v); [|discriminate]. intro H. injection H as <-. exists VNull. reflexivity.
  - destruct (str_eqb key s_meta && is_dict v); cbn [negb].
    + destruct (raw_meta (dict_pairs v)); [|discriminate]. intro H. injection H as <-. exists VNull. reflexivity.
    + destruct (raw_scalar v) as [x|]; [|discriminate]. intro H. injection H as <-. exists x. reflexivity.
Qed.

Theorem cli_frame ch : forall d d', cli_apply_changes d ch = Some d' ->
  filter (untouched ch) (dsections d') = filter (untouched ch) (dsections d).
Proof.
  assert (G : forall (P : node -> bool) ch d d', cli_apply_changes d ch = Some d' ->
              (forall k, In k (top_keys ch) -> forall n, is_assign_key k n = true -> P n = false) ->
              filter P (dsections d') = filter P (dsections d)).
  { intros P c. induction c as [|[key v] r IH]; intros d d' H Hp.
    - injection H as <-. reflexivity.
    - cbn [cli_apply_changes] in H. destruct (cli_apply_change d key v) as [d1|] eqn:E; [|discriminate].
      rewrite top_keys_cons in Hp. rewrite (IH d1 d' H).
      + destruct (cli_apply_change_sections d key v d1 E) as (x & Hx). rewrite Hx.
        destruct (routes_top key v); [|reflexivity]. apply filter_sfoa. apply Hp. left. reflexivity.
      + intros k Hin. apply Hp. destruct (routes_top key v); [right|]; exact Hin. }
  intros d d' H. apply (G _ ch d d' H). intros k Hin n Hk. apply (untouched_spec ch k n Hin Hk).
Qed.

(* what the CLI does NOT do (each is a finding replayed on cli/main.py) *)
Definition cli_meta_merge_full : Prop := forall d ch d', cli_apply_changes d ch = Some d' ->
  filter (fun kv => negb (meta_named ch (fst kv))) (dmeta d') = filter (fun kv => negb (meta_named ch (fst kv))) (dmeta d).
Definition cli_doc : doc :=
  mkDoc (lit "D") None None false [(lit "TYPE", MV (VStr (lit "X"))); (lit "VERSION", MV (VStr (lit "1.0")))]
        [NAssign (lit "A") (VNum false (lit "1")) [] None] [].
Theorem cli_meta_merge_refuted : exists d ch d' k, cli_apply_changes d ch = Some d' /\
  meta_named ch k = false /\ dict_get (dmeta d) k <> None /\ dict_get (dmeta d') k = None.
Proof.
  exists cli_doc, [(lit "META", JDict [(lit "Q", JStr (lit "z"))])],
         (with_meta cli_doc [(lit "Q", MV (VStr (lit "z")))]), (lit "TYPE").
  repeat split; try (vm_compute; reflexivity). vm_compute. discriminate.
Qed.

Definition cli_meta_delete_full : Prop := forall d k v d', is_delete_sentinel v = true ->
  cli_apply_change d (s_meta_dot ++ k) v = Some d' -> dict_get (dmeta d') k = None.
Theorem cli_meta_delete_refuted : exists d k v d', is_delete_sentinel v = true /\
  cli_apply_change d (s_meta_dot ++ k) v = Some d' /\ dict_get (dmeta d') k <> None.
Proof.
  exists cli_doc, (lit "TYPE"), (JDict [(s_op, JStr s_delete)]),
         (with_meta cli_doc [(lit "TYPE", MD [(s_op, VStr s_delete)]); (lit "VERSION", MV (VStr (lit "1.0")))]).
  repeat split; try (vm_compute; reflexivity). vm_compute. discriminate.
Qed.

(* a list or dict value for a top-level key (the DELETE sentinel included) is stored raw and printed with str() *)
Theorem cli_top_structured_out_of_model d k v : routes_top k v = true ->
  match v with JList _ | JDict _ => True | _ => False end -> cli_apply_change d k v = None.
Proof.
  unfold routes_top, cli_apply_change. intros R Hv.
  destruct (prefixb s_meta_dot k); [discriminate R|]. cbn [negb andb] in R.
  destruct (str_eqb k s_meta && is_dict v); [discriminate R|].
  destruct v; try contradiction; reflexivity.
Qed.

(* ---- non-vacuity ------------------------------------------------------------------------------------------------------------------------- *)
Definition sentinel : jval := JDict [(s_op, JStr s_delete)].
Definition ex_doc : doc :=
  mkDoc (lit "D") (Some (lit "5.1.0")) None true
        [(lit "TYPE", MV (VStr (lit "X"))); (lit "VERSION", MV (VStr (lit "1.0"))); (lit "N", MD [(lit "A", VNum false (lit "1"))])]
        [NAssign (lit "A") (VNum false (lit "1")) [lit "note"] (Some (lit "tc"));
         NBlock (lit "BLK") None [NAssign (lit "A") (VNum false (lit "3")) [] None] [];
         NAssign (lit "B") (VList [VStr (lit "a"); VStr (lit "b")]) [] None;
         NAssign (lit "A") (VNum false (lit "2")) [] None;
         NSection (lit "1") (lit "S") None [NAssign (lit "A") (VNum false (lit "4")) [] None] []]
        [lit "end"].
Definition ex_req : request :=
  [(lit "A", JNull); (lit "B", sentinel); (lit "NEW", JList [JNum false (lit "1"); JDict [(lit "k", JStr [])]]);
   (lit "META.TYPE", sentinel); (lit "META", JDict [(lit "Q", JStr (lit "z")); (lit "VERSION", JNull)]); (lit "BLK", JBool true)].

Example ex_result :
  apply_changes ex_doc ex_req =
  mkDoc (lit "D") (Some (lit "5.1.0")) None true
        [(lit "VERSION", MV VNull); (lit "N", MD [(lit "A", VNum false (lit "1"))]); (lit "Q", MV (VStr (lit "z")))]
        [NAssign (lit "A") VNull [lit "note"] (Some (lit "tc"));
         NBlock (lit "BLK") None [NAssign (lit "A") (VNum false (lit "3")) [] None] [];
         NAssign (lit "A") (VNum false (lit "2")) [] None;
         NSection (lit "1") (lit "S") None [NAssign (lit "A") (VNum false (lit "4")) [] None] [];
         NAssign (lit "NEW") (VList [VNum false (lit "1"); VMap [(lit "k", VStr [])]]) [] None;
         NAssign (lit "BLK") (VBool true) [] None]
        [lit "end"].
Proof. vm_compute. reflexivity. Qed.

Example ex_frame_nonvacuous :
  filter (untouched ex_req) (dsections ex_doc) =
  [NBlock (lit "BLK") None [NAssign (lit "A") (VNum false (lit "3")) [] None] [];
   NSection (lit "1") (lit "S") None [NAssign (lit "A") (VNum false (lit "4")) [] None] []] /\
  dsections (apply_changes ex_doc ex_req) <> dsections ex_doc.
Proof. split; vm_compute; [reflexivity|discriminate]. Qed.

Example ex_meta_frame_nonvacuous :
  filter (fun kv => negb (meta_named ex_req (fst kv))) (dmeta ex_doc) = [(lit "N", MD [(lit "A", VNum false (lit "1"))])] /\
  dmeta (apply_changes ex_doc ex_req) <> dmeta ex_doc.
Proof. split; vm_compute; [reflexivity|discriminate]. Qed.

Example ex_top_last :
  top_last ex_req (lit "A") = Some JNull /\ top_last ex_req (lit "B") = Some sentinel /\ top_last ex_req (lit "ZZ") = None /\
  is_delete_sentinel sentinel = true /\ is_delete_sentinel JNull = false.
Proof. repeat split; vm_compute; reflexivity. Qed.

Example ex_mop_last :
  mop_last (request_meta_ops ex_req) (lit "TYPE") = Some None /\
  mop_last (request_meta_ops ex_req) (lit "VERSION") = Some (Some JNull) /\
  mop_last (request_meta_ops ex_req) (lit "N") = None.
Proof. repeat split; vm_compute; reflexivity. Qed.

Example ex_seq :
  apply_seq ex_doc [[(lit "A", sentinel)]; [(lit "A", JStr (lit "x"))]; [(lit "META", sentinel)]] =
  mkDoc (lit "D") (Some (lit "5.1.0")) None true []
        [NBlock (lit "BLK") None [NAssign (lit "A") (VNum false (lit "3")) [] None] [];
         NAssign (lit "B") (VList [VStr (lit "a"); VStr (lit "b")]) [] None;
         NSection (lit "1") (lit "S") None [NAssign (lit "A") (VNum false (lit "4")) [] None] [];
         NAssign (lit "A") (VStr (lit "x")) [] None]
        [lit "end"].
Proof. vm_compute. reflexivity. Qed.

Example ex_set_unique_hyp : (length (filter (is_assign_key (lit "B")) (dsections ex_doc)) <= 1)%nat /\
  routes_top (lit "B") (JStr (lit "v")) = true.
Proof. split; vm_compute; [lia|reflexivity]. Qed.

Example ex_cli :
  cli_apply_changes cli_doc [(lit "A", JNum true (lit "2.5")); (lit "C", JStr (lit "two words")); (lit "META.Q", JNull)] =
  Some (mkDoc (lit "D") None None false
          [(lit "TYPE", MV (VStr (lit "X"))); (lit "VERSION", MV (VStr (lit "1.0"))); (lit "Q", MV VNull)]
          [NAssign (lit "A") (VNum true (lit "2.5")) [] None; NAssign (lit "C") (VStr (lit "two words")) [] None] []).
Proof. vm_compute. reflexivity. Qed.

(* Absent at every kind of position; drop_absent removes something and the text is the same *)
Definition absent_doc : doc :=
  mkDoc (lit "D") None None false
        [(lit "X", MV VAbsent); (lit "Y", MV (VList [VAbsent; VNum false (lit "1")])); (lit "N", MD [(lit "A", VAbsent); (lit "B", VNull)])]
        [NAssign (lit "A") VAbsent [lit "c"] None;
         NAssign (lit "L") (VList [VAbsent; VStr (lit "a"); VMap [(lit "k", VAbsent)]; VStr (lit "b"); VList [VAbsent]; VStr (lit "c")]) [] None;
         NAssign (lit "M") (VMap [(lit "p", VAbsent); (lit "q", VNull)]) [] None;
         NBlock (lit "BLK") None [NAssign (lit "A") VAbsent [] None; NAssign (lit "B") (VStr []) [] None;
                                  NSection (lit "1") (lit "S") None [NAssign (lit "Z") VAbsent [] None] []] []]
        [].
Example ex_absent :
  meta_all_absent absent_doc = false /\ doc_absent_free absent_doc = false /\ drop_absent absent_doc <> absent_doc /\
  emit (fun _ => false) absent_doc = emit (fun _ => false) (drop_absent absent_doc).
Proof. repeat split; vm_compute; try reflexivity. discriminate. Qed.
