(* Theorems about the projection / conversion models (all documents, induction over the tree). *)
From OV Require Import Proj.Ast Gen.ProjectorGen Proj.Projector Proj.Convert.
From Coq Require Import ZArith.
Open Scope N_scope.

Lemma str_in_In s l : str_in s l = true <-> In s l.
Proof.
  induction l as [|x l IH]; cbn; [split; [discriminate|tauto]|].
  rewrite orb_true_iff, IH, str_eqb_eq. split; intros [H|H]; auto.
Qed.
Lemma str_in_notIn s l : str_in s l = false <-> ~ In s l.
Proof. rewrite <- str_in_In. destruct (str_in s l); split; congruence. Qed.

Lemma incl_nil_eq {A} (l : list A) : incl l [] -> l = [].
Proof. destruct l; [reflexivity|]. intro H. exfalso. apply (H a). left; reflexivity. Qed.

(* ---------------------------------------------------------------- filter ---- *)
Lemma preserve_id n : preserve n = n.
Proof.
  induction n using node_ind'; cbn; try reflexivity. f_equal. induction H; cbn; [reflexivity|]. congruence.
Qed.
Lemma map_preserve ch : map preserve ch = ch.
Proof. induction ch; cbn; [reflexivity|]. rewrite preserve_id. congruence. Qed.

Lemma flat_items_incl keep ch :
  Forall (fun n => incl (flat_map items_n (filter_node keep n)) (items_n n)) ch ->
  incl (flat_map items_n (flat_map (filter_node keep) ch)) (flat_map items_n ch).
Proof. induction 1; cbn [flat_map]; [apply incl_refl|]. rewrite flat_map_app. apply incl_app_app; auto. Qed.

Lemma filter_node_no_invention keep n : incl (flat_map items_n (filter_node keep n)) (items_n n).
Proof.
  induction n using node_ind'; cbn [filter_node].
  - destruct (str_in k keep); cbn [flat_map]; [rewrite app_nil_r; apply incl_refl|apply incl_nil_l].
  - destruct (str_in k keep).
    + rewrite map_preserve. cbn [flat_map]. rewrite app_nil_r. apply incl_refl.
    + pose proof (flat_items_incl keep ch H) as Hi.
      destruct (flat_map (filter_node keep) ch) as [|x fc] eqn:E; [apply incl_nil_l|].
      cbn [flat_map]. rewrite app_nil_r. cbn [items_n]. apply pre_incl.
      apply incl_cons; [left; reflexivity|]. apply incl_tl. apply incl_app_app; [apply incl_refl|exact Hi].
  - cbn [flat_map]. rewrite app_nil_r. apply incl_refl.
  - cbn [flat_map]. rewrite app_nil_r. apply incl_refl.
Qed.

(* a filtered document contains no key / container position / leaf that the source does not have at the same path *)
Theorem filter_no_invention keep d : incl (items_doc (filter_fields keep d)) (items_doc d).
Proof.
  unfold items_doc, filter_fields. cbn [d_meta d_sections]. apply incl_app_app; [apply incl_refl|].
  apply flat_items_incl. apply nodes_ind'; intros; apply filter_node_no_invention.
Qed.

(* a node whose key is in the keep list survives with its whole subtree *)
Theorem filter_keeps_kept_assign keep k v : str_in k keep = true -> filter_node keep (NAssign k v) = [NAssign k v].
Proof. intro H. cbn. rewrite H. reflexivity. Qed.
Theorem filter_keeps_kept_block keep k t ch : str_in k keep = true -> filter_node keep (NBlock k t ch) = [NBlock k t ch].
Proof. intro H. cbn. rewrite H, map_preserve. reflexivity. Qed.

(* ... also when nested under blocks that are not kept *)
Fixpoint kept_items (keep : list str) (n : node) : list item :=
  match n with
  | NAssign k _ => if str_in k keep then items_n n else []
  | NBlock k _ ch => if str_in k keep then items_n n else pre (PKey k) (flat_map (kept_items keep) ch)
  | NSection _ _ _ _ | NComment _ => []
  end.

Lemma flat_kept_incl keep ch :
  Forall (fun n => incl (kept_items keep n) (flat_map items_n (filter_node keep n))) ch ->
  incl (flat_map (kept_items keep) ch) (flat_map items_n (flat_map (filter_node keep) ch)).
Proof. induction 1; cbn [flat_map]; [apply incl_refl|]. rewrite flat_map_app. apply incl_app_app; auto. Qed.

Lemma filter_node_keeps keep n : incl (kept_items keep n) (flat_map items_n (filter_node keep n)).
Proof.
  induction n using node_ind'; cbn [filter_node kept_items]; try apply incl_nil_l.
  - destruct (str_in k keep); [|apply incl_nil_l]. cbn [flat_map]. rewrite app_nil_r. apply incl_refl.
  - destruct (str_in k keep).
    + rewrite map_preserve. cbn [flat_map]. rewrite app_nil_r. apply incl_refl.
    + pose proof (flat_kept_incl keep ch H) as Hi.
      destruct (flat_map (filter_node keep) ch) as [|x fc] eqn:E.
      * cbn [flat_map] in Hi. apply incl_nil_eq in Hi. rewrite Hi. apply incl_nil_l.
      * cbn [flat_map]. rewrite app_nil_r. cbn [items_n]. apply pre_incl.
        apply incl_tl. apply incl_appr. exact Hi.
Qed.

Theorem filter_keeps_kept keep d :
  incl (flat_map (kept_items keep) (d_sections d)) (items_doc (filter_fields keep d)).
Proof.
  unfold items_doc, filter_fields. cbn [d_meta d_sections]. apply incl_appr.
  apply flat_kept_incl. apply nodes_ind'; intros; apply filter_node_keeps.
Qed.

(* ---------------------------------------------------------------- project ---- *)
Definition rec_ok (r : mode_rec) : bool := match r with (Some _, l, _) => l | (None, _, _) => true end.
Lemma find_mode_ok m tbl : forallb (fun e => rec_ok (snd e)) tbl = true -> rec_ok projector_default = true ->
  rec_ok (find_mode m tbl) = true.
Proof.
  intros H D. induction tbl as [|[name r] t IH]; cbn; [exact D|].
  cbn in H. apply andb_true_iff in H as [H1 H2]. destruct (str_eqb m name); auto.
Qed.
Lemma projector_table_ok : forallb (fun e => rec_ok (snd e)) projector_modes = true /\ rec_ok projector_default = true.
Proof. split; vm_compute; reflexivity. Qed.

(* whenever the projected AST differs from the source (any mode string, also unknown ones) lossy = true *)
Theorem project_lossy_flag mode d : fst (fst (project mode d)) <> d -> snd (fst (project mode d)) = true.
Proof.
  unfold project. pose proof (find_mode_ok mode projector_modes (proj1 projector_table_ok) (proj2 projector_table_ok)) as H.
  destruct (find_mode mode projector_modes) as [[[keep|] lossy] om]; cbn in *; [auto|]. intro C; contradiction C; reflexivity.
Qed.

Theorem project_canonical d : project m_canonical d = (d, false, []).
Proof. reflexivity. Qed.
Theorem project_authoring d : project m_authoring d = (d, false, []).
Proof. reflexivity. Qed.
Definition k_exec : list str := [[83; 84; 65; 84; 85; 83]; [82; 73; 83; 75; 83]; [68; 69; 67; 73; 83; 73; 79; 78; 83]].
Definition k_dev : list str := [[84; 69; 83; 84; 83]; [67; 73]; [68; 69; 80; 83]].
Theorem project_executive d : project m_executive d = (filter_fields k_exec d, true, k_dev).
Proof. reflexivity. Qed.
Theorem project_developer d : project m_developer d = (filter_fields k_dev d, true, k_exec).
Proof. reflexivity. Qed.
(* any other mode string falls into the default branch: whole document, lossy = false *)
Theorem project_unknown_mode mode d :
  forallb (fun e => negb (str_eqb mode (fst e))) projector_modes = true -> project mode d = (d, false, []).
Proof.
  unfold project. intro H.
  assert (find_mode mode projector_modes = projector_default) as ->.
  { induction projector_modes as [|[name r] t IH]; cbn; [reflexivity|]. cbn in H. apply andb_true_iff in H as [H1 H2].
    apply negb_true_iff in H1. rewrite H1. auto. }
  reflexivity.
Qed.
Theorem project_no_invention mode d : incl (items_doc (fst (fst (project mode d)))) (items_doc d).
Proof.
  unfold project. destruct (find_mode mode projector_modes) as [[[keep|] lossy] om]; cbn [fst]; [apply filter_no_invention|apply incl_refl].
Qed.
(* EjectTool.execute returns result.lossy for json, yaml, markdown (and octave, the else branch) *)
Lemma eject_formats_pass_lossy :
  eject_format_lossy = [([106; 115; 111; 110], 1); ([121; 97; 109; 108], 1); ([109; 97; 114; 107; 100; 111; 119; 110], 1); ([103; 98; 110; 102], 0)].
Proof. reflexivity. Qed.

(* ---------------------------------------------------------------- dict ---- *)
Fixpoint nodup_keys (ks : list str) : bool :=
  match ks with [] => true | k :: r => negb (str_in k r) && nodup_keys r end.
Lemma nodup_keys_NoDup ks : nodup_keys ks = true <-> NoDup ks.
Proof.
  induction ks as [|k r IH]; cbn; [split; [constructor|reflexivity]|].
  rewrite andb_true_iff, negb_true_iff, str_in_notIn, IH. split.
  - intros [H1 H2]; constructor; auto.
  - intro H; inversion H; auto.
Qed.

Lemma dict_set_fresh k v d : ~ In k (map fst d) -> dict_set k v d = d ++ [(k, v)].
Proof.
  induction d as [|[k' v'] r IH]; cbn; [reflexivity|]. intro H.
  destruct (str_eqb k k') eqn:E; [apply str_eqb_eq in E; exfalso; apply H; left; congruence|].
  rewrite IH; auto.
Qed.

Lemma dict_of_acc l : forall acc, NoDup (map fst acc ++ map fst l) ->
  fold_left (fun d kv => dict_set (fst kv) (snd kv) d) l acc = acc ++ l.
Proof.
  induction l as [|[k v] r IH]; intros acc H; cbn [fold_left]; [rewrite app_nil_r; reflexivity|].
  cbn [map fst snd] in *. pose proof (NoDup_remove_2 _ _ _ H) as Hn.
  rewrite dict_set_fresh by (intro C; apply Hn; apply in_or_app; left; exact C).
  rewrite IH; [rewrite <- app_assoc; reflexivity|].
  rewrite map_app, <- app_assoc. exact H.
Qed.
Lemma dict_of_nodup l : nodup_keys (map fst l) = true -> dict_of l = l.
Proof. intro H. unfold dict_of. rewrite dict_of_acc; [reflexivity|]. apply nodup_keys_NoDup; exact H. Qed.

(* eject.py since repair 88905cd: zone, list, inline map, HOLOGRAPHIC VALUE (4), NESTED META DICT (5) *)
Lemma convert_value_classes_pin : convert_value_classes = [1; 2; 3; 4; 5].
Proof. reflexivity. Qed.
Lemma format_markdown_value_classes_pin : format_markdown_value_classes = [1; 2; 3; 4; 5].
Proof. reflexivity. Qed.
Lemma convert_node_classes_pin : convert_node_classes = [1; 2].
Proof. reflexivity. Qed.
Lemma cli_convert_value_classes_pin : cli_convert_value_classes = [2; 3].
Proof. reflexivity. Qed.

(* the zone export of eject.py is exactly the four documented entries *)
Lemma zone_export_items c t f : items_j (zone_export c t f) = zone_items c t f.
Proof. destruct t; reflexivity. Qed.

Fixpoint nodup_v (v : value) : bool :=
  match v with
  | VList l => forallb nodup_v l
  | VMap m => nodup_keys (map fst m) && forallb (fun kv => nodup_v (snd kv)) m
  | _ => true
  end.

Lemma key_items_map {A B} (f : B -> list item) (g : A -> B) (m : list (str * A)) :
  key_items f (map (fun kv => (fst kv, g (snd kv))) m) = key_items (fun x => f (g x)) m.
Proof. unfold key_items. induction m; cbn; [reflexivity|]. congruence. Qed.
Lemma key_items_ext {A} (f g : A -> list item) (m : list (str * A)) :
  Forall (fun kv => f (snd kv) = g (snd kv)) m -> key_items f m = key_items g m.
Proof. unfold key_items. induction 1; cbn; [reflexivity|]. congruence. Qed.
Lemma map_fst_map {A B} (g : A -> B) (m : list (str * A)) : map fst (map (fun kv => (fst kv, g (snd kv))) m) = map fst m.
Proof. induction m; cbn; congruence. Qed.

Lemma convert_value_items v : nodup_v v = true ->
  items_j (convert_value convert_value_classes v) = items_v v.
Proof.
  rewrite convert_value_classes_pin.
  induction v using value_ind'; intro Hn; try reflexivity.
  - (* list *)
    cbn [convert_value memb existsb N.eqb Pos.eqb orb]. cbn [nodup_v] in Hn.
    destruct l as [|x r]; [reflexivity|].
    assert (Forall (fun y => items_j (convert_value [1; 2; 3; 4; 5] y) = items_v y) (x :: r)) as HF.
    { rewrite Forall_forall in *. intros y Hy. apply H; [exact Hy|]. rewrite forallb_forall in Hn. auto. }
    change (items_v (VList (x :: r))) with (([] : path, CNode) :: idx_items items_v 0 (x :: r)).
    change (items_j (JList (map (convert_value [1; 2; 3; 4; 5]) (x :: r))))
      with (([] : path, CNode) :: idx_items items_j 0 (map (convert_value [1; 2; 3; 4; 5]) (x :: r))).
    rewrite idx_items_map. f_equal. apply idx_items_ext. exact HF.
  - (* map *)
    cbn [convert_value memb existsb N.eqb Pos.eqb orb]. cbn [nodup_v] in Hn. apply andb_true_iff in Hn as [Hk Hv].
    rewrite dict_of_nodup by (rewrite map_fst_map; exact Hk).
    cbn [items_j items_v]. f_equal. rewrite key_items_map. apply key_items_ext.
    rewrite Forall_forall in *. intros kv Hkv. apply H; [exact Hkv|]. rewrite forallb_forall in Hv. auto.
  - (* zone *)
    cbn [convert_value memb existsb N.eqb Pos.eqb orb]. apply zone_export_items.
Qed.

Definition node_key (n : node) : list str :=
  match n with NAssign k _ | NBlock k _ _ => [k] | _ => [] end.
Definition node_keys (ch : list node) : list str := flat_map node_key ch.

Fixpoint wf_n (n : node) : bool :=
  match n with
  | NAssign _ v => nodup_v v
  | NBlock _ t ch => match t with None => true | Some _ => false end && nodup_keys (node_keys ch) && forallb wf_n ch
  | NSection _ _ _ _ => false
  | NComment _ => true
  end.

Lemma key_items_app {A} (f : A -> list item) a b : key_items f (a ++ b) = key_items f a ++ key_items f b.
Proof. unfold key_items. apply flat_map_app. Qed.

Lemma entries_of_children cls ch :
  Forall (fun n => wf_n n = true ->
            key_items items_j (convert_entry cls n) = items_n n /\ map fst (convert_entry cls n) = node_key n) ch ->
  forallb wf_n ch = true ->
  key_items items_j (flat_map (convert_entry cls) ch) = flat_map items_n ch /\
  map fst (flat_map (convert_entry cls) ch) = node_keys ch.
Proof.
  induction 1; cbn [flat_map forallb]; intro Hw; [split; reflexivity|].
  apply andb_true_iff in Hw as [H1 H2]. destruct (H H1) as [E1 E2]. destruct (IHForall H2) as [F1 F2].
  rewrite key_items_app, map_app, E1, E2, F1. unfold node_keys in *. cbn [flat_map]. rewrite F2. split; reflexivity.
Qed.

Lemma convert_entry_items n : wf_n n = true ->
  key_items items_j (convert_entry convert_value_classes n) = items_n n /\
  map fst (convert_entry convert_value_classes n) = node_key n.
Proof.
  induction n using node_ind'; cbn [wf_n]; intro Hw; try discriminate.
  - cbn [convert_entry]. rewrite convert_node_classes_pin. cbn [memb existsb N.eqb Pos.eqb orb].
    unfold key_items. cbn [flat_map fst snd map node_key]. rewrite app_nil_r, convert_value_items by exact Hw.
    split; reflexivity.
  - apply andb_true_iff in Hw as [Hw Hc]. apply andb_true_iff in Hw as [Ht Hk]. destruct t; [discriminate|].
    destruct (entries_of_children convert_value_classes ch H Hc) as [E1 E2].
    cbn [convert_entry]. rewrite convert_node_classes_pin. cbn [memb existsb N.eqb Pos.eqb orb].
    rewrite dict_of_nodup by (rewrite E2; exact Hk).
    unfold key_items at 1. cbn [flat_map fst snd map node_key]. rewrite app_nil_r.
    cbn [items_j items_n opt_item app]. rewrite E1. split; reflexivity.
  - split; reflexivity.
Qed.

Definition meta_key (m : list (str * value)) : list str := match m with [] => [] | _ :: _ => [s_META] end.
Definition wf_doc (d : doc) : bool :=
  nodup_keys (meta_key (d_meta d) ++ node_keys (d_sections d)) && forallb wf_n (d_sections d)
  && nodup_keys (map fst (d_meta d)) && forallb (fun kv => nodup_v (snd kv)) (d_meta d).

(* no section markers, no block targets, no duplicate sibling keys (incl. inline-map keys and a top-level key META
   next to a META block): the dict handed to json/yaml contains exactly the source's items, in order *)
Theorem dict_complete_partial d : wf_doc d = true -> items_dict (ast_to_dict d) = items_doc d.
Proof.
  unfold wf_doc. intro H. apply andb_true_iff in H as [H Hmv]. apply andb_true_iff in H as [H Hmk].
  apply andb_true_iff in H as [Hk Hs].
  destruct (entries_of_children convert_value_classes (d_sections d)) as [E1 E2]; [|exact Hs|].
  { apply nodes_ind'; intros; apply convert_entry_items; assumption. }
  unfold ast_to_dict, ast_to_dict_with, items_doc, items_dict.
  rewrite dict_of_nodup.
  - rewrite key_items_app, E1. f_equal. destruct (d_meta d) as [|kv m] eqn:Em; [reflexivity|].
    unfold key_items at 1. cbn [flat_map fst snd]. rewrite app_nil_r.
    rewrite dict_of_nodup by (rewrite map_fst_map; exact Hmk).
    cbn [items_j items_meta]. f_equal. f_equal. rewrite key_items_map. apply key_items_ext.
    rewrite Forall_forall. intros x Hx. apply convert_value_items. rewrite forallb_forall in Hmv. auto.
  - rewrite map_app, E2. destruct (d_meta d); exact Hk.
Qed.

(* ---------------------------------------------------------------- native (serialisable) dict ---- *)
(* Since repair 88905cd NO AST object survives _ast_to_dict: the tree handed to json.dumps / yaml.dump is made of
   dict / list / str / number / bool / None only -- for EVERY document (sections, duplicates, targets included).
   This is what makes `json.dumps(data)` in EjectTool.execute total (C20) and the YAML view safe_load-able. *)
Lemma native_dict_set k v d : native_j v = true -> native_dict d = true -> native_dict (dict_set k v d) = true.
Proof.
  unfold native_dict. intros Hv. induction d as [|[k' v'] r IH]; cbn [dict_set forallb snd]; intro H.
  - rewrite Hv. reflexivity.
  - apply andb_true_iff in H as [H1 H2]. destruct (str_eqb k k'); cbn [forallb snd].
    + rewrite Hv. exact H2.
    + rewrite H1. cbn. apply IH. exact H2.
Qed.
Lemma native_dict_of_acc l : forall acc, native_dict acc = true -> forallb (fun kv => native_j (snd kv)) l = true ->
  native_dict (fold_left (fun d kv => dict_set (fst kv) (snd kv) d) l acc) = true.
Proof.
  induction l as [|[k v] r IH]; intros acc Ha Hl; cbn [fold_left]; [exact Ha|].
  cbn [forallb snd fst] in *. apply andb_true_iff in Hl as [H1 H2]. apply IH; [|exact H2]. apply native_dict_set; assumption.
Qed.
Lemma native_dict_of l : forallb (fun kv => native_j (snd kv)) l = true -> native_dict (dict_of l) = true.
Proof. intro H. unfold dict_of. apply native_dict_of_acc; [reflexivity|exact H]. Qed.
Lemma native_jmap_dict_of l : forallb (fun kv => native_j (snd kv)) l = true -> native_j (JMap (dict_of l)) = true.
Proof. intro H. exact (native_dict_of l H). Qed.

Lemma zone_field_native e c t f : native_j (zone_field e c t f) = true.
Proof.
  unfold zone_field. destruct (str_eqb e e_True); [reflexivity|]. destruct (str_eqb e e_content); [reflexivity|].
  destruct (str_eqb e e_info_tag); [destruct t; reflexivity|]. destruct (str_eqb e e_fence); reflexivity.
Qed.
Lemma zone_export_native c t f : native_j (zone_export c t f) = true.
Proof.
  unfold zone_export. apply native_jmap_dict_of. induction convert_zone_keys as [|ke r IH]; [reflexivity|].
  cbn [map forallb snd]. rewrite zone_field_native. exact IH.
Qed.

Lemma convert_value_native v : native_j (convert_value convert_value_classes v) = true.
Proof.
  rewrite convert_value_classes_pin.
  induction v using value_ind'; try reflexivity.
  - (* list *)
    cbn [convert_value memb existsb N.eqb Pos.eqb orb native_j].
    induction H as [|x r Hx Hr IH]; [reflexivity|]. cbn [map forallb]. rewrite Hx. exact IH.
  - (* map / nested META dict *)
    cbn [convert_value memb existsb N.eqb Pos.eqb orb]. apply native_jmap_dict_of.
    induction H as [|x r Hx Hr IH]; [reflexivity|]. cbn [map forallb snd]. rewrite Hx. exact IH.
  - (* zone *)
    cbn [convert_value memb existsb N.eqb Pos.eqb orb]. apply zone_export_native.
Qed.

Lemma forallb_app_true {A} (f : A -> bool) a b : forallb f a = true -> forallb f b = true -> forallb f (a ++ b) = true.
Proof. intros Ha Hb. rewrite forallb_app, Ha, Hb. reflexivity. Qed.

Lemma convert_entry_native n : forallb (fun kv => native_j (snd kv)) (convert_entry convert_value_classes n) = true.
Proof.
  induction n using node_ind'; cbn [convert_entry]; try reflexivity.
  - destruct (memb 1 convert_node_classes); [|reflexivity]. cbn [forallb snd]. rewrite convert_value_native. reflexivity.
  - destruct (memb 2 convert_node_classes); [|reflexivity]. cbn [forallb snd]. rewrite native_jmap_dict_of; [reflexivity|].
    induction H as [|x r Hx Hr IH]; [reflexivity|]. cbn [flat_map]. apply forallb_app_true; assumption.
Qed.

Theorem dict_native d : native_dict (ast_to_dict d) = true.
Proof.
  unfold ast_to_dict, ast_to_dict_with. apply native_dict_of. apply forallb_app_true.
  - destruct (d_meta d) as [|kv m]; [reflexivity|]. cbn [forallb snd]. rewrite native_jmap_dict_of; [reflexivity|].
    generalize (kv :: m). intro l. induction l as [|x r IH]; [reflexivity|]. cbn [map forallb snd].
    rewrite convert_value_native. exact IH.
  - induction (d_sections d) as [|n r IH]; [reflexivity|]. cbn [flat_map]. apply forallb_app_true; [apply convert_entry_native|exact IH].
Qed.

(* ---------------------------------------------------------------- markdown ---- *)
Section Md.
  Fixpoint assign_pairs (n : node) : list (str * str) :=
    match n with
    | NAssign k v => [(k, fmt_md v)]
    | NBlock _ _ ch => flat_map assign_pairs ch
    | NSection _ _ _ _ | NComment _ => []
    end.
  Definition doc_pairs (d : doc) : list (str * str) :=
    map (fun kv => (fst kv, fmt_md (snd kv))) (d_meta d) ++ flat_map assign_pairs (d_sections d).

  Lemma md_pairs_app a b : md_pairs (a ++ b) = md_pairs a ++ md_pairs b.
  Proof. apply flat_map_app. Qed.

  Lemma md_pairs_flat {A} (f : A -> list mdline) (g : A -> list (str * str)) l :
    Forall (fun x => md_pairs (f x) = g x) l -> md_pairs (flat_map f l) = flat_map g l.
  Proof. induction 1; cbn [flat_map]; [reflexivity|]. rewrite md_pairs_app. congruence. Qed.

  Lemma block_md_pairs n : forall lv, md_pairs (block_md lv n) = assign_pairs n.
  Proof.
    induction n using node_ind'; intro lv; cbn [block_md assign_pairs]; try reflexivity.
    change (md_pairs (MHead lv k :: MBlank :: flat_map (block_md (S lv)) ch))
      with (md_pairs (flat_map (block_md (S lv)) ch)).
    apply md_pairs_flat. rewrite Forall_forall in *. intros x Hx. apply H; exact Hx.
  Qed.

  Lemma top_md_pairs n : md_pairs (top_md n) = assign_pairs n.
  Proof.
    destruct n; cbn [top_md assign_pairs]; try reflexivity.
    change (md_pairs (MHead 2 k :: MBlank :: flat_map (block_md 3) ch)) with (md_pairs (flat_map (block_md 3) ch)).
    apply md_pairs_flat. rewrite Forall_forall. intros x _. apply block_md_pairs.
  Qed.

  (* the markdown view shows exactly: every META entry and every assignment reachable through blocks, in order
     (duplicates included); nothing under a section marker; nothing else *)
  Lemma md_pairs_title n x : md_pairs (MTitle n :: x) = md_pairs x. Proof. reflexivity. Qed.
  Lemma md_pairs_blank x : md_pairs (MBlank :: x) = md_pairs x. Proof. reflexivity. Qed.
  Lemma md_pairs_head lv k x : md_pairs (MHead lv k :: x) = md_pairs x. Proof. reflexivity. Qed.

  Theorem markdown_pairs d : md_pairs (md_struct d) = doc_pairs d.
  Proof.
    unfold md_struct, doc_pairs. rewrite md_pairs_title, md_pairs_blank, md_pairs_app. f_equal.
    - destruct (d_meta d) as [|kv m]; [reflexivity|].
      rewrite md_pairs_head, md_pairs_blank, md_pairs_app. change (md_pairs [MBlank]) with (@nil (str * str)).
      rewrite app_nil_r. generalize (kv :: m). intro l. induction l; [reflexivity|].
      cbn [map]. change (md_pairs (MBullet ?k ?t :: ?x)) with ((k, t) :: md_pairs x). f_equal. exact IHl.
    - apply md_pairs_flat. rewrite Forall_forall. intros x _. apply top_md_pairs.
  Qed.
End Md.

(* ---------------------------------------------------------------- refuted full statements ---- *)
Definition dict_complete_full : Prop := forall d it, In it (items_doc d) -> In it (items_dict (ast_to_dict d)).
Definition markdown_complete_full : Prop :=
  forall d k v, In (NAssign k v) (d_sections d) \/ (exists i s a ch, In (NSection i s a ch) (d_sections d) /\ In (NAssign k v) ch) ->
    In (k, fmt_md v) (md_pairs (md_struct d)).

Definition s_K : str := [75].
Definition s_S : str := [83].
Definition s_v : str := [118].
(* ===D===  §1::S  K::v *)
Definition wit_section : doc := mk_doc [68] [] [NSection [49] s_S None [NAssign s_K (VStr s_v)]].
(* K::1  K::2 *)
Definition wit_dup : doc := mk_doc [68] [] [NAssign s_K (VInt 1); NAssign s_K (VInt 2)].
(* B[->T]:  K::v *)
Definition wit_target : doc := mk_doc [68] [] [NBlock [66] (Some [84]) [NAssign s_K (VStr s_v)]].

Lemma dict_complete_refuted_section_dropped :
  project m_canonical wit_section = (wit_section, false, []) /\
  In ([PSec [49] s_S; PKey s_K], CLeaf (LfStr s_v)) (items_doc wit_section) /\
  items_dict (ast_to_dict wit_section) = [] /\
  md_pairs (md_struct wit_section) = [].
Proof. repeat split. vm_compute. tauto. Qed.

Lemma dict_complete_refuted_duplicate_key :
  project m_canonical wit_dup = (wit_dup, false, []) /\
  In ([PKey s_K], CLeaf (LfInt 1)) (items_doc wit_dup) /\
  ~ In ([PKey s_K], CLeaf (LfInt 1)) (items_dict (ast_to_dict wit_dup)).
Proof.
  repeat split; [vm_compute; tauto|]. vm_compute. intros [H|[]]. discriminate H.
Qed.

Lemma dict_complete_refuted_block_target_dropped :
  project m_canonical wit_target = (wit_target, false, []) /\
  In ([PKey [66]; PTarget], CLeaf (LfStr [84])) (items_doc wit_target) /\
  ~ In ([PKey [66]; PTarget], CLeaf (LfStr [84])) (items_dict (ast_to_dict wit_target)).
Proof.
  repeat split; [vm_compute; tauto|]. vm_compute. intros [H|[H|[]]]; discriminate H.
Qed.

Lemma dict_complete_full_refuted : ~ dict_complete_full.
Proof.
  intro H. destruct dict_complete_refuted_duplicate_key as (_ & Hin & Hnot). apply Hnot, H, Hin.
Qed.

Lemma markdown_complete_full_refuted : ~ markdown_complete_full.
Proof.
  intro H. specialize (H wit_section s_K (VStr s_v)).
  destruct dict_complete_refuted_section_dropped as (_ & _ & _ & Hm). rewrite Hm in H. apply H.
  right. exists [49], s_S, None, [NAssign s_K (VStr s_v)]. split; left; reflexivity.
Qed.

(* the hypotheses of dict_complete_partial are satisfiable on a non-trivial document:
   META + nested blocks + list with inline map + zone + holographic value + comment *)
Definition wf_example : doc :=
  mk_doc [68] [([84], VStr [88])]
    [NAssign [83] (VList [VInt 1; VMap [([107], VStr s_v)]; VList []]);
     NBlock [66] None [NAssign s_K (VZone [99] (Some [112]) [96; 96; 96]); NComment [99];
                       NBlock [67] None [NAssign s_K (VHolo [91; 93]); NAssign [76] (VFloat [49; 46; 53])]];
     NAssign [69] VNull].
Example wf_doc_nonvacuous : wf_doc wf_example = true.
Proof. vm_compute. reflexivity. Qed.

(* the CLI copy of the converter has no literal-zone case: the zone object itself reaches the serialiser *)
Lemma cli_zone_not_exported c t f :
  cli_ast_to_dict (mk_doc [68] [] [NAssign s_K (VZone c t f)]) = [(s_K, JZoneObj c t f)].
Proof. reflexivity. Qed.

(* ... and no holographic case either (cli/main.py was NOT touched by repair 88905cd): the object reaches the
   serialiser, the dict is not native and not complete (the item is an object, not the pattern text) *)
Lemma cli_holo_not_exported r :
  cli_ast_to_dict (mk_doc [68] [] [NAssign s_K (VHolo r)]) = [(s_K, JHolo r)] /\
  native_dict (cli_ast_to_dict (mk_doc [68] [] [NAssign s_K (VHolo r)])) = false /\
  ~ In ([PKey s_K], CLeaf (LfStr r)) (items_dict (cli_ast_to_dict (mk_doc [68] [] [NAssign s_K (VHolo r)]))).
Proof.
  repeat split. cbn. intros [H|[]]. discriminate H.
Qed.

(* ---------------------------------------------------------------- regressions for repair 88905cd ---- *)
(* former finding C14-holographic-python-dump / C20-eject-json-holographic / -nested-meta / C06-eject-markdown-object-repr:
   the witnesses, now on the repaired converters (closed terms, vm_compute) *)
Definition raw_holo : str := [91; 34; 101; 120; 34; 8743; 82; 69; 81; 8594; 167; 83; 69; 76; 70; 93].   (* ["ex"∧REQ→§SELF] *)
(* ===D===  H::["ex"∧REQ→§SELF] *)
Definition wit_holo : doc := mk_doc [68] [] [NAssign [72] (VHolo raw_holo)].
(* ===D===  META:  N:  L::[a,b]  H::[..]   K::[[..],[k::[..]]] : holographic values in a nested META block, in a list,
   in an inline map inside a list *)
Definition wit_nested_meta : doc :=
  mk_doc [68] [([78], VMap [([76], VList [VStr [97]; VStr [98]]); ([72], VHolo raw_holo)])]
    [NAssign s_K (VList [VHolo raw_holo; VMap [([107], VHolo raw_holo)]])].

Example regression_holo_exported_as_text :
  ast_to_dict wit_holo = [([72], JStr raw_holo)] /\
  items_dict (ast_to_dict wit_holo) = items_doc wit_holo /\
  md_pairs (md_struct wit_holo) = [([72], raw_holo)].
Proof. vm_compute. repeat split. Qed.

Example regression_nested_meta_converted :
  ast_to_dict wit_nested_meta =
    [(s_META, JMap [([78], JMap [([76], JList [JStr [97]; JStr [98]]); ([72], JStr raw_holo)])]);
     (s_K, JList [JStr raw_holo; JMap [([107], JStr raw_holo)]])] /\
  wf_doc wit_nested_meta = true /\
  items_dict (ast_to_dict wit_nested_meta) = items_doc wit_nested_meta /\
  native_dict (ast_to_dict wit_nested_meta) = true.
Proof. vm_compute. repeat split. Qed.
