(* Documents, paths and "items" (what a view contains: key/container positions and scalar leaves) for C14.
   The node/value types are the ones of Rep/Ast.v. *)
From OV Require Export Base.Strs Rep.Ast.
From Coq Require Import ZArith.
Open Scope N_scope.

Record doc := mk_doc { d_name : str; d_meta : list (str * value); d_sections : list node }.

Inductive step :=
| PKey (k : str)                 (* assignment / block / map key *)
| PIdx (i : N)                   (* list index *)
| PSec (id k : str)              (* section marker  §id::k *)
| PTarget                        (* block target  KEY[->T]: *)
| PAnn.                          (* section annotation *)
Definition path := list step.

Inductive leaf :=
| LfNull | LfBool (b : bool) | LfInt (z : Z) | LfFloat (r : str) | LfStr (s : str)
| LfHolo (raw : str)              (* a HolographicValue OBJECT left unconverted in a dict tree (CLI copy of the converter);
                                     never a leaf of a source document: see items_v *)
| LfEmptyList.
Inductive cell := CNode | CLeaf (l : leaf).
Definition item := (path * cell)%type.

Definition pre (s : step) (l : list item) : list item := map (fun it => (s :: fst it, snd it)) l.

Lemma pre_app s a b : pre s (a ++ b) = pre s a ++ pre s b.
Proof. apply map_app. Qed.
Lemma pre_incl s a b : incl a b -> incl (pre s a) (pre s b).
Proof. intros H x Hx. unfold pre in *. apply in_map_iff in Hx as (y & <- & Hy). apply in_map_iff. exists y. auto. Qed.
Lemma pre_flat_map {A} s (f : A -> list item) l : pre s (flat_map f l) = flat_map (fun x => pre s (f x)) l.
Proof. induction l; cbn [flat_map]; [reflexivity|]. rewrite pre_app. congruence. Qed.

(* string constants *)
Definition s_META : str := [77; 69; 84; 65].
Definition s_zone_marker : str := [95; 95; 108; 105; 116; 101; 114; 97; 108; 95; 122; 111; 110; 101; 95; 95].
Definition s_content : str := [99; 111; 110; 116; 101; 110; 116].
Definition s_info_tag : str := [105; 110; 102; 111; 95; 116; 97; 103].
Definition s_fence_marker : str := [102; 101; 110; 99; 101; 95; 109; 97; 114; 107; 101; 114].

Definition opt_leaf (o : option str) : leaf := match o with Some s => LfStr s | None => LfNull end.

(* a literal zone is "contained" as its documented structured export (marker, content, info_tag, fence_marker) *)
Definition zone_items (c : str) (t : option str) (f : str) : list item :=
  [([], CNode); ([PKey s_zone_marker], CLeaf (LfBool true)); ([PKey s_content], CLeaf (LfStr c));
   ([PKey s_info_tag], CLeaf (opt_leaf t)); ([PKey s_fence_marker], CLeaf (LfStr f))].

Section IdxItems.
  Context {A : Type} (f : A -> list item).
  Fixpoint idx_items (i : N) (l : list A) : list item :=
    match l with [] => [] | x :: r => pre (PIdx i) (f x) ++ idx_items (i + 1) r end.
End IdxItems.
Definition key_items {A : Type} (f : A -> list item) (m : list (str * A)) : list item :=
  flat_map (fun kv => pre (PKey (fst kv)) (f (snd kv))) m.

Lemma idx_items_map {A B} (f : B -> list item) (g : A -> B) l : forall i,
  idx_items f i (map g l) = idx_items (fun x => f (g x)) i l.
Proof. induction l; intro i; cbn [map idx_items]; [reflexivity|]. rewrite IHl. reflexivity. Qed.
Lemma idx_items_ext {A} (f g : A -> list item) l : Forall (fun x => f x = g x) l -> forall i, idx_items f i l = idx_items g i l.
Proof. induction 1; intro i; cbn [idx_items]; [reflexivity|]. rewrite H, IHForall. reflexivity. Qed.

Fixpoint items_v (v : value) : list item :=
  match v with
  | VNull => [([], CLeaf LfNull)]
  | VBool b => [([], CLeaf (LfBool b))]
  | VInt z => [([], CLeaf (LfInt z))]
  | VFloat r => [([], CLeaf (LfFloat r))]
  | VStr s => [([], CLeaf (LfStr s))]
  | VHolo r => [([], CLeaf (LfStr r))]      (* a holographic value is contained as its canonical pattern text
                                               (what the OCTAVE view shows; repair 88905cd exports exactly that) *)
  | VZone c t f => zone_items c t f
  | VList [] => [([], CLeaf LfEmptyList)]
  | VList l => ([], CNode) :: idx_items items_v 0 l
  | VMap m => ([], CNode) :: key_items items_v m
  end.

Definition opt_item (s : step) (o : option str) : list item :=
  match o with Some t => [([s], CLeaf (LfStr t))] | None => [] end.

Fixpoint items_n (n : node) : list item :=
  match n with
  | NAssign k v => pre (PKey k) (items_v v)
  | NBlock k t ch => pre (PKey k) (([], CNode) :: opt_item PTarget t ++ flat_map items_n ch)
  | NSection i k a ch => pre (PSec i k) (([], CNode) :: opt_item PAnn a ++ flat_map items_n ch)
  | NComment _ => []
  end.

Definition items_meta (m : list (str * value)) : list item :=
  match m with
  | [] => []
  | _ :: _ => pre (PKey s_META) (([], CNode) :: key_items items_v m)
  end.

Definition items_doc (d : doc) : list item := items_meta (d_meta d) ++ flat_map items_n (d_sections d).
