(* Faithful model of the converters of mcp/eject.py (and their CLI copies): _ast_to_dict, _convert_block,
   _convert_value, _format_markdown_value, _ast_to_markdown, _block_to_markdown.
   JSON / YAML serialisation of the resulting dict is TRUSTED (the harness parses the output back).
   Consumes Gen/ProjectorGen.v: handled node classes, isinstance order of _convert_value, zone export keys.

   Since repair 88905cd (eject.py): _convert_value has a HolographicValue case (-> value.raw_pattern, a str) and a
   dict case (nested META block, converted recursively); _format_markdown_value has the same two cases.
   A nested META block (a Python dict built by parse_meta_block) is represented by VMap like an InlineMap: the two are
   converted by the same expression once class 5 is present, which ProjFacts.convert_value_classes_pin requires and
   the translator checks case by case (the body of every isinstance case must be the expression modelled here).
   The CLI copies (cli/main.py) have NEITHER case (and no literal-zone case): HolographicValue / LiteralZoneValue
   objects reach the serialiser (JHolo / JZoneObj); the CLI model is NOT faithful on a nested META block that holds
   non-native values (class 5 absent there: the dict passes through unconverted) -- the harness never compares the
   CLI with the model, it compares it with the tool. *)
From OV Require Import Proj.Ast Gen.ProjectorGen.
From Coq Require Import ZArith.
Open Scope N_scope.

(* the native Python value tree handed to json.dumps / yaml.dump *)
Inductive jv :=
| JNull | JBool (b : bool) | JInt (z : Z) | JFloat (r : str) | JStr (s : str)
| JList (l : list jv)
| JMap (m : list (str * jv))                  (* dict, insertion order *)
| JHolo (raw : str)                           (* a HolographicValue object passed through unconverted (CLI copy) *)
| JZoneObj (c : str) (t : option str) (f : str).   (* a LiteralZoneValue object passed through (CLI copy) *)

(* d[k] = v on an insertion-ordered dict *)
Fixpoint dict_set (k : str) (v : jv) (d : list (str * jv)) : list (str * jv) :=
  match d with
  | [] => [(k, v)]
  | (k', v') :: r => if str_eqb k k' then (k, v) :: r else (k', v') :: dict_set k v r
  end.
Definition dict_of (l : list (str * jv)) : list (str * jv) := fold_left (fun d kv => dict_set (fst kv) (snd kv) d) l [].

Definition e_True : str := [84; 114; 117; 101].
Definition e_content : str := [118; 97; 108; 117; 101; 46; 99; 111; 110; 116; 101; 110; 116].
Definition e_info_tag : str := [118; 97; 108; 117; 101; 46; 105; 110; 102; 111; 95; 116; 97; 103].
Definition e_fence : str := [118; 97; 108; 117; 101; 46; 102; 101; 110; 99; 101; 95; 109; 97; 114; 107; 101; 114].
Definition zone_field (expr : str) (c : str) (t : option str) (f : str) : jv :=
  if str_eqb expr e_True then JBool true
  else if str_eqb expr e_content then JStr c
  else if str_eqb expr e_info_tag then match t with Some s => JStr s | None => JNull end
  else if str_eqb expr e_fence then JStr f
  else JNull.       (* unreachable: the translator refuses any other expression *)
Definition zone_export (c : str) (t : option str) (f : str) : jv :=
  JMap (dict_of (map (fun ke => (fst ke, zone_field (snd ke) c t f)) convert_zone_keys)).

(* _convert_value; `classes` = isinstance cases present (eject.py: [1;2;3;4;5], CLI copy: [2;3]) *)
Fixpoint convert_value (classes : list N) (v : value) : jv :=
  match v with
  | VNull => JNull | VBool b => JBool b | VInt z => JInt z | VFloat r => JFloat r | VStr s => JStr s
  | VHolo r => if memb 4 classes then JStr r else JHolo r
  | VZone c t f => if memb 1 classes then zone_export c t f else JZoneObj c t f
  | VList l => if memb 2 classes then JList (map (convert_value classes) l) else JNull
  | VMap m => if memb 3 classes
              then JMap (dict_of (map (fun kv => (fst kv, convert_value classes (snd kv))) m)) else JNull
  end.

(* _convert_block / the section loop of _ast_to_dict: only the node classes listed become entries *)
Fixpoint convert_entry (classes : list N) (n : node) : list (str * jv) :=
  match n with
  | NAssign k v => if memb 1 convert_node_classes then [(k, convert_value classes v)] else []
  | NBlock k _ ch => if memb 2 convert_node_classes
                     then [(k, JMap (dict_of (flat_map (convert_entry classes) ch)))] else []
  | NSection _ _ _ _ | NComment _ => []
  end.

Definition ast_to_dict_with (classes : list N) (d : doc) : list (str * jv) :=
  dict_of ((match d_meta d with
            | [] => []
            | m => [(s_META, JMap (dict_of (map (fun kv => (fst kv, convert_value classes (snd kv))) m)))]
            end) ++ flat_map (convert_entry classes) (d_sections d)).
Definition ast_to_dict : doc -> list (str * jv) := ast_to_dict_with convert_value_classes.
Definition cli_ast_to_dict : doc -> list (str * jv) := ast_to_dict_with cli_convert_value_classes.

(* ---- what a dict contains ---- *)
Fixpoint items_j (v : jv) : list item :=
  match v with
  | JNull => [([], CLeaf LfNull)]
  | JBool b => [([], CLeaf (LfBool b))]
  | JInt z => [([], CLeaf (LfInt z))]
  | JFloat r => [([], CLeaf (LfFloat r))]
  | JStr s => [([], CLeaf (LfStr s))]
  | JHolo r => [([], CLeaf (LfHolo r))]
  | JZoneObj c t f => zone_items c t f
  | JList [] => [([], CLeaf LfEmptyList)]
  | JList l => ([], CNode) :: idx_items items_j 0 l
  | JMap m => ([], CNode) :: key_items items_j m
  end.
Definition items_dict (d : list (str * jv)) : list item := key_items items_j d.

(* ---- markdown (eject.py copy), as structured lines + a renderer ---- *)
Inductive mdline :=
| MTitle (name : str)            (* "# name" *)
| MBlank                         (* "" *)
| MHead (level : nat) (k : str)  (* "#"*level + " " + k *)
| MBullet (k : str) (txt : str)  (* "- **k**: txt" *)
| MTop (k : str) (txt : str).    (* "**k**: txt" *)

Definition s_None : str := [78; 111; 110; 101].
Definition s_False : str := [70; 97; 108; 115; 101].
Definition comma_sp : str := [44; 32].
Definition colon_sp : str := [58; 32].

(* ---- JSON/YAML-representable: only dict / list / str / number / bool / None (no AST object left) ---- *)
Fixpoint native_j (v : jv) : bool :=
  match v with
  | JNull | JBool _ | JInt _ | JFloat _ | JStr _ => true
  | JList l => forallb native_j l
  | JMap m => forallb (fun kv => native_j (snd kv)) m
  | JHolo _ | JZoneObj _ _ _ => false
  end.
Definition native_dict (d : list (str * jv)) : bool := forallb (fun kv => native_j (snd kv)) d.

  (* _format_markdown_value (eject.py).  Since repair 88905cd a holographic value is shown as its raw pattern (case 4
     of format_markdown_value_classes, pinned in ProjFacts) and a nested META block as `k: v, k: v` (case 5; same
     expression as the InlineMap case, cf. the header): no oracle for str(HolographicValue) is needed any more. *)
  Fixpoint fmt_md (v : value) : str :=
    match v with
    | VNull => s_None
    | VBool b => if b then e_True else s_False
    | VInt z => Z_to_dec z
    | VFloat r => r
    | VStr s => s
    | VHolo r => r
    | VZone c t f =>
        let tag := match t with Some s => s | None => [] end in
        let body := match c with
                    | [] => []
                    | _ :: _ => if N.eqb (last c 0) c_nl then c else c ++ [c_nl]
                    end in
        f ++ tag ++ [c_nl] ++ body ++ f
    | VList l => join comma_sp (map fmt_md l)
    | VMap m => join comma_sp (map (fun kv => fst kv ++ colon_sp ++ fmt_md (snd kv)) m)
    end.

  Fixpoint block_md (level : nat) (n : node) : list mdline :=
    match n with
    | NAssign k v => [MBullet k (fmt_md v)]
    | NBlock k _ ch => MHead level k :: MBlank :: flat_map (block_md (S level)) ch
    | NSection _ _ _ _ | NComment _ => []
    end.

  Definition top_md (n : node) : list mdline :=
    match n with
    | NAssign k v => [MTop k (fmt_md v); MBlank]
    | NBlock k _ ch => MHead 2 k :: MBlank :: flat_map (block_md 3) ch
    | NSection _ _ _ _ | NComment _ => []
    end.

  Definition md_struct (d : doc) : list mdline :=
    MTitle (d_name d) :: MBlank ::
    (match d_meta d with
     | [] => []
     | m => MHead 2 s_META :: MBlank :: map (fun kv => MBullet (fst kv) (fmt_md (snd kv))) m ++ [MBlank]
     end) ++ flat_map top_md (d_sections d).

  Definition stars : str := [42; 42].
  Definition render_line (l : mdline) : str :=
    match l with
    | MTitle n => [35; 32] ++ n
    | MBlank => []
    | MHead lv k => repeat 35 lv ++ [32] ++ k
    | MBullet k t => [45; 32] ++ stars ++ k ++ stars ++ colon_sp ++ t
    | MTop k t => stars ++ k ++ stars ++ colon_sp ++ t
    end.
  Definition markdown (d : doc) : str := join [c_nl] (map render_line (md_struct d)).

  (* the (key, text) pairs a markdown view shows, in order *)
  Definition md_pairs (ls : list mdline) : list (str * str) :=
    flat_map (fun l => match l with MBullet k t | MTop k t => [(k, t)] | _ => [] end) ls.
