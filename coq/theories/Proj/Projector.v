(* Faithful model of octave_mcp/core/projector.py: _filter_fields and project().
   The mode table (keep lists, lossy flags, fields_omitted, default branch) is CONSUMED from Gen/ProjectorGen.v. *)
From OV Require Import Proj.Ast Gen.ProjectorGen.
Open Scope N_scope.

(* filter_recursively(nodes, apply_filter=False): Blocks are rebuilt with preserved children, everything else as is *)
Fixpoint preserve (n : node) : node :=
  match n with
  | NBlock k t ch => NBlock k t (map preserve ch)
  | _ => n
  end.

(* filter_recursively(nodes, apply_filter=True) on one node: zero or one resulting node *)
Fixpoint filter_node (keep : list str) (n : node) : list node :=
  match n with
  | NAssign k _ => if str_in k keep then [n] else []
  | NBlock k t ch =>
      if str_in k keep then [NBlock k t (map preserve ch)]
      else match flat_map (filter_node keep) ch with
           | [] => []
           | fc => [NBlock k t fc]
           end
  | NSection _ _ _ _ | NComment _ => [n]        (* "other node types" are kept untouched, children unfiltered *)
  end.

Definition filter_fields (keep : list str) (d : doc) : doc :=
  mk_doc (d_name d) (d_meta d) (flat_map (filter_node keep) (d_sections d)).

Definition mode_rec := (option (list str) * bool * list str)%type.
Fixpoint find_mode (m : str) (tbl : list (str * mode_rec)) : mode_rec :=
  match tbl with
  | [] => projector_default
  | (name, r) :: t => if str_eqb m name then r else find_mode m t
  end.

(* ProjectionResult without the emitted text: (filtered_doc, lossy, fields_omitted) *)
Definition project (mode : str) (d : doc) : doc * bool * list str :=
  match find_mode mode projector_modes with
  | (None, lossy, om) => (d, lossy, om)
  | (Some keep, lossy, om) => (filter_fields keep d, lossy, om)
  end.

Definition m_canonical : str := [99; 97; 110; 111; 110; 105; 99; 97; 108].
Definition m_authoring : str := [97; 117; 116; 104; 111; 114; 105; 110; 103].
Definition m_executive : str := [101; 120; 101; 99; 117; 116; 105; 118; 101].
Definition m_developer : str := [100; 101; 118; 101; 108; 111; 112; 101; 114].
