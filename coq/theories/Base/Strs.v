(* Strings as lists of Unicode code points (N).  Executable, structurally recursive. *)
From Coq Require Export List NArith Bool Arith Lia.
Export ListNotations.
Open Scope N_scope.

Definition chr := N.
Definition str := list N.

(* anchor so that every extraction contains nat and N (the OCaml prelude refers to both) *)
Definition extract_anchor : nat * N := (1%nat, 1%N).

Fixpoint str_eqb (a b : str) : bool :=
  match a, b with
  | [], [] => true
  | x :: a', y :: b' => N.eqb x y && str_eqb a' b'
  | _, _ => false
  end.

Lemma str_eqb_refl s : str_eqb s s = true.
Proof. induction s as [|c s IH]; cbn; [reflexivity|]. rewrite N.eqb_refl; exact IH. Qed.

Lemma str_eqb_eq a b : str_eqb a b = true <-> a = b.
Proof.
  revert b; induction a as [|x a IH]; intros [|y b]; cbn; split; intro H; try reflexivity; try discriminate.
  - apply andb_true_iff in H as [H1 H2]. apply N.eqb_eq in H1. apply IH in H2. congruence.
  - inversion H; subst. rewrite N.eqb_refl. cbn. apply IH. reflexivity.
Qed.

Fixpoint prefixb (p s : str) : bool :=
  match p, s with
  | [], _ => true
  | x :: p', y :: s' => N.eqb x y && prefixb p' s'
  | _ :: _, [] => false
  end.

Definition memb (c : N) (l : list N) : bool := existsb (N.eqb c) l.

Fixpoint str_in (s : str) (l : list str) : bool :=
  match l with [] => false | x :: l' => str_eqb s x || str_in s l' end.

(* character constants *)
Definition c_nl := 10.   Definition c_tab := 9.   Definition c_cr := 13.
Definition c_sp := 32.   Definition c_dq := 34.   Definition c_bs := 92.
Definition c_n := 110.   Definition c_t := 116.
Definition c_colon := 58. Definition c_lbr := 91. Definition c_rbr := 93.
Definition c_comma := 44. Definition c_lt := 60.  Definition c_gt := 62.
Definition c_dollar := 36. Definition c_us := 95. Definition c_dot := 46.
Definition c_dash := 45. Definition c_slash := 47. Definition c_hash := 35.
Definition c_eq := 61.   Definition c_bt := 96.   Definition c_plus := 43.
Definition c_at := 64.

Definition is_digit (c : N) : bool := (48 <=? c) && (c <=? 57).
Definition is_upper (c : N) : bool := (65 <=? c) && (c <=? 90).
Definition is_lower (c : N) : bool := (97 <=? c) && (c <=? 122).
Definition is_alpha (c : N) : bool := is_upper c || is_lower c.
Definition is_alnum (c : N) : bool := is_alpha c || is_digit c.
Definition is_ascii (c : N) : bool := c <? 128.

(* join with a separator *)
Fixpoint join (sep : str) (l : list str) : str :=
  match l with
  | [] => []
  | [x] => x
  | x :: l' => x ++ sep ++ join sep l'
  end.

(* split on a single character: always returns a non-empty list *)
Fixpoint split_on (c : N) (s : str) : list str :=
  match s with
  | [] => [[]]
  | x :: s' =>
      if N.eqb x c then [] :: split_on c s'
      else match split_on c s' with
           | [] => [[x]]          (* unreachable *)
           | h :: t => (x :: h) :: t
           end
  end.

Lemma split_on_nonempty c s : split_on c s <> [].
Proof. destruct s as [|x s]; cbn; [discriminate|]. destruct (N.eqb x c); [discriminate|].
       destruct (split_on c s); discriminate. Qed.

Lemma split_on_no_sep c s : memb c s = false -> split_on c s = [s].
Proof.
  induction s as [|x s IH]; cbn; intro H; [reflexivity|].
  apply orb_false_iff in H as [H1 H2]. rewrite N.eqb_sym in H1. rewrite H1, (IH H2). reflexivity.
Qed.

Lemma split_on_app c a b : memb c a = false ->
  split_on c (a ++ c :: b) = a :: split_on c b.
Proof.
  induction a as [|x a IH]; cbn; intro H.
  - rewrite N.eqb_refl. reflexivity.
  - apply orb_false_iff in H as [H1 H2]. rewrite N.eqb_sym in H1. rewrite H1, (IH H2). reflexivity.
Qed.

(* split / join are inverse on newline-free lines *)
Theorem split_join c (ls : list str) : ls <> [] -> forallb (fun l => negb (memb c l)) ls = true ->
  split_on c (join [c] ls) = ls.
Proof.
  induction ls as [|l ls IH]; intros Hne H; [congruence|].
  cbn in H. apply andb_true_iff in H as [Hl Hls]. apply negb_true_iff in Hl.
  destruct ls as [|l2 ls'].
  - cbn. apply split_on_no_sep; exact Hl.
  - change (join [c] (l :: l2 :: ls')) with (l ++ [c] ++ join [c] (l2 :: ls')).
    cbn [app]. rewrite split_on_app by exact Hl. f_equal. apply IH; [discriminate|exact Hls].
Qed.

(* decimal rendering of N (fuelled by the binary size; enough for every N) *)
Fixpoint dec_digits (fuel : nat) (n : N) (acc : str) : str :=
  match fuel with
  | O => acc
  | S f => let d := 48 + n mod 10 in
           if n <? 10 then d :: acc else dec_digits f (n / 10) (d :: acc)
  end.
Definition N_to_dec (n : N) : str := dec_digits (S (N.to_nat (N.size n))) n [].

Definition repeat_chr (c : N) (n : nat) : str := repeat c n.

Fixpoint dropb (p : N -> bool) (s : str) : str :=
  match s with [] => [] | x :: s' => if p x then dropb p s' else s end.
Fixpoint takeb (p : N -> bool) (s : str) : str :=
  match s with [] => [] | x :: s' => if p x then x :: takeb p s' else [] end.

Lemma takeb_dropb p s : takeb p s ++ dropb p s = s.
Proof. induction s as [|x s IH]; cbn; [reflexivity|]. destruct (p x); cbn; congruence. Qed.

(* ASCII literals for readability in models: lit "abc" = [97;98;99] *)
Require Import Coq.Strings.String Coq.Strings.Ascii.
Fixpoint lit (s : String.string) : str :=
  match s with
  | String.EmptyString => []
  | String.String a r => N_of_ascii a :: lit r
  end.
Arguments lit s%string.
