(* C19 -- "no component of the path is a symbolic link, as lstat sees it" implies "the path is real".
   The helper `_resolve_without_links` of core/hydrator.py (repo fix 3bf4eb7) ends with
       for part in (resolved, *resolved.parents):
           if part.is_symlink(): raise OSError(ELOOP, ...)
   i.e. it asks the KERNEL (lstat) about every prefix of the path it is about to return.  This file proves that for a
   clean path (no empty / "." / ".." component -- what normpath returns) that test is exactly `real`: whatever algorithm
   produced the path, and whatever it did at symlink loops, a path that passes has no link in any component. *)
From OV Require Import Base.Strs Path.FsTree Path.Realpath Path.PyRealpath.
Open Scope N_scope.

Definition is_link_n (n : node) : bool := match n with NLink _ => true | _ => false end.

(* the walk from `cur` through `mid` meets only existing directories / non-links with ordinary short names *)
Fixpoint walkable (fs : node) (cur mid : path) : Prop :=
  match mid with
  | [] => True
  | x :: mid' =>
      (exists es, raw fs cur = Some (NDir es)) /\ str_eqb x s_dot = false /\ str_eqb x s_dotdot = false /\
      seg_too_long x = false /\ (exists n, raw fs (cur ++ [x]) = Some n /\ is_link_n n = false) /\
      walkable fs (cur ++ [x]) mid'
  end.

Lemma kw_go_through fs f k : forall mid cur rest, walkable fs cur mid ->
  kw_go fs f k cur (mid ++ rest) = kw_go fs f k (cur ++ mid) rest.
Proof.
  induction mid as [|x mid IH]; intros cur rest W; cbn [app]; [rewrite app_nil_r; reflexivity|].
  destruct W as ((es & Hd) & H1 & H2 & H3 & (n & Hn & Hl) & W). cbn [kw_go]. rewrite Hd, H1, H2, H3, Hn.
  destruct n as [b|es2|t]; [| |discriminate]; rewrite (IH _ _ W), <- app_assoc; reflexivity.
Qed.

Lemma walkable_snoc fs : forall mid cur x, walkable fs cur mid ->
  (exists es, raw fs (cur ++ mid) = Some (NDir es)) -> str_eqb x s_dot = false -> str_eqb x s_dotdot = false ->
  seg_too_long x = false -> (exists n, raw fs (cur ++ mid ++ [x]) = Some n /\ is_link_n n = false) ->
  walkable fs cur (mid ++ [x]).
Proof.
  induction mid as [|y mid IH]; intros cur x W Hd H1 H2 H3 Hn; cbn [app walkable].
  - rewrite app_nil_r in Hd. cbn [app] in Hn. repeat split; assumption || exact I.
  - destruct W as (A & B & C & D & E & W). repeat split; try assumption.
    apply IH; try assumption.
    + rewrite <- app_assoc. exact Hd.
    + rewrite <- app_assoc. exact Hn.
Qed.

Lemma raw_app n : forall a b, raw n (a ++ b) = match raw n a with Some m => raw m b | None => None end.
Proof.
  intros a; revert n; induction a as [|c a IH]; intros n b; cbn; [reflexivity|].
  destruct n as [x|es|t]; try reflexivity. destruct (assoc c es); [apply IH|reflexivity].
Qed.

Lemma raw_snoc_some fs (cur : path) (c : seg) n : raw fs (cur ++ [c]) = Some n -> exists es, raw fs cur = Some (NDir es).
Proof.
  rewrite raw_app. destruct (raw fs cur) as [[b|es|t]|]; cbn; try discriminate. intros _. exists es. reflexivity.
Qed.

(* lstat of cur ++ [c] when the way to cur is walkable *)
Lemma klstat_last fs (cur : path) (c : seg) : walkable fs [] cur -> str_eqb c s_dot = false -> str_eqb c s_dotdot = false ->
  (exists es, raw fs cur = Some (NDir es)) ->
  p_lstat_link fs (cur ++ [c]) =
    if seg_too_long c then ExRaise
    else match raw fs (cur ++ [c]) with Some (NLink _) => ExTrue | _ => ExFalse end.
Proof.
  intros W H1 H2 (es & Hd). unfold p_lstat_link, klstat, k_budget. cbn [kwalk].
  rewrite (kw_go_through fs false _ cur [] [c] W). cbn [app kw_go]. rewrite Hd, H1, H2.
  destruct (seg_too_long c); [reflexivity|].
  destruct (raw fs (cur ++ [c])) as [[b|es2|t]|] eqn:E; cbn [is_nil andb negb kw_go]; try reflexivity.
Qed.

Definition nolinks (fs : node) (p : path) : bool :=
  forallb (fun q => match p_lstat_link fs q with ExFalse => true | _ => false end) (inits1 p).

Lemma nolinks_from fs : forall rest cur, clean rest ->
  forallb (fun q => match p_lstat_link fs q with ExFalse => true | _ => false end) (inits_from cur rest) = true ->
  real fs cur -> (raw fs cur <> None -> walkable fs [] cur) ->
  real fs (cur ++ rest).
Proof.
  induction rest as [|c rest IH]; intros cur Hc Hn Hr Hw; [rewrite app_nil_r; exact Hr|].
  cbn [inits_from forallb] in Hn. apply andb_true_iff in Hn as [Hn1 Hn2].
  destruct (Hc c (or_introl eq_refl)) as (_ & D1 & D2).
  assert (Key : forall n, raw fs (cur ++ [c]) = Some n -> is_link_n n = false /\ seg_too_long c = false /\ walkable fs [] cur
                          /\ exists es, raw fs cur = Some (NDir es)).
  { intros n En. destruct (raw_snoc_some _ _ _ _ En) as (es & Hd).
    assert (W : walkable fs [] cur) by (apply Hw; rewrite Hd; discriminate).
    rewrite (klstat_last fs cur c W D1 D2 (ex_intro _ es Hd)) in Hn1.
    destruct (seg_too_long c); [discriminate|]. rewrite En in Hn1.
    repeat split; try assumption; [destruct n; try reflexivity; discriminate|exists es; exact Hd]. }
  replace (cur ++ c :: rest) with ((cur ++ [c]) ++ rest) by (rewrite <- app_assoc; reflexivity).
  apply IH; [intros x Hx; apply Hc; right; exact Hx|exact Hn2| |].
  - apply real_snoc; [exact Hr|]. destruct (raw fs (cur ++ [c])) as [n|] eqn:En; [|reflexivity].
    destruct (Key n eq_refl) as (L & _). destruct n; try reflexivity; discriminate.
  - intro Hne. destruct (raw fs (cur ++ [c])) as [n|] eqn:En; [|congruence].
    destruct (Key n eq_refl) as (L & T & W & Hd).
    pose proof (walkable_snoc fs cur [] c W) as X. cbn [app] in X. apply X; try assumption.
    exists n. split; [exact En|exact L].
Qed.

(* every prefix passes `not is_symlink()` (lstat, no error)  ==>  no prefix is a link in the tree *)
Theorem nolinks_real fs p : clean p -> nolinks fs p = true -> real fs p.
Proof.
  intros Hc Hn. unfold nolinks, inits1 in Hn.
  exact (nolinks_from fs p [] Hc Hn (real_nil fs) (fun _ => I)).
Qed.

Lemma nolinks_no_symlink fs p q : nolinks fs p = true -> In q (inits1 p) -> p_is_symlink fs q = false.
Proof.
  unfold nolinks. rewrite forallb_forall. intros H Hq. specialize (H q Hq). unfold p_is_symlink.
  destruct (p_lstat_link fs q); [discriminate|reflexivity|discriminate].
Qed.

(* ---- the helper over ANY resolution function ---------------------------------------------------------- *)
Section AnyResolution.
  (* R fs p = what `os.path.realpath(candidate.resolve())` computed before its final abspath/normpath, or None if it
     raised (OSError / ValueError / RuntimeError: all three are caught by both callers).  NOTHING is assumed about R. *)
  Variable R : node -> path -> option path.

  Definition resolve_without_links (fs : node) (cand : path) : option path :=
    match R fs cand with
    | None => None
    | Some x => let r := normpath x in if nolinks fs r then Some r else None
    end.

  Theorem resolve_without_links_real fs cand r : resolve_without_links fs cand = Some r ->
    real fs r /\ clean r /\ forall q, In q (inits1 r) -> p_is_symlink fs q = false.
  Proof.
    unfold resolve_without_links. destruct (R fs cand) as [x|]; [|discriminate].
    destruct (nolinks fs (normpath x)) eqn:N; [|discriminate]. intro H. inversion H; subst r.
    split; [exact (nolinks_real fs _ (normpath_is_clean x) N)|split; [exact (normpath_is_clean x)|]].
    intros q Hq. exact (nolinks_no_symlink fs _ q N Hq).
  Qed.
End AnyResolution.
