(* C19 -- pathlib's lexical rules (PurePosixPath of CPython 3.12) and Path.resolve(strict=False)
   (posixpath.realpath: lexical "..", lstat per component, link expansion; a link cycle makes
   Path.resolve raise RuntimeError). *)
From OV Require Import Base.Strs Path.FsTree.
Open Scope N_scope.

(* ---- lexical part -------------------------------------------------------------------- *)
(* root kind: 0 relative, 1 "/", 2 "//" (exactly two leading slashes -- POSIX special case) *)
Record ppath : Type := mkpp { proot : N; ptail : path }.

Definition root_kind (s : str) : N :=
  match s with
  | a :: s1 =>
      if negb (N.eqb a c_slash) then 0
      else match s1 with
           | b :: s2 =>
               if negb (N.eqb b c_slash) then 1
               else match s2 with
                    | c :: _ => if N.eqb c c_slash then 1 else 2
                    | [] => 2
                    end
           | [] => 1
           end
  | [] => 0
  end.

Definition keep_seg (c : seg) : bool := negb (is_nil c) && negb (str_eqb c s_dot).
(* PurePath._parse_path: split on "/", drop empty and "." components, keep ".." *)
Definition pparse (s : str) : ppath := mkpp (root_kind s) (filter keep_seg (split_on c_slash s)).

Definition pname (pp : ppath) : str := last (ptail pp) [].
Definition p_is_absolute (pp : ppath) : bool := negb (N.eqb (proot pp) 0).
(* Path.absolute(): cwd (as returned by getcwd: absolute, normalised) joined in front of a relative path *)
Definition pabsolute (cwd : path) (pp : ppath) : ppath :=
  if p_is_absolute pp then pp else mkpp 1 (cwd ++ ptail pp).
(* self / other : an absolute right operand replaces the left one *)
Definition pjoin (a b : ppath) : ppath :=
  if p_is_absolute b then b else mkpp (proot a) (ptail a ++ ptail b).

Definition path_eqb (a b : path) : bool :=
  (Nat.eqb (length a) (length b)) && forallb (fun xy => str_eqb (fst xy) (snd xy)) (combine a b).
Definition ppath_eqb (a b : ppath) : bool := N.eqb (proot a) (proot b) && path_eqb (ptail a) (ptail b).

Lemma path_eqb_eq a b : path_eqb a b = true <-> a = b.
Proof.
  unfold path_eqb. revert b; induction a as [|x a IH]; intros [|y b]; cbn; split; intro H; try reflexivity; try discriminate.
  - apply andb_true_iff in H as [H1 H2]. apply andb_true_iff in H2 as [H2 H3].
    apply str_eqb_eq in H2. subst y. f_equal. apply IH. rewrite H1. exact H3.
  - inversion H; subst. rewrite Nat.eqb_refl, str_eqb_refl. cbn.
    assert (E : path_eqb b b = true) by (apply IH; reflexivity). unfold path_eqb in E. rewrite Nat.eqb_refl in E. exact E.
Qed.

(* split at the last dot: s = before ++ "." ++ after, no dot in after *)
Fixpoint split_last_dot (s : str) : option (str * str) :=
  match s with
  | [] => None
  | c :: s' =>
      match split_last_dot s' with
      | Some (b, a) => Some (c :: b, a)
      | None => if N.eqb c c_dot then Some ([], s') else None
      end
  end.

Lemma split_last_dot_spec s b a : split_last_dot s = Some (b, a) -> s = b ++ c_dot :: a.
Proof.
  revert b a; induction s as [|c s IH]; intros b a H; cbn in H; [discriminate|].
  destruct (split_last_dot s) as [[b' a']|].
  - inversion H; subst. cbn. f_equal. apply IH. reflexivity.
  - destruct (N.eqb c c_dot) eqn:E; [|discriminate]. inversion H; subst. apply N.eqb_eq in E. subst c. reflexivity.
Qed.

(* PurePath.suffix: i = name.rfind('.'); name[i:] if 0 < i < len(name)-1 else '' *)
Definition suffix (name : str) : str :=
  match split_last_dot name with
  | Some (b, a) => if negb (is_nil b) && negb (is_nil a) then c_dot :: a else []
  | None => []
  end.

Definition ends_with_dot (s : str) : bool := match rev s with c :: _ => N.eqb c c_dot | [] => false end.
(* PurePath.suffixes *)
Definition suffixes (name : str) : list str :=
  if ends_with_dot name then []
  else map (fun x => c_dot :: x) (tl (split_on c_dot (dropb (N.eqb c_dot) name))).

Definition last2 (l : list str) : list str :=
  match rev l with
  | z :: y :: _ => [y; z]
  | _ => l
  end.
(* "".join(path.suffixes[-2:]) if len(path.suffixes) >= 2 else path.suffix *)
Definition compound_suffix (name : str) : str :=
  let ss := suffixes name in
  if (2 <=? length ss)%nat then concat (last2 ss) else suffix name.

(* `path.suffix not in ALLOWED` ... `compound_suffix not in ALLOWED` -> refuse *)
Definition ext_ok (allowed : list str) (name : str) : bool :=
  str_in (suffix name) allowed || str_in (compound_suffix name) allowed.

Lemma str_in_In s l : str_in s l = true -> In s l.
Proof.
  induction l as [|x l IH]; cbn; intro H; [discriminate|].
  apply orb_true_iff in H as [H|H]; [left; symmetry; apply str_eqb_eq; exact H|right; exact (IH H)].
Qed.

(* ---- facts about suffix / compound suffix ------------------------------------------------ *)
Lemma suffix_stem name : suffix name <> [] -> exists stem, stem <> [] /\ name = stem ++ suffix name.
Proof.
  unfold suffix. destruct (split_last_dot name) as [[b a]|] eqn:E; [|congruence].
  destruct b as [|x b]; cbn; [congruence|]. destruct a as [|y a]; cbn; [congruence|]. intros _.
  exists (x :: b). split; [discriminate|]. exact (split_last_dot_spec _ _ _ E).
Qed.

Lemma join_split c s : join [c] (split_on c s) = s.
Proof.
  induction s as [|x s IH]; cbn; [reflexivity|].
  destruct (N.eqb x c) eqn:E.
  - apply N.eqb_eq in E. subst x. destruct (split_on c s) as [|h t] eqn:Es; [exfalso; exact (split_on_nonempty _ _ Es)|].
    cbn. cbn in IH. rewrite IH. reflexivity.
  - destruct (split_on c s) as [|h t] eqn:Es; [exfalso; exact (split_on_nonempty _ _ Es)|].
    destruct t as [|h2 t]; cbn in *; rewrite <- IH; reflexivity.
Qed.

Lemma join_snoc c (l : list str) y : l <> [] -> join [c] (l ++ [y]) = join [c] l ++ c :: y.
Proof.
  induction l as [|x l IH]; [congruence|]. intros _. destruct l as [|x2 l].
  - cbn. reflexivity.
  - change ((x :: x2 :: l) ++ [y]) with (x :: ((x2 :: l) ++ [y])). cbn [app join] in *.
    rewrite IH by discriminate. rewrite <- !app_assoc. reflexivity.
Qed.

Lemma dropb_split p s : exists pre, s = pre ++ dropb p s /\ forallb p pre = true.
Proof.
  induction s as [|x s (pre & E & F)]; [exists []; split; reflexivity|]. cbn. destruct (p x) eqn:Ep.
  - exists (x :: pre). cbn. rewrite Ep, F. split; [f_equal; exact E|reflexivity].
  - exists []. split; reflexivity.
Qed.

Lemma dropb_head p s : match dropb p s with x :: _ => p x = false | [] => True end.
Proof. induction s as [|x s IH]; cbn; [exact I|]. destruct (p x) eqn:E; [exact IH|exact E]. Qed.

(* with >= 2 suffixes the compound suffix is a proper tail of the name *)
Lemma compound_stem name : (2 <= length (suffixes name))%nat ->
  exists stem, stem <> [] /\ name = stem ++ concat (last2 (suffixes name)).
Proof.
  unfold suffixes. destruct (ends_with_dot name); [cbn; lia|].
  set (nm := dropb (N.eqb c_dot) name). intro Hlen. rewrite map_length in Hlen.
  destruct (split_on c_dot nm) as [|p0 ps] eqn:Es; [exfalso; exact (split_on_nonempty _ _ Es)|].
  cbn [tl] in *.
  destruct (snoc_case ps) as [->|(ps1 & z & ->)]; [cbn in Hlen; lia|].
  destruct (snoc_case ps1) as [->|(ps2 & y & ->)]; [cbn in Hlen; lia|].
  assert (L2 : last2 (map (fun x => c_dot :: x) ((ps2 ++ [y]) ++ [z])) = [c_dot :: y; c_dot :: z]).
  { unfold last2. rewrite !map_app, !rev_app_distr. cbn. reflexivity. }
  rewrite L2. cbn [concat]. rewrite app_nil_r.
  assert (Hj : nm = join [c_dot] (p0 :: ps2) ++ (c_dot :: y) ++ c_dot :: z).
  { rewrite <- (join_split c_dot nm), Es.
    change (p0 :: (ps2 ++ [y]) ++ [z]) with ((p0 :: ps2 ++ [y]) ++ [z]).
    rewrite join_snoc by discriminate. change (p0 :: ps2 ++ [y]) with ((p0 :: ps2) ++ [y]).
    rewrite join_snoc by discriminate. rewrite <- app_assoc. reflexivity. }
  destruct (dropb_split (N.eqb c_dot) name) as (pre & En & _). fold nm in En.
  exists (pre ++ join [c_dot] (p0 :: ps2)). split.
  - (* the stem is not empty: nm does not start with a dot, so p0 is not empty *)
    intro H0. apply app_eq_nil in H0 as [_ H0].
    pose proof (dropb_head (N.eqb c_dot) name) as Hh. fold nm in Hh. rewrite Hj, H0 in Hh. cbn in Hh.
    try rewrite N.eqb_refl in Hh; discriminate.
  - rewrite En at 1. rewrite Hj. rewrite <- !app_assoc. reflexivity.
Qed.

Theorem ext_ok_sound allowed name : forallb (fun e => negb (is_nil e)) allowed = true ->
  ext_ok allowed name = true -> exists stem e, stem <> [] /\ In e allowed /\ name = stem ++ e.
Proof.
  intros Hne H. unfold ext_ok in H. apply orb_true_iff in H as [H|H].
  - apply str_in_In in H. assert (Hs : suffix name <> []).
    { intro E. rewrite E in H. rewrite forallb_forall in Hne. specialize (Hne [] H). discriminate. }
    destruct (suffix_stem name Hs) as (stem & H1 & H2). exists stem, (suffix name). auto.
  - apply str_in_In in H. unfold compound_suffix in H. destruct (2 <=? length (suffixes name))%nat eqn:E.
    + apply Nat.leb_le in E. destruct (compound_stem name E) as (stem & H1 & H2).
      exists stem, (concat (last2 (suffixes name))). auto.
    + assert (Hs : suffix name <> []).
      { intro E2. rewrite E2 in H. rewrite forallb_forall in Hne. specialize (Hne [] H). discriminate. }
      destruct (suffix_stem name Hs) as (stem & H1 & H2). exists stem, (suffix name). auto.
Qed.

(* ---- realpath -------------------------------------------------------------------------- *)
Inductive rres : Type := ROk (p : path) | RLoop.

Section RStep.
  Variable fs : node.
  Variable k : path -> path -> rres.     (* continuation after expanding one link (one unit less fuel) *)
  (* posixpath._joinrealpath: acc is the resolved part, rest the unprocessed components *)
  Fixpoint rp_go (acc rest : path) {struct rest} : rres :=
    match rest with
    | [] => ROk acc
    | c :: rest' =>
        if is_nil c || str_eqb c s_dot then rp_go acc rest'
        else if str_eqb c s_dotdot then rp_go (removelast acc) rest'
        else match raw fs (acc ++ [c]) with              (* os.lstat(join(path, name)); errors = not a link *)
             | Some (NLink t) => k (if is_abs_str t then [] else acc) (split_on c_slash t ++ rest')
             | _ => rp_go (acc ++ [c]) rest'
             end
    end.
End RStep.

Fixpoint realpath (fuel : nat) (fs : node) : path -> path -> rres :=
  match fuel with
  | O => fun _ _ => RLoop
  | S f => rp_go fs (realpath f fs)
  end.

(* number of link expansions after which the model reports a cycle (Python detects the cycle itself and
   Path.resolve turns it into RuntimeError; a non-cyclic resolution with more expansions is out of model) *)
Definition rp_fuel : nat := 200.

Definition has_nul (p : path) : bool := existsb (fun c => memb 0 c) p.

Inductive resolve_res : Type := ResOk (p : path) | ResErr.
(* Path(abs).resolve(strict=False) for an absolute path given by its tail; embedded NUL -> ValueError,
   link cycle -> RuntimeError (both are `Exception`s for the callers) *)
Definition resolve (fs : node) (tail : path) : resolve_res :=
  if has_nul tail then ResErr
  else match realpath rp_fuel fs [] tail with ROk p => ResOk p | RLoop => ResErr end.

(* ---- the result of realpath is a real, dot-free path ---------------------------------------- *)
Lemma rp_go_real fs k :
  (forall acc rest r, real fs acc -> k acc rest = ROk r -> real fs r) ->
  forall rest acc r, real fs acc -> rp_go fs k acc rest = ROk r -> real fs r.
Proof.
  intros Hk. induction rest as [|c rest IH]; intros acc r Ha H; cbn [rp_go] in H.
  - inversion H; subst; exact Ha.
  - destruct (is_nil c || str_eqb c s_dot); [exact (IH _ _ Ha H)|].
    destruct (str_eqb c s_dotdot); [exact (IH _ _ (real_removelast _ _ Ha) H)|].
    destruct (raw fs (acc ++ [c])) as [[b|es|t]|] eqn:E.
    + apply (IH _ _ (real_snoc _ _ _ Ha ltac:(rewrite E; reflexivity)) H).
    + apply (IH _ _ (real_snoc _ _ _ Ha ltac:(rewrite E; reflexivity)) H).
    + destruct (is_abs_str t); [exact (Hk _ _ _ (real_nil fs) H)|exact (Hk _ _ _ Ha H)].
    + apply (IH _ _ (real_snoc _ _ _ Ha ltac:(rewrite E; reflexivity)) H).
Qed.

Theorem realpath_real fs : forall fuel acc rest r, real fs acc -> realpath fuel fs acc rest = ROk r -> real fs r.
Proof.
  induction fuel as [|f IH]; intros acc rest r Ha H; cbn in H; [discriminate|].
  exact (rp_go_real fs (realpath f fs) IH rest acc r Ha H).
Qed.

Definition cleanseg (c : seg) : Prop := c <> [] /\ str_eqb c s_dot = false /\ str_eqb c s_dotdot = false.
Definition clean (p : path) : Prop := forall c, In c p -> cleanseg c.

Lemma clean_nil : clean [].
Proof. intros c []. Qed.

Lemma clean_removelast p : clean p -> clean (removelast p).
Proof.
  intros H c Hc. apply H. destruct p as [|x p]; [destruct Hc|].
  rewrite (app_removelast_last [] (l := x :: p)) by discriminate. apply in_or_app. left. exact Hc.
Qed.

Lemma rp_go_clean fs k :
  (forall acc rest r, clean acc -> k acc rest = ROk r -> clean r) ->
  forall rest acc r, clean acc -> rp_go fs k acc rest = ROk r -> clean r.
Proof.
  intros Hk. induction rest as [|c rest IH]; intros acc r Ha H; cbn [rp_go] in H.
  - inversion H; subst; exact Ha.
  - destruct (is_nil c || str_eqb c s_dot) eqn:E1; [exact (IH _ _ Ha H)|].
    destruct (str_eqb c s_dotdot) eqn:E2; [exact (IH _ _ (clean_removelast _ Ha) H)|].
    apply orb_false_iff in E1 as [E0 E1].
    assert (Hc : clean (acc ++ [c])).
    { intros x Hx. apply in_app_or in Hx as [Hx|[Hx|[]]]; [exact (Ha x Hx)|]. subst x.
      split; [intro Z; subst c; discriminate|split; assumption]. }
    destruct (raw fs (acc ++ [c])) as [[b|es|t]|]; try exact (IH _ _ Hc H).
    destruct (is_abs_str t); [exact (Hk _ _ _ clean_nil H)|exact (Hk _ _ _ Ha H)].
Qed.

Theorem realpath_clean fs : forall fuel acc rest r, clean acc -> realpath fuel fs acc rest = ROk r -> clean r.
Proof.
  induction fuel as [|f IH]; intros acc rest r Ha H; cbn in H; [discriminate|].
  exact (rp_go_clean fs (realpath f fs) IH rest acc r Ha H).
Qed.

Lemma clean_dotfree p : clean p -> dotfree p.
Proof. intros H c Hc. destruct (H c Hc) as (_ & A & B). split; assumption. Qed.

Lemma kwalk_real fs follow b rest cur :
  real fs (cur ++ rest) -> dotfree rest -> cur ++ rest <> [] ->
  match kwalk b fs follow cur rest with KFound _ (NLink _) => False | _ => True end.
Proof. destruct b as [|b]; cbn [kwalk]; [intros; exact I|apply kw_go_real]. Qed.

(* a path that resolve() returns unchanged has no link in any component, as the kernel sees it *)
Theorem resolve_fixed_no_symlink fs tail :
  resolve fs tail = ResOk tail -> forall q, In q (inits1 tail) -> p_is_symlink fs q = false.
Proof.
  unfold resolve. destruct (has_nul tail); [discriminate|].
  destruct (realpath rp_fuel fs [] tail) as [r|] eqn:E; [|discriminate]. intro H. inversion H; subst r.
  assert (Hreal : real fs tail) by exact (realpath_real fs _ _ _ _ (real_nil fs) E).
  assert (Hclean : clean tail) by exact (realpath_clean fs _ _ _ _ clean_nil E).
  intros q Hq. apply inits1_prefix in Hq as (Hne & b & Hb).
  assert (Hq : real fs q) by (rewrite Hb in Hreal; exact (real_prefix _ _ _ Hreal)).
  assert (Hd : dotfree q). { apply clean_dotfree. intros c Hc. apply Hclean. rewrite Hb. apply in_or_app. left. exact Hc. }
  pose proof (kwalk_real fs false k_budget q [] Hq Hd Hne) as K. cbn [app] in K.
  unfold p_is_symlink, p_lstat_link, klstat.
  destruct (kwalk k_budget fs false [] q) as [p n| | | |]; try reflexivity.
  destruct n; try reflexivity. destruct K.
Qed.
