(* C19 -- a small file-system model: a tree of directories, regular files and symbolic links
   (dangling links and link cycles are ordinary values), absolute paths as lists of segments,
   and the kernel's path walk (stat / lstat) with the Linux limit of 40 followed links. *)
From OV Require Import Base.Strs.
Open Scope N_scope.

Definition seg := str.
Definition path := list seg.

Inductive node : Type :=
| NFile (bytes : str)
| NDir (es : list (seg * node))
| NLink (target : str).

Definition s_dot : seg := [c_dot].
Definition s_dotdot : seg := [c_dot; c_dot].

Fixpoint assoc {A : Type} (k : seg) (l : list (seg * A)) : option A :=
  match l with
  | [] => None
  | (k', v) :: l' => if str_eqb k k' then Some v else assoc k l'
  end.

(* lookup WITHOUT following links: the node stored at a path of the tree *)
Fixpoint raw (n : node) (p : path) : option node :=
  match p with
  | [] => Some n
  | c :: p' =>
      match n with
      | NDir es => match assoc c es with Some m => raw m p' | None => None end
      | _ => None
      end
  end.

Definition is_link_o (o : option node) : bool :=
  match o with Some (NLink _) => true | _ => false end.

(* ---- building trees from flat entry lists (used by the driver and by witnesses) ---- *)
Fixpoint upd {A : Type} (k : seg) (v : A) (l : list (seg * A)) : list (seg * A) :=
  match l with
  | [] => [(k, v)]
  | (k', v') :: l' => if str_eqb k k' then (k, v) :: l' else (k', v') :: upd k v l'
  end.

Fixpoint insert (p : path) (e : node) (n : node) : node :=
  match p with
  | [] => e
  | c :: p' =>
      match n with
      | NDir es =>
          let sub := match assoc c es with Some m => m | None => NDir [] end in
          NDir (upd c (insert p' e sub) es)
      | _ => n
      end
  end.

Definition mk_fs (entries : list (path * node)) : node :=
  fold_left (fun t pe => insert (fst pe) (snd pe) t) entries (NDir []).

(* ---- link targets (and any slash-separated text) ---- *)
Definition is_abs_str (s : str) : bool :=
  match s with c :: _ => N.eqb c c_slash | [] => false end.
Definition is_nil {A : Type} (l : list A) : bool := match l with [] => true | _ => false end.
(* components of a slash-separated text, empty components dropped; "." and ".." are kept *)
Definition comps (s : str) : path := filter (fun c => negb (is_nil c)) (split_on c_slash s).

(* ---- the kernel walk ---------------------------------------------------------------- *)
Inductive kres : Type :=
| KFound (p : path) (n : node)   (* real location and node *)
| KNoEnt | KNotDir | KLoop | KTooLong.

Definition name_max : N := 255.
Definition seg_too_long (c : seg) : bool := name_max <? N.of_nat (length c).

Section KStep.
  Variable fs : node.
  Variable follow : bool.                      (* follow a link in the LAST component (stat) or not (lstat) *)
  Variable k : path -> path -> kres.           (* continuation after following one link (one unit less budget) *)
  Fixpoint kw_go (cur rest : path) {struct rest} : kres :=
    match rest with
    | [] => match raw fs cur with Some n => KFound cur n | None => KNoEnt end
    | c :: rest' =>
        match raw fs cur with
        | Some (NDir _) =>
            if str_eqb c s_dot then kw_go cur rest'
            else if str_eqb c s_dotdot then kw_go (removelast cur) rest'
            else if seg_too_long c then KTooLong
            else match raw fs (cur ++ [c]) with
                 | None => KNoEnt
                 | Some (NLink t) =>
                     if is_nil rest' && negb follow then KFound (cur ++ [c]) (NLink t)
                     else if is_nil t then KNoEnt
                     else k (if is_abs_str t then [] else cur) (comps t ++ rest')
                 | Some _ => kw_go (cur ++ [c]) rest'
                 end
        | Some _ => KNotDir
        | None => KNoEnt
        end
    end.
End KStep.

Fixpoint kwalk (budget : nat) (fs : node) (follow : bool) : path -> path -> kres :=
  match budget with
  | O => fun _ _ => KLoop
  | S b => kw_go fs follow (kwalk b fs follow)
  end.

(* Linux: at most 40 links are followed in one lookup; the 41st gives ELOOP *)
Definition k_budget : nat := 41.
Definition kstat (fs : node) (p : path) : kres := kwalk k_budget fs true [] p.
Definition klstat (fs : node) (p : path) : kres := kwalk k_budget fs false [] p.

(* pathlib.Path.exists(): ENOENT/ENOTDIR/ELOOP are swallowed, ENAMETOOLONG propagates *)
Inductive ex3 : Type := ExTrue | ExFalse | ExRaise.
Definition p_exists (fs : node) (p : path) : ex3 :=
  match kstat fs p with
  | KFound _ _ => ExTrue
  | KTooLong => ExRaise
  | _ => ExFalse
  end.
(* pathlib.Path.is_symlink(): S_ISLNK(lstat) -- the LAST component is not followed, so a dangling link, a link
   below which stat gives ENOTDIR and the first link of a chain of more than 40 are all links; a missing
   path is not (ENOENT/ENOTDIR/ELOOP of lstat are swallowed -> False, ENAMETOOLONG propagates) *)
Definition p_lstat_link (fs : node) (p : path) : ex3 :=
  match klstat fs p with
  | KFound _ (NLink _) => ExTrue
  | KTooLong => ExRaise
  | _ => ExFalse
  end.
Definition p_is_symlink (fs : node) (p : path) : bool :=
  match p_lstat_link fs p with ExTrue => true | _ => false end.
Definition p_is_dir (fs : node) (p : path) : bool :=
  match kstat fs p with KFound _ (NDir _) => true | _ => false end.
(* bytes read through open(p) (links followed) *)
Definition p_read (fs : node) (p : path) : option str :=
  match kstat fs p with KFound _ (NFile b) => Some b | _ => None end.

(* ---- prefixes ------------------------------------------------------------------------ *)
Fixpoint inits_from (pre p : path) : list path :=
  match p with
  | [] => []
  | c :: p' => (pre ++ [c]) :: inits_from (pre ++ [c]) p'
  end.
(* the non-empty prefixes of p, shortest first: /a, /a/b, /a/b/c *)
Definition inits1 (p : path) : list path := inits_from [] p.

Lemma inits_from_prefix pre p q : In q (inits_from pre p) -> exists a b, b = b /\ q = pre ++ a /\ a <> [] /\ p = a ++ b.
Proof.
  revert pre; induction p as [|c p IH]; intros pre H; [destruct H|].
  cbn in H. destruct H as [H|H].
  - exists [c], p. subst q. repeat split. discriminate.
  - apply IH in H as (a & b & _ & Hq & Ha & Hp). exists (c :: a), b. subst q p.
    rewrite <- app_assoc. cbn. repeat split. discriminate.
Qed.

Lemma inits1_prefix p q : In q (inits1 p) -> q <> [] /\ exists b, p = q ++ b.
Proof.
  intro H. apply inits_from_prefix in H as (a & b & _ & Hq & Ha & Hp). cbn in Hq. subst q. split; [exact Ha|]. exists b; exact Hp.
Qed.

Lemma inits_from_complete pre a b : a <> [] -> In (pre ++ a) (inits_from pre (a ++ b)).
Proof.
  revert pre; induction a as [|c a IH]; intros pre Ha; [congruence|].
  cbn. destruct a as [|c2 a].
  - left. reflexivity.
  - right. specialize (IH (pre ++ [c])). rewrite <- app_assoc in IH. cbn in IH. apply IH. discriminate.
Qed.

Lemma inits1_complete a b : a <> [] -> In a (inits1 (a ++ b)).
Proof. intro H. exact (inits_from_complete [] a b H). Qed.

(* ---- "real" paths: no non-empty prefix is a link in the tree ------------------------ *)
Definition real (fs : node) (p : path) : Prop :=
  forall q r, p = q ++ r -> q <> [] -> is_link_o (raw fs q) = false.

Lemma real_nil fs : real fs [].
Proof. intros q r H Hq. destruct q; [congruence|discriminate]. Qed.

Lemma real_prefix fs a b : real fs (a ++ b) -> real fs a.
Proof. intros H q r E Hq. apply (H q (r ++ b)); [subst a; rewrite app_assoc; reflexivity|exact Hq]. Qed.

Lemma real_removelast fs p : real fs p -> real fs (removelast p).
Proof.
  intro H. destruct p as [|c p]; [exact H|].
  assert (E : c :: p = removelast (c :: p) ++ [last (c :: p) []]) by (apply app_removelast_last; discriminate).
  rewrite E in H. exact (real_prefix _ _ _ H).
Qed.

Lemma snoc_case {A : Type} (l : list A) : l = [] \/ exists l' x, l = l' ++ [x].
Proof. induction l as [|x l _] using rev_ind; [left; reflexivity|right; exists l, x; reflexivity]. Qed.

Lemma app_snoc_split {A : Type} (a q r : list A) (c : A) :
  a ++ [c] = q ++ r -> (r = [] /\ q = a ++ [c]) \/ exists r', r = r' ++ [c] /\ a = q ++ r'.
Proof.
  intro H. destruct (snoc_case r) as [Hr|(r' & x & Hr)].
  - left. subst r. rewrite app_nil_r in H. split; [reflexivity|symmetry; exact H].
  - right. subst r. rewrite app_assoc in H. apply app_inj_tail in H as [H1 H2]. subst x. exists r'. split; [reflexivity|exact H1].
Qed.

Lemma real_snoc fs p c : real fs p -> is_link_o (raw fs (p ++ [c])) = false -> real fs (p ++ [c]).
Proof.
  intros H Hc q r E Hq. apply app_snoc_split in E as [[_ E]|(r' & _ & E)].
  - subst q. exact Hc.
  - exact (H q r' E Hq).
Qed.

(* the kernel never reports a link on a prefix of a real, dot-free path *)
Definition dotfree (p : path) : Prop := forall c, In c p -> str_eqb c s_dot = false /\ str_eqb c s_dotdot = false.

Lemma kw_go_real fs follow k : forall rest cur,
  real fs (cur ++ rest) -> dotfree rest -> cur ++ rest <> [] ->
  match kw_go fs follow k cur rest with KFound _ (NLink _) => False | _ => True end.
Proof.
  induction rest as [|c rest IH]; intros cur Hr Hd Hne; cbn [kw_go].
  - rewrite app_nil_r in Hr, Hne. destruct (raw fs cur) as [n|] eqn:E; [|exact I].
    destruct n; try exact I. specialize (Hr cur [] (eq_sym (app_nil_r _)) Hne). rewrite E in Hr. discriminate.
  - destruct (raw fs cur) as [[b|es|t]|]; try exact I.
    destruct (Hd c (or_introl eq_refl)) as [H1 H2]. rewrite H1, H2.
    destruct (seg_too_long c); [exact I|].
    assert (Hc : is_link_o (raw fs (cur ++ [c])) = false).
    { apply (Hr (cur ++ [c]) rest); [rewrite <- app_assoc; reflexivity|]. destruct cur; discriminate. }
    destruct (raw fs (cur ++ [c])) as [[b|es2|t]|] eqn:E; try exact I; try discriminate.
    + apply IH; [rewrite <- app_assoc; exact Hr|intros x Hx; apply Hd; right; exact Hx|destruct cur; discriminate].
    + apply IH; [rewrite <- app_assoc; exact Hr|intros x Hx; apply Hd; right; exact Hx|destruct cur; discriminate].
Qed.
