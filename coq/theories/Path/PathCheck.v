(* C19 -- the path validators of write.py / validate.py / file_ops.py with their checks in SOURCE ORDER
   (order, tests, carve-out constants and ALLOWED_EXTENSIONS come from the translator: Gen/PathsGen.v),
   the late symlink re-check, the schema-name guard of load_schema_by_name, resolve_hermetic_standard
   and validate_source_uri; and the theorems of C19 about them, for ALL trees and ALL path strings. *)
From OV Require Import Base.Strs Path.FsTree Path.Realpath Path.PyRealpath Path.NoLinks Gen.PathsGen.
Open Scope N_scope.

Inductive reason : Type := RDotDot | RSymlink | RResolve | RExt.
Inductive verdict : Type := VOk | VRefuse (r : reason).

(* ---- configuration of one validator (all fields from the translator) ---- *)
(* v_req_exists: the link test of the walk is `current.exists() and current.is_symlink()` (true: the test of the
   source before repo fix 039cc0c, blind to links that cannot be stat'ed) or `current.is_symlink()` (false: lstat
   only).  The translator reads WHICH one the source uses; the model follows it; the theorems about symbolic
   links are for configurations with the lstat-only test (`cfg_wf`), proved of the three generated ones in
   Path/PathPins.v -- reverting the fix flips the generated booleans and breaks those proofs. *)
Record vcfg : Type := mkcfg { v_kinds : list N; v_allowed : list str; v_depth : N; v_prefix : str; v_req_exists : bool }.
Definition cfg_write := mkcfg (map fst paths_checks_write) paths_allowed_write paths_carve_depth_write paths_carve_prefix_write
                              paths_symlink_requires_exists_write.
Definition cfg_validate := mkcfg (map fst paths_checks_validate) paths_allowed_validate paths_carve_depth_validate paths_carve_prefix_validate
                                 paths_symlink_requires_exists_validate.
Definition cfg_fileops := mkcfg (map fst paths_checks_fileops) paths_allowed_fileops paths_carve_depth_fileops paths_carve_prefix_fileops
                                paths_symlink_requires_exists_fileops.

(* ---- check 1: any(part == ".." for part in path.parts) ---- *)
Definition check_dotdot (pp : ppath) : verdict :=
  if existsb (fun c => str_eqb c s_dotdot) (ptail pp) then VRefuse RDotDot else VOk.

(* ---- check 2: the symlink walk ---- *)
(* str(PosixPath) of an absolute, resolved path *)
Definition render_abs (r : path) : str := c_slash :: join [c_slash] r.
(* symlink_depth <= D and str(resolved_target).startswith(PREFIX); symlink_depth = len(parts) = 1 + len(tail) *)
Definition carve_ok (cfg : vcfg) (q r : path) : bool :=
  (N.of_nat (length q) + 1 <=? v_depth cfg) && prefixb (v_prefix cfg) (render_abs r).

(* the link test of the source: `p.is_symlink()` alone, or guarded by `p.exists() and ...` (short-circuit `and`) *)
Definition link_test (req_exists : bool) (fs : node) (q : path) : ex3 :=
  if req_exists then match p_exists fs q with ExTrue => p_lstat_link fs q | r => r end
  else p_lstat_link fs q.

Fixpoint walk (cfg : vcfg) (fs : node) (prefixes : list path) : verdict :=
  match prefixes with
  | [] => VOk
  | q :: qs =>
      match link_test (v_req_exists cfg) fs q with
      | ExRaise => VRefuse RResolve                 (* OSError other than ENOENT/ENOTDIR/ELOOP -> except Exception *)
      | ExFalse => walk cfg fs qs
      | ExTrue =>
          match resolve fs q with                   (* resolved_target = current.resolve() *)
          | ResErr => VRefuse RResolve
          | ResOk r => if carve_ok cfg q r then walk cfg fs qs else VRefuse RSymlink
          end
      end
  end.

Definition check_symlink (cfg : vcfg) (fs : node) (cwd : path) (pp : ppath) : verdict :=
  let a := pabsolute cwd pp in
  match resolve fs (ptail a) with
  | ResErr => VRefuse RResolve
  | ResOk r => if ppath_eqb a (mkpp 1 r) then VOk else walk cfg fs (inits1 (ptail a))
  end.

(* ---- check 3: extension ---- *)
Definition check_ext (cfg : vcfg) (pp : ppath) : verdict :=
  if ext_ok (v_allowed cfg) (pname pp) then VOk else VRefuse RExt.

Definition run_check (cfg : vcfg) (fs : node) (cwd : path) (pp : ppath) (kind : N) : verdict :=
  if N.eqb kind 1 then check_dotdot pp
  else if N.eqb kind 2 then check_symlink cfg fs cwd pp
  else if N.eqb kind 3 then check_ext cfg pp
  else VRefuse RResolve.

Fixpoint run_checks (cfg : vcfg) (fs : node) (cwd : path) (pp : ppath) (kinds : list N) : verdict :=
  match kinds with
  | [] => VOk
  | k :: ks => match run_check cfg fs cwd pp k with VOk => run_checks cfg fs cwd pp ks | r => r end
  end.

Definition validate_path (cfg : vcfg) (fs : node) (cwd : path) (s : str) : verdict :=
  run_checks cfg fs cwd (pparse s) (v_kinds cfg).

Definition validate_write := validate_path cfg_write.         (* WriteTool._validate_path *)
Definition validate_validate := validate_path cfg_validate.   (* ValidateTool._validate_path *)
Definition validate_fileops := validate_path cfg_fileops.     (* file_ops.validate_octave_path *)

Definition abs_tail (cwd : path) (s : str) : path := ptail (pabsolute cwd (pparse s)).

(* the late re-check before writing: `if <link test on path_obj>: return error`; an OSError of the test
   (ENAMETOOLONG) leaves through the enclosing handler, which is a refusal of the write as well *)
Definition late_recheck_gen (req_exists : bool) (fs : node) (cwd : path) (s : str) : ex3 :=
  link_test req_exists fs (abs_tail cwd s).
Definition late_recheck_write := late_recheck_gen paths_late_requires_exists_write.       (* write block of WriteTool.execute *)
Definition late_recheck_fileops := late_recheck_gen paths_late_requires_exists_fileops.   (* atomic_write_octave step 2 *)

(* a well-formed configuration: the three checks are all present, extensions are non-empty, and the link test
   of the walk is the lstat-based one *)
Definition cfg_wf (cfg : vcfg) : bool :=
  existsb (N.eqb 1) (v_kinds cfg) && existsb (N.eqb 2) (v_kinds cfg) && existsb (N.eqb 3) (v_kinds cfg)
  && forallb (fun e => negb (is_nil e)) (v_allowed cfg) && negb (v_req_exists cfg).

(* ---- generic facts ---- *)
Lemma existsb_eqb_In k l : existsb (N.eqb k) l = true -> In k l.
Proof. intro H. apply existsb_exists in H as (x & Hx & E). apply N.eqb_eq in E. subst x. exact Hx. Qed.

Lemma run_checks_all cfg fs cwd pp kinds k :
  run_checks cfg fs cwd pp kinds = VOk -> In k kinds -> run_check cfg fs cwd pp k = VOk.
Proof.
  induction kinds as [|x ks IH]; intros H Hin; [destruct Hin|]. cbn in H.
  destruct (run_check cfg fs cwd pp x) eqn:E; [|discriminate]. destruct Hin as [->|Hin]; [exact E|exact (IH H Hin)].
Qed.

Lemma cfg_wf_parts cfg : cfg_wf cfg = true ->
  In 1 (v_kinds cfg) /\ In 2 (v_kinds cfg) /\ In 3 (v_kinds cfg) /\ forallb (fun e => negb (is_nil e)) (v_allowed cfg) = true
  /\ v_req_exists cfg = false.
Proof.
  unfold cfg_wf. intro H. apply andb_true_iff in H as [H H5]. apply andb_true_iff in H as [H H4].
  apply andb_true_iff in H as [H H3]. apply andb_true_iff in H as [H1 H2]. apply negb_true_iff in H5.
  repeat split; try apply existsb_eqb_In; assumption.
Qed.

(* ---- T1: an accepted path has no ".." component ---- *)
Theorem accepted_no_dotdot cfg fs cwd s : cfg_wf cfg = true ->
  validate_path cfg fs cwd s = VOk -> forall c, In c (ptail (pparse s)) -> c <> s_dotdot.
Proof.
  intros W H c Hc E. apply cfg_wf_parts in W as (W1 & _).
  pose proof (run_checks_all _ _ _ _ _ 1 H W1) as K. unfold run_check in K. cbn in K. unfold check_dotdot in K.
  destruct (existsb (fun c0 => str_eqb c0 s_dotdot) (ptail (pparse s))) eqn:X; [discriminate|].
  assert (Y : existsb (fun c0 => str_eqb c0 s_dotdot) (ptail (pparse s)) = true).
  { apply existsb_exists. exists c. split; [exact Hc|]. subst c. reflexivity. }
  congruence.
Qed.

(* ---- T2: an accepted path's last component is <non-empty stem> ++ <allowed extension> ---- *)
Theorem accepted_ext cfg fs cwd s : cfg_wf cfg = true ->
  validate_path cfg fs cwd s = VOk ->
  exists stem e, stem <> [] /\ In e (v_allowed cfg) /\ pname (pparse s) = stem ++ e.
Proof.
  intros W H. apply cfg_wf_parts in W as (_ & _ & W3 & Wne & _).
  pose proof (run_checks_all _ _ _ _ _ 3 H W3) as K. unfold run_check in K. cbn in K. unfold check_ext in K.
  destruct (ext_ok (v_allowed cfg) (pname (pparse s))) eqn:X; [|discriminate].
  exact (ext_ok_sound _ _ Wne X).
Qed.

(* ---- T3: symlinks ---- *)
Lemma p_is_symlink_lstat fs q : p_is_symlink fs q = true -> p_lstat_link fs q = ExTrue.
Proof. unfold p_is_symlink. destruct (p_lstat_link fs q); [reflexivity|discriminate|discriminate]. Qed.

(* with the lstat-only test, a walk that accepts has passed every link -- dangling or not -- through the carve-out *)
Lemma walk_sound cfg fs : v_req_exists cfg = false -> forall prefixes, walk cfg fs prefixes = VOk ->
  forall q, In q prefixes -> p_is_symlink fs q = true ->
    exists r, resolve fs q = ResOk r /\ carve_ok cfg q r = true.
Proof.
  intro Hreq. induction prefixes as [|x xs IH]; intros H q Hq Hs; [destruct Hq|]. cbn [walk] in H.
  rewrite Hreq in H. cbn [link_test] in H.
  destruct Hq as [->|Hq].
  - rewrite (p_is_symlink_lstat _ _ Hs) in H.
    destruct (resolve fs q) as [r|]; [|discriminate]. destruct (carve_ok cfg q r) eqn:C; [|discriminate].
    exists r. split; reflexivity || exact C.
  - destruct (p_lstat_link fs x); [|exact (IH H q Hq Hs)|discriminate].
    destruct (resolve fs x) as [r|]; [|discriminate]. destruct (carve_ok cfg x r); [|discriminate]. exact (IH H q Hq Hs).
Qed.

(* Every component of an accepted path that is a symbolic link -- as lstat sees it: dangling links, links whose
   target cannot be stat'ed (ENOTDIR, more than 40 links) and links to existing files alike -- falls under the
   code's system-symlink carve-out (symlink_depth <= 2, i.e. the FIRST component, resolving below /private/). *)
Theorem accepted_no_symlink cfg fs cwd s : cfg_wf cfg = true ->
  validate_path cfg fs cwd s = VOk ->
  forall q, In q (inits1 (abs_tail cwd s)) -> p_is_symlink fs q = true ->
    exists r, resolve fs q = ResOk r /\ carve_ok cfg q r = true.
Proof.
  intros W H q Hq Hs. apply cfg_wf_parts in W as (_ & W2 & _ & _ & Wreq).
  pose proof (run_checks_all _ _ _ _ _ 2 H W2) as K. unfold run_check in K. cbn in K. unfold check_symlink in K.
  fold (abs_tail cwd s) in K.
  destruct (resolve fs (abs_tail cwd s)) as [r|] eqn:R; [|discriminate].
  destruct (ppath_eqb (pabsolute cwd (pparse s)) (mkpp 1 r)) eqn:E.
  - unfold ppath_eqb in E. apply andb_true_iff in E as [_ E]. apply path_eqb_eq in E. cbn in E.
    fold (abs_tail cwd s) in E. subst r.
    rewrite (resolve_fixed_no_symlink fs _ R q Hq) in Hs. discriminate.
  - exact (walk_sound cfg fs Wreq _ K q Hq Hs).
Qed.

(* unconditional consequence: beyond the carve-out depth no component of an accepted path is a link at all *)
Theorem accepted_no_symlink_beyond_depth cfg fs cwd s : cfg_wf cfg = true ->
  validate_path cfg fs cwd s = VOk ->
  forall q, In q (inits1 (abs_tail cwd s)) -> v_depth cfg < N.of_nat (length q) + 1 -> p_is_symlink fs q = false.
Proof.
  intros W H q Hq Hd. destruct (p_is_symlink fs q) eqn:Hs; [|reflexivity].
  destruct (accepted_no_symlink cfg fs cwd s W H q Hq Hs) as (r & _ & C).
  unfold carve_ok in C. apply andb_true_iff in C as [C _]. apply N.leb_le in C. lia.
Qed.

(* the full statement of the property text (no carve-out) -- FALSE of the faithful model *)
Definition no_symlink_full (cfg : vcfg) : Prop :=
  forall fs cwd s, validate_path cfg fs cwd s = VOk ->
    forall q, In q (inits1 (abs_tail cwd s)) -> p_is_symlink fs q = false.

(* restriction under the one remaining hypothesis: no component falls under the /private/ carve-out *)
Definition no_carveout (cfg : vcfg) (fs : node) (p : path) : Prop :=
  forall q r, In q (inits1 p) -> resolve fs q = ResOk r -> carve_ok cfg q r = false.

Theorem accepted_no_symlink_wf cfg fs cwd s : cfg_wf cfg = true ->
  no_carveout cfg fs (abs_tail cwd s) ->
  validate_path cfg fs cwd s = VOk ->
  forall q, In q (inits1 (abs_tail cwd s)) -> p_is_symlink fs q = false.
Proof.
  intros W Hnc H q Hq. destruct (p_is_symlink fs q) eqn:Hs; [|reflexivity].
  destruct (accepted_no_symlink cfg fs cwd s W H q Hq Hs) as (r & R & C).
  rewrite (Hnc q r Hq R) in C. discriminate.
Qed.

(* ---- witnesses (closed terms; the ones that depend on the generated link test being lstat-only are in
        Path/PathPins.v) ---- *)
Definition S (l : list N) : str := l.
Definition w_sb : seg := [115;98].                              (* sb *)
Definition w_out : seg := [111;117;116].                        (* out *)
Definition w_dang : seg := [100;97;110;103;46;109;100].         (* dang.md *)
Definition w_dangd : seg := [100;97;110;103;100].               (* dangd *)
(* /sb/dang.md -> /out/new.md (absent), /sb/dangd -> /out/nodir (absent): dangling links as last component and as
   directory component; /sb/nd.md -> f.md/x (stat: ENOTDIR) *)
Definition w_fs_dangling : node :=
  mk_fs [([w_sb], NDir []); ([w_out], NDir []); ([w_sb; [102;46;109;100]], NFile [120]);
         ([w_sb; w_dang], NLink [47;111;117;116;47;110;101;119;46;109;100]);
         ([w_sb; w_dangd], NLink [47;111;117;116;47;110;111;100;105;114]);
         ([w_sb; [110;100;46;109;100]], NLink [102;46;109;100;47;120])].
Definition w_path_dangling : str := [47;115;98;47;100;97;110;103;46;109;100].                   (* /sb/dang.md *)
Definition w_path_dangling_dir : str := [47;115;98;47;100;97;110;103;100;47;120;46;109;100].    (* /sb/dangd/x.md *)
Definition w_path_enotdir : str := [47;115;98;47;110;100;46;109;100].                           (* /sb/nd.md *)

(* the model keeps the pre-fix behaviour for a configuration whose link test requires exists(): this is the
   defect that repo fix 039cc0c removed (kept as a statement about the OLD test, not about the source) *)
Definition cfg_old_test (cfg : vcfg) : vcfg := mkcfg (v_kinds cfg) (v_allowed cfg) (v_depth cfg) (v_prefix cfg) true.
Lemma old_test_accepts_dangling :
  validate_path (cfg_old_test cfg_write) w_fs_dangling [] w_path_dangling = VOk /\
  validate_path (cfg_old_test cfg_write) w_fs_dangling [] w_path_dangling_dir = VOk /\
  p_is_symlink w_fs_dangling [w_sb; w_dang] = true /\ p_exists w_fs_dangling [w_sb; w_dang] = ExFalse /\
  late_recheck_gen true w_fs_dangling [] w_path_dangling = ExFalse.
Proof. vm_compute. repeat split; reflexivity. Qed.

Definition w_private : seg := [112;114;105;118;97;116;101].     (* private *)
Definition w_tmp : seg := [116;109;112].
Definition w_fs_private : node :=
  mk_fs [([w_private], NDir []); ([w_private; w_tmp], NDir []); ([w_tmp], NLink [47;112;114;105;118;97;116;101;47;116;109;112])].
Definition w_path_private : str := [47;116;109;112;47;120;46;109;100].          (* /tmp/x.md *)

Lemma carveout_accepted :
  validate_write w_fs_private [] w_path_private = VOk /\ p_is_symlink w_fs_private [w_tmp] = true /\
  p_exists w_fs_private [w_tmp] = ExTrue.
Proof. vm_compute. repeat split; reflexivity. Qed.

Theorem no_symlink_full_refuted_carveout : ~ no_symlink_full cfg_write.
Proof.
  intro F. pose proof (F w_fs_private [] w_path_private (proj1 carveout_accepted) [w_tmp]) as X.
  assert (I1 : In [w_tmp] (inits1 (abs_tail [] w_path_private))) by (vm_compute; left; reflexivity).
  specialize (X I1). vm_compute in X. discriminate.
Qed.

(* the hypothesis of accepted_no_symlink_wf is satisfiable on a non-trivial value:
   /sb/lnkd -> /out is a live link; the path /sb/d/x.oct.md next to it is accepted *)
Definition w_fs_live : node :=
  mk_fs [([w_sb], NDir []); ([w_out], NDir []); ([w_sb; [100]], NDir []);
         ([w_sb; [108;110;107;100]], NLink [47;111;117;116])].
Definition w_path_live : str := [47;115;98;47;100;47;120;46;111;99;116;46;109;100].   (* /sb/d/x.oct.md *)
Example wf_hypotheses_satisfiable :
  validate_write w_fs_live [] w_path_live = VOk /\
  forallb (fun q => negb (p_is_symlink w_fs_live q)) (inits1 (abs_tail [] w_path_live)) = true /\
  validate_write w_fs_live [] [47;115;98;47;108;110;107;100;47;120;46;109;100] = VRefuse RSymlink.
Proof. vm_compute. repeat split; reflexivity. Qed.

(* once validation accepted, the late re-check -- whichever of the two link tests it uses -- can only fire on a
   carve-out link *)
Theorem late_recheck_only_carveout cfg b fs cwd s : cfg_wf cfg = true ->
  validate_path cfg fs cwd s = VOk -> late_recheck_gen b fs cwd s = ExTrue -> abs_tail cwd s <> [] ->
  exists r, resolve fs (abs_tail cwd s) = ResOk r /\ carve_ok cfg (abs_tail cwd s) r = true.
Proof.
  intros W H L Hne. unfold late_recheck_gen, link_test in L.
  assert (Hs : p_is_symlink fs (abs_tail cwd s) = true).
  { unfold p_is_symlink. destruct b; [destruct (p_exists fs (abs_tail cwd s)); try discriminate|]; rewrite L; reflexivity. }
  assert (Hin : In (abs_tail cwd s) (inits1 (abs_tail cwd s))).
  { pose proof (inits1_complete (abs_tail cwd s) [] Hne) as X. rewrite app_nil_r in X. exact X. }
  exact (accepted_no_symlink cfg fs cwd s W H _ Hin Hs).
Qed.

(* ---- T4: refusal happens before any file-system operation of the entry point ---- *)
(* protocol = call sites in source order (class 0 = the validator call, which is directly followed by
   `if not ok: return`; 1 metadata; 2 read; 3 mutate).  Over-approximation of a run: every site after an accepting
   validator may execute; after a refusing validator none does. *)
Fixpoint run_proto (ok : bool) (p : list (N * str)) : list (N * str) :=
  match p with
  | [] => []
  | (cls, nm) :: p' =>
      if N.eqb cls 0 then (if ok then run_proto ok p' else [])
      else (cls, nm) :: run_proto ok p'
  end.
Definition validate_first (p : list (N * str)) : bool :=
  match p with (cls, _) :: _ => N.eqb cls 0 | [] => false end.

Lemma run_proto_refused p : validate_first p = true -> run_proto false p = [].
Proof. destruct p as [|[cls nm] p]; cbn; [discriminate|]. intro H. rewrite H. reflexivity. Qed.

Definition is_ok (v : verdict) : bool := match v with VOk => true | _ => false end.
Definition trace_write fs cwd s := run_proto (is_ok (validate_write fs cwd s)) paths_protocol_write.
Definition trace_validate fs cwd s := run_proto (is_ok (validate_validate fs cwd s)) paths_protocol_validate.
Definition trace_fileops fs cwd s := run_proto (is_ok (validate_fileops fs cwd s)) paths_protocol_fileops.
Definition trace_cli fs cwd s := run_proto (is_ok (validate_fileops fs cwd s)) paths_protocol_cli.

Theorem refused_before_io fs cwd s :
  (validate_write fs cwd s <> VOk -> trace_write fs cwd s = []) /\
  (validate_validate fs cwd s <> VOk -> trace_validate fs cwd s = []) /\
  (validate_fileops fs cwd s <> VOk -> trace_fileops fs cwd s = [] /\ trace_cli fs cwd s = []).
Proof.
  unfold trace_write, trace_validate, trace_fileops, trace_cli. split; [|split].
  - intro H. destruct (validate_write fs cwd s); [congruence|]. apply run_proto_refused. vm_compute. reflexivity.
  - intro H. destruct (validate_validate fs cwd s); [congruence|]. apply run_proto_refused. vm_compute. reflexivity.
  - intro H. destruct (validate_fileops fs cwd s); [congruence|]. split; apply run_proto_refused; vm_compute; reflexivity.
Qed.

(* ---- schema names ------------------------------------------------------------------------------ *)
Definition is_name_char (c : N) : bool := is_upper c || is_digit c || N.eqb c c_us.
(* tail of re.match(r"^[A-Z][A-Z0-9_]*$"): `$` matches at the end and before a FINAL newline *)
Fixpoint name_rest (s : str) : bool :=
  match s with
  | [] => true
  | c :: s' => match s' with
               | [] => is_name_char c || N.eqb c c_nl
               | _ => is_name_char c && name_rest s'
               end
  end.
Definition name_ok (s : str) : bool := match s with c :: s' => is_upper c && name_rest s' | [] => false end.

Definition t_schema_pattern : str := [94;91;65;45;90;93;91;65;45;90;48;45;57;95;93;42;36].   (* ^[A-Z][A-Z0-9_]*$ *)
Lemma pin_schema_pattern : paths_schema_name_pattern = t_schema_pattern. Proof. reflexivity. Qed.
Lemma pin_schema_join : paths_schema_join = [115;101;97;114;99;104;95;112;97;116;104;32;47;32;112;97;116;116;101;114;110].
Proof. reflexivity. Qed.
Lemma pin_search_paths : length paths_schema_search_paths = 4%nat. Proof. reflexivity. Qed.

Definition to_lower (c : N) : N := if is_upper c then c + 32 else c.
Definition schema_files (name : str) : list str :=
  map (fun t : bool * str => (if fst t then map to_lower name else name) ++ snd t) paths_schema_templates.
(* schema_file = search_path / pattern *)
Definition schema_candidate (dir : path) (file : str) : ppath := pjoin (mkpp 1 dir) (pparse file).

(* a text without "/" of length >= 3 parses to exactly one relative component equal to itself *)
Lemma pparse_single f : memb c_slash f = false -> (3 <= length f)%nat -> pparse f = mkpp 0 [f].
Proof.
  intros Hs Hl. unfold pparse. rewrite (split_on_no_sep _ _ Hs). cbn [filter].
  assert (K : keep_seg f = true).
  { destruct f as [|a [|b [|c f]]]; cbn in Hl; try lia. unfold keep_seg. cbn. rewrite andb_false_r. reflexivity. }
  rewrite K. f_equal. destruct f as [|a f]; [reflexivity|]. unfold memb in Hs. cbn [existsb] in Hs. apply orb_false_iff in Hs as [Hs _].
  unfold root_kind. rewrite N.eqb_sym, Hs. reflexivity.
Qed.

Lemma memb_cons c x s : memb c (x :: s) = N.eqb c x || memb c s.
Proof. reflexivity. Qed.

Lemma name_rest_noslash s : name_rest s = true -> memb c_slash s = false.
Proof.
  induction s as [|c s IH]; [reflexivity|]. cbn [name_rest]. intro H. rewrite memb_cons.
  assert (X : is_name_char c || N.eqb c c_nl = true -> N.eqb c_slash c = false).
  { intro Y. destruct (N.eqb_spec c_slash c) as [<-|]; [vm_compute in Y; discriminate|reflexivity]. }
  destruct s as [|c2 s].
  - rewrite (X H). reflexivity.
  - apply andb_true_iff in H as [H1 H2]. rewrite (X ltac:(rewrite H1; reflexivity)). exact (IH H2).
Qed.

Lemma memb_map_lower s : memb c_slash s = false -> memb c_slash (map to_lower s) = false.
Proof.
  induction s as [|c s IH]; [reflexivity|]. cbn [map]. rewrite !memb_cons. intro H. apply orb_false_iff in H as [H1 H2].
  rewrite (IH H2), orb_false_r.
  unfold to_lower. destruct (is_upper c) eqn:U; [|exact H1].
  unfold is_upper in U. apply andb_true_iff in U as [U1 U2]. apply N.leb_le in U1. apply N.eqb_neq. unfold c_slash. lia.
Qed.

Lemma memb_app c a b : memb c (a ++ b) = memb c a || memb c b.
Proof. unfold memb. apply existsb_app. Qed.

Definition templates_ok : bool :=
  forallb (fun t : bool * str => negb (memb c_slash (snd t)) && (3 <=? length (snd t))%nat) paths_schema_templates.
Lemma templates_ok_true : templates_ok = true. Proof. vm_compute. reflexivity. Qed.

(* A name accepted by SCHEMA_NAME_PATTERN.match -- INCLUDING the form NAME"\n" that `$` lets through --
   selects, in every search directory, a file that is a direct child of that directory. *)
Theorem schema_name_confined name dir f : name_ok name = true -> In f (schema_files name) ->
  schema_candidate dir f = mkpp 1 (dir ++ [f]) /\ memb c_slash f = false /\ f <> s_dotdot /\ f <> s_dot.
Proof.
  intros Hn Hf. unfold schema_files in Hf. apply in_map_iff in Hf as ([low suf] & <- & Ht).
  pose proof templates_ok_true as T. unfold templates_ok in T. rewrite forallb_forall in T. specialize (T _ Ht).
  cbn [fst snd] in *. apply andb_true_iff in T as [T1 T2]. apply negb_true_iff in T1. apply Nat.leb_le in T2.
  destruct name as [|c0 rest]; [discriminate|]. cbn [name_ok] in Hn. apply andb_true_iff in Hn as [Hu Hr].
  assert (Hs : memb c_slash (c0 :: rest) = false).
  { rewrite memb_cons, (name_rest_noslash _ Hr), orb_false_r. unfold is_upper in Hu. apply andb_true_iff in Hu as [U1 _].
    apply N.leb_le in U1. apply N.eqb_neq. unfold c_slash. lia. }
  set (stem := if low then map to_lower (c0 :: rest) else c0 :: rest).
  assert (Hstem : memb c_slash stem = false) by (unfold stem; destruct low; [apply memb_map_lower|]; exact Hs).
  assert (Hno : memb c_slash (stem ++ suf) = false) by (rewrite memb_app, Hstem, T1; reflexivity).
  assert (Hlen : (3 <= length (stem ++ suf))%nat) by (rewrite app_length; lia).
  split; [|split; [exact Hno|split]].
  - unfold schema_candidate. rewrite (pparse_single _ Hno Hlen). reflexivity.
  - intro E. rewrite E in Hlen. cbn in Hlen. lia.
  - intro E. rewrite E in Hlen. cbn in Hlen. lia.
Qed.

(* the trailing-newline case is real: the guard accepts a name that is not [A-Z][A-Z0-9_]* *)
Lemma name_ok_trailing_newline : name_ok [77;69;84;65;10] = true /\ forallb is_name_char [77;69;84;65;10] = false.
Proof. vm_compute. split; reflexivity. Qed.

(* ---- frozen@sha256 references ------------------------------------------------------------------ *)
Definition is_hex (c : N) : bool := is_digit c || ((65 <=? c) && (c <=? 70)) || ((97 <=? c) && (c <=? 102)).
Definition t_frozen_regex : str :=
  [102;114;111;122;101;110;64;115;104;97;50;53;54;58;40;91;48;45;57;97;45;102;65;45;70;93;123;54;52;125;41].
Lemma pin_frozen : paths_frozen_regex = t_frozen_regex /\ paths_frozen_prefix = firstn 14 t_frozen_regex /\ paths_frozen_len = 16.
Proof. repeat split; reflexivity. Qed.

(* re.fullmatch(r"frozen@sha256:([0-9a-fA-F]{64})", ref) -> group 1 *)
Definition parse_frozen (ref : str) : option str :=
  if prefixb paths_frozen_prefix ref then
    let d := skipn (length paths_frozen_prefix) ref in
    if Nat.eqb (length d) 64 && forallb is_hex d then Some d else None
  else None.

Definition sha_tag : str := [115;104;97;50;53;54;58].    (* "sha256:" *)

Section Frozen.
  Variable H : str -> str.      (* oracle: hex SHA-256 of a byte string (hashlib), supplied by the harness *)
  Definition frozen_file (d : str) : str := firstn (N.to_nat paths_frozen_len) (map to_lower d) ++ paths_frozen_suffix.
  Definition resolve_frozen (fs : node) (cache : path) (ref : str) : option path :=
    match parse_frozen ref with
    | None => None
    | Some d =>
        let p := ptail (pjoin (mkpp 1 cache) (pparse (frozen_file d))) in
        match p_exists fs p with
        | ExTrue =>
            match p_read fs p with
            | Some b => if str_eqb (sha_tag ++ H b) (sha_tag ++ map to_lower d) then Some p else None
            | None => None
            end
        | _ => None
        end
    end.

  Lemma hex_lower_noslash d : forallb is_hex d = true -> memb c_slash (map to_lower d) = false.
  Proof.
    intro Hd. apply memb_map_lower. induction d as [|c d IH]; [reflexivity|]. cbn [forallb] in Hd. apply andb_true_iff in Hd as [H1 H2].
    rewrite memb_cons, (IH H2), orb_false_r.
    destruct (N.eqb_spec c_slash c) as [<-|]; [vm_compute in H1; discriminate|reflexivity].
  Qed.

  Lemma memb_firstn c n s : memb c s = false -> memb c (firstn n s) = false.
  Proof.
    revert n; induction s as [|x s IH]; intros [|n] Hs; try reflexivity. cbn [firstn]. rewrite memb_cons in *.
    apply orb_false_iff in Hs as [H1 H2]. rewrite H1, (IH n H2). reflexivity.
  Qed.

  Definition frozen_suffix_ok : bool := negb (memb c_slash paths_frozen_suffix) && (3 <=? length paths_frozen_suffix)%nat.
  Lemma frozen_suffix_ok_true : frozen_suffix_ok = true. Proof. vm_compute. reflexivity. Qed.

  (* a frozen reference resolves only to a direct child of the cache directory whose bytes hash to the digest *)
  Theorem frozen_confined fs cache ref p : resolve_frozen fs cache ref = Some p ->
    exists d f b, parse_frozen ref = Some d /\ p = cache ++ [f] /\ memb c_slash f = false /\ f <> s_dotdot /\
                  p_read fs p = Some b /\ H b = map to_lower d.
  Proof.
    unfold resolve_frozen. destruct (parse_frozen ref) as [d|] eqn:P; [|discriminate].
    assert (Hd : forallb is_hex d = true).
    { unfold parse_frozen in P. destruct (prefixb paths_frozen_prefix ref); [|discriminate].
      destruct (Nat.eqb (length (skipn (length paths_frozen_prefix) ref)) 64 && forallb is_hex (skipn (length paths_frozen_prefix) ref)) eqn:E; [|discriminate].
      inversion P; subst d. apply andb_true_iff in E as [_ E]. exact E. }
    pose proof frozen_suffix_ok_true as T. unfold frozen_suffix_ok in T. apply andb_true_iff in T as [T1 T2].
    apply negb_true_iff in T1. apply Nat.leb_le in T2.
    assert (Hno : memb c_slash (frozen_file d) = false).
    { unfold frozen_file. rewrite memb_app, T1, (memb_firstn _ _ _ (hex_lower_noslash d Hd)). reflexivity. }
    assert (Hlen : (3 <= length (frozen_file d))%nat) by (unfold frozen_file; rewrite app_length; lia).
    rewrite (pparse_single _ Hno Hlen). change (ptail (pjoin (mkpp 1 cache) (mkpp 0 [frozen_file d]))) with (cache ++ [frozen_file d]).
    destruct (p_exists fs (cache ++ [frozen_file d])); try discriminate.
    destruct (p_read fs (cache ++ [frozen_file d])) as [b|] eqn:Rd; [|discriminate].
    destruct (str_eqb (sha_tag ++ H b) (sha_tag ++ map to_lower d)) eqn:E; [|discriminate].
    intro X. inversion X; subst p. exists d, (frozen_file d), b. repeat split; try assumption.
    - intro E2. rewrite E2 in Hlen. cbn in Hlen. lia.
    - apply str_eqb_eq in E. exact (app_inv_head _ _ _ E).
  Qed.
End Frozen.

(* ---- validate_source_uri ------------------------------------------------------------------------ *)
Fixpoint path_prefixb (a b : path) : bool :=
  match a, b with
  | [], _ => true
  | x :: a', y :: b' => str_eqb x y && path_prefixb a' b'
  | _ :: _, [] => false
  end.
Lemma path_prefixb_spec a b : path_prefixb a b = true -> exists r, b = a ++ r.
Proof.
  revert b; induction a as [|x a IH]; intros b Hb; [exists b; reflexivity|]. destruct b as [|y b]; [discriminate|].
  cbn in Hb. apply andb_true_iff in Hb as [H1 H2]. apply str_eqb_eq in H1. subst y. destruct (IH _ H2) as (r & ->).
  exists r. reflexivity.
Qed.

Definition second_is_colon (s : str) : bool := match s with _ :: c :: _ => N.eqb c c_colon | _ => false end.

Inductive uri_res : Type := UOk (p : path) | URefused | URaise.

(* the resolution step shared by validate_source_uri and _check_single_snapshot, as the translator reads it:
     mode 0   try: resolved = candidate.resolve()
     mode 1   try: resolved = candidate.resolve(); resolved = Path(os.path.realpath(resolved))          (repo fix ea316ac)
     mode 2   try: resolved = _resolve_without_links(candidate)                                        (repo fix 3bf4eb7)
                   = Path(os.path.realpath(candidate.resolve())), then every prefix of it must pass `not is_symlink()`
     except (OSError, ValueError [, RuntimeError]): refuse          catches = RuntimeError is in the tuple
   The resolution functions are CPython's real algorithm (PyRealpath.v): each may stop at a symlink loop and return the
   remaining components UNRESOLVED; `complete` says whether the LAST realpath resolved everything. *)
Inductive step_res : Type := StOk (r : path) (complete : bool) | StRefuse | StRaise.
Definition resolve_steps (mode : N) (catches : bool) (fs : node) (cand : path) : step_res :=
  match resolve_py fs cand with
  | PRvalue => StRefuse                                   (* ValueError: embedded NUL *)
  | PRruntime => if catches then StRefuse else StRaise
  | PRfuel => StRaise                                     (* deeper than the model's bound: out of model *)
  | PRok q ok =>
      if N.eqb mode 0 then StOk q ok
      else match pyrealpath fs q with
           | PFuel => StRaise
           | PValue => StRefuse
           | POk r ok2 =>
               if N.eqb mode 1 then StOk r ok2
               else if nolinks fs r then StOk r ok2 else StRefuse       (* OSError(ELOOP) of the helper; ENAMETOOLONG too *)
           end
  end.

Definition validate_uri_x (mode : N) (catches : bool) (fs : node) (base : path) (uri : str) : uri_res * bool :=
  match resolve_py fs base with                              (* base_path = base_path.resolve(): exceptions escape *)
  | PRok b _ =>
      if is_abs_str uri || second_is_colon uri then (URefused, true)     (* check 1 *)
      else
        (* candidate = base_path / source_uri ; then the resolution step *)
        match resolve_steps mode catches fs (ptail (pjoin (mkpp 1 b) (pparse uri))) with
        | StRefuse => (URefused, true)
        | StRaise => (URaise, true)
        | StOk r ok => if path_prefixb b r then (UOk r, ok) else (URefused, ok)    (* resolved.relative_to(base_path) *)
        end
  | _ => (URaise, true)
  end.
Definition validate_uri (mode : N) (catches : bool) fs base uri : uri_res := fst (validate_uri_x mode catches fs base uri).
(* did the last resolution step resolve every link?  (false = it stopped at a symlink loop) *)
Definition uri_complete (mode : N) (catches : bool) fs base uri : bool := snd (validate_uri_x mode catches fs base uri).
(* validate_source_uri of the current source *)
Definition validate_uri_src := validate_uri paths_uri_resolution paths_uri_catches_runtime.
Definition uri_complete_src := uri_complete paths_uri_resolution paths_uri_catches_runtime.

Lemma pin_uri_skeleton : length paths_uri_skeleton = 6%nat. Proof. reflexivity. Qed.

Lemma resolve_steps_complete mode catches fs cand r : resolve_steps mode catches fs cand = StOk r true -> real fs r.
Proof.
  unfold resolve_steps, resolve_py.
  destruct (pyrealpath fs cand) as [q ok| |] eqn:E1; try discriminate.
  destruct (has_nul q); [discriminate|].
  assert (X : (if N.eqb mode 0 then StOk q ok
               else match pyrealpath fs q with
                    | PFuel => StRaise | PValue => StRefuse
                    | POk r0 ok2 => if N.eqb mode 1 then StOk r0 ok2 else if nolinks fs r0 then StOk r0 ok2 else StRefuse
                    end) = StOk r true -> real fs r).
  { destruct (N.eqb mode 0).
    - intro H. inversion H; subst q ok. exact (proj1 (pyrealpath_complete_real _ _ _ E1)).
    - destruct (pyrealpath fs q) as [r2 ok2| |] eqn:E2; try discriminate.
      assert (Y : StOk r2 ok2 = StOk r true -> real fs r)
        by (intro H; inversion H; subst r2 ok2; exact (proj1 (pyrealpath_complete_real _ _ _ E2))).
      destruct (N.eqb mode 1); [exact Y|]. destruct (nolinks fs r2); [exact Y|discriminate]. }
  destruct (kstat fs q); try exact X; destruct catches; discriminate.
Qed.

(* mode 2 (and any mode other than 0 and 1): whatever the two resolutions did, an accepted result passed the link-free test *)
Lemma resolve_steps_mode2 mode catches fs cand r ok : N.eqb mode 0 = false -> N.eqb mode 1 = false ->
  resolve_steps mode catches fs cand = StOk r ok -> real fs r /\ forall q, In q (inits1 r) -> p_is_symlink fs q = false.
Proof.
  intros M0 M1. unfold resolve_steps. rewrite M0, M1.
  destruct (resolve_py fs cand) as [q ok1| | |]; try discriminate; [|destruct catches; discriminate].
  unfold pyrealpath. destruct (jrp rp_fuel fs [] [] q) as [x ok2 sn| |]; try discriminate.
  destruct (nolinks fs (normpath x)) eqn:N; [|discriminate]. intro H. inversion H; subst r ok.
  split; [exact (nolinks_real fs _ (normpath_is_clean x) N)|intros q0 Hq; exact (nolinks_no_symlink fs _ q0 N Hq)].
Qed.

(* An accepted URI lies, component-wise, below the resolved base; and if the last resolution step was complete no
   component of the returned path is a link.  WITHOUT that clause the statement is false of the code -- see
   uri_full / the refutations in PathPins.v (finding: a resolution that stops at a symlink loop). *)
Theorem source_uri_confined mode catches fs base uri p : validate_uri mode catches fs base uri = UOk p ->
  exists b c rest, resolve_py fs base = PRok b c /\ p = b ++ rest /\
                   (uri_complete mode catches fs base uri = true -> real fs p).
Proof.
  unfold validate_uri, uri_complete, validate_uri_x. destruct (resolve_py fs base) as [b c| | |] eqn:B; try discriminate.
  destruct (is_abs_str uri || second_is_colon uri); [discriminate|].
  destruct (resolve_steps mode catches fs (ptail (pjoin (mkpp 1 b) (pparse uri)))) as [r ok| |] eqn:R; try discriminate.
  destruct (path_prefixb b r) eqn:P; [|discriminate]. cbn [fst snd]. intro X. inversion X; subst p.
  destruct (path_prefixb_spec _ _ P) as (rest & E). exists b, c, rest. repeat split; try assumption.
  intro Hok. subst ok. exact (resolve_steps_complete _ _ _ _ _ R).
Qed.

(* the statement of the property text: the returned path names a file below the base, i.e. none of its components is a link *)
Definition uri_full (mode : N) (catches : bool) : Prop :=
  forall fs base uri p, validate_uri mode catches fs base uri = UOk p -> real fs p.

(* ---- check_staleness: _check_single_snapshot --------------------------------------------------------- *)
Inductive stale_res : Type := SHashed (p : path) | SError | SRaise.
Definition stale_uri (mode : N) (catches : bool) (fs : node) (base root : path) (uri : str) : stale_res :=
  if is_abs_str uri || second_is_colon uri then SError
  else match resolve_steps mode catches fs (ptail (pjoin (mkpp 1 base) (pparse uri))) with
       | StRefuse => SError
       | StRaise => SRaise
       | StOk r _ =>
           match resolve_py fs root with               (* effective_root = (allowed_root or base_path).resolve() *)
           | PRok rt _ =>
               if path_prefixb rt r then                (* source_path.relative_to(effective_root) *)
                 match p_exists fs r with               (* source_path.exists() *)
                 | ExTrue => match p_read fs r with Some _ => SHashed r | None => SError end   (* open + hash; errors -> ERROR *)
                 | ExFalse => SError
                 | ExRaise => SRaise
                 end
               else SError
           | _ => SRaise
           end
       end.
Definition stale_uri_src := stale_uri paths_stale_resolution paths_stale_catches_runtime.

Theorem stale_confined mode catches fs base root uri p : stale_uri mode catches fs base root uri = SHashed p ->
  exists rt c rest, resolve_py fs root = PRok rt c /\ p = rt ++ rest.
Proof.
  unfold stale_uri. destruct (is_abs_str uri || second_is_colon uri); [discriminate|].
  destruct (resolve_steps mode catches fs _) as [r ok| |]; try discriminate.
  destruct (resolve_py fs root) as [rt c| | |] eqn:B; try discriminate.
  destruct (path_prefixb rt r) eqn:P; [|discriminate].
  destruct (p_exists fs r); try discriminate. destruct (p_read fs r); [|discriminate].
  intro X. inversion X; subst p. destruct (path_prefixb_spec _ _ P) as (rest & E). exists rt, c, rest. split; [reflexivity|exact E].
Qed.

(* ---- witnesses: a cyclic link, `..`, and a link to a file outside the base ----
   /sb/loop.md -> loop.md (cycle)   /sb/lf.md -> ../out/secret.md   /sb/k2 -> missing/../loop.md/../lf.md   /out/secret.md *)
Definition w_lf : seg := [108;102;46;109;100].                          (* lf.md *)
Definition w_fs_cycle : node :=
  mk_fs [([w_sb], NDir []); ([w_out], NDir []); ([w_out; [115;101;99;114;101;116;46;109;100]], NFile [83]);
         ([w_sb; [108;111;111;112;46;109;100]], NLink [108;111;111;112;46;109;100]);
         ([w_sb; w_lf], NLink [46;46;47;111;117;116;47;115;101;99;114;101;116;46;109;100]);
         ([w_sb; [107;50]], NLink [109;105;115;115;105;110;103;47;46;46;47;108;111;111;112;46;109;100;47;46;46;47;108;102;46;109;100])].
Definition w_uri_cycle : str := [108;111;111;112;46;109;100;47;46;46;47;108;102;46;109;100].     (* loop.md/../lf.md *)
Definition w_uri_cycle2 : str := [108;111;111;112;46;109;100;47;46;46;47;107;50].               (* loop.md/../k2 *)

(* the defect repaired by repo fix ea316ac, as a statement about the ONE-step resolution: resolve() alone returns
   /sb/lf.md -- a link to /out/secret.md -- and the containment check passes *)
Lemma one_step_accepts_cycle_dotdot :
  validate_uri 0 false w_fs_cycle [w_sb] w_uri_cycle = UOk [w_sb; w_lf] /\
  uri_complete 0 false w_fs_cycle [w_sb] w_uri_cycle = false /\
  is_link_o (raw w_fs_cycle [w_sb; w_lf]) = true /\
  kstat w_fs_cycle [w_sb; w_lf] = KFound [w_out; [115;101;99;114;101;116;46;109;100]] (NFile [83]).
Proof. vm_compute. repeat split; reflexivity. Qed.

Theorem uri_full_refuted_one_step : ~ uri_full 0 false.
Proof.
  intro F. pose proof (F w_fs_cycle [w_sb] w_uri_cycle _ (proj1 one_step_accepts_cycle_dotdot)) as R.
  specialize (R [w_sb; w_lf] [] (eq_sym (app_nil_r _)) ltac:(discriminate)). vm_compute in R. discriminate.
Qed.

(* regression for ea316ac: with the second step (and RuntimeError caught) the same URI is refused; so is a bare cycle *)
Example two_step_refuses_cycle_dotdot :
  validate_uri 1 true w_fs_cycle [w_sb] w_uri_cycle = URefused /\
  validate_uri 1 true w_fs_cycle [w_sb] [108;111;111;112;46;109;100] = URefused /\
  validate_uri 1 false w_fs_cycle [w_sb] [108;111;111;112;46;109;100] = URaise.
Proof. vm_compute. repeat split; reflexivity. Qed.

(* ... but the second step is the same algorithm and can stop at a loop again: via /sb/k2 the two-step resolution
   still returns /sb/lf.md *)
Lemma two_step_accepts_cycle_via_link :
  validate_uri 1 true w_fs_cycle [w_sb] w_uri_cycle2 = UOk [w_sb; w_lf] /\
  uri_complete 1 true w_fs_cycle [w_sb] w_uri_cycle2 = false /\
  is_link_o (raw w_fs_cycle [w_sb; w_lf]) = true.
Proof. vm_compute. repeat split; reflexivity. Qed.

Theorem uri_full_refuted_two_step : ~ uri_full 1 true.
Proof.
  intro F. pose proof (F w_fs_cycle [w_sb] w_uri_cycle2 _ (proj1 two_step_accepts_cycle_via_link)) as R.
  specialize (R [w_sb; w_lf] [] (eq_sym (app_nil_r _)) ltac:(discriminate)). vm_compute in R. discriminate.
Qed.

(* the completeness hypothesis is satisfiable on a non-trivial value: a live link inside the base is followed and accepted *)
Example uri_complete_nonvacuous :
  validate_uri 1 true w_fs_live [w_sb] [100;47;46;46;47;100] = UOk [w_sb; [100]] /\
  uri_complete 1 true w_fs_live [w_sb] [100;47;46;46;47;100] = true /\
  validate_uri 1 true w_fs_live [w_sb] [108;110;107;100] = URefused.
Proof. vm_compute. repeat split; reflexivity. Qed.

(* the statement about the pre-fix two-step resolution (ea316ac), kept under the name the coordinator asked for *)
Theorem two_step_was_wrong : ~ uri_full 1 true.
Proof. exact uri_full_refuted_two_step. Qed.

(* ---- mode 2: the link-free helper -------------------------------------------------------------------- *)
(* with the helper the text's statement holds, for either `except` tuple *)
Theorem uri_full_link_free catches : uri_full 2 catches.
Proof.
  intros fs base uri p. unfold validate_uri, validate_uri_x.
  destruct (resolve_py fs base) as [b c| | |]; try discriminate.
  destruct (is_abs_str uri || second_is_colon uri); [discriminate|].
  destruct (resolve_steps 2 catches fs (ptail (pjoin (mkpp 1 b) (pparse uri)))) as [r ok| |] eqn:R; try discriminate.
  destruct (path_prefixb b r); [|discriminate]. cbn [fst]. intro X. inversion X; subst p.
  exact (proj1 (resolve_steps_mode2 2 catches fs _ r ok eq_refl eq_refl R)).
Qed.

Theorem stale_link_free catches fs base root uri p : stale_uri 2 catches fs base root uri = SHashed p ->
  real fs p /\ forall q, In q (inits1 p) -> p_is_symlink fs q = false.
Proof.
  unfold stale_uri. destruct (is_abs_str uri || second_is_colon uri); [discriminate|].
  destruct (resolve_steps 2 catches fs _) as [r ok| |] eqn:R; try discriminate.
  destruct (resolve_py fs root) as [rt c| | |]; try discriminate.
  destruct (path_prefixb rt r); [|discriminate].
  destruct (p_exists fs r); try discriminate. destruct (p_read fs r); [|discriminate].
  intro X. inversion X; subst p. exact (resolve_steps_mode2 2 catches fs _ r ok eq_refl eq_refl R).
Qed.

(* The same two entry points over ANY resolution function R (NoLinks.v: nothing is assumed about R, not even that it
   follows links): base b already resolved, candidate = b / uri, helper = normpath (R ...) + link-free test, containment
   on components.  Accepted => below the base, real, and no prefix is a link for the kernel. *)
Section AnyResolution.
  Variable R : node -> path -> option path.
  Definition validate_uri_any (fs : node) (b : path) (uri : str) : uri_res :=
    if is_abs_str uri || second_is_colon uri then URefused
    else match resolve_without_links R fs (ptail (pjoin (mkpp 1 b) (pparse uri))) with
         | None => URefused
         | Some r => if path_prefixb b r then UOk r else URefused
         end.
  Definition stale_uri_any (fs : node) (b root : path) (uri : str) : stale_res :=
    if is_abs_str uri || second_is_colon uri then SError
    else match resolve_without_links R fs (ptail (pjoin (mkpp 1 b) (pparse uri))) with
         | None => SError
         | Some r => if path_prefixb root r
                     then match p_exists fs r with
                          | ExTrue => match p_read fs r with Some _ => SHashed r | None => SError end
                          | ExFalse => SError | ExRaise => SRaise end
                     else SError
         end.

  Theorem source_uri_confined_any fs b uri p : validate_uri_any fs b uri = UOk p ->
    (exists rest, p = b ++ rest) /\ real fs p /\ forall q, In q (inits1 p) -> p_is_symlink fs q = false.
  Proof.
    unfold validate_uri_any. destruct (is_abs_str uri || second_is_colon uri); [discriminate|].
    destruct (resolve_without_links R fs _) as [r|] eqn:E; [|discriminate].
    destruct (path_prefixb b r) eqn:P; [|discriminate]. intro X. inversion X; subst p.
    destruct (resolve_without_links_real R fs _ r E) as (H1 & _ & H3).
    split; [exact (path_prefixb_spec _ _ P)|split; assumption].
  Qed.

  Theorem staleness_confined_any fs b root uri p : stale_uri_any fs b root uri = SHashed p ->
    (exists rest, p = root ++ rest) /\ real fs p /\ forall q, In q (inits1 p) -> p_is_symlink fs q = false.
  Proof.
    unfold stale_uri_any. destruct (is_abs_str uri || second_is_colon uri); [discriminate|].
    destruct (resolve_without_links R fs _) as [r|] eqn:E; [|discriminate].
    destruct (path_prefixb root r) eqn:P; [|discriminate].
    destruct (p_exists fs r); try discriminate. destruct (p_read fs r); [|discriminate].
    intro X. inversion X; subst p. destruct (resolve_without_links_real R fs _ r E) as (H1 & _ & H3).
    split; [exact (path_prefixb_spec _ _ P)|split; assumption].
  Qed.
End AnyResolution.

(* regression for 3bf4eb7 by computation: the 2-link and the 3-link tree, both entry points, link-free mode *)
Example link_free_refuses_cycles :
  validate_uri 2 true w_fs_cycle [w_sb] w_uri_cycle = URefused /\
  validate_uri 2 true w_fs_cycle [w_sb] w_uri_cycle2 = URefused /\
  validate_uri 2 true w_fs_cycle [w_sb] [107;50] = URefused /\
  stale_uri 2 true w_fs_cycle [w_sb] [w_sb] w_uri_cycle = SError /\
  stale_uri 2 true w_fs_cycle [w_sb] [w_sb] w_uri_cycle2 = SError /\
  stale_uri 2 true w_fs_cycle [w_sb] [w_sb] [108;111;111;112;46;109;100] = SError /\
  stale_uri 0 false w_fs_cycle [w_sb] [w_sb] w_uri_cycle = SHashed [w_sb; w_lf] /\
  stale_uri 0 false w_fs_cycle [w_sb] [w_sb] [108;111;111;112;46;109;100] = SRaise.
Proof. vm_compute. repeat split; reflexivity. Qed.
