(* C19 -- posixpath.realpath(strict=False) of CPython 3.12 transcribed EXACTLY, including what it does when it meets
   a symbolic-link loop: `_joinrealpath` keeps a `seen` table (link path -> None while the link is being resolved,
   -> its resolution afterwards); meeting a link that is still being resolved it gives up and returns
   `join(newpath, rest), False` -- the unresolved remainder is appended TEXTUALLY at every level of the recursion --
   and `realpath` finally applies `abspath` (= `normpath`), which removes `..` components LEXICALLY.  So a cyclic link
   followed by `..` disappears from the result and the components after it are returned UNRESOLVED (they may be links).
   `Path.resolve(strict=False)` = that + `stat()` of the result, turning ELOOP into RuntimeError.
   (Realpath.v keeps the idealised `resolve` used for the tool-path validators, where a `..` component is refused anyway.) *)
From OV Require Import Base.Strs Path.FsTree Path.Realpath.
Open Scope N_scope.

(* seen: newest binding first *)
Definition seen_t := list (path * option path).
Fixpoint seen_get (s : seen_t) (p : path) : option (option path) :=
  match s with
  | [] => None
  | (k, v) :: s' => if path_eqb k p then Some v else seen_get s' p
  end.
Definition seen_set (s : seen_t) (p : path) (v : option path) : seen_t := (p, v) :: s.

(* posixpath.join(newpath, rest) on component lists (rest = the text after the current name, split on "/"):
   a right operand that starts with "/" (first component empty and something follows) REPLACES the left one *)
Definition join_rest (newpath rest : path) : path :=
  match rest with
  | [] :: _ :: _ => rest
  | _ => newpath ++ rest
  end.

(* JFuel = recursion deeper than the model's bound (out of model); JValue = ValueError: os.lstat was handed a name with an
   embedded NUL (only names that are actually lstat'ed count: a NUL component behind a loop survives in the unresolved
   remainder and may be removed lexically by a later `..`) *)
Inductive jres : Type := JOk (p : path) (ok : bool) (s : seen_t) | JFuel | JValue.

Section JStep.
  Variable fs : node.
  Variable k : seen_t -> path -> path -> jres.     (* the recursive call on a link target (one unit less fuel) *)
  (* the `while rest:` loop of _joinrealpath; acc = `path` (resolved so far), rest = remaining components *)
  Fixpoint jr_go (seen : seen_t) (acc rest : path) {struct rest} : jres :=
    match rest with
    | [] => JOk acc true seen
    | c :: rest' =>
        if is_nil c || str_eqb c s_dot then jr_go seen acc rest'
        else if str_eqb c s_dotdot then jr_go seen (removelast acc) rest'
        else if memb 0 c then JValue
        else
          let np := acc ++ [c] in
          match raw fs np with                       (* os.lstat(newpath); an OSError means "not a link" *)
          | Some (NLink t) =>
              match seen_get seen np with
              | Some (Some p) => jr_go seen p rest'                     (* use cached value *)
              | Some None => JOk (join_rest np rest') false seen        (* symlink loop: resolved part + rest unchanged *)
              | None =>
                  match k (seen_set seen np None) (if is_abs_str t then [] else acc) (split_on c_slash t) with
                  | JOk p true seen' => jr_go (seen_set seen' np (Some p)) p rest'
                  | JOk p false seen' => JOk (join_rest p rest') false seen'
                  | r => r
                  end
              end
          | _ => jr_go seen np rest'
          end
    end.
End JStep.

Fixpoint jrp (fuel : nat) (fs : node) : seen_t -> path -> path -> jres :=
  match fuel with
  | O => fun _ _ _ => JFuel
  | S f => jr_go fs (jrp f fs)
  end.

(* posixpath.normpath of an absolute path given by its components: "" and "." dropped, ".." removes the last kept
   component (nothing at the root).  (The POSIX "exactly two leading slashes" case is not represented.) *)
Definition norm_step (acc : path) (c : seg) : path :=
  if is_nil c || str_eqb c s_dot then acc
  else if str_eqb c s_dotdot then removelast acc
  else acc ++ [c].
Definition normpath (p : path) : path := fold_left norm_step p [].

(* os.path.realpath(<absolute path>) : (result, did every link resolve?) *)
Inductive pyres : Type := POk (p : path) (complete : bool) | PFuel | PValue.
Definition pyrealpath (fs : node) (tail : path) : pyres :=
  match jrp rp_fuel fs [] [] tail with
  | JOk p ok _ => POk (normpath p) ok
  | JFuel => PFuel
  | JValue => PValue
  end.

(* Path(abs).resolve(strict=False): ValueError on NUL, realpath, then stat() of the result: ELOOP -> RuntimeError *)
Inductive pres : Type := PRok (p : path) (complete : bool) | PRvalue | PRruntime | PRfuel.
Definition resolve_py (fs : node) (tail : path) : pres :=
  match pyrealpath fs tail with
  | PFuel => PRfuel
  | PValue => PRvalue
  | POk q ok => if has_nul q then PRvalue                 (* os.stat(q): ValueError before the kernel is asked *)
                else match kstat fs q with KLoop => PRruntime | _ => PRok q ok end
  end.

(* ---- a COMPLETE resolution (ok = true) is a real, clean path -------------------------------------- *)
Definition seen_ok (fs : node) (s : seen_t) : Prop := forall k v, In (k, Some v) s -> real fs v /\ clean v.

Lemma seen_ok_nil fs : seen_ok fs [].
Proof. intros k v []. Qed.

Lemma seen_ok_set_none fs s p : seen_ok fs s -> seen_ok fs (seen_set s p None).
Proof. intros H k v [E|Hin]; [inversion E|exact (H k v Hin)]. Qed.

Lemma seen_ok_set_some fs s p v : seen_ok fs s -> real fs v -> clean v -> seen_ok fs (seen_set s p (Some v)).
Proof.
  intros H Hr Hc k w [E|Hin]; [|exact (H k w Hin)].
  assert (E2 : v = w) by congruence. subst w. split; assumption.
Qed.

Lemma seen_get_in s p v : seen_get s p = Some (Some v) -> exists k, In (k, Some v) s.
Proof.
  induction s as [|[k w] s IH]; cbn; [discriminate|]. destruct (path_eqb k p).
  - intro E. inversion E; subst. exists k. left. reflexivity.
  - intro E. destruct (IH E) as (k' & Hk). exists k'. right. exact Hk.
Qed.

Lemma clean_snoc p c : clean p -> is_nil c || str_eqb c s_dot = false -> str_eqb c s_dotdot = false -> clean (p ++ [c]).
Proof.
  intros Ha E1 E2 x Hx. apply in_app_or in Hx as [Hx|[Hx|[]]]; [exact (Ha x Hx)|]. subst x.
  apply orb_false_iff in E1 as [E0 E1]. split; [intro Z; subst c; discriminate|split; assumption].
Qed.

Lemma jr_go_complete fs k :
  (forall seen acc rest p seen', seen_ok fs seen -> real fs acc -> clean acc ->
     k seen acc rest = JOk p true seen' -> real fs p /\ clean p /\ seen_ok fs seen') ->
  forall rest seen acc p seen', seen_ok fs seen -> real fs acc -> clean acc ->
     jr_go fs k seen acc rest = JOk p true seen' -> real fs p /\ clean p /\ seen_ok fs seen'.
Proof.
  intros Hk. induction rest as [|c rest IH]; intros seen acc p seen' Hs Hr Hc H; cbn [jr_go] in H.
  - assert (Ea : acc = p) by congruence. assert (Eb : seen = seen') by congruence. subst p seen'. split; [exact Hr|split; [exact Hc|exact Hs]].
  - destruct (is_nil c || str_eqb c s_dot) eqn:E1; [exact (IH _ _ _ _ Hs Hr Hc H)|].
    destruct (str_eqb c s_dotdot) eqn:E2; [exact (IH _ _ _ _ Hs (real_removelast _ _ Hr) (clean_removelast _ Hc) H)|].
    destruct (memb 0 c); [discriminate|].
    pose proof (clean_snoc acc c Hc E1 E2) as Hc'.
    destruct (raw fs (acc ++ [c])) as [[b|es|t]|] eqn:E.
    + apply (IH _ _ _ _ Hs (real_snoc _ _ _ Hr ltac:(rewrite E; reflexivity)) Hc' H).
    + apply (IH _ _ _ _ Hs (real_snoc _ _ _ Hr ltac:(rewrite E; reflexivity)) Hc' H).
    + destruct (seen_get seen (acc ++ [c])) as [[v|]|] eqn:G.
      * destruct (seen_get_in _ _ _ G) as (k0 & Hin). destruct (Hs _ _ Hin) as [Hv1 Hv2]. exact (IH _ _ _ _ Hs Hv1 Hv2 H).
      * discriminate.
      * destruct (k (seen_set seen (acc ++ [c]) None) (if is_abs_str t then [] else acc) (split_on c_slash t)) as [q ok s2| |] eqn:K;
          try discriminate. destruct ok; [|discriminate].
        assert (X : real fs q /\ clean q /\ seen_ok fs s2).
        { destruct (is_abs_str t).
          - exact (Hk _ _ _ _ _ (seen_ok_set_none _ _ _ Hs) (real_nil fs) clean_nil K).
          - exact (Hk _ _ _ _ _ (seen_ok_set_none _ _ _ Hs) Hr Hc K). }
        destruct X as (Q1 & Q2 & Q3). exact (IH _ _ _ _ (seen_ok_set_some _ _ _ _ Q3 Q1 Q2) Q1 Q2 H).
    + apply (IH _ _ _ _ Hs (real_snoc _ _ _ Hr ltac:(rewrite E; reflexivity)) Hc' H).
Qed.

Theorem jrp_complete fs : forall fuel seen acc rest p seen', seen_ok fs seen -> real fs acc -> clean acc ->
  jrp fuel fs seen acc rest = JOk p true seen' -> real fs p /\ clean p /\ seen_ok fs seen'.
Proof.
  induction fuel as [|f IH]; intros seen acc rest p seen' Hs Hr Hc H; cbn in H; [discriminate|].
  exact (jr_go_complete fs (jrp f fs) IH rest seen acc p seen' Hs Hr Hc H).
Qed.

Lemma norm_clean_from acc p : clean p -> fold_left norm_step p acc = acc ++ p.
Proof.
  revert acc; induction p as [|c p IH]; intros acc Hc; cbn; [rewrite app_nil_r; reflexivity|].
  destruct (Hc c (or_introl eq_refl)) as (H0 & H1 & H2).
  unfold norm_step at 2. assert (Z : is_nil c = false) by (destruct c; [congruence|reflexivity]).
  rewrite Z, H1, H2. cbn. rewrite IH by (intros x Hx; apply Hc; right; exact Hx).
  rewrite <- app_assoc. reflexivity.
Qed.

Lemma normpath_clean p : clean p -> normpath p = p.
Proof. intro H. unfold normpath. exact (norm_clean_from [] p H). Qed.

(* a complete realpath returns a real path (no component of it is a link) *)
Theorem pyrealpath_complete_real fs tail q : pyrealpath fs tail = POk q true -> real fs q /\ clean q.
Proof.
  unfold pyrealpath. destruct (jrp rp_fuel fs [] [] tail) as [p ok s| |] eqn:E; try discriminate.
  intro H. inversion H; subst ok q.
  destruct (jrp_complete fs _ _ _ _ _ _ (seen_ok_nil fs) (real_nil fs) clean_nil E) as (R & C & _).
  rewrite (normpath_clean _ C). split; assumption.
Qed.

(* normpath always returns a clean path: no empty, "." or ".." component *)
Lemma norm_step_clean acc c : clean acc -> clean (norm_step acc c).
Proof.
  intro H. unfold norm_step. destruct (is_nil c || str_eqb c s_dot) eqn:E1; [exact H|].
  destruct (str_eqb c s_dotdot) eqn:E2; [exact (clean_removelast _ H)|exact (clean_snoc _ _ H E1 E2)].
Qed.

Lemma fold_norm_clean p : forall acc, clean acc -> clean (fold_left norm_step p acc).
Proof. induction p as [|c p IH]; intros acc H; cbn; [exact H|exact (IH _ (norm_step_clean _ _ H))]. Qed.

Theorem normpath_is_clean p : clean (normpath p).
Proof. exact (fold_norm_clean p [] clean_nil). Qed.
