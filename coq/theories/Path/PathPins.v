(* C19 -- facts about the three GENERATED validator configurations (Gen/PathsGen.v) that hold only of the source
   the model was last checked against: orders of the checks, text of the tests, constants, and -- since repo fix
   039cc0c -- that every link test (walk of the three validators, late re-check of the two writers) is the lstat-based
   `is_symlink()` WITHOUT a preceding `exists()`.  Reverting the fix flips the generated booleans: `cfg_*_wf`,
   `pin_link_tests_lstat_only`, `pin_inner_tests` and the regression example below stop compiling, and with them
   Properties/C19.v.  (The model itself, Path/PathCheck.v, and the extracted driver do not depend on this file: they
   follow whichever test the source uses.) *)
From OV Require Import Base.Strs Path.FsTree Path.Realpath Path.PathCheck Gen.PathsGen.
Open Scope N_scope.

Lemma cfg_write_wf : cfg_wf cfg_write = true. Proof. vm_compute. reflexivity. Qed.
Lemma cfg_validate_wf : cfg_wf cfg_validate = true. Proof. vm_compute. reflexivity. Qed.
Lemma cfg_fileops_wf : cfg_wf cfg_fileops = true. Proof. vm_compute. reflexivity. Qed.

(* pins: the orders / tests / constants the model was written against *)
Lemma pin_order_write : v_kinds cfg_write = [1; 2; 3]. Proof. reflexivity. Qed.
Lemma pin_order_validate : v_kinds cfg_validate = [2; 1; 3]. Proof. reflexivity. Qed.
Lemma pin_order_fileops : v_kinds cfg_fileops = [1; 2; 3]. Proof. reflexivity. Qed.
Definition t_inner : str := [99;117;114;114;101;110;116;46;105;115;95;115;121;109;108;105;110;107;40;41].     (* current.is_symlink() *)
Definition t_late : str := [112;97;116;104;95;111;98;106;46;105;115;95;115;121;109;108;105;110;107;40;41].   (* path_obj.is_symlink() *)
Lemma pin_inner_tests :
  paths_symlink_inner_write = t_inner /\ paths_symlink_inner_validate = t_inner /\ paths_symlink_inner_fileops = t_inner
  /\ paths_late_recheck_write = t_late /\ paths_late_recheck_fileops = t_late.
Proof. repeat split; reflexivity. Qed.
(* the five link tests of the source are lstat-only (what the model consumes) *)
Lemma pin_link_tests_lstat_only :
  v_req_exists cfg_write = false /\ v_req_exists cfg_validate = false /\ v_req_exists cfg_fileops = false /\
  paths_late_requires_exists_write = false /\ paths_late_requires_exists_fileops = false.
Proof. repeat split; reflexivity. Qed.
Lemma pin_carve :
  (v_depth cfg_write, v_prefix cfg_write) = (2, [47;112;114;105;118;97;116;101;47]) /\
  (v_depth cfg_validate, v_prefix cfg_validate) = (2, [47;112;114;105;118;97;116;101;47]) /\
  (v_depth cfg_fileops, v_prefix cfg_fileops) = (2, [47;112;114;105;118;97;116;101;47]).
Proof. repeat split; reflexivity. Qed.
Lemma pin_allowed :
  v_allowed cfg_write = [[46;109;100]; [46;111;99;116;46;109;100]; [46;111;99;116;97;118;101]] /\
  v_allowed cfg_validate = v_allowed cfg_write /\ v_allowed cfg_fileops = v_allowed cfg_write.
Proof. repeat split; reflexivity. Qed.

(* ---- regression (repo fix 039cc0c): dangling links are refused by the validators of the current source ----
   tree: /sb/dang.md -> /out/new.md (absent)   dangling link as LAST component
         /sb/dangd   -> /out/nodir  (absent)   dangling link as DIRECTORY component of /sb/dangd/x.md
         /sb/nd.md   -> f.md/x                 link whose target cannot be stat'ed (ENOTDIR)
   all three validators refuse each of the three paths at the symlink check, and the late re-check of both writers
   would fire on them as well. *)
Definition all_refuse_symlink (fs : node) (s : str) : bool :=
  match validate_write fs [] s, validate_validate fs [] s, validate_fileops fs [] s with
  | VRefuse RSymlink, VRefuse RSymlink, VRefuse RSymlink => true
  | _, _, _ => false
  end.

Example dangling_refused :
  p_is_symlink w_fs_dangling [w_sb; w_dang] = true /\ p_exists w_fs_dangling [w_sb; w_dang] = ExFalse /\
  p_is_symlink w_fs_dangling [w_sb; w_dangd] = true /\ p_exists w_fs_dangling [w_sb; w_dangd] = ExFalse /\
  all_refuse_symlink w_fs_dangling w_path_dangling = true /\
  all_refuse_symlink w_fs_dangling w_path_dangling_dir = true /\
  all_refuse_symlink w_fs_dangling w_path_enotdir = true /\
  late_recheck_write w_fs_dangling [] w_path_dangling = ExTrue /\
  late_recheck_fileops w_fs_dangling [] w_path_dangling = ExTrue.
Proof. vm_compute. repeat split; reflexivity. Qed.

(* the same witness instantiates the general theorem: nothing about it is accepted *)
Example dangling_not_accepted :
  validate_write w_fs_dangling [] w_path_dangling <> VOk /\ validate_write w_fs_dangling [] w_path_dangling_dir <> VOk.
Proof. vm_compute. split; discriminate. Qed.

(* ---- source URIs: both entry points of the current source use the link-free helper (repo fixes ea316ac + 3bf4eb7) ---- *)
Lemma pin_uri_resolution_steps :
  paths_uri_resolution = 2 /\ paths_uri_catches_runtime = true /\
  paths_stale_resolution = 2 /\ paths_stale_catches_runtime = true.
Proof. repeat split; reflexivity. Qed.

(* the text's statement holds of validate_source_uri of the current source ... *)
Theorem uri_full_src : uri_full paths_uri_resolution paths_uri_catches_runtime.
Proof. exact (uri_full_link_free true). Qed.

(* ... and of _check_single_snapshot: a hashed file has no link in any component and lies below the root *)
Theorem stale_src_real fs base root uri p : stale_uri_src fs base root uri = SHashed p ->
  real fs p /\ forall q, In q (inits1 p) -> p_is_symlink fs q = false.
Proof. exact (stale_link_free true fs base root uri p). Qed.

(* regression by computation on the generated flags: 2-link tree (loop.md/../lf.md), 3-link tree (loop.md/../k2), bare cycle *)
Example src_refuses_cycles :
  validate_uri_src w_fs_cycle [w_sb] w_uri_cycle = URefused /\
  validate_uri_src w_fs_cycle [w_sb] w_uri_cycle2 = URefused /\
  validate_uri_src w_fs_cycle [w_sb] [108;111;111;112;46;109;100] = URefused /\
  stale_uri_src w_fs_cycle [w_sb] [w_sb] w_uri_cycle = SError /\
  stale_uri_src w_fs_cycle [w_sb] [w_sb] w_uri_cycle2 = SError /\
  stale_uri_src w_fs_cycle [w_sb] [w_sb] [108;111;111;112;46;109;100] = SError.
Proof. vm_compute. repeat split; reflexivity. Qed.

Example src_link_free_nonvacuous :
  validate_uri_src w_fs_live [w_sb] [100;47;46;46;47;100] = UOk [w_sb; [100]] /\
  validate_uri_src w_fs_live [w_sb] [108;110;107;100] = URefused.
Proof. vm_compute. split; reflexivity. Qed.
