(* Non-vacuity of Rt/BareWord.v, regression on the earlier examples, the unrestricted statement and refutations. *)
From OV Require Import Base.Strs Lex.Lexer Syn.Ast Syn.Escape Syn.Quote Syn.Emitter Syn.Parser
     Rt.TokRound Rt.TokRoundEx Rt.TokRound2 Rt.TokRound2Ex Rt.LexLinkBase Rt.LexLinkSteps Rt.LexLink Rt.LexLinkEx
     Rt.LexLink2Base Rt.LexLink2Steps Rt.LexLink2Text Rt.LexLink2 Rt.LexLink2Ex Rt.BareWordParse Rt.BareWordLex Rt.BareWord.
Require Coq.Strings.String.
Import Coq.Strings.String.StringSyntax.
Open Scope N_scope.

Definition lex_emit_core3_concl (cls : N -> N) (sp : N -> bool) (d : doc) : Prop :=
  exists ts tnl teof,
    tokenize cls false (lines_of (emit sp d)) = LexOk (ts ++ [tnl; teof]) [] /\
    Forall2 tmatch ts (doc3_sh needs_multiline ex_idnum qa_emit qi_emit d) /\ tk tnl = NEWLINE /\ tk teof = EOF.

(* ---- a depth-3 document mixing quoted strings, bare words (plain, dotted, dashed), variables, numbers, lists with bare
   items in both layouts, and a META block with bare values ---------------------------------------------------------------- *)
Definition ex_bare : doc :=
  mkDoc (lit "BARE") (Some (lit "6.0.0")) None true
    [ (lit "TYPE", MV (VStr (lit "PROTOCOL_DEFINITION")));
      (lit "VERSION", MV (VStr (lit "v1.2-x")));
      (lit "OWNER", MV (VStr (lit "$USER:name")));
      (lit "TITLE", MV (VStr (lit "two words")));
      (lit "TAGS", MV (VList [VStr (lit "alpha"); VStr (lit "beta.gamma"); VStr (lit "needs quoting"); VStr (lit "$V1")])) ]
    [ NAssign (lit "STATUS") (VStr (lit "ACTIVE")) [lit "a bare word"] (Some (lit "trailing"));
      NSection (lit "1") (lit "MAIN") (Some (lit "draft"))
        [ NBlock (lit "CONFIG") None
            [ NAssign (lit "OWNER") (VStr (lit "alice_1")) [] None;
              NAssign (lit "PATTERN") (VStr (lit "abc")) [] None;
              NAssign (lit "MODE") (VStr (lit "trueish")) [] (Some (lit "starts like a keyword"));
              NAssign (lit "REF") (VStr (lit "$ctx:id")) [] None;
              NAssign (lit "IDS") (VList [VStr (lit "a"); VNum false (lit "2"); VStr (lit "c-d"); VStr (lit "x y")]) [lit "multi-line"] None;
              NAssign (lit "PAIR") (VList [VStr (lit "nullable"); VNull]) [] (Some (lit "inline")) ] [lit "block"];
          NAssign (lit "LAST") (VStr (lit "vsx.y")) [] None ] [];
      NAssign (lit "END_") (VStr (lit "z")) [] None ]
    [lit "bye"].

Example ex_bare_core : core3_doc ex_bare = true.
Proof. vm_compute. reflexivity. Qed.
Example ex_bare_safe : lex_safe3_doc ex_bare = true.
Proof. vm_compute. reflexivity. Qed.

Definition ex_bare_numcanon (raw : str) : option (bool * str) :=
  if str_in raw [lit "1"; lit "2"] then Some (false, raw) else None.
Example ex_bare_nums : TokRound2.nums_ok2_l ex_bare_numcanon ex_idnum (dsections ex_bare) /\
                       Forall (TokRound2.field_num_ok ex_bare_numcanon) (dmeta ex_bare).
Proof. cbn. repeat split; try (intros _; eexists; reflexivity); try discriminate; repeat constructor. Qed.

(* via the theorems *)
Example ex_bare_lexes_thm : lex_emit_core3_concl ex_cls (fun _ => false) ex_bare.
Proof. exact (lex_emit_core3 ex_cls (fun _ => false) ex_bare ex_bare_core ex_bare_safe). Qed.
Example ex_bare_rt_thm :
  exists warns, parse_model ex_cls ex_bare_numcanon (fun _ => false) true (lines_of (emit (fun _ => false) ex_bare)) = PRDoc ex_bare [] warns /\
                Forall advisory warns.
Proof.
  exact (text_roundtrip_core3 ex_cls ex_bare_numcanon (fun _ => false) true (fun _ => false) ex_bare ex_bare_core ex_bare_safe
           (proj1 ex_bare_nums) (proj2 ex_bare_nums)).
Qed.

(* and by evaluation of the model (lexer + parser): the two routes agree; no repair, no warning (PATTERN is an always-quote key:
   its value is emitted quoted, so there is no pattern_autoquote record) *)
Example ex_bare_rt_computed :
  match parse_model ex_cls ex_bare_numcanon (fun _ => false) true (lines_of (emit (fun _ => false) ex_bare)) with
  | PRDoc d' reps warns => d' = ex_bare /\ reps = [] /\ map wsub warns = []
  | _ => False
  end.
Proof. vm_compute. repeat split. Qed.
Example ex_bare_lexes_computed :
  match tokenize ex_cls false (lines_of (emit (fun _ => false) ex_bare)) with
  | LexOk toks reps => all2 tmatchb toks (doc3_sh needs_multiline ex_idnum qa_emit qi_emit ex_bare ++ [(NEWLINE, None); (EOF, None)]) = true /\ reps = []
  | _ => False
  end.
Proof. vm_compute. split; reflexivity. Qed.

(* which token kind each string of the example gets *)
Example ex_bare_kinds :
  map qi_emit [lit "ACTIVE"; lit "v1.2-x"; lit "beta.gamma"; lit "$USER:name"; lit "two words"; lit "trueish"; lit "vsx.y"]
  = [QIdent; QIdent; QIdent; QVar; QStr; QIdent; QIdent] /\ qa_emit (lit "PATTERN") (lit "abc") = QStr.
Proof. vm_compute. split; reflexivity. Qed.

(* ---- regression: the documents of the earlier stages are still inside -------------------------------------------------------- *)
Example earlier_examples_safe3 :
  map lex_safe3_doc [ex_s1; ex_s2; ex_s3; ex_s4; ex_s4b; ex_all] = [true; true; true; true; true; true].
Proof. vm_compute. reflexivity. Qed.

(* ---- the unrestricted statement and why the side condition is there ------------------------------------------------------------ *)
Definition lex_emit_core3_full : Prop :=
  forall cls sp d, core3_doc d = true -> lex_emit_core3_concl cls sp d.

Definition dv (v : value) : doc := mkDoc (lit "D") None None false [] [NAssign (lit "A") v [] None] [].
Definition rt3_fails (d : doc) : Prop :=
  match parse_model ex_cls (fun _ => None) (fun _ => false) true (lines_of (emit (fun _ => false) d)) with
  | PRDoc d' _ _ => d' <> d
  | _ => True
  end.

(* KNOWN class (C04 clause 3, reserved-word segment): a bare word that STARTS with true / false / null / vs followed by `.` or `-`
   is emitted unquoted (it matches IDENTIFIER_PATTERN) but lexed as the literal / operator plus a rest: the text does not read back *)
Lemma lex_emit_core3_refuted_reserved_segment_true :
  exists d, core3_doc d = true /\ lex_safe3_doc d = false /\ ~ lex_emit_core3_concl ex_cls (fun _ => false) d /\ rt3_fails d.
Proof. exists (dv (VStr (lit "true.x"))). split; [reflexivity|]. split; [reflexivity|]. split; [refute_shape|vm_compute; first [exact I|discriminate]]. Qed.
Lemma lex_emit_core3_refuted_reserved_segment_null :
  exists d, core3_doc d = true /\ lex_safe3_doc d = false /\ ~ lex_emit_core3_concl ex_cls (fun _ => false) d /\ rt3_fails d.
Proof. exists (dv (VStr (lit "null-a"))). split; [reflexivity|]. split; [reflexivity|]. split; [refute_shape|vm_compute; first [exact I|discriminate]]. Qed.
Lemma lex_emit_core3_refuted_reserved_segment_vs :
  exists d, core3_doc d = true /\ lex_safe3_doc d = false /\ ~ lex_emit_core3_concl ex_cls (fun _ => false) d /\ rt3_fails d.
Proof. exists (dv (VStr (lit "vs.x"))). split; [reflexivity|]. split; [reflexivity|]. split; [refute_shape|vm_compute; first [exact I|discriminate]]. Qed.

(* a wrong-case literal / an embedded `vs` as a bare VALUE: read back as the same string, but with a lexer repair record
   (the repair list is not empty): outside the statement, not a loss of data *)
Lemma lex_emit_core3_refuted_wrong_case_value :
  exists d, core3_doc d = true /\ lex_safe3_doc d = false /\ ~ lex_emit_core3_concl ex_cls (fun _ => false) d.
Proof.
  exists (dv (VStr (lit "True"))). split; [reflexivity|]. split; [reflexivity|].
  intros (ts & tnl & teof & H & _). remember (tokenize _ _ _) as R eqn:ER. vm_compute in ER. subst R. discriminate H.
Qed.
Lemma lex_emit_core3_refuted_vs_embedded_value :
  exists d, core3_doc d = true /\ lex_safe3_doc d = false /\ ~ lex_emit_core3_concl ex_cls (fun _ => false) d.
Proof.
  exists (dv (VStr (lit "a_vs_b"))). split; [reflexivity|]. split; [reflexivity|].
  intros (ts & tnl & teof & H & _). remember (tokenize _ _ _) as R eqn:ER. vm_compute in ER. subst R. discriminate H.
Qed.

(* strings the emitter writes bare that are SEVERAL tokens (annotation NAME<q>, operator expression A@B): outside the one-token
   shape language; the parser has its own paths for them (flow expressions, annotations) -- not covered here *)
Lemma lex_emit_core3_refuted_annotation_value :
  exists d, core3_doc d = true /\ lex_safe3_doc d = false /\ ~ lex_emit_core3_concl ex_cls (fun _ => false) d.
Proof. exists (dv (VStr [65; 64; 66])). split; [reflexivity|]. split; [reflexivity|]. refute_shape. Qed.

Theorem lex_emit_core3_full_refuted : ~ lex_emit_core3_full.
Proof.
  intros Hfull. destruct lex_emit_core3_refuted_reserved_segment_true as (d & Hc & _ & Hn & _). apply Hn. apply Hfull. exact Hc.
Qed.
