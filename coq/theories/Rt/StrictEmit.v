(* C03, second half: the canonical text produced by the emitter model is in the STRICT PROFILE
   (Syn/StrictProfile.v), for every document of a decidable class, at every nesting depth.

   Structure:
     1. inert tokens, quoted strings: what `scan_code` does on the pieces the emitter writes
     2. one lemma per physical line kind for `body_ok`
     3. node level, by the nested induction principle `node_ind2`
     4. document frame (split/join, envelope)
     5. corollaries (core fragment, comments, lists, META, sections, zones), refutations, example *)
From OV Require Import Base.Strs Gen.EmitterGen Syn.Escape Syn.Quote Syn.Ast Syn.Emitter Syn.StrictProfile Rt.TokRound.
From Coq Require Import Lia.
Require Coq.Strings.String.
Import Coq.Strings.String.StringSyntax.
Open Scope N_scope.

Definition nilb {A} (l : list A) : bool := match l with [] => true | _ => false end.

(* ---- 1. inert tokens -------------------------------------------------------------------------------- *)
(* characters that never occur in the bare tokens treated by `inert` (outside quotes and comments); `$` only occurs bare
   in VARIABLE tokens, which are a token class of their own (tok_var) *)
Definition hard_chr (c : N) : bool := memb c [c_dq; c_slash; c_colon; c_sp; c_tab; c_nl; c_bt; 126; 124; 38; 35; 36].

(* a bare token on which the recogniser's code scanner only steps: no quote, slash, colon, blank, backtick,
   ~ | & #, no "->", '+' only as an exponent sign, and no word "vs" at a token start (after `$` `.` `-` or a word
   character a "vs" belongs to the VARIABLE / IDENTIFIER token, as for the lexer).  `prev` = character before. *)
Fixpoint inert (s : str) (prev : N) : bool :=
  match s with
  | [] => true
  | c :: r =>
      if hard_chr c then false
      else if N.eqb c c_plus then
        (N.eqb prev 101 || N.eqb prev 69) && (match r with d :: _ => is_digit d | [] => false end) && inert r c
      else if N.eqb c c_dash && prefixb [c_gt] r then false
      else if N.eqb c 118 && prefixb [115] r && negb (word_chr prev) && negb (memb prev [36; 46; 45]) &&
              (match r with _ :: x :: _ => negb (word_chr x) | _ => true end) then false
      else inert r c
  end.

(* what may follow a bare token: not '>' (would complete "->") and not 's' (would complete "vs") *)
Definition follow_ok (r : str) : bool :=
  match r with c :: _ => negb (N.eqb c c_gt) && negb (N.eqb c 115) | [] => true end.

(* what may follow a value token: additionally no variable character (it would extend a VARIABLE token) *)
Definition follow_tok (r : str) : bool :=
  match r with c :: _ => negb (N.eqb c c_gt) && negb (var_chr c) | [] => true end.
Lemma follow_tok_ok r : follow_tok r = true -> follow_ok r = true.
Proof.
  destruct r as [|c r]; [reflexivity|]. cbn [follow_tok follow_ok]. intro H. apply andb_true_iff in H. destruct H as [H1 H2].
  rewrite H1. cbn [andb]. destruct (N.eqb_spec c 115) as [->|_]; [discriminate H2|reflexivity].
Qed.

Lemma last_cons {A} (r : list A) : forall c p, last (c :: r) p = last r c.
Proof.
  induction r as [|x r IH]; intros c p; [reflexivity|].
  change (last (c :: x :: r) p) with (last (x :: r) p). rewrite (IH x p), (IH x c). reflexivity.
Qed.

Lemma hard_chr_facts c : hard_chr c = false ->
  N.eqb c c_dq = false /\ N.eqb c c_slash = false /\ N.eqb c c_colon = false /\ N.eqb c c_sp = false /\
  N.eqb c c_tab = false /\ N.eqb c c_nl = false /\ N.eqb c c_bt = false /\ memb c [126; 124; 38; 35] = false /\
  N.eqb c 36 = false.
Proof.
  unfold hard_chr, memb. cbn [existsb]. intro H.
  repeat match goal with H : (_ || _) = false |- _ => apply orb_false_iff in H; destruct H end.
  repeat split; try assumption. cbn [existsb].
  repeat match goal with H : ?x = false |- context[?x] => rewrite H end. reflexivity.
Qed.

Lemma prefixb1_app x r r0 : r <> [] -> prefixb [x] (r ++ r0) = prefixb [x] r.
Proof. destruct r as [|y r]; [congruence|]. intros _. cbn [app prefixb]. reflexivity. Qed.

Lemma scan_inert s : forall prev r, inert s prev = true -> follow_ok r = true ->
  scan_code (s ++ r) prev false false = scan_code r (last s prev) false false.
Proof.
  induction s as [|c s IH]; intros prev r Hi Hf; [reflexivity|].
  rewrite last_cons. cbn [app]. cbn [inert] in Hi.
  destruct (hard_chr c) eqn:Hh; [discriminate|].
  destruct (hard_chr_facts c Hh) as (Hdq & Hsl & Hco & _ & _ & _ & _ & Hops & Hdol).
  cbn [scan_code]. cbn [andb]. rewrite Hdq, Hsl, Hdol, Hops, Hco. cbn [andb].
  destruct (N.eqb c c_plus) eqn:Hpl.
  - apply andb_true_iff in Hi. destruct Hi as [Hi H3]. apply andb_true_iff in Hi. destruct Hi as [H1 H2].
    rewrite H1. destruct s as [|d s']; [discriminate|]. cbn [app]. rewrite H2. cbn [andb]. exact (IH c r H3 Hf).
  - assert (Hd : (N.eqb c c_dash && prefixb [c_gt] (s ++ r)) = (N.eqb c c_dash && prefixb [c_gt] s)).
    { destruct s as [|y s']; [|reflexivity]. cbn [app]. destruct r as [|z r']; [reflexivity|].
      cbn [follow_ok] in Hf. apply andb_true_iff in Hf. destruct Hf as [Hz _]. apply negb_true_iff in Hz.
      rewrite N.eqb_sym in Hz. cbn [prefixb]. rewrite Hz. reflexivity. }
    rewrite Hd. destruct (N.eqb c c_dash && prefixb [c_gt] s) eqn:Hda; [discriminate|].
    assert (Hv : (N.eqb c 118 && prefixb [115] (s ++ r) && negb (word_chr prev) && negb (memb prev [36; 46; 45]) &&
                  (match s ++ r with _ :: x :: _ => negb (word_chr x) | _ => true end)) =
                 (N.eqb c 118 && prefixb [115] s && negb (word_chr prev) && negb (memb prev [36; 46; 45]) &&
                  (match s with _ :: x :: _ => negb (word_chr x) | _ => true end))).
    { destruct s as [|y s'].
      - cbn [app]. destruct r as [|z r']; [reflexivity|].
        cbn [follow_ok] in Hf. apply andb_true_iff in Hf. destruct Hf as [_ Hz]. apply negb_true_iff in Hz.
        rewrite N.eqb_sym in Hz. cbn [prefixb]. rewrite Hz. cbn [andb]. rewrite !andb_false_r. reflexivity.
      - destruct s' as [|x s'']; [|reflexivity]. cbn [app prefixb]. cbn [prefixb] in Hi.
        destruct (N.eqb c 118) eqn:E1; [|reflexivity]. destruct (N.eqb 115 y) eqn:E2; [|reflexivity].
        destruct (negb (word_chr prev)) eqn:Hw; [|reflexivity].
        destruct (negb (memb prev [36; 46; 45])) eqn:Hm; [|reflexivity]. cbn [andb] in Hi. discriminate Hi. }
    rewrite Hv. destruct (N.eqb c 118 && prefixb [115] s && negb (word_chr prev) && negb (memb prev [36; 46; 45]) &&
                          (match s with _ :: x :: _ => negb (word_chr x) | _ => true end)); [discriminate|].
    exact (IH c r Hi Hf).
Qed.

(* `inert` looks at the previous character only to see whether it is a word character / an exponent letter *)
Lemma word_chr_e p : word_chr p = false -> (N.eqb p 101 || N.eqb p 69) = false.
Proof.
  intro H. destruct (N.eqb_spec p 101) as [->|_]; [vm_compute in H; discriminate|].
  destruct (N.eqb_spec p 69) as [->|_]; [vm_compute in H; discriminate|]. reflexivity.
Qed.
Lemma inert_from0 s p : word_chr p = false -> inert s 0 = true -> inert s p = true.
Proof.
  intros Hp. destruct s as [|c s]; [reflexivity|]. cbn [inert].
  rewrite (word_chr_e p Hp), Hp.
  change (N.eqb 0 101 || N.eqb 0 69) with false. change (word_chr 0) with false. change (memb 0 [36; 46; 45]) with false.
  cbn [negb andb].
  destruct (hard_chr c); [trivial|]. destruct (N.eqb c c_plus); [trivial|].
  destruct (N.eqb c c_dash && prefixb [c_gt] s); [trivial|].
  destruct (N.eqb c 118 && prefixb [115] s); destruct (match s with _ :: x :: _ => negb (word_chr x) | _ => true end);
    destruct (negb (memb p [36; 46; 45])); cbn [andb]; trivial; discriminate.
Qed.

Lemma inert_all_soft s : forall p, inert s p = true -> forallb (fun c => negb (hard_chr c)) s = true.
Proof.
  induction s as [|c s IH]; intros p H; [reflexivity|]. cbn [inert] in H. cbn [forallb].
  destruct (hard_chr c) eqn:Hh; [discriminate|]. cbn [negb andb].
  destruct (N.eqb c c_plus).
  - apply andb_true_iff in H. destruct H as [_ H]. exact (IH c H).
  - destruct (N.eqb c c_dash && prefixb [c_gt] s); [discriminate|].
    destruct (N.eqb c 118 && prefixb [115] s && negb (word_chr p) && _ && _); [discriminate|]. exact (IH c H).
Qed.

Lemma soft_no c s : hard_chr c = true -> forallb (fun x => negb (hard_chr x)) s = true -> memb c s = false.
Proof.
  intros Hc. induction s as [|x s IH]; intro H; [reflexivity|]. cbn [forallb] in H. apply andb_true_iff in H. destruct H as [Hx Hs].
  cbn [memb existsb]. fold (memb c s). rewrite (IH Hs), orb_false_r.
  destruct (N.eqb_spec c x) as [->|_]; [|reflexivity]. rewrite Hc in Hx. discriminate.
Qed.

Lemma last_in_soft s : forall p, s <> [] -> forallb (fun x => negb (hard_chr x)) s = true -> hard_chr (last s p) = false.
Proof.
  induction s as [|c s IH]; intros p Hne H; [congruence|]. rewrite last_cons.
  cbn [forallb] in H. apply andb_true_iff in H. destruct H as [Hc Hs].
  destruct s as [|d s']; [cbn [last]; apply negb_true_iff; exact Hc|]. apply IH; [discriminate|exact Hs].
Qed.

Definition last_is_blank_of (c : N) : bool := N.eqb c c_sp || N.eqb c c_tab.
Lemma last_is_blank_last s : s <> [] -> last_is_blank s = last_is_blank_of (last s 0).
Proof.
  intro Hne. unfold last_is_blank. destruct (exists_last Hne) as (l & a & ->).
  rewrite rev_app_distr, last_last. reflexivity.
Qed.
Lemma last_is_blank_app a b : b <> [] -> last_is_blank (a ++ b) = last_is_blank b.
Proof.
  intro Hne. unfold last_is_blank. destruct (exists_last Hne) as (l & x & ->).
  rewrite app_assoc, !rev_app_distr. reflexivity.
Qed.

Lemma memb_app c a b : memb c (a ++ b) = memb c a || memb c b.
Proof. unfold memb. apply existsb_app. Qed.

(* summary of what an inert, non-empty token is for the line-level rules *)
Lemma inert_line_facts s p : inert s p = true -> s <> [] ->
  memb c_tab s = false /\ memb c_nl s = false /\ memb c_sp s = false /\ last_is_blank s = false /\
  hard_chr (last s p) = false /\ (match s with c :: _ => hard_chr c = false | [] => True end).
Proof.
  intros Hi Hne. pose proof (inert_all_soft s p Hi) as Hs.
  repeat split; try (apply soft_no; [reflexivity|exact Hs]).
  - rewrite (last_is_blank_last s Hne). pose proof (last_in_soft s 0 Hne Hs) as Hl.
    destruct (hard_chr_facts _ Hl) as (_ & _ & _ & H1 & H2 & _). unfold last_is_blank_of. rewrite H1, H2. reflexivity.
  - apply last_in_soft; assumption.
  - destruct s as [|c s']; [exact I|]. cbn [forallb] in Hs. apply andb_true_iff in Hs. destruct Hs as [Hc _]. apply negb_true_iff. exact Hc.
Qed.

(* ---- quoted strings: the scanner enters the string state at the opening quote, follows the escapes the
        emitter writes, and leaves at the closing quote, whatever the string contains ------------------------- *)
Lemma scan_esc s : forall p r, scan_code (escape s ++ c_dq :: r) p true false = scan_code r c_dq false false.
Proof.
  induction s as [|c s IH]; intros p r.
  - reflexivity.
  - unfold escape in *. cbn [flat_map]. rewrite <- app_assoc.
    cases c H1 H2 H3 H4.
    + change (esc_chr c_bs) with [c_bs; c_bs]. cbn [app]. change (scan_code (c_bs :: c_bs :: ?x) p true false) with (scan_code x c_bs true false). apply IH.
    + change (esc_chr c_dq) with [c_bs; c_dq]. cbn [app]. change (scan_code (c_bs :: c_dq :: ?x) p true false) with (scan_code x c_dq true false). apply IH.
    + change (esc_chr c_nl) with [c_bs; c_n]. cbn [app]. change (scan_code (c_bs :: c_n :: ?x) p true false) with (scan_code x c_n true false). apply IH.
    + change (esc_chr c_tab) with [c_bs; c_t]. cbn [app]. change (scan_code (c_bs :: c_t :: ?x) p true false) with (scan_code x c_t true false). apply IH.
    + rewrite esc_other by assumption. cbn [app scan_code].
      rewrite (proj2 (N.eqb_neq _ _) H1), (proj2 (N.eqb_neq _ _) H2). apply IH.
Qed.

Lemma scan_quoted s p r : scan_code (quote s ++ r) p false false = scan_code r c_dq false false.
Proof.
  unfold quote. cbn [app]. rewrite <- app_assoc. cbn [app].
  change (scan_code (c_dq :: ?x) p false false) with (scan_code x c_dq true false). apply scan_esc.
Qed.

Lemma escape_no_tab s : memb c_tab (escape s) = false.
Proof.
  induction s as [|c s IH]; [reflexivity|]. unfold escape in *. cbn [flat_map].
  rewrite memb_app, IH, orb_false_r.
  cases c H1 H2 H3 H4; try reflexivity.
  rewrite esc_other by assumption. cbn [memb existsb]. rewrite orb_false_r. apply N.eqb_neq. congruence.
Qed.

Lemma quote_line_facts s :
  memb c_tab (quote s) = false /\ memb c_nl (quote s) = false /\ last_is_blank (quote s) = false.
Proof.
  unfold quote. change (c_dq :: escape s ++ [c_dq]) with ([c_dq] ++ escape s ++ [c_dq]).
  repeat split.
  - rewrite !memb_app, escape_no_tab. reflexivity.
  - rewrite !memb_app, escape_no_nl. reflexivity.
  - rewrite app_assoc, last_is_blank_app by discriminate. reflexivity.
Qed.

(* ---- 2. physical lines ---------------------------------------------------------------------------------- *)
(* the text of a value that stays on one line: what the line rules and the scanner need from it *)
Record tok_ok (T : str) : Prop := mk_tok_ok {
  tk_ne : T <> [];
  tk_tab : memb c_tab T = false;
  tk_nl : memb c_nl T = false;
  tk_last : last_is_blank T = false;
  tk_hd : match T with c :: _ => N.eqb c c_sp = false /\ N.eqb c c_bt = false | [] => True end;
  tk_scan : forall prev r, word_chr prev = false -> follow_tok r = true ->
            exists p', scan_code (T ++ r) prev false false = scan_code r p' false false }.

Lemma tok_inert s : s <> [] -> inert s 0 = true -> tok_ok s.
Proof.
  intros Hne Hi. destruct (inert_line_facts s 0 Hi Hne) as (H1 & H2 & _ & H4 & _ & H6).
  constructor; try assumption.
  - destruct s as [|c s']; [exact I|]. destruct (hard_chr_facts c H6) as (_ & _ & _ & Hs & _ & _ & Hb & _). split; assumption.
  - intros prev r Hp Hf. exists (last s prev). apply scan_inert; [|exact (follow_tok_ok r Hf)].
    exact (inert_from0 s prev Hp Hi).
Qed.

Lemma tok_quote s : tok_ok (quote s).
Proof.
  destruct (quote_line_facts s) as (H1 & H2 & H3).
  constructor; try assumption.
  - discriminate.
  - split; reflexivity.
  - intros prev r _ _. exists c_dq. apply scan_quoted.
Qed.

Definition line_body_ok (body : str) : Prop :=
  memb c_tab body = false /\ last_is_blank body = false /\
  (exists c b, body = c :: b /\ N.eqb c c_sp = false /\ N.eqb c c_bt = false) /\
  scan_code body 0 false false = true.

Lemma takeb_ind n c b : N.eqb c c_sp = false -> takeb (N.eqb c_sp) (repeat c_sp n ++ c :: b) = repeat c_sp n.
Proof. intro H. induction n as [|n IH]; cbn [repeat app takeb]; [rewrite N.eqb_sym, H; reflexivity|]. rewrite N.eqb_refl, IH. reflexivity. Qed.
Lemma dropb_ind n c b : N.eqb c c_sp = false -> dropb (N.eqb c_sp) (repeat c_sp n ++ c :: b) = c :: b.
Proof. intro H. induction n as [|n IH]; cbn [repeat app dropb]; [rewrite N.eqb_sym, H; reflexivity|]. rewrite N.eqb_refl, IH. reflexivity. Qed.
Lemma memb_repeat_ne c x n : N.eqb c x = false -> memb c (repeat x n) = false.
Proof. intro H. induction n as [|n IH]; [reflexivity|]. cbn [repeat memb existsb]. rewrite H. exact IH. Qed.
Lemma ind_length k : length (ind k) = (2 * k)%nat.
Proof. unfold ind. apply repeat_length. Qed.

Lemma body_ok_none l r p :
  body_ok (l :: r) None p =
  (let i := leading_spaces l in
   negb (memb c_tab l) && negb (last_is_blank l) && Nat.even i && (i <=? p + 2)%nat &&
   match fence_of l with
   | Some (m, _) => body_ok r (Some m) p
   | None => scan_code (skipn i l) 0 false false && body_ok r None i
   end).
Proof. reflexivity. Qed.

Lemma even_2k k : Nat.even (2 * k) = true.
Proof. rewrite Nat.even_mul. reflexivity. Qed.

(* a code line at depth k *)
Lemma body_ok_line k body rest p : line_body_ok body -> (2 * k <= p + 2)%nat ->
  body_ok ((ind k ++ body) :: rest) None p = body_ok rest None (2 * k).
Proof.
  intros (Ht & Hl & (c & b & -> & Hsp & Hbt) & Hs) Hk.
  rewrite body_ok_none. cbv zeta.
  assert (Hls : leading_spaces (ind k ++ c :: b) = (2 * k)%nat).
  { unfold leading_spaces, ind. rewrite takeb_ind by exact Hsp. apply repeat_length. }
  rewrite Hls.
  assert (Htab : memb c_tab (ind k ++ c :: b) = false).
  { rewrite memb_app, Ht, orb_false_r. apply memb_repeat_ne. reflexivity. }
  rewrite Htab, last_is_blank_app by discriminate. rewrite Hl, even_2k. cbn [negb andb].
  rewrite (proj2 (Nat.leb_le _ _) Hk). cbn [andb].
  assert (Hf : fence_of (ind k ++ c :: b) = None).
  { unfold fence_of, ind. rewrite dropb_ind by exact Hsp. cbn [takeb]. rewrite N.eqb_sym, Hbt. reflexivity. }
  rewrite Hf.
  assert (Hsk : skipn (2 * k) (ind k ++ c :: b) = c :: b).
  { rewrite <- (ind_length k). rewrite skipn_app, Nat.sub_diag, skipn_all. reflexivity. }
  rewrite Hsk, Hs. reflexivity.
Qed.

(* comments *)
(* leading / standalone / document-trailing comments: no TAB, no newline, not ending in a blank; the EMPTY
   comment is allowed (it is written as a bare `//`) *)
Definition comment_safe (c : str) : bool :=
  negb (memb c_tab c) && negb (memb c_nl c) && negb (last_is_blank c).
Definition trailing_safe (t : option str) : bool :=
  match t with Some c => comment_safe c | None => true end.

Lemma comment_safe_facts c : comment_safe c = true ->
  memb c_tab c = false /\ memb c_nl c = false /\ last_is_blank c = false.
Proof.
  unfold comment_safe. intro H. repeat (apply andb_true_iff in H; destruct H as [H ?H]).
  repeat split; apply negb_true_iff; assumption.
Qed.

Lemma comment_line_ok c : comment_safe c = true -> line_body_ok (comment_line c) /\ memb c_nl (comment_line c) = false.
Proof.
  intro H. destruct (comment_safe_facts c H) as (Ht & Hn & Hl).
  destruct c as [|x r].
  - split; [repeat split; try reflexivity; exists c_slash, [c_slash]; repeat split; reflexivity|reflexivity].
  - unfold comment_line. split; [repeat split|].
    + rewrite memb_app, Ht. reflexivity.
    + rewrite last_is_blank_app by discriminate. exact Hl.
    + exists c_slash, ([c_slash; c_sp] ++ x :: r). repeat split; reflexivity.
    + rewrite memb_app, Hn. reflexivity.
Qed.

(* the text after the value on an assignment line *)
Definition trail_ok (t : str) : Prop :=
  t = [] \/ t = [c_comma] \/ exists c, t = c_sp :: s_comment_pre ++ c /\ c <> [] /\ comment_safe c = true.

Lemma emit_trailing_ok tr : trailing_safe tr = true -> trail_ok (emit_trailing tr).
Proof.
  destruct tr as [[|x r]|]; cbn [trailing_safe emit_trailing]; intro H; [left; reflexivity| |left; reflexivity].
  right. right. exists (x :: r). split; [reflexivity|]. split; [discriminate|exact H].
Qed.

Lemma trail_facts t : trail_ok t ->
  memb c_tab t = false /\ memb c_nl t = false /\ follow_tok t = true /\ (t <> [] -> last_is_blank t = false) /\
  (forall p, scan_code t p false false = true).
Proof.
  intros [->|[->|(c & -> & Hne & H)]].
  - repeat split; reflexivity.
  - repeat split; reflexivity.
  - destruct (comment_safe_facts c H) as (Ht & Hn & Hl).
    repeat split; try reflexivity.
    + change (c_sp :: s_comment_pre ++ c) with ((c_sp :: s_comment_pre) ++ c). rewrite memb_app, Ht. reflexivity.
    + change (c_sp :: s_comment_pre ++ c) with ((c_sp :: s_comment_pre) ++ c). rewrite memb_app, Hn. reflexivity.
    + intros _. change (c_sp :: s_comment_pre ++ c) with ((c_sp :: s_comment_pre) ++ c). rewrite last_is_blank_app by exact Hne. exact Hl.
Qed.

(* keys: non-empty inert words; this contains every identifier word [A-Za-z_][A-Za-z0-9_]* except "vs" *)
Definition key_safe (k : str) : bool := negb (nilb k) && inert k 0.

Lemma key_safe_facts k : key_safe k = true -> k <> [] /\ inert k 0 = true.
Proof. unfold key_safe. intro H. apply andb_true_iff in H. destruct H as [H1 H2]. split; [destruct k; [discriminate|discriminate]|exact H2]. Qed.

Lemma scan_step_gen c r prev :
  N.eqb c c_dq = false -> N.eqb c c_slash = false -> N.eqb c 36 = false -> memb c [126; 124; 38; 35] = false ->
  N.eqb c c_plus = false -> N.eqb c c_dash = false -> N.eqb c 118 = false ->
  scan_code (c :: r) prev false false =
  (if N.eqb c c_colon && prefixb [c_colon] r && negb (N.eqb prev c_colon)
   then negb (N.eqb prev c_sp) && scan_code r c false false
   else if N.eqb c c_colon && N.eqb prev c_colon
        then (match r with x :: _ => negb (N.eqb x c_sp) | [] => true end) && scan_code r c false false
        else scan_code r c false false).
Proof. intros H1 H2 H0 H3 H4 H5 H6. cbn [scan_code]. cbn [andb]. rewrite H1, H2, H0, H3, H4, H5, H6. reflexivity. Qed.

Lemma scan_assign v prev : N.eqb prev c_sp = false -> N.eqb prev c_colon = false ->
  (match v with x :: _ => N.eqb x c_sp = false | [] => True end) ->
  scan_code (s_assign ++ v) prev false false = scan_code v c_colon false false.
Proof.
  intros H1 H2 H3. unfold s_assign. cbn [app].
  rewrite scan_step_gen by reflexivity. cbn [prefixb]. rewrite !N.eqb_refl, H2, H1. cbn [negb andb].
  rewrite scan_step_gen by reflexivity. rewrite !N.eqb_refl. cbn [negb]. rewrite andb_false_r. cbn [andb].
  destruct v as [|x v']; [reflexivity|]. rewrite H3. reflexivity.
Qed.

(* KEY::value[ // comment] *)
Lemma assign_body_ok key T t : key_safe key = true -> tok_ok T -> trail_ok t ->
  line_body_ok (key ++ s_assign ++ T ++ t).
Proof.
  intros Hk HT Ht. destruct (key_safe_facts key Hk) as (Hne & Hi).
  destruct (inert_line_facts key 0 Hi Hne) as (K1 & K2 & _ & _ & K5 & K6).
  destruct (trail_facts t Ht) as (T1 & T2 & T3 & T4 & T5).
  destruct HT as [Hn Htab Hnl Hlast Hhd Hscan].
  repeat split.
  - rewrite !memb_app, K1, Htab, T1. reflexivity.
  - destruct t as [|x t'].
    + rewrite app_nil_r, app_assoc, last_is_blank_app by exact Hn. exact Hlast.
    + rewrite !app_assoc, last_is_blank_app by discriminate. apply T4. discriminate.
  - destruct key as [|c b]; [congruence|]. exists c, (b ++ s_assign ++ T ++ t). split; [reflexivity|].
    destruct (hard_chr_facts c K6) as (_ & _ & _ & Hs & _ & _ & Hb & _). split; assumption.
  - rewrite scan_inert; [|exact Hi|reflexivity].
    destruct (hard_chr_facts _ K5) as (_ & _ & Hc & Hs & _).
    rewrite scan_assign; [|exact Hs|exact Hc|].
    + destruct (Hscan c_colon t eq_refl T3) as (p' & ->). apply T5.
    + destruct T as [|x T']; [congruence|]. cbn [app]. exact (proj1 Hhd).
Qed.

(* ---- VARIABLE tokens: `$` and a non-empty run of variable characters; an atom for the recogniser as for the lexer -------- *)
Lemma scan_dollar_gen c r prev :
  N.eqb c c_dq = false -> N.eqb c c_slash = false -> N.eqb c 36 = true ->
  (match r with x :: _ => var_chr x | [] => false end) = true ->
  scan_code (c :: r) prev false false = scan_code r c false true.
Proof. intros H1 H2 H3 H4. cbn [scan_code]. cbn [andb]. rewrite H1, H2, H3, H4. reflexivity. Qed.
Lemma scan_var_step x t p : var_chr x = true -> scan_code (x :: t) p false true = scan_code t x false true.
Proof. intro H. cbn [scan_code]. rewrite H. reflexivity. Qed.
Lemma scan_var_exit r p : follow_tok r = true -> scan_code r p false true = scan_code r p false false.
Proof.
  destruct r as [|c r]; [reflexivity|]. cbn [follow_tok]. intro H. apply andb_true_iff in H. destruct H as [_ H]. apply negb_true_iff in H.
  cbn [scan_code]. rewrite H. reflexivity.
Qed.
Lemma scan_var_run run : forall p r, forallb var_chr run = true -> follow_tok r = true ->
  scan_code (run ++ r) p false true = scan_code r (last run p) false false.
Proof.
  induction run as [|x run IH]; intros p r H Hf; [exact (scan_var_exit r p Hf)|].
  cbn [forallb] in H. apply andb_true_iff in H. destruct H as [Hx Hr].
  rewrite last_cons. cbn [app]. rewrite (scan_var_step x _ p Hx). exact (IH x r Hr Hf).
Qed.

Ltac not_const H c K := destruct (N.eqb_spec c K) as [->|_]; [vm_compute in H; discriminate H|].

Lemma var_chr_facts c : var_chr c = true -> N.eqb c c_tab = false /\ N.eqb c c_nl = false /\ N.eqb c c_sp = false.
Proof. intro H. repeat split; [not_const H c c_tab|not_const H c c_nl|not_const H c c_sp]; reflexivity. Qed.

Lemma var_run_facts run : forallb var_chr run = true ->
  memb c_tab run = false /\ memb c_nl run = false /\ (run <> [] -> last_is_blank run = false).
Proof.
  intro H. repeat split.
  - induction run as [|x run IH]; [reflexivity|]. cbn [forallb] in H. apply andb_true_iff in H. destruct H as [Hx Hr].
    destruct (var_chr_facts x Hx) as (T1 & _ & _). cbn [memb existsb]. rewrite N.eqb_sym, T1. exact (IH Hr).
  - induction run as [|x run IH]; [reflexivity|]. cbn [forallb] in H. apply andb_true_iff in H. destruct H as [Hx Hr].
    destruct (var_chr_facts x Hx) as (_ & T2 & _). cbn [memb existsb]. rewrite N.eqb_sym, T2. exact (IH Hr).
  - intro Hne. unfold last_is_blank. destruct (rev run) as [|c l] eqn:E.
    + reflexivity.
    + assert (Hin : In c run) by (apply in_rev; rewrite E; left; reflexivity).
      rewrite forallb_forall in H. destruct (var_chr_facts c (H c Hin)) as (T1 & _ & T3). rewrite T1, T3. reflexivity.
Qed.

Lemma tok_var s : match_variable s = true -> tok_ok s.
Proof.
  destruct s as [|c [|x run]]; try discriminate. cbn [match_variable]. intro H. apply andb_true_iff in H. destruct H as [Hc Hrun].
  apply N.eqb_eq in Hc. subst c. change (forallb varp_char (x :: run)) with (forallb var_chr (x :: run)) in Hrun.
  destruct (var_run_facts (x :: run) Hrun) as (R1 & R2 & R3).
  pose proof Hrun as Hx. cbn [forallb] in Hx. apply andb_true_iff in Hx. destruct Hx as [Hx _].
  constructor.
  - discriminate.
  - change (c_dollar :: x :: run) with ([c_dollar] ++ x :: run). rewrite memb_app, R1. reflexivity.
  - change (c_dollar :: x :: run) with ([c_dollar] ++ x :: run). rewrite memb_app, R2. reflexivity.
  - change (c_dollar :: x :: run) with ([c_dollar] ++ x :: run). rewrite last_is_blank_app by discriminate. apply R3. discriminate.
  - split; reflexivity.
  - intros prev r _ Hf. exists (last (x :: run) c_dollar). cbn [app].
    rewrite (scan_dollar_gen c_dollar (x :: run ++ r) prev eq_refl eq_refl eq_refl Hx).
    exact (scan_var_run (x :: run) c_dollar r Hrun Hf).
Qed.

(* ---- values on one line ------------------------------------------------------------------------------------ *)
(* numbers: any non-empty inert text (covers -?digits, digits.digits, 1e+20, 1.5e-07, inf, nan);
   strings: ANY string the emitter quotes, bare-emitted strings that are inert, and VARIABLE tokens $[A-Za-z0-9_:]+ *)
Definition scalar_safe (v : value) : bool :=
  match v with
  | VNull | VBool _ => true
  | VNum _ c => negb (nilb c) && inert c 0
  | VStr s => needs_quotes s || inert s 0 || match_variable s
  | _ => false
  end.

Lemma needs_quotes_nil : needs_quotes [] = true.
Proof. reflexivity. Qed.

Lemma tok_str_bare s : needs_quotes s = false -> inert s 0 || match_variable s = true -> tok_ok s.
Proof.
  intros Hq H. destruct (inert s 0) eqn:Hi; [|exact (tok_var s H)].
  apply tok_inert; [|exact Hi]. intros ->. rewrite needs_quotes_nil in Hq. discriminate.
Qed.

Lemma tok_scalar_plain v indent : scalar_safe v = true -> tok_ok (emit_value v indent).
Proof.
  destruct v as [|b|f c|s| | | | |]; cbn [scalar_safe]; intro H; try discriminate H.
  - cbn [emit_value]. apply tok_inert; [discriminate|reflexivity].
  - cbn [emit_value]. destruct b; (apply tok_inert; [discriminate|reflexivity]).
  - cbn [emit_value]. apply andb_true_iff in H. destruct H as [H1 H2]. apply tok_inert; [destruct c; [discriminate|discriminate]|exact H2].
  - cbn [emit_value]. unfold emit_str. rewrite orb_false_r. destruct (needs_quotes s) eqn:Hq; [apply tok_quote|].
    exact (tok_str_bare s Hq H).
Qed.

Lemma tok_scalar key v indent : scalar_safe v = true -> tok_ok (force_quote key v (emit_value v indent)).
Proof.
  intro H. destruct v as [|b|f c|s| | | | |]; try exact (tok_scalar_plain _ indent H).
  cbn [force_quote]. destruct (always_quote_key key && _); [apply tok_quote|exact (tok_scalar_plain _ indent H)].
Qed.

(* a character the scanner just steps over *)
Lemma scan_plain c r prev :
  N.eqb c c_dq = false -> N.eqb c c_slash = false -> N.eqb c 36 = false -> memb c [126; 124; 38; 35] = false ->
  N.eqb c c_plus = false -> N.eqb c c_dash = false -> N.eqb c 118 = false -> N.eqb c c_colon = false ->
  scan_code (c :: r) prev false false = scan_code r c false false.
Proof. intros H1 H2 H0 H3 H4 H5 H6 H7. rewrite scan_step_gen by assumption. rewrite H7. reflexivity. Qed.

Lemma memb_join c sep parts : N.eqb c sep = false -> Forall (fun p => memb c p = false) parts ->
  memb c (join [sep] parts) = false.
Proof.
  intros Hs H. induction H as [|x l Hx Hl IH]; [reflexivity|].
  destruct l as [|y l']; [exact Hx|].
  change (join [sep] (x :: y :: l')) with (x ++ [sep] ++ join [sep] (y :: l')).
  rewrite !memb_app, Hx, IH. cbn [memb existsb]. rewrite Hs. reflexivity.
Qed.

Lemma scan_join parts : Forall tok_ok parts -> forall prev r, word_chr prev = false ->
  exists p', scan_code (join [c_comma] parts ++ c_rbr :: r) prev false false = scan_code r p' false false.
Proof.
  intro H. induction H as [|x l Hx Hl IH]; intros prev r Hp.
  - exists c_rbr. cbn [join app]. apply scan_plain; reflexivity.
  - destruct l as [|y l'].
    + cbn [join]. destruct (tk_scan x Hx prev (c_rbr :: r) Hp eq_refl) as (p1 & ->).
      exists c_rbr. apply scan_plain; reflexivity.
    + change (join [c_comma] (x :: y :: l')) with (x ++ [c_comma] ++ join [c_comma] (y :: l')).
      rewrite <- !app_assoc. destruct (tk_scan x Hx prev ([c_comma] ++ join [c_comma] (y :: l') ++ c_rbr :: r) Hp eq_refl) as (p1 & ->).
      cbn [app]. rewrite scan_plain by reflexivity. apply IH. reflexivity.
Qed.

(* [a,b,...] on one line *)
Lemma tok_inline_list parts : Forall tok_ok parts -> tok_ok (s_lb ++ join [c_comma] parts ++ s_rb).
Proof.
  intro H. constructor.
  - discriminate.
  - rewrite !memb_app, memb_join; [reflexivity|reflexivity|]. eapply Forall_impl; [|exact H]. intros a Ha. exact (tk_tab a Ha).
  - rewrite !memb_app, memb_join; [reflexivity|reflexivity|]. eapply Forall_impl; [|exact H]. intros a Ha. exact (tk_nl a Ha).
  - rewrite app_assoc, last_is_blank_app by discriminate. reflexivity.
  - split; reflexivity.
  - intros prev r _ _. unfold s_lb, s_rb. cbn [app]. rewrite scan_plain by reflexivity.
    rewrite <- app_assoc. cbn [app]. apply scan_join; [exact H|reflexivity].
Qed.

Definition inline_parts (indent : nat) (items : list value) : list str :=
  flat_map (fun it => match it with
                      | VAbsent => []
                      | VMap pairs => if map_has_present pairs then [emit_value it indent] else []
                      | _ => [emit_value it indent]
                      end) items.

Lemma inline_parts_scalars indent items : forallb scalar_safe items = true ->
  inline_parts indent items = map (fun it => emit_value it indent) items /\
  Forall tok_ok (map (fun it => emit_value it indent) items).
Proof.
  induction items as [|it items IH]; intro H; [split; [reflexivity|constructor]|].
  cbn [forallb] in H. apply andb_true_iff in H. destruct H as [H1 H2]. destruct (IH H2) as [E F].
  split.
  - unfold inline_parts in *. cbn [flat_map map]. rewrite E. destruct it; try discriminate H1; reflexivity.
  - cbn [map]. constructor; [exact (tok_scalar_plain it indent H1)|exact F].
Qed.

(* ---- runs of physical lines ----------------------------------------------------------------------------------- *)
(* `steps ls k`: from any state from which depth k is reachable, the recogniser accepts the lines ls and is
   again in a state (outside a zone) from which depth k is reachable *)
Definition steps (ls : list str) (k : nat) : Prop :=
  forall p rest, (2 * k <= p + 2)%nat ->
  exists p', (2 * k <= p' + 2)%nat /\ body_ok (ls ++ rest) None p = body_ok rest None p'.

Lemma steps_nil k : steps [] k.
Proof. intros p rest H. exists p. split; [exact H|reflexivity]. Qed.

Lemma steps_app a b k : steps a k -> steps b k -> steps (a ++ b) k.
Proof.
  intros Ha Hb p rest H. destruct (Ha p (b ++ rest) H) as (p1 & H1 & E1). destruct (Hb p1 rest H1) as (p2 & H2 & E2).
  exists p2. split; [exact H2|]. rewrite <- app_assoc, E1. exact E2.
Qed.

Lemma steps_line k body : line_body_ok body -> steps [ind k ++ body] k.
Proof.
  intros Hb p rest H. exists (2 * k)%nat. split; [lia|]. cbn [app]. apply body_ok_line; assumption.
Qed.

Lemma steps_line_up k body : line_body_ok body -> steps [ind k ++ body] (S k).
Proof.
  intros Hb p rest H. exists (2 * k)%nat. split; [lia|]. cbn [app]. apply body_ok_line; [assumption|lia].
Qed.

Lemma steps_header k body ls : line_body_ok body -> steps ls (S k) -> steps ((ind k ++ body) :: ls) k.
Proof.
  intros Hb Hl p rest H. destruct (Hl (2 * k)%nat rest) as (p1 & H1 & E1); [lia|].
  exists p1. split; [lia|]. cbn [app]. rewrite body_ok_line by assumption. exact E1.
Qed.

Lemma steps_concat {A} (f : A -> list str) k xs : Forall (fun x => steps (f x) k) xs -> steps (flat_map f xs) k.
Proof. intro H. induction H as [|x l Hx Hl IH]; [apply steps_nil|]. cbn [flat_map]. apply steps_app; assumption. Qed.

(* physical lines of a list of emitted lines *)
Definition phys (ls : list str) : list str := flat_map (split_on c_nl) ls.
Lemma phys_app a b : phys (a ++ b) = phys a ++ phys b.
Proof. apply flat_map_app. Qed.
Lemma phys_one l : memb c_nl l = false -> phys [l] = [l].
Proof. intro H. unfold phys. cbn [flat_map]. rewrite split_on_no_sep by exact H. reflexivity. Qed.
Lemma phys_flat_map {A} (f : A -> list str) xs : phys (flat_map f xs) = flat_map (fun x => phys (f x)) xs.
Proof. induction xs as [|x xs IH]; [reflexivity|]. cbn [flat_map]. rewrite phys_app, IH. reflexivity. Qed.

Lemma split_on_app_gen c a : forall b, split_on c (a ++ c :: b) = split_on c a ++ split_on c b.
Proof.
  induction a as [|x a IH]; intro b.
  - cbn [app split_on]. rewrite N.eqb_refl. reflexivity.
  - cbn [app split_on]. destruct (N.eqb x c); [rewrite IH; reflexivity|].
    rewrite IH. pose proof (split_on_nonempty c a) as Hne. destruct (split_on c a) as [|h t]; [congruence|]. reflexivity.
Qed.

Lemma split_join_gen c ls : ls <> [] -> split_on c (join [c] ls) = flat_map (split_on c) ls.
Proof.
  induction ls as [|l ls IH]; intro Hne; [congruence|].
  destruct ls as [|l2 ls']; [cbn [join flat_map]; rewrite app_nil_r; reflexivity|].
  change (join [c] (l :: l2 :: ls')) with (l ++ [c] ++ join [c] (l2 :: ls')). cbn [app].
  rewrite split_on_app_gen, IH by discriminate. reflexivity.
Qed.

Lemma ind_no_nl k : memb c_nl (ind k) = false.
Proof. unfold ind. apply memb_repeat_ne. reflexivity. Qed.

(* join helpers *)
Lemma join_cons_app sep a x R : a ++ join sep (x :: R) = join sep ((a ++ x) :: R).
Proof. destruct R as [|y R]; [reflexivity|]. cbn [join]. rewrite <- app_assoc. reflexivity. Qed.
Lemma join_snoc_app sep y b M : forall x, join sep (x :: M ++ [y]) ++ b = join sep (x :: M ++ [y ++ b]).
Proof.
  induction M as [|m M IH]; intro x.
  - cbn [app join]. rewrite <- !app_assoc. reflexivity.
  - change (join sep (x :: (m :: M) ++ [y])) with (x ++ sep ++ join sep (m :: M ++ [y])).
    change (join sep (x :: (m :: M) ++ [y ++ b])) with (x ++ sep ++ join sep (m :: M ++ [y ++ b])).
    rewrite <- !app_assoc, IH. reflexivity.
Qed.
Lemma join_wrap sep a x M y b : a ++ join sep (x :: M ++ [y]) ++ b = join sep ((a ++ x) :: M ++ [y ++ b]).
Proof. rewrite join_snoc_app, join_cons_app. reflexivity. Qed.

(* ---- multi-line lists ------------------------------------------------------------------------------------------ *)
Definition ml_lines (indent n : nat) : list str -> nat -> list str :=
  fix lines (ps : list str) (i : nat) : list str :=
    match ps with
    | [] => []
    | p :: ps' => (ind (S indent) ++ p ++ (if Nat.ltb (S i) n then [c_comma] else [])) :: lines ps' (S i)
    end.

Definition ml_parts (indent : nat) (items : list value) : list str :=
  flat_map (fun it =>
    match it with
    | VAbsent => []
    | VMap pairs =>
        let ps := flat_map (fun p => if is_absent (snd p) then []
                                     else [fst p ++ s_assign ++ force_quote (fst p) (snd p) (emit_value (snd p) (S indent))]) pairs in
        match ps with [] => [] | _ => [join [c_comma] ps] end
    | _ => [emit_value it (S indent)]
    end) items.

Lemma emit_value_list it items indent :
  emit_value (VList (it :: items)) indent =
  if needs_multiline (it :: items) then
    let parts := ml_parts indent (it :: items) in
    match parts with
    | [] => s_empty_list
    | _ => join [c_nl] (s_lb :: ml_lines indent (length parts) parts 0 ++ [ind indent ++ s_rb])
    end
  else s_lb ++ join [c_comma] (inline_parts indent (it :: items)) ++ s_rb.
Proof. reflexivity. Qed.

Lemma ml_lines_spec indent n ps : forall i,
  Forall2 (fun p l => exists sfx, trail_ok sfx /\ l = ind (S indent) ++ p ++ sfx) ps (ml_lines indent n ps i).
Proof.
  induction ps as [|p ps IH]; intro i; [constructor|]. cbn [ml_lines]. constructor; [|apply IH].
  destruct (Nat.ltb (S i) n); eexists; (split; [|reflexivity]); [right; left|left]; reflexivity.
Qed.

(* <value>[,| // comment] at the start of a line *)
Lemma item_line_ok p t : tok_ok p -> trail_ok t -> line_body_ok (p ++ t) /\ memb c_nl (p ++ t) = false.
Proof.
  intros [Hn Htab Hnl Hlast Hhd Hscan] Ht.
  destruct (trail_facts t Ht) as (T1 & T2 & T3 & T4 & T5).
  split; [repeat split|].
  - rewrite memb_app, Htab, T1. reflexivity.
  - destruct t as [|x t']; [rewrite app_nil_r; exact Hlast|]. rewrite last_is_blank_app by discriminate. apply T4. discriminate.
  - destruct p as [|c b]; [congruence|]. exists c, (b ++ t). split; [reflexivity|exact Hhd].
  - destruct (Hscan 0 t eq_refl T3) as (p' & ->). apply T5.
  - rewrite memb_app, Hnl, T2. reflexivity.
Qed.

Lemma close_line_ok t : trail_ok t -> line_body_ok (s_rb ++ t) /\ memb c_nl (s_rb ++ t) = false.
Proof. intro Ht. apply item_line_ok; [apply tok_inert; [discriminate|reflexivity]|exact Ht]. Qed.

Lemma key_no_nl key : key_safe key = true -> memb c_nl key = false.
Proof. intro Hk. destruct (key_safe_facts key Hk) as (Hne & Hi). exact (proj1 (proj2 (inert_line_facts key 0 Hi Hne))). Qed.

(* what may stand before a value on its line: nothing (list item) or KEY:: *)
Definition pre_ok (a : str) : Prop := a = [] \/ exists key, key_safe key = true /\ a = key ++ s_assign.

Lemma pre_line a T t : pre_ok a -> tok_ok T -> trail_ok t ->
  line_body_ok (a ++ T ++ t) /\ memb c_nl (a ++ T ++ t) = false.
Proof.
  intros [->|(key & Hk & ->)] HT Ht.
  - exact (item_line_ok T t HT Ht).
  - split; [rewrite <- app_assoc; apply assign_body_ok; assumption|].
    rewrite !memb_app, (key_no_nl key Hk), (tk_nl T HT), (proj1 (proj2 (trail_facts t Ht))). reflexivity.
Qed.

(* the text X of a value written at depth k: whatever stands before and after it on its (first / last) line,
   the physical lines are accepted.  One line, or the multi-line list layout, nested to any depth. *)
Definition vtext (k : nat) (X : str) : Prop :=
  forall a t, pre_ok a -> trail_ok t -> steps (split_on c_nl (ind k ++ a ++ X ++ t)) k.

Lemma vtext_tok k X : tok_ok X -> vtext k X.
Proof.
  intros HX a t Ha Ht. destruct (pre_line a X t Ha HX Ht) as [L1 L2].
  rewrite split_on_no_sep by (rewrite memb_app, ind_no_nl, L2; reflexivity). apply steps_line. exact L1.
Qed.

Lemma tok_lb : tok_ok s_lb.
Proof. apply tok_inert; [discriminate|reflexivity]. Qed.

Lemma vtext_ml k n parts : Forall (vtext (S k)) parts ->
  vtext k (join [c_nl] (s_lb :: ml_lines k n parts 0 ++ [ind k ++ s_rb])).
Proof.
  intros HF a t Ha Ht.
  pose proof (join_wrap [c_nl] (ind k ++ a) s_lb (ml_lines k n parts 0) (ind k ++ s_rb) t) as E.
  rewrite <- !app_assoc in E. refine (eq_ind_r (fun z => steps (split_on c_nl z) k) _ E). clear E.
  rewrite split_join_gen by discriminate. cbn [flat_map]. rewrite flat_map_app. cbn [flat_map]. rewrite app_nil_r.
  destruct (pre_line a s_lb [] Ha tok_lb (or_introl eq_refl)) as [A1 A2]. rewrite app_nil_r in A1, A2.
  destruct (close_line_ok t Ht) as [C1 C2].
  rewrite (split_on_no_sep c_nl (ind k ++ a ++ s_lb)) by (rewrite memb_app, ind_no_nl, A2; reflexivity).
  rewrite (split_on_no_sep c_nl (ind k ++ s_rb ++ t)) by (rewrite memb_app, ind_no_nl, C2; reflexivity).
  cbn [app]. apply steps_header; [exact A1|]. apply steps_app; [|apply steps_line_up; exact C1].
  apply steps_concat.
  pose proof (ml_lines_spec k n parts 0) as S2. revert HF.
  induction S2 as [|p l ps ls (sfx & Hs & ->) _ IH]; intro HF; [constructor|].
  inversion HF as [|? ? Hp Hps]; subst. constructor; [|exact (IH Hps)].
  exact (Hp [] sfx (or_introl eq_refl) Hs).
Qed.

(* nested induction principle for values (through lists) *)
Section ValueInd.
Variable P : value -> Prop.
Hypothesis HL : forall items, Forall P items -> P (VList items).
Hypothesis HO : forall v, (match v with VList _ => False | _ => True end) -> P v.
Fixpoint value_ind2 (v : value) : P v :=
  match v with
  | VList items =>
      HL items ((fix go (l : list value) : Forall P l :=
                   match l with [] => Forall_nil _ | x :: r => Forall_cons _ (value_ind2 x) (go r) end) items)
  | VNull => HO VNull I
  | VBool b => HO (VBool b) I
  | VNum f c => HO (VNum f c) I
  | VStr s => HO (VStr s) I
  | VMap pairs => HO (VMap pairs) I
  | VHolo raw => HO (VHolo raw) I
  | VZone c t m => HO (VZone c t m) I
  | VAbsent => HO VAbsent I
  end.
End ValueInd.

(* values of the theorem: safe scalars and lists of such values, nested to any depth *)
Fixpoint value_safe (v : value) : bool :=
  match v with
  | VList items => forallb value_safe items
  | _ => scalar_safe v
  end.

Lemma ml_parts_plain k items : forallb value_safe items = true ->
  ml_parts k items = map (fun it => emit_value it (S k)) items.
Proof.
  induction items as [|it items IH]; intro H; [reflexivity|].
  cbn [forallb] in H. apply andb_true_iff in H. destruct H as [H1 H2].
  unfold ml_parts in *. cbn [flat_map map]. rewrite (IH H2).
  destruct it; cbn [value_safe scalar_safe] in H1; try discriminate H1; reflexivity.
Qed.

Lemma no_trigger_scalars items : existsb ml_trigger items = false -> forallb value_safe items = true ->
  forallb scalar_safe items = true.
Proof.
  induction items as [|it items IH]; intros Ht H; [reflexivity|].
  cbn [existsb] in Ht. apply orb_false_iff in Ht. destruct Ht as [Ht1 Ht2].
  cbn [forallb] in H |- *. apply andb_true_iff in H. destruct H as [H1 H2]. rewrite (IH Ht2 H2), andb_true_r.
  destruct it; try exact H1. discriminate Ht1.
Qed.

Lemma vtext_value_plain : forall v, value_safe v = true -> forall k, vtext k (emit_value v k).
Proof.
  apply (value_ind2 (fun v => value_safe v = true -> forall k, vtext k (emit_value v k))).
  - intros items IH H k. cbn [value_safe] in H. destruct items as [|it items].
    + apply vtext_tok. cbn [emit_value]. apply tok_inert; [discriminate|reflexivity].
    + rewrite emit_value_list. destruct (needs_multiline (it :: items)) eqn:Hm.
      * cbv zeta. rewrite (ml_parts_plain k _ H). cbn [map]. rewrite <- (map_cons (fun it0 => emit_value it0 (S k)) it items).
        apply vtext_ml. rewrite Forall_forall in IH |- *. intros X HX. apply in_map_iff in HX. destruct HX as (v & <- & Hin).
        rewrite forallb_forall in H. exact (IH v Hin (H v Hin) (S k)).
      * unfold needs_multiline in Hm. apply orb_false_iff in Hm. destruct Hm as [Hm1 _].
        apply vtext_tok. destruct (inline_parts_scalars k _ (no_trigger_scalars _ Hm1 H)) as [E F].
        rewrite E. apply tok_inline_list. exact F.
  - intros v Hv H k. destruct v; try (exfalso; exact Hv); apply vtext_tok; apply tok_scalar_plain; exact H.
Qed.

Lemma vtext_value key v k : value_safe v = true -> vtext k (force_quote key v (emit_value v k)).
Proof.
  intro H. destruct v; try exact (vtext_value_plain _ H k).
  apply vtext_tok. apply tok_scalar. exact H.
Qed.

(* KEY::<value text>[ // comment] at depth k, in either layout *)
Lemma assign_text_steps key k X t : key_safe key = true -> trail_ok t -> vtext k X ->
  steps (phys [ind k ++ key ++ s_assign ++ X ++ t]) k.
Proof.
  intros Hk Ht HX. unfold phys. cbn [flat_map]. rewrite app_nil_r.
  specialize (HX (key ++ s_assign) t (or_intror (ex_intro _ key (conj Hk eq_refl))) Ht).
  rewrite <- app_assoc in HX. exact HX.
Qed.

(* ---- comment lines ---------------------------------------------------------------------------------------------- *)
Lemma comment_line_steps c k : comment_safe c = true -> steps (phys [ind k ++ comment_line c]) k.
Proof.
  intro H. destruct (comment_line_ok c H) as [L1 L2]. rewrite phys_one.
  - apply steps_line. exact L1.
  - rewrite memb_app, ind_no_nl, L2. reflexivity.
Qed.

Lemma leading_steps cs k : forallb comment_safe cs = true -> steps (phys (emit_leading cs k)) k.
Proof.
  induction cs as [|c cs IH]; intro H; [apply steps_nil|].
  cbn [forallb] in H. apply andb_true_iff in H. destruct H as [H1 H2].
  unfold emit_leading. cbn [map]. change (?l :: ?ls) with ([l] ++ ls). rewrite phys_app.
  apply steps_app; [apply comment_line_steps; exact H1|apply IH; exact H2].
Qed.

(* ---- literal zones ----------------------------------------------------------------------------------------------- *)
Definition closes (n : nat) (l : str) : bool :=
  match fence_of l with Some (m, tail) => (m =? n)%nat && forallb (N.eqb c_sp) tail | None => false end.
Definition marker_ok (m : str) : bool := (3 <=? length m)%nat && forallb (N.eqb c_bt) m.
Definition tag_safe (tag : option str) : bool :=
  let t := tag_str tag in
  negb (memb c_tab t) && negb (memb c_nl t) && negb (last_is_blank t) && negb (prefixb [c_bt] t).
Definition zone_content_lines (content : str) : list str :=
  match content with [] => [] | _ => split_on c_nl content end.
(* fence of >= 3 backticks, tidy info tag, and no content line that is itself the closing fence *)
Definition zone_safe (content : str) (tag : option str) (marker : str) : bool :=
  marker_ok marker && tag_safe tag && forallb (fun l => negb (closes (length marker) l)) (zone_content_lines content).

Lemma body_ok_some l r n p :
  body_ok (l :: r) (Some n) p =
  match fence_of l with
  | Some (m, tail) => if (m =? n)%nat && forallb (N.eqb c_sp) tail then body_ok r None p else body_ok r (Some n) p
  | None => body_ok r (Some n) p
  end.
Proof. reflexivity. Qed.

Lemma body_ok_in_zone n CL : forall close rest p,
  forallb (fun l => negb (closes n l)) CL = true -> closes n close = true ->
  body_ok (CL ++ close :: rest) (Some n) p = body_ok rest None p.
Proof.
  induction CL as [|l CL IH]; intros close rest p H Hc.
  - cbn [app]. rewrite body_ok_some. unfold closes in Hc. destruct (fence_of close) as [[m tail]|]; [|discriminate]. rewrite Hc. reflexivity.
  - cbn [forallb] in H. apply andb_true_iff in H. destruct H as [H1 H2]. apply negb_true_iff in H1.
    cbn [app]. rewrite body_ok_some. unfold closes in H1. destruct (fence_of l) as [[m tail]|]; [rewrite H1|]; apply IH; assumption.
Qed.

Lemma takeb_all_app (f : N -> bool) m t : forallb f m = true -> (match t with x :: _ => f x = false | [] => True end) ->
  takeb f (m ++ t) = m /\ dropb f (m ++ t) = t.
Proof.
  intros Hm Ht. induction m as [|c m IH].
  - cbn [app]. destruct t as [|x t']; [split; reflexivity|]. cbn [takeb dropb]. rewrite Ht. split; reflexivity.
  - cbn [forallb] in Hm. apply andb_true_iff in Hm. destruct Hm as [Hc Hm]. destruct (IH Hm) as [I1 I2].
    cbn [app takeb dropb]. rewrite Hc, I1, I2. split; reflexivity.
Qed.

Lemma all_bt_facts m : forallb (N.eqb c_bt) m = true -> forall x, N.eqb c_bt x = false -> memb x m = false.
Proof.
  intros Hm x Hx. induction m as [|c m IH]; [reflexivity|]. cbn [forallb] in Hm. apply andb_true_iff in Hm. destruct Hm as [Hc Hm].
  apply N.eqb_eq in Hc. subst c. cbn [memb existsb]. rewrite N.eqb_sym, Hx. exact (IH Hm).
Qed.
Lemma all_bt_last m : forallb (N.eqb c_bt) m = true -> last_is_blank m = false.
Proof.
  intro Hm. unfold last_is_blank. destruct (rev m) as [|c r] eqn:E; [reflexivity|].
  assert (Hin : In c m) by (apply in_rev; rewrite E; left; reflexivity).
  rewrite forallb_forall in Hm. specialize (Hm c Hin). apply N.eqb_eq in Hm. subst c. reflexivity.
Qed.

Lemma marker_shape m : marker_ok m = true -> exists m', m = c_bt :: m' /\ forallb (N.eqb c_bt) m = true /\ (3 <=? length m)%nat = true.
Proof.
  unfold marker_ok. intro H. apply andb_true_iff in H. destruct H as [H1 H2].
  destruct m as [|c m']; [discriminate H1|]. pose proof H2 as H3. cbn [forallb] in H3. apply andb_true_iff in H3. destruct H3 as [Hc _].
  apply N.eqb_eq in Hc. subst c. exists m'. repeat split; assumption.
Qed.

Lemma fence_of_marker k m t : marker_ok m = true -> prefixb [c_bt] t = false ->
  fence_of (ind k ++ m ++ t) = Some (length m, t) /\ leading_spaces (ind k ++ m ++ t) = (2 * k)%nat.
Proof.
  intros Hm Ht. destruct (marker_shape m Hm) as (m' & E & Hall & Hlen).
  assert (Ht' : match t with x :: _ => N.eqb c_bt x = false | [] => True end).
  { destruct t as [|x t']; [exact I|]. cbn [prefixb] in Ht. rewrite andb_true_r in Ht. exact Ht. }
  destruct (takeb_all_app (N.eqb c_bt) m t Hall Ht') as [T1 T2].
  split.
  - unfold fence_of, ind. rewrite E. cbn [app]. rewrite dropb_ind by reflexivity.
    change (c_bt :: m' ++ t) with ((c_bt :: m') ++ t). rewrite <- E, T1, T2, Hlen. reflexivity.
  - unfold leading_spaces, ind. rewrite E. cbn [app]. rewrite takeb_ind by reflexivity. apply repeat_length.
Qed.

Lemma zone_steps k content tag marker : zone_safe content tag marker = true ->
  steps (phys (zone_lines k content tag marker)) k.
Proof.
  unfold zone_safe. intro H. apply andb_true_iff in H. destruct H as [H Hcl]. apply andb_true_iff in H. destruct H as [Hm Htag].
  unfold tag_safe in Htag. cbv zeta in Htag.
  apply andb_true_iff in Htag. destruct Htag as [Htag T4]. apply andb_true_iff in Htag. destruct Htag as [Htag T3].
  apply andb_true_iff in Htag. destruct Htag as [T1 T2].
  apply negb_true_iff in T1, T2, T3, T4.
  destruct (marker_shape marker Hm) as (m' & E & Hall & Hlen).
  destruct (fence_of_marker k marker (tag_str tag) Hm T4) as [F1 F2].
  destruct (fence_of_marker k marker [] Hm eq_refl) as [G1 _]. rewrite app_nil_r in G1.
  assert (Hmt : memb c_tab marker = false) by (apply all_bt_facts; [exact Hall|reflexivity]).
  assert (Hmn : memb c_nl marker = false) by (apply all_bt_facts; [exact Hall|reflexivity]).
  (* physical lines *)
  assert (Ephys : phys (zone_lines k content tag marker) =
                  (ind k ++ marker ++ tag_str tag) :: zone_content_lines content ++ [ind k ++ marker]).
  { unfold zone_lines. rewrite !phys_app. rewrite !phys_one.
    - cbn [app]. f_equal. f_equal. unfold zone_content_lines. destruct content; [reflexivity|]. unfold phys. cbn [flat_map]. apply app_nil_r.
    - rewrite memb_app, ind_no_nl, Hmn. reflexivity.
    - rewrite !memb_app, ind_no_nl, Hmn, T2. reflexivity. }
  rewrite Ephys. intros p rest Hp. exists p. split; [exact Hp|].
  cbn [app]. rewrite body_ok_none. cbv zeta. rewrite F2, F1.
  assert (Htab : memb c_tab (ind k ++ marker ++ tag_str tag) = false).
  { rewrite !memb_app, Hmt, T1, orb_false_r. apply memb_repeat_ne. reflexivity. }
  assert (Hlast : last_is_blank (ind k ++ marker ++ tag_str tag) = false).
  { rewrite last_is_blank_app by (rewrite E; discriminate).
    destruct (tag_str tag) as [|x t'] eqn:Et; [rewrite app_nil_r; apply all_bt_last; exact Hall|].
    rewrite last_is_blank_app by discriminate. exact T3. }
  rewrite Htab, Hlast, even_2k, (proj2 (Nat.leb_le _ _) Hp). cbn [negb andb].
  rewrite <- app_assoc. cbn [app]. apply body_ok_in_zone; [exact Hcl|].
  unfold closes. rewrite G1, Nat.eqb_refl. reflexivity.
Qed.

(* ---- 3. nodes ------------------------------------------------------------------------------------------------------ *)
Lemma scan_lone_colon prev : scan_code [c_colon] prev false false = true.
Proof.
  rewrite scan_step_gen by reflexivity. cbn [prefixb]. rewrite andb_false_r. cbn [andb].
  destruct (N.eqb c_colon c_colon && N.eqb prev c_colon); reflexivity.
Qed.

(* KEY:  (block header, META header) *)
Lemma colon_line_ok K : key_safe K = true -> line_body_ok (K ++ [c_colon]) /\ memb c_nl (K ++ [c_colon]) = false.
Proof.
  intro Hk. destruct (key_safe_facts K Hk) as (Hne & Hi).
  destruct (inert_line_facts K 0 Hi Hne) as (K1 & K2 & _ & _ & K5 & K6).
  split; [repeat split|].
  - rewrite memb_app, K1. reflexivity.
  - rewrite last_is_blank_app by discriminate. reflexivity.
  - destruct K as [|c b]; [congruence|]. exists c, (b ++ [c_colon]). split; [reflexivity|].
    destruct (hard_chr_facts c K6) as (_ & _ & _ & Hs & _ & _ & Hb & _). split; assumption.
  - rewrite scan_inert; [|exact Hi|reflexivity]. apply scan_lone_colon.
  - rewrite memb_app, K2. reflexivity.
Qed.

(* KEY::  (the line before a literal zone); the key may be empty *)
Lemma zone_head_ok key : nilb key || key_safe key = true -> line_body_ok (key ++ s_assign) /\ memb c_nl (key ++ s_assign) = false.
Proof.
  intro H. destruct key as [|c b]; [split; [repeat split; try reflexivity; exists c_colon, [c_colon]; repeat split; reflexivity|reflexivity]|].
  cbn [nilb orb] in H. destruct (key_safe_facts _ H) as (Hne & Hi).
  destruct (inert_line_facts _ 0 Hi Hne) as (K1 & K2 & _ & _ & K5 & K6).
  split; [repeat split|].
  - rewrite memb_app, K1. reflexivity.
  - rewrite last_is_blank_app by discriminate. reflexivity.
  - exists c, (b ++ s_assign). split; [reflexivity|].
    destruct (hard_chr_facts c K6) as (_ & _ & _ & Hs & _ & _ & Hb & _). split; assumption.
  - rewrite <- (app_nil_r s_assign). rewrite scan_inert; [|exact Hi|reflexivity].
    destruct (hard_chr_facts _ K5) as (_ & _ & Hc & Hs & _).
    rewrite scan_assign; [reflexivity|exact Hs|exact Hc|exact I].
  - rewrite memb_app, K2. reflexivity.
Qed.

Definition block_head (key : str) (tgt : option str) : str :=
  key ++ match truthy tgt with Some t => [c_lbr; 8594; 167] ++ t ++ [c_rbr] | None => [] end.
Definition section_name (key : str) (annot : option str) : str :=
  key ++ match truthy annot with Some a => [c_lbr] ++ a ++ [c_rbr] | None => [] end.

Definition safe_child (safe : node -> bool) (c : node) : bool :=
  match c with NAssign [] (VZone zc zt zm) _ _ => zone_safe zc zt zm | _ => safe c end.

(* the class of nodes of the theorem: every construct of the AST; values are scalars and lists nested to any
   depth (value_safe) -- not covered: inline maps and holographic values *)
Fixpoint safe_node (n : node) : bool :=
  match n with
  | NAssign key v lead tr =>
      is_absent v ||
      (forallb comment_safe lead &&
       match v with
       | VZone c t m => (nilb key || key_safe key) && zone_safe c t m
       | _ => key_safe key && value_safe v && trailing_safe tr
       end)
  | NComment t => comment_safe t
  | NBlock key tgt ch lead =>
      forallb comment_safe lead && key_safe (block_head key tgt) &&
      forallb (fun c => match c with NAssign [] (VZone zc zt zm) _ _ => zone_safe zc zt zm | _ => safe_node c end) ch
  | NSection id key annot ch lead =>
      forallb comment_safe lead && key_safe (167 :: id) && key_safe (section_name key annot) &&
      forallb safe_node ch
  end.

Definition block_child_lines (k : nat) (ch : node) : list str :=
  match ch with
  | NAssign [] (VZone content tag marker) _ _ => zone_lines (S k) content tag marker
  | _ => emit_node_lines ch (S k)
  end.

Lemma emit_block_eq key tgt ch lead k :
  emit_node_lines (NBlock key tgt ch lead) k =
  emit_leading lead k ++ [ind k ++ block_head key tgt ++ [c_colon]] ++ flat_map (block_child_lines k) ch.
Proof. unfold block_head. cbn [emit_node_lines]. rewrite <- app_assoc. reflexivity. Qed.

Lemma emit_section_eq id key annot ch lead k :
  emit_node_lines (NSection id key annot ch lead) k =
  emit_leading lead k ++ [ind k ++ (167 :: id) ++ s_assign ++ section_name key annot ++ []] ++
  flat_map (fun c => emit_node_lines c (S k)) ch.
Proof. unfold section_name. cbn [emit_node_lines]. rewrite app_nil_r. reflexivity. Qed.

Definition P_strict (n : node) : Prop := safe_node n = true -> forall k, steps (phys (emit_node_lines n k)) k.

Lemma assign_steps key v lead tr k : safe_node (NAssign key v lead tr) = true ->
  steps (phys (emit_node_lines (NAssign key v lead tr) k)) k.
Proof.
  cbn [safe_node emit_node_lines]. intro H. destruct (is_absent v) eqn:Ha; [apply steps_nil|].
  cbn [orb] in H. apply andb_true_iff in H. destruct H as [Hl H].
  unfold emit_assignment_lines. rewrite phys_app. apply steps_app; [apply leading_steps; exact Hl|].
  assert (Hgen : key_safe key && value_safe v && trailing_safe tr = true ->
                 steps (phys [ind k ++ key ++ s_assign ++ force_quote key v (emit_value v k) ++ emit_trailing tr]) k).
  { intro G. apply andb_true_iff in G. destruct G as [G G3]. apply andb_true_iff in G. destruct G as [G1 G2].
    apply assign_text_steps; [exact G1|apply emit_trailing_ok; exact G3|apply vtext_value; exact G2]. }
  destruct v; try exact (Hgen H).
  apply andb_true_iff in H. destruct H as [H1 H2].
  destruct (zone_head_ok key H1) as [Z1 Z2].
  change (?l :: ?ls) with ([l] ++ ls). rewrite phys_app, phys_one by (rewrite memb_app, ind_no_nl, Z2; reflexivity).
  apply steps_app; [apply steps_line; exact Z1|apply zone_steps; exact H2].
Qed.

Theorem all_P_strict : forall n, P_strict n.
Proof.
  apply node_ind2; unfold P_strict.
  - intros key v lead tr H k. apply assign_steps. exact H.
  - intros key tgt ch lead IH H k. cbn [safe_node] in H.
    apply andb_true_iff in H. destruct H as [H Hch]. apply andb_true_iff in H. destruct H as [Hl Hk].
    rewrite emit_block_eq, !phys_app. apply steps_app; [apply leading_steps; exact Hl|].
    destruct (colon_line_ok _ Hk) as [C1 C2].
    rewrite phys_one by (rewrite memb_app, ind_no_nl, C2; reflexivity). cbn [app].
    apply steps_header; [exact C1|]. rewrite phys_flat_map. apply steps_concat.
    rewrite Forall_forall in IH |- *. intros c Hin. rewrite forallb_forall in Hch. specialize (Hch c Hin). specialize (IH c Hin).
    destruct c as [ck cv cl ct| | |]; try exact (IH Hch (S k)).
    destruct ck as [|c0 ck']; [|exact (IH Hch (S k))].
    destruct cv; try exact (IH Hch (S k)).
    cbn [block_child_lines]. apply zone_steps. exact Hch.
  - intros id key annot ch lead IH H k. cbn [safe_node] in H.
    apply andb_true_iff in H. destruct H as [H Hch]. apply andb_true_iff in H. destruct H as [H Hn]. apply andb_true_iff in H. destruct H as [Hl Hid].
    rewrite emit_section_eq, !phys_app. apply steps_app; [apply leading_steps; exact Hl|].
    assert (Hb : line_body_ok ((167 :: id) ++ s_assign ++ section_name key annot ++ [])).
    { apply assign_body_ok; [exact Hid| |left; reflexivity]. destruct (key_safe_facts _ Hn) as [N1 N2]. apply tok_inert; assumption. }
    rewrite phys_one.
    + cbn [app]. apply steps_header; [exact Hb|]. rewrite phys_flat_map. apply steps_concat.
      rewrite Forall_forall in IH |- *. intros c Hin. rewrite forallb_forall in Hch. exact (IH c Hin (Hch c Hin) (S k)).
    + rewrite !memb_app, ind_no_nl, (key_no_nl _ Hid), (key_no_nl _ Hn). reflexivity.
  - intros t H k. cbn [safe_node emit_node_lines] in *. apply comment_line_steps. exact H.
Qed.

(* ---- 4. document frame ------------------------------------------------------------------------------------------------ *)
Lemma split_emit sp d : split_on c_nl (emit sp d) = phys (emit_lines sp d) ++ [[]].
Proof.
  unfold emit. rewrite split_on_app_gen. cbn [split_on]. f_equal. apply split_join_gen.
  unfold emit_lines. intro E. apply (f_equal (@length str)) in E. rewrite !app_length in E. cbn [length] in E. lia.
Qed.

Definition name_safe (nm : str) : bool :=
  match nm with x :: t => (is_alpha x || N.eqb x c_us) && forallb word_chr t | [] => false end &&
  negb (str_eqb nm (lit "END")).

Lemma word_chr_not_nl x : word_chr x = true -> N.eqb c_nl x = false.
Proof. intro H. destruct (N.eqb_spec c_nl x) as [<-|_]; [vm_compute in H; discriminate|reflexivity]. Qed.

Lemma name_safe_facts nm : name_safe nm = true ->
  env_name_ok (s_env ++ nm ++ s_env) = true /\ str_eqb (s_env ++ nm ++ s_env) (lit "===END===") = false /\
  memb c_nl (s_env ++ nm ++ s_env) = false.
Proof.
  unfold name_safe. intro H. apply andb_true_iff in H. destruct H as [H1 H2].
  destruct nm as [|x t]; [discriminate|]. pose proof H1 as H1'. apply andb_true_iff in H1'. destruct H1' as [Hx Ht].
  repeat split.
  - unfold env_name_ok. change (prefixb (lit "===") (s_env ++ (x :: t) ++ s_env)) with true.
    change (skipn 3 (s_env ++ (x :: t) ++ s_env)) with ((x :: t) ++ s_env). rewrite rev_app_distr.
    change (rev s_env) with [c_eq; c_eq; c_eq]. cbn [app]. rewrite rev_involutive, !N.eqb_refl. exact H1.
  - destruct (str_eqb (s_env ++ (x :: t) ++ s_env) (lit "===END===")) eqn:E; [|reflexivity].
    apply str_eqb_eq in E. change (lit "===END===") with (s_env ++ lit "END" ++ s_env) in E.
    apply app_inv_head in E. apply app_inv_tail in E. rewrite E in H2. discriminate H2.
  - rewrite !memb_app. change (memb c_nl s_env) with false. cbn [orb]. rewrite orb_false_r.
    assert (Hw : forallb word_chr (x :: t) = true).
    { cbn [forallb]. rewrite Ht, andb_true_r. unfold word_chr, is_alnum. apply orb_true_iff in Hx. destruct Hx as [-> | ->]; [reflexivity|apply orb_true_r]. }
    clear -Hw. induction (x :: t) as [|y l IH]; [reflexivity|]. cbn [forallb] in Hw. apply andb_true_iff in Hw. destruct Hw as [Hy Hl].
    cbn [memb existsb]. rewrite (word_chr_not_nl y Hy). exact (IH Hl).
Qed.

(* META *)
Definition meta_pair_safe (p : str * value) : bool := is_absent (snd p) || (key_safe (fst p) && value_safe (snd p)).
Definition meta_safe (m : list (str * metaval)) : bool :=
  forallb (fun kv => match snd kv with
                     | MV v => is_absent v || (key_safe (fst kv) && value_safe v)
                     | MD pairs => key_safe (fst kv) && forallb meta_pair_safe pairs
                     end) m.

Lemma meta_value_steps key v k : key_safe key = true -> value_safe v = true ->
  steps (phys [ind k ++ key ++ s_assign ++ emit_value v k]) k.
Proof.
  intros Hk Hv. rewrite <- (app_nil_r (emit_value v k)).
  apply assign_text_steps; [exact Hk|left; reflexivity|apply vtext_value_plain; exact Hv].
Qed.

Lemma meta_lines_steps m : meta_safe m = true -> steps (phys (emit_meta_lines m)) 1.
Proof.
  intro H. unfold emit_meta_lines. rewrite phys_flat_map. apply steps_concat.
  unfold meta_safe in H. rewrite forallb_forall in H. rewrite Forall_forall. intros [key mv] Hin. specialize (H _ Hin). cbn [fst snd] in *.
  destruct mv as [v|pairs].
  - destruct (is_absent v) eqn:Ha; [apply steps_nil|]. cbn [orb] in H. apply andb_true_iff in H. destruct H as [H1 H2].
    apply meta_value_steps; assumption.
  - apply andb_true_iff in H. destruct H as [Hk Hp]. destruct (colon_line_ok key Hk) as [C1 C2].
    change (?l :: ?ls) with ([l] ++ ls). rewrite phys_app, phys_one by (rewrite memb_app, ind_no_nl, C2; reflexivity).
    cbn [app]. apply steps_header; [exact C1|]. rewrite phys_flat_map. apply steps_concat.
    rewrite forallb_forall in Hp. rewrite Forall_forall. intros [pk pv] Hin2. specialize (Hp _ Hin2). unfold meta_pair_safe in Hp. cbn [fst snd] in *.
    destruct (is_absent pv) eqn:Ha; [apply steps_nil|]. cbn [orb] in Hp. apply andb_true_iff in Hp. destruct Hp as [H1 H2].
    apply meta_value_steps; assumption.
Qed.

Lemma steps_plain0 body : line_body_ok body -> steps [body] 0.
Proof. intro H. exact (steps_line 0 body H). Qed.

Definition meta_part (m : list (str * metaval)) : list str :=
  match m with
  | [] => []
  | p :: l => match emit_meta_lines (p :: l) with [] => [] | ls => s_meta_hdr :: ls end
  end.

Lemma meta_part_steps m : meta_safe m = true -> steps (phys (meta_part m)) 0.
Proof.
  intro H. unfold meta_part. destruct m as [|kv m']; [apply steps_nil|].
  pose proof (meta_lines_steps _ H) as Hs. destruct (emit_meta_lines (kv :: m')) as [|l ls].
  - apply steps_nil.
  - change (s_meta_hdr :: l :: ls) with ([s_meta_hdr] ++ l :: ls). rewrite phys_app, phys_one by reflexivity. cbn [app].
    destruct (colon_line_ok (lit "META") eq_refl) as [C1 _].
    exact (steps_header 0 _ _ C1 Hs).
Qed.

Definition top_lines (secs : list node) : list str :=
  flat_map (fun n => match n with NComment _ => [] | _ => emit_node_lines n 0 end) secs.

Lemma top_steps secs : forallb safe_node secs = true -> steps (phys (top_lines secs)) 0.
Proof.
  intro H. unfold top_lines. rewrite phys_flat_map. apply steps_concat.
  rewrite forallb_forall in H. rewrite Forall_forall. intros n Hin. specialize (H n Hin).
  destruct n; try exact (all_P_strict _ H 0%nat). apply steps_nil.
Qed.

(* frontmatter: absent, blank (dropped by the emitter), or without a line "---" of its own *)
Definition front_safe (sp : N -> bool) (d : doc) : bool :=
  match dfront d with
  | Some f => forallb sp f || forallb (fun l => negb (str_eqb l (lit "---"))) (split_on c_nl f)
  | None => true
  end.
Definition grammar_safe (g : option str) : bool :=
  match truthy g with Some x => negb (memb c_nl x) | None => true end.

(* the widest class of documents of this development *)
Definition strict_safe_gen (d : doc) : bool :=
  name_safe (dname d) && grammar_safe (dgrammar d) && meta_safe (dmeta d) &&
  forallb safe_node (dsections d) && forallb comment_safe (dtrailing d).

Definition front_part (sp : N -> bool) (d : doc) : list str :=
  match dfront d with
  | Some f => if forallb sp f then [] else [s_sep; f; s_sep; []]
  | None => []
  end.

Lemma emit_lines_eq sp d :
  emit_lines sp d =
  front_part sp d ++
  (match truthy (dgrammar d) with Some g => [s_octave ++ g] | None => [] end) ++
  [s_env ++ dname d ++ s_env] ++
  (meta_part (dmeta d) ++ (if dsep d then [s_sep] else []) ++ top_lines (dsections d) ++ emit_leading (dtrailing d) 0) ++
  [s_end].
Proof. unfold front_part, emit_lines, meta_part, top_lines. rewrite <- !app_assoc. reflexivity. Qed.

(* the recogniser, with its two frame steps named *)
Definition front_sel (ls : list str) : option (list str) :=
  match ls with
  | l0 :: r => if str_eqb l0 (lit "---") then skip_front r else Some ls
  | [] => Some ls
  end.
Definition tail_ok (ls2 : list str) : bool :=
  let ls3 := match ls2 with l :: r => if prefixb (lit "OCTAVE::") l then r else ls2 | [] => ls2 end in
  match ls3 with
  | env :: body => env_name_ok env && negb (str_eqb env (lit "===END===")) && body_ok body None 0
  | [] => false
  end.
Lemma strict_profile_eq text :
  strict_profile text =
  match rev (split_on c_nl text) with
  | [] :: endl :: revbody =>
      str_eqb endl (lit "===END===") &&
      match front_sel (rev revbody) with None => false | Some ls2 => tail_ok ls2 end
  | _ => false
  end.
Proof. reflexivity. Qed.

Lemma skip_front_app F rest : forallb (fun l => negb (str_eqb l (lit "---"))) F = true ->
  skip_front (F ++ s_sep :: [] :: rest) = Some rest.
Proof.
  induction F as [|l F IH]; intro H; [reflexivity|].
  cbn [forallb] in H. apply andb_true_iff in H. destruct H as [H1 H2]. apply negb_true_iff in H1.
  cbn [app skip_front]. rewrite H1. exact (IH H2).
Qed.

Theorem strict_emit_gen sp d : front_safe sp d = true -> strict_safe_gen d = true ->
  strict_profile (emit sp d) = true.
Proof.
  intros Hf H. unfold strict_safe_gen in H.
  apply andb_true_iff in H. destruct H as [H Htr]. apply andb_true_iff in H. destruct H as [H Hsec].
  apply andb_true_iff in H. destruct H as [H Hmeta]. apply andb_true_iff in H. destruct H as [Hname Hg].
  destruct (name_safe_facts _ Hname) as (N1 & N2 & N3).
  set (body := meta_part (dmeta d) ++ (if dsep d then [s_sep] else []) ++ top_lines (dsections d) ++ emit_leading (dtrailing d) 0).
  assert (Hbody : body_ok (phys body) None 0 = true).
  { assert (Hs : steps (phys body) 0).
    { subst body. rewrite !phys_app. apply steps_app; [apply meta_part_steps; exact Hmeta|].
      apply steps_app; [|apply steps_app; [apply top_steps; exact Hsec|apply leading_steps; exact Htr]].
      destruct (dsep d); [|apply steps_nil]. rewrite phys_one by reflexivity. apply steps_plain0.
      repeat split; try reflexivity. exists c_dash, [c_dash; c_dash]. repeat split; reflexivity. }
    destruct (Hs 0%nat [] ltac:(lia)) as (p' & _ & E). rewrite app_nil_r in E. rewrite E. destruct p'; reflexivity. }
  (* the lines from the sentinel / envelope on *)
  set (G := match truthy (dgrammar d) with Some g => [s_octave ++ g] | None => [] end).
  assert (Htail : tail_ok (phys G ++ (s_env ++ dname d ++ s_env) :: phys body) = true /\
                  match phys G ++ (s_env ++ dname d ++ s_env) :: phys body with
                  | l0 :: _ => str_eqb l0 (lit "---") = false | [] => True end).
  { subst G. unfold grammar_safe in Hg. destruct (truthy (dgrammar d)) as [g|].
    - apply negb_true_iff in Hg. rewrite phys_one by (rewrite memb_app, Hg; reflexivity). cbn [app]. split; [|reflexivity].
      unfold tail_ok. change (prefixb (lit "OCTAVE::") (s_octave ++ g)) with true. cbv iota zeta.
      rewrite N1, N2, Hbody. reflexivity.
    - cbn [phys flat_map app]. split; [|reflexivity]. unfold tail_ok.
      assert (E2 : prefixb (lit "OCTAVE::") (s_env ++ dname d ++ s_env) = false) by reflexivity.
      rewrite E2. cbv zeta. rewrite N1, N2, Hbody. reflexivity. }
  destruct Htail as [Htail Hhd].
  rewrite strict_profile_eq, split_emit, emit_lines_eq. fold body. fold G.
  remember (s_env ++ dname d ++ s_env) as env eqn:Eenv. clear Eenv.
  rewrite !phys_app. change (phys [s_end]) with [s_end]. rewrite (phys_one env) by exact N3.
  remember (phys G) as PG eqn:EPG. clear EPG. remember (phys body) as PB eqn:EPB. clear EPB.
  remember (phys (front_part sp d)) as PF eqn:EPF.
  rewrite !app_assoc, rev_app_distr. cbn [rev app]. rewrite rev_app_distr. cbn [rev app].
  change (str_eqb s_end (lit "===END===")) with true. cbn [andb]. rewrite rev_involutive, <- !app_assoc. cbn [app].
  assert (Hsel : front_sel (PF ++ PG ++ env :: PB) = Some (PG ++ env :: PB)).
  { subst PF. unfold front_part, front_safe in *. destruct (dfront d) as [f|].
    - destruct (forallb sp f).
      + cbn [phys flat_map app]. unfold front_sel. destruct (PG ++ env :: PB) as [|l0 r]; [reflexivity|]. rewrite Hhd. reflexivity.
      + cbn [orb] in Hf. unfold phys. cbn [flat_map]. change (split_on c_nl s_sep) with [s_sep]. change (split_on c_nl []) with [[]: str].
        cbn [app]. unfold front_sel. change (str_eqb s_sep (lit "---")) with true. cbv iota.
        rewrite <- app_assoc. cbn [app]. apply skip_front_app. exact Hf.
    - cbn [phys flat_map app]. unfold front_sel. destruct (PG ++ env :: PB) as [|l0 r]; [reflexivity|]. rewrite Hhd. reflexivity. }
  assert (Hfin : forall o, o = Some (PG ++ env :: PB) ->
                           match o with Some ls2 => tail_ok ls2 | None => false end = true) by (intros o ->; exact Htail).
  exact (Hfin _ Hsel).
Qed.

(* ---- 5. the class contains the natural one: identifier keys, digit numbers, any quoted string ------------------------ *)
Definition ident_word (k : str) : bool :=
  match k with x :: t => (is_alpha x || N.eqb x c_us) && forallb word_chr t | [] => false end.


Lemma word_facts c : word_chr c = true -> hard_chr c = false /\ N.eqb c c_plus = false /\ N.eqb c c_dash = false.
Proof.
  intro H. repeat split.
  - unfold hard_chr, memb. cbn [existsb].
    not_const H c c_dq. not_const H c c_slash. not_const H c c_colon. not_const H c c_sp. not_const H c c_tab.
    not_const H c c_nl. not_const H c c_bt. not_const H c 126. not_const H c 124. not_const H c 38. not_const H c 35. not_const H c 36. reflexivity.
  - not_const H c c_plus. reflexivity.
  - not_const H c c_dash. reflexivity.
Qed.

Lemma word_inert s : forallb word_chr s = true -> forall p, word_chr p = true -> inert s p = true.
Proof.
  induction s as [|c s IH]; intros H p Hp; [reflexivity|].
  cbn [forallb] in H. apply andb_true_iff in H. destruct H as [Hc Hs].
  destruct (word_facts c Hc) as (F1 & F2 & F3).
  cbn [inert]. rewrite F1, F2, F3, Hp. cbn [andb negb]. rewrite andb_false_r. exact (IH Hs c Hc).
Qed.

Lemma start_is_word x : (is_alpha x || N.eqb x c_us) = true -> word_chr x = true.
Proof. unfold word_chr, is_alnum. intro H. apply orb_true_iff in H. destruct H as [-> | ->]; [reflexivity|apply orb_true_r]. Qed.

(* every identifier word [A-Za-z_][A-Za-z0-9_]* other than "vs" is a safe key *)
Lemma ident_key_safe k : ident_word k = true -> str_eqb k (lit "vs") = false -> key_safe k = true.
Proof.
  destruct k as [|x t]; [discriminate|]. cbn [ident_word]. intros H Hvs. apply andb_true_iff in H. destruct H as [Hx Ht].
  pose proof (start_is_word x Hx) as Hw. destruct (word_facts x Hw) as (F1 & F2 & F3).
  unfold key_safe. cbn [nilb negb andb inert]. rewrite F1, F2, F3. cbn [andb].
  assert (Hc : (N.eqb x 118 && prefixb [115] t && negb (word_chr 0) && negb (memb 0 [36; 46; 45]) &&
               (match t with _ :: y :: _ => negb (word_chr y) | _ => true end)) = false).
  { destruct (N.eqb x 118) eqn:E1; [|reflexivity]. destruct t as [|y t2]; [reflexivity|]. cbn [prefixb].
    destruct (N.eqb 115 y) eqn:E2; [|reflexivity]. destruct t2 as [|z t3].
    - exfalso. apply N.eqb_eq in E1, E2. subst. discriminate Hvs.
    - cbn [forallb] in Ht. apply andb_true_iff in Ht. destruct Ht as [_ Ht]. apply andb_true_iff in Ht. destruct Ht as [Hz _].
      rewrite Hz. cbn [negb]. rewrite andb_false_r. reflexivity. }
  rewrite Hc. apply word_inert; assumption.
Qed.

Definition digits (c : str) : bool := negb (nilb c) && forallb is_digit c.
Lemma digits_num_safe f c : digits c = true -> scalar_safe (VNum f c) = true.
Proof.
  unfold digits. intro H. apply andb_true_iff in H. destruct H as [Hne Hd]. cbn [scalar_safe]. rewrite Hne. cbn [andb].
  destruct c as [|x t]; [discriminate|]. cbn [forallb] in Hd. apply andb_true_iff in Hd. destruct Hd as [Hx Ht].
  assert (Hw : word_chr x = true) by (unfold word_chr, is_alnum; rewrite Hx; rewrite orb_true_r; reflexivity).
  destruct (word_facts x Hw) as (F1 & F2 & F3).
  cbn [inert]. rewrite F1, F2, F3. cbn [andb].
  assert (E : N.eqb x 118 = false) by (destruct (N.eqb_spec x 118) as [->|_]; [vm_compute in Hx; discriminate|reflexivity]).
  rewrite E. cbn [andb]. apply word_inert; [|exact Hw].
  clear -Ht. induction t as [|y t IH]; [reflexivity|]. cbn [forallb] in *. apply andb_true_iff in Ht. destruct Ht as [Hy Ht].
  rewrite (IH Ht), andb_true_r. unfold word_chr, is_alnum. rewrite Hy. rewrite orb_true_r. reflexivity.
Qed.

(* every string the emitter quotes is safe, whatever it contains (operators, aliases, ::, blanks, TAB, newline, quotes) *)
Lemma quoted_str_safe s : needs_quotes s = true -> scalar_safe (VStr s) = true.
Proof. intro H. cbn [scalar_safe]. rewrite H. reflexivity. Qed.
(* ... and every bare-emitted string made of word characters *)
Lemma word_str_safe s : forallb word_chr s = true -> scalar_safe (VStr s) = true.
Proof.
  intro H. cbn [scalar_safe]. destruct (needs_quotes s) eqn:Hq; [reflexivity|]. cbn [orb].
  destruct s as [|x t]; [reflexivity|]. pose proof H as H'. cbn [forallb] in H'. apply andb_true_iff in H'. destruct H' as [Hx Ht].
  destruct (word_facts x Hx) as (F1 & F2 & F3). cbn [inert]. rewrite F1, F2, F3. cbn [andb].
  assert (Hc : (N.eqb x 118 && prefixb [115] t && negb (word_chr 0) && negb (memb 0 [36; 46; 45]) &&
               (match t with _ :: y :: _ => negb (word_chr y) | _ => true end)) = false).
  { destruct (N.eqb x 118) eqn:E1; [|reflexivity]. destruct t as [|y t2]; [reflexivity|]. cbn [prefixb].
    destruct (N.eqb 115 y) eqn:E2; [|reflexivity]. destruct t2 as [|z t3].
    - exfalso. apply N.eqb_eq in E1, E2. subst. vm_compute in Hq. discriminate Hq.
    - cbn [forallb] in Ht. apply andb_true_iff in Ht. destruct Ht as [_ Ht]. apply andb_true_iff in Ht. destruct Ht as [Hz _].
      rewrite Hz. cbn [negb]. rewrite andb_false_r. reflexivity. }
  rewrite Hc. rewrite (word_inert t Ht x Hx). reflexivity.
Qed.
(* ... and every VARIABLE token $[A-Za-z0-9_:]+ (written bare; may contain `vs`, `:` and `::`) *)
Lemma variable_str_safe s : match_variable s = true -> scalar_safe (VStr s) = true.
Proof. intro H. cbn [scalar_safe]. rewrite H. rewrite !orb_true_r. reflexivity. Qed.

(* ---- 6. theorems ------------------------------------------------------------------------------------------------------------ *)
(* the decidable class: name an identifier word other than END; sentinel without newline; keys / block heads /
   section heads inert non-empty tokens (contains every identifier word but "vs": ident_key_safe); numbers inert
   tokens (contains all digit strings: digits_num_safe); strings ANY quoted string, inert bare string or VARIABLE token; lists of
   such values, nested to any depth, in both layouts; comments (possibly empty) TAB-free, not ending in a blank; zones with a backtick fence,
   tidy tag and no content line that is the closing fence; META fields/one nested level of such values *)
Definition strict_safe_doc (d : doc) : bool := strict_safe_gen d.

(* no frontmatter: every safe document, all constructs, all depths *)
Theorem strict_emit_wide : forall sp d, dfront d = None -> strict_safe_doc d = true -> strict_profile (emit sp d) = true.
Proof. intros sp d Hf H. apply strict_emit_gen; [unfold front_safe; rewrite Hf; reflexivity|exact H]. Qed.

(* with frontmatter *)
Theorem strict_emit_all : forall sp d, front_safe sp d = true -> strict_safe_doc d = true -> strict_profile (emit sp d) = true.
Proof. exact strict_emit_gen. Qed.

Lemma core_doc_front d : core_doc d = true -> dfront d = None.
Proof. unfold core_doc. destruct (dfront d); [discriminate|reflexivity]. Qed.

(* MAIN (core fragment of Rt/TokRound.v) *)
Theorem strict_emit_core : forall sp d, core_doc d = true -> strict_safe_doc d = true -> strict_profile (emit sp d) = true.
Proof. intros sp d Hc H. apply strict_emit_wide; [apply core_doc_front; exact Hc|exact H]. Qed.

(* the per-construct statements the document theorem is assembled from (each for every depth k) *)
(* (a) comments: leading / standalone comment lines, and the trailing comment of an assignment *)
Theorem strict_emit_comments : forall cs k, forallb comment_safe cs = true -> steps (phys (emit_leading cs k)) k.
Proof. exact leading_steps. Qed.
Theorem strict_emit_trailing_comment : forall key v tr k,
  key_safe key = true -> value_safe v = true -> trailing_safe tr = true ->
  steps (phys [ind k ++ key ++ s_assign ++ force_quote key v (emit_value v k) ++ emit_trailing tr]) k.
Proof. intros key v tr k H1 H2 H3. apply assign_text_steps; [exact H1|apply emit_trailing_ok; exact H3|apply vtext_value; exact H2]. Qed.
(* (b) lists (of scalars and of lists, to any depth), inline or multi-line *)
Theorem strict_emit_lists : forall key items tr k,
  key_safe key = true -> value_safe (VList items) = true -> trailing_safe tr = true ->
  steps (phys [ind k ++ key ++ s_assign ++ emit_value (VList items) k ++ emit_trailing tr]) k.
Proof. intros key items tr k H1 H2 H3. apply assign_text_steps; [exact H1|apply emit_trailing_ok; exact H3|apply vtext_value_plain; exact H2]. Qed.
(* (c) META *)
Theorem strict_emit_meta : forall m, meta_safe m = true -> steps (phys (meta_part m)) 0.
Proof. exact meta_part_steps. Qed.
(* (d) section markers with children, (and blocks, assignments, comments): every safe node at every depth *)
Theorem strict_emit_nodes : forall n k, safe_node n = true -> steps (phys (emit_node_lines n k)) k.
Proof. intros n k H. exact (all_P_strict n H k). Qed.
(* (e) literal zones: content is exempt from every rule *)
Theorem strict_emit_zones : forall k content tag marker, zone_safe content tag marker = true ->
  steps (phys (zone_lines k content tag marker)) k.
Proof. intros. apply zone_steps. assumption. Qed.

(* ---- 7. what is excluded, and that it must be --------------------------------------------------------------------------- *)
Definition sp_ascii (c : N) : bool := N.eqb c 32 || N.eqb c 9 || N.eqb c 10 || N.eqb c 13.
Definition doc1 (nm : str) (n : node) : doc := mkDoc nm None None false [] [n] [].
Definition DOC : str := lit "DOC".
Definition K : str := lit "K".

Definition strict_emit_full : Prop := forall sp d, strict_profile (emit sp d) = true.

(* comments: ANY comment text without a newline *)
Definition strict_emit_comments_full : Prop :=
  forall sp c, memb c_nl c = false -> strict_profile (emit sp (doc1 DOC (NAssign K VNull [c] None))) = true.
(* a comment ending in a blank (not produced by the reader, which strips comment text): leading ... *)
Lemma strict_emit_comments_refuted_blank_leading :
  exists c, memb c_nl c = false /\ strict_profile (emit sp_ascii (doc1 DOC (NAssign K VNull [c] None))) = false.
Proof. exists (lit "note "). split; vm_compute; reflexivity. Qed.
(* ... and trailing *)
Lemma strict_emit_comments_refuted_blank :
  strict_profile (emit sp_ascii (doc1 DOC (NAssign K VNull [] (Some (lit "note "))))) = false.
Proof. vm_compute. reflexivity. Qed.
(* regression (repo fix 3fa2dc1): EMPTY comments -- leading, standalone inside a block, document-trailing, and an empty
   trailing comment of an assignment -- are in the class and are written without a trailing blank *)
Definition ex_empty_comments : doc :=
  mkDoc DOC None None false []
    [ NAssign K VNull [[]; lit "x"; []] (Some []);
      NBlock (lit "B") None [NComment []; NAssign K (VBool true) [[]] None; NComment []] [[]];
      NSection (lit "1") (lit "S") None [NComment []] [[]] ]
    [[]; lit "end"; []].
Example strict_emit_empty_comments :
  strict_safe_doc ex_empty_comments = true /\ strict_profile (emit sp_ascii ex_empty_comments) = true.
Proof. split; vm_compute; reflexivity. Qed.
(* regression (repo fix 1d4faf6): a META block whose fields are all Absent leaves no line at all *)
Example strict_emit_meta_all_absent :
  let d := mkDoc DOC None None true [(lit "A", MV VAbsent); (lit "B", MV VAbsent)] [NAssign K VNull [] None] [] in
  strict_safe_doc d = true /\ strict_profile (emit sp_ascii d) = true /\
  emit sp_ascii d = lit "===DOC===" ++ [c_nl] ++ lit "---" ++ [c_nl] ++ lit "K::null" ++ [c_nl] ++ lit "===END===" ++ [c_nl].
Proof. repeat split; vm_compute; reflexivity. Qed.

(* keys: any identifier word *)
Definition strict_emit_keys_full : Prop :=
  forall sp k, ident_word k = true -> strict_profile (emit sp (doc1 DOC (NAssign k VNull [] None))) = true.
Lemma strict_emit_keys_refuted :
  exists k, ident_word k = true /\ strict_profile (emit sp_ascii (doc1 DOC (NAssign k VNull [] None))) = false.
Proof. exists (lit "vs"). split; vm_compute; reflexivity. Qed.

(* envelope names: any identifier word *)
Definition strict_emit_name_full : Prop :=
  forall sp nm, ident_word nm = true -> strict_profile (emit sp (mkDoc nm None None false [] [] [])) = true.
Lemma strict_emit_name_refuted :
  exists nm, ident_word nm = true /\ strict_profile (emit sp_ascii (mkDoc nm None None false [] [] [])) = false.
Proof. exists (lit "END"). split; vm_compute; reflexivity. Qed.

(* strings: any string *)
Definition strict_emit_strings_full : Prop :=
  forall sp s, strict_profile (emit sp (doc1 DOC (NAssign K (VStr s) [] None))) = true.
(* "vs.x" is emitted bare (an identifier for the emitter) although the lexer reads the operator `vs` and then `.x`:
   the canonical text contains an ASCII alias -- the reserved-segment defect class of C04, a genuine defect *)
Lemma strict_emit_strings_refuted :
  exists s, strict_profile (emit sp_ascii (doc1 DOC (NAssign K (VStr s) [] None))) = false.
Proof. exists (lit "vs.x"). vm_compute. reflexivity. Qed.
(* ... while a `vs` INSIDE a variable / identifier token is no alias: "$vs", "a.vs", "x-vs", "a-vs-b" are written bare,
   are in the class, and are accepted (the recogniser no longer reads a word `vs` after `$` `.` `-`) *)
Example strict_emit_vs_inside_token :
  forallb (fun s => negb (needs_quotes s) && scalar_safe (VStr s) &&
                    strict_profile (emit sp_ascii (doc1 DOC (NAssign K (VStr s) [] None))))
          [lit "$vs"; lit "a.vs"; lit "x-vs"; lit "a-vs-b"] = true /\
  (* also as items of an inline list and of a multi-line list, and after a key in an inline map position *)
  strict_profile (emit sp_ascii (doc1 DOC (NAssign (lit "RISKS") (VList [VStr (lit "$vs"); VStr (lit "a.vs")]) [] None))) = true /\
  strict_profile (emit sp_ascii (doc1 DOC (NAssign (lit "RISKS") (VList [VStr (lit "$vs"); VStr (lit "a.vs"); VStr (lit "x-vs")]) [] None))) = true /\
  strict_profile (emit sp_ascii (doc1 DOC (NAssign K (VList [VMap [(lit "RISKS", VStr (lit "$vs"))]]) [] None))) = true.
Proof. repeat split; vm_compute; reflexivity. Qed.

(* VARIABLE tokens are atoms (lexer: \$[A-Za-z0-9_:]+): `vs`, `:` and `::` inside them are not inspected.  They are
   written bare, are in the class (variable_str_safe), and are accepted in assignment, list (inline and multi-line,
   with a trailing comment) and inline-map positions *)
Definition ex_variables : list str := [lit "$a:vs"; lit "$KEY::value"; lit "$HOME:"; lit "$x:y:"; lit "$vs"].
Example strict_emit_variable_tokens :
  forallb (fun s => negb (needs_quotes s) && match_variable s && scalar_safe (VStr s) &&
                    strict_safe_doc (doc1 DOC (NAssign K (VStr s) [] None)) &&
                    strict_profile (emit sp_ascii (doc1 DOC (NAssign K (VStr s) [] None)))) ex_variables = true /\
  (let d := doc1 DOC (NAssign K (VList (map VStr (firstn 2 ex_variables))) [] None) in
   strict_safe_doc d = true /\ strict_profile (emit sp_ascii d) = true) /\
  (let d := doc1 DOC (NAssign K (VList (map VStr ex_variables)) [] (Some (lit "after"))) in
   strict_safe_doc d = true /\ strict_profile (emit sp_ascii d) = true) /\
  strict_profile (emit sp_ascii (doc1 DOC (NAssign K (VList [VMap (map (fun s => (lit "RISKS", VStr s)) ex_variables)]) [] None))) = true.
Proof. repeat split; vm_compute; reflexivity. Qed.
(* ... while outside a VARIABLE token nothing is relaxed: `K::vs`, a blank next to `::`, a `vs` or `->` after the end of a
   variable, and a lone `$` are still rejected; `K::x` is the accepted control *)
Definition one_line (l : str) : str := lit "===DOC===" ++ [c_nl] ++ l ++ [c_nl] ++ lit "===END===" ++ [c_nl].
Example strict_profile_still_rejects :
  map (fun l => strict_profile (one_line l))
      [lit "K::vs"; lit "K:: x"; lit "K ::x"; lit "K::$a vs b"; lit "K::$ vs"; lit "K::[$a,vs]"; lit "K::$a->b"; lit "K::x"]
  = [false; false; false; false; false; false; false; true].
Proof. vm_compute. reflexivity. Qed.

(* zones: any content under a ``` fence *)
Definition strict_emit_zones_full : Prop :=
  forall sp content, strict_profile (emit sp (doc1 DOC (NAssign K (VZone content None [c_bt; c_bt; c_bt]) [] None))) = true.
(* content containing its own closing fence line, followed by a TAB line (never produced by the reader) *)
Lemma strict_emit_zones_refuted :
  exists content, strict_profile (emit sp_ascii (doc1 DOC (NAssign K (VZone content None [c_bt; c_bt; c_bt]) [] None))) = false.
Proof. exists ([c_bt; c_bt; c_bt; c_nl; c_tab; 98]). vm_compute. reflexivity. Qed.
(* ... while TAB, trailing blanks, aliases inside zone content are accepted *)
Example strict_emit_zone_content_exempt :
  strict_profile (emit sp_ascii (doc1 DOC (NBlock (lit "B") None
     [NAssign [] (VZone (lit "a" ++ [c_tab] ++ lit "b -> c | d  " ++ [c_nl; c_tab]) (Some (lit "py")) [c_bt; c_bt; c_bt]) [] None;
      NAssign K VNull [] None] []))) = true.
Proof. vm_compute. reflexivity. Qed.
(* an empty block is accepted (and is in the class) *)
Example strict_emit_empty_block :
  safe_node (NBlock (lit "B") None [] []) = true /\
  strict_profile (emit sp_ascii (doc1 DOC (NBlock (lit "B") None [] []))) = true.
Proof. split; vm_compute; reflexivity. Qed.

(* frontmatter: any text *)
Definition strict_emit_front_full : Prop :=
  forall sp f, strict_profile (emit sp (mkDoc DOC None (Some f) false [] [] [])) = true.
(* a frontmatter that contains its own closing line (never produced by the reader) *)
Lemma strict_emit_front_refuted :
  exists f, strict_profile (emit sp_ascii (mkDoc DOC None (Some f) false [] [] [])) = false.
Proof. exists (lit "a" ++ [c_nl] ++ lit "---" ++ [c_nl] ++ lit "b"). vm_compute. reflexivity. Qed.
Example strict_emit_front_example :
  let d := mkDoc DOC (Some (lit "1.0")) (Some (lit "title: x -> y" ++ [c_nl; c_tab] ++ lit "k: v  ")) true [] [NAssign K VNull [] None] [] in
  front_safe sp_ascii d = true /\ strict_safe_gen d = true /\ strict_profile (emit sp_ascii d) = true.
Proof. repeat split; vm_compute; reflexivity. Qed.

Lemma strict_emit_full_refuted : ~ strict_emit_full.
Proof. intro H. specialize (H sp_ascii (doc1 DOC (NAssign K VNull [lit "note "] None))). vm_compute in H. discriminate H. Qed.

(* ---- 8. non-vacuity ----------------------------------------------------------------------------------------------------------- *)
(* depth 4, every scalar kind, strings that need quotes and contain aliases / :: / TAB / newline / quotes / backslash *)
Definition ex_core : doc :=
  mkDoc (lit "EXAMPLE_1") (Some (lit "1.0.0")) None true []
    [ NAssign (lit "TITLE") (VStr (lit "a -> b :: c | d & e # f ~ g vs h + i")) [] None;
      NBlock (lit "L1") None
        [ NAssign (lit "FLAG") (VBool true) [] None;
          NAssign (lit "NONE") VNull [] None;
          NBlock (lit "L2") None
            [ NAssign (lit "COUNT") (VNum false (lit "42")) [] None;
              NAssign (lit "RATE") (VNum true (lit "1.5e+20")) [] None;
              NBlock (lit "L3") None
                [ NAssign (lit "TEXT") (VStr (lit "tab" ++ [c_tab] ++ lit "nl" ++ [c_nl] ++ lit "q" ++ [c_dq; c_bs] ++ lit " end ")) [] None;
                  NAssign (lit "WORD") (VStr (lit "plain_word")) [] None;
                  NAssign (lit "PATTERN") (VStr (lit "abc")) [] None;
                  NBlock (lit "L4") None [ NAssign (lit "OFF") (VBool false) [] None ] [] ] [] ] [];
          NAssign (lit "AFTER") (VStr (lit "x")) [] None ] [];
      NAssign (lit "LAST") (VNum false (lit "-7")) [] None ] [].

Example ex_core_ok :
  core_doc ex_core = true /\ strict_safe_doc ex_core = true /\ strict_profile (emit sp_ascii ex_core) = true.
Proof. repeat split; vm_compute; reflexivity. Qed.

(* every construct of the wide class at once *)
Definition ex_wide : doc :=
  mkDoc (lit "WIDE") None None true
    [ (lit "TYPE", MV (VStr (lit "SPEC")));
      (lit "TAGS", MV (VList [VStr (lit "a"); VStr (lit "b c"); VNum false (lit "3"); VNull]));
      (lit "GONE", MV VAbsent);
      (lit "CONTRACT", MD [(lit "MODE", VStr (lit "strict")); (lit "IDS", VList [VNum false (lit "1"); VNum false (lit "2")]); (lit "NO", VAbsent)]) ]
    [ NSection (lit "1") (lit "INTRO") (Some (lit "draft")) 
        [ NAssign (lit "A") (VList []) [lit "leading one"; lit "leading -> two"] (Some (lit "trailing | note"));
          NComment (lit "standalone # comment");
          NBlock (lit "BLK") (Some (lit "TARGET")) 
            [ NAssign [] (VZone (lit "raw" ++ [c_tab] ++ lit " -> text  " ++ [c_nl] ++ lit "more") (Some (lit "py")) [c_bt; c_bt; c_bt; c_bt]) [] None;
              NAssign (lit "LIST") (VList [VStr (lit "x"); VStr (lit "needs quotes"); VBool true; VNum true (lit "0.5")]) [lit "c"] (Some (lit "after list"));
              NAssign (lit "Z") (VZone (lit "zone body") None [c_bt; c_bt; c_bt]) [lit "before zone"] None;
              NBlock (lit "EMPTY") None [] [] ] [lit "block comment"] ] [lit "section comment"];
      NAssign (lit "SKIP") VAbsent [] None;
      NAssign (lit "INLINE") (VList [VStr (lit "p"); VStr (lit "q")]) [] None;
      NBlock (lit "DEEP") None
        [ NAssign (lit "NESTED") (VList [VStr (lit "a"); VList [VStr (lit "b -> c"); VList [VNum false (lit "1"); VList []]; VNull]; VStr (lit "d")])
            [] (Some (lit "after nested list")) ] [] ]
    [lit "document trailing comment"].

Example ex_wide_ok :
  dfront ex_wide = None /\ strict_safe_doc ex_wide = true /\ strict_profile (emit sp_ascii ex_wide) = true.
Proof. repeat split; vm_compute; reflexivity. Qed.

(* ---- 9. the same theorem under a syntactic, recogniser-independent side condition ------------------------------------------ *)
(* keys: identifier words other than "vs"; numbers: digit strings; strings: anything the emitter quotes, or plain words *)
Definition key_nat (k : str) : bool := ident_word k && negb (str_eqb k (lit "vs")).
Definition scalar_nat (v : value) : bool :=
  match v with
  | VNull | VBool _ => true
  | VNum _ c => digits c
  | VStr s => needs_quotes s || forallb word_chr s
  | _ => false
  end.
Fixpoint nat_node (n : node) : bool :=
  match n with
  | NAssign k v [] None => key_nat k && scalar_nat v
  | NBlock k None ch [] => key_nat k && forallb nat_node ch
  | _ => false
  end.
Definition nat_doc (d : doc) : bool :=
  ident_word (dname d) && negb (str_eqb (dname d) (lit "END")) && grammar_safe (dgrammar d) && forallb nat_node (dsections d).

Lemma key_nat_safe k : key_nat k = true -> key_safe k = true.
Proof. unfold key_nat. intro H. apply andb_true_iff in H. destruct H as [H1 H2]. apply negb_true_iff in H2. apply ident_key_safe; assumption. Qed.

Lemma scalar_nat_safe v : scalar_nat v = true -> scalar_safe v = true.
Proof.
  destruct v as [|b|f c|s| | | | |]; cbn [scalar_nat]; intro H; try discriminate H; try reflexivity.
  - apply digits_num_safe. exact H.
  - destruct (needs_quotes s) eqn:Hq; [apply quoted_str_safe; exact Hq|]. cbn [orb] in H. apply word_str_safe. exact H.
Qed.

Lemma nat_node_safe : forall n, nat_node n = true -> safe_node n = true.
Proof.
  apply (node_ind2 (fun n => nat_node n = true -> safe_node n = true)).
  - intros k v l t H. cbn [nat_node] in H. destruct l; [|discriminate H]. destruct t; [discriminate H|].
    apply andb_true_iff in H. destruct H as [Hk Hv]. pose proof (scalar_nat_safe v Hv) as Hs.
    pose proof (key_nat_safe k Hk) as Hk'.
    destruct v; try discriminate Hv; cbn [safe_node forallb andb is_absent orb value_safe]; rewrite Hk', Hs; reflexivity.
  - intros k t ch l IH H. cbn [nat_node] in H. destruct t; [discriminate H|]. destruct l; [|discriminate H].
    apply andb_true_iff in H. destruct H as [Hk Hch].
    cbn [safe_node forallb andb]. unfold block_head. cbn [truthy]. rewrite app_nil_r, (key_nat_safe k Hk). cbn [andb].
    rewrite forallb_forall in Hch |- *. rewrite Forall_forall in IH. intros c Hin. specialize (IH c Hin (Hch c Hin)). specialize (Hch c Hin).
    destruct c as [ck cv cl ct| | |]; try exact IH. destruct ck as [|c0 ck']; [|exact IH].
    exfalso. cbn [nat_node] in Hch. destruct cl; [|discriminate Hch]. destruct ct; discriminate Hch.
  - intros i k a ch l _ H. discriminate H.
  - intros t H. discriminate H.
Qed.

Theorem strict_emit_core_nat : forall sp d, core_doc d = true -> nat_doc d = true -> strict_profile (emit sp d) = true.
Proof.
  intros sp d Hc H. apply strict_emit_core; [exact Hc|].
  unfold core_doc in Hc. destruct (dfront d); [discriminate|]. destruct (dmeta d) eqn:Em; [|discriminate]. destruct (dtrailing d) eqn:Et; [|discriminate].
  unfold nat_doc in H. apply andb_true_iff in H. destruct H as [H Hs]. apply andb_true_iff in H. destruct H as [H Hg].
  unfold strict_safe_doc, strict_safe_gen. rewrite Em, Et, Hg. unfold name_safe. fold (ident_word (dname d)). rewrite H. cbn [andb meta_safe forallb].
  rewrite andb_true_r. rewrite forallb_forall in Hs |- *. intros n Hin. apply nat_node_safe. exact (Hs n Hin).
Qed.

Example ex_core_nat : nat_doc ex_core = false /\ nat_doc (mkDoc (dname ex_core) (dgrammar ex_core) None true []
  [NBlock (lit "A") None [NBlock (lit "B") None [NBlock (lit "C") None
     [NAssign (lit "S") (VStr (lit "x -> y :: z")) [] None; NAssign (lit "N") (VNum false (lit "12")) [] None;
      NAssign (lit "T") (VBool true) [] None; NAssign (lit "U") VNull [] None; NAssign (lit "W") (VStr (lit "word")) [] None] []] []] []] []) = true.
Proof. split; vm_compute; reflexivity. Qed.
