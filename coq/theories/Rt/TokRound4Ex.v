(* Non-vacuity of Rt/TokRound4.v, the checked composition with the lexer model, the executable shape check for the harness, and a
   refutation Example for every side condition the parser model forces on nested lists / inline maps. *)
From OV Require Import Base.Strs Lex.Lexer Syn.Ast Syn.Emitter Syn.Parser Syn.Wf
     Rt.TokRound Rt.TokRoundEx Rt.LexLinkBase Rt.TokRound2 Rt.TokRound2Ex Rt.BareWordParse Rt.BareWord Rt.TokRound4.
From Coq Require Import Lia.
Require Coq.Strings.String.
Import Coq.Strings.String.StringSyntax.
Open Scope N_scope.

(* the emitter's instances of the four layout / quoting oracles *)
Definition sh4 (d : doc) : list sh := doc4_sh ex_ml ex_idnum qa_emit qi_emit d.

Definition rt4 (d : doc) (subs : list N) : Prop :=
  match parse_model ex_cls ex2_numcanon (fun _ => false) true (lines_of (emit (u_space ex_cls) d)) with
  | PRDoc d' reps warns => d' = d /\ reps = [] /\ map wsub warns = subs
  | _ => False
  end.
Definition lex4 (d : doc) : Prop :=
  match tokenize ex_cls false (lines_of (emit (u_space ex_cls) d)) with
  | LexOk toks reps => all2 tmatchb toks (sh4 d ++ [(NEWLINE, None); (EOF, None)]) = true /\ reps = []
  | _ => False
  end.

(* ---- (d) non-vacuity: depth 3, lists nested 3 levels, inline maps with string / number / bool / null / list values under plain,
        numeric and always-quote keys, in a body assignment and in META ---------------------------------------------------------------- *)
Definition ex4 : doc :=
  mkDoc (lit "DOC") (Some (lit "6.0.0")) None true
    [ (lit "TYPE", MV (VStr (lit "SPEC")));
      (lit "M", MV (VList [VMap [(lit "PATTERN", VStr (lit "abc"))]; VList [n1; VList [n2; VStr (lit "bare")]]; VMap [(lit "k", VNull)]])) ]
    [ NBlock (lit "B") None
        [ NBlock (lit "C") None
          [ NAssign (lit "L")
              (VList [ VList [VList [n1; n2]; VList []]; VStr (lit "x y");
                       VMap [(lit "REGEX", VStr (lit "a.b"))]; VMap [(lit "K", VNum false (lit "1"))];
                       VMap [(lit "T", VBool true)]; VMap [(lit "N", VNull)]; VMap [(lit "S", VStr (lit "word"))];
                       VMap [(lit "Q", VStr (lit "two words"))];
                       VMap [(lit "LL", VList [n1; VStr (lit "w")])];
                       VMap [(lit "L3", VList [n1; n2; VList [n1]])];
                       VMap [(lit "42", VStr (lit "seven"))];
                       VMap [(lit "K", VNum true (lit "2.5"))] ])
              [lit "c"] (Some (lit "t"));
            NAssign (lit "P") (VList [VMap [(lit "ENUM", VStr (lit "a"))]; VMap [(lit "PATTERN", VStr (lit "needs quotes"))]]) [] None ] [] ] [] ]
    [].

Example ex4_core : core4_doc ex4 = true.
Proof. vm_compute. reflexivity. Qed.
Example ex4_nums : nums_ok4_l ex2_numcanon ex_idnum (dsections ex4) /\ Forall (field_num_ok4 ex2_numcanon ex_idnum) (dmeta ex4).
Proof. cbn. repeat split; try (intros _; eexists; reflexivity); try discriminate; repeat constructor; cbn; repeat split; try discriminate; try (intros _; eexists; reflexivity). Qed.
(* the full model reads the emitted text back as the document; the ONLY warnings are constructor_misuse (7) records for the quoted values
   under PATTERN / REGEX -- the emitter's own always-quote rule; ENUM::a (bare) gives none *)
Example ex4_roundtrip : rt4 ex4 [7; 7; 7].
Proof. vm_compute. repeat split. Qed.
Example ex4_lexes : lex4 ex4.
Proof. vm_compute. split; reflexivity. Qed.

(* deep nesting: 5 levels give one deep_nesting (6) record; 99 levels are read back; both in the fragment *)
Fixpoint nest (n : nat) (v : value) : value := match n with O => v | S k => VList [nest k v] end.
Definition d1 (v : value) : doc := dd [NAssign (lit "L") v [] None] [].
Example nest5 : core4_doc (d1 (nest 5 n1)) = true /\ rt4 (d1 (nest 5 n1)) [6] /\ lex4 (d1 (nest 5 n1)).
Proof. split; [reflexivity|]. split; vm_compute; repeat split. Qed.
Example nest99 : core4_doc (d1 (nest 99 n1)) = true /\
  match parse_model ex_cls ex2_numcanon (fun _ => false) true (lines_of (emit (u_space ex_cls) (d1 (nest 99 n1)))) with
  | PRDoc d' _ warns => d' = d1 (nest 99 n1) /\ forallb (N.eqb 6) (map wsub warns) = true /\ length warns = 95%nat
  | _ => False
  end.
Proof. split; [reflexivity|]. vm_compute. repeat split. Qed.

(* ---- (e) composition with the lexer model ------------------------------------------------------------------------------------------ *)
Theorem text_roundtrip_core4_checked cls numcanon holo_ok strict ml idnum qa qi d text toks reps :
  (forall k s, qa k s = QIdent -> has_annotation s = false) -> (forall s, qi s = QIdent -> has_annotation s = false) ->
  core4_doc d = true -> nums_ok4_l numcanon idnum (dsections d) -> Forall (field_num_ok4 numcanon idnum) (dmeta d) ->
  strip_frontmatter (u_space cls) (lines_of text) = (lines_of text, None) ->
  tokenize cls false (lines_of text) = LexOk toks reps ->
  all2 tmatchb toks (doc4_sh ml idnum qa qi d ++ [(NEWLINE, None); (EOF, None)]) = true ->
  exists warns, parse_model cls numcanon holo_ok strict (lines_of text) = PRDoc d reps warns /\ Forall advisory4 warns.
Proof.
  intros Hqa Hqi Hc Hnum Hmnum Hfm Htok Hsh. apply all2_F2 in Hsh. apply Forall2_app_inv_r in Hsh. destruct Hsh as (ts & tl & Hts & Htl & ->).
  unfold parse_model. rewrite Hfm, Htok.
  destruct (parse_core4_doc numcanon holo_ok strict (u_space cls) (u_alpha cls) ml idnum qa qi Hqa Hqi d Hc Hnum Hmnum
              (mkPS (ts ++ tl) None 0 [] 0 []) ts tl) as (st' & Hp & (l & Hw & Hadv) & _);
    [inversion Htl; discriminate|reflexivity|exact Hts|reflexivity|].
  rewrite Hp. exists (rev (pwarns st')). split.
  - f_equal. destruct d as [name gr fr sep meta secs trl]. unfold core4_doc in Hc. cbn [dfront] in Hc.
    destruct fr; [discriminate Hc|]. reflexivity.
  - rewrite Hw. cbn [pwarns]. rewrite app_nil_r. apply Forall_rev. exact Hadv.
Qed.

Example ex4_by_theorem :
  exists warns, parse_model ex_cls ex2_numcanon (fun _ => false) true (lines_of (emit (u_space ex_cls) ex4)) = PRDoc ex4 [] warns /\
                Forall advisory4 warns.
Proof.
  pose (toks := match tokenize ex_cls false (lines_of (emit (u_space ex_cls) ex4)) with LexOk t _ => t | _ => [] end).
  assert (E : tokenize ex_cls false (lines_of (emit (u_space ex_cls) ex4)) = LexOk toks []) by (vm_compute; reflexivity).
  apply (text_roundtrip_core4_checked ex_cls ex2_numcanon (fun _ => false) true ex_ml ex_idnum qa_emit qi_emit ex4 _ toks []
           qa_emit_ok qi_emit_ok ex4_core (proj1 ex4_nums) (proj2 ex4_nums)); [vm_compute; reflexivity|exact E|vm_compute; reflexivity].
Qed.

(* executable form of the hypothesis, for the harness: 0 = not a core4 document, 1 = the model lexer reads `lines` as the shape doc4_sh d
   (+ NEWLINE EOF) with no repair, 2 = shape mismatch or lexer repair, 3 = lexer error *)
Definition core4_shape_check (cls : N -> N) (d : doc) (lines : list (str * str)) : N :=
  if core4_doc d then
    match tokenize cls false lines with
    | LexOk toks reps =>
        if all2 tmatchb toks (doc4_sh needs_multiline ex_idnum qa_emit qi_emit d ++ [(NEWLINE, None); (EOF, None)]) && is_nil reps then 1 else 2
    | _ => 3
    end
  else 0.
Lemma core4_shape_check_sound cls numcanon holo_ok strict d text :
  core4_shape_check cls d (lines_of text) = 1 ->
  nums_ok4_l numcanon ex_idnum (dsections d) -> Forall (field_num_ok4 numcanon ex_idnum) (dmeta d) ->
  strip_frontmatter (u_space cls) (lines_of text) = (lines_of text, None) ->
  exists warns, parse_model cls numcanon holo_ok strict (lines_of text) = PRDoc d [] warns /\ Forall advisory4 warns.
Proof.
  unfold core4_shape_check. intros H Hnum Hmnum Hfm.
  destruct (core4_doc d) eqn:Hc; [|discriminate H].
  destruct (tokenize cls false (lines_of text)) as [toks reps| |] eqn:Htok; try discriminate H.
  destruct (all2 tmatchb toks _ && is_nil reps) eqn:Hb; [|discriminate H]. apply andb_prop in Hb. destruct Hb as [Hsh Hr].
  destruct reps; [|discriminate Hr].
  exact (text_roundtrip_core4_checked cls numcanon holo_ok strict needs_multiline ex_idnum qa_emit qi_emit d text toks []
           qa_emit_ok qi_emit_ok Hc Hnum Hmnum Hfm Htok Hsh).
Qed.
Example ex4_shape_check : core4_shape_check ex_cls ex4 (lines_of (emit (u_space ex_cls) ex4)) = 1.
Proof. vm_compute. reflexivity. Qed.

(* ---- (c) what the parser model forces: one refutation per side condition ------------------------------------------------------------- *)
(* what the full model reads for emit(d), under a chosen strictness / holographic oracle / number oracle *)
Definition reads4 (strict : bool) (holo : str -> bool) (nc : str -> option (bool * str)) (d : doc) : option doc :=
  match parse_model ex_cls nc holo strict (lines_of (emit (u_space ex_cls) d)) with PRDoc d' _ _ => Some d' | _ => None end.
Notation reads := (reads4 true (fun _ => false) ex2_numcanon).
Definition shape_ok (d : doc) : bool :=
  match tokenize ex_cls false (lines_of (emit (u_space ex_cls) d)) with
  | LexOk toks reps => all2 tmatchb toks (sh4 d ++ [(NEWLINE, None); (EOF, None)]) | _ => false end.

(* (1) a VMap item with SEVERAL pairs (in particular with a duplicate key) is written `a::1,b::2` on one line and read back as
   several one-pair items [wf_doc = true: not covered by a wf clause] *)
Definition r_multi := d1 (VList [VMap [(lit "a", n1); (lit "b", n2)]]).
Example core4_refuted_multi_pair_map :
  core4_doc r_multi = false /\ wf_doc r_multi = true /\ reads r_multi = Some (d1 (VList [VMap [(lit "a", n1)]; VMap [(lit "b", n2)]])).
Proof. repeat split; vm_compute; reflexivity. Qed.
Definition r_dupkey := d1 (VList [VMap [(lit "a", n1); (lit "a", n2)]]).
Example core4_refuted_duplicate_key_map :
  core4_doc r_dupkey = false /\ reads r_dupkey = Some (d1 (VList [VMap [(lit "a", n1)]; VMap [(lit "a", n2)]])).
Proof. split; vm_compute; reflexivity. Qed.

(* (2) an EMPTY VMap item is not written at all [wf_doc = true] *)
Definition r_empty_map := d1 (VList [n1; VMap []]).
Example core4_refuted_empty_map : core4_doc r_empty_map = false /\ wf_doc r_empty_map = true /\ reads r_empty_map = Some (d1 (VList [n1])).
Proof. repeat split; vm_compute; reflexivity. Qed.

(* (3) a VMap in VALUE position `L::[a::1]` is read back as a LIST of one-pair maps [wf_doc = true] *)
Definition r_map_value := d1 (VMap [(lit "a", n1)]).
Example core4_refuted_map_in_value_position :
  core4_doc r_map_value = false /\ wf_doc r_map_value = true /\ reads r_map_value = Some (d1 (VList [VMap [(lit "a", n1)]])).
Proof. repeat split; vm_compute; reflexivity. Qed.

(* (4) an inline map inside the value of an inline-map item: parse error E_NESTED_INLINE_MAP in strict mode, warning 8 (nested_inline_map,
   NOT in the advisory class) in lenient mode [wf_doc = true] *)
Definition r_nested_map := d1 (VList [VMap [(lit "k", VList [VMap [(lit "j", n1)]])]]).
Example core4_refuted_nested_inline_map :
  core4_doc r_nested_map = false /\ wf_doc r_nested_map = true /\ reads r_nested_map = None /\
  match parse_model ex_cls ex2_numcanon (fun _ => false) false (lines_of (emit (u_space ex_cls) r_nested_map)) with
  | PRDoc d' _ warns => d' = r_nested_map /\ map wsub warns = [8]
  | _ => False
  end.
Proof. split; [reflexivity|]. split; [vm_compute; reflexivity|]. split; [vm_compute; reflexivity|]. vm_compute. split; reflexivity. Qed.

(* (5) a list opened at bracket depth 100: E_MAX_NESTING_EXCEEDED [wf_doc = true]; 99 levels are fine (nest99 above) *)
Example core4_refuted_nesting_100 :
  core4_doc (d1 (nest 100 n1)) = false /\ cval4 (nest 99 n1) = true /\ reads (d1 (nest 100 n1)) = None.
Proof. repeat split; vm_compute; reflexivity. Qed.

(* (6) a ONE-item list whose item is an unquoted string with a constraint operator: the token slice has a CONSTRAINT token and no comma at
   depth 1, so parse_list returns a holographic pattern when the pattern oracle accepts it [wf clause 18, KNOWN finding].  At token level
   the emitted text does not have the shape (the string is several tokens), so the theorem does not apply. *)
Definition r_holo := d1 (VList [VStr [65; 8743; 66]]).
Example core4_refuted_one_item_expression :
  doc_clauses r_holo = [18] /\ shape_ok r_holo = false /\
  reads4 true (fun _ => true) ex2_numcanon r_holo = Some (d1 (VHolo [91; 65; 8743; 66; 93])).
Proof. repeat split; vm_compute; reflexivity. Qed.

(* (7) inline-map keys that are literals or operator words reach the parser as BOOLEAN / NULL / operator tokens, not as IDENTIFIER: the item
   is read as three scalars [wf_doc = true].  Token level: the shape check fails (the key token is not IDENTIFIER). *)
Definition r_key_true := d1 (VList [VMap [(lit "true", n1)]]).
Example core4_refuted_literal_key :
  wf_doc r_key_true = true /\ shape_ok r_key_true = false /\ reads r_key_true = Some (d1 (VList [VBool true; VStr (lit "::"); n1])).
Proof. repeat split; vm_compute; reflexivity. Qed.
Definition r_key_vs := d1 (VList [VMap [(lit "vs", n1)]]).
Example core4_refuted_operator_key :
  wf_doc r_key_vs = true /\ shape_ok r_key_vs = false /\ reads r_key_vs = Some (d1 (VList [VStr [8652]; VStr (lit "::"); n1])).
Proof. repeat split; vm_compute; reflexivity. Qed.

(* (8) a numeric inline-map key is read through the number oracle: `007::1` comes back with key "7" (key_ok / num_ok4) *)
Definition nc7 (raw : str) : option (bool * str) := if str_eqb raw (lit "007") then Some (false, lit "7") else ex2_numcanon raw.
Definition r_key_007 := d1 (VList [VMap [(lit "007", n1)]]).
Example core4_refuted_noncanonical_numeric_key :
  core4_doc r_key_007 = true /\ shape_ok r_key_007 = true /\ ~ nums_ok4_l nc7 ex_idnum (dsections r_key_007) /\
  reads4 true (fun _ => false) nc7 r_key_007 = Some (d1 (VList [VMap [(lit "7", n1)]])).
Proof.
  split; [reflexivity|]. split; [vm_compute; reflexivity|]. split; [|vm_compute; reflexivity].
  cbn. intros [[[[Hk _] _] _] _]. destruct (Hk eq_refl) as (isf & E). vm_compute in E. discriminate E.
Qed.

(* (9) a bare-word map value directly followed by the next item's `K::` is NOT a problem: the comma separates them *)
Example bare_value_then_key_ok :
  let d := d1 (VList [VMap [(lit "k", VStr (lit "word"))]; VMap [(lit "j", n1)]]) in core4_doc d = true /\ rt4 d [] /\ lex4 d.
Proof. split; [reflexivity|]. split; vm_compute; repeat split. Qed.

(* the unrestricted statement: every list item a scalar, a list or ANY map *)
Definition parse_core4_concl (d : doc) : Prop :=
  forall st0 ts tail, tail <> [] -> pbdepth st0 = 0 -> Forall2 tmatch ts (sh4 d) -> ptoks st0 = ts ++ tail ->
    exists st', parse_document ex2_numcanon (fun _ => false) true (u_space ex_cls) (u_alpha ex_cls) st0 = POk d st' /\ wext4b st0 st'.
(* at token level a multi-pair map item has no shape of its own in doc4_sh (item_sh4 gives the empty list): the canonical tokens of the
   shape are read as a list WITHOUT the item *)
Example core4_full_refuted : ~ parse_core4_concl r_multi.
Proof.
  intros H.
  destruct (H (mkPS (map tok_of_sh (sh4 r_multi) ++ [eof_tok]) None 0 [] 0 []) (map tok_of_sh (sh4 r_multi)) [eof_tok]) as (st' & Hp & _);
    [discriminate|reflexivity|apply toks_match|reflexivity|].
  vm_compute in Hp. discriminate Hp.
Qed.
