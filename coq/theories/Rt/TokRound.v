(* Token-level read-back theorem for the structural core of OCTAVE documents, at EVERY nesting depth.

   Fragment ("core documents"): envelope, optional separator, and a body of
     - assignments  KEY::v   with v a scalar read from one token (null, boolean, number, quoted string)
     - blocks       KEY:     with a NON-EMPTY list of children, nested to any depth,
   laid out as the emitter lays them out: one node per line, children preceded by an INDENT token whose
   count is 2*depth.  Token positions, and the text payload of structural tokens, are arbitrary (the parser
   does not read them in this fragment) -- the statement quantifies over them.

   Theorem shape:   Forall2 tmatch ts (doc_sh d) -> parse_document (state on ts) = POk d' st'  /\  d' = d.
   The link  tokenize (emit d) ~ doc_sh d  is the lexer half; it is checked by the correspondence run and
   proved for the scalar level in Syn/Escape.v, Syn/Quote.v. *)
From OV Require Import Base.Strs Lex.Lexer Syn.Ast Syn.Parser.
From Coq Require Import Lia.
Require Coq.Strings.String.
Import Coq.Strings.String.StringSyntax.
Open Scope N_scope.

(* ---- shapes ------------------------------------------------------------------------------------------ *)
Definition sh := (tkind * option tvalue)%type.
Definition tmatch (t : token) (s : sh) : Prop :=
  tk t = fst s /\ match snd s with Some v => tv t = v | None => True end.

Inductive sval := SNull | SBool (b : bool) | SNum (isf : bool) (c : str) | SStr (s : str).
Definition val_of (s : sval) : value :=
  match s with SNull => VNull | SBool b => VBool b | SNum f c => VNum f c | SStr s => VStr s end.
Definition sval_sh (s : sval) : sh :=
  match s with
  | SNull => (NULL, None)
  | SBool b => (BOOLEAN, Some (TVBool b))
  | SNum _ c => (NUMBER, Some (TVNum c))
  | SStr s => (STRING, Some (TVText s))
  end.
Definition sval_of (v : value) : option sval :=
  match v with
  | VNull => Some SNull | VBool b => Some (SBool b) | VNum f c => Some (SNum f c) | VStr s => Some (SStr s)
  | _ => None
  end.

Definition ind_count (d : nat) : N := N.of_nat (2 * d).
Definition indent_sh (d : nat) : list sh :=
  match d with O => [] | S _ => [(INDENT, Some (TVCount (ind_count d)))] end.

(* core fragment of Syn.Ast.node *)
Fixpoint core_node (n : node) : bool :=
  match n with
  | NAssign k v [] None => match sval_of v with Some _ => true | None => false end
  | NBlock k None ch [] => negb (match ch with [] => true | _ => false end) && forallb core_node ch
  | _ => false
  end.

Fixpoint node_sh (d : nat) (n : node) : list sh :=
  match n with
  | NAssign k v _ _ =>
      indent_sh d ++ [(IDENTIFIER, Some (TVText k)); (ASSIGN, None);
                      (match sval_of v with Some s => sval_sh s | None => (EOF, None) end); (NEWLINE, None)]
  | NBlock k _ ch _ =>
      indent_sh d ++ [(IDENTIFIER, Some (TVText k)); (BLOCK, None); (NEWLINE, None)] ++
      flat_map (node_sh (S d)) ch
  | _ => []
  end.

Definition nodes_sh (d : nat) (ns : list node) : list sh := flat_map (node_sh d) ns.

(* ---- state bookkeeping ------------------------------------------------------------------------------ *)
Lemma cur_hd st t r : ptoks st = t :: r -> cur st = t.
Proof. unfold cur; intros ->; reflexivity. Qed.
Lemma is_hd st t r k : ptoks st = t :: r -> is k st = tkind_eqb (tk t) k.
Proof. unfold is, ck; intros H; rewrite (cur_hd _ _ _ H); reflexivity. Qed.
Lemma adv_toks st t t2 r : ptoks st = t :: t2 :: r -> ptoks (adv st) = t2 :: r.
Proof. unfold adv; intros ->; reflexivity. Qed.
Lemma peek1_hd st t t2 r : ptoks st = t :: t2 :: r -> peek1 st = t2.
Proof. unfold peek1; intros ->; reflexivity. Qed.
Lemma warn_toks w st : ptoks (warn w st) = ptoks st.
Proof. reflexivity. Qed.
Lemma fuel_of_toks st ts : ptoks st = ts -> fuel_of st = S (length ts).
Proof. unfold fuel_of; intros ->; reflexivity. Qed.

Lemma track_dup_toks k l pos st : ptoks (snd (track_dup k l pos st)) = ptoks st.
Proof. unfold track_dup; destruct (find _ pos) as [[? ?]|]; reflexivity. Qed.

(* warnings only grow, and in this fragment only by ADVISORY records: 5 duplicate_key, 9 pattern_autoquote *)
Definition advisory (w : pwarn) : Prop := wsub w = 5 \/ wsub w = 9.
Definition wext (st st' : pstate) : Prop := exists l, pwarns st' = l ++ pwarns st /\ Forall advisory l.
Lemma wext_refl st : wext st st.
Proof. exists []. split; [reflexivity|constructor]. Qed.
Lemma wext_trans a b c : wext a b -> wext b c -> wext a c.
Proof. intros (l1 & H1 & F1) (l2 & H2 & F2). exists (l2 ++ l1). split; [rewrite H2, H1, app_assoc; reflexivity|apply Forall_app; split; assumption]. Qed.
Lemma adv_warns st : pwarns (adv st) = pwarns st.
Proof. unfold adv. destruct (ptoks st) as [|t [|t2 r]]; reflexivity. Qed.
Lemma wext_adv st : wext st (adv st).
Proof. exists []. split; [rewrite adv_warns; reflexivity|constructor]. Qed.
Lemma wext_warn w st : advisory w -> wext st (warn w st).
Proof. intros H. exists [w]. split; [reflexivity|constructor; [exact H|constructor]]. Qed.
Lemma wext_track_dup k l pos st : wext st (snd (track_dup k l pos st)).
Proof. unfold track_dup. destruct (find _ pos) as [[? ?]|]; cbn [snd]; [apply wext_warn; left; reflexivity|apply wext_refl]. Qed.

Section Core.
Variable numcanon : str -> option (bool * str).
Variable holo_ok : str -> bool.
Variable strict : bool.
Variable sp alpha : N -> bool.

Definition num_ok (s : sval) : Prop :=
  match s with SNum f c => numcanon c = Some (f, c) | _ => True end.

Notation pv := (parse_value numcanon holo_ok strict sp).
Notation psec := (parse_section numcanon holo_ok strict sp alpha).
Notation bloop := (block_loop numcanon holo_ok strict sp alpha).
Notation dloop := (doc_loop numcanon holo_ok strict sp alpha).

(* a scalar token followed by NEWLINE is read as exactly that scalar; one token is consumed *)
Lemma pv_scalar f st t nt r sv :
  ptoks st = t :: nt :: r -> tmatch t (sval_sh sv) -> tk nt = NEWLINE -> num_ok sv ->
  pv (S f) st = POk (val_of sv) (adv st).
Proof.
  intros Hts [Hk Hv] Hn Hnum.
  cbn [parse_value].
  rewrite (cur_hd _ _ _ Hts), (peek1_hd _ _ _ _ Hts), Hn.
  destruct sv as [|b|isf c|s]; cbn in Hk, Hv; rewrite Hk; cbn.
  - reflexivity.
  - rewrite Hv; reflexivity.
  - rewrite Hv. cbn in Hnum. rewrite Hnum. reflexivity.
  - unfold text_of; rewrite Hv; reflexivity.
Qed.

Lemma tkeq_refl k : tkind_eqb k k = true.
Proof. destruct k; reflexivity. Qed.

(* KEY::scalar NEWLINE  is read as that assignment; the NEWLINE is left for the enclosing loop *)
Lemma psec_assign f leading st ti ta tv_ tn r k sv :
  ptoks st = ti :: ta :: tv_ :: tn :: r ->
  tmatch ti (IDENTIFIER, Some (TVText k)) -> tmatch ta (ASSIGN, None) -> tmatch tv_ (sval_sh sv) ->
  tk tn = NEWLINE -> num_ok sv ->
  exists st', psec (S f) leading st = POk (Some (NAssign k (val_of sv) leading None)) st' /\ ptoks st' = tn :: r /\ wext st st'.
Proof.
  intros Hts [Hik Hiv] [Hak _] Hv Hn Hnum. cbn in Hik, Hiv, Hak.
  cbn [parse_section].
  rewrite (is_hd _ _ _ SECTION Hts), (is_hd _ _ _ IDENTIFIER Hts), Hik. cbn [tkind_eqb tkind_code N.eqb Pos.eqb negb].
  pose proof (adv_toks _ _ _ _ Hts) as H1.
  rewrite (is_hd _ _ _ LIST_START H1), Hak. cbn [tkind_eqb tkind_code N.eqb Pos.eqb].
  rewrite (is_hd _ _ _ ASSIGN H1), (is_hd _ _ _ FLOW H1), Hak. cbn [tkind_eqb tkind_code N.eqb Pos.eqb orb].
  pose proof (adv_toks _ _ _ _ H1) as H2.
  rewrite (fuel_of_toks _ _ H2). cbn [length Nat.add].
  rewrite (pv_scalar _ _ _ _ _ sv H2 Hv Hn Hnum).
  cbn [bind].
  pose proof (adv_toks _ _ _ _ H2) as H3.
  rewrite (cur_hd _ _ _ Hts).
  assert (Hk : text_of ti = k) by (unfold text_of; rewrite Hiv; reflexivity). rewrite !Hk.
  set (st6 := match is_vstr (val_of sv) with Some s => _ | None => _ end).
  assert (H6 : ptoks st6 = tn :: r).
  { subst st6. destruct (is_vstr (val_of sv)); [destruct (_ && _)|]; [rewrite warn_toks| |]; exact H3. }
  assert (W6 : wext st st6).
  { assert (W3 : wext st (adv (adv (adv st)))) by (eapply wext_trans; [eapply wext_trans; apply wext_adv|apply wext_adv]).
    subst st6. destruct (is_vstr (val_of sv)); [destruct (_ && _)|]; try exact W3.
    eapply wext_trans; [exact W3|apply wext_warn; right; reflexivity]. }
  rewrite (is_hd _ _ _ COMMENT H6), Hn. cbn [tkind_eqb tkind_code N.eqb Pos.eqb].
  eexists; split; [reflexivity|split; [exact H6|exact W6]].
Qed.

(* ---- what may follow the children of a block whose child indent is ci ------------------------------------ *)
Definition ends_blockb (ci : N) (t : token) : bool :=
  tkind_eqb (tk t) EOF || tkind_eqb (tk t) ENVELOPE_END ||
  (tkind_eqb (tk t) INDENT && (count_of t <? ci)) ||
  negb (kin (tk t) [INDENT; COMMENT; NEWLINE]).
Definition ends_block (ci : N) (rest : list token) : Prop :=
  match rest with t :: _ => ends_blockb ci t = true | [] => False end.

Lemma ends_block_mono ci ci' rest : ci <= ci' -> ends_block ci rest -> ends_block ci' rest.
Proof.
  destruct rest as [|t r]; [tauto|]. unfold ends_block, ends_blockb. intros Hle H.
  destruct (tk t); cbn in *; try exact H.
  rewrite Bool.orb_false_r in *. apply N.ltb_lt in H. apply N.ltb_lt. lia.
Qed.

(* fuel measure *)
Fixpoint sz (n : node) : nat :=
  match n with
  | NBlock _ _ ch _ => (2 + (fix lsz (l : list node) : nat := match l with [] => 1 | c :: r => 3 + sz c + lsz r end) ch)%nat
  | _ => 1%nat
  end.
Fixpoint lsz (l : list node) : nat := match l with [] => 1%nat | c :: r => (3 + sz c + lsz r)%nat end.
Lemma sz_block k t ch l : sz (NBlock k t ch l) = (2 + lsz ch)%nat.
Proof. induction ch as [|c r IH]; [reflexivity|]. cbn [sz lsz] in *. lia. Qed.

(* nested induction principle for node *)
Section NodeInd.
Variable P : node -> Prop.
Hypothesis HA : forall k v l t, P (NAssign k v l t).
Hypothesis HB : forall k t ch l, Forall P ch -> P (NBlock k t ch l).
Hypothesis HS : forall i k a ch l, Forall P ch -> P (NSection i k a ch l).
Hypothesis HC : forall t, P (NComment t).
Fixpoint node_ind2 (n : node) : P n :=
  match n with
  | NAssign k v l t => HA k v l t
  | NBlock k t ch l =>
      HB k t ch l ((fix go (l : list node) : Forall P l :=
                      match l with [] => Forall_nil _ | x :: r => Forall_cons _ (node_ind2 x) (go r) end) ch)
  | NSection i k a ch l =>
      HS i k a ch l ((fix go (l : list node) : Forall P l :=
                      match l with [] => Forall_nil _ | x :: r => Forall_cons _ (node_ind2 x) (go r) end) ch)
  | NComment t => HC t
  end.
End NodeInd.

Lemma skip_nl_step f st t t2 r ks :
  ptoks st = t :: t2 :: r -> kin (tk t) ks = true -> tk t <> EOF ->
  skip_kinds ks (S f) st = skip_kinds ks f (adv st).
Proof.
  intros Hts Hk Hne. cbn [skip_kinds]. unfold ck. rewrite (cur_hd _ _ _ Hts), Hk, (is_hd _ _ _ EOF Hts).
  destruct (tk t); try reflexivity. congruence.
Qed.
Lemma skip_stop f st t r ks : ptoks st = t :: r -> kin (tk t) ks = false -> skip_kinds ks f st = st.
Proof. intros Hts Hk. destruct f; [reflexivity|]. cbn [skip_kinds]. unfold ck. rewrite (cur_hd _ _ _ Hts), Hk. reflexivity. Qed.

Definition num_ok_v (v : value) : Prop := match sval_of v with Some s => num_ok s | None => True end.
Fixpoint nums_ok (n : node) : Prop :=
  match n with
  | NAssign _ v _ _ => num_ok_v v
  | NBlock _ _ ch _ => (fix go (l : list node) : Prop := match l with [] => True | c :: r => nums_ok c /\ go r end) ch
  | _ => True
  end.
Fixpoint nums_ok_l (l : list node) : Prop := match l with [] => True | c :: r => nums_ok c /\ nums_ok_l r end.
Lemma nums_ok_block k t ch l : nums_ok (NBlock k t ch l) = nums_ok_l ch.
Proof. cbn [nums_ok]. induction ch as [|c r IH]; [reflexivity|]. cbn [nums_ok_l]. rewrite <- IH. reflexivity. Qed.

(* the statement proved by nested induction: a core node at depth D, read by parse_section from the token
   after its INDENT, is read back as itself, and the state is left
     - on the NEWLINE closing an assignment line, or
     - on the first token after the last descendant of a block. *)
Definition tail_ok (n : node) (tail : list token) : Prop :=
  match n with
  | NAssign _ _ _ _ => exists tn, tail = [tn] /\ tk tn = NEWLINE
  | _ => tail = []
  end.

Definition P_node (n : node) : Prop :=
  core_node n = true -> nums_ok n ->
  forall D f st ts rest,
    (sz n <= f)%nat ->
    Forall2 tmatch ts (node_sh D n) ->
    ptoks st = skipn (length (indent_sh D)) ts ++ rest ->
    ends_block (ind_count (S D)) rest ->
    exists st' tail, psec f [] st = POk (Some n) st' /\ ptoks st' = tail ++ rest /\ tail_ok n tail /\ wext st st'.

Ltac is_step H Hk :=
  repeat rewrite (is_hd _ _ _ _ H); rewrite ?Hk;
  cbn [tkind_eqb tkind_code N.eqb Pos.eqb orb andb negb kin existsb].

Lemma ind_count_S d : ind_count (S d) = ind_count d + 2.
Proof. unfold ind_count. lia. Qed.


(* one-step unfoldings with the mutually defined functions kept folded *)
Lemma bloop_eq f ci cli pending acc dups st :
  bloop (S f) ci cli pending acc dups st =
      let fin (st' : pstate) := POk (rev acc ++ comments_as_nodes pending) st' in
      if is EOF st || is ENVELOPE_END st then fin st
      else if is INDENT st then
        let n := count_of (cur st) in
        if n <? ci then fin st else bloop f ci n pending acc dups (adv st)
      else if is COMMENT st then bloop f ci cli (pending ++ [text_of (cur st)]) acc dups (adv st)
      else if is NEWLINE st then bloop f ci 0 pending acc dups (adv st)
      else if cli <? ci then fin st
      else if is FENCE_OPEN st then
        do (z, st1) <- parse_literal_zone sp st;
        bloop f ci 0 [] (NAssign [] z pending None :: acc) dups st1
      else
        let line := tline (cur st) in
        do (child, st1) <- psec f pending st;
        match child with
        | Some n =>
            let '(dups', st2) := match node_key_line n line with
                                 | Some (k, l) => track_dup k l dups st1
                                 | None => (dups, st1)
                                 end in
            bloop f ci 0 [] (n :: acc) dups' st2
        | None =>
            if kin (ck st1) [NEWLINE; INDENT; COMMENT] then bloop f ci cli [] acc dups st1
            else POk (rev acc) st1
        end.
Proof. reflexivity. Qed.

Lemma psec_block_eq f leading st :
  is SECTION st = false -> is IDENTIFIER st = true -> is LIST_START (adv st) = false ->
  is ASSIGN (adv st) = false -> is FLOW (adv st) = false -> is BLOCK (adv st) = true ->
  psec (S f) leading st =
          let key := text_of (cur st) in
          let st2 := adv st in
          let bt := cur st2 in
          let st3 := adv st2 in
          if is IDENTIFIER st3 && N.eqb (tline (cur st3)) (tline bt) then err_at e001 bt
          else
            let st4 := skip_kinds [NEWLINE; COMMENT] (fuel_of st3) st3 in
            if is FENCE_OPEN st4 then
              do (z, st5) <- parse_literal_zone sp st4;
              POk (Some (NBlock key None [NAssign [] z [] None] leading)) st5
            else if is INDENT st4 then
              let ci := count_of (cur st4) in
              do (children, st5) <- bloop f ci ci [] [] [] (adv st4);
              POk (Some (NBlock key None children leading)) st5
            else POk (Some (NBlock key None [] leading)) st4.
Proof. intros H1 H2 H3 H4 H5 H6. cbn [parse_section]. rewrite H1, H2, H3. cbn [negb]. rewrite H4, H5, H6. reflexivity. Qed.

Lemma bloop_children ch :
  Forall P_node ch -> forallb core_node ch = true -> nums_ok_l ch ->
  forall d f cli acc dups st ts rest,
    (lsz ch <= f)%nat ->
    Forall2 tmatch ts (nodes_sh (S d) ch) ->
    ptoks st = ts ++ rest ->
    ends_block (ind_count (S d)) rest ->
    (ch = [] -> cli = 0) ->
    exists st', bloop f (ind_count (S d)) cli [] acc dups st = POk (rev acc ++ ch) st' /\ ptoks st' = rest /\ wext st st'.
Proof.
  induction ch as [|c cs IHl]; intros HP Hcore Hnum d f cli acc dups st ts rest Hf Hts Hst Hend Hcli.
  - inversion Hts; subst ts. cbn [app] in Hst. destruct rest as [|t r]; [destruct Hend|].
    cbn [lsz] in Hf. destruct f as [|f]; [lia|]. rewrite (Hcli eq_refl).
    rewrite bloop_eq. cbv zeta. cbn [ends_block] in Hend. unfold ends_blockb in Hend.
    repeat rewrite (is_hd _ _ _ _ Hst). rewrite (cur_hd _ _ _ Hst).
    assert (H0 : (0 <? ind_count (S d)) = true) by (apply N.ltb_lt; unfold ind_count; lia).
    rewrite H0.
    destruct (tk t); cbn in Hend |- *; rewrite ?app_nil_r; try discriminate Hend;
      rewrite ?Bool.orb_false_r in Hend; rewrite ?Hend; eexists; (split; [reflexivity|split; [exact Hst|apply wext_refl]]).
  - inversion HP as [|? ? HPc HPcs]; subst.
    cbn [forallb] in Hcore. apply andb_prop in Hcore. destruct Hcore as [Hcc Hccs].
    destruct Hnum as [Hnc Hncs].
    cbn [nodes_sh flat_map] in Hts. apply Forall2_app_inv_r in Hts.
    destruct Hts as (ts1 & ts2 & Hts1 & Hts2 & ->).
    cbn [lsz] in Hf.
    (* the INDENT token *)
    assert (Hsh : exists body, node_sh (S d) c = (INDENT, Some (TVCount (ind_count (S d)))) :: body /\ body <> []).
    { destruct c; cbn [core_node] in Hcc; try discriminate Hcc; cbn [node_sh indent_sh app]; eexists; split; try reflexivity; discriminate. }
    destruct Hsh as (body & Hsh & Hbody). pose proof Hts1 as Hts1'. rewrite Hsh in Hts1'.
    inversion Hts1' as [|tI ? ts1' ? [HIk HIv] Hbody2]; subst. cbn [fst snd] in HIk, HIv.
    destruct ts1' as [|tb ts1'']; [exfalso; apply Hbody; inversion Hbody2; reflexivity|].
    rewrite <- app_assoc in Hst. rewrite <- !app_comm_cons in Hst.
    destruct f as [|f]; [lia|]. rewrite bloop_eq. cbv zeta.
    is_step Hst HIk. rewrite (cur_hd _ _ _ Hst).
    assert (HIc : count_of tI = ind_count (S d)) by (unfold count_of; rewrite HIv; reflexivity). rewrite !HIc. rewrite N.ltb_irrefl.
    pose proof (adv_toks _ _ _ _ Hst) as H1.
    (* the child *)
    destruct f as [|f]; [lia|].
    assert (Hend' : ends_block (ind_count (S (S d))) (ts2 ++ rest)).
    { destruct cs as [|c2 cs'].
      - inversion Hts2; subst. cbn [app]. eapply ends_block_mono; [|exact Hend]. rewrite (ind_count_S (S d)). lia.
      - cbn [forallb] in Hccs. apply andb_prop in Hccs. destruct Hccs as [Hc2 _].
        cbn [nodes_sh flat_map] in Hts2. apply Forall2_app_inv_r in Hts2. destruct Hts2 as (u1 & u2 & Hu1 & _ & ->).
        assert (Hsh2 : exists body2, node_sh (S d) c2 = (INDENT, Some (TVCount (ind_count (S d)))) :: body2).
        { destruct c2; cbn [core_node] in Hc2; try discriminate Hc2; cbn [node_sh indent_sh app]; eexists; reflexivity. }
        destruct Hsh2 as (body2 & Hsh2). rewrite Hsh2 in Hu1. inversion Hu1 as [|tJ ? ? ? [HJk HJv] _]; subst. cbn [fst snd] in HJk, HJv.
        cbn [app ends_block]. unfold ends_blockb. rewrite HJk. unfold count_of. rewrite HJv.
        cbn [tkind_eqb tkind_code N.eqb Pos.eqb orb andb].
        assert (Hlt : (ind_count (S d) <? ind_count (S (S d))) = true) by (apply N.ltb_lt; rewrite (ind_count_S (S d)); lia).
        rewrite Hlt. reflexivity. }
    specialize (HPc Hcc Hnc (S d) f (adv st) (tI :: tb :: ts1'') (ts2 ++ rest)).
    cbn [indent_sh length skipn] in HPc. rewrite <- app_comm_cons in HPc.
    destruct HPc as (st1 & tail & Hp & Hst1 & Htail & W1); [lia|exact Hts1|exact H1|exact Hend'|].
    (* first token of the child is an IDENTIFIER *)
    assert (Hbk : tk tb = IDENTIFIER).
    { rewrite Hsh in Hts1. inversion Hts1 as [|? ? ? ? _ Hb]; subst. destruct c; cbn [core_node] in Hcc; try discriminate Hcc;
      cbn [node_sh indent_sh app] in Hsh; inversion Hsh; subst body; inversion Hb as [|? ? ? ? [Hk _] _]; exact Hk. }
    rewrite bloop_eq. cbv zeta. is_step H1 Hbk. rewrite N.ltb_irrefl. rewrite Hp. cbn [bind].
    (* after the child *)
    set (dl := match node_key_line c (tline (cur (adv st))) with Some (k, l) => track_dup k l dups st1 | None => (dups, st1) end).
    assert (Hdl : ptoks (snd dl) = tail ++ ts2 ++ rest).
    { subst dl. destruct (node_key_line c _) as [[k l]|]; [rewrite track_dup_toks|]; exact Hst1. }
    assert (Wdl : wext st (snd dl)).
    { eapply wext_trans; [apply wext_adv|]. eapply wext_trans; [exact W1|].
      subst dl. destruct (node_key_line c _) as [[k l]|]; [apply wext_track_dup|apply wext_refl]. }
    destruct dl as [dups' st2] eqn:Edl. cbn [snd] in Hdl, Wdl.
    assert (Hrest : exists t0 r0, ts2 ++ rest = t0 :: r0).
    { destruct rest as [|t0 r0]; [destruct Hend|]. destruct ts2; cbn [app]; eauto. }
    destruct c as [k v lead tr|k tg chn lead| |]; cbn [core_node] in Hcc; try discriminate Hcc.
    + (* assignment: one more iteration for its NEWLINE *)
      destruct Htail as (tn & -> & Htn). cbn [app] in Hdl.
      destruct Hrest as (t0 & r0 & Hr). rewrite Hr in Hdl.
      destruct f as [|f]; [cbn [sz] in Hf; lia|]. rewrite bloop_eq. cbv zeta. is_step Hdl Htn.
      pose proof (adv_toks _ _ _ _ Hdl) as H2. rewrite <- Hr in H2.
      destruct (IHl HPcs Hccs Hncs d f 0 (NAssign k v lead tr :: acc) dups' (adv st2) ts2 rest) as (st' & Hl & Hst' & W');
        [cbn [sz] in Hf; lia|exact Hts2|exact H2|exact Hend|reflexivity|].
      exists st'. split; [|split; [exact Hst'|eapply wext_trans; [exact Wdl|eapply wext_trans; [apply wext_adv|exact W']]]].
      rewrite Hl. cbn [rev]. rewrite <- app_assoc. reflexivity.
    + cbn [tail_ok] in Htail. subst tail. cbn [app] in Hdl.
      destruct (IHl HPcs Hccs Hncs d f 0 (NBlock k tg chn lead :: acc) dups' st2 ts2 rest) as (st' & Hl & Hst' & W');
        [lia|exact Hts2|exact Hdl|exact Hend|reflexivity|].
      exists st'. split; [|split; [exact Hst'|eapply wext_trans; [exact Wdl|exact W']]].
      rewrite Hl. cbn [rev]. rewrite <- app_assoc. reflexivity.
Qed.

Lemma sval_of_val v s : sval_of v = Some s -> val_of s = v.
Proof. destruct v; cbn; intros H; inversion H; reflexivity. Qed.

Lemma F2_length {A B} (R : A -> B -> Prop) l1 l2 : Forall2 R l1 l2 -> length l1 = length l2.
Proof. induction 1; cbn; congruence. Qed.

Lemma Forall2_indent_split D ts (body : list sh) :
  Forall2 tmatch ts (indent_sh D ++ body) ->
  exists tsb, skipn (length (indent_sh D)) ts = tsb /\ Forall2 tmatch tsb body.
Proof.
  intros H. apply Forall2_app_inv_r in H. destruct H as (a & b & Ha & Hb & ->).
  exists b. split; [|exact Hb]. rewrite <- (F2_length _ _ _ Ha). rewrite skipn_app, Nat.sub_diag, skipn_all. reflexivity.
Qed.

Theorem all_P_node : forall n, P_node n.
Proof.
  apply node_ind2; unfold P_node.
  - (* assignment *)
    intros k v l t Hcore Hnum D f st ts rest Hf Hts Hst _.
    cbn [core_node] in Hcore. destruct l; [|discriminate]. destruct t; [discriminate|].
    destruct (sval_of v) as [sv|] eqn:Esv; [|discriminate].
    cbn [node_sh] in Hts. rewrite Esv in Hts.
    apply Forall2_indent_split in Hts. destruct Hts as (tsb & Hskip & Hb). rewrite Hskip in Hst. clear Hskip.
    inversion Hb as [|ti ? ? ? Hi Hb1]; subst. inversion Hb1 as [|ta ? ? ? Ha Hb2]; subst.
    inversion Hb2 as [|tv_ ? ? ? Hv Hb3]; subst. inversion Hb3 as [|tn ? ? ? [Hn _] Hb4]; subst. inversion Hb4; subst.
    cbn [fst] in Hn. cbn [app] in Hst.
    cbn [sz] in Hf. destruct f as [|f]; [lia|].
    cbn [nums_ok] in Hnum. unfold num_ok_v in Hnum. rewrite Esv in Hnum.
    destruct (psec_assign f [] st ti ta tv_ tn rest k sv Hst Hi Ha Hv Hn Hnum) as (st' & Hp & Hst' & W').
    rewrite (sval_of_val _ _ Esv) in Hp.
    exists st', [tn]. split; [exact Hp|]. split; [exact Hst'|]. split; [|exact W']. exists tn. split; [reflexivity|exact Hn].
  - (* block *)
    intros k tg ch l IH Hcore Hnum D f st ts rest Hf Hts Hst Hend.
    cbn [core_node] in Hcore. destruct tg; [discriminate|]. destruct l; [|discriminate].
    apply andb_prop in Hcore. destruct Hcore as [Hne Hcc].
    rewrite nums_ok_block in Hnum. rewrite sz_block in Hf.
    cbn [node_sh] in Hts. apply Forall2_indent_split in Hts. destruct Hts as (tsb & Hskip & Hb). rewrite Hskip in Hst. clear Hskip.
    inversion Hb as [|ti ? ? ? [Hik Hiv] Hb1]; subst. inversion Hb1 as [|tb ? ? ? [Hbk _] Hb2]; subst.
    inversion Hb2 as [|tn ? tsc ? [Hnk _] Hb3]; subst. cbn [fst snd] in Hik, Hiv, Hbk, Hnk.
    rewrite <- !app_comm_cons in Hst.
    (* the first child's INDENT *)
    destruct ch as [|c cs]; [discriminate Hne|].
    assert (HtI : exists tI r0, tsc = tI :: r0 /\ tk tI = INDENT /\ count_of tI = ind_count (S D)).
    { cbn [flat_map] in Hb3. apply Forall2_app_inv_r in Hb3. destruct Hb3 as (u1 & u2 & Hu1 & _ & ->).
      cbn [forallb] in Hcc. apply andb_prop in Hcc. destruct Hcc as [Hc _].
      assert (Hsh : exists body, node_sh (S D) c = (INDENT, Some (TVCount (ind_count (S D)))) :: body).
      { destruct c; cbn [core_node] in Hc; try discriminate Hc; cbn [node_sh indent_sh app]; eexists; reflexivity. }
      destruct Hsh as (body & Hsh). rewrite Hsh in Hu1. inversion Hu1 as [|tI ? r1 ? [HIk HIv] _]; subst. cbn [fst snd] in HIk, HIv.
      exists tI, (r1 ++ u2). split; [reflexivity|]. split; [exact HIk|]. unfold count_of. rewrite HIv. reflexivity. }
    destruct HtI as (tI & r0 & Etsc & HIk & HIc).
    pose proof (adv_toks _ _ _ _ Hst) as H1. pose proof (adv_toks _ _ _ _ H1) as H2.
    destruct f as [|f]; [lia|].
    rewrite psec_block_eq.
    2:{ rewrite (is_hd _ _ _ _ Hst), Hik. reflexivity. }
    2:{ rewrite (is_hd _ _ _ _ Hst), Hik. reflexivity. }
    2:{ rewrite (is_hd _ _ _ _ H1), Hbk. reflexivity. }
    2:{ rewrite (is_hd _ _ _ _ H1), Hbk. reflexivity. }
    2:{ rewrite (is_hd _ _ _ _ H1), Hbk. reflexivity. }
    2:{ rewrite (is_hd _ _ _ _ H1), Hbk. reflexivity. }
    cbv zeta. is_step H2 Hnk.
    rewrite (cur_hd _ _ _ Hst). assert (Hk : text_of ti = k) by (unfold text_of; rewrite Hiv; reflexivity). rewrite Hk.
    (* skip the NEWLINE, stop on the INDENT *)
    assert (H2' : ptoks (adv (adv st)) = tn :: tI :: r0 ++ rest) by (rewrite H2, Etsc; reflexivity).
    rewrite (fuel_of_toks _ _ H2'). cbn [length].
    rewrite (skip_nl_step _ _ _ _ _ _ H2'); [|rewrite Hnk; reflexivity|rewrite Hnk; discriminate].
    pose proof (adv_toks _ _ _ _ H2') as H3.
    rewrite (skip_stop _ _ _ _ _ H3); [|rewrite HIk; reflexivity].
    is_step H3 HIk. rewrite (cur_hd _ _ _ H3), HIc.
    (* re-fold the consumed INDENT into one more loop iteration *)
    assert (Hfold : bloop f (ind_count (S D)) (ind_count (S D)) [] [] [] (adv (adv (adv (adv st)))) =
                    bloop (S f) (ind_count (S D)) (ind_count (S D)) [] [] [] (adv (adv (adv st)))).
    { rewrite bloop_eq. cbv zeta. is_step H3 HIk. rewrite (cur_hd _ _ _ H3), HIc, N.ltb_irrefl. reflexivity. }
    rewrite Hfold.
    destruct (bloop_children (c :: cs) IH Hcc Hnum D (S f) (ind_count (S D)) [] [] (adv (adv (adv st))) tsc rest)
      as (st' & Hl & Hst' & W'); [lia|exact Hb3|rewrite H3, Etsc; reflexivity|exact Hend|discriminate|].
    rewrite Hl. cbn [bind rev app].
    exists st', []. split; [reflexivity|]. split; [exact Hst'|]. split; [reflexivity|].
    eapply wext_trans; [|exact W']. eapply wext_trans; [eapply wext_trans; apply wext_adv|apply wext_adv].
  - intros i k a ch l _ Hcore; discriminate Hcore.
  - intros t Hcore; discriminate Hcore.
Qed.

(* ---- document level ---------------------------------------------------------------------------------------- *)
Lemma node_sh_len_pos D n : core_node n = true -> (3 <= length (node_sh D n))%nat.
Proof.
  destruct n; cbn [core_node]; try discriminate; intros _; cbn [node_sh]; rewrite !app_length; cbn [length]; lia.
Qed.

Lemma node_sh_block D k t ch l :
  node_sh D (NBlock k t ch l) = indent_sh D ++ [(IDENTIFIER, Some (TVText k)); (BLOCK, None); (NEWLINE, None)] ++ nodes_sh (S D) ch.
Proof. reflexivity. Qed.

Lemma sz_le_len n : forall D, core_node n = true -> (sz n + 3 <= 3 * length (node_sh D n))%nat.
Proof.
  induction n using node_ind2; intros D Hc; cbn [core_node] in Hc; try discriminate Hc.
  - cbn [sz node_sh]. rewrite app_length. cbn [length]. lia.
  - destruct t; [discriminate|]. destruct l; [|discriminate]. apply andb_prop in Hc. destruct Hc as [_ Hcc].
    rewrite sz_block, node_sh_block. rewrite !app_length. cbn [length].
    assert (Hl : (lsz ch <= 1 + 3 * length (nodes_sh (S D) ch))%nat).
    { clear -H Hcc. induction ch as [|c cs IH]; [cbn; lia|].
      inversion H as [|? ? Hc Hcs]; subst. cbn [forallb] in Hcc. apply andb_prop in Hcc. destruct Hcc as [Hcc1 Hcc2].
      cbn [lsz nodes_sh flat_map]. rewrite app_length. specialize (Hc (S D) Hcc1). specialize (IH Hcs Hcc2). unfold nodes_sh in IH. lia. }
    unfold sh in *. lia.
Qed.

Definition first_key_not_meta (ns : list node) : bool :=
  match ns with
  | NAssign k _ _ _ :: _ => negb (str_eqb k (lit "META"))
  | NBlock k _ _ _ :: _ => negb (str_eqb k (lit "META"))
  | _ => true
  end.

Definition core_doc (d : doc) : bool :=
  match dfront d, dmeta d, dtrailing d with
  | None, [], [] => forallb core_node (dsections d) && first_key_not_meta (dsections d)
  | _, _, _ => false
  end.

Definition doc_sh (d : doc) : list sh :=
  (match dgrammar d with Some g => [(GRAMMAR_SENTINEL, Some (TVText g)); (NEWLINE, None)] | None => [] end) ++
  [(ENVELOPE_START, Some (TVText (dname d))); (NEWLINE, None)] ++
  (if dsep d then [(SEPARATOR, None); (NEWLINE, None)] else []) ++
  nodes_sh 0 (dsections d) ++ [(ENVELOPE_END, None)].

Lemma dloop_eq f pending acc dups st :
  dloop (S f) pending acc dups st =
      if is ENVELOPE_END st || is EOF st then POk (rev acc, pending) st
      else if is INDENT st then dloop f pending acc dups (adv st)
      else if is COMMENT st then dloop f (pending ++ [text_of (cur st)]) acc dups (adv st)
      else if is NEWLINE st then dloop f pending acc dups (adv st)
      else
        let line := tline (cur st) in
        do (sec, st1) <- psec (vfuel st + fuel_of st) pending st;
        match sec with
        | Some n =>
            let '(dups', st2) := match node_key_line n line with
                                 | Some (k, l) => track_dup k l dups st1
                                 | None => (dups, st1)
                                 end in
            dloop f [] (n :: acc) dups' st2
        | None =>
            dloop f [] acc dups (if is ENVELOPE_END st1 || is EOF st1 then st1 else adv st1)
        end.
Proof. reflexivity. Qed.

Lemma dloop_nodes ns :
  forallb core_node ns = true -> nums_ok_l ns ->
  forall f acc dups st ts tE tail,
    (2 * length ns + 1 <= f)%nat ->
    Forall2 tmatch ts (nodes_sh 0 ns) ->
    ptoks st = ts ++ tE :: tail -> tk tE = ENVELOPE_END ->
    exists st', dloop f [] acc dups st = POk (rev acc ++ ns, []) st' /\ ptoks st' = tE :: tail /\ wext st st'.
Proof.
  induction ns as [|c cs IH]; intros Hcore Hnum f acc dups st ts tE tail Hf Hts Hst HE.
  - inversion Hts; subst. cbn [app] in Hst. destruct f as [|f]; [cbn in Hf; lia|].
    rewrite dloop_eq. is_step Hst HE. rewrite app_nil_r. eexists; split; [reflexivity|split; [exact Hst|apply wext_refl]].
  - cbn [forallb] in Hcore. apply andb_prop in Hcore. destruct Hcore as [Hcc Hccs]. destruct Hnum as [Hnc Hncs].
    cbn [nodes_sh flat_map] in Hts. apply Forall2_app_inv_r in Hts. destruct Hts as (ts1 & ts2 & Hts1 & Hts2 & ->).
    rewrite <- app_assoc in Hst. cbn [length] in Hf.
    destruct f as [|f]; [lia|].
    (* first token: IDENTIFIER *)
    assert (Hfirst : exists tb r1, ts1 = tb :: r1 /\ tk tb = IDENTIFIER).
    { destruct c; cbn [core_node] in Hcc; try discriminate Hcc; cbn [node_sh indent_sh app] in Hts1;
        inversion Hts1 as [|tb ? r1 ? [Hk _] _]; subst; exists tb, r1; split; try reflexivity; exact Hk. }
    destruct Hfirst as (tb & r1 & -> & Hbk). rewrite <- app_comm_cons in Hst.
    rewrite dloop_eq. is_step Hst Hbk. cbv zeta.
    assert (Hend' : ends_block (ind_count 1) (ts2 ++ tE :: tail)).
    { destruct cs as [|c2 cs'].
      - inversion Hts2; subst. cbn [app ends_block]. unfold ends_blockb. rewrite HE. reflexivity.
      - cbn [forallb] in Hccs. apply andb_prop in Hccs. destruct Hccs as [Hc2 _].
        cbn [nodes_sh flat_map] in Hts2. apply Forall2_app_inv_r in Hts2. destruct Hts2 as (u1 & u2 & Hu1 & _ & ->).
        destruct c2; cbn [core_node] in Hc2; try discriminate Hc2; cbn [node_sh indent_sh app] in Hu1;
          inversion Hu1 as [|tJ ? ? ? [HJk _] _]; subst; cbn [fst] in HJk; cbn [app ends_block]; unfold ends_blockb; rewrite HJk; reflexivity. }
    pose proof (all_P_node c Hcc Hnc 0%nat (vfuel st + fuel_of st)%nat st (tb :: r1) (ts2 ++ tE :: tail)) as HP.
    cbn [indent_sh length skipn] in HP.
    destruct HP as (st1 & tl & Hp & Hst1 & Htl & W1); [|exact Hts1|rewrite <- app_comm_cons; exact Hst|exact Hend'|].
    { pose proof (sz_le_len c 0%nat Hcc) as Hsz. pose proof (F2_length _ _ _ Hts1) as Hlen.
      unfold vfuel. rewrite (fuel_of_toks _ _ Hst). cbn [length]. rewrite app_length. cbn [length] in Hlen. lia. }
    rewrite Hp. cbn [bind].
    set (dl := match node_key_line c (tline (cur st)) with Some (k, l) => track_dup k l dups st1 | None => (dups, st1) end).
    assert (Hdl : ptoks (snd dl) = tl ++ ts2 ++ tE :: tail).
    { subst dl. destruct (node_key_line c _) as [[k l]|]; [rewrite track_dup_toks|]; exact Hst1. }
    assert (Wdl : wext st (snd dl)).
    { eapply wext_trans; [exact W1|]. subst dl. destruct (node_key_line c _) as [[k l]|]; [apply wext_track_dup|apply wext_refl]. }
    destruct dl as [dups' st2] eqn:Edl. cbn [snd] in Hdl, Wdl.
    destruct c as [k v lead tr|k tg chn lead| |]; cbn [core_node] in Hcc; try discriminate Hcc.
    + destruct Htl as (tn & -> & Htn). cbn [app] in Hdl.
      destruct f as [|f]; [lia|]. rewrite dloop_eq. is_step Hdl Htn.
      assert (Hne : exists t0 r0, ts2 ++ tE :: tail = t0 :: r0) by (destruct ts2; cbn [app]; eauto).
      destruct Hne as (t0 & r0 & Hr). rewrite Hr in Hdl. pose proof (adv_toks _ _ _ _ Hdl) as H2. rewrite <- Hr in H2.
      destruct (IH Hccs Hncs f (NAssign k v lead tr :: acc) dups' (adv st2) ts2 tE tail) as (st' & Hl & Hst' & W');
        [lia|exact Hts2|exact H2|exact HE|].
      exists st'. split; [|split; [exact Hst'|eapply wext_trans; [exact Wdl|eapply wext_trans; [apply wext_adv|exact W']]]].
      rewrite Hl. cbn [rev]. rewrite <- app_assoc. reflexivity.
    + cbn [tail_ok] in Htl. subst tl. cbn [app] in Hdl.
      destruct (IH Hccs Hncs f (NBlock k tg chn lead :: acc) dups' st2 ts2 tE tail) as (st' & Hl & Hst' & W');
        [lia|exact Hts2|exact Hdl|exact HE|].
      exists st'. split; [|split; [exact Hst'|eapply wext_trans; [exact Wdl|exact W']]].
      rewrite Hl. cbn [rev]. rewrite <- app_assoc. reflexivity.
Qed.

Ltac wadv := repeat first [apply wext_refl | apply wext_adv | (eapply wext_trans; [|apply wext_adv])].

Lemma skip_one_nl ks st tn tx r f :
  ptoks st = tn :: tx :: r -> tk tn = NEWLINE -> kin NEWLINE ks = true -> kin (tk tx) ks = false -> (2 <= f)%nat ->
  skip_kinds ks f st = adv st.
Proof.
  intros Hst Hn Hk Hx Hf. destruct f as [|[|f]]; try lia.
  rewrite (skip_nl_step _ _ _ _ _ _ Hst); [|rewrite Hn; exact Hk|rewrite Hn; discriminate].
  exact (skip_stop _ _ _ _ _ (adv_toks _ _ _ _ Hst) Hx).
Qed.

Lemma nodes_len ns D : forallb core_node ns = true -> (length ns <= length (nodes_sh D ns))%nat.
Proof.
  induction ns as [|c cs IH]; [cbn; lia|]. cbn [forallb]. intros H. apply andb_prop in H. destruct H as [Hc Hcs].
  cbn [nodes_sh flat_map length]. rewrite app_length. pose proof (node_sh_len_pos D c Hc). specialize (IH Hcs). unfold nodes_sh in IH. lia.
Qed.

(* first token of the body: the key of the first node (not META) or the closing envelope *)
Definition body_first_ok (t : token) : Prop :=
  tk t = ENVELOPE_END \/ (tk t = IDENTIFIER /\ str_eqb (text_of t) (lit "META") = false).
Lemma body_first ns tsn tE tail :
  forallb core_node ns = true -> first_key_not_meta ns = true -> Forall2 tmatch tsn (nodes_sh 0 ns) -> tk tE = ENVELOPE_END ->
  exists t r, tsn ++ tE :: tail = t :: r /\ body_first_ok t.
Proof.
  intros Hc Hm Hts HE. destruct ns as [|c cs].
  - inversion Hts; subst. exists tE, tail. split; [reflexivity|left; exact HE].
  - cbn [forallb] in Hc. apply andb_prop in Hc. destruct Hc as [Hc _].
    cbn [nodes_sh flat_map] in Hts. apply Forall2_app_inv_r in Hts. destruct Hts as (u1 & u2 & Hu1 & _ & ->).
    destruct c; cbn [core_node] in Hc; try discriminate Hc; cbn [node_sh indent_sh app] in Hu1;
      inversion Hu1 as [|t ? r1 ? [Hk Hv] _]; subst; cbn [fst snd] in Hk, Hv; cbn [first_key_not_meta] in Hm;
      exists t, (r1 ++ u2 ++ tE :: tail); (split; [rewrite <- !app_assoc; reflexivity|]); right; (split; [exact Hk|]);
      unfold text_of; rewrite Hv; apply Bool.negb_true_iff; exact Hm.
Qed.

Lemma body_first_kinds t : body_first_ok t ->
  kin (tk t) [NEWLINE] = false /\ tkind_eqb (tk t) SEPARATOR = false /\
  (tkind_eqb (tk t) IDENTIFIER && str_eqb (text_of t) (lit "META")) = false.
Proof. intros [H|[H Hm]]; rewrite H; repeat split; try reflexivity. cbn. exact Hm. Qed.

Theorem parse_core_doc d :
  core_doc d = true -> nums_ok_l (dsections d) ->
  forall st0 ts tail, tail <> [] ->
    Forall2 tmatch ts (doc_sh d) -> ptoks st0 = ts ++ tail ->
    exists st', parse_document numcanon holo_ok strict sp alpha st0 = POk d st' /\ wext st0 st'.
Proof.
  destruct d as [name gr fr sep meta secs trl]. unfold core_doc. cbn [dfront dmeta dtrailing dsections].
  destruct fr; [discriminate|]. destruct meta; [|discriminate]. destruct trl; [|discriminate].
  intros Hcore Hnum st0 ts tail Htail Hts Hst0. apply andb_prop in Hcore. destruct Hcore as [Hcc Hmeta].
  unfold doc_sh in Hts. cbn [dgrammar dname dsep dsections] in Hts.
  apply Forall2_app_inv_r in Hts. destruct Hts as (tsg & ts' & Htsg & Hts & ->).
  change ([(ENVELOPE_START, Some (TVText name)); (NEWLINE, None)] ++ ?x) with
         ((ENVELOPE_START, Some (TVText name)) :: (NEWLINE, None) :: x) in Hts.
  inversion Hts as [|tS ? ? ? [HSk HSv] Hts1]; subst. inversion Hts1 as [|tN ? ts2 ? [HNk _] Hts2]; subst.
  cbn [fst snd] in HSk, HSv, HNk.
  apply Forall2_app_inv_r in Hts2. destruct Hts2 as (tsp & ts3 & Htsp & Hts3 & ->).
  apply Forall2_app_inv_r in Hts3. destruct Hts3 as (tsn & tse & Htsn & Htse & ->).
  inversion Htse as [|tE ? ? ? [HEk _] Hnil]; subst. inversion Hnil; subst. cbn [fst] in HEk.
  destruct tail as [|tl0 tail']; [congruence|].
  destruct (body_first secs tsn tE (tl0 :: tail') Hcc Hmeta Htsn HEk) as (tb & rb & Hbody & Hbf).
  destruct (body_first_kinds tb Hbf) as (Hb1 & Hb2 & Hb3).
  assert (Hlen : (length secs <= length (tsn ++ tE :: tl0 :: tail'))%nat).
  { rewrite app_length. rewrite (F2_length _ _ _ Htsn). pose proof (nodes_len secs 0%nat Hcc). lia. }
  unfold parse_document.
  (* the part from ENVELOPE_START on, for a state st1 on it, with grammar already decided *)
  assert (Hmain : forall st1 g,
            ptoks st1 = tS :: tN :: (tsp ++ tsn ++ [tE]) ++ tl0 :: tail' ->
            exists st', (let '(name0, st2) :=
                           if is ENVELOPE_START st1 then (text_of (cur st1), skip_kinds [NEWLINE] (fuel_of st1) (adv st1))
                           else (lit "INFERRED", st1) in
                         do (meta, st3) <-
                            (if is IDENTIFIER st2 && str_eqb (text_of (cur st2)) (lit "META") then
                               do (m, s') <- parse_meta_block numcanon holo_ok strict sp st2; POk m (skip_kinds [NEWLINE] (fuel_of s') s')
                             else POk [] st2);
                         let '(sep0, st4) :=
                           if is SEPARATOR st3 then (true, skip_kinds [NEWLINE] (fuel_of st3) (adv st3)) else (false, st3) in
                         do (r, st5) <- dloop (fuel_of st4 + fuel_of st4) [] [] [] st4;
                         let '(sections, trailing) := r in
                         let st6 := if is ENVELOPE_END st5 then adv st5 else st5 in
                         POk (mkDoc name0 g None sep0 meta sections trailing) st6)
                        = POk (mkDoc name g None sep [] secs []) st' /\ wext st1 st').
  { intros st1 g Hst1. rewrite <- !app_assoc in Hst1. cbn [app] in Hst1.
    is_step Hst1 HSk. rewrite (cur_hd _ _ _ Hst1).
    assert (Hn : text_of tS = name) by (unfold text_of; rewrite HSv; reflexivity). rewrite Hn.
    pose proof (adv_toks _ _ _ _ Hst1) as H1.
    destruct sep.
    - inversion Htsp as [|tP ? ? ? [HPk _] Hp1]; subst. inversion Hp1 as [|tN2 ? ? ? [HN2k _] Hp2]; subst. inversion Hp2; subst.
      cbn [fst] in HPk, HN2k. cbn [app] in H1. rewrite Hbody in H1.
      rewrite (skip_one_nl [NEWLINE] _ _ _ _ (fuel_of st1) H1 HNk eq_refl); [|rewrite HPk; reflexivity|rewrite (fuel_of_toks _ _ Hst1); cbn [length]; lia].
      pose proof (adv_toks _ _ _ _ H1) as H2. is_step H2 HPk. cbn [bind]. is_step H2 HPk.
      pose proof (adv_toks _ _ _ _ H2) as H3.
      rewrite (skip_one_nl [NEWLINE] _ _ _ _ (fuel_of (adv (adv st1))) H3 HN2k eq_refl Hb1); [|rewrite (fuel_of_toks _ _ H2); cbn [length]; lia].
      pose proof (adv_toks _ _ _ _ H3) as H4. rewrite <- Hbody in H4.
      destruct (dloop_nodes secs Hcc Hnum (fuel_of (adv (adv (adv (adv st1)))) + fuel_of (adv (adv (adv (adv st1)))))%nat [] [] (adv (adv (adv (adv st1)))) tsn tE (tl0 :: tail'))
        as (st5 & Hl & Hst5 & W5); [rewrite (fuel_of_toks _ _ H4); lia|exact Htsn|exact H4|exact HEk|].
      rewrite Hl. cbn [bind rev app]. eexists. split; [reflexivity|].
      eapply wext_trans; [|destruct (is ENVELOPE_END st5); [apply wext_adv|apply wext_refl]].
      eapply wext_trans; [|exact W5]. wadv.
    - inversion Htsp; subst. cbn [app] in H1. rewrite Hbody in H1.
      rewrite (skip_one_nl [NEWLINE] _ _ _ _ (fuel_of st1) H1 HNk eq_refl Hb1); [|rewrite (fuel_of_toks _ _ Hst1); cbn [length]; lia].
      pose proof (adv_toks _ _ _ _ H1) as H2.
      rewrite (is_hd _ _ _ IDENTIFIER H2), (cur_hd _ _ _ H2), Hb3. cbn [bind].
      rewrite (is_hd _ _ _ SEPARATOR H2), Hb2. rewrite <- Hbody in H2.
      destruct (dloop_nodes secs Hcc Hnum (fuel_of (adv (adv st1)) + fuel_of (adv (adv st1)))%nat [] [] (adv (adv st1)) tsn tE (tl0 :: tail'))
        as (st5 & Hl & Hst5 & W5); [rewrite (fuel_of_toks _ _ H2); lia|exact Htsn|exact H2|exact HEk|].
      rewrite Hl. cbn [bind rev app]. eexists. split; [reflexivity|].
      eapply wext_trans; [|destruct (is ENVELOPE_END st5); [apply wext_adv|apply wext_refl]].
      eapply wext_trans; [|exact W5]. wadv. }
  destruct gr as [g|].
  - inversion Htsg as [|tG ? ? ? [HGk HGv] Hg1]; subst. inversion Hg1 as [|tGn ? ? ? [HGnk _] Hg2]; subst. inversion Hg2; subst.
    cbn [fst snd] in HGk, HGv, HGnk. cbn [app] in Hst0.
    rewrite (skip_stop _ _ _ _ _ Hst0); [|rewrite HGk; reflexivity].
    is_step Hst0 HGk. rewrite (cur_hd _ _ _ Hst0).
    assert (Hg : text_of tG = g) by (unfold text_of; rewrite HGv; reflexivity). rewrite Hg.
    pose proof (adv_toks _ _ _ _ Hst0) as H1.
    rewrite (skip_one_nl [NEWLINE; COMMENT] _ _ _ _ (fuel_of st0) H1 HGnk eq_refl);
      [|rewrite HSk; reflexivity|rewrite (fuel_of_toks _ _ Hst0); cbn [length]; lia].
    pose proof (adv_toks _ _ _ _ H1) as H2.
    destruct (Hmain _ (Some g) H2) as (st' & Hr & W'). exists st'. split; [exact Hr|]. eapply wext_trans; [|exact W']. wadv.
  - inversion Htsg; subst. cbn [app] in Hst0.
    rewrite (skip_stop _ _ _ _ _ Hst0); [|rewrite HSk; reflexivity].
    is_step Hst0 HSk.
    exact (Hmain _ None Hst0).
Qed.
End Core.
