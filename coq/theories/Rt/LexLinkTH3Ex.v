(* Rt/LexLinkTH3.v on the example document of Rt/LexLinkTH2Ex.v. *)
From OV Require Import Base.Strs Lex.Lexer Syn.Ast Syn.Emitter Syn.Parser Rt.LexLink4
     Rt.TokRound Rt.TokRoundEx Rt.TokRound2 Rt.TokRound2Ex Rt.TokRoundT Rt.TokRoundTHolo Rt.TokRoundTEx
     Rt.LexLinkBase Rt.LexLinkSteps Rt.LexLink Rt.LexLinkEx Rt.LexLink2Base Rt.LexLink2Steps Rt.LexLink2Text Rt.LexLink2
     Rt.LexLinkZText Rt.LexLinkZ Rt.LexLinkT Rt.LexLinkTH Rt.LexLinkTH2 Rt.LexLinkTH2Ex Rt.LexLinkTH3.
Require Coq.Strings.String.
Import Coq.Strings.String.StringSyntax.
Open Scope N_scope.

Example exc_ok_cls2 : lex_safeth2_doc ex_cls hsh_cls2 exc = true.
Proof. vm_compute. reflexivity. Qed.
Example exc_rt_lex_thm strict sp :
  exists warns, parse_model ex_cls ex2_numcanon holo_c strict (lines_of (emit sp exc)) = PRDoc exc [] warns /\ Forall advisory warns.
Proof.
  exact (text_roundtrip_coreth2_lex ex_cls ex2_numcanon holo_c strict sp exc (proj1 exc_ok) exc_ok_cls2 (proj1 exc_sides) (proj2 exc_sides)).
Qed.
Print Assumptions exc_rt_lex_thm.
