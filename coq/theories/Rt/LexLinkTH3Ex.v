(* Rt/LexLinkTH3.v on the example document of Rt/LexLinkTH2Ex.v. *)
From OV Require Import Base.Strs Lex.Lexer Syn.Ast Syn.Emitter Syn.Parser Rt.LexLink4
     Rt.TokRound Rt.TokRoundEx Rt.TokRound2 Rt.TokRound2Ex Rt.TokRoundT Rt.TokRoundTHolo Rt.TokRoundTEx
     Rt.LexLinkBase Rt.LexLinkSteps Rt.LexLink Rt.LexLinkEx Rt.LexLink2Base Rt.LexLink2Steps Rt.LexLink2Text Rt.LexLink2
     Rt.LexLinkZText Rt.LexLinkZ Rt.LexLinkT Rt.LexLinkTH Rt.LexLinkTH2 Rt.LexLinkTH2Ex Rt.LexLinkTH3.
Require Coq.Strings.String.
Import Coq.Strings.String.StringSyntax.
Open Scope N_scope.

Example exc_ok_cls2 : lex_safeth2_doc ex_cls hsh_cls2 exc = true.
Proof. vm_compute. reflexivity. Qed.
Example exc_rt_lex_thm strict sp :
  exists warns, parse_model ex_cls ex2_numcanon holo_c strict (lines_of (emit sp exc)) = PRDoc exc [] warns /\ Forall advisory warns.
Proof.
  exact (text_roundtrip_coreth2_lex ex_cls ex2_numcanon holo_c strict sp exc (proj1 exc_ok) exc_ok_cls2 (proj1 exc_sides) (proj2 exc_sides)).
Qed.
Print Assumptions exc_rt_lex_thm.

(* ---- chains ending in a section target ------------------------------------------------------------------------------------------------------------------ *)
Example ex_cls_flow_ok : cls_flow_ok ex_cls = true.
Proof. vm_compute. reflexivity. Qed.
Definition t1 : str := lit "[""x""" ++ AND ++ lit "OPT" ++ ARROW ++ lit "INDEXER]".            (* h3 with a string example *)
Definition t2 : str := lit "[""a b""" ++ AND ++ lit "REQ" ++ AND ++ lit "OPT" ++ ARROW ++ lit "SELF]".
Example t_text : t1 = chainT_text (lit "x") [lit "OPT"] (lit "INDEXER") /\ t2 = chainT_text (lit "a b") [lit "REQ"; lit "OPT"] (lit "SELF").
Proof. split; reflexivity. Qed.
Example t2_shape_thm : hsh_lex ex_cls t2 = chainT_shape (lit "a b") [lit "REQ"; lit "OPT"] (lit "SELF").
Proof. exact (hsh_lex_chainT ex_cls (lit "a b") [lit "REQ"; lit "OPT"] (lit "SELF") ex_cls_and_ok ex_cls_flow_ok eq_refl eq_refl). Qed.
Example t1_shape_computed : hsh_lex ex_cls t1 = chainT_shape (lit "x") [lit "OPT"] (lit "INDEXER").
Proof. vm_compute. reflexivity. Qed.
(* the parser-side class test of Rt/TokRoundTHolo.v accepts these shapes, and the model round-trips a document with them (computed; no document-level
   theorem for this class) *)
Definition holo_t (s : str) : bool := str_in s [t1; t2].
Example t_sites : forallb (hsite_okb ex2_numcanon holo_t (hsh_lex ex_cls)) [t1; t2] = true.
Proof. vm_compute. reflexivity. Qed.
Example t_rt_computed :
  let d := dd [NBlock (lit "B") None [NAssign (lit "F") (VHolo t1) [] (Some (lit "c")); NAssign (lit "G") (VHolo t2) [] None] []] [] in
  parse_model ex_cls ex2_numcanon holo_t true (lines_of (emit (fun _ => false) d)) = PRDoc d [] [].
Proof. vm_compute. reflexivity. Qed.
Print Assumptions t2_shape_thm.
