(* Holographic values whose chain ELEMENTS may be calls with bare-word or quoted arguments -- the shape of TokRoundTEx.h1  ["x"∧REQ∧ENUM[a,b]→§SELF]:

       raw = [ "s" ∧E1 ∧E2 .. ∧En  [→§T] ]      Ei = W | W[arg1,..,argm]      arg = bare word (key_ok) | quoted string          chain5_text s es o

   n >= 1, the target optional.  (Whether a call may be the LAST element before "]" is a matter of the parser-side class of Rt/TokRoundTHolo.v --
   the hypothesis nodes_side -- not of the lexer: the lexer lemmas here do not exclude it.)  Clauses on the oracle: cls_and_ok, cls_flow_ok.

     lex_chain5_line   the emitted line of such an assignment is read as INDENT? KEY ASSIGN chain5_shape COMMENT? NEWLINE, every depth
     hsh_lex_chain5    hsh_lex cls (chain5_text s es o) = chain5_shape s es o
     lex_emit_coreth5 / text_roundtrip_coreth5 / text_roundtrip_coreth5_lex   document level, union with the classes of Rt/LexLinkTH4.v
   th5_raw only tests the frame  raw = chain5_text (hs raw) (hes raw) (ho raw)  (decoders hes / ho: nothing proved about them; a quoted argument
   containing , ∧ → [ ] or an escape is not decoded, so such texts fail the frame test). *)
From OV Require Import Base.Strs Gen.LexerGen Syn.Escape Syn.Quote Syn.Ast Syn.Emitter Syn.Parser Lex.Lexer Lex.Progress
     Rt.Zones Rt.ZonesRt Rt.TokRound Rt.TokRoundEx Rt.TokRound2 Rt.TokRound2Ex Rt.TokRoundZ Rt.TokRoundT Rt.TokRoundTHolo Rt.TokRoundTEx
     Rt.LexLinkBase Rt.LexLinkSteps Rt.LexLink Rt.LexLink2Base Rt.LexLink2Steps Rt.LexLink2Text Rt.LexLink2
     Rt.LexLinkZPos Rt.LexLinkZText Rt.LexLinkZ Rt.LexLinkT Rt.LexLinkTH Rt.LexLinkTH2 Rt.LexLinkTH3 Rt.LexLinkTH4.
From Coq Require Import Lia.
Open Scope N_scope.

Definition arg : Type := (bool * str)%type.          (* true = quoted string, false = bare word *)
Definition elem : Type := (str * list arg)%type.     (* the word, the arguments ([] = no call) *)
Definition arg_text (a : arg) : str := if fst a then quote (snd a) else snd a.
Definition arg_sh (a : arg) : sh := if fst a then (STRING, Some (TVText (snd a))) else (IDENTIFIER, Some (TVText (snd a))).
Definition arg_ok (a : arg) : bool := fst a || key_ok (snd a).
Fixpoint args5_text (l : list arg) : str :=
  match l with [] => [] | a :: r => arg_text a ++ match r with [] => [] | _ => c_comma :: args5_text r end end.
Fixpoint args5_sh (l : list arg) : list sh :=
  match l with [] => [] | a :: r => arg_sh a :: match r with [] => [] | _ => (COMMA, Some (TVText [44])) :: args5_sh r end end.
Definition call5_text (l : list arg) : str := match l with [] => [] | _ => [c_lbr] ++ args5_text l ++ [c_rbr] end.
Definition call5_sh (l : list arg) : list sh :=
  match l with [] => [] | _ => [(LIST_START, Some (TVText [91]))] ++ args5_sh l ++ [(LIST_END, Some (TVText [93]))] end.
Fixpoint elems_text (es : list elem) : str :=
  match es with [] => [] | e :: r => 8743 :: fst e ++ call5_text (snd e) ++ elems_text r end.
Fixpoint elems_sh (es : list elem) : list sh :=
  match es with [] => [] | e :: r => (CONSTRAINT, Some (TVText [8743])) :: (IDENTIFIER, Some (TVText (fst e))) :: call5_sh (snd e) ++ elems_sh r end.
Definition elem_ok (e : elem) : bool := key_ok (fst e) && forallb arg_ok (snd e).
Definition end_text (o : option str) : str := match o with Some T => 8594 :: 167 :: T | None => [] end.
Definition end_sh (o : option str) : list sh :=
  match o with Some T => [(FLOW, Some (TVText [8594])); (SECTION, Some (TVText [167])); (IDENTIFIER, Some (TVText T))] | None => [] end.
Definition end_ok (o : option str) : bool := match o with Some T => key_ok T | None => true end.
Definition chain5_text (s : str) (es : list elem) (o : option str) : str := [c_lbr] ++ quote s ++ elems_text es ++ end_text o ++ [c_rbr].
Definition chain5_shape (s : str) (es : list elem) (o : option str) : list sh :=
  [(LIST_START, Some (TVText [91])); (STRING, Some (TVText s))] ++ elems_sh es ++ end_sh o ++ [(LIST_END, Some (TVText [93]))].
Definition chain5_ok (es : list elem) (o : option str) : bool := negb (is_nil es) && forallb elem_ok es && end_ok o.

Section Chain5.
Variable cls : N -> N.
Hypothesis Hand : cls_and_ok cls = true.
Hypothesis Hflow : cls_flow_ok cls = true.

Lemma zend_c z : z = 44 \/ z = 91 \/ z = 93 -> zend cls z.
Proof.
  intros H. split; [|split; [apply u_word_false; lia|split; chr]].
  unfold id_char. rewrite is_ascii_lt by lia. rewrite is_alnum_false by lia. cbn [orb memb existsb].
  rewrite !(neqb z _) by chr. reflexivity.
Qed.
(* the characters that may follow a chain word *)
Definition wend (x : N) : Prop := x = 8743 \/ x = 8594 \/ x = 91 \/ x = 93.
Lemma wend_zend x : wend x -> zend cls x /\ u_digit cls x = false /\ x <> c_dot.
Proof.
  intros [ -> | [ -> | [ -> | -> ] ] ].
  - destruct (cls_and_parts cls Hand) as (_ & _ & D). split; [exact (zend_and cls Hand)|split; [exact D|discriminate]].
  - destruct (cls_flow_parts cls Hflow) as [Z D]. split; [exact Z|split; [exact D|discriminate]].
  - split; [apply zend_c; right; left; reflexivity|split; [apply u_digit_false; lia|discriminate]].
  - split; [apply zend_c; right; right; reflexivity|split; [apply u_digit_false; lia|discriminate]].
Qed.

Lemma lex_arg a x u st : arg_ok a = true -> (x = 44 \/ x = 93) -> ls_in st = arg_text a ++ x :: u -> ls_spans st = [] -> ls_pos st <> 0 ->
  exists st' prev, gstep cls st st' (fst (arg_sh a)) (TVText (snd a)) (x :: u) prev (ls_brk st).
Proof.
  destruct a as [[|] a]; unfold arg_ok, arg_text, arg_sh; cbn [fst snd orb]; intros Hok Hx Hin S0 P0.
  - destruct (G_str cls st a x u Hin ltac:(destruct Hx; subst x; discriminate) S0) as (st' & G). exists st', (Some c_dq). exact G.
  - assert (Z : zend cls x) by (apply zend_c; destruct Hx; [left|right; right]; assumption).
    destruct (G_keyz cls st a x u Hok Z Hin P0 S0) as (st' & G). exists st', (last_chr a). exact G.
Qed.
Lemma arg_sh_snd a : snd (arg_sh a) = Some (TVText (snd a)).
Proof. destruct a as [[|] a]; reflexivity. Qed.

Lemma lex_args5 : forall l st r, l <> [] -> forallb arg_ok l = true -> ls_in st = args5_text l ++ c_rbr :: r -> ls_spans st = [] -> ls_pos st <> 0 ->
  exists st', lextoB cls st (args5_sh l) st' /\ ls_in st' = c_rbr :: r /\ ls_brk st' = ls_brk st /\ ls_pos st' <> 0.
Proof.
  induction l as [|a l IH]; [congruence|]. intros st r _ Hok Hin S0 P0. cbn [forallb] in Hok. apply andb_true_iff in Hok as [Ha Hl].
  destruct l as [|b l].
  - cbn [args5_text args5_sh] in *. rewrite app_nil_r in Hin.
    destruct (lex_arg a c_rbr r st Ha ltac:(right; reflexivity) Hin S0 P0) as (st1 & pv & G1).
    exists st1. split; [eapply (lextoB_gstep cls); [exact G1|reflexivity|right; apply arg_sh_snd]|].
    split; [exact (gstep_in cls _ _ _ _ _ _ _ G1)|split; [exact (gstep_brk cls _ _ _ _ _ _ _ G1)|exact (gstep_pos cls _ _ _ _ _ _ _ G1)]].
  - change (args5_text (a :: b :: l)) with (arg_text a ++ c_comma :: args5_text (b :: l)) in Hin. rewrite <- app_assoc in Hin. cbn [app] in Hin.
    destruct (lex_arg a c_comma _ st Ha ltac:(left; reflexivity) Hin S0 P0) as (st1 & pv & G1).
    assert (S1 : ls_spans st1 = []) by (rewrite (gstep_spans cls _ _ _ _ _ _ _ G1); exact S0).
    destruct (G_comma cls st1 _ (gstep_in cls _ _ _ _ _ _ _ G1) S1) as (st2 & G2).
    assert (S2 : ls_spans st2 = []) by (rewrite (gstep_spans cls _ _ _ _ _ _ _ G2); exact S1).
    destruct (IH st2 r ltac:(discriminate) Hl (gstep_in cls _ _ _ _ _ _ _ G2) S2 (gstep_pos cls _ _ _ _ _ _ _ G2)) as (st3 & L3 & I3 & B3 & P3).
    exists st3. split; [|split; [exact I3|split; [|exact P3]]].
    + change (args5_sh (a :: b :: l)) with ([arg_sh a] ++ [(COMMA, Some (TVText [44]))] ++ args5_sh (b :: l)).
      eapply (lextoB_trans cls); [eapply (lextoB_gstep cls); [exact G1|reflexivity|right; apply arg_sh_snd]|].
      eapply (lextoB_trans cls); [eapply (lextoB_gstep cls); [exact G2|reflexivity|right; reflexivity]|exact L3].
    + rewrite B3, (gstep_brk cls _ _ _ _ _ _ _ G2). exact (gstep_brk cls _ _ _ _ _ _ _ G1).
Qed.

(* ∧E1..∧En before a terminator z = → or ] *)
Lemma lex_elems z : (z = 8594 \/ z = c_rbr) -> forall es st r, forallb elem_ok es = true ->
  ls_in st = elems_text es ++ z :: r -> ls_spans st = [] -> ls_pos st <> 0 ->
  exists st', lextoB cls st (elems_sh es) st' /\ ls_in st' = z :: r /\ ls_brk st' = ls_brk st /\ ls_pos st' <> 0.
Proof.
  intros Hz. induction es as [|[w l] es IH]; intros st r Hok Hin S0 P0.
  - exists st. split; [apply lextoB_refl|]. split; [exact Hin|]. split; [reflexivity|exact P0].
  - cbn [forallb] in Hok. apply andb_true_iff in Hok as [He Hes]. unfold elem_ok in He. cbn [fst snd] in He. apply andb_true_iff in He as [Hw Hl].
    cbn [elems_text fst snd] in Hin. repeat (progress (rewrite <- ?app_assoc in Hin; cbn [app] in Hin)).
    assert (Hhd : exists x u, elems_text es ++ z :: r = x :: u /\ (x = 8743 \/ x = 8594 \/ x = c_rbr)).
    { destruct es as [|e' es']; cbn [elems_text app]; eexists _, _; (split; [reflexivity|]); [destruct Hz; [right; left|right; right]; assumption|left; reflexivity]. }
    destruct Hhd as (x & u & Ex & Hx).
    assert (Hy : exists y v, call5_text l ++ elems_text es ++ z :: r = y :: v /\ wend y).
    { destruct l as [|a l']; cbn [call5_text app].
      - exists x, u. split; [exact Ex|]. destruct Hx as [ -> | [ -> | -> ] ]; [left|right; left|right; right; right]; reflexivity.
      - eexists _, _. split; [reflexivity|]. right; right; left; reflexivity. }
    destruct Hy as (y & v & Ey & Wy). destruct (wend_zend y Wy) as (Zy & Dy & Ny).
    rewrite Ey in Hin.
    assert (V : scan_version cls (8743 :: w ++ y :: v) = None).
    { change (8743 :: w ++ ?q) with ((8743 :: w) ++ q). apply scan_version_no_dot; [|exact Ny|exact Dy].
      intros q [<-|Hq]; [discriminate|exact (key_no_dot w Hw q Hq)]. }
    destruct (G_and cls st _ Hin S0 P0 V) as (st1 & G1).
    assert (S1 : ls_spans st1 = []) by (rewrite (gstep_spans cls _ _ _ _ _ _ _ G1); exact S0).
    destruct (G_keyz cls st1 w y v Hw Zy (gstep_in cls _ _ _ _ _ _ _ G1) (gstep_pos cls _ _ _ _ _ _ _ G1) S1) as (st2 & G2).
    assert (S2 : ls_spans st2 = []) by (rewrite (gstep_spans cls _ _ _ _ _ _ _ G2); exact S1).
    assert (B2 : ls_brk st2 = ls_brk st) by (rewrite (gstep_brk cls _ _ _ _ _ _ _ G2); exact (gstep_brk cls _ _ _ _ _ _ _ G1)).
    pose proof (gstep_in cls _ _ _ _ _ _ _ G2) as I2. rewrite <- Ey in I2.
    assert (LB2 : lextoB cls st [(CONSTRAINT, Some (TVText [8743])); (IDENTIFIER, Some (TVText w))] st2).
    { change [(CONSTRAINT, Some (TVText [8743])); (IDENTIFIER, Some (TVText w))] with ([(CONSTRAINT, Some (TVText [8743]))] ++ [(IDENTIFIER, Some (TVText w))]).
      eapply (lextoB_trans cls); eapply (lextoB_gstep cls); try eassumption; try reflexivity; right; reflexivity. }
    assert (Hcall : exists st3, lextoB cls st2 (call5_sh l) st3 /\ ls_in st3 = elems_text es ++ z :: r /\ ls_brk st3 = ls_brk st /\ ls_pos st3 <> 0 /\ ls_spans st3 = []).
    { destruct l as [|a l'].
      - exists st2. split; [apply lextoB_refl|]. split; [exact I2|]. split; [exact B2|]. split; [exact (gstep_pos cls _ _ _ _ _ _ _ G2)|exact S2].
      - cbn [call5_text app] in I2. rewrite <- app_assoc in I2. cbn [app] in I2.
        destruct (G_lbr cls st2 _ I2 S2) as (st3 & p2 & G3).
        assert (S3 : ls_spans st3 = []) by (rewrite (gstep_spans cls _ _ _ _ _ _ _ G3); exact S2).
        destruct (lex_args5 (a :: l') st3 _ ltac:(discriminate) Hl (gstep_in cls _ _ _ _ _ _ _ G3) S3 (gstep_pos cls _ _ _ _ _ _ _ G3)) as (st4 & L4 & I4 & B4 & P4).
        assert (S4 : ls_spans st4 = []) by (rewrite (lextoB_spans cls _ _ _ L4); exact S3).
        assert (B4' : ls_brk st4 = p2 :: ls_brk st) by (rewrite B4, (gstep_brk cls _ _ _ _ _ _ _ G3), B2; reflexivity).
        destruct (G_rbr cls st4 _ p2 (ls_brk st) I4 S4 B4') as (st5 & G5).
        exists st5. split; [|split; [exact (gstep_in cls _ _ _ _ _ _ _ G5)|split; [exact (gstep_brk cls _ _ _ _ _ _ _ G5)|split; [exact (gstep_pos cls _ _ _ _ _ _ _ G5)|]]]].
        + unfold call5_sh.
          eapply (lextoB_trans cls); [eapply (lextoB_gstep cls); [exact G3|reflexivity|right; reflexivity]|].
          eapply (lextoB_trans cls); [exact L4|]. eapply (lextoB_gstep cls); [exact G5|reflexivity|right; reflexivity].
        + rewrite (gstep_spans cls _ _ _ _ _ _ _ G5). exact S4. }
    destruct Hcall as (st3 & L3 & I3 & B3 & P3 & S3).
    destruct (IH st3 r Hes I3 S3 P3) as (st4 & L4 & I4 & B4 & P4).
    exists st4. split; [|split; [exact I4|split; [rewrite B4; exact B3|exact P4]]].
    cbn [elems_sh fst snd].
    change ((CONSTRAINT, Some (TVText [8743])) :: (IDENTIFIER, Some (TVText w)) :: call5_sh l ++ elems_sh es)
      with ([(CONSTRAINT, Some (TVText [8743])); (IDENTIFIER, Some (TVText w))] ++ call5_sh l ++ elems_sh es).
    eapply (lextoB_trans cls); [exact LB2|]. eapply (lextoB_trans cls); [exact L3|exact L4].
Qed.

Lemma lex_chain5 s es o st r :
  chain5_ok es o = true -> ls_in st = chain5_text s es o ++ r -> ls_spans st = [] -> 1 <= ls_col st ->
  exists st', lexto cls st (chain5_shape s es o) st' /\ ls_in st' = r /\ 1 < ls_col st' /\ ls_pos st' <> 0.
Proof.
  intros Hok Hin S0 C0. unfold chain5_ok in Hok. apply andb_true_iff in Hok as [Hok Ho]. apply andb_true_iff in Hok as [Hne Hes].
  unfold chain5_text in Hin. repeat (progress (rewrite <- ?app_assoc in Hin; cbn [app] in Hin)).
  destruct (G_lbr cls st _ Hin S0) as (st1 & p & G1).
  assert (S1 : ls_spans st1 = []) by (rewrite (gstep_spans cls _ _ _ _ _ _ _ G1); exact S0).
  destruct es as [|e es]; [discriminate Hne|].
  pose proof (gstep_in cls _ _ _ _ _ _ _ G1) as I1.
  assert (E1 : exists v, elems_text (e :: es) ++ end_text o ++ c_rbr :: r = 8743 :: v) by (cbn [elems_text app]; eexists; reflexivity).
  destruct E1 as (v1 & E1). rewrite E1 in I1.
  destruct (G_str cls st1 s 8743 _ I1 ltac:(discriminate) S1) as (st2 & G2).
  assert (S2 : ls_spans st2 = []) by (rewrite (gstep_spans cls _ _ _ _ _ _ _ G2); exact S1).
  pose proof (gstep_in cls _ _ _ _ _ _ _ G2) as I2. rewrite <- E1 in I2.
  assert (Hz : exists z r', end_text o ++ c_rbr :: r = z :: r' /\ (z = 8594 \/ z = c_rbr)).
  { destruct o as [T|]; cbn [end_text app]; eexists _, _; (split; [reflexivity|]); [left|right]; reflexivity. }
  destruct Hz as (z & r' & Ez & Hz). rewrite Ez in I2.
  destruct (lex_elems z Hz (e :: es) st2 r' Hes I2 S2 (gstep_pos cls _ _ _ _ _ _ _ G2)) as (st3 & L3 & I3 & B3 & P3).
  assert (S3 : ls_spans st3 = []) by (rewrite (lextoB_spans cls _ _ _ L3); exact S2).
  assert (B3' : ls_brk st3 = p :: ls_brk st) by (rewrite B3, (gstep_brk cls _ _ _ _ _ _ _ G2); exact (gstep_brk cls _ _ _ _ _ _ _ G1)).
  assert (C3 : 1 <= ls_col st3).
  { apply (lextoB_col cls _ _ _ L3). pose proof (gstep_col cls _ _ _ _ _ _ _ G1). pose proof (gstep_col cls _ _ _ _ _ _ _ G2). lia. }
  rewrite <- Ez in I3.
  assert (Hend : exists st4, lextoB cls st3 (end_sh o) st4 /\ ls_in st4 = c_rbr :: r /\ ls_brk st4 = p :: ls_brk st /\ ls_spans st4 = [] /\ 1 <= ls_col st4).
  { destruct o as [T|]; cbn [end_text end_sh app] in *.
    - assert (Hnd : forall y, In y (8594 :: 167 :: T) -> y <> c_dot).
      { intros y [<-|[<-|Hy]]; [discriminate|discriminate|exact (key_no_dot T Ho y Hy)]. }
      assert (V3 : scan_version cls (8594 :: 167 :: T ++ c_rbr :: r) = None).
      { change (8594 :: 167 :: T ++ ?x) with ((8594 :: 167 :: T) ++ x). apply scan_version_no_dot; [exact Hnd|discriminate|apply u_digit_false; chr]. }
      destruct (G_flow cls st3 _ I3 S3 P3 V3) as (st4 & G4).
      assert (S4 : ls_spans st4 = []) by (rewrite (gstep_spans cls _ _ _ _ _ _ _ G4); exact S3).
      assert (V4 : scan_version cls (167 :: T ++ c_rbr :: r) = None).
      { change (167 :: T ++ ?x) with ((167 :: T) ++ x). apply scan_version_no_dot; [intros y Hy; apply Hnd; right; exact Hy|discriminate|apply u_digit_false; chr]. }
      destruct (G_section cls st4 _ (gstep_in cls _ _ _ _ _ _ _ G4) S4 V4) as (st5 & G5).
      assert (S5 : ls_spans st5 = []) by (rewrite (gstep_spans cls _ _ _ _ _ _ _ G5); exact S4).
      destruct (G_key cls st5 T c_rbr _ Ho ltac:(right; right; left; reflexivity) (gstep_in cls _ _ _ _ _ _ _ G5) (gstep_pos cls _ _ _ _ _ _ _ G5) S5) as (st6 & G6).
      exists st6. split; [|split; [exact (gstep_in cls _ _ _ _ _ _ _ G6)|split; [|split]]].
      + change [(FLOW, Some (TVText [8594])); (SECTION, Some (TVText [167])); (IDENTIFIER, Some (TVText T))]
          with ([(FLOW, Some (TVText [8594]))] ++ [(SECTION, Some (TVText [167]))] ++ [(IDENTIFIER, Some (TVText T))]).
        eapply (lextoB_trans cls); [eapply (lextoB_gstep cls); [exact G4|reflexivity|right; reflexivity]|].
        eapply (lextoB_trans cls); [eapply (lextoB_gstep cls); [exact G5|reflexivity|right; reflexivity]|].
        eapply (lextoB_gstep cls); [exact G6|reflexivity|right; reflexivity].
      + rewrite (gstep_brk cls _ _ _ _ _ _ _ G6), (gstep_brk cls _ _ _ _ _ _ _ G5), (gstep_brk cls _ _ _ _ _ _ _ G4). exact B3'.
      + rewrite (gstep_spans cls _ _ _ _ _ _ _ G6). exact S5.
      + pose proof (gstep_col cls _ _ _ _ _ _ _ G4). pose proof (gstep_col cls _ _ _ _ _ _ _ G5). pose proof (gstep_col cls _ _ _ _ _ _ _ G6). lia.
    - exists st3. split; [apply lextoB_refl|]. repeat split; assumption. }
  destruct Hend as (st4 & L4 & I4 & B4 & S4 & C4).
  destruct (G_rbr cls st4 _ p (ls_brk st) I4 S4 B4) as (st5 & G5).
  exists st5. split; [|split; [exact (gstep_in cls _ _ _ _ _ _ _ G5)|split; [|exact (gstep_pos cls _ _ _ _ _ _ _ G5)]]].
  - apply (lextoB_lexto cls); [|exact (gstep_brk cls _ _ _ _ _ _ _ G5)]. unfold chain5_shape.
    change ([(LIST_START, Some (TVText [91])); (STRING, Some (TVText s))] ++ ?l)
      with ([(LIST_START, Some (TVText [91]))] ++ [(STRING, Some (TVText s))] ++ l).
    eapply (lextoB_trans cls); [eapply (lextoB_gstep cls); [exact G1|reflexivity|right; reflexivity]|].
    eapply (lextoB_trans cls); [eapply (lextoB_gstep cls); [exact G2|reflexivity|right; reflexivity]|].
    eapply (lextoB_trans cls); [exact L3|]. eapply (lextoB_trans cls); [exact L4|].
    eapply (lextoB_gstep cls); [exact G5|reflexivity|right; reflexivity].
  - pose proof (gstep_col cls _ _ _ _ _ _ _ G5). lia.
Qed.

Lemma lex_chain5_line D k s es o t st rest :
  key_ok k = true -> chain5_ok es o = true -> opt_ne t = true -> trail_ok t = true ->
  ls_in st = (ind D ++ k ++ s_assign ++ chain5_text s es o ++ emit_trailing t) ++ c_nl :: rest -> ready st ->
  exists st', lexto cls st (indent_sh D ++ [(IDENTIFIER, Some (TVText k)); (ASSIGN, None)] ++ chain5_shape s es o ++ trail_sh t ++ [(NEWLINE, None)]) st' /\
              ls_in st' = rest /\ ready st'.
Proof.
  intros Hk Hw Hne Ht Hin Hr. rewrite <- !app_assoc in Hin.
  change (s_assign ++ ?x) with (c_colon :: c_colon :: x) in Hin.
  destruct (lex_indent_key cls D k _ st Hk Hin Hr) as (st2 & L2 & I2 & S2).
  destruct (T_assign cls st2 _ I2 S2) as (st3 & T3).
  assert (L3 : lexto cls st2 [(ASSIGN, None)] st3) by (eapply lexto_tstep; [exact T3|reflexivity|left; reflexivity]).
  assert (S3 : ls_spans st3 = []) by (rewrite (tstep_spans _ _ _ _ _ _ _ T3); exact S2).
  assert (C3 : 1 <= ls_col st3) by (apply (lexto_col cls _ _ _ L3), (lexto_col cls _ _ _ L2), ready_col; exact Hr).
  pose proof (tstep_in _ _ _ _ _ _ _ T3) as I3.
  destruct (lex_chain5 s es o st3 _ Hw I3 S3 C3) as (st4 & L4 & I4 & C4 & P4).
  assert (S4 : ls_spans st4 = []) by (rewrite (lexto_spans _ _ _ _ L4); exact S3).
  destruct (lex_trail cls t st4 rest Hne Ht I4 C4 S4 P4) as (st5 & L5 & I5).
  assert (S5 : ls_spans st5 = []) by (rewrite (lexto_spans _ _ _ _ L5); exact S4).
  destruct (lex_newline cls st5 rest I5 S5) as (st6 & L6 & I6 & R6).
  exists st6. split; [|split; assumption].
  change ([(IDENTIFIER, Some (TVText k)); (ASSIGN, None)] ++ ?l) with ([(IDENTIFIER, Some (TVText k))] ++ [(ASSIGN, @None tvalue)] ++ l).
  rewrite app_assoc. eapply lexto_trans; [exact L2|]. eapply lexto_trans; [exact L3|].
  eapply lexto_trans; [exact L4|]. eapply lexto_trans; [exact L5|exact L6].
Qed.
End Chain5.
Print Assumptions lex_chain5_line.

(* ---- the lexer-derived oracle on the class -------------------------------------------------------------------------------------------------------------------- *)
Lemma args5_sh_txt l : forallb txt_sh (args5_sh l) = true.
Proof.
  induction l as [|a [|b r] IH]; [reflexivity| |].
  - destruct a as [[|] a]; reflexivity.
  - change (args5_sh (a :: b :: r)) with (arg_sh a :: (COMMA, Some (TVText [44])) :: args5_sh (b :: r)). cbn [forallb]. rewrite IH.
    destruct a as [[|] a]; reflexivity.
Qed.
Lemma elems_sh_txt es : forallb txt_sh (elems_sh es) = true.
Proof.
  induction es as [|[w l] es IH]; [reflexivity|]. cbn [elems_sh fst snd forallb txt_sh andb]. rewrite forallb_app, IH, andb_true_r.
  destruct l as [|a l]; [reflexivity|]. unfold call5_sh. rewrite !forallb_app, args5_sh_txt. reflexivity.
Qed.
Lemma chain5_shape_txt s es o : forallb txt_sh (chain5_shape s es o) = true.
Proof. unfold chain5_shape. rewrite !forallb_app, elems_sh_txt. destruct o; reflexivity. Qed.
Lemma plain_arg a : arg_ok a = true -> plain (arg_text a) = true.
Proof. destruct a as [[|] a]; unfold arg_ok, arg_text; cbn [fst snd orb]; intros H; [apply plain_quote|apply plain_keyok; exact H]. Qed.
Lemma plain_args5 l : forallb arg_ok l = true -> plain (args5_text l) = true.
Proof.
  induction l as [|a [|b r] IH]; [reflexivity| |]; cbn [forallb]; intros H; apply andb_true_iff in H as [H1 H2].
  - cbn [args5_text]. rewrite app_nil_r. apply plain_arg; exact H1.
  - change (args5_text (a :: b :: r)) with (arg_text a ++ c_comma :: args5_text (b :: r)). rewrite plain_app, plain_cons, (plain_arg a H1), (IH H2). reflexivity.
Qed.
Lemma plain_elems es : forallb elem_ok es = true -> plain (elems_text es) = true.
Proof.
  induction es as [|[w l] es IH]; [reflexivity|]. cbn [forallb]. intros H. apply andb_true_iff in H as [H1 H2].
  unfold elem_ok in H1. cbn [fst snd] in H1. apply andb_true_iff in H1 as [Hw Hl].
  cbn [elems_text fst snd]. rewrite plain_cons, !plain_app, (plain_keyok _ Hw), (IH H2). cbn [andb]. rewrite andb_true_r.
  destruct l as [|a l]; [reflexivity|]. unfold call5_text. rewrite !plain_app, (plain_args5 _ Hl). reflexivity.
Qed.
Lemma plain_chain5 s es o : chain5_ok es o = true -> plain (chain5_text s es o) = true.
Proof.
  unfold chain5_ok. intros H. apply andb_true_iff in H as [H Ho]. apply andb_true_iff in H as [_ Hes]. unfold chain5_text.
  rewrite !plain_app, plain_quote, (plain_elems es Hes). cbn [andb]. rewrite andb_true_r.
  destruct o as [T|]; [|reflexivity]. cbn [end_text end_ok] in *. rewrite !plain_cons, (plain_keyok _ Ho). reflexivity.
Qed.
Theorem hsh_lex_chain5 cls s es o : cls_and_ok cls = true -> cls_flow_ok cls = true -> chain5_ok es o = true ->
  hsh_lex cls (chain5_text s es o) = chain5_shape s es o.
Proof.
  intros Hcls Hfl Hw. unfold hsh_lex.
  assert (Ht : tok_text (chain5_text s es o) = true).
  { apply line_tok. unfold LexLink.line_ok. rewrite (plain_chain5 s es o Hw). reflexivity. }
  rewrite (tokenize_tok_text cls false _ Ht eq_refl).
  set (st0 := mkLS (chain5_text s es o) None 0 1 1 [] [] [] []).
  destruct (lex_chain5 cls Hcls Hfl s es o st0 [] Hw) as (st' & (Hst & (ts & Htk & HF) & Hr & Hb & _) & Hin & _);
    [rewrite app_nil_r; reflexivity|reflexivity|cbn [ls_col st0]; lia|].
  rewrite (run_steps_finish cls st0 st' _ Hst Hin) by (cbn [ls_in st0]; lia).
  unfold finish. rewrite Hb, Hr, Htk. cbn [ls_brk ls_reps ls_toks st0 rev app]. rewrite app_nil_r, rev_involutive, removelast_last.
  exact (sh_of_match _ _ (chain5_shape_txt s es o) HF).
Qed.
Print Assumptions hsh_lex_chain5.

(* ======== document level: the union of the classes of Rt/LexLinkTH4.v and the chains of elements of this file ================================================= *)
Definition dec_arg (a : str) : arg := match a with 34 :: r => (true, removelast r) | _ => (false, a) end.
Definition dec_elem (p : str) : elem :=
  let w := takeb (fun c => negb (N.eqb c c_lbr)) p in
  (w, match skipn (length w) p with 91 :: r1 => map dec_arg (split_on c_comma (removelast r1)) | _ => [] end).
Definition hes (raw : str) : list elem := map dec_elem (tl (split_on 8743 (hd [] (hrest raw)))).
Definition ho (raw : str) : option str := match hrest raw with [_; t] => Some (tl t) | _ => None end.
Definition th5_raw (raw : str) : bool := str_eqb raw (chain5_text (hs raw) (hes raw) (ho raw)).
Definition th5_holo (v : value) : bool := match v with VHolo raw => th4_holo (VHolo raw) || th5_raw raw | _ => false end.
Fixpoint coreth5_node (n : node) : bool :=
  match n with
  | NAssign k v _ t => (th5_holo v || cval v) && opt_ne t
  | NBlock k tg ch _ => opt_ne tg && (negb (is_nil ch) && forallb coreth5_node ch)
  | NSection i k a ch _ => opt_ne a && (negb (is_nil ch) && forallb coreth5_node ch)
  | _ => false
  end.
Definition coreth5_doc (d : doc) : bool := coret_doc d && forallb coreth5_node (dsections d).
Definition c5_fits (l : list sh) (s : str) (es : list elem) (o : option str) : bool := all2 tmatchb (map tok_of_sh (chain5_shape s es o)) l.
Definition th5_safe (cls : N -> N) (hsh : str -> list sh) (raw : str) : bool :=
  (th5_raw raw && cls_and_ok cls && cls_flow_ok cls && chain5_ok (hes raw) (ho raw) && c5_fits (hsh raw) (hs raw) (hes raw) (ho raw))
  || th4_safe cls hsh raw.
Definition lex_safeth5_val (cls : N -> N) (hsh : str -> list sh) (k : str) (v : value) : bool :=
  match v with VHolo raw => th5_safe cls hsh raw | _ => lex_safe2_val k v end.
Fixpoint lex_safeth5_node (cls : N -> N) (hsh : str -> list sh) (n : node) : bool :=
  match n with
  | NAssign k v l t => key_ok k && lex_safeth5_val cls hsh k v && forallb comment_ok l && trail_ok t
  | NBlock k tg ch l => key_ok k && target_ok tg && forallb comment_ok l && forallb (lex_safeth5_node cls hsh) ch
  | NSection i k a ch l => sid_ok i && key_ok k && annot_ok a && forallb comment_ok l && forallb (lex_safeth5_node cls hsh) ch
  | NComment _ => false
  end.
Definition lex_safeth5_doc (cls : N -> N) (hsh : str -> list sh) (d : doc) : bool :=
  name_ok (dname d) && (match dgrammar d with Some g => ver_ok g | None => true end) &&
  forallb (lex_safeth5_node cls hsh) (dsections d) && forallb meta_ok (dmeta d) && forallb comment_ok (dtrailing d).

Lemma th4_safe_holo cls hsh raw : th4_safe cls hsh raw = true -> th4_holo (VHolo raw) = true.
Proof.
  unfold th4_safe, th2_safe, th4_holo. intros H. apply orb_true_iff in H as [H|H].
  - repeat (apply andb_true_iff in H as [H _]). rewrite H. apply orb_true_r.
  - apply orb_true_iff in H as [H|H].
    + repeat (apply andb_true_iff in H as [H _]). rewrite H. rewrite orb_true_r. reflexivity.
    + apply andb_true_iff in H as [H _]. rewrite H. reflexivity.
Qed.
Lemma holo5_parts cls hsh k raw l t : coreth5_node (NAssign k (VHolo raw) l t) = true -> lex_safeth5_node cls hsh (NAssign k (VHolo raw) l t) = true ->
  (exists s es o, raw = chain5_text s es o /\ cls_and_ok cls = true /\ cls_flow_ok cls = true /\ chain5_ok es o = true /\
                  c5_fits (hsh raw) s es o = true /\ key_ok k = true /\ forallb comment_ok l = true /\ trail_ok t = true /\ opt_ne t = true) \/
  (coreth4_node (NAssign k (VHolo raw) l t) = true /\ lex_safeth4_node cls hsh (NAssign k (VHolo raw) l t) = true).
Proof.
  intros Hc Hs. cbn [coreth5_node] in Hc. apply andb_true_iff in Hc as [_ Hne].
  cbn [lex_safeth5_node lex_safeth5_val] in Hs. apply andb_true_iff in Hs as [Hs Ht]. apply andb_true_iff in Hs as [Hs Hl]. apply andb_true_iff in Hs as [Hk Hv].
  unfold th5_safe in Hv. apply orb_true_iff in Hv as [Hv|Hv].
  - left. apply andb_true_iff in Hv as [Hv Hf]. apply andb_true_iff in Hv as [Hv Hok].
    apply andb_true_iff in Hv as [Hv Hfl]. apply andb_true_iff in Hv as [E Hcls]. unfold th5_raw in E. apply str_eqb_eq in E.
    exists (hs raw), (hes raw), (ho raw). repeat split; assumption.
  - right. split.
    + cbn [coreth4_node]. rewrite (th4_safe_holo cls hsh raw Hv), Hne. reflexivity.
    + cbn [lex_safeth4_node lex_safeth4_val]. rewrite Hk, Hv, Hl, Ht. reflexivity.
Qed.
Lemma holo5_text_ok cls hsh k raw l t : coreth5_node (NAssign k (VHolo raw) l t) = true -> lex_safeth5_node cls hsh (NAssign k (VHolo raw) l t) = true ->
  forall D, tok_text (unlines (emit_node_lines (NAssign k (VHolo raw) l t) D)) = true.
Proof.
  intros Hc Hs D. destruct (holo5_parts cls hsh k raw l t Hc Hs) as [(s & es & o & E & _ & _ & Hw & _ & Hk & Hl & Ht & _)|[Hc' Hs']].
  - rewrite emit_holo_lines, tok_text_unlines_app, (tok_leading D l Hl), tok_unlines1. cbn [andb].
    apply line_tok, line_ok_key; [exact Hk|]. rewrite E, !plain_app, (plain_chain5 s es o Hw), (plain_trailing _ Ht). reflexivity.
  - exact (node_text_okth4 cls hsh _ Hc' Hs' D).
Qed.

(* ---- emitted lines of the fragment ---------------------------------------------------------------------------------------------------------------------------- *)
Lemma coreth5_child_lines c D : coreth5_node c = true ->
  match c with
  | NAssign [] (VZone content tag marker) _ _ => zone_lines (S D) content tag marker
  | _ => emit_node_lines c (S D)
  end = emit_node_lines c (S D).
Proof.
  destruct c as [k v l t| | |]; try reflexivity. cbn [coreth5_node]. intros H. apply andb_true_iff in H as [H _].
  destruct v; cbn [th5_holo orb cval is_scalar sval_of] in H; try discriminate H; destruct k; reflexivity.
Qed.
Lemma emit_block_linesth5 k tg ch l D : forallb coreth5_node ch = true -> opt_ne tg = true ->
  emit_node_lines (NBlock k tg ch l) D =
  emit_leading l D ++ [ind D ++ k ++ target_text tg ++ [c_colon]] ++ flat_map (fun c => emit_node_lines c (S D)) ch.
Proof.
  intros H Hne. cbn [emit_node_lines]. f_equal.
  assert (E : flat_map (fun c => match c with NAssign [] (VZone content tag marker) _ _ => zone_lines (S D) content tag marker
                                              | _ => emit_node_lines c (S D) end) ch = flat_map (fun c => emit_node_lines c (S D)) ch).
  { clear -H. induction ch as [|c cs IH]; [reflexivity|]. cbn [forallb] in H. apply andb_true_iff in H as [H1 H2].
    cbn [flat_map]. rewrite (coreth5_child_lines c D H1), (IH H2). reflexivity. }
  rewrite E. destruct tg as [[|x r]|]; try discriminate Hne; reflexivity.
Qed.

(* a holographic assignment of the fragment, decoded *)
Section NodesTH5.
Variable cls : N -> N.
Variable hsh : str -> list sh.
Notation node_sht := (node_sht ml idnum_digits hsh).
Notation nodes_sht := (nodes_sht ml idnum_digits hsh).

Definition LTH5_node (n : node) : Prop :=
  coreth5_node n = true -> lex_safeth5_node cls hsh n = true ->
  forall D st rest, ls_in st = unlines (emit_node_lines n D) ++ rest -> ready st ->
    exists st', lexto cls st (node_sht D n) st' /\ ls_in st' = rest /\ ready st'.

Lemma lex_nodesth5 ch : Forall LTH5_node ch -> forallb coreth5_node ch = true -> forallb (lex_safeth5_node cls hsh) ch = true ->
  forall D st rest, ls_in st = unlines (flat_map (fun c => emit_node_lines c D) ch) ++ rest -> ready st ->
    exists st', lexto cls st (nodes_sht D ch) st' /\ ls_in st' = rest /\ ready st'.
Proof.
  induction ch as [|c cs IH]; intros HP Hc Hs D st rest Hin Hr.
  - exists st. split; [apply lexto_refl|split; [exact Hin|exact Hr]].
  - inversion HP as [|? ? HPc HPcs]; subst.
    cbn [forallb] in Hc, Hs. apply andb_true_iff in Hc as [Hc1 Hc2]. apply andb_true_iff in Hs as [Hs1 Hs2].
    cbn [flat_map] in Hin. rewrite unlines_app, <- app_assoc in Hin.
    destruct (HPc Hc1 Hs1 D st _ Hin Hr) as (st1 & L1 & I1 & R1).
    destruct (IH HPcs Hc2 Hs2 D st1 rest I1 R1) as (st2 & L2 & I2 & R2).
    exists st2. split; [|split; assumption]. unfold TokRoundT.nodes_sht. cbn [flat_map]. eapply lexto_trans; [exact L1|exact L2].
Qed.

Lemma LTH5_holo k raw l t : LTH5_node (NAssign k (VHolo raw) l t).
Proof.
  intros Hc Hs D st rest Hin Hr.
  destruct (holo5_parts cls hsh k raw l t Hc Hs) as [(s & es & o & E & Hcls & Hfl & Hw & Hf & Hk & Hl & Ht & Hne)|[Hc' Hs']];
    [|exact (all_LTH4_node cls hsh _ Hc' Hs' D st rest Hin Hr)].
  rewrite emit_holo_lines, unlines_app, <- app_assoc in Hin.
  destruct (lex_lead cls D l st _ Hl Hin Hr) as (st1 & L1 & I1 & R1).
  cbn [unlines flat_map] in I1. rewrite app_nil_r, <- app_assoc in I1. cbn [app] in I1.
  assert (I1' : ls_in st1 = (ind D ++ k ++ s_assign ++ chain5_text s es o ++ emit_trailing t) ++ c_nl :: rest).
  { rewrite I1. rewrite <- E. rewrite <- !app_assoc. reflexivity. }
  destruct (lex_chain5_line cls Hcls Hfl D k s es o t st1 rest Hk Hw Hne Ht I1' R1) as (st2 & L2 & I2 & R2).
  exists st2. split; [|split; assumption]. unfold TokRoundT.node_sht. cbn [lead_of main_sht val_sht].
  assert (L : lexto cls st ((lead_sh D l ++ indent_sh D ++ [(IDENTIFIER, Some (TVText k)); (ASSIGN, None)]) ++ chain5_shape s es o ++ (trail_sh t ++ [(NEWLINE, None)])) st2).
  { rewrite <- !app_assoc. eapply lexto_trans; [exact L1|exact L2]. }
  apply (lexto_fits_gen cls st st2 (hsh raw) _ _ _ Hf (chain5_shape_txt s es o)) in L. rewrite <- !app_assoc in L. exact L.
Qed.

Theorem all_LTH5_node : forall n, LTH5_node n.
Proof.
  apply node_ind2.
  - intros k v l t. destruct (is_holo v) eqn:Eh.
    + destruct v; try discriminate Eh. apply LTH5_holo.
    + intros Hc Hs D st rest Hin Hr.
      assert (Hc' : coretb_node (NAssign k v l t) = true) by (destruct v; try discriminate Eh; exact Hc).
      assert (Hs' : lex_safet_node (NAssign k v l t) = true) by (destruct v; try discriminate Eh; exact Hs).
      exact (all_LT_node cls hsh (NAssign k v l t) Hc' Hs' D st rest Hin Hr).
  - unfold LTH5_node. intros k tg ch l IH Hc Hs D st rest Hin Hr. cbn [coreth5_node] in Hc. apply andb_true_iff in Hc as [Hne Hc]. apply andb_true_iff in Hc as [_ Hcc].
    cbn [lex_safeth5_node] in Hs. apply andb_true_iff in Hs as [Hs Hss]. apply andb_true_iff in Hs as [Hs Hl]. apply andb_true_iff in Hs as [Hk Htg].
    rewrite (emit_block_linesth5 k tg ch l D Hcc Hne), !unlines_app, <- !app_assoc in Hin.
    destruct (lex_lead cls D l st _ Hl Hin Hr) as (st1 & L1 & I1 & R1).
    cbn [unlines flat_map] in I1. rewrite app_nil_r, <- app_assoc in I1. cbn [app] in I1.
    assert (HH : exists st2, lexto cls st1 (indent_sh D ++ (IDENTIFIER, Some (TVText k)) :: target_sh tg ++ [(BLOCK, None); (NEWLINE, None)]) st2 /\
                             ls_in st2 = unlines (flat_map (fun c => emit_node_lines c (S D)) ch) ++ rest /\ ready st2).
    { destruct tg as [[|x r]|]; [discriminate Hne| |].
      - exact (lex_target_header cls D k (x :: r) st1 _ Hk Htg I1 R1).
      - exact (lex_block_header cls D k st1 _ Hk I1 R1). }
    destruct HH as (st2 & L2 & I2 & R2).
    destruct (lex_nodesth5 ch IH Hcc Hss (S D) st2 rest I2 R2) as (st3 & L3 & I3 & R3).
    exists st3. split; [|split; assumption]. unfold TokRoundT.node_sht. cbn [lead_of]. rewrite main_sht_block.
    eapply lexto_trans; [exact L1|].
    replace (indent_sh D ++ (IDENTIFIER, Some (TVText k)) :: target_sh tg ++ [(BLOCK, None); (NEWLINE, None)] ++ nodes_sht (S D) ch)
      with ((indent_sh D ++ (IDENTIFIER, Some (TVText k)) :: target_sh tg ++ [(BLOCK, None); (NEWLINE, None)]) ++ nodes_sht (S D) ch)
      by (rewrite <- !app_assoc; cbn [app]; rewrite <- !app_assoc; reflexivity).
    eapply lexto_trans; [exact L2|exact L3].
  - unfold LTH5_node. intros i k a ch l IH Hc Hs D st rest Hin Hr. cbn [coreth5_node] in Hc. apply andb_true_iff in Hc as [Hne Hc]. apply andb_true_iff in Hc as [_ Hcc].
    cbn [lex_safeth5_node] in Hs. apply andb_true_iff in Hs as [Hs Hss]. apply andb_true_iff in Hs as [Hs Hl].
    apply andb_true_iff in Hs as [Hs Ha]. apply andb_true_iff in Hs as [Hi Hk].
    rewrite (emit_section_lines2 i k a ch l D), !unlines_app, <- !app_assoc in Hin.
    destruct (lex_lead cls D l st _ Hl Hin Hr) as (st1 & L1 & I1 & R1).
    cbn [unlines flat_map] in I1. rewrite app_nil_r, <- app_assoc in I1. cbn [app] in I1.
    destruct (lex_section_header cls D i k a st1 _ Hi Hk Ha Hne I1 R1) as (st2 & L2 & I2 & R2).
    destruct (lex_nodesth5 ch IH Hcc Hss (S D) st2 rest I2 R2) as (st3 & L3 & I3 & R3).
    exists st3. split; [|split; assumption]. unfold TokRoundT.node_sht. cbn [lead_of]. rewrite main_sht_section.
    eapply lexto_trans; [exact L1|]. rewrite !app_assoc. eapply lexto_trans; [|exact L3].
    rewrite <- !app_assoc. exact L2.
  - intros t Hc; discriminate Hc.
Qed.
End NodesTH5.

(* ---- the document ---------------------------------------------------------------------------------------------------------------------------------------------- *)
Lemma coreth5_parts d : coreth5_doc d = true ->
  coret_doc d = true /\ dfront d = None /\ forallb coreth5_node (dsections d) = true /\ forallb meta_field_ok (dmeta d) = true.
Proof.
  unfold coreth5_doc. intros H. apply andb_true_iff in H as [Hc Hn]. split; [exact Hc|]. unfold coret_doc in Hc.
  destruct (dfront d); [discriminate|]. split; [reflexivity|]. split; [exact Hn|].
  apply andb_true_iff in Hc as [Hc _]. apply andb_true_iff in Hc as [Hc _]. apply andb_true_iff in Hc as [_ Hm]. exact Hm.
Qed.
Lemma safeth5_parts cls hsh d : lex_safeth5_doc cls hsh d = true ->
  name_ok (dname d) = true /\ (match dgrammar d with Some g => ver_ok g | None => true end) = true /\
  forallb (lex_safeth5_node cls hsh) (dsections d) = true /\ forallb meta_ok (dmeta d) = true /\ forallb comment_ok (dtrailing d) = true.
Proof.
  unfold lex_safeth5_doc. intros Hs.
  apply andb_true_iff in Hs as [Hs Htr]. apply andb_true_iff in Hs as [Hs Hm]. apply andb_true_iff in Hs as [Hs Hn]. apply andb_true_iff in Hs as [Hname Hg].
  repeat split; assumption.
Qed.
Lemma hdr_doc_okh5 cls hsh d : lex_safeth5_doc cls hsh d = true -> lex_safez_doc cls (hdr_doc d) = true /\ prefix_lines (hdr_doc d) = prefix_lines d.
Proof.
  intros Hs. destruct (safeth5_parts cls hsh d Hs) as (H1 & H2 & _ & H4 & _). split; [|reflexivity].
  unfold lex_safez_doc, hdr_doc. cbn [dname dgrammar dsections dmeta dtrailing forallb]. rewrite H1, H2, H4. reflexivity.
Qed.

Lemma emit_lines_coreth5 cls hsh sp d : coreth5_doc d = true -> lex_safeth5_doc cls hsh d = true ->
  emit_lines sp d = prefix_lines d ++ flat_map (fun n => emit_node_lines n 0) (dsections d) ++ suffix_lines d.
Proof.
  intros Hc Hs. destruct (coreth5_parts d Hc) as (_ & Hfr & Hcn & Hmf). destruct (safeth5_parts cls hsh d Hs) as (_ & Hg & _).
  unfold emit_lines, prefix_lines, suffix_lines, grammar_lines. rewrite Hfr. cbn [app].
  assert (Esec : flat_map (fun n => match n with NComment _ => [] | _ => emit_node_lines n 0 end) (dsections d) =
                 flat_map (fun n => emit_node_lines n 0) (dsections d)).
  { clear -Hcn. induction (dsections d) as [|c cs IH]; [reflexivity|]. cbn [forallb] in Hcn. apply andb_true_iff in Hcn as [H1 H2].
    cbn [flat_map]. rewrite (IH H2). destruct c; try reflexivity. discriminate H1. }
  rewrite Esec.
  assert (Eg : match truthy (dgrammar d) with Some g => [s_octave ++ g] | None => [] end =
               match dgrammar d with Some g => [s_octave ++ g] | None => [] end).
  { destruct (dgrammar d) as [g|]; [|reflexivity]. destruct (ver_ok_nonempty _ Hg) as (x & r & ->). reflexivity. }
  rewrite Eg. unfold meta_lines. destruct (dmeta d) as [|kv m] eqn:Em.
  - repeat (progress (rewrite <- ?app_assoc; cbn [app])). reflexivity.
  - cbv zeta. rewrite (emit_meta_lines_core _ Hmf). cbn [map]. repeat (progress (rewrite <- ?app_assoc; cbn [app])). reflexivity.
Qed.

(* the pre-passes *)
Lemma node_text_okth5 cls hsh : forall n, coreth5_node n = true -> lex_safeth5_node cls hsh n = true -> forall D, tok_text (unlines (emit_node_lines n D)) = true.
Proof.
  apply (node_ind2 (fun n => coreth5_node n = true -> lex_safeth5_node cls hsh n = true -> forall D, tok_text (unlines (emit_node_lines n D)) = true)).
  - intros k v l t Hc Hs D. destruct (is_holo v) eqn:Eh.
    + destruct v; try discriminate Eh. exact (holo5_text_ok cls hsh k raw l t Hc Hs D).
    + assert (Hc' : coretb_node (NAssign k v l t) = true) by (destruct v; try discriminate Eh; exact Hc).
      assert (Hs' : lex_safet_node (NAssign k v l t) = true) by (destruct v; try discriminate Eh; exact Hs).
      exact (node_text_okt (NAssign k v l t) Hc' Hs' D).
  - intros k tg ch l IH Hc Hs D. cbn [coreth5_node] in Hc. apply andb_true_iff in Hc as [Hne Hc]. apply andb_true_iff in Hc as [_ Hcc].
    cbn [lex_safeth5_node] in Hs. apply andb_true_iff in Hs as [Hs Hss]. apply andb_true_iff in Hs as [Hs Hl]. apply andb_true_iff in Hs as [Hk Htg].
    rewrite (emit_block_linesth5 k tg ch l D Hcc Hne), !tok_text_unlines_app, (tok_leading D l Hl), tok_unlines1. cbn [andb].
    rewrite (line_tok _ (line_ok_key D k _ Hk (plain_target tg Htg))). cbn [andb].
    induction ch as [|c cs IHc]; [reflexivity|]. inversion IH as [|? ? Pc Pcs]; subst.
    cbn [forallb] in Hcc, Hss. apply andb_true_iff in Hcc as [Hc1 Hc2]. apply andb_true_iff in Hss as [Hs1 Hs2].
    cbn [flat_map]. rewrite tok_text_unlines_app, (Pc Hc1 Hs1 (S D)), (IHc Pcs Hc2 Hs2). reflexivity.
  - intros i k a ch l IH Hc Hs D. cbn [coreth5_node] in Hc. apply andb_true_iff in Hc as [Hne Hc]. apply andb_true_iff in Hc as [_ Hcc].
    cbn [lex_safeth5_node] in Hs. apply andb_true_iff in Hs as [Hs Hss]. apply andb_true_iff in Hs as [Hs Hl].
    apply andb_true_iff in Hs as [Hs Ha]. apply andb_true_iff in Hs as [Hi Hk].
    rewrite (emit_section_lines2 i k a ch l D), !tok_text_unlines_app, (tok_leading D l Hl), tok_unlines1. cbn [andb].
    assert (Hline : LexLink.line_ok (ind D ++ [167] ++ i ++ s_assign ++ k ++ annot_text a) = true).
    { unfold LexLink.line_ok. rewrite !plain_app, plain_ind, (plain_sid _ Hi), (plain_keyok _ Hk). cbn [andb].
      assert (Pa : plain (annot_text a) = true).
      { destruct a as [[|x a']|]; try reflexivity. cbn [annot_ok annot_text] in *. rewrite !plain_app, (plain_keyok _ Ha). reflexivity. }
      rewrite Pa. cbn [andb app]. apply fence_free_ind; chr. }
    rewrite (line_tok _ Hline). cbn [andb].
    induction ch as [|c cs IHc]; [reflexivity|]. inversion IH as [|? ? Pc Pcs]; subst.
    cbn [forallb] in Hcc, Hss. apply andb_true_iff in Hcc as [Hc1 Hc2]. apply andb_true_iff in Hss as [Hs1 Hs2].
    cbn [flat_map]. rewrite tok_text_unlines_app, (Pc Hc1 Hs1 (S D)), (IHc Pcs Hc2 Hs2). reflexivity.
  - intros t Hc; discriminate Hc.
Qed.

Section DocTH5.
Variable cls : N -> N.
Variable hsh : str -> list sh.

Lemma emit_text_okth5 sp d : coreth5_doc d = true -> lex_safeth5_doc cls hsh d = true -> tok_text (emit sp d) = true.
Proof.
  intros Hc Hs. rewrite emit_unlines, (emit_lines_coreth5 cls hsh sp d Hc Hs). destruct (coreth5_parts d Hc) as (_ & _ & Hcn & Hmf).
  destruct (safeth5_parts cls hsh d Hs) as (_ & _ & Hn & _ & Htr). destruct (hdr_doc_okh5 cls hsh d Hs) as [Hz Ep].
  rewrite !tok_text_unlines_app, <- Ep, (prefix_text_ok cls (hdr_doc d) Hmf Hz). cbn [andb].
  assert (A5 : tok_text (unlines (flat_map (fun n => emit_node_lines n 0) (dsections d))) = true).
  { clear -Hcn Hn. induction (dsections d) as [|c cs IH]; [reflexivity|]. cbn [forallb] in Hcn, Hn.
    apply andb_true_iff in Hcn as [Hc1 Hc2]. apply andb_true_iff in Hn as [Hn1 Hn2].
    cbn [flat_map]. rewrite tok_text_unlines_app, (node_text_okth5 cls hsh c Hc1 Hn1 0%nat), (IH Hc2 Hn2). reflexivity. }
  rewrite A5. unfold suffix_lines. rewrite tok_text_unlines_app, (tok_leading 0 _ Htr). reflexivity.
Qed.

Lemma all_LTH5_nodes ns : Forall (LTH5_node cls hsh) ns.
Proof. apply Forall_forall. intros n _. apply all_LTH5_node. Qed.

Lemma lex_docth5 sp d : coreth5_doc d = true -> lex_safeth5_doc cls hsh d = true ->
  forall st, ls_in st = emit sp d -> ls_pos st = 0 -> ls_spans st = [] ->
  exists st', lexto cls st (doct_sh ml idnum_digits hsh d ++ [(NEWLINE, None)]) st' /\ ls_in st' = [].
Proof.
  intros Hc Hs st Hin Hp Hsp. destruct (coreth5_parts d Hc) as (_ & _ & Hcn & Hmf). destruct (safeth5_parts cls hsh d Hs) as (_ & _ & Hn & _ & Htr).
  destruct (hdr_doc_okh5 cls hsh d Hs) as [Hz Ep].
  rewrite emit_unlines, (emit_lines_coreth5 cls hsh sp d Hc Hs), !unlines_app, <- Ep in Hin.
  destruct (lex_prefix cls (hdr_doc d) st _ Hmf Hz Hin Hp Hsp) as (st1 & L1 & I1 & R1).
  destruct (lex_nodesth5 cls hsh (dsections d) (all_LTH5_nodes _) Hcn Hn 0%nat st1 _ I1 R1) as (st2 & L2 & I2 & R2).
  destruct (lex_suffix cls d st2 Htr I2 R2) as (st3 & L3 & I3 & _).
  exists st3. split; [|exact I3].
  assert (E : doct_sh ml idnum_digits hsh d ++ [(NEWLINE, None)] =
              (g_sh (hdr_doc d) ++ [(ENVELOPE_START, Some (TVText (dname (hdr_doc d)))); (NEWLINE, None)] ++ meta_sh ml (dmeta (hdr_doc d)) ++ sep_shz (hdr_doc d)) ++
              nodes_sht ml idnum_digits hsh 0 (dsections d) ++ (lead_sh 0 (dtrailing d) ++ [(ENVELOPE_END, None)] ++ [(NEWLINE, None)])).
  { unfold doct_sh, g_sh, sep_shz, hdr_doc. cbn [dname dgrammar dsep dmeta]. rewrite <- !app_assoc. reflexivity. }
  rewrite E. eapply lexto_trans; [exact L1|]. eapply lexto_trans; [exact L2|exact L3].
Qed.

(* (b) THE LEXER HALF for coret documents whose holographic values are of the class [ "s" ∧ W ] / [ "s" ∧ W["a1",..,"an"] ] *)
Theorem lex_emit_coreth5 sp d : coreth5_doc d = true -> lex_safeth5_doc cls hsh d = true ->
  exists ts tnl teof,
    tokenize cls false (lines_of (emit sp d)) = LexOk (ts ++ [tnl; teof]) [] /\
    Forall2 tmatch ts (doct_sh ml idnum_digits hsh d) /\ tk tnl = NEWLINE /\ tk teof = EOF.
Proof.
  intros Hc Hs. destruct (coreth5_parts d Hc) as (_ & Hfr & _).
  rewrite (tokenize_tok_text cls false _ (emit_text_okth5 sp d Hc Hs) (emit_nonblank_head sp d Hfr)).
  set (st0 := mkLS (emit sp d) None 0 1 1 [] [] [] []).
  destruct (lex_docth5 sp d Hc Hs st0 eq_refl eq_refl eq_refl) as (st' & (Hst & (tsall & Ht & HF) & Hr & Hb & _) & Hin).
  rewrite (run_steps_finish cls st0 st' _ Hst Hin) by (cbn [ls_in st0]; lia).
  apply Forall2_app_inv_r in HF. destruct HF as (ts & tl & HF1 & HF2 & ->).
  inversion HF2 as [|tnl ? ? ? [Hnl _] HF3]; subst. inversion HF3; subst. cbn [fst] in Hnl.
  exists ts, tnl, (mkTok EOF TVNone (ls_line st') (ls_col st') None).
  split; [|split; [exact HF1|split; [exact Hnl|reflexivity]]].
  unfold finish. rewrite Hb, Hr, Ht. cbn [ls_brk ls_reps ls_toks st0 rev app].
  rewrite app_nil_r, rev_involutive, <- app_assoc. reflexivity.
Qed.

Lemma emit_first_lineth5 sp d : coreth5_doc d = true -> lex_safeth5_doc cls hsh d = true ->
  exists l0 r, split_on c_nl (emit sp d) = l0 :: r /\ prefixb s_dashes l0 = false.
Proof.
  intros Hc Hs. destruct (safeth5_parts cls hsh d Hs) as (Hname & Hg & _).
  rewrite emit_unlines, (emit_lines_coreth5 cls hsh sp d Hc Hs). unfold prefix_lines, grammar_lines.
  destruct (dgrammar d) as [g|].
  - cbn [app]. rewrite unlines_cons, split_on_app.
    + eexists _, _. split; [reflexivity|reflexivity].
    + pose proof (plain_ver _ Hg) as P. unfold plain in P. apply andb_true_iff in P as [P _]. apply negb_true_iff in P.
      rewrite LexLinkBase.memb_app, P. reflexivity.
  - cbn [app]. rewrite unlines_cons, split_on_app.
    + eexists _, _. split; [reflexivity|reflexivity].
    + unfold name_ok in Hname. apply andb_true_iff in Hname as [Hw _].
      pose proof (plain_key _ (word_ok_chars _ Hw)) as P. unfold plain in P. apply andb_true_iff in P as [P _]. apply negb_true_iff in P.
      rewrite !LexLinkBase.memb_app, P. reflexivity.
Qed.

(* (c) composed with the parser half.  The semantic side hypotheses are those of text_roundtrip_coretb (at a holographic site nodes_side asks
   TokRoundTHolo.hsite_okb: the group is in the proved class, its reconstruction is the raw text, the oracle holo_ok accepts it) *)
Theorem text_roundtrip_coreth5 numcanon holo_ok strict sp d :
  coreth5_doc d = true -> lex_safeth5_doc cls hsh d = true ->
  nodes_side numcanon holo_ok idnum_digits hsh (dsections d) -> Forall (TokRoundT.field_num_ok numcanon) (dmeta d) ->
  exists warns,
    parse_model cls numcanon holo_ok strict (lines_of (emit sp d)) = PRDoc d [] warns /\ Forall advisory warns.
Proof.
  intros Hc Hs Hside Hmnum. destruct (coreth5_parts d Hc) as (Hct & Hfr & _).
  destruct (lex_emit_coreth5 sp d Hc Hs) as (ts & tnl & teof & Htok & HF & _ & _).
  destruct (emit_first_lineth5 sp d Hc Hs) as (l0 & r & El & Hl0).
  unfold parse_model.
  rewrite (strip_frontmatter_none (u_space cls) (emit sp d) l0 r El Hl0), Htok.
  destruct (parse_coret_doc numcanon holo_ok strict (u_space cls) (u_alpha cls) ml idnum_digits hsh d Hct
              (nodes_side_nums numcanon holo_ok strict (u_space cls) idnum_digits hsh _ Hside) Hmnum
              (mkPS (ts ++ [tnl; teof]) None 0 [] 0 []) ts [tnl; teof]) as (st' & Hp & (l & Hw & Hadv) & _);
    [discriminate|reflexivity|exact HF|reflexivity|].
  rewrite Hp. exists (rev (pwarns st')). split.
  - f_equal. destruct d as [name gr fr sep meta secs trl]. cbn [dfront] in Hfr. subst fr. reflexivity.
  - rewrite Hw. cbn [pwarns]. rewrite app_nil_r. apply Forall_rev. exact Hadv.
Qed.
End DocTH5.

(* ---- hsh := hsh_lex cls -------------------------------------------------------------------------------------------------------------------------------------- *)
Definition hsh_cls5 (raw : str) : list sh :=
  if th5_raw raw && chain5_ok (hes raw) (ho raw) then chain5_shape (hs raw) (hes raw) (ho raw) else hsh_cls4 raw.
Lemma th5_safe_lex_any cls hsh raw : th5_safe cls hsh raw = true -> th5_safe cls (hsh_lex cls) raw = true.
Proof.
  unfold th5_safe. intros H. apply orb_true_iff in H as [H|H]; apply orb_true_iff; [left|right; exact (th4_safe_lex_any cls hsh raw H)].
  apply andb_true_iff in H as [H _]. apply andb_true_iff in H as [H Hok].
  apply andb_true_iff in H as [H Hfl]. apply andb_true_iff in H as [E Hcls].
  rewrite E, Hcls, Hfl, Hok. cbn [andb]. unfold th5_raw in E. apply str_eqb_eq in E.
  rewrite E at 1. rewrite (hsh_lex_chain5 cls _ _ _ Hcls Hfl Hok). unfold c5_fits. apply fits_refl_gen, chain5_shape_txt.
Qed.
Lemma safeth5_lex_any cls hsh : forall n, lex_safeth5_node cls hsh n = true -> lex_safeth5_node cls (hsh_lex cls) n = true.
Proof.
  apply (node_ind2 (fun n => lex_safeth5_node cls hsh n = true -> lex_safeth5_node cls (hsh_lex cls) n = true)).
  - intros k v l t Hs. destruct v; try exact Hs.
    cbn [lex_safeth5_node lex_safeth5_val] in Hs |- *. apply andb_true_iff in Hs as [Hs Ht]. apply andb_true_iff in Hs as [Hs Hl]. apply andb_true_iff in Hs as [Hk Hv].
    rewrite Hk, Hl, Ht, (th5_safe_lex_any cls hsh raw Hv). reflexivity.
  - intros k tg ch l IH Hs. cbn [lex_safeth5_node] in Hs |- *. apply andb_true_iff in Hs as [Hs Hss]. rewrite Hs. cbn [andb].
    induction ch as [|c cs IHc]; [reflexivity|]. inversion IH as [|? ? Pc Pcs]; subst.
    cbn [forallb] in Hss |- *. apply andb_true_iff in Hss as [Hs1 Hs2]. rewrite (Pc Hs1), (IHc Pcs Hs2). reflexivity.
  - intros i k a ch l IH Hs. cbn [lex_safeth5_node] in Hs |- *. apply andb_true_iff in Hs as [Hs Hss]. rewrite Hs. cbn [andb].
    induction ch as [|c cs IHc]; [reflexivity|]. inversion IH as [|? ? Pc Pcs]; subst.
    cbn [forallb] in Hss |- *. apply andb_true_iff in Hss as [Hs1 Hs2]. rewrite (Pc Hs1), (IHc Pcs Hs2). reflexivity.
  - intros t Hs; exact Hs.
Qed.
Lemma safeth5_doc_lex_any cls hsh d : lex_safeth5_doc cls hsh d = true -> lex_safeth5_doc cls (hsh_lex cls) d = true.
Proof.
  intros Hs. destruct (safeth5_parts cls hsh d Hs) as (H1 & H2 & H3 & H4 & H5).
  unfold lex_safeth5_doc. rewrite H1, H2, H4, H5. cbn [andb]. rewrite !andb_true_r.
  clear -H3. induction (dsections d) as [|c cs IH]; [reflexivity|]. cbn [forallb] in H3 |- *.
  apply andb_true_iff in H3 as [Hs1 Hs2]. rewrite (safeth5_lex_any cls hsh c Hs1), (IH Hs2). reflexivity.
Qed.
Theorem text_roundtrip_coreth5_lex cls hsh0 numcanon holo_ok strict sp d :
  coreth5_doc d = true -> lex_safeth5_doc cls hsh0 d = true ->
  nodes_side numcanon holo_ok idnum_digits (hsh_lex cls) (dsections d) -> Forall (TokRoundT.field_num_ok numcanon) (dmeta d) ->
  exists warns,
    parse_model cls numcanon holo_ok strict (lines_of (emit sp d)) = PRDoc d [] warns /\ Forall advisory warns.
Proof.
  intros Hc Hs. exact (text_roundtrip_coreth5 cls (hsh_lex cls) numcanon holo_ok strict sp d Hc (safeth5_doc_lex_any cls hsh0 d Hs)).
Qed.

Print Assumptions lex_emit_coreth5.
Print Assumptions text_roundtrip_coreth5.
Print Assumptions text_roundtrip_coreth5_lex.
