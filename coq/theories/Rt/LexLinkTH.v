(* Lexer half for coret documents (Rt/TokRoundT.v) -- HOLOGRAPHIC VALUES at text level, a first class.

   Class of raw texts treated here (s, a1..an arbitrary strings written by Syn.Quote.quote; W one identifier word, wt_ok = key_ok W):
       raw = [ "s" ∧ W ]                  holo_text s (W, [])          = "[" ++ quote s ++ "∧" ++ W ++ "]"               (chain C1 of Rt/TokRoundTHolo.v)
       raw = [ "s" ∧ W["a1",..,"an"] ]    holo_text s (W, [a1;..;an])  = "[" ++ quote s ++ "∧" ++ W ++ "[" ++ quote a1 ++ "," ++ .. ++ quote an ++ "]" ++ "]"
                                                                        (chain C3: ONE call, n >= 1 quoted-string arguments)
   The scanner reads this text, wherever it stands after KEY:: (and also ALONE, from position 0: hsh_lex_class), as the tokens
       LIST_START "["   STRING s   CONSTRAINT "∧"   IDENTIFIER W   [ LIST_START "["  STRING a1  COMMA ","  ..  STRING an  LIST_END "]" ]   LIST_END "]"     (th_shape s w)
   with every payload determined, and no repair, for EVERY character-class oracle cls.
   The fragment test coreth_doc only tests the textual FRAME (th_raw: raw = holo_text (hs raw) (hw raw), hs / hw a decoder about which nothing has
   to be proved; the decoder stops the example string at the first inner double quote).  The side condition lex_safeth_doc adds wt_ok (hw raw)
   and, the shape oracle hsh staying ARBITRARY, the boolean test th_fits: hsh raw is pointwise th_shape, payloads equal or left open.  For
   hsh := TokRoundTEx.hsh_lex cls the clause th_fits is implied by the others (th_safe_lex).

     lex_holo_line          the emitted line  ind D ++ k ++ "::" ++ raw ++ [ // trailing]  is read as INDENT? KEY ASSIGN th_shape COMMENT? NEWLINE, every depth D
     lex_emit_coreth        the model lexer reads  emit sp d  as  doct_sh needs_multiline ex_idnum hsh d  (+ NEWLINE EOF), no repair
     text_roundtrip_coreth  composed with TokRoundT.parse_coret_doc
     hsh_lex_class          hsh_lex cls (holo_text s w) = th_shape s w   (context independence of the scanner on this class)
     text_roundtrip_coreth_lex   the same for hsh := hsh_lex cls, side condition lex_safeth_doc hsh_cls d (purely textual)

   NOT treated: flow chains  W∧W' / W→§T  (a word directly followed by a non-ASCII operator: whether ∧ / → continue the identifier depends on the
   oracle cls -- id_char cls 8743 -- so a hypothesis on cls would be needed), calls with bare-word / number arguments  ENUM[a,b], non-string
   examples (number, boolean, null directly followed by ∧: same dependence on cls through word_boundary_after). *)
From OV Require Import Base.Strs Gen.LexerGen Syn.Escape Syn.Quote Syn.Ast Syn.Emitter Syn.Parser Lex.Lexer Lex.Progress
     Rt.Zones Rt.ZonesRt Rt.TokRound Rt.TokRoundEx Rt.TokRound2 Rt.TokRound2Ex Rt.TokRoundZ Rt.TokRoundT Rt.TokRoundTHolo Rt.TokRoundTEx
     Rt.LexLinkBase Rt.LexLinkSteps Rt.LexLink Rt.LexLink2Base Rt.LexLink2Steps Rt.LexLink2Text Rt.LexLink2
     Rt.LexLinkZPos Rt.LexLinkZText Rt.LexLinkZ Rt.LexLinkT.
From Coq Require Import Lia.
Open Scope N_scope.

(* ---- the class ------------------------------------------------------------------------------------------------------------------------------------- *)
Definition c_and : N := 8743.
(* the chain after the constraint operator: one word W, or one call  W["a1",..,"an"]  with quoted-string arguments *)
Definition wtail : Type := (str * list str)%type.        (* the word, the arguments of the call ([] = no call) *)
Fixpoint args_text (a : list str) : str :=
  match a with [] => [] | x :: r => quote x ++ match r with [] => [] | _ => c_comma :: args_text r end end.
Fixpoint args_sh (a : list str) : list sh :=
  match a with [] => [] | x :: r => (STRING, Some (TVText x)) :: match r with [] => [] | _ => (COMMA, Some (TVText [44])) :: args_sh r end end.
Definition call_text (a : list str) : str := match a with [] => [] | _ => [c_lbr] ++ args_text a ++ [c_rbr] end.
Definition call_sh (a : list str) : list sh :=
  match a with [] => [] | _ => [(LIST_START, Some (TVText [91]))] ++ args_sh a ++ [(LIST_END, Some (TVText [93]))] end.
Definition holo_text (s : str) (w : wtail) : str := [c_lbr] ++ quote s ++ [c_and] ++ fst w ++ call_text (snd w) ++ [c_rbr].
Definition th_shape (s : str) (w : wtail) : list sh :=
  [(LIST_START, Some (TVText [91])); (STRING, Some (TVText s)); (CONSTRAINT, Some (TVText [8743]));
   (IDENTIFIER, Some (TVText (fst w)))] ++ call_sh (snd w) ++ [(LIST_END, Some (TVText [93]))].
Definition wt_ok (w : wtail) : bool := key_ok (fst w).
(* decoder (only used through the equation test th_raw: nothing has to be proved about it) *)
Definition hs (raw : str) : str := takeb (fun c => negb (N.eqb c c_dq)) (skipn 2 raw).
Definition not_dq (c : N) : bool := negb (N.eqb c c_dq).
Fixpoint dec_args (f : nat) (r : str) : list str :=
  match f with
  | O => []
  | S f' => match r with
            | 34 :: r1 => let a := takeb not_dq r1 in
                          a :: match skipn (length a) r1 with 34 :: 44 :: r2 => dec_args f' r2 | _ => [] end
            | _ => []
            end
  end.
Definition hw (raw : str) : wtail :=
  let r0 := skipn (4 + length (hs raw)) raw in
  let w := takeb (fun c => negb (N.eqb c c_lbr) && negb (N.eqb c c_rbr)) r0 in
  (w, match skipn (length w) r0 with
      | 91 :: r1 => dec_args (length raw) r1
      | _ => []
      end).
Definition th_raw (raw : str) : bool := str_eqb raw (holo_text (hs raw) (hw raw)).
Definition th_holo (v : value) : bool := match v with VHolo raw => th_raw raw | _ => false end.

Fixpoint coreth_node (n : node) : bool :=
  match n with
  | NAssign k v _ t => (th_holo v || cval v) && opt_ne t
  | NBlock k tg ch _ => opt_ne tg && (negb (is_nil ch) && forallb coreth_node ch)
  | NSection i k a ch _ => opt_ne a && (negb (is_nil ch) && forallb coreth_node ch)
  | _ => false
  end.
Definition coreth_doc (d : doc) : bool := coret_doc d && forallb coreth_node (dsections d).

(* the shape oracle agrees with the class shape (kinds equal, payloads equal or left open) *)
Definition th_fits (l : list sh) (s : str) (w : wtail) : bool := all2 tmatchb (map tok_of_sh (th_shape s w)) l.
Definition th_safe (hsh : str -> list sh) (raw : str) : bool := wt_ok (hw raw) && th_fits (hsh raw) (hs raw) (hw raw).
Definition lex_safeth_val (hsh : str -> list sh) (k : str) (v : value) : bool :=
  match v with VHolo raw => th_safe hsh raw | _ => lex_safe2_val k v end.
Fixpoint lex_safeth_node (hsh : str -> list sh) (n : node) : bool :=
  match n with
  | NAssign k v l t => key_ok k && lex_safeth_val hsh k v && forallb comment_ok l && trail_ok t
  | NBlock k tg ch l => key_ok k && target_ok tg && forallb comment_ok l && forallb (lex_safeth_node hsh) ch
  | NSection i k a ch l => sid_ok i && key_ok k && annot_ok a && forallb comment_ok l && forallb (lex_safeth_node hsh) ch
  | NComment _ => false
  end.
Definition lex_safeth_doc (hsh : str -> list sh) (d : doc) : bool :=
  name_ok (dname d) && (match dgrammar d with Some g => ver_ok g | None => true end) &&
  forallb (lex_safeth_node hsh) (dsections d) && forallb meta_ok (dmeta d) && forallb comment_ok (dtrailing d).

Lemma tmatch_fits t k v s : tmatch t (k, Some v) -> tmatch (tok_of_sh (k, Some v)) s -> tmatch t s.
Proof.
  intros [H1 H2] [H3 H4]. cbn [fst snd tok_of_sh tk tv] in *. split; [congruence|].
  destruct (snd s); [congruence|exact I].
Qed.
Definition txt_sh (s : sh) : bool := match snd s with Some (TVText _) => true | _ => false end.
Lemma args_sh_txt a : forallb txt_sh (args_sh a) = true.
Proof. induction a as [|x [|y r] IH]; [reflexivity|reflexivity|]. cbn [args_sh forallb txt_sh snd andb] in *. exact IH. Qed.
Lemma th_shape_txt s w : forallb txt_sh (th_shape s w) = true.
Proof.
  destruct w as [w [|x a]]; [reflexivity|]. unfold th_shape, call_sh. cbn [fst snd]. rewrite !forallb_app, (args_sh_txt (x :: a)). reflexivity.
Qed.
Lemma fits_gen : forall L l ts, Forall2 tmatch (map tok_of_sh L) l -> forallb txt_sh L = true -> Forall2 tmatch ts L -> Forall2 tmatch ts l.
Proof.
  induction L as [|[k p] L IH]; intros l ts H Hd HF; inversion HF; subst; cbn [map] in H; inversion H; subst; constructor.
  - cbn [forallb] in Hd. apply andb_true_iff in Hd as [Hd _]. destruct p as [v|]; [|discriminate Hd]. eapply tmatch_fits; eassumption.
  - cbn [forallb] in Hd. apply andb_true_iff in Hd as [_ Hd]. eapply IH; eassumption.
Qed.
Lemma th_fits_F2 ts l s w : th_fits l s w = true -> Forall2 tmatch ts (th_shape s w) -> Forall2 tmatch ts l.
Proof. unfold th_fits. intros H HF. apply all2_F2 in H. exact (fits_gen _ _ _ H (th_shape_txt s w) HF). Qed.

Lemma lexto_fits cls st st' l s w pre post :
  th_fits l s w = true -> lexto cls st (pre ++ th_shape s w ++ post) st' -> lexto cls st (pre ++ l ++ post) st'.
Proof.
  intros Hf (H1 & (ts & Ht & HF) & H3). split; [exact H1|]. split; [|exact H3]. exists ts. split; [exact Ht|].
  apply Forall2_app_inv_r in HF. destruct HF as (t1 & t23 & F1 & F23 & ->).
  apply Forall2_app_inv_r in F23. destruct F23 as (t2 & t3 & F2 & F3 & ->).
  apply Forall2_app; [exact F1|]. apply Forall2_app; [|exact F3]. exact (th_fits_F2 _ _ _ _ Hf F2).
Qed.

Lemma emit_holo_lines k raw l t D :
  emit_node_lines (NAssign k (VHolo raw) l t) D = emit_leading l D ++ [ind D ++ k ++ s_assign ++ raw ++ emit_trailing t].
Proof. reflexivity. Qed.

Section LinkTH.
Variable cls : N -> N.
Variable hsh : str -> list sh.

(* ---- the CONSTRAINT operator -------------------------------------------------------------------------------------------------------------------------- *)
Lemma sp_and st s' : ls_pos st <> 0 -> scan_version cls (8743 :: s') = None ->
  step_plain cls false st 8743 s' = emit_pat st CONSTRAINT (TVText [8743]) [8743] s' None.
Proof.
  intros Hp Hv. unfold step_plain; cbv zeta.
  rewrite (neqb 8743 c_sp) by discriminate.
  rewrite (hd_sentinel cls _ 8743 s') by (right; exact Hp).
  rewrite Hv, (hd_end_env 8743 s'), (hd_env_start 8743 s'), (hd_dash3 8743 s'), (hd_comment 8743 s') by discriminate.
  change (try_simple simple_ops (8743 :: s')) with (@None (str * tkind)). cbv iota. rewrite (hd_vs cls (ls_prev st) 8743 s') by discriminate.
  reflexivity.
Qed.
Lemma G_and st r : ls_in st = 8743 :: r -> ls_spans st = [] -> ls_pos st <> 0 -> scan_version cls (8743 :: r) = None ->
  exists st', gstep cls st st' CONSTRAINT (TVText [8743]) r (Some 8743) (ls_brk st).
Proof.
  intros Hin Hsp Hp Hv.
  destruct (gstep_emit_pat cls st 8743 r CONSTRAINT (TVText [8743]) [8743] r Hin Hsp) as (st' & H); try reflexivity; [|discriminate|exists st'; exact H].
  apply sp_and; assumption.
Qed.

(* ---- the arguments of a call:  "a1","a2",..,"an"  before the closing bracket ----------------------------------------------------------------------------- *)
Lemma lex_args : forall a st r, a <> [] -> ls_in st = args_text a ++ c_rbr :: r -> ls_spans st = [] ->
  exists st', lextoB cls st (args_sh a) st' /\ ls_in st' = c_rbr :: r /\ ls_brk st' = ls_brk st.
Proof.
  induction a as [|x a IH]; [congruence|]. intros st r _ Hin S0. destruct a as [|y a].
  - cbn [args_text args_sh] in *. rewrite app_nil_r in Hin.
    destruct (G_str cls st x c_rbr _ Hin ltac:(discriminate) S0) as (st1 & G1).
    exists st1. split; [eapply (lextoB_gstep cls); [exact G1|reflexivity|right; reflexivity]|].
    split; [exact (gstep_in cls _ _ _ _ _ _ _ G1)|exact (gstep_brk cls _ _ _ _ _ _ _ G1)].
  - change (args_text (x :: y :: a)) with (quote x ++ c_comma :: args_text (y :: a)) in Hin. rewrite <- app_assoc in Hin. cbn [app] in Hin.
    destruct (G_str cls st x c_comma _ Hin ltac:(discriminate) S0) as (st1 & G1).
    assert (S1 : ls_spans st1 = []) by (rewrite (gstep_spans cls _ _ _ _ _ _ _ G1); exact S0).
    destruct (G_comma cls st1 _ (gstep_in cls _ _ _ _ _ _ _ G1) S1) as (st2 & G2).
    assert (S2 : ls_spans st2 = []) by (rewrite (gstep_spans cls _ _ _ _ _ _ _ G2); exact S1).
    destruct (IH st2 r ltac:(discriminate) (gstep_in cls _ _ _ _ _ _ _ G2) S2) as (st3 & L3 & I3 & B3).
    exists st3. split; [|split; [exact I3|]].
    + change (args_sh (x :: y :: a)) with ([(STRING, Some (TVText x))] ++ [(COMMA, Some (TVText [44]))] ++ args_sh (y :: a)).
      eapply (lextoB_trans cls); [eapply (lextoB_gstep cls); [exact G1|reflexivity|right; reflexivity]|].
      eapply (lextoB_trans cls); [eapply (lextoB_gstep cls); [exact G2|reflexivity|right; reflexivity]|exact L3].
    + rewrite B3, (gstep_brk cls _ _ _ _ _ _ _ G2). exact (gstep_brk cls _ _ _ _ _ _ _ G1).
Qed.

(* ---- [ "s" ∧ W ]  /  [ "s" ∧ W["a1",..] ]  followed by anything ------------------------------------------------------------------------ *)
Lemma lex_holo s w st r :
  wt_ok w = true -> ls_in st = holo_text s w ++ r -> ls_spans st = [] -> 1 <= ls_col st ->
  exists st', lexto cls st (th_shape s w) st' /\ ls_in st' = r /\ 1 < ls_col st' /\ ls_pos st' <> 0.
Proof.
  intros Hw Hin S0 C0. destruct w as [w a]. unfold wt_ok in Hw. unfold holo_text in Hin. cbn [fst snd] in Hw, Hin.
  rewrite <- !app_assoc in Hin. cbn [app] in Hin.
  destruct (G_lbr cls st _ Hin S0) as (st1 & p & G1).
  assert (S1 : ls_spans st1 = []) by (rewrite (gstep_spans cls _ _ _ _ _ _ _ G1); exact S0).
  destruct (G_str cls st1 s c_and _ (gstep_in cls _ _ _ _ _ _ _ G1) ltac:(discriminate) S1) as (st2 & G2).
  assert (S2 : ls_spans st2 = []) by (rewrite (gstep_spans cls _ _ _ _ _ _ _ G2); exact S1).
  assert (Hx : exists x u, call_text a ++ c_rbr :: r = x :: u /\ (x = c_lbr \/ x = c_rbr)).
  { destruct a as [|a0 a]; cbn [call_text app]; eexists _, _; (split; [reflexivity|]); [right|left]; reflexivity. }
  destruct Hx as (x & u & Ex & Hx).
  assert (V2 : scan_version cls (8743 :: w ++ call_text a ++ c_rbr :: r) = None).
  { rewrite Ex. change (8743 :: w ++ ?y) with ((8743 :: w) ++ y). apply scan_version_no_dot; [|destruct Hx; subst x; discriminate|apply u_digit_false; destruct Hx; subst x; chr].
    intros y [<-|Hy]; [discriminate|exact (key_no_dot w Hw y Hy)]. }
  destruct (G_and st2 _ (gstep_in cls _ _ _ _ _ _ _ G2) S2 (gstep_pos cls _ _ _ _ _ _ _ G2) V2) as (st3 & G3).
  assert (S3 : ls_spans st3 = []) by (rewrite (gstep_spans cls _ _ _ _ _ _ _ G3); exact S2).
  pose proof (gstep_in cls _ _ _ _ _ _ _ G3) as I3. rewrite Ex in I3.
  assert (Kx : kterm x) by (destruct Hx; subst x; [right; left|right; right; left]; reflexivity).
  destruct (G_key cls st3 w x _ Hw Kx I3 (gstep_pos cls _ _ _ _ _ _ _ G3) S3) as (st4 & G4).
  assert (S4 : ls_spans st4 = []) by (rewrite (gstep_spans cls _ _ _ _ _ _ _ G4); exact S3).
  assert (B4 : ls_brk st4 = p :: ls_brk st).
  { rewrite (gstep_brk cls _ _ _ _ _ _ _ G4), (gstep_brk cls _ _ _ _ _ _ _ G3), (gstep_brk cls _ _ _ _ _ _ _ G2). exact (gstep_brk cls _ _ _ _ _ _ _ G1). }
  pose proof (gstep_in cls _ _ _ _ _ _ _ G4) as I4. rewrite <- Ex in I4.
  assert (LB4 : lextoB cls st [(LIST_START, Some (TVText [91])); (STRING, Some (TVText s)); (CONSTRAINT, Some (TVText [8743])); (IDENTIFIER, Some (TVText w))] st4).
  { change [(LIST_START, Some (TVText [91])); (STRING, Some (TVText s)); (CONSTRAINT, Some (TVText [8743])); (IDENTIFIER, Some (TVText w))]
      with ([(LIST_START, Some (TVText [91]))] ++ [(STRING, Some (TVText s))] ++ [(CONSTRAINT, Some (TVText [8743]))] ++ [(IDENTIFIER, Some (TVText w))]).
    eapply (lextoB_trans cls); [eapply (lextoB_gstep cls); [exact G1|reflexivity|right; reflexivity]|].
    eapply (lextoB_trans cls); [eapply (lextoB_gstep cls); [exact G2|reflexivity|right; reflexivity]|].
    eapply (lextoB_trans cls); [eapply (lextoB_gstep cls); [exact G3|reflexivity|right; reflexivity]|].
    eapply (lextoB_gstep cls); [exact G4|reflexivity|right; reflexivity]. }
  pose proof (gstep_col cls _ _ _ _ _ _ _ G1) as C1. pose proof (gstep_col cls _ _ _ _ _ _ _ G2) as C2. pose proof (gstep_col cls _ _ _ _ _ _ _ G3) as C3.
  pose proof (gstep_col cls _ _ _ _ _ _ _ G4) as C4.
  unfold th_shape. cbn [fst snd].
  set (pre4 := [(LIST_START, Some (TVText [91])); (STRING, Some (TVText s)); (CONSTRAINT, Some (TVText [8743])); (IDENTIFIER, Some (TVText w))]) in *.
  destruct a as [|a0 a]; cbn [call_text app] in I4; cbn [call_sh].
  - (* W *)
    destruct (G_rbr cls st4 _ p (ls_brk st) I4 S4 B4) as (st5 & G5).
    exists st5. split; [|split; [exact (gstep_in cls _ _ _ _ _ _ _ G5)|split; [|exact (gstep_pos cls _ _ _ _ _ _ _ G5)]]].
    + apply (lextoB_lexto cls); [|exact (gstep_brk cls _ _ _ _ _ _ _ G5)]. change (pre4 ++ [] ++ ?l) with (pre4 ++ l).
      eapply (lextoB_trans cls); [exact LB4|]. eapply (lextoB_gstep cls); [exact G5|reflexivity|right; reflexivity].
    + pose proof (gstep_col cls _ _ _ _ _ _ _ G5). lia.
  - (* W["a0",..] *)
    destruct (G_lbr cls st4 _ I4 S4) as (st5 & p2 & G5).
    assert (S5 : ls_spans st5 = []) by (rewrite (gstep_spans cls _ _ _ _ _ _ _ G5); exact S4).
    pose proof (gstep_in cls _ _ _ _ _ _ _ G5) as I5. rewrite <- app_assoc in I5. cbn [app] in I5.
    destruct (lex_args (a0 :: a) st5 _ ltac:(discriminate) I5 S5) as (st6 & L6 & I6 & B6).
    assert (S6 : ls_spans st6 = []) by (rewrite (lextoB_spans cls _ _ _ L6); exact S5).
    assert (B6' : ls_brk st6 = p2 :: p :: ls_brk st) by (rewrite B6, (gstep_brk cls _ _ _ _ _ _ _ G5), B4; reflexivity).
    destruct (G_rbr cls st6 _ p2 (p :: ls_brk st) I6 S6 B6') as (st7 & G7).
    assert (S7 : ls_spans st7 = []) by (rewrite (gstep_spans cls _ _ _ _ _ _ _ G7); exact S6).
    destruct (G_rbr cls st7 _ p (ls_brk st) (gstep_in cls _ _ _ _ _ _ _ G7) S7 (gstep_brk cls _ _ _ _ _ _ _ G7)) as (st8 & G8).
    exists st8. split; [|split; [exact (gstep_in cls _ _ _ _ _ _ _ G8)|split; [|exact (gstep_pos cls _ _ _ _ _ _ _ G8)]]].
    + apply (lextoB_lexto cls); [|exact (gstep_brk cls _ _ _ _ _ _ _ G8)].
      rewrite <- !app_assoc. eapply (lextoB_trans cls); [exact LB4|].
      eapply (lextoB_trans cls); [eapply (lextoB_gstep cls); [exact G5|reflexivity|right; reflexivity]|].
      eapply (lextoB_trans cls); [exact L6|].
      eapply (lextoB_trans cls); [eapply (lextoB_gstep cls); [exact G7|reflexivity|right; reflexivity]|].
      eapply (lextoB_gstep cls); [exact G8|reflexivity|right; reflexivity].
    + pose proof (gstep_col cls _ _ _ _ _ _ _ G5). pose proof (lextoB_col cls _ _ _ L6). pose proof (gstep_col cls _ _ _ _ _ _ _ G7).
      pose proof (gstep_col cls _ _ _ _ _ _ _ G8). lia.
Qed.

(* ---- [indent] KEY :: [ "s" ∧ W ] [ // comment] NEWLINE, at every depth -------------------------------------------------------------------------------------- *)
Lemma lex_holo_line D k s w t st rest :
  key_ok k = true -> wt_ok w = true -> opt_ne t = true -> trail_ok t = true ->
  ls_in st = (ind D ++ k ++ s_assign ++ holo_text s w ++ emit_trailing t) ++ c_nl :: rest -> ready st ->
  exists st', lexto cls st (indent_sh D ++ [(IDENTIFIER, Some (TVText k)); (ASSIGN, None)] ++ th_shape s w ++ trail_sh t ++ [(NEWLINE, None)]) st' /\
              ls_in st' = rest /\ ready st'.
Proof.
  intros Hk Hw Hne Ht Hin Hr. rewrite <- !app_assoc in Hin.
  change (s_assign ++ ?x) with (c_colon :: c_colon :: x) in Hin.
  destruct (lex_indent_key cls D k _ st Hk Hin Hr) as (st2 & L2 & I2 & S2).
  destruct (T_assign cls st2 _ I2 S2) as (st3 & T3).
  assert (L3 : lexto cls st2 [(ASSIGN, None)] st3) by (eapply lexto_tstep; [exact T3|reflexivity|left; reflexivity]).
  assert (S3 : ls_spans st3 = []) by (rewrite (tstep_spans _ _ _ _ _ _ _ T3); exact S2).
  assert (C3 : 1 <= ls_col st3) by (apply (lexto_col cls _ _ _ L3), (lexto_col cls _ _ _ L2), ready_col; exact Hr).
  destruct (trail_hd t rest) as (z & u & Ez & Hz).
  pose proof (tstep_in _ _ _ _ _ _ _ T3) as I3. rewrite Ez in I3.
  destruct (lex_holo s w st3 (z :: u) Hw I3 S3 C3) as (st4 & L4 & I4 & C4 & P4).
  assert (S4 : ls_spans st4 = []) by (rewrite (lexto_spans _ _ _ _ L4); exact S3).
  rewrite <- Ez in I4.
  destruct (lex_trail cls t st4 rest Hne Ht I4 C4 S4 P4) as (st5 & L5 & I5).
  assert (S5 : ls_spans st5 = []) by (rewrite (lexto_spans _ _ _ _ L5); exact S4).
  destruct (lex_newline cls st5 rest I5 S5) as (st6 & L6 & I6 & R6).
  exists st6. split; [|split; assumption].
  change ([(IDENTIFIER, Some (TVText k)); (ASSIGN, None)] ++ ?l) with ([(IDENTIFIER, Some (TVText k))] ++ [(ASSIGN, @None tvalue)] ++ l).
  rewrite app_assoc. eapply lexto_trans; [exact L2|]. eapply lexto_trans; [exact L3|].
  eapply lexto_trans; [exact L4|]. eapply lexto_trans; [exact L5|exact L6].
Qed.
End LinkTH.

(* ---- emitted lines of the fragment ---------------------------------------------------------------------------------------------------------------------------- *)
Lemma coreth_child_lines c D : coreth_node c = true ->
  match c with
  | NAssign [] (VZone content tag marker) _ _ => zone_lines (S D) content tag marker
  | _ => emit_node_lines c (S D)
  end = emit_node_lines c (S D).
Proof.
  destruct c as [k v l t| | |]; try reflexivity. cbn [coreth_node]. intros H. apply andb_true_iff in H as [H _].
  destruct v; cbn [th_holo orb cval is_scalar sval_of] in H; try discriminate H; destruct k; reflexivity.
Qed.
Lemma emit_block_linesth k tg ch l D : forallb coreth_node ch = true -> opt_ne tg = true ->
  emit_node_lines (NBlock k tg ch l) D =
  emit_leading l D ++ [ind D ++ k ++ target_text tg ++ [c_colon]] ++ flat_map (fun c => emit_node_lines c (S D)) ch.
Proof.
  intros H Hne. cbn [emit_node_lines]. f_equal.
  assert (E : flat_map (fun c => match c with NAssign [] (VZone content tag marker) _ _ => zone_lines (S D) content tag marker
                                              | _ => emit_node_lines c (S D) end) ch = flat_map (fun c => emit_node_lines c (S D)) ch).
  { clear -H. induction ch as [|c cs IH]; [reflexivity|]. cbn [forallb] in H. apply andb_true_iff in H as [H1 H2].
    cbn [flat_map]. rewrite (coreth_child_lines c D H1), (IH H2). reflexivity. }
  rewrite E. destruct tg as [[|x r]|]; try discriminate Hne; reflexivity.
Qed.

(* a holographic assignment of the fragment, decoded *)
Lemma holo_parts k raw l t hsh : coreth_node (NAssign k (VHolo raw) l t) = true -> lex_safeth_node hsh (NAssign k (VHolo raw) l t) = true ->
  exists s w, raw = holo_text s w /\ wt_ok w = true /\ th_fits (hsh raw) s w = true /\
              key_ok k = true /\ forallb comment_ok l = true /\ trail_ok t = true /\ opt_ne t = true.
Proof.
  intros Hc Hs. cbn [coreth_node th_holo cval is_scalar sval_of] in Hc. rewrite orb_false_r in Hc. apply andb_true_iff in Hc as [Hraw Hne].
  cbn [lex_safeth_node lex_safeth_val] in Hs. apply andb_true_iff in Hs as [Hs Ht]. apply andb_true_iff in Hs as [Hs Hl]. apply andb_true_iff in Hs as [Hk Hv].
  unfold th_safe in Hv. apply andb_true_iff in Hv as [Hw Hf]. unfold th_raw in Hraw. apply str_eqb_eq in Hraw.
  exists (hs raw), (hw raw). repeat split; assumption.
Qed.

Section NodesTH.
Variable cls : N -> N.
Variable hsh : str -> list sh.
Notation node_sht := (node_sht ml idnum_digits hsh).
Notation nodes_sht := (nodes_sht ml idnum_digits hsh).

Definition LTH_node (n : node) : Prop :=
  coreth_node n = true -> lex_safeth_node hsh n = true ->
  forall D st rest, ls_in st = unlines (emit_node_lines n D) ++ rest -> ready st ->
    exists st', lexto cls st (node_sht D n) st' /\ ls_in st' = rest /\ ready st'.

Lemma lex_nodesth ch : Forall LTH_node ch -> forallb coreth_node ch = true -> forallb (lex_safeth_node hsh) ch = true ->
  forall D st rest, ls_in st = unlines (flat_map (fun c => emit_node_lines c D) ch) ++ rest -> ready st ->
    exists st', lexto cls st (nodes_sht D ch) st' /\ ls_in st' = rest /\ ready st'.
Proof.
  induction ch as [|c cs IH]; intros HP Hc Hs D st rest Hin Hr.
  - exists st. split; [apply lexto_refl|split; [exact Hin|exact Hr]].
  - inversion HP as [|? ? HPc HPcs]; subst.
    cbn [forallb] in Hc, Hs. apply andb_true_iff in Hc as [Hc1 Hc2]. apply andb_true_iff in Hs as [Hs1 Hs2].
    cbn [flat_map] in Hin. rewrite unlines_app, <- app_assoc in Hin.
    destruct (HPc Hc1 Hs1 D st _ Hin Hr) as (st1 & L1 & I1 & R1).
    destruct (IH HPcs Hc2 Hs2 D st1 rest I1 R1) as (st2 & L2 & I2 & R2).
    exists st2. split; [|split; assumption]. unfold TokRoundT.nodes_sht. cbn [flat_map]. eapply lexto_trans; [exact L1|exact L2].
Qed.

Lemma LTH_holo k raw l t : LTH_node (NAssign k (VHolo raw) l t).
Proof.
  intros Hc Hs D st rest Hin Hr.
  destruct (holo_parts k raw l t hsh Hc Hs) as (s & w & E & Hw & Hf & Hk & Hl & Ht & Hne).
  rewrite emit_holo_lines, unlines_app, <- app_assoc in Hin.
  destruct (lex_lead cls D l st _ Hl Hin Hr) as (st1 & L1 & I1 & R1).
  cbn [unlines flat_map] in I1. rewrite app_nil_r, <- app_assoc in I1. cbn [app] in I1.
  assert (I1' : ls_in st1 = (ind D ++ k ++ s_assign ++ holo_text s w ++ emit_trailing t) ++ c_nl :: rest).
  { rewrite I1. rewrite <- E. rewrite <- !app_assoc. reflexivity. }
  destruct (lex_holo_line cls D k s w t st1 rest Hk Hw Hne Ht I1' R1) as (st2 & L2 & I2 & R2).
  exists st2. split; [|split; assumption]. unfold TokRoundT.node_sht. cbn [lead_of main_sht val_sht].
  assert (L : lexto cls st ((lead_sh D l ++ indent_sh D ++ [(IDENTIFIER, Some (TVText k)); (ASSIGN, None)]) ++ th_shape s w ++ (trail_sh t ++ [(NEWLINE, None)])) st2).
  { rewrite <- !app_assoc. eapply lexto_trans; [exact L1|exact L2]. }
  apply (lexto_fits cls st st2 (hsh raw) s w _ _ Hf) in L. rewrite <- !app_assoc in L. exact L.
Qed.

Theorem all_LTH_node : forall n, LTH_node n.
Proof.
  apply node_ind2.
  - intros k v l t. destruct (is_holo v) eqn:Eh.
    + destruct v; try discriminate Eh. apply LTH_holo.
    + intros Hc Hs D st rest Hin Hr.
      assert (Hc' : coretb_node (NAssign k v l t) = true) by (destruct v; try discriminate Eh; exact Hc).
      assert (Hs' : lex_safet_node (NAssign k v l t) = true) by (destruct v; try discriminate Eh; exact Hs).
      exact (all_LT_node cls hsh (NAssign k v l t) Hc' Hs' D st rest Hin Hr).
  - unfold LTH_node. intros k tg ch l IH Hc Hs D st rest Hin Hr. cbn [coreth_node] in Hc. apply andb_true_iff in Hc as [Hne Hc]. apply andb_true_iff in Hc as [_ Hcc].
    cbn [lex_safeth_node] in Hs. apply andb_true_iff in Hs as [Hs Hss]. apply andb_true_iff in Hs as [Hs Hl]. apply andb_true_iff in Hs as [Hk Htg].
    rewrite (emit_block_linesth k tg ch l D Hcc Hne), !unlines_app, <- !app_assoc in Hin.
    destruct (lex_lead cls D l st _ Hl Hin Hr) as (st1 & L1 & I1 & R1).
    cbn [unlines flat_map] in I1. rewrite app_nil_r, <- app_assoc in I1. cbn [app] in I1.
    assert (HH : exists st2, lexto cls st1 (indent_sh D ++ (IDENTIFIER, Some (TVText k)) :: target_sh tg ++ [(BLOCK, None); (NEWLINE, None)]) st2 /\
                             ls_in st2 = unlines (flat_map (fun c => emit_node_lines c (S D)) ch) ++ rest /\ ready st2).
    { destruct tg as [[|x r]|]; [discriminate Hne| |].
      - exact (lex_target_header cls D k (x :: r) st1 _ Hk Htg I1 R1).
      - exact (lex_block_header cls D k st1 _ Hk I1 R1). }
    destruct HH as (st2 & L2 & I2 & R2).
    destruct (lex_nodesth ch IH Hcc Hss (S D) st2 rest I2 R2) as (st3 & L3 & I3 & R3).
    exists st3. split; [|split; assumption]. unfold TokRoundT.node_sht. cbn [lead_of]. rewrite main_sht_block.
    eapply lexto_trans; [exact L1|].
    replace (indent_sh D ++ (IDENTIFIER, Some (TVText k)) :: target_sh tg ++ [(BLOCK, None); (NEWLINE, None)] ++ nodes_sht (S D) ch)
      with ((indent_sh D ++ (IDENTIFIER, Some (TVText k)) :: target_sh tg ++ [(BLOCK, None); (NEWLINE, None)]) ++ nodes_sht (S D) ch)
      by (rewrite <- !app_assoc; cbn [app]; rewrite <- !app_assoc; reflexivity).
    eapply lexto_trans; [exact L2|exact L3].
  - unfold LTH_node. intros i k a ch l IH Hc Hs D st rest Hin Hr. cbn [coreth_node] in Hc. apply andb_true_iff in Hc as [Hne Hc]. apply andb_true_iff in Hc as [_ Hcc].
    cbn [lex_safeth_node] in Hs. apply andb_true_iff in Hs as [Hs Hss]. apply andb_true_iff in Hs as [Hs Hl].
    apply andb_true_iff in Hs as [Hs Ha]. apply andb_true_iff in Hs as [Hi Hk].
    rewrite (emit_section_lines2 i k a ch l D), !unlines_app, <- !app_assoc in Hin.
    destruct (lex_lead cls D l st _ Hl Hin Hr) as (st1 & L1 & I1 & R1).
    cbn [unlines flat_map] in I1. rewrite app_nil_r, <- app_assoc in I1. cbn [app] in I1.
    destruct (lex_section_header cls D i k a st1 _ Hi Hk Ha Hne I1 R1) as (st2 & L2 & I2 & R2).
    destruct (lex_nodesth ch IH Hcc Hss (S D) st2 rest I2 R2) as (st3 & L3 & I3 & R3).
    exists st3. split; [|split; assumption]. unfold TokRoundT.node_sht. cbn [lead_of]. rewrite main_sht_section.
    eapply lexto_trans; [exact L1|]. rewrite !app_assoc. eapply lexto_trans; [|exact L3].
    rewrite <- !app_assoc. exact L2.
  - intros t Hc; discriminate Hc.
Qed.
End NodesTH.

(* ---- the document ---------------------------------------------------------------------------------------------------------------------------------------------- *)
Lemma coreth_parts d : coreth_doc d = true ->
  coret_doc d = true /\ dfront d = None /\ forallb coreth_node (dsections d) = true /\ forallb meta_field_ok (dmeta d) = true.
Proof.
  unfold coreth_doc. intros H. apply andb_true_iff in H as [Hc Hn]. split; [exact Hc|]. unfold coret_doc in Hc.
  destruct (dfront d); [discriminate|]. split; [reflexivity|]. split; [exact Hn|].
  apply andb_true_iff in Hc as [Hc _]. apply andb_true_iff in Hc as [Hc _]. apply andb_true_iff in Hc as [_ Hm]. exact Hm.
Qed.
Lemma safeth_parts hsh d : lex_safeth_doc hsh d = true ->
  name_ok (dname d) = true /\ (match dgrammar d with Some g => ver_ok g | None => true end) = true /\
  forallb (lex_safeth_node hsh) (dsections d) = true /\ forallb meta_ok (dmeta d) = true /\ forallb comment_ok (dtrailing d) = true.
Proof.
  unfold lex_safeth_doc. intros Hs.
  apply andb_true_iff in Hs as [Hs Htr]. apply andb_true_iff in Hs as [Hs Hm]. apply andb_true_iff in Hs as [Hs Hn]. apply andb_true_iff in Hs as [Hname Hg].
  repeat split; assumption.
Qed.
Lemma hdr_doc_okh cls hsh d : lex_safeth_doc hsh d = true -> lex_safez_doc cls (hdr_doc d) = true /\ prefix_lines (hdr_doc d) = prefix_lines d.
Proof.
  intros Hs. destruct (safeth_parts hsh d Hs) as (H1 & H2 & _ & H4 & _). split; [|reflexivity].
  unfold lex_safez_doc, hdr_doc. cbn [dname dgrammar dsections dmeta dtrailing forallb]. rewrite H1, H2, H4. reflexivity.
Qed.

Lemma emit_lines_coreth hsh sp d : coreth_doc d = true -> lex_safeth_doc hsh d = true ->
  emit_lines sp d = prefix_lines d ++ flat_map (fun n => emit_node_lines n 0) (dsections d) ++ suffix_lines d.
Proof.
  intros Hc Hs. destruct (coreth_parts d Hc) as (_ & Hfr & Hcn & Hmf). destruct (safeth_parts hsh d Hs) as (_ & Hg & _).
  unfold emit_lines, prefix_lines, suffix_lines, grammar_lines. rewrite Hfr. cbn [app].
  assert (Esec : flat_map (fun n => match n with NComment _ => [] | _ => emit_node_lines n 0 end) (dsections d) =
                 flat_map (fun n => emit_node_lines n 0) (dsections d)).
  { clear -Hcn. induction (dsections d) as [|c cs IH]; [reflexivity|]. cbn [forallb] in Hcn. apply andb_true_iff in Hcn as [H1 H2].
    cbn [flat_map]. rewrite (IH H2). destruct c; try reflexivity. discriminate H1. }
  rewrite Esec.
  assert (Eg : match truthy (dgrammar d) with Some g => [s_octave ++ g] | None => [] end =
               match dgrammar d with Some g => [s_octave ++ g] | None => [] end).
  { destruct (dgrammar d) as [g|]; [|reflexivity]. destruct (ver_ok_nonempty _ Hg) as (x & r & ->). reflexivity. }
  rewrite Eg. unfold meta_lines. destruct (dmeta d) as [|kv m] eqn:Em.
  - repeat (progress (rewrite <- ?app_assoc; cbn [app])). reflexivity.
  - cbv zeta. rewrite (emit_meta_lines_core _ Hmf). cbn [map]. repeat (progress (rewrite <- ?app_assoc; cbn [app])). reflexivity.
Qed.

(* the pre-passes *)
Lemma plain_args a : plain (args_text a) = true.
Proof. induction a as [|x [|y r] IH]; [reflexivity|cbn [args_text]; rewrite app_nil_r; apply plain_quote|].
  change (args_text (x :: y :: r)) with (quote x ++ c_comma :: args_text (y :: r)). rewrite plain_app, plain_quote, plain_cons, IH. reflexivity. Qed.
Lemma plain_holo s w : wt_ok w = true -> plain (holo_text s w) = true.
Proof.
  intros Hw. destruct w as [w [|x a]]; unfold holo_text, wt_ok in *; cbn [fst snd call_text] in *.
  - rewrite !plain_app, plain_quote, (plain_keyok _ Hw). reflexivity.
  - rewrite !plain_app, plain_quote, (plain_keyok _ Hw), (plain_args (x :: a)). reflexivity.
Qed.

Lemma node_text_okth hsh : forall n, coreth_node n = true -> lex_safeth_node hsh n = true -> forall D, tok_text (unlines (emit_node_lines n D)) = true.
Proof.
  apply (node_ind2 (fun n => coreth_node n = true -> lex_safeth_node hsh n = true -> forall D, tok_text (unlines (emit_node_lines n D)) = true)).
  - intros k v l t Hc Hs D. destruct (is_holo v) eqn:Eh.
    + destruct v; try discriminate Eh.
      destruct (holo_parts k raw l t hsh Hc Hs) as (s & w & E & Hw & Hf & Hk & Hl & Ht & Hne).
      rewrite emit_holo_lines, tok_text_unlines_app, (tok_leading D l Hl), tok_unlines1. cbn [andb].
      apply line_tok, line_ok_key; [exact Hk|]. rewrite E, !plain_app, (plain_holo s w Hw), (plain_trailing _ Ht). reflexivity.
    + assert (Hc' : coretb_node (NAssign k v l t) = true) by (destruct v; try discriminate Eh; exact Hc).
      assert (Hs' : lex_safet_node (NAssign k v l t) = true) by (destruct v; try discriminate Eh; exact Hs).
      exact (node_text_okt (NAssign k v l t) Hc' Hs' D).
  - intros k tg ch l IH Hc Hs D. cbn [coreth_node] in Hc. apply andb_true_iff in Hc as [Hne Hc]. apply andb_true_iff in Hc as [_ Hcc].
    cbn [lex_safeth_node] in Hs. apply andb_true_iff in Hs as [Hs Hss]. apply andb_true_iff in Hs as [Hs Hl]. apply andb_true_iff in Hs as [Hk Htg].
    rewrite (emit_block_linesth k tg ch l D Hcc Hne), !tok_text_unlines_app, (tok_leading D l Hl), tok_unlines1. cbn [andb].
    rewrite (line_tok _ (line_ok_key D k _ Hk (plain_target tg Htg))). cbn [andb].
    induction ch as [|c cs IHc]; [reflexivity|]. inversion IH as [|? ? Pc Pcs]; subst.
    cbn [forallb] in Hcc, Hss. apply andb_true_iff in Hcc as [Hc1 Hc2]. apply andb_true_iff in Hss as [Hs1 Hs2].
    cbn [flat_map]. rewrite tok_text_unlines_app, (Pc Hc1 Hs1 (S D)), (IHc Pcs Hc2 Hs2). reflexivity.
  - intros i k a ch l IH Hc Hs D. cbn [coreth_node] in Hc. apply andb_true_iff in Hc as [Hne Hc]. apply andb_true_iff in Hc as [_ Hcc].
    cbn [lex_safeth_node] in Hs. apply andb_true_iff in Hs as [Hs Hss]. apply andb_true_iff in Hs as [Hs Hl].
    apply andb_true_iff in Hs as [Hs Ha]. apply andb_true_iff in Hs as [Hi Hk].
    rewrite (emit_section_lines2 i k a ch l D), !tok_text_unlines_app, (tok_leading D l Hl), tok_unlines1. cbn [andb].
    assert (Hline : LexLink.line_ok (ind D ++ [167] ++ i ++ s_assign ++ k ++ annot_text a) = true).
    { unfold LexLink.line_ok. rewrite !plain_app, plain_ind, (plain_sid _ Hi), (plain_keyok _ Hk). cbn [andb].
      assert (Pa : plain (annot_text a) = true).
      { destruct a as [[|x a']|]; try reflexivity. cbn [annot_ok annot_text] in *. rewrite !plain_app, (plain_keyok _ Ha). reflexivity. }
      rewrite Pa. cbn [andb app]. apply fence_free_ind; chr. }
    rewrite (line_tok _ Hline). cbn [andb].
    induction ch as [|c cs IHc]; [reflexivity|]. inversion IH as [|? ? Pc Pcs]; subst.
    cbn [forallb] in Hcc, Hss. apply andb_true_iff in Hcc as [Hc1 Hc2]. apply andb_true_iff in Hss as [Hs1 Hs2].
    cbn [flat_map]. rewrite tok_text_unlines_app, (Pc Hc1 Hs1 (S D)), (IHc Pcs Hc2 Hs2). reflexivity.
  - intros t Hc; discriminate Hc.
Qed.

Section DocTH.
Variable cls : N -> N.
Variable hsh : str -> list sh.

Lemma emit_text_okth sp d : coreth_doc d = true -> lex_safeth_doc hsh d = true -> tok_text (emit sp d) = true.
Proof.
  intros Hc Hs. rewrite emit_unlines, (emit_lines_coreth hsh sp d Hc Hs). destruct (coreth_parts d Hc) as (_ & _ & Hcn & Hmf).
  destruct (safeth_parts hsh d Hs) as (_ & _ & Hn & _ & Htr). destruct (hdr_doc_okh cls hsh d Hs) as [Hz Ep].
  rewrite !tok_text_unlines_app, <- Ep, (prefix_text_ok cls (hdr_doc d) Hmf Hz). cbn [andb].
  assert (A5 : tok_text (unlines (flat_map (fun n => emit_node_lines n 0) (dsections d))) = true).
  { clear -Hcn Hn. induction (dsections d) as [|c cs IH]; [reflexivity|]. cbn [forallb] in Hcn, Hn.
    apply andb_true_iff in Hcn as [Hc1 Hc2]. apply andb_true_iff in Hn as [Hn1 Hn2].
    cbn [flat_map]. rewrite tok_text_unlines_app, (node_text_okth hsh c Hc1 Hn1 0%nat), (IH Hc2 Hn2). reflexivity. }
  rewrite A5. unfold suffix_lines. rewrite tok_text_unlines_app, (tok_leading 0 _ Htr). reflexivity.
Qed.

Lemma all_LTH_nodes ns : Forall (LTH_node cls hsh) ns.
Proof. apply Forall_forall. intros n _. apply all_LTH_node. Qed.

Lemma lex_docth sp d : coreth_doc d = true -> lex_safeth_doc hsh d = true ->
  forall st, ls_in st = emit sp d -> ls_pos st = 0 -> ls_spans st = [] ->
  exists st', lexto cls st (doct_sh ml idnum_digits hsh d ++ [(NEWLINE, None)]) st' /\ ls_in st' = [].
Proof.
  intros Hc Hs st Hin Hp Hsp. destruct (coreth_parts d Hc) as (_ & _ & Hcn & Hmf). destruct (safeth_parts hsh d Hs) as (_ & _ & Hn & _ & Htr).
  destruct (hdr_doc_okh cls hsh d Hs) as [Hz Ep].
  rewrite emit_unlines, (emit_lines_coreth hsh sp d Hc Hs), !unlines_app, <- Ep in Hin.
  destruct (lex_prefix cls (hdr_doc d) st _ Hmf Hz Hin Hp Hsp) as (st1 & L1 & I1 & R1).
  destruct (lex_nodesth cls hsh (dsections d) (all_LTH_nodes _) Hcn Hn 0%nat st1 _ I1 R1) as (st2 & L2 & I2 & R2).
  destruct (lex_suffix cls d st2 Htr I2 R2) as (st3 & L3 & I3 & _).
  exists st3. split; [|exact I3].
  assert (E : doct_sh ml idnum_digits hsh d ++ [(NEWLINE, None)] =
              (g_sh (hdr_doc d) ++ [(ENVELOPE_START, Some (TVText (dname (hdr_doc d)))); (NEWLINE, None)] ++ meta_sh ml (dmeta (hdr_doc d)) ++ sep_shz (hdr_doc d)) ++
              nodes_sht ml idnum_digits hsh 0 (dsections d) ++ (lead_sh 0 (dtrailing d) ++ [(ENVELOPE_END, None)] ++ [(NEWLINE, None)])).
  { unfold doct_sh, g_sh, sep_shz, hdr_doc. cbn [dname dgrammar dsep dmeta]. rewrite <- !app_assoc. reflexivity. }
  rewrite E. eapply lexto_trans; [exact L1|]. eapply lexto_trans; [exact L2|exact L3].
Qed.

(* (b) THE LEXER HALF for coret documents whose holographic values are of the class [ "s" ∧ W ] / [ "s" ∧ W["a1",..,"an"] ] *)
Theorem lex_emit_coreth sp d : coreth_doc d = true -> lex_safeth_doc hsh d = true ->
  exists ts tnl teof,
    tokenize cls false (lines_of (emit sp d)) = LexOk (ts ++ [tnl; teof]) [] /\
    Forall2 tmatch ts (doct_sh ml idnum_digits hsh d) /\ tk tnl = NEWLINE /\ tk teof = EOF.
Proof.
  intros Hc Hs. destruct (coreth_parts d Hc) as (_ & Hfr & _).
  rewrite (tokenize_tok_text cls false _ (emit_text_okth sp d Hc Hs) (emit_nonblank_head sp d Hfr)).
  set (st0 := mkLS (emit sp d) None 0 1 1 [] [] [] []).
  destruct (lex_docth sp d Hc Hs st0 eq_refl eq_refl eq_refl) as (st' & (Hst & (tsall & Ht & HF) & Hr & Hb & _) & Hin).
  rewrite (run_steps_finish cls st0 st' _ Hst Hin) by (cbn [ls_in st0]; lia).
  apply Forall2_app_inv_r in HF. destruct HF as (ts & tl & HF1 & HF2 & ->).
  inversion HF2 as [|tnl ? ? ? [Hnl _] HF3]; subst. inversion HF3; subst. cbn [fst] in Hnl.
  exists ts, tnl, (mkTok EOF TVNone (ls_line st') (ls_col st') None).
  split; [|split; [exact HF1|split; [exact Hnl|reflexivity]]].
  unfold finish. rewrite Hb, Hr, Ht. cbn [ls_brk ls_reps ls_toks st0 rev app].
  rewrite app_nil_r, rev_involutive, <- app_assoc. reflexivity.
Qed.

Lemma emit_first_lineth sp d : coreth_doc d = true -> lex_safeth_doc hsh d = true ->
  exists l0 r, split_on c_nl (emit sp d) = l0 :: r /\ prefixb s_dashes l0 = false.
Proof.
  intros Hc Hs. destruct (safeth_parts hsh d Hs) as (Hname & Hg & _).
  rewrite emit_unlines, (emit_lines_coreth hsh sp d Hc Hs). unfold prefix_lines, grammar_lines.
  destruct (dgrammar d) as [g|].
  - cbn [app]. rewrite unlines_cons, split_on_app.
    + eexists _, _. split; [reflexivity|reflexivity].
    + pose proof (plain_ver _ Hg) as P. unfold plain in P. apply andb_true_iff in P as [P _]. apply negb_true_iff in P.
      rewrite LexLinkBase.memb_app, P. reflexivity.
  - cbn [app]. rewrite unlines_cons, split_on_app.
    + eexists _, _. split; [reflexivity|reflexivity].
    + unfold name_ok in Hname. apply andb_true_iff in Hname as [Hw _].
      pose proof (plain_key _ (word_ok_chars _ Hw)) as P. unfold plain in P. apply andb_true_iff in P as [P _]. apply negb_true_iff in P.
      rewrite !LexLinkBase.memb_app, P. reflexivity.
Qed.

(* (c) composed with the parser half.  The semantic side hypotheses are those of text_roundtrip_coretb (at a holographic site nodes_side asks
   TokRoundTHolo.hsite_okb: the group is in the proved class, its reconstruction is the raw text, the oracle holo_ok accepts it) *)
Theorem text_roundtrip_coreth numcanon holo_ok strict sp d :
  coreth_doc d = true -> lex_safeth_doc hsh d = true ->
  nodes_side numcanon holo_ok idnum_digits hsh (dsections d) -> Forall (TokRoundT.field_num_ok numcanon) (dmeta d) ->
  exists warns,
    parse_model cls numcanon holo_ok strict (lines_of (emit sp d)) = PRDoc d [] warns /\ Forall advisory warns.
Proof.
  intros Hc Hs Hside Hmnum. destruct (coreth_parts d Hc) as (Hct & Hfr & _).
  destruct (lex_emit_coreth sp d Hc Hs) as (ts & tnl & teof & Htok & HF & _ & _).
  destruct (emit_first_lineth sp d Hc Hs) as (l0 & r & El & Hl0).
  unfold parse_model.
  rewrite (strip_frontmatter_none (u_space cls) (emit sp d) l0 r El Hl0), Htok.
  destruct (parse_coret_doc numcanon holo_ok strict (u_space cls) (u_alpha cls) ml idnum_digits hsh d Hct
              (nodes_side_nums numcanon holo_ok strict (u_space cls) idnum_digits hsh _ Hside) Hmnum
              (mkPS (ts ++ [tnl; teof]) None 0 [] 0 []) ts [tnl; teof]) as (st' & Hp & (l & Hw & Hadv) & _);
    [discriminate|reflexivity|exact HF|reflexivity|].
  rewrite Hp. exists (rev (pwarns st')). split.
  - f_equal. destruct d as [name gr fr sep meta secs trl]. cbn [dfront] in Hfr. subst fr. reflexivity.
  - rewrite Hw. cbn [pwarns]. rewrite app_nil_r. apply Forall_rev. exact Hadv.
Qed.
End DocTH.

(* ---- the lexer-derived oracle TokRoundTEx.hsh_lex on the class: the scanner reads the raw text ALONE (position 0, column 1, no context) as the
        same five tokens as inside the document -- context independence, for this class.  So for hsh := hsh_lex cls the clause th_fits of the
        side condition is implied by the rest ------------------------------------------------------------------------------------------------------------- *)
Lemma fits_refl_gen L : forallb txt_sh L = true -> all2 tmatchb (map tok_of_sh L) L = true.
Proof.
  induction L as [|[k p] L IH]; [reflexivity|]. cbn [forallb map all2]. intros H. apply andb_true_iff in H as [H1 H2]. rewrite (IH H2), andb_true_r.
  destruct p as [[x|x|x| |x|? ?]|]; try discriminate H1. unfold tmatchb, tok_of_sh. cbn [fst snd tk tv]. rewrite tkeq_refl, str_eqb_refl. reflexivity.
Qed.
Lemma th_fits_refl s w : th_fits (th_shape s w) s w = true.
Proof. apply fits_refl_gen, th_shape_txt. Qed.
Lemma sh_of_match : forall L ts, forallb txt_sh L = true -> Forall2 tmatch ts L -> map sh_of_tok ts = L.
Proof.
  induction L as [|[k p] L IH]; intros ts Hd HF; inversion HF as [|t0 ? ts0 ? [Hk Hv] HF']; subst; [reflexivity|].
  cbn [forallb] in Hd. apply andb_true_iff in Hd as [H1 H2]. cbn [map]. rewrite (IH _ H2 HF'). f_equal.
  destruct p as [v|]; [|discriminate H1]. cbn [fst snd] in Hk, Hv. unfold sh_of_tok. rewrite Hk, Hv. reflexivity.
Qed.

Theorem hsh_lex_class cls s w : wt_ok w = true -> hsh_lex cls (holo_text s w) = th_shape s w.
Proof.
  intros Hw. unfold hsh_lex.
  assert (Ht : tok_text (holo_text s w) = true).
  { apply line_tok. unfold LexLink.line_ok. rewrite (plain_holo s w Hw). reflexivity. }
  rewrite (tokenize_tok_text cls false _ Ht eq_refl).
  set (st0 := mkLS (holo_text s w) None 0 1 1 [] [] [] []).
  destruct (lex_holo cls s w st0 [] Hw) as (st' & (Hst & (ts & Htk & HF) & Hr & Hb & _) & Hin & _);
    [rewrite app_nil_r; reflexivity|reflexivity|cbn [ls_col st0]; lia|].
  rewrite (run_steps_finish cls st0 st' _ Hst Hin) by (cbn [ls_in st0]; lia).
  unfold finish. rewrite Hb, Hr, Htk. cbn [ls_brk ls_reps ls_toks st0 rev app]. rewrite app_nil_r, rev_involutive, removelast_last.
  exact (sh_of_match _ _ (th_shape_txt s w) HF).
Qed.
Lemma th_safe_lex cls raw : th_raw raw = true -> wt_ok (hw raw) = true -> th_safe (hsh_lex cls) raw = true.
Proof.
  intros Hraw Hw. unfold th_safe. rewrite Hw. cbn [andb]. unfold th_raw in Hraw. apply str_eqb_eq in Hraw.
  rewrite Hraw at 1. rewrite (hsh_lex_class cls _ _ Hw). apply th_fits_refl.
Qed.

(* the side condition with the CLASS shape as oracle (purely textual: th_fits is then trivially true) implies the side condition for hsh_lex cls *)
Definition hsh_cls (raw : str) : list sh := th_shape (hs raw) (hw raw).
Lemma safeth_cls_lex cls : forall n, coreth_node n = true -> lex_safeth_node hsh_cls n = true -> lex_safeth_node (hsh_lex cls) n = true.
Proof.
  apply (node_ind2 (fun n => coreth_node n = true -> lex_safeth_node hsh_cls n = true -> lex_safeth_node (hsh_lex cls) n = true)).
  - intros k v l t Hc Hs. destruct v; try exact Hs.
    cbn [coreth_node th_holo cval is_scalar sval_of] in Hc. rewrite orb_false_r in Hc. apply andb_true_iff in Hc as [Hraw _].
    cbn [lex_safeth_node lex_safeth_val] in Hs |- *. apply andb_true_iff in Hs as [Hs Ht]. apply andb_true_iff in Hs as [Hs Hl]. apply andb_true_iff in Hs as [Hk Hv].
    unfold th_safe in Hv. apply andb_true_iff in Hv as [Hw _]. rewrite Hk, Hl, Ht, (th_safe_lex cls raw Hraw Hw). reflexivity.
  - intros k tg ch l IH Hc Hs. cbn [coreth_node] in Hc. apply andb_true_iff in Hc as [_ Hc]. apply andb_true_iff in Hc as [_ Hcc].
    cbn [lex_safeth_node] in Hs |- *. apply andb_true_iff in Hs as [Hs Hss]. rewrite Hs. cbn [andb].
    induction ch as [|c cs IHc]; [reflexivity|]. inversion IH as [|? ? Pc Pcs]; subst.
    cbn [forallb] in Hcc, Hss |- *. apply andb_true_iff in Hcc as [Hc1 Hc2]. apply andb_true_iff in Hss as [Hs1 Hs2].
    rewrite (Pc Hc1 Hs1), (IHc Pcs Hc2 Hs2). reflexivity.
  - intros i k a ch l IH Hc Hs. cbn [coreth_node] in Hc. apply andb_true_iff in Hc as [_ Hc]. apply andb_true_iff in Hc as [_ Hcc].
    cbn [lex_safeth_node] in Hs |- *. apply andb_true_iff in Hs as [Hs Hss]. rewrite Hs. cbn [andb].
    induction ch as [|c cs IHc]; [reflexivity|]. inversion IH as [|? ? Pc Pcs]; subst.
    cbn [forallb] in Hcc, Hss |- *. apply andb_true_iff in Hcc as [Hc1 Hc2]. apply andb_true_iff in Hss as [Hs1 Hs2].
    rewrite (Pc Hc1 Hs1), (IHc Pcs Hc2 Hs2). reflexivity.
  - intros t Hc; discriminate Hc.
Qed.
Lemma safeth_doc_cls_lex cls d : coreth_doc d = true -> lex_safeth_doc hsh_cls d = true -> lex_safeth_doc (hsh_lex cls) d = true.
Proof.
  intros Hc Hs. destruct (coreth_parts d Hc) as (_ & _ & Hcn & _). destruct (safeth_parts hsh_cls d Hs) as (H1 & H2 & H3 & H4 & H5).
  unfold lex_safeth_doc. rewrite H1, H2, H4, H5. cbn [andb]. rewrite !andb_true_r.
  clear -Hcn H3. induction (dsections d) as [|c cs IH]; [reflexivity|]. cbn [forallb] in Hcn, H3 |- *.
  apply andb_true_iff in Hcn as [Hc1 Hc2]. apply andb_true_iff in H3 as [Hs1 Hs2]. rewrite (safeth_cls_lex cls c Hc1 Hs1), (IH Hc2 Hs2). reflexivity.
Qed.

(* (d) the text-level theorem for the lexer-derived shape oracle: the lexical side condition is purely textual (no clause about the oracle) *)
Theorem text_roundtrip_coreth_lex cls numcanon holo_ok strict sp d :
  coreth_doc d = true -> lex_safeth_doc hsh_cls d = true ->
  nodes_side numcanon holo_ok idnum_digits (hsh_lex cls) (dsections d) -> Forall (TokRoundT.field_num_ok numcanon) (dmeta d) ->
  exists warns,
    parse_model cls numcanon holo_ok strict (lines_of (emit sp d)) = PRDoc d [] warns /\ Forall advisory warns.
Proof.
  intros Hc Hs. exact (text_roundtrip_coreth cls (hsh_lex cls) numcanon holo_ok strict sp d Hc (safeth_doc_cls_lex cls d Hc Hs)).
Qed.

Print Assumptions lex_holo_line.
Print Assumptions hsh_lex_class.
Print Assumptions text_roundtrip_coreth_lex.
Print Assumptions lex_emit_coreth.
Print Assumptions text_roundtrip_coreth.
