(* Non-vacuity of Rt/LexLink4.v, regression on the earlier examples, the unrestricted statement and refutations for the new side
   conditions (inline-map keys, map values, nested items). *)
From OV Require Import Base.Strs Lex.Lexer Syn.Ast Syn.Escape Syn.Quote Syn.Emitter Syn.Parser
     Rt.TokRound Rt.TokRoundEx Rt.TokRound2 Rt.TokRound2Ex Rt.BareWordParse Rt.TokRound4 Rt.TokRound4Ex
     Rt.LexLinkBase Rt.LexLinkSteps Rt.LexLink Rt.LexLinkEx Rt.LexLink2Base Rt.LexLink2Steps Rt.LexLink2Text Rt.LexLink2 Rt.LexLink2Ex
     Rt.BareWordLex Rt.BareWord Rt.BareWordEx Rt.LexLink4Text Rt.LexLink4.
Require Coq.Strings.String.
Import Coq.Strings.String.StringSyntax.
Open Scope N_scope.

Definition lex_emit_core4_concl (cls : N -> N) (sp : N -> bool) (d : doc) : Prop :=
  exists ts tnl teof,
    tokenize cls false (lines_of (emit sp d)) = LexOk (ts ++ [tnl; teof]) [] /\
    Forall2 tmatch ts (doc4_sh needs_multiline ex_idnum qa_emit qi_emit d) /\ tk tnl = NEWLINE /\ tk teof = EOF.

(* ---- the example of TokRound4Ex.v: nested lists to depth 3, inline maps with scalar / list values, PATTERN / REGEX keys, META -------- *)
Example ex4_safe : lex_safe4_doc ex4 = true.
Proof. vm_compute. reflexivity. Qed.
Example ex4_lexes_thm : lex_emit_core4_concl ex_cls (fun _ => false) ex4.
Proof. exact (lex_emit_core4 ex_cls (fun _ => false) ex4 ex4_core ex4_safe). Qed.
Example ex4_rt_thm :
  exists warns, parse_model ex_cls ex2_numcanon (fun _ => false) true (lines_of (emit (fun _ => false) ex4)) = PRDoc ex4 [] warns /\
                Forall advisory4 warns.
Proof.
  exact (text_roundtrip_core4 ex_cls ex2_numcanon (fun _ => false) true (fun _ => false) ex4 ex4_core ex4_safe (proj1 ex4_nums) (proj2 ex4_nums)).
Qed.
Example ex4_check_thm : core4_shape_check ex_cls ex4 (lines_of (emit (fun _ => false) ex4)) = 1.
Proof. exact (shape_check_core4 ex_cls (fun _ => false) ex4 ex4_core ex4_safe). Qed.
(* and by evaluation: the warnings are exactly the three constructor_misuse records of the quoted PATTERN / REGEX map values *)
Example ex4_rt_computed :
  match parse_model ex_cls ex2_numcanon (fun _ => false) true (lines_of (emit (fun _ => false) ex4)) with
  | PRDoc d' reps warns => d' = ex4 /\ reps = [] /\ map wsub warns = [7; 7; 7]
  | _ => False
  end.
Proof. vm_compute. repeat split. Qed.

(* nesting: 5 levels (deep_nesting warning) and the maximal 99 levels are inside the side condition *)
Example nest_safe :
  lex_safe4_doc (d1 (nest 5 n1)) = true /\ core4_doc (d1 (nest 99 n1)) = true /\ lex_safe4_doc (d1 (nest 99 n1)) = true.
Proof. repeat split; vm_compute; reflexivity. Qed.
Definition dnest99 : doc := d1 (nest 99 n1).
Example nest99_lexes_thm : lex_emit_core4_concl ex_cls (fun _ => false) dnest99.
Proof. exact (lex_emit_core4 ex_cls (fun _ => false) dnest99 (proj1 (proj2 nest_safe)) (proj2 (proj2 nest_safe))). Qed.

(* ---- regression: the documents of the earlier fragments are inside ------------------------------------------------------------------------ *)
Example earlier_examples_core4_safe4 :
  map (fun d => core4_doc d && lex_safe4_doc d) [ex_s1; ex_s2; ex_s3; ex_s4; ex_s4b; ex_all; ex_bare] = [true; true; true; true; true; true; true].
Proof. vm_compute. reflexivity. Qed.

(* ---- the unrestricted statement and the new side conditions ------------------------------------------------------------------------------- *)
Definition lex_emit_core4_full : Prop :=
  forall cls sp d, core4_doc d = true -> lex_emit_core4_concl cls sp d.

Definition mapd (k : str) (v : value) : doc := d1 (VList [VMap [(k, v)]]).

(* an inline-map key that is a literal word is lexed as the literal (TokRound4Ex refutation 7): BOOLEAN, not IDENTIFIER *)
Lemma lex_emit_core4_refuted_key_literal :
  exists d, core4_doc d = true /\ lex_safe4_doc d = false /\ ~ lex_emit_core4_concl ex_cls (fun _ => false) d.
Proof. exists (mapd (lit "true") n1). split; [reflexivity|]. split; [reflexivity|]. refute_shape. Qed.
(* ... an operator word: TENSION, with an alias repair *)
Lemma lex_emit_core4_refuted_key_operator :
  exists d, core4_doc d = true /\ lex_safe4_doc d = false /\ ~ lex_emit_core4_concl ex_cls (fun _ => false) d.
Proof. exists (mapd (lit "vs") n1). split; [reflexivity|]. split; [reflexivity|]. refute_shape. Qed.
(* a key that is neither all digits nor an identifier word: NUMBER then IDENTIFIER *)
Lemma lex_emit_core4_refuted_key_mixed :
  exists d, core4_doc d = true /\ lex_safe4_doc d = false /\ ~ lex_emit_core4_concl ex_cls (fun _ => false) d.
Proof. exists (mapd (lit "1a") n1). split; [reflexivity|]. split; [reflexivity|]. refute_shape. Qed.
(* a key with a dot: the lexer reads `a.b` as ONE identifier, so this one is read back correctly -- outside the side condition
   (keys are restricted to [A-Za-z_][A-Za-z0-9_]* or digits), sufficient, not necessary *)
Example dotted_key_accepted :
  lex_safe4_doc (mapd (lit "a.b") n1) = false /\
  parse_model ex_cls ex2_numcanon (fun _ => false) true (lines_of (emit (fun _ => false) (mapd (lit "a.b") n1))) = PRDoc (mapd (lit "a.b") n1) [] [].
Proof. split; vm_compute; reflexivity. Qed.
(* a map value in the KNOWN reserved-segment class (C04 clause 3): emitted bare, lexed as literal + rest *)
Lemma lex_emit_core4_refuted_map_value_reserved_segment :
  exists d, core4_doc d = true /\ lex_safe4_doc d = false /\ ~ lex_emit_core4_concl ex_cls (fun _ => false) d.
Proof. exists (mapd (lit "K") (VStr (lit "true.x"))). split; [reflexivity|]. split; [reflexivity|]. refute_shape. Qed.
(* the same class as an item of a NESTED list *)
Lemma lex_emit_core4_refuted_nested_item_reserved_segment :
  exists d, core4_doc d = true /\ lex_safe4_doc d = false /\ ~ lex_emit_core4_concl ex_cls (fun _ => false) d.
Proof. exists (d1 (VList [n1; VList [VStr (lit "null-a")]])). split; [reflexivity|]. split; [reflexivity|]. refute_shape. Qed.
(* a map value that is an operator expression (several tokens): outside the one-token shape language *)
Lemma lex_emit_core4_refuted_map_value_expression :
  exists d, core4_doc d = true /\ lex_safe4_doc d = false /\ ~ lex_emit_core4_concl ex_cls (fun _ => false) d.
Proof. exists (mapd (lit "K") (VStr [65; 64; 66])). split; [reflexivity|]. split; [reflexivity|]. refute_shape. Qed.
(* the always-quote rule inside maps: PATTERN::abc is written quoted and read back (constructor_misuse is advisory): INSIDE the condition *)
Example pattern_map_value_inside :
  let d := mapd (lit "PATTERN") (VStr (lit "abc")) in
  lex_safe4_doc d = true /\ qa_emit (lit "PATTERN") (lit "abc") = QStr /\
  match parse_model ex_cls ex2_numcanon (fun _ => false) true (lines_of (emit (fun _ => false) d)) with
  | PRDoc d' reps warns => d' = d /\ reps = [] /\ map wsub warns = [7] | _ => False end.
Proof. vm_compute. repeat split. Qed.

(* the executable form: every refuted document above is a core4 document whose emitted text the harness check classifies as 2 (shape
   mismatch or lexer repair) or 3 (lexer error: `null-a` inside the nested list) -- so the side condition of shape_check_core4 cannot be dropped either *)
Example refuted_docs_shape_check :
  map (fun d => core4_shape_check ex_cls d (lines_of (emit (fun _ => false) d)))
      [mapd (lit "true") n1; mapd (lit "vs") n1; mapd (lit "1a") n1; mapd (lit "K") (VStr (lit "true.x"));
       d1 (VList [n1; VList [VStr (lit "null-a")]]); mapd (lit "K") (VStr [65; 64; 66])] = [2; 2; 2; 2; 3; 2].
Proof. vm_compute. reflexivity. Qed.

Theorem lex_emit_core4_full_refuted : ~ lex_emit_core4_full.
Proof.
  intros Hfull. destruct lex_emit_core4_refuted_key_literal as (d & Hc & _ & Hn). apply Hn. apply Hfull. exact Hc.
Qed.
