(* Lexer half for the core2 fragment, part 2: one lexer iteration per chunk, generalised and extended.
   Generalised (w.r.t. Rt/LexLinkSteps.v): the character FOLLOWING a value / an identifier may be any of the terminators that
   occur in the wider layout (newline, comma, closing bracket, blank before a trailing comment, colon, opening bracket);
   the character BEFORE a literal may be anything that is not a word character.
   New: `[` `]` `,` (bracket stack), the section sign, comment to end of line, the blank before a trailing comment.
   Every step lemma also gives  ls_col st < ls_col st'  (the column moves right inside a line). *)
From OV Require Import Base.Strs Gen.LexerGen Syn.Escape Syn.Quote Syn.Emitter Lex.Lexer Lex.Progress
     Rt.LexLinkBase Rt.LexLinkSteps Rt.LexLink2Base.
From Coq Require Import Lia.
Open Scope N_scope.

Section Chunks2.
Variable cls : N -> N.

Definition gstep (st st' : lstate) (k : tkind) (v : tvalue) (rest : str) (prev : option N) (brk' : list (N * N)) : Prop :=
  step cls false st = Continue st' /\ ls_in st' = rest /\ ls_prev st' = prev /\ ls_pos st' <> 0 /\
  (exists l c n, ls_toks st' = mkTok k v l c n :: ls_toks st) /\
  ls_reps st' = ls_reps st /\ ls_brk st' = brk' /\ ls_spans st' = ls_spans st /\ ls_col st < ls_col st'.

Lemma gstep_tstep st st' k v rest prev : gstep st st' k v rest prev (ls_brk st) -> tstep cls st st' k v rest prev.
Proof. intros (H1 & H2 & H3 & H4 & H5 & H6 & H7 & H8 & _). unfold tstep. repeat split; assumption. Qed.

Lemma len_pos (m : str) : m <> [] -> 0 < len m.
Proof. destruct m; [congruence|]. unfold len. cbn [length]. lia. Qed.

Lemma gstep_emit_pat st c s' k v m rest :
  ls_in st = c :: s' -> ls_spans st = [] ->
  step_plain cls false st c s' = emit_pat st k v m rest None ->
  alias_of m = None -> tkind_eqb k LIST_START = false -> tkind_eqb k LIST_END = false -> memb c_nl m = false -> m <> [] ->
  exists st', gstep st st' k v rest (last_chr m) (ls_brk st).
Proof.
  intros Hin Hsp Heq Ha H1 H2 Hn Hm.
  pose proof (emit_pat_plain2 st k v m rest Ha H1 H2 (count_nl_memb _ Hn)) as He.
  eexists. unfold gstep. split; [unfold step; rewrite Hin, Hsp, Heq; exact He|].
  cbn [ls_in ls_prev ls_pos ls_toks ls_reps ls_brk ls_spans ls_col]. pose proof (len_pos m Hm).
  repeat split; try reflexivity; [apply len_pos_ne; exact Hm|eexists _, _, _; reflexivity|lia].
Qed.

Lemma gstep_emit_open st c s' v m rest :
  ls_in st = c :: s' -> ls_spans st = [] ->
  step_plain cls false st c s' = emit_pat st LIST_START v m rest None ->
  alias_of m = None -> memb c_nl m = false -> m <> [] ->
  exists st' p, gstep st st' LIST_START v rest (last_chr m) (p :: ls_brk st).
Proof.
  intros Hin Hsp Heq Ha Hn Hm.
  pose proof (emit_pat_open st v m rest Ha (count_nl_memb _ Hn)) as He.
  eexists _, _. unfold gstep. split; [unfold step; rewrite Hin, Hsp, Heq; exact He|].
  cbn [ls_in ls_prev ls_pos ls_toks ls_reps ls_brk ls_spans ls_col]. pose proof (len_pos m Hm).
  repeat split; try reflexivity; [apply len_pos_ne; exact Hm|eexists _, _, _; reflexivity|lia].
Qed.

Lemma gstep_emit_close st c s' v m rest p b :
  ls_in st = c :: s' -> ls_spans st = [] -> ls_brk st = p :: b ->
  step_plain cls false st c s' = emit_pat st LIST_END v m rest None ->
  alias_of m = None -> memb c_nl m = false -> m <> [] ->
  exists st', gstep st st' LIST_END v rest (last_chr m) b.
Proof.
  intros Hin Hsp Hb Heq Ha Hn Hm.
  pose proof (emit_pat_close st v m rest p b Ha (count_nl_memb _ Hn) Hb) as He.
  eexists. unfold gstep. split; [unfold step; rewrite Hin, Hsp, Heq; exact He|].
  cbn [ls_in ls_prev ls_pos ls_toks ls_reps ls_brk ls_spans ls_col]. pose proof (len_pos m Hm).
  repeat split; try reflexivity; [apply len_pos_ne; exact Hm|eexists _, _, _; reflexivity|lia].
Qed.

(* ---- which branch fires (new first characters) ------------------------------------------------------------------------- *)
Ltac skip_sp c := rewrite (neqb c c_sp) by chr.
Ltac skip_sent c s' := rewrite (hd_sentinel cls _ c s') by (first [left; chr | right; assumption]).
Ltac skip_ver c s' := rewrite (hd_version cls c s') by (apply u_digit_false; chr).
Ltac skip_envs c s' := rewrite (hd_end_env c s') by chr; rewrite (hd_env_start c s') by chr.
Ltac skip_dash3 c s' := rewrite (hd_dash3 c s') by chr.
Ltac skip_comment c s' := rewrite (hd_comment c s') by chr.
Ltac skip_ops c s' := rewrite (hd_ops c s') by chr.
Ltac skip_vs c s' := rewrite (hd_vs cls _ c s') by chr.
Ltac sp_start := unfold step_plain; cbv zeta.

Lemma sp_ops2 st c s' m k :
  (c = 91 \/ c = 93 \/ c = 44) -> try_simple simple_ops2 (c :: s') = Some (m, k) ->
  step_plain cls false st c s' = emit_pat st k (TVText m) m (skipn (length m) (c :: s')) None.
Proof.
  intros Hc Ho. sp_start. skip_sp c. skip_sent c s'. skip_ver c s'. skip_envs c s'. skip_dash3 c s'. skip_comment c s'.
  skip_ops c s'. skip_vs c s'. rewrite Ho. reflexivity.
Qed.

Lemma sp_section st c s' :
  c = 167 -> scan_version cls (c :: s') = None ->
  step_plain cls false st c s' = emit_pat st SECTION (TVText [167]) [167] s' None.
Proof.
  intros Hc Hv. sp_start. skip_sp c. skip_sent c s'. rewrite Hv. skip_envs c s'. skip_dash3 c s'. skip_comment c s'.
  skip_vs c s'. subst c. reflexivity.
Qed.

Lemma sp_comment st c s' :
  c = 47 -> prefixb [c_slash; c_slash] (c :: s') = true ->
  step_plain cls false st c s' =
  (let m := takeb (fun x => negb (N.eqb x c_nl)) (c :: s') in
   emit_pat st COMMENT (TVText (strip cls (skipn 2 m))) m (skipn (length m) (c :: s')) None).
Proof.
  intros Hc Hp. sp_start. skip_sp c. skip_sent c s'. skip_ver c s'. skip_envs c s'. skip_dash3 c s'. rewrite Hp. reflexivity.
Qed.

(* ---- brackets, comma, section sign ---------------------------------------------------------------------------------------- *)
Lemma G_lbr st r : ls_in st = c_lbr :: r -> ls_spans st = [] ->
  exists st' p, gstep st st' LIST_START (TVText [91]) r (Some 91) (p :: ls_brk st).
Proof.
  intros Hin Hsp.
  destruct (gstep_emit_open st c_lbr r (TVText [91]) [91] r Hin Hsp) as (st' & p & H); try reflexivity; [|discriminate|exists st', p; exact H].
  apply (sp_ops2 st c_lbr r [91] LIST_START); [left; reflexivity|reflexivity].
Qed.
Lemma G_rbr st r p b : ls_in st = c_rbr :: r -> ls_spans st = [] -> ls_brk st = p :: b ->
  exists st', gstep st st' LIST_END (TVText [93]) r (Some 93) b.
Proof.
  intros Hin Hsp Hb.
  destruct (gstep_emit_close st c_rbr r (TVText [93]) [93] r p b Hin Hsp Hb) as (st' & H); try reflexivity; [|discriminate|exists st'; exact H].
  apply (sp_ops2 st c_rbr r [93] LIST_END); [right; left; reflexivity|reflexivity].
Qed.
Lemma G_comma st r : ls_in st = c_comma :: r -> ls_spans st = [] ->
  exists st', gstep st st' COMMA (TVText [44]) r (Some 44) (ls_brk st).
Proof.
  intros Hin Hsp.
  destruct (gstep_emit_pat st c_comma r COMMA (TVText [44]) [44] r Hin Hsp) as (st' & H); try reflexivity; [|discriminate|exists st'; exact H].
  apply (sp_ops2 st c_comma r [44] COMMA); [right; right; reflexivity|reflexivity].
Qed.
Lemma G_section st r : ls_in st = 167 :: r -> ls_spans st = [] -> scan_version cls (167 :: r) = None ->
  exists st', gstep st st' SECTION (TVText [167]) r (Some 167) (ls_brk st).
Proof.
  intros Hin Hsp Hv.
  destruct (gstep_emit_pat st 167 r SECTION (TVText [167]) [167] r Hin Hsp) as (st' & H); try reflexivity; [|discriminate|exists st'; exact H].
  apply sp_section; [reflexivity|exact Hv].
Qed.

(* ---- comment to end of line -------------------------------------------------------------------------------------------------- *)
Definition comment_ok (c : str) : bool := negb (memb c_nl c) && negb (memb c_tab c) && edges_ok c.

Lemma comment_line_nl c : memb c_nl c = false -> memb c_nl (comment_line c) = false.
Proof. intros H. destruct c as [|x r]; [reflexivity|]. unfold comment_line, s_comment_pre. cbn [app memb existsb] in *. exact H. Qed.
Lemma comment_line_hd c : exists t, comment_line c = c_slash :: c_slash :: t.
Proof. destruct c; eexists; reflexivity. Qed.

Lemma G_comment st c r : comment_ok c = true -> ls_in st = comment_line c ++ c_nl :: r -> ls_spans st = [] ->
  exists st', gstep st st' COMMENT (TVText c) (c_nl :: r) (last_chr (comment_line c)) (ls_brk st).
Proof.
  intros Hc Hin Hsp. unfold comment_ok in Hc. apply andb_true_iff in Hc as [Hc He]. apply andb_true_iff in Hc as [Hn _].
  apply negb_true_iff in Hn. pose proof (comment_line_nl c Hn) as Hln.
  destruct (comment_line_hd c) as (t & Et).
  assert (Hin' : ls_in st = c_slash :: (c_slash :: t) ++ c_nl :: r) by (rewrite Hin, Et; reflexivity).
  destruct (takeb_line (comment_line c) r Hln) as [Htk Hsk].
  destruct (gstep_emit_pat st c_slash ((c_slash :: t) ++ c_nl :: r) COMMENT (TVText c) (comment_line c) (c_nl :: r) Hin' Hsp)
    as (st' & H); try reflexivity.
  - rewrite sp_comment; [|reflexivity|reflexivity]. cbv zeta.
    change (c_slash :: (c_slash :: t) ++ c_nl :: r) with ((c_slash :: c_slash :: t) ++ c_nl :: r). rewrite <- Et, Htk, Hsk.
    f_equal. f_equal. destruct c as [|x c']; [reflexivity|].
    change (skipn 2 (comment_line (x :: c'))) with (c_sp :: x :: c'). apply strip_sp_edges. exact He.
  - rewrite Et. apply alias_of_none_hd; chr.
  - exact Hln.
  - rewrite Et. discriminate.
  - exists st'. exact H.
Qed.

(* the blank before a trailing comment: consumed without a token, because the column is not 1 *)
Lemma G_skip_sp st r : ls_in st = c_sp :: r -> ls_col st <> 1 -> ls_spans st = [] -> ls_pos st <> 0 ->
  exists st', step cls false st = Continue st' /\ ls_in st' = r /\ ls_toks st' = ls_toks st /\ ls_reps st' = ls_reps st /\
              ls_brk st' = ls_brk st /\ ls_spans st' = ls_spans st /\ ls_pos st' <> 0.
Proof.
  intros Hin Hc Hsp Hp. eexists. split.
  - unfold step. rewrite Hin, Hsp. unfold step_plain. cbv zeta. rewrite N.eqb_refl, (neqb _ _ Hc). reflexivity.
  - unfold adv. cbn [ls_in ls_toks ls_reps ls_brk ls_spans ls_pos]. repeat split; try reflexivity. unfold len. cbn [length]. lia.
Qed.

(* ---- identifier followed by a terminator ------------------------------------------------------------------------------------------ *)
Definition kterm (z : N) : Prop := z = 58 \/ z = 91 \/ z = 93 \/ z = 10.

Lemma id_char_kterm z : kterm z -> id_char cls z = false.
Proof.
  intros H. unfold id_char. rewrite is_ascii_lt by (unfold kterm in H; lia).
  rewrite is_alnum_false by (unfold kterm in H; lia). cbn [orb memb existsb].
  rewrite !(neqb z _) by (unfold kterm in H; chr). reflexivity.
Qed.

Lemma scan_ident_core_word_z c k z r : forallb key_char k = true -> kterm z ->
  scan_ident_core cls c (k ++ z :: r) = (c :: k, z :: r).
Proof.
  intros Hk Hz. unfold scan_ident_core.
  rewrite takeb_app_stop; [|apply (forallb_impl key_char); [apply id_char_key|exact Hk]|apply id_char_kterm; exact Hz].
  rewrite std_id.
  2:{ intros x Hx. apply in_rev in Hx. rewrite forallb_forall in Hk. specialize (Hk x Hx). apply key_char_range in Hk. chr. }
  rewrite rev_involutive, skipn_app_len. reflexivity.
Qed.

Lemma scan_identifier_word_z c k z r : key_start c = true -> forallb key_char k = true -> kterm z ->
  scan_identifier cls false (c :: k ++ z :: r) = Some (c :: k, z :: r, None).
Proof.
  intros Hc Hk Hz. unfold scan_identifier. rewrite (id_start_key cls _ Hc), (scan_ident_core_word_z c k z r Hk Hz).
  cbv iota beta. rewrite (neqb z c_lt) by (unfold kterm in Hz; chr). rewrite (neqb z 123) by (unfold kterm in Hz; lia). reflexivity.
Qed.

Lemma G_key st k z r :
  key_ok k = true -> kterm z -> ls_in st = k ++ z :: r -> ls_pos st <> 0 -> ls_spans st = [] ->
  exists st', gstep st st' IDENTIFIER (TVText k) (z :: r) (last_chr k) (ls_brk st).
Proof.
  intros Hk Hz Hin Hpos Hsp. unfold key_ok in Hk.
  apply andb_true_iff in Hk as [Hk Hvs]. apply andb_true_iff in Hk as [Hk Hwc]. apply andb_true_iff in Hk as [Hw Hres].
  apply negb_true_iff in Hvs. apply negb_true_iff in Hres.
  destruct (wrong_case_of k) as [w|] eqn:Ewc; [discriminate Hwc|]. clear Hwc.
  pose proof (word_ok_chars _ Hw) as Hkc.
  destruct k as [|c k']; [discriminate Hw|]. cbn [word_ok] in Hw. apply andb_true_iff in Hw as [Hc Hk'].
  cbn [str_in] in Hres. repeat (apply orb_false_iff in Hres as [? Hres]).
  assert (Huw : forallb (u_word cls) (c :: k') = true) by (apply (forallb_impl key_char); [apply u_word_key|exact Hkc]).
  assert (Hzw : u_word cls z = false) by (apply u_word_false; unfold kterm in Hz; lia).
  cbn [app] in Hin.
  assert (Hstep : step cls false st =
    Continue (adv st (c :: k') (z :: r) (mkTok IDENTIFIER (TVText (c :: k')) (ls_line st) (ls_col st) None :: ls_toks st) (ls_reps st))).
  { unfold step. rewrite Hin, Hsp.
    rewrite sp_fallback; [|exact Hc|exact Hpos
      |apply (scan_word_other cls s_vs (c :: k')); [reflexivity|exact Huw|exact Hzw|assumption]
      |apply (scan_word_other cls Lexer.s_true (c :: k')); [reflexivity|exact Huw|exact Hzw|assumption]
      |apply (scan_word_other cls Lexer.s_false (c :: k')); [reflexivity|exact Huw|exact Hzw|assumption]
      |apply (scan_word_other cls Lexer.s_null (c :: k')); [reflexivity|exact Huw|exact Hzw|assumption]].
    pose proof Hc as Hc'. apply key_start_range in Hc.
    unfold step_fallback. cbv zeta. unfold s_eq3 at 1. rewrite hd_prefix_ne by chr. cbn [andb].
    rewrite (neqb c c_plus) by chr. rewrite (scan_identifier_word_z c k' z r Hc' Hk' Hz).
    rewrite Ewc, Hvs. reflexivity. }
  eexists. unfold gstep. split; [exact Hstep|]. unfold adv.
  cbn [ls_in ls_prev ls_pos ls_toks ls_reps ls_brk ls_spans ls_col].
  pose proof (len_pos (c :: k')) as Hl.
  repeat split; try reflexivity; [apply len_pos_ne; discriminate|eexists _, _, _; reflexivity|].
  specialize (Hl ltac:(discriminate)). lia.
Qed.

(* ---- scalar values followed by a terminator ------------------------------------------------------------------------------------------ *)
Definition vterm (z : N) : Prop := z = 10 \/ z = 44 \/ z = 93 \/ z = 32 \/ z = 58.

Lemma G_str st s z r : ls_in st = quote s ++ z :: r -> z <> c_dq -> ls_spans st = [] ->
  exists st', gstep st st' STRING (TVText s) (z :: r) (Some c_dq) (ls_brk st).
Proof.
  intros Hin Hz Hsp. unfold quote in Hin. cbn [app] in Hin. rewrite <- app_assoc in Hin. cbn [app] in Hin.
  set (s' := escape s ++ c_dq :: z :: r) in *.
  destruct (gstep_emit_pat st c_dq s' STRING (TVText (unescape_tok (escape s))) (c_dq :: escape s ++ [c_dq]) (z :: r) Hin Hsp)
    as (st' & H); try reflexivity.
  - apply sp_dq; [reflexivity| |].
    + subst s'. pose proof (escape_hd_not_dq s) as Hh. destruct (escape s) as [|y e].
      * cbn [app prefixb]. rewrite !N.eqb_refl. rewrite (neqb c_dq z) by congruence. reflexivity.
      * cbn [app prefixb]. rewrite N.eqb_refl. rewrite (neqb c_dq y) by congruence. reflexivity.
    + subst s'. apply scan_dq_body_escape. cbn [length]. rewrite app_length. lia.
  - cbn [memb existsb]. change (N.eqb c_nl c_dq) with false. cbn [orb]. change (existsb (N.eqb c_nl) (escape s ++ [c_dq])) with (memb c_nl (escape s ++ [c_dq])).
    rewrite memb_app, escape_no_nl. reflexivity.
  - discriminate.
  - exists st'. rewrite unescape_tok_escape in H.
    change (c_dq :: escape s ++ [c_dq]) with ((c_dq :: escape s) ++ [c_dq]) in H. rewrite last_chr_app_last in H. exact H.
Qed.

Lemma uw_vterm z : vterm z -> u_word cls z = false.
Proof. intros H. apply u_word_false. unfold vterm in H. lia. Qed.
Lemma ud_vterm z : vterm z -> u_digit cls z = false.
Proof. intros H. apply u_digit_false. unfold vterm in H. lia. Qed.

Lemma G_true st z r : ls_in st = s_true_lit ++ z :: r -> word_boundary_before cls (ls_prev st) = true -> vterm z -> ls_spans st = [] ->
  exists st', gstep st st' BOOLEAN (TVBool true) (z :: r) (Some 101) (ls_brk st).
Proof.
  intros Hin Hp Hz Hsp.
  destruct (gstep_emit_pat st 116 ([114;117;101] ++ z :: r) BOOLEAN (TVBool true) Lexer.s_true (z :: r) Hin Hsp) as (st' & H);
    try reflexivity; [|discriminate|exists st'; exact H].
  apply sp_true; [reflexivity|]. apply (scan_word_hit cls Lexer.s_true); [exact Hp|apply uw_vterm; exact Hz].
Qed.
Lemma G_false st z r : ls_in st = s_false_lit ++ z :: r -> word_boundary_before cls (ls_prev st) = true -> vterm z -> ls_spans st = [] ->
  exists st', gstep st st' BOOLEAN (TVBool false) (z :: r) (Some 101) (ls_brk st).
Proof.
  intros Hin Hp Hz Hsp.
  destruct (gstep_emit_pat st 102 ([97;108;115;101] ++ z :: r) BOOLEAN (TVBool false) Lexer.s_false (z :: r) Hin Hsp) as (st' & H);
    try reflexivity; [|discriminate|exists st'; exact H].
  apply sp_false; [reflexivity|]. apply (scan_word_hit cls Lexer.s_false); [exact Hp|apply uw_vterm; exact Hz].
Qed.
Lemma G_null st z r : ls_in st = s_null_lit ++ z :: r -> word_boundary_before cls (ls_prev st) = true -> vterm z -> ls_spans st = [] ->
  exists st', gstep st st' NULL TVNone (z :: r) (Some 108) (ls_brk st).
Proof.
  intros Hin Hp Hz Hsp.
  destruct (gstep_emit_pat st 110 ([117;108;108] ++ z :: r) NULL TVNone Lexer.s_null (z :: r) Hin Hsp) as (st' & H);
    try reflexivity; [|discriminate|exists st'; exact H].
  apply sp_null; [reflexivity|]. apply (scan_word_hit cls Lexer.s_null); [exact Hp|apply uw_vterm; exact Hz].
Qed.

(* numbers *)
Lemma exp_next_z ex z r : exp_ok ex = true -> exists y t, ex ++ z :: r = y :: t /\ (y = 101 \/ y = 69 \/ y = z).
Proof.
  destruct ex as [|e ex']; [intros _; exists z, r; split; [reflexivity|right; right; reflexivity]|].
  cbn [exp_ok]. intros H. apply andb_true_iff in H as [H _]. unfold is_e in H. apply orb_true_iff in H.
  exists e, (ex' ++ z :: r). split; [reflexivity|]. destruct H as [H|H]; apply N.eqb_eq in H; auto.
Qed.

Lemma sexp_ok_z ex z r : exp_ok ex = true -> vterm z -> sexp cls (ex ++ z :: r) = (ex, z :: r).
Proof.
  intros H Hz. pose proof (ud_vterm z Hz) as Hzd.
  destruct ex as [|e ex'].
  - cbn [app sexp]. rewrite (neqb z 101), (neqb z 69) by (unfold vterm in Hz; lia). reflexivity.
  - cbn [exp_ok] in H. apply andb_true_iff in H as [He H]. unfold is_e in He. cbn [app sexp]. rewrite He.
    destruct ex' as [|c r']; [discriminate H|]. unfold is_sign in H. cbn [app].
    destruct (N.eqb c c_plus || N.eqb c c_dash) eqn:Es.
    + rewrite (digits1_app cls r' z r H Hzd). reflexivity.
    + change (c :: r' ++ z :: r) with ((c :: r') ++ z :: r). rewrite (digits1_app cls (c :: r') z r H Hzd). reflexivity.
Qed.

Lemma snum_rest_ok_z sign d fr ex z r : digs d = true -> frac_ok fr = true -> exp_ok ex = true -> vterm z ->
  snum_rest cls sign (d ++ fr ++ ex ++ z :: r) = Some (sign ++ d ++ fr ++ ex, z :: r).
Proof.
  intros Hd Hfr Hex Hz. destruct (exp_next_z ex z r Hex) as (y & t & Ey & Hy).
  assert (Hyd : u_digit cls y = false) by (apply u_digit_false; unfold vterm in Hz; lia).
  assert (Hydot : N.eqb y c_dot = false) by (apply neqb; unfold vterm in Hz; chr).
  unfold snum_rest. destruct fr as [|x f].
  - cbn [app]. rewrite Ey, (digits1_app cls d y t Hd Hyd). rewrite Hydot. cbv iota beta zeta.
    cbn [takeb dropb]. rewrite Hyd. rewrite <- Ey, (sexp_ok_z ex z r Hex Hz). reflexivity.
  - cbn [frac_ok] in Hfr. apply andb_true_iff in Hfr as [Hx Hf]. apply N.eqb_eq in Hx. subst x.
    cbn [app]. rewrite (digits1_app cls d c_dot _ Hd (ud_dot cls)). rewrite N.eqb_refl. cbv iota beta zeta.
    pose proof (digs_spec _ Hf) as [_ Hf'].
    rewrite Ey, takeb_app_stop, dropb_app_stop by (first [apply (forallb_impl is_digit); [apply u_digit_true|exact Hf'] | exact Hyd]).
    rewrite <- Ey, (sexp_ok_z ex z r Hex Hz). reflexivity.
Qed.

Lemma scan_version_num_z d fr ex z r : digs d = true -> frac_ok fr = true -> exp_ok ex = true -> vterm z ->
  scan_version cls (d ++ fr ++ ex ++ z :: r) = None.
Proof.
  intros Hd Hfr Hex Hz. destruct (exp_next_z ex z r Hex) as (y & t & Ey & Hy).
  assert (Hyd : u_digit cls y = false) by (apply u_digit_false; unfold vterm in Hz; lia).
  unfold scan_version, scan_version3, scan_version2pre, scan_version2build, scan_d_dot_d.
  destruct fr as [|x f].
  - cbn [app]. rewrite Ey, (digits1_app cls d y t Hd Hyd). rewrite (neqb y c_dot) by (unfold vterm in Hz; chr). reflexivity.
  - cbn [frac_ok] in Hfr. apply andb_true_iff in Hfr as [Hx Hf]. apply N.eqb_eq in Hx. subst x.
    cbn [app]. rewrite (digits1_app cls d c_dot _ Hd (ud_dot cls)). rewrite N.eqb_refl. rewrite Ey, (digits1_app cls f y t Hf Hyd).
    unfold opt_tail. rewrite (neqb y c_dot), (neqb y c_dash), (neqb y c_plus) by (unfold vterm in Hz; chr). reflexivity.
Qed.

Lemma num_plain c : num_ok c = true -> memb c_nl c = false.
Proof.
  assert (D : forall d, digs d = true -> memb c_nl d = false).
  { intros d H. apply digs_spec in H as [_ H]. apply memb_false_forall. eapply forallb_impl; [|exact H].
    intros x Hx. apply is_digit_range in Hx. apply negb_true_iff, neqb. chr. }
  assert (B : forall s, num_body_ok s = true -> memb c_nl s = false).
  { intros s H. destruct (num_body_shape _ H) as (d & fr & ex & -> & Hd & Hfr & Hex). rewrite !memb_app, (D _ Hd). cbn [orb].
    apply orb_false_iff. split.
    - destruct fr as [|x f]; [reflexivity|]. cbn [frac_ok] in Hfr. apply andb_true_iff in Hfr as [Hx Hf]. apply N.eqb_eq in Hx. subst x.
      cbn [memb existsb]. change (existsb (N.eqb c_nl) f) with (memb c_nl f). rewrite (D _ Hf). reflexivity.
    - destruct ex as [|e r]; [reflexivity|]. cbn [exp_ok] in Hex. apply andb_true_iff in Hex as [He Hr].
      cbn [memb existsb]. change (existsb (N.eqb c_nl) r) with (memb c_nl r).
      assert (E1 : N.eqb c_nl e = false) by (unfold is_e in He; apply orb_true_iff in He as [He|He]; apply N.eqb_eq in He; subst e; reflexivity).
      rewrite E1. cbn [orb]. destruct r as [|c1 r']; [discriminate Hr|]. destruct (is_sign c1) eqn:Es.
      + cbn [memb existsb]. change (existsb (N.eqb c_nl) r') with (memb c_nl r'). rewrite (D _ Hr).
        unfold is_sign in Es. apply orb_true_iff in Es as [Es|Es]; apply N.eqb_eq in Es; subst c1; reflexivity.
      + apply D. exact Hr. }
  unfold num_ok. destruct c as [|c0 cr]; [discriminate|]. destruct (N.eqb_spec c0 c_dash) as [->|_]; intros H; [|apply B; exact H].
  cbn [memb existsb]. change (existsb (N.eqb c_nl) cr) with (memb c_nl cr). rewrite (B _ H). reflexivity.
Qed.

Lemma G_num st c z r : num_ok c = true -> vterm z -> ls_in st = c ++ z :: r -> ls_spans st = [] ->
  exists st', gstep st st' NUMBER (TVNum c) (z :: r) (last_chr c) (ls_brk st).
Proof.
  intros Hn Hz Hin Hsp. pose proof (num_plain c Hn) as Hpl.
  assert (Hgoal : exists c0 s', c ++ z :: r = c0 :: s' /\ (48 <= c0 <= 57 \/ c0 = 45) /\
            scan_version cls (c0 :: s') = None /\ prefixb s_dash3 (c0 :: s') = false /\
            try_simple simple_ops (c0 :: s') = None /\ scan_number cls (c0 :: s') = Some (c, z :: r) /\
            alias_of c = None /\ c <> []).
  { unfold num_ok in Hn. destruct c as [|c0 cr]; [discriminate|].
    destruct (N.eqb_spec c0 c_dash) as [->|Hnd].
    - destruct (num_body_shape _ Hn) as (d & fr & ex & -> & Hd & Hfr & Hex).
      destruct (digs_hd _ Hd) as (d0 & d' & Ed & Hd0).
      exists c_dash, ((d ++ fr ++ ex) ++ z :: r). split; [reflexivity|]. split; [right; reflexivity|].
      split; [apply hd_version; apply u_digit_false; chr|].
      split; [rewrite Ed; cbn [app]; unfold s_dash3; cbn [prefixb]; rewrite (neqb 45 d0) by lia; rewrite andb_false_r; reflexivity|].
      split; [rewrite Ed; cbn [app]; unfold simple_ops; cbn [try_simple prefixb]; rewrite (neqb 62 d0) by lia; reflexivity|].
      split; [|split; [rewrite Ed; apply alias_of_none_dash; lia|discriminate]].
      rewrite scan_number_neg, <- !app_assoc. exact (snum_rest_ok_z [c_dash] d fr ex z r Hd Hfr Hex Hz).
    - destruct (num_body_shape _ Hn) as (d & fr & ex & E & Hd & Hfr & Hex).
      destruct (digs_hd _ Hd) as (d0 & d' & Ed & Hd0).
      assert (E0 : c0 = d0) by (rewrite Ed in E; cbn [app] in E; inversion E; reflexivity). subst c0.
      exists d0, (cr ++ z :: r). split; [reflexivity|]. split; [left; exact Hd0|].
      change (d0 :: cr ++ z :: r) with ((d0 :: cr) ++ z :: r). rewrite E, <- !app_assoc.
      split; [apply scan_version_num_z; assumption|].
      split; [rewrite Ed; cbn [app]; apply hd_dash3; lia|].
      split; [rewrite Ed; cbn [app]; apply hd_ops; lia|].
      split; [|split; [rewrite Ed; cbn [app]; apply alias_of_none_hd; lia|rewrite Ed; discriminate]].
      rewrite Ed at 1. cbn [app]. rewrite scan_number_pos by chr.
      change (d0 :: d' ++ fr ++ ex ++ z :: r) with ((d0 :: d') ++ fr ++ ex ++ z :: r). rewrite <- Ed.
      rewrite !app_assoc, <- (app_assoc d fr ex), <- !app_assoc.
      exact (snum_rest_ok_z [] d fr ex z r Hd Hfr Hex Hz). }
  destruct Hgoal as (c0 & s' & Ecs & Hc0 & Hv & Hd3 & Hops & Hnum & Hal & Hne).
  rewrite Ecs in Hin.
  destruct (gstep_emit_pat st c0 s' NUMBER (TVNum c) c (z :: r) Hin Hsp) as (st' & H);
    try reflexivity; try assumption.
  - apply sp_number; assumption.
  - exists st'. exact H.
Qed.

End Chunks2.
