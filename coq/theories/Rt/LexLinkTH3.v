(* Rt/LexLinkTH2.v for the lexer-derived shape oracle hsh_lex cls: the lexical side condition becomes purely textual (+ the boolean clause on cls).

     hsh_cls2                     the class shape as oracle: chain_shape on chains, LexLinkTH.hsh_cls otherwise
     text_roundtrip_coreth2_lex   text_roundtrip_coreth2 with hsh := hsh_lex cls and side condition lex_safeth2_doc cls hsh_cls2 d

   Second part -- chains ending in a section target   raw = [ "s" ∧W1 .. ∧Wn →§T ]   (the shape of TokRoundTEx.h3, with a string example):
     cls_flow_ok cls = negb (id_char cls 8594) && negb (u_word cls 8594) && negb (u_digit cls 8594)   (the last word is directly followed by →;
                       no clause is needed for § = 167: it follows the operator, and T is followed by the ASCII bracket)
     lex_chainT_line   the emitted line of such an assignment is read as INDENT? KEY ASSIGN chainT_shape COMMENT? NEWLINE, every depth
     hsh_lex_chainT    hsh_lex cls (chainT_text s ws T) = chainT_shape s ws T
   Document level for this class: NOT done. *)
From OV Require Import Base.Strs Gen.LexerGen Syn.Escape Syn.Quote Syn.Ast Syn.Emitter Syn.Parser Lex.Lexer Lex.Progress
     Rt.Zones Rt.ZonesRt Rt.TokRound Rt.TokRoundEx Rt.TokRound2 Rt.TokRound2Ex Rt.TokRoundZ Rt.TokRoundT Rt.TokRoundTHolo Rt.TokRoundTEx
     Rt.LexLinkBase Rt.LexLinkSteps Rt.LexLink Rt.LexLink2Base Rt.LexLink2Steps Rt.LexLink2Text Rt.LexLink2
     Rt.LexLinkZPos Rt.LexLinkZText Rt.LexLinkZ Rt.LexLinkT Rt.LexLinkTH Rt.LexLinkTH2.
From Coq Require Import Lia.
Open Scope N_scope.

Definition hsh_cls2 (raw : str) : list sh :=
  if th2_raw raw && chain_ok (hws raw) then chain_shape (hs raw) (hws raw) else hsh_cls raw.

Lemma ch_fits_refl s ws : ch_fits (chain_shape s ws) s ws = true.
Proof. apply fits_refl_gen, chain_shape_txt. Qed.

Lemma th2_safe_lex cls raw : th2_safe cls hsh_cls2 raw = true -> th2_safe cls (hsh_lex cls) raw = true.
Proof.
  unfold th2_safe. intros H. apply orb_true_iff in H as [H|H]; apply orb_true_iff; [left|right].
  - apply andb_true_iff in H as [H _]. apply andb_true_iff in H as [H Hok]. apply andb_true_iff in H as [E2 Hcls].
    rewrite E2, Hcls, Hok. cbn [andb]. unfold th2_raw in E2. apply str_eqb_eq in E2.
    rewrite E2 at 1. rewrite (hsh_lex_chain cls _ _ Hcls Hok). apply ch_fits_refl.
  - apply andb_true_iff in H as [Hraw H]. unfold th_safe in H. apply andb_true_iff in H as [Hw _].
    rewrite Hraw, (th_safe_lex cls raw Hraw Hw). reflexivity.
Qed.

Lemma safeth2_cls_lex cls : forall n, lex_safeth2_node cls hsh_cls2 n = true -> lex_safeth2_node cls (hsh_lex cls) n = true.
Proof.
  apply (node_ind2 (fun n => lex_safeth2_node cls hsh_cls2 n = true -> lex_safeth2_node cls (hsh_lex cls) n = true)).
  - intros k v l t Hs. destruct v; try exact Hs.
    cbn [lex_safeth2_node lex_safeth2_val] in Hs |- *. apply andb_true_iff in Hs as [Hs Ht]. apply andb_true_iff in Hs as [Hs Hl]. apply andb_true_iff in Hs as [Hk Hv].
    rewrite Hk, Hl, Ht, (th2_safe_lex cls raw Hv). reflexivity.
  - intros k tg ch l IH Hs. cbn [lex_safeth2_node] in Hs |- *. apply andb_true_iff in Hs as [Hs Hss]. rewrite Hs. cbn [andb].
    induction ch as [|c cs IHc]; [reflexivity|]. inversion IH as [|? ? Pc Pcs]; subst.
    cbn [forallb] in Hss |- *. apply andb_true_iff in Hss as [Hs1 Hs2]. rewrite (Pc Hs1), (IHc Pcs Hs2). reflexivity.
  - intros i k a ch l IH Hs. cbn [lex_safeth2_node] in Hs |- *. apply andb_true_iff in Hs as [Hs Hss]. rewrite Hs. cbn [andb].
    induction ch as [|c cs IHc]; [reflexivity|]. inversion IH as [|? ? Pc Pcs]; subst.
    cbn [forallb] in Hss |- *. apply andb_true_iff in Hss as [Hs1 Hs2]. rewrite (Pc Hs1), (IHc Pcs Hs2). reflexivity.
  - intros t Hs; exact Hs.
Qed.
Lemma safeth2_doc_cls_lex cls d : lex_safeth2_doc cls hsh_cls2 d = true -> lex_safeth2_doc cls (hsh_lex cls) d = true.
Proof.
  intros Hs. destruct (safeth2_parts cls hsh_cls2 d Hs) as (H1 & H2 & H3 & H4 & H5).
  unfold lex_safeth2_doc. rewrite H1, H2, H4, H5. cbn [andb]. rewrite !andb_true_r.
  clear -H3. induction (dsections d) as [|c cs IH]; [reflexivity|]. cbn [forallb] in H3 |- *.
  apply andb_true_iff in H3 as [Hs1 Hs2]. rewrite (safeth2_cls_lex cls c Hs1), (IH Hs2). reflexivity.
Qed.

Theorem text_roundtrip_coreth2_lex cls numcanon holo_ok strict sp d :
  coreth2_doc d = true -> lex_safeth2_doc cls hsh_cls2 d = true ->
  nodes_side numcanon holo_ok idnum_digits (hsh_lex cls) (dsections d) -> Forall (TokRoundT.field_num_ok numcanon) (dmeta d) ->
  exists warns,
    parse_model cls numcanon holo_ok strict (lines_of (emit sp d)) = PRDoc d [] warns /\ Forall advisory warns.
Proof.
  intros Hc Hs. exact (text_roundtrip_coreth2 cls (hsh_lex cls) numcanon holo_ok strict sp d Hc (safeth2_doc_cls_lex cls d Hs)).
Qed.
Print Assumptions text_roundtrip_coreth2_lex.

(* ======== chains ending in a section target ================================================================================================================= *)
Definition cls_flow_ok (cls : N -> N) : bool := negb (id_char cls 8594) && negb (u_word cls 8594) && negb (u_digit cls 8594).
Definition chainT_text (s : str) (ws : list str) (T : str) : str := [c_lbr] ++ quote s ++ ands_text ws ++ 8594 :: 167 :: T ++ [c_rbr].
Definition chainT_shape (s : str) (ws : list str) (T : str) : list sh :=
  [(LIST_START, Some (TVText [91])); (STRING, Some (TVText s))] ++ ands_sh ws ++
  [(FLOW, Some (TVText [8594])); (SECTION, Some (TVText [167])); (IDENTIFIER, Some (TVText T)); (LIST_END, Some (TVText [93]))].

Section ChainT.
Variable cls : N -> N.

Lemma cls_flow_parts : cls_flow_ok cls = true -> zend cls 8594 /\ u_digit cls 8594 = false.
Proof.
  unfold cls_flow_ok. intros H. apply andb_true_iff in H as [H H3]. apply andb_true_iff in H as [H1 H2].
  apply negb_true_iff in H1, H2, H3. split; [|exact H3]. split; [exact H1|]. split; [exact H2|split; discriminate].
Qed.

(* ∧W1..∧Wn before any terminator z that ends a word *)
Lemma lex_ands_z z : cls_and_ok cls = true -> zend cls z -> u_digit cls z = false -> z <> c_dot -> forall ws st r, forallb key_ok ws = true ->
  ls_in st = ands_text ws ++ z :: r -> ls_spans st = [] -> ls_pos st <> 0 ->
  exists st', lextoB cls st (ands_sh ws) st' /\ ls_in st' = z :: r /\ ls_brk st' = ls_brk st /\ ls_pos st' <> 0 /\ ls_col st <= ls_col st'.
Proof.
  intros Hcls Zz Dz Nz. destruct (cls_and_parts cls Hcls) as (_ & _ & Hdig).
  induction ws as [|w ws IH]; intros st r Hok Hin S0 P0.
  - exists st. split; [apply lextoB_refl|]. split; [exact Hin|]. split; [reflexivity|]. split; [exact P0|lia].
  - cbn [forallb] in Hok. apply andb_true_iff in Hok as [Hw Hws]. cbn [ands_text app] in Hin. rewrite <- app_assoc in Hin.
    assert (Hhd : exists x u, ands_text ws ++ z :: r = x :: u /\ (x = 8743 \/ x = z)).
    { destruct ws as [|w' ws']; cbn [ands_text app]; eexists _, _; (split; [reflexivity|]); [right|left]; reflexivity. }
    destruct Hhd as (x & u & Ex & Hx). rewrite Ex in Hin.
    assert (V : scan_version cls (8743 :: w ++ x :: u) = None).
    { change (8743 :: w ++ ?y) with ((8743 :: w) ++ y). apply scan_version_no_dot.
      - intros y [<-|Hy]; [discriminate|exact (key_no_dot w Hw y Hy)].
      - destruct Hx; subst x; [discriminate|exact Nz].
      - destruct Hx; subst x; [exact Hdig|exact Dz]. }
    destruct (G_and cls st _ Hin S0 P0 V) as (st1 & G1).
    assert (S1 : ls_spans st1 = []) by (rewrite (gstep_spans cls _ _ _ _ _ _ _ G1); exact S0).
    assert (Zx : zend cls x) by (destruct Hx; subst x; [exact (zend_and cls Hcls)|exact Zz]).
    destruct (G_keyz cls st1 w x u Hw Zx (gstep_in cls _ _ _ _ _ _ _ G1) (gstep_pos cls _ _ _ _ _ _ _ G1) S1) as (st2 & G2).
    assert (S2 : ls_spans st2 = []) by (rewrite (gstep_spans cls _ _ _ _ _ _ _ G2); exact S1).
    pose proof (gstep_in cls _ _ _ _ _ _ _ G2) as I2. rewrite <- Ex in I2.
    destruct (IH st2 r Hws I2 S2 (gstep_pos cls _ _ _ _ _ _ _ G2)) as (st3 & L3 & I3 & B3 & P3 & C3).
    exists st3. split; [|split; [exact I3|split; [|split; [exact P3|]]]].
    + change (ands_sh (w :: ws)) with ([(CONSTRAINT, Some (TVText [8743]))] ++ [(IDENTIFIER, Some (TVText w))] ++ ands_sh ws).
      eapply (lextoB_trans cls); [eapply (lextoB_gstep cls); [exact G1|reflexivity|right; reflexivity]|].
      eapply (lextoB_trans cls); [eapply (lextoB_gstep cls); [exact G2|reflexivity|right; reflexivity]|exact L3].
    + rewrite B3, (gstep_brk cls _ _ _ _ _ _ _ G2). exact (gstep_brk cls _ _ _ _ _ _ _ G1).
    + pose proof (gstep_col cls _ _ _ _ _ _ _ G1). pose proof (gstep_col cls _ _ _ _ _ _ _ G2). lia.
Qed.

Lemma lex_chainT s ws T st r :
  cls_and_ok cls = true -> cls_flow_ok cls = true -> chain_ok ws = true -> key_ok T = true ->
  ls_in st = chainT_text s ws T ++ r -> ls_spans st = [] -> 1 <= ls_col st ->
  exists st', lexto cls st (chainT_shape s ws T) st' /\ ls_in st' = r /\ 1 < ls_col st' /\ ls_pos st' <> 0.
Proof.
  intros Hcls Hfl Hok HT Hin S0 C0. destruct (cls_flow_parts Hfl) as [Zf Df].
  unfold chain_ok in Hok. apply andb_true_iff in Hok as [Hne Hws].
  unfold chainT_text in Hin. repeat (progress (rewrite <- ?app_assoc in Hin; cbn [app] in Hin)).
  destruct (G_lbr cls st _ Hin S0) as (st1 & p & G1).
  assert (S1 : ls_spans st1 = []) by (rewrite (gstep_spans cls _ _ _ _ _ _ _ G1); exact S0).
  destruct ws as [|w ws]; [discriminate Hne|].
  pose proof (gstep_in cls _ _ _ _ _ _ _ G1) as I1. cbn [ands_text app] in I1.
  destruct (G_str cls st1 s 8743 _ I1 ltac:(discriminate) S1) as (st2 & G2).
  assert (S2 : ls_spans st2 = []) by (rewrite (gstep_spans cls _ _ _ _ _ _ _ G2); exact S1).
  pose proof (gstep_in cls _ _ _ _ _ _ _ G2) as I2.
  change (ls_in st2 = ands_text (w :: ws) ++ 8594 :: 167 :: T ++ c_rbr :: r) in I2.
  destruct (lex_ands_z 8594 Hcls Zf Df ltac:(discriminate) (w :: ws) st2 _ Hws I2 S2 (gstep_pos cls _ _ _ _ _ _ _ G2)) as (st3 & L3 & I3 & B3 & P3 & C3).
  assert (S3 : ls_spans st3 = []) by (rewrite (lextoB_spans cls _ _ _ L3); exact S2).
  assert (Hnd : forall y, In y (8594 :: 167 :: T) -> y <> c_dot).
  { intros y [<-|[<-|Hy]]; [discriminate|discriminate|exact (key_no_dot T HT y Hy)]. }
  assert (V3 : scan_version cls (8594 :: 167 :: T ++ c_rbr :: r) = None).
  { change (8594 :: 167 :: T ++ ?x) with ((8594 :: 167 :: T) ++ x). apply scan_version_no_dot; [exact Hnd|discriminate|apply u_digit_false; chr]. }
  destruct (G_flow cls st3 _ I3 S3 P3 V3) as (st4 & G4).
  assert (S4 : ls_spans st4 = []) by (rewrite (gstep_spans cls _ _ _ _ _ _ _ G4); exact S3).
  assert (V4 : scan_version cls (167 :: T ++ c_rbr :: r) = None).
  { change (167 :: T ++ ?x) with ((167 :: T) ++ x). apply scan_version_no_dot; [intros y Hy; apply Hnd; right; exact Hy|discriminate|apply u_digit_false; chr]. }
  destruct (G_section cls st4 _ (gstep_in cls _ _ _ _ _ _ _ G4) S4 V4) as (st5 & G5).
  assert (S5 : ls_spans st5 = []) by (rewrite (gstep_spans cls _ _ _ _ _ _ _ G5); exact S4).
  destruct (G_key cls st5 T c_rbr _ HT ltac:(right; right; left; reflexivity) (gstep_in cls _ _ _ _ _ _ _ G5) (gstep_pos cls _ _ _ _ _ _ _ G5) S5) as (st6 & G6).
  assert (S6 : ls_spans st6 = []) by (rewrite (gstep_spans cls _ _ _ _ _ _ _ G6); exact S5).
  assert (B6 : ls_brk st6 = p :: ls_brk st).
  { rewrite (gstep_brk cls _ _ _ _ _ _ _ G6), (gstep_brk cls _ _ _ _ _ _ _ G5), (gstep_brk cls _ _ _ _ _ _ _ G4), B3, (gstep_brk cls _ _ _ _ _ _ _ G2).
    exact (gstep_brk cls _ _ _ _ _ _ _ G1). }
  destruct (G_rbr cls st6 _ p (ls_brk st) (gstep_in cls _ _ _ _ _ _ _ G6) S6 B6) as (st7 & G7).
  exists st7. split; [|split; [exact (gstep_in cls _ _ _ _ _ _ _ G7)|split; [|exact (gstep_pos cls _ _ _ _ _ _ _ G7)]]].
  - apply (lextoB_lexto cls); [|exact (gstep_brk cls _ _ _ _ _ _ _ G7)]. unfold chainT_shape.
    change ([(LIST_START, Some (TVText [91])); (STRING, Some (TVText s))] ++ ?l ++
            [(FLOW, Some (TVText [8594])); (SECTION, Some (TVText [167])); (IDENTIFIER, Some (TVText T)); (LIST_END, Some (TVText [93]))])
      with ([(LIST_START, Some (TVText [91]))] ++ [(STRING, Some (TVText s))] ++ l ++
            [(FLOW, Some (TVText [8594]))] ++ [(SECTION, Some (TVText [167]))] ++ [(IDENTIFIER, Some (TVText T))] ++ [(LIST_END, Some (TVText [93]))]).
    eapply (lextoB_trans cls); [eapply (lextoB_gstep cls); [exact G1|reflexivity|right; reflexivity]|].
    eapply (lextoB_trans cls); [eapply (lextoB_gstep cls); [exact G2|reflexivity|right; reflexivity]|].
    eapply (lextoB_trans cls); [exact L3|].
    eapply (lextoB_trans cls); [eapply (lextoB_gstep cls); [exact G4|reflexivity|right; reflexivity]|].
    eapply (lextoB_trans cls); [eapply (lextoB_gstep cls); [exact G5|reflexivity|right; reflexivity]|].
    eapply (lextoB_trans cls); [eapply (lextoB_gstep cls); [exact G6|reflexivity|right; reflexivity]|].
    eapply (lextoB_gstep cls); [exact G7|reflexivity|right; reflexivity].
  - pose proof (gstep_col cls _ _ _ _ _ _ _ G1). pose proof (gstep_col cls _ _ _ _ _ _ _ G2). pose proof (gstep_col cls _ _ _ _ _ _ _ G4).
    pose proof (gstep_col cls _ _ _ _ _ _ _ G5). pose proof (gstep_col cls _ _ _ _ _ _ _ G6). pose proof (gstep_col cls _ _ _ _ _ _ _ G7). lia.
Qed.

Lemma lex_chainT_line D k s ws T t st rest :
  cls_and_ok cls = true -> cls_flow_ok cls = true -> key_ok k = true -> chain_ok ws = true -> key_ok T = true -> opt_ne t = true -> trail_ok t = true ->
  ls_in st = (ind D ++ k ++ s_assign ++ chainT_text s ws T ++ emit_trailing t) ++ c_nl :: rest -> ready st ->
  exists st', lexto cls st (indent_sh D ++ [(IDENTIFIER, Some (TVText k)); (ASSIGN, None)] ++ chainT_shape s ws T ++ trail_sh t ++ [(NEWLINE, None)]) st' /\
              ls_in st' = rest /\ ready st'.
Proof.
  intros Hcls Hfl Hk Hw HT Hne Ht Hin Hr. rewrite <- !app_assoc in Hin.
  change (s_assign ++ ?x) with (c_colon :: c_colon :: x) in Hin.
  destruct (lex_indent_key cls D k _ st Hk Hin Hr) as (st2 & L2 & I2 & S2).
  destruct (T_assign cls st2 _ I2 S2) as (st3 & T3).
  assert (L3 : lexto cls st2 [(ASSIGN, None)] st3) by (eapply lexto_tstep; [exact T3|reflexivity|left; reflexivity]).
  assert (S3 : ls_spans st3 = []) by (rewrite (tstep_spans _ _ _ _ _ _ _ T3); exact S2).
  assert (C3 : 1 <= ls_col st3) by (apply (lexto_col cls _ _ _ L3), (lexto_col cls _ _ _ L2), ready_col; exact Hr).
  pose proof (tstep_in _ _ _ _ _ _ _ T3) as I3.
  destruct (lex_chainT s ws T st3 _ Hcls Hfl Hw HT I3 S3 C3) as (st4 & L4 & I4 & C4 & P4).
  assert (S4 : ls_spans st4 = []) by (rewrite (lexto_spans _ _ _ _ L4); exact S3).
  destruct (lex_trail cls t st4 rest Hne Ht I4 C4 S4 P4) as (st5 & L5 & I5).
  assert (S5 : ls_spans st5 = []) by (rewrite (lexto_spans _ _ _ _ L5); exact S4).
  destruct (lex_newline cls st5 rest I5 S5) as (st6 & L6 & I6 & R6).
  exists st6. split; [|split; assumption].
  change ([(IDENTIFIER, Some (TVText k)); (ASSIGN, None)] ++ ?l) with ([(IDENTIFIER, Some (TVText k))] ++ [(ASSIGN, @None tvalue)] ++ l).
  rewrite app_assoc. eapply lexto_trans; [exact L2|]. eapply lexto_trans; [exact L3|].
  eapply lexto_trans; [exact L4|]. eapply lexto_trans; [exact L5|exact L6].
Qed.
End ChainT.

Lemma chainT_shape_txt s ws T : forallb txt_sh (chainT_shape s ws T) = true.
Proof. unfold chainT_shape. rewrite !forallb_app, ands_sh_txt. reflexivity. Qed.
Lemma plain_chainT s ws T : chain_ok ws = true -> key_ok T = true -> plain (chainT_text s ws T) = true.
Proof.
  unfold chain_ok. intros H HT. apply andb_true_iff in H as [_ H]. unfold chainT_text.
  rewrite !plain_app, plain_quote, (plain_ands ws H), !plain_cons, plain_app, (plain_keyok _ HT). reflexivity.
Qed.
Theorem hsh_lex_chainT cls s ws T : cls_and_ok cls = true -> cls_flow_ok cls = true -> chain_ok ws = true -> key_ok T = true ->
  hsh_lex cls (chainT_text s ws T) = chainT_shape s ws T.
Proof.
  intros Hcls Hfl Hw HT. unfold hsh_lex.
  assert (Ht : tok_text (chainT_text s ws T) = true).
  { apply line_tok. unfold LexLink.line_ok. rewrite (plain_chainT s ws T Hw HT). reflexivity. }
  rewrite (tokenize_tok_text cls false _ Ht eq_refl).
  set (st0 := mkLS (chainT_text s ws T) None 0 1 1 [] [] [] []).
  destruct (lex_chainT cls s ws T st0 [] Hcls Hfl Hw HT) as (st' & (Hst & (ts & Htk & HF) & Hr & Hb & _) & Hin & _);
    [rewrite app_nil_r; reflexivity|reflexivity|cbn [ls_col st0]; lia|].
  rewrite (run_steps_finish cls st0 st' _ Hst Hin) by (cbn [ls_in st0]; lia).
  unfold finish. rewrite Hb, Hr, Htk. cbn [ls_brk ls_reps ls_toks st0 rev app]. rewrite app_nil_r, rev_involutive, removelast_last.
  exact (sh_of_match _ _ (chainT_shape_txt s ws T) HF).
Qed.
Print Assumptions lex_chainT_line.
Print Assumptions hsh_lex_chainT.
