(* Rt/LexLinkTH2.v for the lexer-derived shape oracle hsh_lex cls: the lexical side condition becomes purely textual (+ the boolean clause on cls).

     hsh_cls2                     the class shape as oracle: chain_shape on chains, LexLinkTH.hsh_cls otherwise
     text_roundtrip_coreth2_lex   text_roundtrip_coreth2 with hsh := hsh_lex cls and side condition lex_safeth2_doc cls hsh_cls2 d *)
From OV Require Import Base.Strs Gen.LexerGen Syn.Escape Syn.Quote Syn.Ast Syn.Emitter Syn.Parser Lex.Lexer Lex.Progress
     Rt.Zones Rt.ZonesRt Rt.TokRound Rt.TokRoundEx Rt.TokRound2 Rt.TokRound2Ex Rt.TokRoundZ Rt.TokRoundT Rt.TokRoundTHolo Rt.TokRoundTEx
     Rt.LexLinkBase Rt.LexLinkSteps Rt.LexLink Rt.LexLink2Base Rt.LexLink2Steps Rt.LexLink2Text Rt.LexLink2
     Rt.LexLinkZPos Rt.LexLinkZText Rt.LexLinkZ Rt.LexLinkT Rt.LexLinkTH Rt.LexLinkTH2.
From Coq Require Import Lia.
Open Scope N_scope.

Definition hsh_cls2 (raw : str) : list sh :=
  if th2_raw raw && chain_ok (hws raw) then chain_shape (hs raw) (hws raw) else hsh_cls raw.

Lemma ch_fits_refl s ws : ch_fits (chain_shape s ws) s ws = true.
Proof. apply fits_refl_gen, chain_shape_txt. Qed.

Lemma th2_safe_lex cls raw : th2_safe cls hsh_cls2 raw = true -> th2_safe cls (hsh_lex cls) raw = true.
Proof.
  unfold th2_safe. intros H. apply orb_true_iff in H as [H|H]; apply orb_true_iff; [left|right].
  - apply andb_true_iff in H as [H _]. apply andb_true_iff in H as [H Hok]. apply andb_true_iff in H as [E2 Hcls].
    rewrite E2, Hcls, Hok. cbn [andb]. unfold th2_raw in E2. apply str_eqb_eq in E2.
    rewrite E2 at 1. rewrite (hsh_lex_chain cls _ _ Hcls Hok). apply ch_fits_refl.
  - apply andb_true_iff in H as [Hraw H]. unfold th_safe in H. apply andb_true_iff in H as [Hw _].
    rewrite Hraw, (th_safe_lex cls raw Hraw Hw). reflexivity.
Qed.

Lemma safeth2_cls_lex cls : forall n, lex_safeth2_node cls hsh_cls2 n = true -> lex_safeth2_node cls (hsh_lex cls) n = true.
Proof.
  apply (node_ind2 (fun n => lex_safeth2_node cls hsh_cls2 n = true -> lex_safeth2_node cls (hsh_lex cls) n = true)).
  - intros k v l t Hs. destruct v; try exact Hs.
    cbn [lex_safeth2_node lex_safeth2_val] in Hs |- *. apply andb_true_iff in Hs as [Hs Ht]. apply andb_true_iff in Hs as [Hs Hl]. apply andb_true_iff in Hs as [Hk Hv].
    rewrite Hk, Hl, Ht, (th2_safe_lex cls raw Hv). reflexivity.
  - intros k tg ch l IH Hs. cbn [lex_safeth2_node] in Hs |- *. apply andb_true_iff in Hs as [Hs Hss]. rewrite Hs. cbn [andb].
    induction ch as [|c cs IHc]; [reflexivity|]. inversion IH as [|? ? Pc Pcs]; subst.
    cbn [forallb] in Hss |- *. apply andb_true_iff in Hss as [Hs1 Hs2]. rewrite (Pc Hs1), (IHc Pcs Hs2). reflexivity.
  - intros i k a ch l IH Hs. cbn [lex_safeth2_node] in Hs |- *. apply andb_true_iff in Hs as [Hs Hss]. rewrite Hs. cbn [andb].
    induction ch as [|c cs IHc]; [reflexivity|]. inversion IH as [|? ? Pc Pcs]; subst.
    cbn [forallb] in Hss |- *. apply andb_true_iff in Hss as [Hs1 Hs2]. rewrite (Pc Hs1), (IHc Pcs Hs2). reflexivity.
  - intros t Hs; exact Hs.
Qed.
Lemma safeth2_doc_cls_lex cls d : lex_safeth2_doc cls hsh_cls2 d = true -> lex_safeth2_doc cls (hsh_lex cls) d = true.
Proof.
  intros Hs. destruct (safeth2_parts cls hsh_cls2 d Hs) as (H1 & H2 & H3 & H4 & H5).
  unfold lex_safeth2_doc. rewrite H1, H2, H4, H5. cbn [andb]. rewrite !andb_true_r.
  clear -H3. induction (dsections d) as [|c cs IH]; [reflexivity|]. cbn [forallb] in H3 |- *.
  apply andb_true_iff in H3 as [Hs1 Hs2]. rewrite (safeth2_cls_lex cls c Hs1), (IH Hs2). reflexivity.
Qed.

Theorem text_roundtrip_coreth2_lex cls numcanon holo_ok strict sp d :
  coreth2_doc d = true -> lex_safeth2_doc cls hsh_cls2 d = true ->
  nodes_side numcanon holo_ok idnum_digits (hsh_lex cls) (dsections d) -> Forall (TokRoundT.field_num_ok numcanon) (dmeta d) ->
  exists warns,
    parse_model cls numcanon holo_ok strict (lines_of (emit sp d)) = PRDoc d [] warns /\ Forall advisory warns.
Proof.
  intros Hc Hs. exact (text_roundtrip_coreth2 cls (hsh_lex cls) numcanon holo_ok strict sp d Hc (safeth2_doc_cls_lex cls d Hs)).
Qed.
Print Assumptions text_roundtrip_coreth2_lex.
