(* Lexer half for corez documents (Rt/TokRoundZ.v), part 1: the text as a sequence of BLOCKS and the pre-passes on it.

   A block is either an ordinary stretch of text (one or more physical lines, none fence-shaped, no tab) or a literal zone:
   opening fence line, the content lines (ARBITRARY text: only a fence-shaped line with a backtick run at least as long as the
   marker is excluded), closing fence line.  For a list of blocks:
     fs_blocks        fence_scan, for EVERY NFC oracle that fixes the ordinary lines and the fence lines (the content lines may be
                      changed by the oracle at will: they are kept raw), records exactly one span per zone, at its offset
     tab_blocks       tab_check passes: the only tabs are inside zone spans
     tokenize_blocks  tokenize = the main loop on the text itself with the span list  spans_of bs 0
   Then the blocks of a document (doc_blocks), whose text is the emitter's, and the side condition lex_safez_doc. *)
From OV Require Import Base.Strs Gen.LexerGen Syn.Escape Syn.Quote Syn.Ast Syn.Emitter Syn.Parser Lex.Lexer Lex.Progress
     Rt.Zones Rt.ZonesRt Rt.TokRound Rt.TokRoundEx Rt.TokRound2 Rt.TokRound2Ex Rt.TokRoundZ
     Rt.LexLinkBase Rt.LexLinkSteps Rt.LexLink Rt.LexLink2Base Rt.LexLink2Steps Rt.LexLink2Text Rt.LexLink2 Rt.LexLinkZPos.
From Coq Require Import Lia.
Open Scope N_scope.

(* ---- blocks -------------------------------------------------------------------------------------------------------------------------------------- *)
Inductive blk := BT (u : str) | BZ (D : nat) (m : str) (tag : option str) (content : str).

Definition zopen (D : nat) (m : str) (tag : option str) : str := ind D ++ m ++ tag_str tag.
Definition zclose (D : nat) (m : str) : str := ind D ++ m.
Definition zmids (content : str) : list str := ZonesRt.content_lines content.
(* the text a zone's span covers: from the first character of the opening fence line to the last of the closing fence line *)
Definition zbody (D : nat) (m : str) (tag : option str) (content : str) : str :=
  zopen D m tag ++ c_nl :: nlcat (zmids content) ++ zclose D m.

Definition blk_text (b : blk) : str :=
  match b with BT u => u ++ [c_nl] | BZ D m tag c => zbody D m tag c ++ [c_nl] end.
Definition blocks_text (bs : list blk) : str := flat_map blk_text bs.
Definition blk_lines (b : blk) : list str :=
  match b with BT u => split_on c_nl u | BZ D m tag c => zopen D m tag :: zmids c ++ [zclose D m] end.
Fixpoint spans_of (bs : list blk) (off : N) : list span :=
  match bs with
  | [] => []
  | BT u :: r => spans_of r (off + len u + 1)
  | BZ D m tag c :: r => mkSpan off (off + len (zbody D m tag c)) m tag :: spans_of r (off + len (zbody D m tag c) + 1)
  end.

Lemma blocks_text_app a b : blocks_text (a ++ b) = blocks_text a ++ blocks_text b.
Proof. apply flat_map_app. Qed.
Lemma len_blk_text b : len (blk_text b) = match b with BT u => len u + 1 | BZ D m tag c => len (zbody D m tag c) + 1 end.
Proof. destruct b; cbn [blk_text]; rewrite LexLinkBase.len_app; reflexivity. Qed.
Lemma spans_of_app a : forall b off, spans_of (a ++ b) off = spans_of a off ++ spans_of b (off + len (blocks_text a)).
Proof.
  induction a as [|x a IH]; intros b off; [cbn; rewrite N.add_0_r; reflexivity|].
  cbn [app blocks_text flat_map]. rewrite LexLinkBase.len_app, len_blk_text. fold (blocks_text a).
  destruct x as [u|D m tag c]; cbn [spans_of]; rewrite IH; [|cbn [app]; f_equal]; f_equal; f_equal; lia.
Qed.
(* every span of spans_of bs off starts at or after off *)
Lemma spans_of_ge bs : forall off sp, In sp (spans_of bs off) -> off <= sp_start sp.
Proof.
  induction bs as [|b bs IH]; intros off sp H; [destruct H|]. destruct b as [u|D m tag c]; cbn [spans_of] in H.
  - apply IH in H. lia.
  - destruct H as [<-|H]; [cbn; lia|]. apply IH in H. lia.
Qed.
Lemma spans_of_hd bs off sp r : spans_of bs off = sp :: r -> off <= sp_start sp.
Proof. intros H. apply (spans_of_ge bs). rewrite H. left; reflexivity. Qed.

Section Pre.
Variable cls : N -> N.

Definition blk_ok (b : blk) : bool :=
  match b with
  | BT u => tok_text u
  | BZ D m tag c => ZonesRt.zone_ok m c && ZonesRt.tag_ok cls tag
  end.
(* the NFC oracle leaves the ordinary lines and the two fence lines of every zone alone (no condition on content lines) *)
Definition blk_fixed (nf : str -> str) (b : blk) : Prop :=
  match b with
  | BT u => forall l, In l (split_on c_nl u) -> nf l = l
  | BZ D m tag c => nf (zopen D m tag) = zopen D m tag /\ nf (zclose D m) = zclose D m
  end.

(* ---- fence_match on the fence lines ---------------------------------------------------------------------------------------------------------------- *)
Lemma fence_match_sp l : fence_match (c_sp :: l) = fence_match l.
Proof. reflexivity. Qed.
Lemma fence_match_ind D l : fence_match (ind D ++ l) = fence_match l.
Proof. unfold ind. induction (2 * D)%nat as [|n IH]; [reflexivity|]. cbn [repeat app]. rewrite fence_match_sp. exact IH. Qed.

Lemma zone_parts m tag c : ZonesRt.zone_ok m c && ZonesRt.tag_ok cls tag = true ->
  ZonesRt.marker_ok m = true /\ forallb (ZonesRt.line_ok m) (zmids c) = true /\
  memb c_bt (tag_str tag) = false /\ memb c_nl (tag_str tag) = false /\ tag_of cls (tag_str tag) = tag.
Proof.
  intros H. apply andb_true_iff in H as [Hz Ht]. unfold ZonesRt.zone_ok in Hz. apply andb_true_iff in Hz as [Hm Hl].
  destruct (ZonesRt.tag_ok_inv cls tag Ht) as (T1 & T2 & T3 & _). repeat split; assumption.
Qed.
Lemma fm_open D m tag : ZonesRt.marker_ok m = true -> memb c_bt (tag_str tag) = false ->
  fence_match (zopen D m tag) = Some (m, tag_str tag).
Proof. intros Hm Ht. unfold zopen. rewrite fence_match_ind. exact (ZonesRt.fence_match_marker m _ Hm Ht). Qed.
Lemma fm_close D m : ZonesRt.marker_ok m = true -> fence_match (zclose D m) = Some (m, []).
Proof.
  intros Hm. unfold zclose. rewrite fence_match_ind. rewrite <- (app_nil_r m) at 1. exact (ZonesRt.fence_match_marker m [] Hm eq_refl).
Qed.
Lemma closes_self m : closes cls m [] m = true.
Proof. unfold closes. rewrite Nat.eqb_refl. reflexivity. Qed.

Lemma marker_no c m : ZonesRt.marker_ok m = true -> c <> c_bt -> memb c m = false.
Proof.
  intros Hm Hc. destruct (ZonesRt.marker_ok_inv _ Hm) as [_ Hb]. apply memb_false_forall.
  eapply forallb_impl; [|exact Hb]. intros x Hx. apply N.eqb_eq in Hx. subst x. apply negb_true_iff, neqb. congruence.
Qed.
Lemma ind_no c D : c <> c_sp -> memb c (ind D) = false.
Proof.
  intros Hc. unfold ind. induction (2 * D)%nat as [|n IH]; [reflexivity|]. cbn [repeat memb existsb].
  rewrite (neqb _ _ Hc). exact IH.
Qed.
Lemma zopen_no_nl D m tag : ZonesRt.marker_ok m = true -> memb c_nl (tag_str tag) = false -> memb c_nl (zopen D m tag) = false.
Proof.
  intros Hm Ht. unfold zopen. rewrite !LexLinkBase.memb_app, (ind_no c_nl D), (marker_no c_nl m Hm), Ht by discriminate. reflexivity.
Qed.
Lemma zclose_no_nl D m : ZonesRt.marker_ok m = true -> memb c_nl (zclose D m) = false.
Proof. intros Hm. unfold zclose. rewrite LexLinkBase.memb_app, (ind_no c_nl D), (marker_no c_nl m Hm) by discriminate. reflexivity. Qed.
Lemma zmids_no_nl c : forallb (fun l => negb (memb c_nl l)) (zmids c) = true.
Proof. unfold zmids, ZonesRt.content_lines. destruct c; [reflexivity|]. apply split_on_lines_nl_free. Qed.

(* ---- physical lines ------------------------------------------------------------------------------------------------------------------------------------ *)
Lemma split_nlcat ls : forallb (fun l => negb (memb c_nl l)) ls = true -> forall x, split_on c_nl (nlcat ls ++ x) = ls ++ split_on c_nl x.
Proof.
  induction ls as [|l ls IH]; intros H x; [reflexivity|]. cbn [forallb] in H. apply andb_true_iff in H as [H1 H2]. apply negb_true_iff in H1.
  rewrite nlcat_cons. change ((l ++ c_nl :: nlcat ls) ++ x) with ((l ++ c_nl :: nlcat ls) ++ x). rewrite <- app_assoc. cbn [app].
  rewrite split_on_sep, (split_on_no_sep _ _ H1), (IH H2). reflexivity.
Qed.
Lemma blk_split b x : blk_ok b = true -> split_on c_nl (blk_text b ++ x) = blk_lines b ++ split_on c_nl x.
Proof.
  intros Hok. destruct b as [u|D m tag c]; cbn [blk_text blk_lines].
  - rewrite <- app_assoc. cbn [app]. apply split_on_sep.
  - cbn [blk_ok] in Hok. destruct (zone_parts m tag c Hok) as (Hm & _ & _ & Htn & _).
    unfold zbody. rewrite <- !app_assoc. cbn [app]. rewrite split_on_sep, (split_on_no_sep _ _ (zopen_no_nl D m tag Hm Htn)).
    cbn [app]. f_equal. rewrite <- !app_assoc. rewrite (split_nlcat _ (zmids_no_nl c)). f_equal.
    rewrite split_on_sep, (split_on_no_sep _ _ (zclose_no_nl D m Hm)). reflexivity.
Qed.
Lemma blocks_split bs : forallb blk_ok bs = true -> split_on c_nl (blocks_text bs) = flat_map blk_lines bs ++ [[]].
Proof.
  induction bs as [|b bs IH]; intros H; [reflexivity|]. cbn [forallb] in H. apply andb_true_iff in H as [H1 H2].
  cbn [blocks_text flat_map]. fold (blocks_text bs). rewrite (blk_split b _ H1), (IH H2), app_assoc. reflexivity.
Qed.

(* ---- (b) the fence pre-pass ------------------------------------------------------------------------------------------------------------------------------ *)
Notation pr nf := (fun l : str => (l, nf l)).

Lemma fs_ordinary (nf : str -> str) ls : forallb fence_free ls = true -> (forall l, In l ls -> nf l = l) ->
  forall T ln off out S,
    fence_scan cls (map (pr nf) ls ++ T) ln off None out S =
    fence_scan cls T (ln + N.of_nat (length ls)) (off + len (nlcat ls)) None (rev ls ++ out) S.
Proof.
  induction ls as [|l ls IH]; intros Hf Hn T ln off out S.
  - cbn [map app length rev nlcat flat_map]. rewrite len_nil, !N.add_0_r. reflexivity.
  - cbn [forallb] in Hf. apply andb_true_iff in Hf as [H1 H2]. cbn [map app].
    rewrite (ZonesRt.fs_outside cls l (nf l) _ ln off out S (fence_free_match l H1)), (Hn l (or_introl eq_refl)).
    rewrite (IH H2 (fun x Hx => Hn x (or_intror Hx))). cbn [length rev]. rewrite nlcat_cons, <- app_assoc. cbn [app].
    rewrite Zones.len_app, Zones.len_cons. f_equal; lia.
Qed.

Lemma fs_block (nf : str -> str) b : blk_ok b = true -> blk_fixed nf b ->
  forall T ln off out S,
    fence_scan cls (map (pr nf) (blk_lines b) ++ T) ln off None out S =
    fence_scan cls T (ln + N.of_nat (length (blk_lines b))) (off + len (blk_text b)) None (rev (blk_lines b) ++ out) (rev (spans_of [b] off) ++ S).
Proof.
  intros Hok Hfix T ln off out S. destruct b as [u|D m tag c]; cbn [blk_ok blk_fixed blk_lines blk_text spans_of] in *.
  - unfold tok_text in Hok. apply andb_true_iff in Hok as [Hf _].
    rewrite (fs_ordinary nf _ Hf Hfix). cbn [rev app]. f_equal.
    pose proof (split_on_nonempty c_nl u) as Hne. rewrite <- (LexLinkBase.join_split c_nl u) at 2.
    change (nlcat (split_on c_nl u)) with (unlines (split_on c_nl u)). rewrite <- (join_unlines _ Hne). reflexivity.
  - destruct (zone_parts m tag c Hok) as (Hm & Hl & Htb & Htn & Htag). destruct Hfix as [Fo Fc].
    cbn [map app].
    rewrite (ZonesRt.fs_open cls _ _ _ ln off out S m (tag_str tag) (fm_open D m tag Hm Htb)), Fo, Htag.
    rewrite map_app, <- app_assoc.
    rewrite (ZonesRt.fs_content cls nf m tag ln off S _ (zmids c) _ _ _ Hl).
    cbn [map app].
    rewrite (ZonesRt.fs_close cls _ _ _ _ _ _ S m [] m tag ln off (fm_close D m Hm) (closes_self m)), Fc.
    cbn [rev app length]. rewrite app_length. cbn [length].
    assert (E1 : off + len (zopen D m tag) + 1 + len (nlcat (zmids c)) + len (zclose D m) + 1 - 1 = off + len (zbody D m tag c)).
    { unfold zbody. rewrite !Zones.len_app, Zones.len_cons, Zones.len_app. lia. }
    assert (E2 : off + len (zopen D m tag) + 1 + len (nlcat (zmids c)) + len (zclose D m) + 1 = off + len (zbody D m tag c ++ [c_nl])).
    { unfold zbody. rewrite !Zones.len_app, Zones.len_cons, !Zones.len_app, Zones.len_cons, Zones.len_nil. lia. }
    rewrite E1, E2. f_equal; [lia|].
    rewrite rev_app_distr. cbn [rev app]. rewrite <- !app_assoc. reflexivity.
Qed.

Lemma fs_blocks (nf : str -> str) bs : forallb blk_ok bs = true -> Forall (blk_fixed nf) bs ->
  forall T ln off out S,
    fence_scan cls (map (pr nf) (flat_map blk_lines bs) ++ T) ln off None out S =
    fence_scan cls T (ln + N.of_nat (length (flat_map blk_lines bs))) (off + len (blocks_text bs)) None
               (rev (flat_map blk_lines bs) ++ out) (rev (spans_of bs off) ++ S).
Proof.
  induction bs as [|b bs IH]; intros Hok Hfix T ln off out S.
  - cbn [flat_map map app length rev blocks_text spans_of]. rewrite Zones.len_nil, !N.add_0_r. reflexivity.
  - cbn [forallb] in Hok. apply andb_true_iff in Hok as [H1 H2]. inversion Hfix as [|? ? F1 F2]; subst.
    cbn [flat_map]. rewrite map_app, <- app_assoc, (fs_block nf b H1 F1), (IH H2 F2).
    rewrite app_length, rev_app_distr, <- !app_assoc. fold (blocks_text bs). cbn [blocks_text flat_map]. fold (blocks_text bs).
    rewrite Zones.len_app. change (b :: bs) with ([b] ++ bs). rewrite (spans_of_app [b] bs off), rev_app_distr, <- app_assoc.
    cbn [blocks_text flat_map]. rewrite app_nil_r. f_equal; lia.
Qed.

(* ---- the tab check ------------------------------------------------------------------------------------------------------------------------------------------ *)
Lemma tab_skip_notab Sp p : memb c_tab p = false -> forall r i,
  (forall l c, tab_check r (i + len p) l c Sp = None) -> forall l c, tab_check (p ++ r) i l c Sp = None.
Proof.
  induction p as [|x p IH]; intros Hp r i Hr l c.
  - cbn [app]. rewrite Zones.len_nil, N.add_0_r in Hr. apply Hr.
  - cbn [memb existsb] in Hp. apply orb_false_iff in Hp as [Hx Hp]. cbn [app tab_check].
    rewrite N.eqb_sym, Hx. cbn [andb].
    assert (Hr' : forall l c, tab_check r (i + 1 + len p) l c Sp = None).
    { intros l' c'. specialize (Hr l' c'). rewrite Zones.len_cons in Hr. replace (i + 1 + len p) with (i + (len p + 1)) by lia. exact Hr. }
    destruct (N.eqb x c_nl); apply (IH Hp r (i + 1) Hr').
Qed.
Lemma tab_skip_span Sp p : forall r i, (forall k, (k < length p)%nat -> in_spans (i + N.of_nat k) Sp = true) ->
  (forall l c, tab_check r (i + len p) l c Sp = None) -> forall l c, tab_check (p ++ r) i l c Sp = None.
Proof.
  induction p as [|x p IH]; intros r i Hin Hr l c.
  - cbn [app]. rewrite Zones.len_nil, N.add_0_r in Hr. apply Hr.
  - cbn [app tab_check]. pose proof (Hin 0%nat ltac:(cbn; lia)) as H0. rewrite N.add_0_r in H0. rewrite H0. cbn [negb]. rewrite andb_false_r.
    assert (Hr' : forall l c, tab_check r (i + 1 + len p) l c Sp = None).
    { intros l' c'. specialize (Hr l' c'). rewrite Zones.len_cons in Hr. replace (i + 1 + len p) with (i + (len p + 1)) by lia. exact Hr. }
    assert (Hin' : forall k, (k < length p)%nat -> in_spans (i + 1 + N.of_nat k) Sp = true).
    { intros k Hk. replace (i + 1 + N.of_nat k) with (i + N.of_nat (S k)) by lia. apply Hin. cbn [length]. lia. }
    destruct (N.eqb x c_nl); apply (IH r (i + 1) Hin' Hr').
Qed.
Lemma in_spans_In Sp sp j : In sp Sp -> sp_start sp <= j -> j < sp_end sp -> in_spans j Sp = true.
Proof.
  induction Sp as [|x Sp IH]; intros H H1 H2; [destruct H|]. cbn [in_spans]. destruct H as [->|H].
  - apply N.leb_le in H1. apply N.ltb_lt in H2. rewrite H1, H2. reflexivity.
  - rewrite (IH H H1 H2). apply orb_true_r.
Qed.

Lemma tab_blocks Sp bs : forallb blk_ok bs = true -> forall i r,
  (forall sp, In sp (spans_of bs i) -> In sp Sp) ->
  (forall l c, tab_check r (i + len (blocks_text bs)) l c Sp = None) -> forall l c, tab_check (blocks_text bs ++ r) i l c Sp = None.
Proof.
  induction bs as [|b bs IH]; intros Hok i r HS Hr l c.
  - cbn [blocks_text flat_map app] in *. rewrite Zones.len_nil, N.add_0_r in Hr. apply Hr.
  - cbn [forallb] in Hok. apply andb_true_iff in Hok as [H1 H2]. cbn [blocks_text flat_map]. fold (blocks_text bs). rewrite <- app_assoc.
    assert (Hrest : forall l c, tab_check (blocks_text bs ++ r) (i + len (blk_text b)) l c Sp = None).
    { apply (IH H2).
      - intros sp Hsp. apply HS. change (b :: bs) with ([b] ++ bs). rewrite (spans_of_app [b] bs i). apply in_or_app. right.
        cbn [blocks_text flat_map]. rewrite app_nil_r. exact Hsp.
      - intros l' c'. specialize (Hr l' c'). cbn [blocks_text flat_map] in Hr. fold (blocks_text bs) in Hr. rewrite Zones.len_app in Hr.
        rewrite <- N.add_assoc. exact Hr. }
    destruct b as [u|D m tag cont]; cbn [blk_text blk_ok] in *.
    + unfold tok_text in H1. apply andb_true_iff in H1 as [_ Ht]. apply negb_true_iff in Ht.
      apply tab_skip_notab; [rewrite LexLinkBase.memb_app, Ht; reflexivity|exact Hrest].
    + rewrite <- app_assoc. cbn [app].
      assert (Hin : In (mkSpan i (i + len (zbody D m tag cont)) m tag) Sp) by (apply HS; cbn [spans_of]; left; reflexivity).
      apply tab_skip_span.
      * intros k Hk. apply (in_spans_In Sp _ _ Hin); cbn [sp_start sp_end]; [lia|]. unfold len. lia.
      * intros l' c'. cbn [tab_check]. change (N.eqb c_nl c_tab) with false. cbn [andb]. rewrite N.eqb_refl.
        specialize (Hrest (l' + 1) 1). rewrite Zones.len_app, Zones.len_cons, Zones.len_nil in Hrest.
        replace (i + len (zbody D m tag cont) + 1) with (i + (len (zbody D m tag cont) + (0 + 1))) by lia. exact Hrest.
Qed.

(* ---- (b) tokenize on a text made of blocks ------------------------------------------------------------------------------------------------------------------- *)
Theorem tokenize_blocks (nf : str -> str) bs :
  forallb blk_ok bs = true -> Forall (blk_fixed nf) bs -> nf [] = [] -> nonblank_head (blocks_text bs) = true ->
  fence_scan cls (map (pr nf) (split_on c_nl (blocks_text bs))) 1 0 None [] [] = inr (split_on c_nl (blocks_text bs), spans_of bs 0) /\
  tab_check (blocks_text bs) 0 1 1 (spans_of bs 0) = None /\
  tokenize cls false (map (pr nf) (split_on c_nl (blocks_text bs))) =
  run cls false (S (length (blocks_text bs))) (mkLS (blocks_text bs) None 0 1 1 [] [] [] (spans_of bs 0)).
Proof.
  intros Hok Hfix Hnil Hnb.
  assert (Hfs : fence_scan cls (map (pr nf) (split_on c_nl (blocks_text bs))) 1 0 None [] [] = inr (split_on c_nl (blocks_text bs), spans_of bs 0)).
  { rewrite (blocks_split bs Hok), map_app, (fs_blocks nf bs Hok Hfix). cbn [map app].
    rewrite (ZonesRt.fs_outside cls [] (nf []) [] _ _ _ _ eq_refl), Hnil. cbn [fence_scan]. rewrite !app_nil_r.
    cbn [rev]. rewrite !rev_involutive. reflexivity. }
  assert (Htab : tab_check (blocks_text bs) 0 1 1 (spans_of bs 0) = None).
  { rewrite <- (app_nil_r (blocks_text bs)). apply (tab_blocks _ bs Hok 0 []); [intros sp H; exact H|reflexivity]. }
  split; [exact Hfs|]. split; [exact Htab|].
  unfold tokenize. rewrite Hfs, LexLinkBase.join_split, Htab, (init_state_nonblank _ _ Hnb). reflexivity.
Qed.
End Pre.

(* ---- the blocks of a document ----------------------------------------------------------------------------------------------------------------------------------- *)
(* a run of ordinary lines as one block (none for the empty run) *)
Definition bt (ls : list str) : list blk := match ls with [] => [] | _ => [BT (join [c_nl] ls)] end.
Lemma bt_text ls : blocks_text (bt ls) = unlines ls.
Proof.
  destruct ls as [|l ls]; [reflexivity|]. unfold bt. cbn [blocks_text flat_map blk_text]. rewrite app_nil_r. apply join_unlines. discriminate.
Qed.
Lemma bt_spans ls off : spans_of (bt ls) off = [].
Proof. destruct ls; reflexivity. Qed.
Lemma bt_ok cls ls : tok_text (unlines ls) = true -> forallb (blk_ok cls) (bt ls) = true.
Proof.
  destruct ls as [|l ls]; [reflexivity|]. intros H. unfold bt. cbn [forallb blk_ok]. rewrite andb_true_r.
  rewrite <- (join_unlines (l :: ls)) in H by discriminate. change (join [c_nl] (l :: ls) ++ [c_nl]) with (join [c_nl] (l :: ls) ++ c_nl :: []) in H.
  rewrite tok_text_nl in H. apply andb_true_iff in H as [H _]. exact H.
Qed.

Fixpoint node_blocks (n : node) (D : nat) : list blk :=
  match n with
  | NAssign k v l t =>
      match v with
      | VZone c tag m => bt (emit_leading l D ++ [ind D ++ k ++ s_assign]) ++ [BZ D m tag c]
      | _ => bt (emit_node_lines (NAssign k v l t) D)
      end
  | NBlock k _ ch l => bt (emit_leading l D ++ [ind D ++ k ++ [] ++ [c_colon]]) ++ flat_map (fun c => node_blocks c (S D)) ch
  | NSection i k a ch l =>
      bt (emit_leading l D ++ [ind D ++ [167] ++ i ++ s_assign ++ k ++ annot_text a]) ++ flat_map (fun c => node_blocks c (S D)) ch
  | NComment _ => []
  end.
Definition nodes_blocks (ns : list node) (D : nat) : list blk := flat_map (fun c => node_blocks c D) ns.
Definition prefix_lines (d : doc) : list str :=
  grammar_lines d ++ [s_env ++ dname d ++ s_env] ++ meta_lines (dmeta d) ++ (if dsep d then [s_sep] else []).
Definition suffix_lines (d : doc) : list str := emit_leading (dtrailing d) 0 ++ [s_end].
Definition doc_blocks (d : doc) : list blk := bt (prefix_lines d) ++ nodes_blocks (dsections d) 0 ++ bt (suffix_lines d).

(* ---- (a) the side condition ------------------------------------------------------------------------------------------------------------------------------------------ *)
Section Safe.
Variable cls : N -> N.
(* a zone: marker of three or more backticks; no content line that is fence-shaped with a backtick run at least as long as the
   marker (such a line closes the zone early, or is rejected E007); the info tag free of backticks and line breaks, not empty, and
   its own `strip` (so that the lexer reads it back as it is, and parse_literal_zone leaves it alone).  Nothing else about the
   content: tabs, NFD text, operators, `K::v`, envelope lines are all allowed. *)
Definition lex_safez_val (k : str) (v : value) (t : option str) : bool :=
  match v with
  | VZone c tag m => ZonesRt.zone_ok m c && ZonesRt.tag_ok cls tag
  | _ => lex_safe2_val k v && trail_ok t
  end.
Fixpoint lex_safez_node (n : node) : bool :=
  match n with
  | NAssign k v l t => key_ok k && lex_safez_val k v t && forallb comment_ok l
  | NBlock k _ ch l => key_ok k && forallb comment_ok l && forallb lex_safez_node ch
  | NSection i k a ch l => sid_ok i && key_ok k && annot_ok a && forallb comment_ok l && forallb lex_safez_node ch
  | NComment _ => false
  end.
Definition lex_safez_doc (d : doc) : bool :=
  name_ok (dname d) && (match dgrammar d with Some g => ver_ok g | None => true end) &&
  forallb lex_safez_node (dsections d) && forallb meta_ok (dmeta d) && forallb comment_ok (dtrailing d).

(* a non-zone assignment of a corez document is a core2 node satisfying the core2 side condition *)
Lemma nonzone_core2 k v l t : is_zone v = false -> corez_node (NAssign k v l t) = true -> lex_safez_node (NAssign k v l t) = true ->
  core2_node (NAssign k v l t) = true /\ lex_safe2_node (NAssign k v l t) = true.
Proof.
  intros Hz Hc Hs. cbn [corez_node core2_node lex_safez_node lex_safe2_node] in *.
  apply andb_true_iff in Hc as [Hc _]. apply andb_true_iff in Hc as [Hcv Hne]. unfold cvalz in Hcv. rewrite Hz in Hcv. cbn [orb] in Hcv.
  apply andb_true_iff in Hs as [Hs Hl]. apply andb_true_iff in Hs as [Hk Hv].
  assert (Hv' : lex_safe2_val k v && trail_ok t = true) by (destruct v; try exact Hv; discriminate Hz).
  apply andb_true_iff in Hv' as [Hv1 Hv2]. rewrite Hcv, Hne, Hk, Hv1, Hl, Hv2. split; reflexivity.
Qed.

(* ---- the emitted lines ------------------------------------------------------------------------------------------------------------------------------------------------- *)
Lemma corez_child_lines c D : corez_node c = true ->
  match c with
  | NAssign [] (VZone content tag marker) _ _ => zone_lines (S D) content tag marker
  | _ => emit_node_lines c (S D)
  end = emit_node_lines c (S D).
Proof.
  destruct c as [k v l t| | |]; try reflexivity. cbn [corez_node]. intros H. apply andb_true_iff in H as [_ H].
  destruct v; try (destruct k; reflexivity). unfold zextra_ok in H. cbn [is_zone] in H. apply andb_true_iff in H as [_ H].
  destruct k; [discriminate H|reflexivity].
Qed.
Lemma emit_block_linesz k ch l D : forallb corez_node ch = true ->
  emit_node_lines (NBlock k None ch l) D =
  emit_leading l D ++ [ind D ++ k ++ [] ++ [c_colon]] ++ flat_map (fun c => emit_node_lines c (S D)) ch.
Proof.
  intros H. cbn [emit_node_lines truthy]. f_equal. f_equal.
  induction ch as [|c cs IH]; [reflexivity|]. cbn [forallb] in H. apply andb_true_iff in H as [H1 H2].
  cbn [flat_map]. rewrite (corez_child_lines c D H1), (IH H2). reflexivity.
Qed.

Lemma nlcat_zmids c : nlcat (zmids c) = match c with [] => [] | _ => c ++ [c_nl] end.
Proof.
  unfold zmids, ZonesRt.content_lines. destruct c as [|x c]; [reflexivity|]. set (s := x :: c).
  change (nlcat (split_on c_nl s)) with (unlines (split_on c_nl s)).
  rewrite <- (join_unlines _ (split_on_nonempty c_nl s)), LexLinkBase.join_split. reflexivity.
Qed.
Lemma zone_node_lines k c tag m l t D :
  unlines (emit_node_lines (NAssign k (VZone c tag m) l t) D) =
  unlines (emit_leading l D ++ [ind D ++ k ++ s_assign]) ++ blk_text (BZ D m tag c).
Proof.
  rewrite emit_node_zone_lines. cbn [blk_text]. unfold zbody, zopen, zclose. rewrite nlcat_zmids.
  change (emit_leading l D ++ (ind D ++ k ++ s_assign) :: ?x) with (emit_leading l D ++ [ind D ++ k ++ s_assign] ++ x).
  rewrite app_assoc, unlines_app. f_equal.
  destruct c as [|x c]; cbn [unlines flat_map]; rewrite ?app_nil_r; repeat (progress (rewrite <- ?app_assoc; cbn [app])); reflexivity.
Qed.

Lemma nodes_blocks_text ch D : Forall (fun n => forall D, corez_node n = true -> blocks_text (node_blocks n D) = unlines (emit_node_lines n D)) ch ->
  forallb corez_node ch = true -> blocks_text (nodes_blocks ch D) = unlines (flat_map (fun c => emit_node_lines c D) ch).
Proof.
  induction 1 as [|c cs Hc _ IH]; intros H; [reflexivity|]. cbn [forallb] in H. apply andb_true_iff in H as [H1 H2].
  unfold nodes_blocks in *. cbn [flat_map]. rewrite blocks_text_app, unlines_app, (Hc D H1), (IH H2). reflexivity.
Qed.
Lemma node_blocks_text : forall n D, corez_node n = true -> blocks_text (node_blocks n D) = unlines (emit_node_lines n D).
Proof.
  induction n using node_ind2; intros D Hc.
  - cbn [node_blocks]. destruct v; try apply bt_text.
    rewrite blocks_text_app, bt_text, zone_node_lines. cbn [blocks_text flat_map]. rewrite app_nil_r. reflexivity.
  - cbn [corez_node] in Hc. destruct t; [discriminate|]. apply andb_true_iff in Hc as [_ Hcc].
    cbn [node_blocks]. rewrite blocks_text_app, bt_text, (emit_block_linesz k ch l D Hcc), (app_assoc (emit_leading l D)), (unlines_app (emit_leading l D ++ _)). f_equal.
    exact (nodes_blocks_text ch (S D) H Hcc).
  - cbn [corez_node] in Hc. apply andb_true_iff in Hc as [_ Hc]. apply andb_true_iff in Hc as [_ Hcc].
    cbn [node_blocks]. rewrite blocks_text_app, bt_text, (emit_section_lines2 i k a ch l D), (app_assoc (emit_leading l D)), (unlines_app (emit_leading l D ++ _)). f_equal.
    exact (nodes_blocks_text ch (S D) H Hcc).
  - discriminate Hc.
Qed.

Lemma corez_parts d : corez_doc d = true ->
  dfront d = None /\ forallb corez_node (dsections d) = true /\ forallb meta_field_ok (dmeta d) = true.
Proof.
  unfold corez_doc. destruct (dfront d); [discriminate|]. intros Hc.
  apply andb_true_iff in Hc as [Hc _]. apply andb_true_iff in Hc as [Hc _]. apply andb_true_iff in Hc as [Hc Hm]. apply andb_true_iff in Hc as [Hc _].
  repeat split; assumption.
Qed.
Lemma safez_parts d : lex_safez_doc d = true ->
  name_ok (dname d) = true /\ (match dgrammar d with Some g => ver_ok g | None => true end) = true /\
  forallb lex_safez_node (dsections d) = true /\ forallb meta_ok (dmeta d) = true /\ forallb comment_ok (dtrailing d) = true.
Proof.
  unfold lex_safez_doc. intros Hs.
  apply andb_true_iff in Hs as [Hs Htr]. apply andb_true_iff in Hs as [Hs Hm]. apply andb_true_iff in Hs as [Hs Hn]. apply andb_true_iff in Hs as [Hname Hg].
  repeat split; assumption.
Qed.

Lemma emit_lines_corez sp d : corez_doc d = true -> lex_safez_doc d = true ->
  emit_lines sp d = prefix_lines d ++ flat_map (fun n => emit_node_lines n 0) (dsections d) ++ suffix_lines d.
Proof.
  intros Hc Hs. destruct (corez_parts d Hc) as (Hfr & Hcn & Hmf). destruct (safez_parts d Hs) as (_ & Hg & _).
  unfold emit_lines, prefix_lines, suffix_lines, grammar_lines. rewrite Hfr. cbn [app].
  assert (Esec : flat_map (fun n => match n with NComment _ => [] | _ => emit_node_lines n 0 end) (dsections d) =
                 flat_map (fun n => emit_node_lines n 0) (dsections d)).
  { clear -Hcn. induction (dsections d) as [|c cs IH]; [reflexivity|]. cbn [forallb] in Hcn. apply andb_true_iff in Hcn as [H1 H2].
    cbn [flat_map]. rewrite (IH H2). destruct c; try reflexivity. discriminate H1. }
  rewrite Esec.
  assert (Eg : match truthy (dgrammar d) with Some g => [s_octave ++ g] | None => [] end =
               match dgrammar d with Some g => [s_octave ++ g] | None => [] end).
  { destruct (dgrammar d) as [g|]; [|reflexivity]. destruct (ver_ok_nonempty _ Hg) as (x & r & ->). reflexivity. }
  rewrite Eg. unfold meta_lines. destruct (dmeta d) as [|kv m] eqn:Em.
  - repeat (progress (rewrite <- ?app_assoc; cbn [app])). reflexivity.
  - cbv zeta. rewrite (emit_meta_lines_core _ Hmf). cbn [map]. repeat (progress (rewrite <- ?app_assoc; cbn [app])). reflexivity.
Qed.

Theorem doc_blocks_text sp d : corez_doc d = true -> lex_safez_doc d = true -> blocks_text (doc_blocks d) = emit sp d.
Proof.
  intros Hc Hs. rewrite emit_unlines, (emit_lines_corez sp d Hc Hs). destruct (corez_parts d Hc) as (_ & Hcn & _).
  unfold doc_blocks. rewrite !blocks_text_app, !bt_text, !unlines_app. f_equal. f_equal.
  apply nodes_blocks_text; [|exact Hcn]. apply Forall_forall. intros n _ D. apply node_blocks_text.
Qed.

(* ---- the blocks are well formed --------------------------------------------------------------------------------------------------------------------------------------------- *)
Lemma forallb_flat {A B} (p : B -> bool) (f : A -> list B) l : Forall (fun x => forallb p (f x) = true) l -> forallb p (flat_map f l) = true.
Proof. induction 1 as [|x r Hx _ IH]; [reflexivity|]. cbn [flat_map]. rewrite forallb_app, Hx, IH. reflexivity. Qed.

Lemma node_blocks_ok : forall n, corez_node n = true -> lex_safez_node n = true -> forall D, forallb (blk_ok cls) (node_blocks n D) = true.
Proof.
  apply (node_ind2 (fun n => corez_node n = true -> lex_safez_node n = true -> forall D, forallb (blk_ok cls) (node_blocks n D) = true)).
  - intros k v l t Hc Hs D. destruct (is_zone v) eqn:Hz.
    + destruct v; try discriminate Hz. cbn [node_blocks lex_safez_node lex_safez_val] in *.
      apply andb_true_iff in Hs as [Hs Hl]. apply andb_true_iff in Hs as [Hk Hv].
      rewrite forallb_app. cbn [forallb blk_ok]. rewrite Hv, andb_true_r. apply bt_ok.
      rewrite tok_text_unlines_app, (tok_leading D l Hl), tok_unlines1. cbn [andb].
      apply line_tok. exact (line_ok_key D k s_assign Hk eq_refl).
    + destruct (nonzone_core2 k v l t Hz Hc Hs) as [Hc2 Hs2].
      assert (E : node_blocks (NAssign k v l t) D = bt (emit_node_lines (NAssign k v l t) D)) by (destruct v; try reflexivity; discriminate Hz).
      rewrite E. apply bt_ok. exact (node_text_ok _ Hc2 Hs2 D).
  - intros k tg ch l IH Hc Hs D. cbn [corez_node] in Hc. destruct tg; [discriminate|].
    apply andb_true_iff in Hc as [_ Hcc]. cbn [lex_safez_node] in Hs. apply andb_true_iff in Hs as [Hs Hss]. apply andb_true_iff in Hs as [Hk Hl].
    cbn [node_blocks]. rewrite forallb_app. apply andb_true_iff. split.
    + apply bt_ok. rewrite tok_text_unlines_app, (tok_leading D l Hl), tok_unlines1. cbn [andb].
      apply line_tok. exact (line_ok_key D k ([] ++ [c_colon]) Hk eq_refl).
    + apply forallb_flat. clear -IH Hcc Hss. induction ch as [|c cs IHc]; [constructor|]. inversion IH as [|? ? Pc Pcs]; subst.
      cbn [forallb] in Hcc, Hss. apply andb_true_iff in Hcc as [Hc1 Hc2]. apply andb_true_iff in Hss as [Hs1 Hs2].
      constructor; [exact (Pc Hc1 Hs1 (S D))|exact (IHc Pcs Hc2 Hs2)].
  - intros i k a ch l IH Hc Hs D. cbn [corez_node] in Hc. apply andb_true_iff in Hc as [Hne Hc]. apply andb_true_iff in Hc as [_ Hcc].
    cbn [lex_safez_node] in Hs. apply andb_true_iff in Hs as [Hs Hss]. apply andb_true_iff in Hs as [Hs Hl].
    apply andb_true_iff in Hs as [Hs Ha]. apply andb_true_iff in Hs as [Hi Hk].
    cbn [node_blocks]. rewrite forallb_app. apply andb_true_iff. split.
    + apply bt_ok. rewrite tok_text_unlines_app, (tok_leading D l Hl), tok_unlines1. cbn [andb].
      apply line_tok. unfold LexLink.line_ok. rewrite !plain_app, plain_ind, (plain_sid _ Hi), (plain_keyok _ Hk). cbn [andb].
      assert (Pa : plain (annot_text a) = true).
      { destruct a as [[|x a']|]; try reflexivity. cbn [annot_ok annot_text] in *. rewrite !plain_app, (plain_keyok _ Ha). reflexivity. }
      rewrite Pa. cbn [andb app]. apply fence_free_ind; chr.
    + apply forallb_flat. clear -IH Hcc Hss. induction ch as [|c cs IHc]; [constructor|]. inversion IH as [|? ? Pc Pcs]; subst.
      cbn [forallb] in Hcc, Hss. apply andb_true_iff in Hcc as [Hc1 Hc2]. apply andb_true_iff in Hss as [Hs1 Hs2].
      constructor; [exact (Pc Hc1 Hs1 (S D))|exact (IHc Pcs Hc2 Hs2)].
  - intros t Hc; discriminate Hc.
Qed.

Lemma prefix_text_ok d : forallb meta_field_ok (dmeta d) = true -> lex_safez_doc d = true -> tok_text (unlines (prefix_lines d)) = true.
Proof.
  intros Hmf Hs. destruct (safez_parts d Hs) as (Hname & Hg & _ & Hm & _). unfold prefix_lines, grammar_lines.
  assert (A1 : tok_text (unlines (match dgrammar d with Some g => [s_octave ++ g] | None => [] end)) = true).
  { destruct (dgrammar d) as [g|]; [|reflexivity]. rewrite tok_unlines1. apply line_tok. unfold LexLink.line_ok. rewrite plain_app, (plain_ver _ Hg). reflexivity. }
  assert (A2 : tok_text (s_env ++ dname d ++ s_env) = true).
  { apply line_tok. unfold LexLink.line_ok. unfold name_ok in Hname. apply andb_true_iff in Hname as [Hw _].
    rewrite !plain_app, (plain_key _ (word_ok_chars _ Hw)). reflexivity. }
  assert (A3 : tok_text (unlines (meta_lines (dmeta d))) = true).
  { unfold meta_lines. destruct (dmeta d) as [|kv0 m0]; [reflexivity|]. set (m := kv0 :: m0) in *. clearbody m.
    rewrite tok_text_unlines_cons. change (tok_text s_meta_hdr) with true. cbn [andb].
    induction m as [|kv m IH]; [reflexivity|]. cbn [forallb map] in *.
    apply andb_true_iff in Hmf as [F1 F2]. apply andb_true_iff in Hm as [M1 M2].
    rewrite tok_text_unlines_cons, (IH F2 M2), andb_true_r.
    destruct (meta_field_parts kv F1 M1) as (v & _ & Hcv & Hk & -> & Hok).
    replace (ind 1 ++ fst kv ++ s_assign ++ val_text 1 v ++ emit_trailing None) with ((ind 1 ++ fst kv ++ s_assign) ++ val_text 1 v ++ [])
      by (rewrite <- !app_assoc; reflexivity).
    apply tok_val_line; [exact Hcv|exact Hok|apply key_pfx; [exact Hk|reflexivity]|reflexivity]. }
  assert (A4 : tok_text (unlines (if dsep d then [s_sep] else [])) = true) by (destruct (dsep d); reflexivity).
  rewrite !tok_text_unlines_app, A1, A3, A4, tok_unlines1, A2. reflexivity.
Qed.

Theorem doc_blocks_ok d : corez_doc d = true -> lex_safez_doc d = true -> forallb (blk_ok cls) (doc_blocks d) = true.
Proof.
  intros Hc Hs. destruct (corez_parts d Hc) as (_ & Hcn & Hmf). destruct (safez_parts d Hs) as (_ & _ & Hn & _ & Htr).
  unfold doc_blocks. rewrite !forallb_app. apply andb_true_iff. split; [apply bt_ok; exact (prefix_text_ok d Hmf Hs)|].
  apply andb_true_iff. split.
  - apply forallb_flat. clear -Hcn Hn. induction (dsections d) as [|c cs IH]; [constructor|]. cbn [forallb] in Hcn, Hn.
    apply andb_true_iff in Hcn as [Hc1 Hc2]. apply andb_true_iff in Hn as [Hn1 Hn2].
    constructor; [exact (node_blocks_ok c Hc1 Hn1 0%nat)|exact (IH Hc2 Hn2)].
  - apply bt_ok. unfold suffix_lines. rewrite tok_text_unlines_app, (tok_leading 0 _ Htr). reflexivity.
Qed.
End Safe.

(* the identity oracle fixes everything *)
Lemma blk_fixed_id bs : Forall (blk_fixed (fun l => l)) bs.
Proof. apply Forall_forall. intros b _. destruct b; cbn [blk_fixed]; [intros l _; reflexivity|split; reflexivity]. Qed.

(* a decidable form of blk_fixed, for concrete oracles *)
Definition blk_fixedb (nf : str -> str) (b : blk) : bool :=
  match b with
  | BT u => forallb (fun l => str_eqb (nf l) l) (split_on c_nl u)
  | BZ D m tag c => str_eqb (nf (zopen D m tag)) (zopen D m tag) && str_eqb (nf (zclose D m)) (zclose D m)
  end.
Lemma blk_fixedb_ok nf bs : forallb (blk_fixedb nf) bs = true -> Forall (blk_fixed nf) bs.
Proof.
  intros H. apply Forall_forall. intros b Hb. rewrite forallb_forall in H. specialize (H b Hb). destruct b as [u|D m tag c]; cbn [blk_fixedb blk_fixed] in *.
  - intros l Hl. rewrite forallb_forall in H. apply str_eqb_eq. exact (H l Hl).
  - apply andb_true_iff in H as [H1 H2]. apply str_eqb_eq in H1, H2. split; assumption.
Qed.
