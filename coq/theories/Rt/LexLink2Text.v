(* Lexer half for the core2 fragment, part 3: the emitted TEXT of the wider layout in closed form.
     - gaps (nothing / newline + indentation) and `body_text`, the text counterpart of TokRound2.body_sh
     - `val_text D v`: the text of a scalar or of a list of scalars (empty, inline, multi-line), and the lemmas that the
       emitter produces exactly that text (emit_value's inner `lines` loop is unfolded once, here)
     - the side condition lex_safe2_doc *)
From OV Require Import Base.Strs Gen.LexerGen Syn.Escape Syn.Quote Syn.Ast Syn.Emitter Syn.Parser
     Lex.Lexer Rt.TokRound Rt.LexLinkBase Rt.LexLinkSteps Rt.LexLink Rt.TokRound2 Rt.LexLink2Base Rt.LexLink2Steps.
From Coq Require Import Lia.
Open Scope N_scope.

(* ---- gaps ------------------------------------------------------------------------------------------------------------ *)
Inductive gap := GNone | GNl (D : nat).
Definition gap_text (g : gap) : str := match g with GNone => [] | GNl D => c_nl :: ind D end.
Definition gap_sh (g : gap) : list sh := match g with GNone => [] | GNl D => nl_sh ++ indent_sh D end.

Fixpoint body_text (pre2 post pre : gap) (ts : list str) : str :=
  match ts with
  | [] => gap_text pre ++ s_rb
  | x :: r => gap_text pre ++ x ++
              match r with
              | [] => gap_text post ++ s_rb
              | _ => c_comma :: body_text pre2 post pre2 r
              end
  end.

(* ---- scalars ------------------------------------------------------------------------------------------------------------ *)
Definition sc_text (v : value) : str := match sval_of v with Some sv => sval_text sv | None => [] end.
(* the text sc_text v is read back as the one token vsh v *)
Definition scalar_ok (v : value) : bool :=
  match v with VNull => true | VBool _ => true | VNum _ c => num_ok c | VStr _ => true | _ => false end.
(* a list item / META value: emitted by emit_value alone (no always-quote key): a string must need quotes *)
Definition item_ok (v : value) : bool :=
  match v with VNull => true | VBool _ => true | VNum _ c => num_ok c | VStr s => needs_quotes s | _ => false end.

Lemma item_scalar_ok v : item_ok v = true -> scalar_ok v = true.
Proof. destruct v; cbn; intros H; try exact H; reflexivity. Qed.
Lemma item_is_scalar v : item_ok v = true -> is_scalar v = true.
Proof. destruct v; cbn; intros H; try discriminate H; reflexivity. Qed.
Lemma item_text v D : item_ok v = true -> emit_value v D = sc_text v.
Proof.
  destruct v; cbn [item_ok]; intros H; try discriminate H; try reflexivity.
  cbn [emit_value]. unfold emit_str, sc_text. rewrite H. reflexivity.
Qed.

Definition val_text (D : nat) (v : value) : str :=
  match v with
  | VList [] => s_empty_list
  | VList items =>
      c_lbr :: (if needs_multiline items then body_text (GNl (S D)) (GNl D) (GNl (S D)) (map sc_text items)
                else body_text GNone GNone GNone (map sc_text items))
  | _ => sc_text v
  end.
Definition val_ok (v : value) : bool :=
  match v with VList items => forallb scalar_ok items | _ => scalar_ok v end.

(* ---- emit_value on a list of scalars ---------------------------------------------------------------------------------- *)
Section ML.
Variables (D n : nat).
Fixpoint ml_lines (ps : list str) (i : nat) : list str :=
  match ps with
  | [] => []
  | p :: ps' => (ind (S D) ++ p ++ (if Nat.ltb (S i) n then [c_comma] else [])) :: ml_lines ps' (S i)
  end.
End ML.

Definition ml_parts (D : nat) (items : list value) : list str :=
  flat_map (fun it =>
    match it with
    | VAbsent => []
    | VMap pairs =>
        let ps := flat_map (fun p => if is_absent (snd p) then []
                                     else [fst p ++ s_assign ++ force_quote (fst p) (snd p) (emit_value (snd p) (S D))]) pairs in
        match ps with [] => [] | _ => [join [c_comma] ps] end
    | _ => [emit_value it (S D)]
    end) items.
Definition il_parts (D : nat) (items : list value) : list str :=
  flat_map (fun it =>
    match it with
    | VAbsent => []
    | VMap pairs => if map_has_present pairs then [emit_value it D] else []
    | _ => [emit_value it D]
    end) items.

Lemma emit_list_unfold D x r :
  emit_value (VList (x :: r)) D =
  if needs_multiline (x :: r) then
    match ml_parts D (x :: r) with
    | [] => s_empty_list
    | _ :: _ => join [c_nl] (s_lb :: ml_lines D (length (ml_parts D (x :: r))) (ml_parts D (x :: r)) O ++ [ind D ++ s_rb])
    end
  else s_lb ++ join [c_comma] (il_parts D (x :: r)) ++ s_rb.
Proof. reflexivity. Qed.

Lemma ml_parts_items D items : forallb item_ok items = true -> ml_parts D items = map sc_text items.
Proof.
  induction items as [|x r IH]; [reflexivity|]. cbn [forallb]. intros H. apply andb_true_iff in H as [H1 H2].
  unfold ml_parts in *. cbn [flat_map map]. rewrite (IH H2), <- (item_text x (S D) H1).
  destruct x; cbn [item_ok] in H1; try discriminate H1; reflexivity.
Qed.
Lemma il_parts_items D items : forallb item_ok items = true -> il_parts D items = map sc_text items.
Proof.
  induction items as [|x r IH]; [reflexivity|]. cbn [forallb]. intros H. apply andb_true_iff in H as [H1 H2].
  unfold il_parts in *. cbn [flat_map map]. rewrite (IH H2), <- (item_text x D H1).
  destruct x; cbn [item_ok] in H1; try discriminate H1; reflexivity.
Qed.

Lemma join_cons2 sep (a b : str) l : join sep (a :: b :: l) = a ++ sep ++ join sep (b :: l).
Proof. reflexivity. Qed.

Lemma inline_body ps : ps <> [] -> join [c_comma] ps ++ s_rb = body_text GNone GNone GNone ps.
Proof.
  induction ps as [|x r IH]; [congruence|]. intros _. destruct r as [|y r'].
  - reflexivity.
  - rewrite join_cons2, <- !app_assoc, IH by discriminate. reflexivity.
Qed.

Lemma ml_body D n ps : ps <> [] -> forall i, (i + length ps = n)%nat ->
  c_nl :: join [c_nl] (ml_lines D n ps i ++ [ind D ++ s_rb]) = body_text (GNl (S D)) (GNl D) (GNl (S D)) ps.
Proof.
  induction ps as [|x r IH]; [congruence|]. intros _ i Hi. cbn [length] in Hi. destruct r as [|y r'].
  - cbn [ml_lines app join body_text gap_text length] in *.
    assert (E : Nat.ltb (S i) n = false) by (apply Nat.ltb_ge; lia). rewrite E, app_nil_r.
    rewrite <- !app_assoc. reflexivity.
  - assert (E : Nat.ltb (S i) n = true) by (apply Nat.ltb_lt; cbn [length] in Hi; lia).
    specialize (IH ltac:(discriminate) (S i) ltac:(cbn [length] in *; lia)).
    cbn [ml_lines app] in IH |- *. rewrite join_cons2, E.
    change ([c_nl] ++ ?z) with (c_nl :: z). rewrite <- ?app_assoc. cbn [app]. rewrite IH.
    cbn [body_text gap_text]. cbn [app]. rewrite <- ?app_assoc. reflexivity.
Qed.

Lemma join_cons_ne sep (a : str) l : l <> [] -> join sep (a :: l) = a ++ sep ++ join sep l.
Proof. destruct l; [congruence|reflexivity]. Qed.

Lemma emit_list_text D items : forallb item_ok items = true -> emit_value (VList items) D = val_text D (VList items).
Proof.
  intros H. destruct items as [|x r]; [reflexivity|].
  rewrite emit_list_unfold. cbn [val_text].
  rewrite (ml_parts_items D _ H), (il_parts_items D _ H).
  destruct (needs_multiline (x :: r)).
  - cbn [map]. rewrite join_cons_ne by (intros E; apply app_eq_nil in E as [_ E]; discriminate E).
    unfold s_lb. cbn [app]. f_equal.
    apply (ml_body D _ (sc_text x :: map sc_text r)); [discriminate|reflexivity].
  - unfold s_lb. cbn [app]. rewrite inline_body by discriminate. reflexivity.
Qed.

(* ---- the side condition ------------------------------------------------------------------------------------------------ *)
(* values: as in lex_safe_doc for scalars (under the key's always-quote rule); list items are emitted by emit_value alone *)
Definition lex_safe2_val (k : str) (v : value) : bool :=
  match v with VList items => forallb item_ok items | _ => lex_safe_val k v end.
(* comments: no newline, no tab (E005), and the text is its own `strip`: empty, or first and last character ASCII non-blank *)
Definition trail_ok (t : option str) : bool := match t with Some c => comment_ok c | None => true end.
(* section ids: all digits (read as NUMBER) or an identifier word (read as IDENTIFIER) *)
Definition sid_ok (i : str) : bool := digs i || key_ok i.
Definition annot_ok (a : option str) : bool := match a with Some x => key_ok x | None => true end.

Fixpoint lex_safe2_node (n : node) : bool :=
  match n with
  | NAssign k v l t => key_ok k && lex_safe2_val k v && forallb comment_ok l && trail_ok t
  | NBlock k _ ch l => key_ok k && forallb comment_ok l && forallb lex_safe2_node ch
  | NSection i k a ch l => sid_ok i && key_ok k && annot_ok a && forallb comment_ok l && forallb lex_safe2_node ch
  | NComment _ => false
  end.

Definition meta_val_ok (v : value) : bool := match v with VList items => forallb item_ok items | _ => item_ok v end.
Definition meta_ok (kv : str * metaval) : bool :=
  key_ok (fst kv) && match snd kv with MV v => meta_val_ok v | MD _ => false end.

Definition lex_safe2_doc (d : doc) : bool :=
  name_ok (dname d) && (match dgrammar d with Some g => ver_ok g | None => true end) &&
  forallb lex_safe2_node (dsections d) && forallb meta_ok (dmeta d) && forallb comment_ok (dtrailing d).

(* ---- the emitter produces val_text ----------------------------------------------------------------------------------------- *)
Lemma assign_val_text k v D : cval v = true -> lex_safe2_val k v = true ->
  force_quote k v (emit_value v D) = val_text D v /\ val_ok v = true.
Proof.
  intros Hc Hs. destruct v; cbn [cval is_scalar sval_of] in Hc; try discriminate Hc.
  - split; reflexivity.
  - split; reflexivity.
  - split; [reflexivity|exact Hs].
  - split; [|reflexivity]. exact (value_text k (VStr s) (SStr s) D Hs eq_refl).
  - cbn [lex_safe2_val] in Hs. split; [cbn [force_quote]; apply emit_list_text; exact Hs|].
    cbn [val_ok]. eapply forallb_impl; [|exact Hs]. apply item_scalar_ok.
Qed.

Lemma meta_val_text v D : cval v = true -> meta_val_ok v = true -> emit_value v D = val_text D v /\ val_ok v = true.
Proof.
  intros Hc Hs. destruct v; cbn [cval is_scalar sval_of] in Hc; try discriminate Hc;
    try (split; [exact (item_text _ D Hs)|exact (item_scalar_ok _ Hs)]).
  cbn [meta_val_ok] in Hs. split; [apply emit_list_text; exact Hs|].
  cbn [val_ok]. eapply forallb_impl; [|exact Hs]. apply item_scalar_ok.
Qed.

(* ---- the emitted lines of a core2 node ---------------------------------------------------------------------------------------- *)
Lemma emit_assign_line2 k v l t D : cval v = true ->
  emit_node_lines (NAssign k v l t) D =
  emit_leading l D ++ [ind D ++ k ++ s_assign ++ force_quote k v (emit_value v D) ++ emit_trailing t].
Proof. destruct v; cbn [cval is_scalar sval_of]; intros E; try discriminate E; reflexivity. Qed.

Lemma core2_child_lines c D : core2_node c = true ->
  match c with
  | NAssign [] (VZone content tag marker) _ _ => zone_lines (S D) content tag marker
  | _ => emit_node_lines c (S D)
  end = emit_node_lines c (S D).
Proof.
  destruct c as [k v l t| | |]; try reflexivity. cbn [core2_node]. intros H. apply andb_true_iff in H as [H _].
  destruct v; cbn [cval is_scalar sval_of] in H; try discriminate H; destruct k; reflexivity.
Qed.

Lemma emit_block_lines2 k ch l D : forallb core2_node ch = true ->
  emit_node_lines (NBlock k None ch l) D =
  emit_leading l D ++ [ind D ++ k ++ [] ++ [c_colon]] ++ flat_map (fun c => emit_node_lines c (S D)) ch.
Proof.
  intros H. cbn [emit_node_lines truthy]. f_equal. f_equal.
  induction ch as [|c cs IH]; [reflexivity|]. cbn [forallb] in H. apply andb_true_iff in H as [H1 H2].
  cbn [flat_map]. rewrite (core2_child_lines c D H1), (IH H2). reflexivity.
Qed.

Definition annot_text (a : option str) : str := match a with Some (x :: r) => [c_lbr] ++ (x :: r) ++ [c_rbr] | _ => [] end.
Lemma emit_section_lines2 i k a ch l D :
  emit_node_lines (NSection i k a ch l) D =
  emit_leading l D ++ [ind D ++ [167] ++ i ++ s_assign ++ k ++ annot_text a] ++ flat_map (fun c => emit_node_lines c (S D)) ch.
Proof. destruct a as [[|x r]|]; reflexivity. Qed.

Definition meta_line (kv : str * metaval) : str :=
  ind 1 ++ fst kv ++ s_assign ++ match snd kv with MV v => emit_value v 1 | MD _ => [] end.
Lemma emit_meta_lines_core m : forallb meta_field_ok m = true -> emit_meta_lines m = map meta_line m.
Proof.
  induction m as [|[k mv] m IH]; [reflexivity|]. cbn [forallb]. intros H. apply andb_true_iff in H as [H1 H2].
  unfold emit_meta_lines in *. cbn [flat_map map]. rewrite (IH H2).
  unfold meta_field_ok in H1. cbn [snd] in H1. destruct mv as [v|]; [|discriminate H1].
  cbn [snd fst]. destruct v; cbn [cval is_scalar sval_of] in H1; try discriminate H1; reflexivity.
Qed.
